import QipVerif.Model.SimKet
import QipVerif.Lemmas.EmbedList
import QipVerif.Lemmas.Digits
import Mathlib.Data.List.Nodup
/-!
# C01 — list facts about the einsum index lists and the two-operand `einsum` (lists only; one Mathlib list module)

Everything here is independent of the scalars (`Ops α` carries no laws): the statements say *which*
entries of the gate tensor and of the state tensor are multiplied and summed.
-/
namespace QipVerif.SimKet
open QipVerif.Embed

variable {α : Type}

/-! ## `dedup`, `lookup`, `labelDim` -/

theorem mem_dedup {l : List Nat} {x : Nat} : x ∈ dedup l ↔ x ∈ l := by
  induction l with
  | nil => simp [dedup]
  | cons a as ih =>
    simp only [dedup, List.mem_cons, List.mem_filter, ih, bne_iff_ne, ne_eq]
    constructor
    · rintro (h | ⟨h, _⟩)
      · exact Or.inl h
      · exact Or.inr h
    · rintro (h | h)
      · exact Or.inl h
      · by_cases hx : x = a
        · exact Or.inl hx
        · exact Or.inr ⟨h, hx⟩

theorem dedup_of_nodup {l : List Nat} (h : l.Nodup) : dedup l = l := by
  induction l with
  | nil => rfl
  | cons a as ih =>
    have ha : a ∉ as := (List.nodup_cons.mp h).1
    simp only [dedup, ih (List.nodup_cons.mp h).2]
    congr 1
    rw [List.filter_eq_self]
    intro b hb
    simp only [bne_iff_ne, ne_eq]
    intro hba
    exact ha (hba ▸ hb)

theorem dedup_append (a b : List Nat) :
    dedup (a ++ b) = dedup a ++ (dedup b).filter (fun x => !a.contains x) := by
  induction a with
  | nil => simp only [List.nil_append, dedup, List.contains_nil, Bool.not_false]; exact (List.filter_eq_self.mpr (fun _ _ => rfl)).symm
  | cons x a ih =>
    simp only [List.cons_append, dedup, ih, List.filter_append, List.filter_filter]
    congr 2
    apply List.filter_congr
    intro y _
    by_cases h : y = x <;> simp [h]

theorem not_contains_iff (l : List Nat) (a : Nat) : (!l.contains a) = true ↔ a ∉ l := by simp

theorem dedup_nodup (l : List Nat) : (dedup l).Nodup := by
  induction l with
  | nil => simp [dedup]
  | cons a as ih =>
    simp only [dedup, List.nodup_cons, List.mem_filter, bne_self_eq_false, Bool.false_eq_true,
      and_false, not_false_eq_true, true_and]
    exact ih.filter _

/-- reading a key that is the `i`-th of duplicate-free keys -/
theorem lookup_zip_getElem (ks vs : List Nat) (rest : List (Nat × Nat)) (hk : ks.Nodup)
    (i : Nat) (h1 : i < ks.length) (h2 : i < vs.length) :
    lookup (ks.zip vs ++ rest) ks[i] = vs[i] := by
  induction ks generalizing vs i with
  | nil => simp at h1
  | cons k ks ih =>
    match vs, h2 with
    | v :: vs, h2 =>
      cases i with
      | zero => simp [lookup]
      | succ i =>
        have hne : k ≠ ks[i]'(by simpa using h1) := by
          intro h
          exact (List.nodup_cons.mp hk).1 (h ▸ List.getElem_mem _)
        simp only [List.zip_cons_cons, List.cons_append, lookup, List.getElem_cons_succ, if_neg hne]
        exact ih vs (List.nodup_cons.mp hk).2 i (by simpa using h1) (by simpa using h2)

theorem lookup_zip_not_mem (ks vs : List Nat) (rest : List (Nat × Nat)) (l : Nat) (h : l ∉ ks) :
    lookup (ks.zip vs ++ rest) l = lookup rest l := by
  induction ks generalizing vs with
  | nil => simp
  | cons k ks ih =>
    cases vs with
    | nil => simp
    | cons v vs =>
      have hk : k ≠ l := fun e => h (e ▸ List.mem_cons_self)
      simp only [List.zip_cons_cons, List.cons_append, lookup, if_neg hk]
      exact ih vs (fun hm => h (List.mem_cons_of_mem _ hm))

theorem labelDim_replicate (ls : List Nat) (d l : Nat) :
    labelDim ls (List.replicate ls.length d) l = if l ∈ ls then some d else none := by
  induction ls with
  | nil => simp [labelDim]
  | cons a as ih =>
    simp only [List.length_cons, List.replicate_succ, labelDim, ih, List.mem_cons]
    by_cases h : a = l
    · simp [h]
    · have : ¬ l = a := fun e => h e.symm
      simp [h, this]

theorem labelDim_range' (s : Nat) (sh : List Nat) (l : Nat) (h1 : s ≤ l) (h2 : l < s + sh.length) :
    labelDim (List.range' s sh.length) sh l = sh[l - s]? := by
  induction sh generalizing s with
  | nil => simp at h2; omega
  | cons d ds ih =>
    simp only [List.length_cons, List.range'_succ, labelDim]
    by_cases h : s = l
    · subst h; simp
    · rw [if_neg h, ih (s + 1) (by omega) (by simp at h2; omega)]
      have : l - s = (l - (s + 1)) + 1 := by omega
      rw [this, List.getElem?_cons_succ]

theorem labelDim_not_mem (ls sh : List Nat) (l : Nat) (h : l ∉ ls) : labelDim ls sh l = none := by
  induction ls generalizing sh with
  | nil => cases sh <;> rfl
  | cons a as ih =>
    cases sh with
    | nil => rfl
    | cons d ds =>
      have : a ≠ l := fun e => h (e ▸ List.mem_cons_self)
      simp only [labelDim, if_neg this]
      exact ih ds (fun hm => h (List.mem_cons_of_mem _ hm))

/-! ## The four index lists -/

/-- the label at position `p` of `new_index_list` -/
def newLabel (n : Nat) (qs : List Nat) (p : Nat) : Nat := if p ∈ qs then n + qs.idxOf p else p

theorem einLists_new (n : Nat) (qs : List Nat) (hn : qs.Nodup) :
    (einLists n qs).new = (List.range n).map (newLabel n qs) := by
  apply List.ext_getElem?
  intro p
  simp only [einLists]
  rw [assignSeq_get _ _ _ hn]
  by_cases hp : p < n
  · by_cases hq : p ∈ qs <;> simp [hp, hq, newLabel]
  · by_cases hq : p ∈ qs <;> simp [hp, hq]

theorem newLabel_inj (n : Nat) (qs : List Nat) {p p' : Nat} (hp : p < n) (hp' : p' < n)
    (h : newLabel n qs p = newLabel n qs p') : p = p' := by
  unfold newLabel at h
  by_cases h1 : p ∈ qs <;> by_cases h2 : p' ∈ qs <;> simp only [h1, h2, if_true, if_false] at h
  · have : qs.idxOf p = qs.idxOf p' := by omega
    have e1 := List.getElem_idxOf (List.idxOf_lt_length_of_mem h1)
    have e2 := List.getElem_idxOf (List.idxOf_lt_length_of_mem h2)
    simp only [this] at e1
    exact e1.symm.trans e2
  · omega
  · omega
  · exact h

theorem new_nodup (n : Nat) (qs : List Nat) (hn : qs.Nodup) : (einLists n qs).new.Nodup := by
  rw [einLists_new n qs hn, List.nodup_map_iff_inj_on List.nodup_range]
  intro a ha b hb h
  exact newLabel_inj n qs (List.mem_range.mp ha) (List.mem_range.mp hb) h

theorem not_mem_new (n : Nat) (qs : List Nat) (hn : qs.Nodup) (hr : ∀ q ∈ qs, q < n) {q : Nat} (hq : q ∈ qs) :
    q ∉ (einLists n qs).new := by
  rw [einLists_new n qs hn, List.mem_map]
  rintro ⟨p, _, h⟩
  unfold newLabel at h
  by_cases h1 : p ∈ qs
  · rw [if_pos h1] at h; have := hr q hq; omega
  · rw [if_neg h1] at h; exact h1 (h ▸ hq)

/-- **The four index lists of `_evolve_state_einsum`**, for every number of sites and every injective
in-range list of acted-on qubits: the gate's output axes get fresh labels `n … n+k-1`, its input axes
the labels of the qubits, the state the labels `0 … n-1`, and the output list is the state's list
with position `targets[j]` replaced by the fresh label `n + j`. -/
theorem einLists_spec (n : Nat) (qs : List Nat) (hn : qs.Nodup) (hr : ∀ q ∈ qs, q < n) :
    (einLists n qs).anc = List.range' n qs.length ∧ (einLists n qs).tgt = qs ∧
    (einLists n qs).idx = List.range n ∧ (einLists n qs).new.length = n ∧
    (∀ j (hj : j < qs.length), (einLists n qs).new[qs[j]]? = some (n + j)) ∧
    (∀ p, p < n → p ∉ qs → (einLists n qs).new[p]? = some p) ∧
    (∀ a ∈ (einLists n qs).anc, a ∉ (einLists n qs).idx ∧ a ∉ (einLists n qs).tgt) ∧
    (einLists n qs).new.Nodup ∧ (∀ q ∈ qs, q ∉ (einLists n qs).new) := by
  refine ⟨rfl, rfl, rfl, ?_, ?_, ?_, ?_, new_nodup n qs hn, fun q hq => not_mem_new n qs hn hr hq⟩
  · simp [einLists, assignSeq_length]
  · intro j hj
    have hq : qs[j] ∈ qs := List.getElem_mem hj
    rw [einLists_new n qs hn, List.getElem?_map, List.getElem?_range (hr _ hq)]
    simp [newLabel, hq, hn.idxOf_getElem j hj]
  · intro p hp hq
    rw [einLists_new n qs hn, List.getElem?_map, List.getElem?_range hp]
    simp [newLabel, hq]
  · intro a ha
    simp only [einLists, List.mem_range'_1, List.mem_range] at ha ⊢
    refine ⟨by omega, fun h => ?_⟩
    have := hr a h; omega

/-! ## What one `einsum` step computes -/

/-- `x` with the entries at the positions `qs` replaced by the digits `b` -/
def substL (n : Nat) (qs x b : List Nat) : List Nat :=
  (List.range n).map fun p => if p ∈ qs then b.getD (qs.idxOf p) 0 else x.getD p 0

/-- the contraction the index lists prescribe, at the output position `x`:
`Σ_b gate[(x at qs), b] · state[x with qs ↦ b]` -/
def contractL (o : Ops α) (m : Nat) (qs : List Nat) (U : List (List α)) (st : Tensor α) (x : List Nat) : α :=
  sumL o ((List.range (2 ^ m)).map fun s =>
    o.mul ((gateTensor m U).get o (qs.map (fun q => x.getD q 0) ++ digits (List.replicate m 2) s))
      (st.get o (substL st.shape.length qs x (digits (List.replicate m 2) s))))

section step
variable (sh qs : List Nat)

theorem qs_lt (hr : ∀ q ∈ qs, sh[q]? = some 2) {q : Nat} (hq : q ∈ qs) : q < sh.length := by
  have := hr q hq
  by_contra h
  rw [List.getElem?_eq_none (by omega)] at this
  cases this

private abbrev LA := List.range' sh.length qs.length ++ qs
private abbrev SHA := List.replicate (2 * qs.length) 2

theorem dimOf_la {l : Nat} (hl : l ∈ LA sh qs) :
    dimOf (LA sh qs) (SHA qs) (List.range sh.length) sh l = 2 := by
  have : SHA qs = List.replicate (LA sh qs).length 2 := by simp [SHA, LA]; omega
  simp only [dimOf]
  rw [this, labelDim_replicate, if_pos hl]

theorem dimOf_rest {p : Nat} (hp : p < sh.length) (hq : p ∉ qs) :
    dimOf (LA sh qs) (SHA qs) (List.range sh.length) sh p = sh[p] := by
  have hnot : p ∉ LA sh qs := by
    simp only [LA, List.mem_append, List.mem_range'_1]
    rintro (h | h)
    · omega
    · exact hq h
  simp only [dimOf]
  rw [labelDim_not_mem _ _ _ hnot]
  have := labelDim_range' 0 sh p (Nat.zero_le _) (by omega)
  rw [List.range_eq_range']
  simp only [this, Nat.sub_zero, List.getElem?_eq_getElem hp, Option.getD_some]

theorem dimOf_idx (hr : ∀ q ∈ qs, sh[q]? = some 2) {p : Nat} (hp : p < sh.length) :
    dimOf (LA sh qs) (SHA qs) (List.range sh.length) sh p = sh[p] := by
  by_cases hq : p ∈ qs
  · rw [dimOf_la sh qs (List.mem_append_right _ hq)]
    have := hr p hq
    rw [List.getElem?_eq_getElem hp] at this
    exact (Option.some.inj this).symm
  · exact dimOf_rest sh qs hp hq

theorem dimsAgree_of (d : Nat → Nat) (ls shp : List Nat) (hl : ls.length = shp.length)
    (h : ∀ i (h1 : i < ls.length) (h2 : i < shp.length), d ls[i] = shp[i]) : dimsAgree d ls shp = true := by
  induction ls generalizing shp with
  | nil =>
    have : shp = [] := List.length_eq_zero_iff.mp (by simpa using hl.symm)
    subst this; rfl
  | cons l ls ih =>
    match shp, hl with
    | s :: shp, hl =>
      simp only [dimsAgree, Bool.and_eq_true, beq_iff_eq]
      refine ⟨h 0 (by simp) (by simp), ih shp (by simpa using hl) (fun i h1 h2 => ?_)⟩
      have := h (i + 1) (by simp; omega) (by simp; omega)
      simpa using this

theorem newLabel_dim (hr : ∀ q ∈ qs, sh[q]? = some 2) {p : Nat} (hp : p < sh.length) :
    dimOf (LA sh qs) (SHA qs) (List.range sh.length) sh (newLabel sh.length qs p) = sh[p] := by
  unfold newLabel
  by_cases hq : p ∈ qs
  · rw [if_pos hq, dimOf_la sh qs]
    · have := hr p hq
      rw [List.getElem?_eq_getElem hp] at this
      exact (Option.some.inj this).symm
    · apply List.mem_append_left
      have := List.idxOf_lt_length_of_mem hq
      simp only [List.mem_range'_1]; omega
  · rw [if_neg hq]; exact dimOf_rest sh qs hp hq

theorem einsumOk_step (hn : qs.Nodup) (hr : ∀ q ∈ qs, sh[q]? = some 2) : einsumOk (LA sh qs) (SHA qs) (List.range sh.length) sh (einLists sh.length qs).new = true := by
  have hlt : ∀ q ∈ qs, q < sh.length := fun q hq => qs_lt sh qs hr hq
  simp only [einsumOk, Bool.and_eq_true, beq_iff_eq]
  refine ⟨⟨⟨?_, ?_⟩, ?_⟩, ?_⟩
  · apply dimsAgree_of
    · simp [LA, SHA]; omega
    · intro i h1 h2
      rw [dimOf_la sh qs (List.getElem_mem h1)]
      simp [SHA]
  · apply dimsAgree_of
    · simp
    · intro i h1 h2
      simp only [List.getElem_range]
      exact dimOf_idx sh qs hr h2
  · rw [List.all_eq_true]
    intro l hl
    rw [einLists_new _ _ hn, List.mem_map] at hl
    obtain ⟨p, hp, rfl⟩ := hl
    simp only [List.contains_iff_mem, LA, List.mem_append, List.mem_range'_1, List.mem_range, newLabel]
    by_cases hq : p ∈ qs
    · have := List.idxOf_lt_length_of_mem hq
      rw [if_pos hq]; left; left; omega
    · rw [if_neg hq]; right; exact List.mem_range.mp hp
  · rw [dedup_of_nodup (new_nodup _ _ hn)]

theorem summed_step (hn : qs.Nodup) (hr : ∀ q ∈ qs, sh[q]? = some 2) : summedLabels (LA sh qs) (List.range sh.length) (einLists sh.length qs).new = qs := by
  have hlt : ∀ q ∈ qs, q < sh.length := fun q hq => qs_lt sh qs hr hq
  have hnew : ∀ l, l ∈ (einLists sh.length qs).new ↔ (l < sh.length ∧ l ∉ qs) ∨ (sh.length ≤ l ∧ l < sh.length + qs.length) := by
    intro l
    rw [einLists_new _ _ hn, List.mem_map]
    constructor
    · rintro ⟨p, hp, rfl⟩
      have hp := List.mem_range.mp hp
      unfold newLabel
      by_cases hq : p ∈ qs
      · have := List.idxOf_lt_length_of_mem hq
        rw [if_pos hq]; right; omega
      · rw [if_neg hq]; left; exact ⟨hp, hq⟩
    · rintro (⟨h1, h2⟩ | ⟨h1, h2⟩)
      · exact ⟨l, List.mem_range.mpr h1, by simp [newLabel, h2]⟩
      · have hj : l - sh.length < qs.length := by omega
        refine ⟨qs[l - sh.length], List.mem_range.mpr (hlt _ (List.getElem_mem hj)), ?_⟩
        simp only [newLabel, List.getElem_mem hj, if_true, hn.idxOf_getElem _ hj]
        omega
  unfold summedLabels
  simp only [LA, List.filter_append]
  have f1 : (List.range' sh.length qs.length).filter (fun l => !(einLists sh.length qs).new.contains l) = [] := by
    rw [List.filter_eq_nil_iff]
    intro l hl
    simp only [List.mem_range'_1] at hl
    rw [not_contains_iff, not_not, hnew]
    right; omega
  have f2 : qs.filter (fun l => !(einLists sh.length qs).new.contains l) = qs := by
    rw [List.filter_eq_self]
    intro l hl
    rw [not_contains_iff, hnew]
    rintro (⟨_, h⟩ | ⟨h, _⟩)
    · exact h hl
    · have := hlt l hl; omega
  rw [f1, f2, List.nil_append, dedup_append, dedup_of_nodup hn]
  have f3 : (dedup ((List.range sh.length).filter (fun l => !(einLists sh.length qs).new.contains l))).filter
      (fun x => !qs.contains x) = [] := by
    rw [List.filter_eq_nil_iff]
    intro l hl
    rw [mem_dedup, List.mem_filter] at hl
    obtain ⟨h1, h2⟩ := hl
    have h1 := List.mem_range.mp h1
    rw [not_contains_iff, hnew] at h2
    rw [not_contains_iff, not_not]
    by_contra hc
    exact h2 (Or.inl ⟨h1, hc⟩)
  rw [f3, List.append_nil]

/-- which entries one term of the sum reads -/
theorem terms_step (hn : qs.Nodup) (hr : ∀ q ∈ qs, sh[q]? = some 2) (x b : List Nat)
    (hx : x.length = sh.length) (hb : b.length = qs.length) :
    (LA sh qs).map (lookup ((einLists sh.length qs).new.zip x ++ qs.zip b)) = qs.map (fun q => x.getD q 0) ++ b ∧
    (List.range sh.length).map (lookup ((einLists sh.length qs).new.zip x ++ qs.zip b)) = substL sh.length qs x b := by
  have hlt : ∀ q ∈ qs, q < sh.length := fun q hq => qs_lt sh qs hr hq
  obtain ⟨_, _, _, hlen, hnewq, hnewp, _, hnd, hnot⟩ := einLists_spec sh.length qs hn hlt
  -- the three kinds of labels
  have look_q : ∀ j (hj : j < qs.length),
      lookup ((einLists sh.length qs).new.zip x ++ qs.zip b) qs[j] = b[j] := by
    intro j hj
    rw [lookup_zip_not_mem _ _ _ _ (hnot _ (List.getElem_mem hj))]
    have := lookup_zip_getElem qs b [] hn j hj (by omega)
    simpa using this
  have look_new : ∀ p (hp : p < sh.length),
      lookup ((einLists sh.length qs).new.zip x ++ qs.zip b) ((einLists sh.length qs).new[p]'(by omega)) = x[p] :=
    fun p hp => lookup_zip_getElem _ x _ hnd p (by omega) (by omega)
  refine ⟨?_, ?_⟩
  · simp only [LA, List.map_append]
    congr 1
    · apply List.ext_getElem
      · simp
      · intro j h1 h2
        have hj : j < qs.length := by simpa using h2
        have hq := hlt _ (List.getElem_mem hj)
        simp only [List.getElem_map, List.getElem_range']
        have e : (einLists sh.length qs).new[qs[j]]'(by omega) = sh.length + 1 * j := by
          have := hnewq j hj
          rw [List.getElem?_eq_getElem (by omega)] at this
          simpa using this
        rw [← e, look_new _ hq, List.getD_eq_getElem?_getD, List.getElem?_eq_getElem (by omega), Option.getD_some]
    · apply List.ext_getElem
      · simp [hb]
      · intro j h1 h2
        have hj : j < qs.length := by simpa using h1
        simp only [List.getElem_map]
        exact look_q j hj
  · unfold substL
    apply List.map_congr_left
    intro p hp
    have hp := List.mem_range.mp hp
    by_cases hq : p ∈ qs
    · rw [if_pos hq]
      have hj := List.idxOf_lt_length_of_mem hq
      have := look_q _ hj
      rw [List.getElem_idxOf hj] at this
      rw [this, List.getD_eq_getElem?_getD, List.getElem?_eq_getElem (by omega), Option.getD_some]
    · rw [if_neg hq]
      have e : (einLists sh.length qs).new[p]'(by omega) = p := by
        have := hnewp p hp hq
        rw [List.getElem?_eq_getElem (by omega)] at this
        simpa using this
      have := look_new p hp
      rw [e] at this
      rw [this, List.getD_eq_getElem?_getD, List.getElem?_eq_getElem (by omega), Option.getD_some]

end step

theorem ofFn_congr (shp : List Nat) (f g : List Nat → α)
    (h : ∀ x, x.length = shp.length → f x = g x) : Tensor.ofFn shp f = Tensor.ofFn shp g := by
  unfold Tensor.ofFn
  congr 1
  apply List.map_congr_left
  intro X _
  exact h _ (digits_length shp X)

/-- **One `einsum` step of `_evolve_state_einsum`, for every register and every injective in-range
placement, over arbitrary scalars**: the step succeeds, keeps the shape, and its entry at `x` is the
contraction `Σ_b gate[(x at qs), b] · state[x with qs ↦ b]`. -/
theorem stepKet_gate (o : Ops α) (qs : List Nat) (U : List (List α)) (st : Tensor α)
    (hn : qs.Nodup) (hr : ∀ q ∈ qs, st.shape[q]? = some 2) :
    stepKet o (.gate qs qs.length U) st = .ok (Tensor.ofFn st.shape (contractL o qs.length qs U st)) := by
  have hlt : ∀ q ∈ qs, q < st.shape.length := fun q hq => qs_lt st.shape qs hr hq
  have hall : (qs.all fun q => decide (q < st.shape.length)) = true := by
    rw [List.all_eq_true]; intro q hq; simpa using hlt q hq
  have hok := einsumOk_step st.shape qs hn hr
  have hsl := summed_step st.shape qs hn hr
  simp only [stepKet, hall, Bool.not_true, Bool.false_eq_true, if_false]
  show einsum o (gateTensor qs.length U) (LA st.shape qs) st (List.range st.shape.length)
    (einLists st.shape.length qs).new = _
  unfold einsum
  have hsha : (gateTensor qs.length U).shape = SHA qs := rfl
  rw [hsha, hok]
  simp only [Bool.not_true, Bool.false_eq_true, if_false, hsl]
  have hshape : (einLists st.shape.length qs).new.map
      (dimOf (LA st.shape qs) (SHA qs) (List.range st.shape.length) st.shape) = st.shape := by
    rw [einLists_new _ _ hn, List.map_map]
    apply List.ext_getElem
    · simp
    · intro p h1 h2
      simp only [List.getElem_map, List.getElem_range, Function.comp]
      exact newLabel_dim st.shape qs hr h2
  have hsd : qs.map (dimOf (LA st.shape qs) (SHA qs) (List.range st.shape.length) st.shape) =
      List.replicate qs.length 2 := by
    rw [List.eq_replicate_iff]
    refine ⟨by simp, ?_⟩
    intro d hd
    obtain ⟨q, hq, rfl⟩ := List.mem_map.mp hd
    exact dimOf_la st.shape qs (List.mem_append_right _ hq)
  rw [hshape, hsd]
  congr 1
  apply ofFn_congr
  intro x hx
  unfold contractL einsumTerms
  rw [prodL_replicate, List.map_map]
  congr 1
  apply List.map_congr_left
  intro s _
  have hb : (digits (List.replicate qs.length 2) s).length = qs.length := by
    rw [digits_length]; simp
  obtain ⟨e1, e2⟩ := terms_step st.shape qs hn hr x _ hx hb
  simp only [Function.comp, e1, e2]


/-- reading a tabulated tensor at a valid position -/
theorem get_ofFn (o : Ops α) (shp : List Nat) (f : List Nat → α) (x : List Nat) (hl : x.length = shp.length)
    (hv : ∀ i (h1 : i < x.length) (h2 : i < shp.length), x[i] < shp[i]) :
    (Tensor.ofFn shp f).get o x = f x := by
  obtain ⟨h1, h2⟩ := digits_undigits shp x hl hv
  simp only [Tensor.get, Tensor.ofFn, List.getD_eq_getElem?_getD, List.getElem?_map, List.getElem?_range h1,
    Option.map_some, Option.getD_some, h2]

theorem stepKet_phase (o : Ops α) (c : α) (st : Tensor α) :
    stepKet o (.phase c) st = .ok ⟨st.shape, st.data.map (o.mul c)⟩ := rfl

end QipVerif.SimKet
