import QipVerif.Lemmas.ConcatBasic
/-! The channel loop of `_concatenate_pulses` refines a tolerance-free, error-free list function
(`pureLoop`) under the hypotheses of C12 (`Valid`, which contains the scale hypothesis `Sep`). -/
namespace QipVerif.Concat

/-- `_process_gate_pulse` as a total function (junk for malformed waves) -/
def Wave.proc (w : Wave) : Proc :=
  match procPulse w with
  | .ok p => p
  | .error _ => ⟨[], [], 0, .discrete⟩

/-- `_process_idling_tlist` as a total function -/
def idlePure (m : Mode) (start last step : Rat) : List Rat :=
  match idle m start last step with
  | .ok l => l
  | .error _ => []

/-- what the loop appends for the instructions from `last` on, without tolerances: an idle stretch whenever
the instruction starts after `last`, then the instruction's own points and coefficients -/
def pureLoop : Rat → List (Rat × Wave) → List Rat × List Rat
  | _, [] => ([], [])
  | last, (s, w) :: rest =>
    let p := w.proc
    let idl := if last < s then idlePure p.mode s last p.step else []
    let r := pureLoop (s + w.dur) rest
    (idl ++ (p.gt.map (· + s) ++ r.1), idl.map (fun _ => (0 : Rat)) ++ (p.cs ++ r.2))

/-- `last_pulse_time` after the loop -/
def endOf : Rat → List (Rat × Wave) → Rat
  | last, [] => last
  | _, (s, w) :: rest => endOf (s + w.dur) rest

/-- the first-pulse chunk of the channel -/
def headChunk (isFirst : Bool) : List (Rat × Wave) → List Rat × List Rat
  | [] => ([], [])
  | (_, w) :: _ => zeroChunk isFirst w.mode

/-- Hypotheses of C12 for the instructions of one channel from `last` on: well-formed waves with positive
durations, sorted by start and non-overlapping, and the **scale hypothesis `Sep`**:
every idle gap is `0` or exceeds `step·τ`, and (shipped first-pulse test only, `byTol = true`) no instruction
other than the first starts its processing with `last < step·τ`. -/
def Valid (byTol : Bool) (τ : Rat) : Bool → Rat → List (Rat × Wave) → Prop
  | _, _, [] => True
  | isFirst, last, (s, w) :: rest =>
    WaveOK w ∧ last ≤ s ∧
    (s - last = 0 ∨ s - last > w.step * τ) ∧
    (byTol = true → isFirst = false → w.step * τ ≤ last) ∧
    Valid byTol τ false (s + w.dur) rest

/-- the tolerance-free part of `Valid` -/
def Chain : Rat → List (Rat × Wave) → Prop
  | _, [] => True
  | last, (s, w) :: rest => WaveOK w ∧ last ≤ s ∧ Chain (s + w.dur) rest

theorem Valid.chain {byTol : Bool} {τ : Rat} {instrs : List (Rat × Wave)} :
    ∀ {isFirst : Bool} {last : Rat}, Valid byTol τ isFirst last instrs → Chain last instrs := by
  induction instrs with
  | nil => intros; trivial
  | cons sw rest ih =>
    intro isFirst last h
    obtain ⟨s, w⟩ := sw
    exact ⟨h.1, h.2.1, ih h.2.2.2.2⟩

theorem proc_eq {w : Wave} {p : Proc} (h : procPulse w = .ok p) : w.proc = p := by
  simp [Wave.proc, h]

theorem gt_pos {w : Wave} {p : Proc} (hp : ProcOK w p) : ∀ x ∈ p.gt, 0 < x :=
  (List.pairwise_cons.mp hp.gt_inc).1

theorem dur_mem {w : Wave} {p : Proc} (hp : ProcOK w p) : w.dur ∈ p.gt := by
  have hne := hp.gt_ne
  have := hp.last
  rw [List.getLast?_eq_some_getLast hne] at this
  simp only [Option.getD_some] at this
  rw [← this]; exact List.getLast_mem hne

theorem dur_pos {w : Wave} {p : Proc} (hp : ProcOK w p) : 0 < w.dur := gt_pos hp _ (dur_mem hp)

theorem exec_last {w : Wave} {p : Proc} (hp : ProcOK w p) (s last : Rat) :
    ((p.gt.map (· + s)).getLast?.getD last) = s + w.dur := by
  have hne := hp.gt_ne
  have := hp.last
  rw [List.getLast?_eq_some_getLast hne] at this
  simp only [Option.getD_some] at this
  rw [List.getLast?_map, List.getLast?_eq_some_getLast hne]
  simp only [Option.map_some, Option.getD_some]
  rw [this]; grind

theorem exec_pairwise {w : Wave} {p : Proc} (hp : ProcOK w p) (s : Rat) :
    (s :: p.gt.map (· + s)).Pairwise (· < ·) := by
  have h := hp.gt_inc
  have : (s :: p.gt.map (· + s)) = (0 :: p.gt).map (· + s) := by simp [Rat.zero_add]
  rw [this, List.pairwise_map]
  exact List.Pairwise.imp (fun {a b} hab => by grind) h

/-- one instruction: the idle decision of the code is the tolerance-free one, and the appended points
increase strictly from `last` -/
theorem step_idle (τ : Rat) (hτ : 0 < τ) (w : Wave) (p : Proc) (hp : ProcOK w p) (s last : Rat) (hls : last ≤ s)
    (hgap : s - last = 0 ∨ s - last > w.step * τ) :
    (if absR (s - last) > p.step * τ then idle p.mode s last p.step else .ok []) =
      .ok (if last < s then idlePure p.mode s last p.step else []) ∧
    (last :: ((if last < s then idlePure p.mode s last p.step else []) ++ p.gt.map (· + s))).Pairwise (· < ·) := by
  have hst : 0 < p.step * τ := Rat.mul_pos hp.step_pos hτ
  have hex := exec_pairwise hp s
  rw [← hp.step_eq] at hgap
  rcases hgap with h0 | hg
  · have hls' : ¬ (last < s) := by grind
    have : ¬ (absR (s - last) > p.step * τ) := by rw [h0]; simp [absR]; grind
    rw [if_neg this, if_neg hls']
    refine ⟨rfl, ?_⟩
    have : last = s := by grind
    rw [this]; simpa using hex
  · have hls' : last < s := by grind
    have : absR (s - last) > p.step * τ := by rw [absR_nonneg_eq (by grind)]; exact hg
    rw [if_pos this, if_pos hls']
    obtain ⟨l, hl, hpw, hle⟩ := idle_ok p.mode s last p.step hp.step_pos hls'
    have hpure : idlePure p.mode s last p.step = l := by simp [idlePure, hl]
    rw [hpure, hl]
    refine ⟨rfl, ?_⟩
    have hl1 := List.pairwise_cons.mp hpw
    have hex1 := List.pairwise_cons.mp hex
    refine List.pairwise_cons.mpr ⟨?_, List.pairwise_append.mpr ⟨hl1.2, hex1.2, ?_⟩⟩
    · intro x hx
      rcases List.mem_append.mp hx with hx | hx
      · exact hl1.1 x hx
      · have := hex1.1 x hx; grind
    · intro x hx y hy
      have := hle x hx; have := hex1.1 y hy; grind

/-- **Refinement.** Under `Valid` the channel loop of the code succeeds and returns the first-pulse chunk
followed by the tolerance-free lists. -/
theorem chanLoop_refines (byTol : Bool) (τ : Rat) (hτ : 0 < τ) (instrs : List (Rat × Wave)) :
    ∀ (isFirst : Bool) (last : Rat), 0 ≤ last → (isFirst = true → last = 0) → Valid byTol τ isFirst last instrs →
      chanLoop byTol τ isFirst last instrs =
        .ok ((headChunk isFirst instrs).1 ++ (pureLoop last instrs).1,
             (headChunk isFirst instrs).2 ++ (pureLoop last instrs).2, endOf last instrs) := by
  induction instrs with
  | nil => intro isFirst last _ _ _; simp [chanLoop, headChunk, pureLoop, endOf]
  | cons sw rest ih =>
    intro isFirst last h0 hf hv
    obtain ⟨s, w⟩ := sw
    obtain ⟨hw, hls, hgap, hfirst, hrest⟩ := hv
    obtain ⟨p, hpp, hp⟩ := procPulse_ok w hw
    have hproc := proc_eq hpp
    have hft : firstTest byTol τ isFirst last p.step = isFirst := by
      unfold firstTest
      cases byTol with
      | false => simp
      | true =>
        simp only [if_true]
        cases isFirst with
        | true =>
          have : last = 0 := hf rfl
          subst this
          have : absR 0 < p.step * τ := by simp [absR]; exact Rat.mul_pos hp.step_pos hτ
          simp [this]
        | false =>
          have := hfirst rfl rfl
          rw [← hp.step_eq] at this
          have : ¬ (absR last < p.step * τ) := by rw [absR_nonneg_eq h0]; grind
          simp [this]
    obtain ⟨hidle, _⟩ := step_idle τ hτ w p hp s last hls hgap
    have hlast := exec_last hp s last
    have hdp := dur_pos hp
    have hrec := ih false (s + w.dur) (by grind) (by simp) hrest
    have hhc : headChunk false rest = ([], []) := by
      cases rest with
      | nil => rfl
      | cons a b => obtain ⟨s', w'⟩ := a; simp [headChunk, zeroChunk]
    unfold chanLoop
    simp only [hpp, hft, hidle, hlast, hrec, hhc, List.nil_append]
    simp only [headChunk, pureLoop, endOf, hproc, hp.mode_eq]

end QipVerif.Concat

namespace QipVerif.Concat

/-- **The scale hypothesis `Sep`** for the instructions of a channel from `last` on: every idle gap is `0`
or exceeds `step·τ` of the instruction that follows it; and — only for the shipped first-pulse test
(`byTol = true`) — when an instruction other than the first is processed, the time already covered is at
least `step·τ` of that instruction. -/
def Sep (byTol : Bool) (τ : Rat) : Bool → Rat → List (Rat × Wave) → Prop
  | _, _, [] => True
  | isFirst, last, (s, w) :: rest =>
    (s - last = 0 ∨ s - last > w.step * τ) ∧
    (byTol = true → isFirst = false → w.step * τ ≤ last) ∧
    Sep byTol τ false (s + w.dur) rest

theorem valid_of_chain_sep {byTol : Bool} {τ : Rat} {instrs : List (Rat × Wave)} :
    ∀ {isFirst : Bool} {last : Rat}, Chain last instrs → Sep byTol τ isFirst last instrs →
      Valid byTol τ isFirst last instrs := by
  induction instrs with
  | nil => intros; trivial
  | cons sw rest ih =>
    intro isFirst last hc hs
    obtain ⟨s, w⟩ := sw
    exact ⟨hc.1, hc.2.1, hs.1, hs.2.1, ih hc.2.2 hs.2.2⟩

end QipVerif.Concat
