import QipVerif.Lemmas.GridOde
/-!
# C06: the slice product over a merged grid is the ordered product of the windows' propagators

A *window* is a constant generator `A` switched on during `[s, e)`.  The piecewise-constant Hamiltonian built from a
list of windows is, on a slice `[a, b)` of a grid, the sum of the generators of the windows that contain the slice
(`winHam`).  If every window is a union of slices (`Aligned`), windows that overlap in time have commuting
generators and the list is ordered so that a window that does not commute with a later one has ended before the later
one starts (`Compatible`), then the product of the slice exponentials (`TimeOrdered.sliceProd`, what
`run_analytically` multiplies up) is the ordered product of `exp(−i·(e−s)·A)` over the windows
(`sliceProd_eq_windows`).

Proof: induction over the grid with the invariant "product of the slice exponentials from `a` on = ordered product of
`exp(−i·|[s,e) ∩ [a,∞)|·A)`"; one step splits every active window's factor with `exp((x+y)A) = exp(xA)·exp(yA)`, moves
the pieces of the first slice to the right past factors that commute with them (or are `1`), and joins them with
`exp(A+B) = exp A · exp B` for commuting `A`, `B`.
-/
set_option linter.unusedSectionVars false
namespace QipVerif.Compose
open QipVerif.MatExp QipVerif.TimeOrdered QipVerif.Grid NormedSpace Matrix

variable {n : Type*} [Fintype n] [DecidableEq n]

/-! ## the exponential of commuting generators -/

theorem commute_evolve_evolve {A B : Matrix n n ℂ} (h : Commute A B) (s t : ℝ) :
    Commute (evolve A s) (evolve B t) := by
  unfold evolve
  exact ((h.smul_left _).smul_right _).exp

/-- `exp(−it(A+B)) = exp(−itA)·exp(−itB)` for commuting `A`, `B` -/
theorem evolve_add_ham {A B : Matrix n n ℂ} (h : Commute A B) (t : ℝ) :
    evolve (A + B) t = evolve A t * evolve B t := by
  unfold evolve
  rw [smul_add, Matrix.exp_add_of_commute]
  exact (h.smul_left _).smul_right _

theorem commute_list_sum (M : Matrix n n ℂ) (l : List (Matrix n n ℂ)) (h : ∀ X ∈ l, Commute X M) :
    Commute l.sum M := by
  induction l with
  | nil => simp
  | cons X l ih =>
    rw [List.sum_cons]
    exact (h X (by simp)).add_left (ih fun Y hY => h Y (by simp [hY]))

theorem commute_ordProdL (M : Matrix n n ℂ) (l : List (Matrix n n ℂ)) (h : ∀ X ∈ l, Commute X M) :
    Commute (ordProdL l) M := by
  induction l with
  | nil => simp [ordProdL]
  | cons X l ih =>
    simp only [ordProdL]
    exact (ih fun Y hY => h Y (by simp [hY])).mul_left (h X (by simp))

theorem ordProdL_map_one {α : Type*} (l : List α) : ordProdL (l.map fun _ => (1 : Matrix n n ℂ)) = 1 := by
  induction l with
  | nil => rfl
  | cons x l ih => simp only [List.map_cons, ordProdL, ih, mul_one]

/-- the ordered product of `exp(−it·B)` over pairwise commuting generators is `exp(−it·ΣB)` -/
theorem ordProdL_evolve_sum {α : Type*} (B : α → Matrix n n ℂ) (t : ℝ) (l : List α)
    (hc : l.Pairwise fun x y => Commute (B x) (B y)) :
    ordProdL (l.map fun x => evolve (B x) t) = evolve (l.map B).sum t := by
  induction l with
  | nil => simp [ordProdL, evolve_zero_ham]
  | cons x l ih =>
    obtain ⟨hx, hl⟩ := List.pairwise_cons.mp hc
    simp only [List.map_cons, ordProdL, List.sum_cons]
    rw [ih hl, add_comm, evolve_add_ham]
    apply commute_list_sum
    intro X hX
    obtain ⟨y, hy, rfl⟩ := List.mem_map.mp hX
    exact (hx y hy).symm

/-- a product of factors `X·Y` splits into the product of the `X` times the product of the `Y` when every `Y` commutes
with the `X` of the earlier positions -/
theorem ordProdL_mul_split {α : Type*} (X Y : α → Matrix n n ℂ) (l : List α)
    (hc : l.Pairwise fun x y => Commute (Y y) (X x)) :
    ordProdL (l.map fun x => X x * Y x) = ordProdL (l.map X) * ordProdL (l.map Y) := by
  induction l with
  | nil => simp [ordProdL]
  | cons x l ih =>
    obtain ⟨hx, hl⟩ := List.pairwise_cons.mp hc
    simp only [List.map_cons, ordProdL]
    rw [ih hl]
    have hcomm : Commute (ordProdL (l.map Y)) (X x) := by
      apply commute_ordProdL
      intro M hM
      obtain ⟨y, hy, rfl⟩ := List.mem_map.mp hM
      exact hx y hy
    rw [mul_assoc, ← mul_assoc (ordProdL (l.map Y)), hcomm.eq, mul_assoc, mul_assoc]

/-! ## windows -/

/-- a constant generator `A` switched on during `[s, e)` -/
structure Win (n : Type*) where
  s : ℝ
  e : ℝ
  A : Matrix n n ℂ

/-- the length of `[s, e) ∩ [a, ∞)` -/
noncomputable def Win.rem (w : Win n) (a : ℝ) : ℝ := max w.e a - max w.s a

/-- the window contains the slice `[a, b)` -/
def Win.On (w : Win n) (a b : ℝ) : Prop := w.s ≤ a ∧ b ≤ w.e

noncomputable instance (w : Win n) (a b : ℝ) : Decidable (w.On a b) := by unfold Win.On; infer_instance

/-- the generator the window contributes on the slice `[a, b)` -/
noncomputable def Win.gen (w : Win n) (a b : ℝ) : Matrix n n ℂ := if w.On a b then w.A else 0

/-- the Hamiltonian of the windows on the slice `[a, b)` -/
noncomputable def winHam (ws : List (Win n)) (a b : ℝ) : Matrix n n ℂ := (ws.map fun w => w.gen a b).sum

/-- the slice Hamiltonians of the windows over a grid -/
noncomputable def winHams (ws : List (Win n)) : List ℝ → List (Matrix n n ℂ)
  | a :: b :: T => winHam ws a b :: winHams ws (b :: T)
  | _ => []

/-- the window is a union of slices of the grid: every slice lies inside it or outside it -/
def Win.Aligned (w : Win n) : List ℝ → Prop
  | a :: b :: T => (w.On a b ∨ w.e ≤ a ∨ b ≤ w.s) ∧ w.Aligned (b :: T)
  | _ => True

/-- the order of the list is compatible with the time order: an earlier window either commutes with the later one or has
ended when the later one starts -/
def Compatible (ws : List (Win n)) : Prop := ws.Pairwise fun u v => Commute u.A v.A ∨ u.e ≤ v.s

theorem Win.rem_of_le_start (w : Win n) (a : ℝ) (h : a ≤ w.s) (hse : w.s ≤ w.e) : w.rem a = w.e - w.s := by
  unfold Win.rem; rw [max_eq_left (h.trans hse), max_eq_left h]

theorem Win.rem_of_end_le (w : Win n) (a : ℝ) (h : w.e ≤ a) (hse : w.s ≤ w.e) : w.rem a = 0 := by
  unfold Win.rem; rw [max_eq_right h, max_eq_right (hse.trans h), sub_self]

/-- what a window loses over an aligned slice -/
theorem Win.rem_slice (w : Win n) (a b : ℝ) (hab : a < b) (hse : w.s ≤ w.e)
    (hal : w.On a b ∨ w.e ≤ a ∨ b ≤ w.s) :
    w.rem a = w.rem b + (if w.On a b then b - a else 0) := by
  unfold Win.rem
  by_cases hon : w.On a b
  · rw [if_pos hon]
    obtain ⟨h1, h2⟩ := hon
    rw [max_eq_left (hab.le.trans h2), max_eq_right h1, max_eq_left h2, max_eq_right (h1.trans hab.le)]
    ring
  · rw [if_neg hon, add_zero]
    rcases hal with h | h | h
    · exact absurd h hon
    · rw [max_eq_right h, max_eq_right (hse.trans h), max_eq_right (h.trans hab.le),
        max_eq_right ((hse.trans h).trans hab.le)]
      simp
    · rw [max_eq_left ((hab.le.trans h).trans hse), max_eq_left (hab.le.trans h), max_eq_left (h.trans hse),
        max_eq_left h]

theorem Win.evolve_slice (w : Win n) (a b : ℝ) (hab : a < b) (hse : w.s ≤ w.e)
    (hal : w.On a b ∨ w.e ≤ a ∨ b ≤ w.s) :
    evolve w.A (w.rem a) = evolve w.A (w.rem b) * evolve (w.gen a b) (b - a) := by
  rw [w.rem_slice a b hab hse hal, evolve_add]
  congr 1
  unfold Win.gen
  by_cases hon : w.On a b
  · rw [if_pos hon, if_pos hon]
  · rw [if_neg hon, if_neg hon, evolve_zero, evolve_zero_ham]

/-- the ordered product of the windows' propagators restricted to `[a, ∞)` -/
noncomputable def remProd (ws : List (Win n)) (a : ℝ) : Matrix n n ℂ :=
  ordProdL (ws.map fun w => evolve w.A (w.rem a))

/-- **one slice**: the windows' product from `a` on is the product from `b` on times the exponential of the slice -/
theorem remProd_step (ws : List (Win n)) (a b : ℝ) (hab : a < b) (hse : ∀ w ∈ ws, w.s ≤ w.e)
    (hal : ∀ w ∈ ws, w.On a b ∨ w.e ≤ a ∨ b ≤ w.s) (hc : Compatible ws) :
    remProd ws a = remProd ws b * evolve (winHam ws a b) (b - a) := by
  unfold remProd winHam
  have h1 : (ws.map fun w => evolve w.A (w.rem a)) =
      ws.map fun w => evolve w.A (w.rem b) * evolve (w.gen a b) (b - a) :=
    List.map_congr_left fun w hw => w.evolve_slice a b hab (hse w hw) (hal w hw)
  rw [h1, ordProdL_mul_split (fun w : Win n => evolve w.A (w.rem b)) (fun w : Win n => evolve (w.gen a b) (b - a)),
    ordProdL_evolve_sum (fun w : Win n => w.gen a b)]
  · -- the generators of one slice commute pairwise
    refine List.Pairwise.imp ?_ hc
    · intro u v h
      unfold Win.gen
      by_cases hu : u.On a b
      · by_cases hv : v.On a b
        · rw [if_pos hu, if_pos hv]
          rcases h with h | h
          · exact h
          · exfalso
            have := hu.2; have := hv.1; linarith
        · rw [if_neg hv]; exact Commute.zero_right _
      · rw [if_neg hu]; exact Commute.zero_left _
  · -- the piece of the first slice of a later window commutes with what is left of an earlier window
    have hmem : ws.Pairwise fun u v => u ∈ ws ∧ v ∈ ws := by
      rw [List.pairwise_iff_forall_sublist]
      intro u v hs
      exact ⟨hs.subset (by simp), hs.subset (by simp)⟩
    refine (hc.and hmem).imp ?_
    intro u v h
    obtain ⟨h, hu, hv⟩ := h
    unfold Win.gen
    by_cases hon : v.On a b
    · rw [if_pos hon]
      rcases h with h | h
      · exact commute_evolve_evolve h.symm _ _
      · have : u.rem b = 0 := u.rem_of_end_le b (by have := hon.1; linarith) (hse u hu)
        rw [this, evolve_zero]
        exact Commute.one_right _
    · rw [if_neg hon, evolve_zero_ham]
      exact Commute.one_left _

/-- **the invariant over the grid** -/
theorem sliceProd_eq_remProd (ws : List (Win n)) (hse : ∀ w ∈ ws, w.s ≤ w.e) (hc : Compatible ws) :
    ∀ (L : List ℝ) (a : ℝ), (a :: L).Pairwise (· < ·) → (∀ w ∈ ws, w.Aligned (a :: L)) →
      (∀ w ∈ ws, ∀ z, (a :: L).getLast? = some z → w.e ≤ z) →
      sliceProd (a :: L) (winHams ws (a :: L)) = remProd ws a
  | [], a, _, _, hend => by
    unfold sliceProd remProd
    have : (ws.map fun w => evolve w.A (w.rem a)) = ws.map fun _ => (1 : Matrix n n ℂ) :=
      List.map_congr_left fun w hw => by
        rw [w.rem_of_end_le a (hend w hw a rfl) (hse w hw), evolve_zero]
    rw [this, ordProdL_map_one]
  | b :: T, a, hs, hal, hend => by
    have hab : a < b := (List.pairwise_cons.mp hs).1 b (by simp)
    have ih := sliceProd_eq_remProd ws hse hc T b (List.pairwise_cons.mp hs).2 (fun w hw => (hal w hw).2)
      (fun w hw z hz => hend w hw z (by rw [List.getLast?_cons_cons]; exact hz))
    show sliceProd (b :: T) (winHams ws (b :: T)) * evolve (winHam ws a b) (b - a) = _
    rw [ih, ← remProd_step ws a b hab hse (fun w hw => (hal w hw).1) hc]

/-- **sliceProd_eq_windows.**  Grid strictly increasing; every window a union of slices that starts at or after the
first grid point and ends at or before the last; the order of the list compatible with the time order.  Then the product
of the slice exponentials of the Hamiltonian `Σ (active windows) A` is the ordered product (later windows on the left)
of `exp(−i·(e−s)·A)`. -/
theorem sliceProd_eq_windows (ws : List (Win n)) (L : List ℝ) (a : ℝ) (hs : (a :: L).Pairwise (· < ·))
    (hse : ∀ w ∈ ws, w.s ≤ w.e) (hc : Compatible ws) (hal : ∀ w ∈ ws, w.Aligned (a :: L))
    (hstart : ∀ w ∈ ws, a ≤ w.s) (hend : ∀ w ∈ ws, ∀ z, (a :: L).getLast? = some z → w.e ≤ z) :
    sliceProd (a :: L) (winHams ws (a :: L)) = ordProdL (ws.map fun w => evolve w.A (w.e - w.s)) := by
  rw [sliceProd_eq_remProd ws hse hc L a hs hal hend]
  unfold remProd
  congr 1
  exact List.map_congr_left fun w hw => by rw [w.rem_of_le_start a (hstart w hw) (hse w hw)]

/-- a window whose two end points are grid points is a union of slices -/
theorem Win.aligned_of_mem (w : Win n) : ∀ (L : List ℝ), L.Pairwise (· < ·) → w.s ∈ L → w.e ∈ L → w.Aligned L
  | [], _, _, _ => trivial
  | [_], _, _, _ => trivial
  | a :: b :: T, hs, h1, h2 => by
    have hab : a < b := (List.pairwise_cons.mp hs).1 b (by simp)
    have hs' := (List.pairwise_cons.mp hs).2
    have hlt : ∀ x ∈ T, b < x := (List.pairwise_cons.mp hs').1
    -- a grid point is `a` or at least `b`
    have key : ∀ x ∈ a :: b :: T, x = a ∨ b ≤ x := by
      intro x hx
      rcases List.mem_cons.mp hx with rfl | hx
      · exact Or.inl rfl
      · rcases List.mem_cons.mp hx with rfl | hx
        · exact Or.inr le_rfl
        · exact Or.inr (hlt x hx).le
    have hge : ∀ x ∈ a :: b :: T, a ≤ x := by
      intro x hx
      rcases key x hx with rfl | h
      · exact le_rfl
      · exact hab.le.trans h
    refine ⟨?_, ?_⟩
    · rcases key w.s h1 with hs1 | hs1
      · rcases key w.e h2 with he | he
        · exact Or.inr (Or.inl he.le)
        · exact Or.inl ⟨hs1.le, he⟩
      · exact Or.inr (Or.inr hs1)
    · -- on the rest of the grid: an end point equal to `a` is replaced by the fact that it is `≤ b`
      clear key
      have gen : ∀ (M : List ℝ) (c : ℝ), (c :: M).Pairwise (· < ·) → (w.s ≤ c ∨ w.s ∈ c :: M) →
          (w.e ≤ c ∨ w.e ∈ c :: M) → w.Aligned (c :: M) := by
        intro M
        induction M with
        | nil => intro _ _ _ _; trivial
        | cons d M ih =>
          intro c hcs k1 k2
          have hcd : c < d := (List.pairwise_cons.mp hcs).1 d (by simp)
          have hcs' := (List.pairwise_cons.mp hcs).2
          have hlt' : ∀ x ∈ M, d < x := (List.pairwise_cons.mp hcs').1
          have kk : ∀ x, (x ≤ c ∨ x ∈ c :: d :: M) → x ≤ c ∨ d ≤ x := by
            intro x hx
            rcases hx with hx | hx
            · exact Or.inl hx
            · rcases List.mem_cons.mp hx with rfl | hx
              · exact Or.inl le_rfl
              · rcases List.mem_cons.mp hx with rfl | hx
                · exact Or.inr le_rfl
                · exact Or.inr (hlt' x hx).le
          have kn : ∀ x, (x ≤ c ∨ x ∈ c :: d :: M) → x ≤ d ∨ x ∈ d :: M := by
            intro x hx
            rcases hx with hx | hx
            · exact Or.inl (hx.trans hcd.le)
            · rcases List.mem_cons.mp hx with rfl | hx
              · exact Or.inl hcd.le
              · exact Or.inr hx
          refine ⟨?_, ih d hcs' (kn _ k1) (kn _ k2)⟩
          rcases kk _ k1 with hs1 | hs1
          · rcases kk _ k2 with he | he
            · exact Or.inr (Or.inl he)
            · exact Or.inl ⟨hs1, he⟩
          · exact Or.inr (Or.inr hs1)
      exact gen T b hs'
        (by rcases List.mem_cons.mp h1 with h | h
            · exact Or.inl (h ▸ hab.le)
            · exact Or.inr h)
        (by rcases List.mem_cons.mp h2 with h | h
            · exact Or.inl (h ▸ hab.le)
            · exact Or.inr h)

end QipVerif.Compose
