import QipVerif.Lemmas.SpinChainCompile
import QipVerif.Lemmas.TranspileDen
import QipVerif.Lemmas.Trace
/-!
# C06: from the transpiled circuit to native gates the compiler handles; instructions executed in
scheduled time order; the end-to-end composition
-/
namespace QipVerif.SpinChain
open QipVerif QipVerif.Gen QipVerif.Gen.SC QipVerif.Transpile QipVerif.Decomp Matrix

/-! ## the transpiled circuit consists of native gates on coupled qubits -/

def chainDev (circular : Bool) : Device := if circular then .circularSpinChain else .linearSpinChain
def chainSetup (circular : Bool) : Route.Setup := if circular then .circular else .linear

/-- tie to the regenerated device tables (`Gen/DeviceTables.lean`) -/
theorem chain_spec (circular : Bool) :
    (deviceSpec (chainDev circular)).native = some [.SQRTISWAP, .ISWAP, .RX, .RZ] ∧
    (deviceSpec (chainDev circular)).topo = some (chainSetup circular) := by
  cases circular <;> exact ⟨rfl, rfl⟩

theorem chain_topoOK (circular : Bool) : TopoOK (deviceSpec (chainDev circular)) := by
  cases circular
  · exact Or.inr (Or.inl rfl)
  · exact Or.inr (Or.inr rfl)

theorem coupled_adjacent (circular : Bool) (N a b : ℕ) (h : coupledB (some (chainSetup circular)) N a b = true) :
    adjacent circular N a b = true := by
  rw [coupledB_adj] at h
  rw [adjacent_iff]
  unfold Route.Adj at h
  cases circular
  · simp only [chainSetup, Bool.false_eq_true, if_false, reduceCtorEq, false_and, or_false] at h ⊢
    omega
  · simp only [chainSetup, if_true, true_and] at h ⊢
    omega

theorem shape_of_lengths {N : ℕ} {x : Gate} (hs : shapedB N x = true) {nc nt : ℕ}
    (hn : shapeOf x.name = some (nc, nt)) :
    x.controls.length = nc ∧ x.targets.length = nt ∧ x.qubits.Nodup ∧ ∀ q ∈ x.qubits, q < N := by
  obtain ⟨h1, h2, h3⟩ := (shapedB_iff N x).mp hs
  rw [hn] at h1
  simp only [Option.some.injEq, Prod.mk.injEq] at h1
  exact ⟨h1.1.symm, h1.2.symm, h2, h3⟩

theorem native_of_shaped (circular : Bool) (N : ℕ) (x : Gate) (hs : shapedB N x = true)
    (hn : [GName.SQRTISWAP, .ISWAP, .RX, .RZ, .GLOBALPHASE, .IDLE].contains x.name = true)
    (hc : gateCoupledB (some (chainSetup circular)) N x = true) : NativeOK circular N x := by
  obtain ⟨name, targets, controls, arg⟩ := x
  have one : shapeOf name = some (0, 1) → ∃ t, targets = [t] ∧ controls = [] ∧ t < N := by
    intro h
    obtain ⟨h1, h2, _, h4⟩ := shape_of_lengths hs h
    simp only at h1 h2
    have hc0 : controls = [] := List.eq_nil_of_length_eq_zero h1
    obtain ⟨t, ht⟩ := List.length_eq_one_iff.mp h2
    exact ⟨t, ht, hc0, h4 t (by simp [Gate.qubits, ht])⟩
  have two : shapeOf name = some (0, 2) → ∃ a b, targets = [a, b] ∧ controls = [] ∧ a < N ∧ b < N ∧ a ≠ b ∧
      adjacent circular N a b = true := by
    intro h
    obtain ⟨h1, h2, h3, h4⟩ := shape_of_lengths hs h
    simp only at h1 h2
    have hc0 : controls = [] := List.eq_nil_of_length_eq_zero h1
    obtain ⟨a, b, hab⟩ := List.length_eq_two.mp h2
    subst hc0; subst hab
    simp only [Gate.qubits, List.nil_append] at h3 h4
    have hne : a ≠ b := by
      intro e; subst e; simp at h3
    refine ⟨a, b, rfl, rfl, h4 a (by simp), h4 b (by simp), hne, ?_⟩
    have := (coupled_iff _ N _).mp hc a (by simp [Gate.qubits]) b (by simp [Gate.qubits]) hne
    exact coupled_adjacent circular N a b this
  simp only [List.contains_cons, List.contains_nil, Bool.or_false, Bool.or_eq_true, beq_iff_eq] at hn
  rcases hn with rfl | rfl | rfl | rfl | rfl | rfl
  · obtain ⟨a, b, rfl, rfl, ha, hb, hne, hadj⟩ := two rfl
    exact Or.inr (Or.inl ⟨a, b, arg, ha, hb, hne, hadj, Or.inr rfl⟩)
  · obtain ⟨a, b, rfl, rfl, ha, hb, hne, hadj⟩ := two rfl
    exact Or.inr (Or.inl ⟨a, b, arg, ha, hb, hne, hadj, Or.inl rfl⟩)
  · obtain ⟨t, rfl, rfl, ht⟩ := one rfl
    exact Or.inl ⟨t, arg, ht, Or.inl rfl⟩
  · obtain ⟨t, rfl, rfl, ht⟩ := one rfl
    exact Or.inl ⟨t, arg, ht, Or.inr (Or.inl rfl)⟩
  · obtain ⟨h1, h2, _, _⟩ := shape_of_lengths hs (show shapeOf GName.GLOBALPHASE = some (0, 0) from rfl)
    simp only at h1 h2
    have hc0 : controls = [] := List.eq_nil_of_length_eq_zero h1
    have ht0 : targets = [] := List.eq_nil_of_length_eq_zero h2
    subst hc0; subst ht0
    exact Or.inr (Or.inr ⟨arg, rfl⟩)
  · obtain ⟨t, rfl, rfl, ht⟩ := one rfl
    exact Or.inl ⟨t, arg, ht, Or.inr (Or.inr rfl)⟩

/-- **every gate the transpiler hands to the compiler is a native gate on coupled qubits** (either shape of
`transpile`; the shape as found only for circuits without gates on more than two qubits) -/
theorem transpile_native_ok (circular pre : Bool) (N : ℕ) (gs out : List Gate) (hg : ∀ g ∈ gs, InClass N g)
    (h2q : pre = false → ∀ g ∈ gs, g.qubits.length ≤ 2)
    (h : transpileV tables pre (deviceSpec (chainDev circular)) N gs = .ok out) :
    ∀ x ∈ out, NativeOK circular N x := by
  obtain ⟨hb, htopo⟩ := chain_spec circular
  have ht := chain_topoOK circular
  have hn : (deviceSpec (chainDev circular)).native.isSome = true := by rw [hb]; rfl
  have hst : ∃ g1, (∀ x ∈ g1, InClass N x ∧ gateCoupledB (deviceSpec (chainDev circular)).topo N x = true) ∧
      nativeStage tables (deviceSpec (chainDev circular)) g1 = .ok out := by
    cases pre
    · exact stages_old ht hg (h2q rfl) h
    · exact stages_fixed hn ht hg h
  obtain ⟨g1, hcls, h2⟩ := hst
  have hnames := nativeStage_names hb (by decide) (fun y hy => (hcls y hy).1.2) h2
  have hcoup := nativeStage_coupled (fun y hy => (hcls y hy).2) h2
  have hshape : ∀ x ∈ out, shapedB N x = true := by
    unfold nativeStage at h2
    rw [hb] at h2
    simp only at h2
    split at h2
    · rename_i o ho
      cases h2
      intro x hx
      exact (resolve_shaped (fun y hy => (hcls y hy).1.1) ho x hx).1
    · cases h2
  intro x hx
  have h1 := hnames x hx
  have h3 := hcoup x hx
  rw [htopo] at h3
  exact native_of_shaped circular N x (hshape x hx) (by
    have : C03.allowed (.list [.SQRTISWAP, .ISWAP, .RX, .RZ]) = [.SQRTISWAP, .ISWAP, .RX, .RZ, .GLOBALPHASE, .IDLE] := by decide
    rw [this] at h1; exact h1) h3

/-! ## executing the instructions in scheduled time order -/

theorem ordProd_eq_prod {N : ℕ} (ws : List (Matrix (St N) (St N) ℂ)) : ordProd ws = ws.reverse.prod := by
  induction ws with
  | nil => simp [ordProd]
  | cons w ws ih => simp [ordProd, ih]

theorem before_reverse {ι : Type} (l : List ι) (a b : ι) : Before l.reverse a b ↔ Before l b a := by
  unfold Before
  rw [show [a, b] = [b, a].reverse by rfl, List.reverse_sublist]

theorem before_range_rev {n i j : ℕ} (h : Before (List.range n).reverse i j) : j < i ∧ i < n := by
  rw [before_reverse] at h
  unfold Before at h
  have hp : List.Pairwise (· < ·) [j, i] := List.Pairwise.sublist h List.pairwise_lt_range
  have hi : i ∈ List.range n := h.subset (by simp)
  exact ⟨by simpa using hp, List.mem_range.mp hi⟩

/-- **re-ordering lemma**: executing the operators `ws` in the order `σ` (a permutation of the positions)
gives the same product as circuit order if every pair whose order is exchanged commutes -/
theorem ordProd_reorder {N : ℕ} (ws : List (Matrix (St N) (St N) ℂ)) (σ : List ℕ)
    (hσ : σ.Perm (List.range ws.length))
    (hc : ∀ i j, i < j → j < ws.length → Before σ j i → Commute (ws.getD i 1) (ws.getD j 1)) :
    ordProd (σ.map fun k => ws.getD k 1) = ordProd ws := by
  have hws : ws = (List.range ws.length).map fun k => ws.getD k 1 := by
    apply List.ext_getElem
    · simp
    · intro k h1 h2
      simp [List.getD_eq_getElem?_getD, List.getElem?_eq_getElem h1]
  conv_rhs => rw [hws]
  rw [ordProd_eq_prod, ordProd_eq_prod, ← List.map_reverse, ← List.map_reverse]
  symm
  apply trace_lemma (fun k => ws.getD k 1) (List.range ws.length).reverse σ.reverse
  · exact (List.reverse_perm _).trans (hσ.symm.trans (List.reverse_perm _).symm)
  · intro i j hij hji
    obtain ⟨hlt, hin⟩ := before_range_rev hij
    rw [before_reverse] at hji
    exact (hc j i hlt hin hji).symm

/-! ### which instruction operators commute -/

/-- the placed operator of a gate acts on the gate's qubits only -/
theorem semD_range {N : ℕ} {ρ : ℕ → ℝ} {g : Gate} {A : Matrix (St N) (St N) ℂ} (h : semD N ρ g = some A) :
    ∃ (m : ℕ) (t : Tg m N) (U : Matrix (St m) (St m) ℂ), A = t.embed U ∧ ∀ q, q ∈ Set.range t.f → q.val ∈ g.qubits := by
  obtain ⟨m, U, hm, hn, hr, _, rfl⟩ := semD_inv N ρ g A h
  refine ⟨m, tgL N g.qubits m hm hn hr, U, rfl, ?_⟩
  rintro q ⟨i, rfl⟩
  exact List.getElem_mem _

/-- operators of gates without a common qubit commute -/
theorem commute_of_disjoint {N : ℕ} {ρ : ℕ → ℝ} {g h : Gate} {A B : Matrix (St N) (St N) ℂ}
    (hA : semD N ρ g = some A) (hB : semD N ρ h = some B) (hd : ∀ q, q ∈ g.qubits → q ∉ h.qubits) :
    Commute A B := by
  obtain ⟨m, s, U, rfl, hs⟩ := semD_range hA
  obtain ⟨k, t, V, rfl, ht⟩ := semD_range hB
  apply Tg.commute_embed_of_disjoint
  rw [Set.disjoint_left]
  intro q hq hq'
  exact hd q.val (hs q hq) (ht q hq')

/-- the scheduler's rule for two control-less instructions: same gate name and the same set of targets -/
def SameChan (g h : Gate) : Prop := g.name = h.name ∧ g.targets.Perm h.targets

theorem rx_comm (θ φ : ℝ) : G.rx_ θ * G.rx_ φ = G.rx_ φ * G.rx_ θ := by
  rw [← segProp_x, ← segProp_x]
  apply segProp_comm
  ext i j; fin_cases i <;> fin_cases j <;> simp [G.x_gate_]

theorem rz_comm (θ φ : ℝ) : G.rz_ θ * G.rz_ φ = G.rz_ φ * G.rz_ θ := by
  rw [← segProp_z, ← segProp_z]
  apply segProp_comm
  ext i j; fin_cases i <;> fin_cases j <;> simp [G.z_gate_]

theorem placeL_comm {N : ℕ} {qs : List ℕ} {m : ℕ} {U V : Matrix (St m) (St m) ℂ} {A B : Matrix (St N) (St N) ℂ}
    (hA : placeL N qs m U = some A) (hB : placeL N qs m V = some B) (huv : U * V = V * U) : Commute A B := by
  unfold placeL at hA hB
  split at hA
  · rename_i h
    rw [dif_pos h] at hB
    cases hA; cases hB
    show _ * _ = _ * _
    rw [← Tg.embed_mul, ← Tg.embed_mul, huv]
  · cases hA

theorem pair_perm {a b a' b' : ℕ} (hne : a' ≠ b') (h : [a, b].Perm [a', b']) :
    (a' = a ∧ b' = b) ∨ (a' = b ∧ b' = a) := by
  have h1 : a' ∈ [a, b] := h.symm.subset (by simp)
  have h2 : b' ∈ [a, b] := h.symm.subset (by simp)
  have h3 : a ∈ [a', b'] := h.subset (by simp)
  simp only [List.mem_cons, List.not_mem_nil, or_false] at h1 h2 h3
  omega

/-- two native instruction gates of the same name on the same targets have commuting operators -/
theorem commute_of_sameChan (circular : Bool) {N : ℕ} {ρ : ℕ → ℝ} {g h : Gate} {A B : Matrix (St N) (St N) ℂ}
    (hg : NativeOK circular N g) (hh : NativeOK circular N h) (hs : SameChan g h)
    (hA : semD N ρ g = some A) (hB : semD N ρ h = some B) : Commute A B := by
  obtain ⟨hname, hperm⟩ := hs
  rcases hg with ⟨t, a, ht, rfl | rfl | rfl⟩ | ⟨a, b, ang, ha, hb, hab, hadj, rfl | rfl⟩ | ⟨ang, rfl⟩ <;>
    rcases hh with ⟨t', a', ht', rfl | rfl | rfl⟩ | ⟨a', b', ang', ha', hb', hab', hadj', rfl | rfl⟩ | ⟨ang', rfl⟩ <;>
    simp only [reduceCtorEq] at hname
  · -- RX, RX
    have : t' = t := by simpa using hperm.symm
    subst this
    rw [semD_placeL N ρ _ 1 (mat1 (G.rx_ (a.eval ρ))) rfl] at hA
    rw [semD_placeL N ρ _ 1 (mat1 (G.rx_ (a'.eval ρ))) rfl] at hB
    exact placeL_comm hA hB (by rw [← mat1_mul, ← mat1_mul, rx_comm])
  · -- RZ, RZ
    have : t' = t := by simpa using hperm.symm
    subst this
    rw [semD_placeL N ρ _ 1 (mat1 (G.rz_ (a.eval ρ))) rfl] at hA
    rw [semD_placeL N ρ _ 1 (mat1 (G.rz_ (a'.eval ρ))) rfl] at hB
    exact placeL_comm hA hB (by rw [← mat1_mul, ← mat1_mul, rz_comm])
  · -- IDLE, IDLE
    have : t' = t := by simpa using hperm.symm
    subst this
    rw [semD_placeL N ρ _ 1 (toMatD 1 GateE.idle) rfl] at hA hB
    exact placeL_comm hA hB rfl
  · -- ISWAP, ISWAP
    rw [semD_placeL N ρ _ 2 (toMatD 2 GateE.iswap) rfl] at hA hB
    change placeL N [a, b] 2 _ = _ at hA
    change placeL N [a', b'] 2 _ = _ at hB
    rcases pair_perm hab' hperm with ⟨h1, h2⟩ | ⟨h1, h2⟩
    · rw [h1, h2] at hB
      exact placeL_comm hA hB rfl
    · rw [h1, h2, placeL_swap ha hb hab _ exch_iswap] at hB
      exact placeL_comm hA hB rfl
  · -- SQRTISWAP, SQRTISWAP
    rw [semD_placeL N ρ _ 2 (toMatD 2 GateE.sqrtiswap) rfl] at hA hB
    change placeL N [a, b] 2 _ = _ at hA
    change placeL N [a', b'] 2 _ = _ at hB
    rcases pair_perm hab' hperm with ⟨h1, h2⟩ | ⟨h1, h2⟩
    · rw [h1, h2] at hB
      exact placeL_comm hA hB rfl
    · rw [h1, h2, placeL_swap ha hb hab _ exch_sqrtiswap] at hB
      exact placeL_comm hA hB rfl
  · -- GLOBALPHASE, GLOBALPHASE: a scalar
    rw [semD_gphase N ρ _ rfl rfl] at hA hB
    cases hA; cases hB
    show _ * _ = _ * _
    simp [Matrix.smul_mul, Matrix.mul_smul, smul_smul, mul_comm]

/-! ### the schedule -/

/-- the two gates use a common qubit (`used_qubits` of the two instructions intersect) -/
def Shares (g h : Gate) : Prop := ∃ q, q ∈ g.qubits ∧ q ∈ h.qubits

/-- what the scheduler guarantees about the start times `st` of the instructions (C11 `dep_respected`):
a pair in circuit order that shares a qubit and is not declared commuting by `commutation_rules`
(for control-less instructions: same name and same targets) does not overlap and keeps its order -/
def DepRespected (is : List (Instr ℝ)) (st : ℕ → ℝ) : Prop :=
  ∀ (i j : ℕ) (_ : i < j) (hj : j < is.length),
    Shares (is[i]'(by omega)).gate is[j].gate → ¬ SameChan (is[i]'(by omega)).gate is[j].gate →
      st i + (is[i]'(by omega)).dur ≤ st j

/-- `σ` lists the instruction positions by non-decreasing start time (`np.argsort`, ties in any order) -/
def TimeOrdered (st : ℕ → ℝ) (σ : List ℕ) : Prop := σ.Pairwise fun a b => st a ≤ st b

theorem mapM_some_get {α β : Type} (f : α → Option β) : ∀ (l : List α) (r : List β), l.mapM f = some r →
    r.length = l.length ∧ ∀ (k : ℕ) (h : k < l.length) (h' : k < r.length), f l[k] = some r[k] := by
  intro l
  induction l with
  | nil => intro r h; simp at h; subst h; exact ⟨rfl, fun k h => absurd h (by simp)⟩
  | cons a l ih =>
    intro r h
    rw [List.mapM_cons] at h
    cases ha : f a with
    | none => simp [ha] at h
    | some b =>
      cases hl : l.mapM f with
      | none => simp [ha, hl] at h
      | some r' =>
        simp [ha, hl] at h
        subst h
        obtain ⟨h1, h2⟩ := ih r' hl
        refine ⟨by simp [h1], ?_⟩
        intro k hk hk'
        cases k with
        | zero => simpa using ha
        | succ k => simpa using h2 k (by simpa using hk) (by simpa using hk')

/-- **scheduled order.**  If the start times respect the dependencies, every instruction lasts a positive
time and `σ` sorts the instructions by start time, executing the ideal propagators in the order `σ` gives
the same operator as circuit order. -/
theorem schedule_order (circular : Bool) (N : ℕ) (ρ : ℕ → ℝ) (is : List (Instr ℝ))
    (ws : List (Matrix (St N) (St N) ℂ)) (hsem : is.mapM (fun i => semD N ρ i.gate) = some ws)
    (hok : ∀ i ∈ is, NativeOK circular N i.gate) (hpos : ∀ i ∈ is, 0 < i.dur)
    (st : ℕ → ℝ) (hdep : DepRespected is st) (σ : List ℕ) (hσ : σ.Perm (List.range is.length))
    (hto : TimeOrdered st σ) :
    ordProd (σ.map fun k => ws.getD k 1) = ordProd ws := by
  obtain ⟨hlen, hget⟩ := mapM_some_get _ is ws hsem
  apply ordProd_reorder ws σ (by rw [hlen]; exact hσ)
  intro i j hij hj hb
  have hj' : j < is.length := by rw [← hlen]; exact hj
  have hi' : i < is.length := by omega
  have hi : i < ws.length := by omega
  have hA := hget i hi' hi
  have hB := hget j hj' hj
  rw [List.getD_eq_getElem?_getD, List.getD_eq_getElem?_getD, List.getElem?_eq_getElem hi,
    List.getElem?_eq_getElem hj]
  simp only [Option.getD_some]
  by_cases hsh : Shares is[i].gate is[j].gate
  · by_cases hsc : SameChan is[i].gate is[j].gate
    · exact commute_of_sameChan circular (hok _ (List.getElem_mem hi')) (hok _ (List.getElem_mem hj')) hsc hA hB
    · exfalso
      have h1 := hdep i j hij hj' hsh hsc
      have h2 : st j ≤ st i := by
        have hp : List.Pairwise (fun a b => st a ≤ st b) [j, i] := List.Pairwise.sublist hb hto
        simpa using hp
      have h3 := hpos _ (List.getElem_mem hi')
      linarith
  · apply commute_of_disjoint hA hB
    intro q hq hq'
    exact hsh ⟨q, hq, hq'⟩

end QipVerif.SpinChain
