import QipVerif.Lemmas.RenderEqual
/-! C20: rows only grow at their right end, so the label written by `_add_wire_labels`
stays at the start of the middle row; validity of circuits; row widths for the counter-example. -/
namespace QipVerif.Render
variable {v : Variant}

/-- a property of a wire that survives appending to its rows / editing its layer list -/
structure Stable (P : Wire → Prop) : Prop where
  pad : ∀ q x w, P w → P (padWire q x w)
  manage : ∀ a b x w, P w → P (manageWire a b x w)
  append : ∀ g w, P w → P (appendSeg g w)

theorem place_stable {P : Wire → Prop} (hP : Stable P) (align : Bool) (N : Nat) (pl : Plan) (st : St)
    (k : Nat) (w : Wire) (hk : st[k]? = some w) (hw : P w) :
    ∃ w', (place align N pl st)[k]? = some w' ∧ P w' := by
  simp only [place, applyActs_eq, manageLayers_eq, adjustPad_eq, modAll_getElem?, hk, Option.map_some]
  refine ⟨_, rfl, ?_⟩
  apply compAt_pred P
  · intro a ha w hw
    obtain ⟨b, _, rfl⟩ := List.mem_map.mp ha
    exact hP.append _ _ hw
  apply compAt_pred P
  · intro a ha w hw
    obtain ⟨b, _, rfl⟩ := List.mem_map.mp ha
    exact hP.manage _ _ _ _ hw
  apply compAt_pred P
  · intro a ha w hw
    obtain ⟨b, _, rfl⟩ := List.mem_map.mp ha
    exact hP.pad _ _ _ hw
  exact hw

theorem steps_stable {P : Wire → Prop} (hP : Stable P) {sty : Style} {N C : Nat} {ops : List Op} {st st' : St}
    (h : steps v sty N C st ops = .ok st') (k : Nat) (w : Wire) (hk : st[k]? = some w) (hw : P w) :
    ∃ w', st'[k]? = some w' ∧ P w' := by
  induction ops generalizing st w with
  | nil => cases h; exact ⟨w, hk, hw⟩
  | cons op ops ih =>
    unfold steps at h
    split at h
    · cases h
    · rename_i st1 h1
      obtain ⟨pl, _, _, _, _, rfl⟩ := step_ok h1
      obtain ⟨w1, hk1, hw1⟩ := place_stable hP sty.align N pl st k w hk hw
      exact ih h w1 hk1 hw1

theorem finalPad_stable {P : Wire → Prop} (hP : Stable P) (sty : Style) (N : Nat) (st : St)
    (k : Nat) (w : Wire) (hk : st[k]? = some w) (hw : P w) :
    ∃ w', (finalPad sty N st)[k]? = some w' ∧ P w' := by
  simp only [finalPad, adjustPad_eq, modAll_getElem?, hk, Option.map_some]
  refine ⟨_, rfl, ?_⟩
  apply compAt_pred P _ _ _ _ hw
  intro a ha w hw
  obtain ⟨b, _, rfl⟩ := List.mem_map.mp ha
  exact hP.pad _ _ _ hw

theorem stable_prefix (pre : Str) : Stable (fun w => pre <+: w.mid) := by
  refine ⟨?_, ?_, ?_⟩
  · intro q x w h; exact List.prefix_append_of_prefix h
  · intro a b x w h; rw [(manageWire_strs a b x w).2.1]; exact h
  · intro g w h; exact List.prefix_append_of_prefix h

/-- the middle row of a labelled wire starts with ` label ␣…:` when `layout` prints -/
theorem layoutSt_label {sty : Style} {c : Circ} {st : St} (h : layoutSt v sty c = .ok st)
    (k : Nat) (hk : k < c.N + c.C) (l : Str) (hl : (wireLabels sty c.N c.C)[k]? = some l) :
    ∃ w, st[k]? = some w ∧
      labelPrefix (lmax ((wireLabels sty c.N c.C).map List.length)) l <+: w.mid := by
  obtain ⟨st0, st1, h0, h1, rfl⟩ := layoutSt_ok h
  have hg := addLabelsFrom_get (addWireLabels_ok h0) k
  simp only [Nat.zero_le, if_true, Nat.sub_zero, hl, initSt_get c.N c.C k hk, Option.map_some] at hg
  obtain ⟨w1, hk1, hw1⟩ := steps_stable (stable_prefix _) h1 k _ hg
    (by simp only [labelWire]; exact List.prefix_append _ _)
  exact finalPad_stable (stable_prefix _) sty c.N st1 k w1 hk1 hw1

/-! ## validity of a circuit (the quantifier of the property) and the gap class -/

/-- a circuit element of the property's domain: in-range, pairwise distinct qubits; a
measurement of one qubit into an existing classical bit, or without `classical_store` -/
def opValid (N C : Nat) : Op → Bool
  | .meas [t0] s => decide (t0 < N) && decide (s < C)
  | .meas _ _ => false
  | .gate _ _ targets controls =>
    !targets.isEmpty && (targets ++ ctrlList controls).all (fun q => decide (q < N)) &&
      decide ((targets ++ ctrlList controls).Nodup)
  | .glob _ _ => true
  | .measNS [t0] => decide (t0 < N)
  | .measNS _ => false

def circValid (sty : Style) (c : Circ) : Bool := styleOk sty c.N c.C && c.ops.all (opValid c.N c.C)

/-- the widths of the printed rows -/
def rowWidths (v : Variant) (sty : Style) (c : Circ) : Option (List Nat) :=
  match render v sty c with
  | .ok rows => some (rows.map List.length)
  | .error _ => none

/-- all rows have one width -/
def EqualWidth (rows : List Str) : Prop := ∀ r ∈ rows, ∀ r' ∈ rows, r.length = r'.length

theorem rowWidths_of_render {sty : Style} {c : Circ} {rows : List Str} (h : render v sty c = .ok rows) :
    rowWidths v sty c = some (rows.map List.length) := by simp [rowWidths, h]

end QipVerif.Render
