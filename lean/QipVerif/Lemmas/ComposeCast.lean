import QipVerif.Lemmas.ComposeSched
/-!
# C06: the compiler model over `Rat` (what `drv_spinchain` runs) and over `ℝ` (what the theorems are about) agree

Convention of the `Rat` instance: angles in units of π, `pi := 1`.  For every angle that is a rational multiple of π
(`evR a = π · evQ a`) and rational hardware strengths (`castP P`) the real-valued instruction list is the cast of the
rational one, instruction by instruction (`compileGate_cast`, `compileLoop_cast`, `compile_cast`) — for the native gates other
than IDLE, whose duration is a plain time (`ev arg`) and not an angle (in units of π it would be `π ·` a rational).
-/
set_option linter.unusedSectionVars false
namespace QipVerif.SpinChain
open QipVerif QipVerif.Gen QipVerif.Gen.SC

/-- rational hardware strengths as real ones -/
def castP (P : Params Rat) : Params ℝ :=
  ⟨P.sx.map fun x => ((x : ℚ) : ℝ), P.sz.map fun x => ((x : ℚ) : ℝ), P.sxsy.map fun x => ((x : ℚ) : ℝ)⟩

theorem eval_evQr (r : ℕ → Rat) (a : Ang) :
    Ang.eval (fun j => Real.pi * ((r j : ℚ) : ℝ)) a = Real.pi * ((evQr r a : ℚ) : ℝ) := by
  unfold Ang.eval evQr
  cases a.sym with
  | none => push_cast; ring
  | some j => push_cast; ring

/-! ## the generated formulas commute with the cast -/

theorem cast_absQ (x : Rat) : ((absQ x : ℚ) : ℝ) = |((x : ℚ) : ℝ)| := by
  unfold absQ
  by_cases h : x < 0
  · rw [if_pos h, abs_of_neg (by exact_mod_cast h)]; push_cast; rfl
  · rw [if_neg h, abs_of_nonneg (by exact_mod_cast not_lt.mp h)]

theorem cast_signQ (x : Rat) : ((signQ x : ℚ) : ℝ) = Real.sign ((x : ℚ) : ℝ) := by
  unfold signQ
  by_cases h : x < 0
  · rw [if_pos h, Real.sign_of_neg (by exact_mod_cast h)]; push_cast; rfl
  · rw [if_neg h]
    by_cases h0 : x = 0
    · rw [if_pos h0, h0]; simp
    · rw [if_neg h0]
      have : 0 < x := lt_of_le_of_ne (not_lt.mp h) (Ne.symm h0)
      rw [Real.sign_of_pos (by exact_mod_cast this)]; simp

theorem rotArea_cast (x : Rat) : rotArea Real.pi (Real.pi * ((x : ℚ) : ℝ)) = ((rotArea (1 : Rat) x : ℚ) : ℝ) := by
  rw [rotArea_eq]
  have hq : rotArea (1 : Rat) x = x / 4 := by
    show x / (((2 : ℤ) : Rat) / ((1 : ℕ) : Rat)) / 1 * (((1 : ℤ) : Rat) / ((2 : ℕ) : Rat)) = x / 4
    push_cast; ring
  rw [hq]
  have := Real.pi_ne_zero
  push_cast
  field_simp

theorem pulseCoeff_cast (m a : Rat) :
    pulseCoeff ((m : ℚ) : ℝ) ((a : ℚ) : ℝ) = ((pulseCoeff m a : ℚ) : ℝ) := by
  show ((1 : ℤ) : ℝ) / ((1 : ℕ) : ℝ) * (|((m : ℚ) : ℝ)| * Real.sign ((a : ℚ) : ℝ)) =
    (((((1 : ℤ) : Rat) / ((1 : ℕ) : Rat)) * (absQ m * signQ a) : ℚ) : ℝ)
  push_cast
  rw [cast_absQ, cast_signQ]

theorem pulseDur_cast (m a : Rat) :
    pulseDur ((m : ℚ) : ℝ) ((a : ℚ) : ℝ) = ((pulseDur m a : ℚ) : ℝ) := by
  show ((1 : ℤ) : ℝ) / ((1 : ℕ) : ℝ) * (|((a : ℚ) : ℝ)| / |((m : ℚ) : ℝ)|) =
    (((((1 : ℤ) : Rat) / ((1 : ℕ) : Rat)) * (absQ a / absQ m) : ℚ) : ℝ)
  push_cast
  rw [cast_absQ, cast_absQ]

theorem isZero_cast (x : Rat) : Arith.isZero ((x : ℚ) : ℝ) = Arith.isZero x := by
  rw [Bool.eq_iff_iff, isZero_iff]
  show ((x : ℚ) : ℝ) = 0 ↔ (x == 0) = true
  rw [beq_iff_eq]
  exact_mod_cast Iff.rfl

/-! ## one gate -/

/-- the real step denoted by a rational one (a phase is kept in units of π) -/
noncomputable def castStep : Step Rat → Step ℝ
  | .instr i => .instr (castI i)
  | .phase θ => .phase (Real.pi * ((θ : ℚ) : ℝ))
  | .nothing => .nothing

noncomputable def castRes : Except SpinChain.Err (Step Rat) → Except SpinChain.Err (Step ℝ)
  | .error e => .error e
  | .ok s => .ok (castStep s)

theorem get_sx' {α : Type} (P : Params α) : P.get? "sx" = some P.sx := by
  unfold Params.get?; rw [if_pos (by decide)]
theorem get_sz' {α : Type} (P : Params α) : P.get? "sz" = some P.sz := by
  unfold Params.get?; rw [if_neg (by decide), if_pos (by decide)]
theorem get_sxsy' {α : Type} (P : Params α) : P.get? swapParamKey = some P.sxsy := by
  unfold Params.get?; rw [if_neg (by decide), if_neg (by decide), if_pos (by decide)]

theorem idx?_map {α β : Type} (f : α → β) (l : List α) (i : Int) : idx? (l.map f) i = (idx? l i).map f := by
  unfold idx?
  split
  · rfl
  · rw [List.getElem?_map]

/-- **one native gate other than IDLE**: compiling over `ℝ` (angles `π · evQ`, strengths cast) is the cast of compiling
over `Rat` (`pi := 1`) -/
theorem compileGate_cast (circular : Bool) (N : ℕ) (evQ : Ang → Rat) (P : Params Rat) (g : Gate)
    (hg : NativeOK circular N g) (hid : g.name ≠ .IDLE) :
    compileGate Real.pi (fun a => Real.pi * ((evQ a : ℚ) : ℝ)) N (castP P) g =
      castRes (compileGate (1 : Rat) evQ N P g) := by
  rcases hg with ⟨t, a, ht, rfl | rfl | rfl⟩ | ⟨a, b, ang, ha, hb, hab, hadj, rfl | rfl⟩ | ⟨ang, rfl⟩
  · unfold compileGate
    rw [lookup_RX]
    simp only [List.head?_cons, get_sx']
    rw [show (castP P).sx = P.sx.map fun x => ((x : ℚ) : ℝ) from rfl, List.getElem?_map]
    cases P.sx[t]? with
    | none => rfl
    | some mx =>
      simp only [Option.map_some, castRes, castStep, castI]
      rw [rotArea_cast, pulseCoeff_cast, pulseDur_cast]
  · unfold compileGate
    rw [lookup_RZ]
    simp only [List.head?_cons, get_sz']
    rw [show (castP P).sz = P.sz.map fun x => ((x : ℚ) : ℝ) from rfl, List.getElem?_map]
    cases P.sz[t]? with
    | none => rfl
    | some mx =>
      simp only [Option.map_some, castRes, castStep, castI]
      rw [rotArea_cast, pulseCoeff_cast, pulseDur_cast]
  · exact absurd rfl hid
  · unfold compileGate
    rw [lookup_ISWAP]
    simp only [get_sxsy']
    rw [show (castP P).sxsy = P.sxsy.map fun x => ((x : ℚ) : ℝ) from rfl, idx?_map]
    cases idx? P.sxsy (swapStrengthIdx (N : Int) (swapQ1 (a : Int) (b : Int)) (swapQ2 (a : Int) (b : Int))) with
    | none => rfl
    | some mx =>
      simp only [Option.map_some, castRes, castStep, castI]
      have e : (Arith.ofFrac (-1) 8 : ℝ) = (((Arith.ofFrac (-1) 8 : Rat) : ℚ) : ℝ) := by
        show ((-1 : ℤ) : ℝ) / ((8 : ℕ) : ℝ) = (((((-1 : ℤ) : Rat) / ((8 : ℕ) : Rat)) : ℚ) : ℝ)
        push_cast; rfl
      rw [e, pulseCoeff_cast, pulseDur_cast]
  · unfold compileGate
    rw [lookup_SQRTISWAP]
    simp only [get_sxsy']
    rw [show (castP P).sxsy = P.sxsy.map fun x => ((x : ℚ) : ℝ) from rfl, idx?_map]
    cases idx? P.sxsy (swapStrengthIdx (N : Int) (swapQ1 (a : Int) (b : Int)) (swapQ2 (a : Int) (b : Int))) with
    | none => rfl
    | some mx =>
      simp only [Option.map_some, castRes, castStep, castI]
      have e : (Arith.ofFrac (-1) 16 : ℝ) = (((Arith.ofFrac (-1) 16 : Rat) : ℚ) : ℝ) := by
        show ((-1 : ℤ) : ℝ) / ((16 : ℕ) : ℝ) = (((((-1 : ℤ) : Rat) / ((16 : ℕ) : Rat)) : ℚ) : ℝ)
        push_cast; rfl
      rw [e, pulseCoeff_cast, pulseDur_cast]
  · unfold compileGate
    rw [lookup_GLOBALPHASE]
    rfl

/-! ## the gate loop and `compile` -/

noncomputable def castOut : Except SpinChain.Err (List (Instr Rat) × Rat) → Except SpinChain.Err (List (Instr ℝ) × ℝ)
  | .error e => .error e
  | .ok (is, ph) => .ok (is.map castI, Real.pi * ((ph : ℚ) : ℝ))

theorem compileLoop_cast (drop circular : Bool) (N : ℕ) (evQ : Ang → Rat) (P : Params Rat) :
    ∀ (gs : List Gate), (∀ g ∈ gs, NativeOK circular N g ∧ g.name ≠ .IDLE) → ∀ ph : Rat,
      compileLoop drop Real.pi (fun a => Real.pi * ((evQ a : ℚ) : ℝ)) N (castP P) gs (Real.pi * ((ph : ℚ) : ℝ)) =
        castOut (compileLoop drop (1 : Rat) evQ N P gs ph) := by
  intro gs
  induction gs with
  | nil => intro _ ph; rfl
  | cons g gs ih =>
    intro hg ph
    have ih' := ih (fun x hx => hg x (List.mem_cons_of_mem _ hx))
    obtain ⟨hn, hid⟩ := hg g (List.mem_cons_self ..)
    unfold compileLoop
    rw [compileGate_cast circular N evQ P g hn hid]
    cases hc : compileGate (1 : Rat) evQ N P g with
    | error e => rfl
    | ok st =>
      cases st with
      | instr i =>
        simp only [castRes, castStep]
        rw [ih' ph]
        cases hr : compileLoop drop (1 : Rat) evQ N P gs ph with
        | error e => rfl
        | ok r =>
          obtain ⟨is0, ph0⟩ := r
          simp only [castOut]
          have hz : Arith.isZero (castI i).dur = Arith.isZero i.dur := isZero_cast i.dur
          rw [hz]
          by_cases hd : (drop && Arith.isZero i.dur) = true
          · rw [if_pos hd, if_pos hd]
          · rw [if_neg hd, if_neg hd]; rfl
      | phase θ =>
        simp only [castRes, castStep]
        have : Arith.add (Real.pi * ((ph : ℚ) : ℝ)) (Real.pi * ((θ : ℚ) : ℝ)) =
            Real.pi * (((Arith.add ph θ : Rat) : ℚ) : ℝ) := by
          show Real.pi * ((ph : ℚ) : ℝ) + Real.pi * ((θ : ℚ) : ℝ) = Real.pi * (((ph + θ : Rat) : ℚ) : ℝ)
          push_cast; ring
        rw [this]
        exact ih' _
      | nothing =>
        simp only [castRes, castStep]
        exact ih' ph

/-- **compile_cast.**  For a list of native gates without IDLE, angles `π · evQ`, rational strengths: the real-valued
instruction list is the cast of the rational one the `Rat` model (`pi := 1`) computes, and the phase is `π ·` the rational
phase — whatever the compiler object carried before (the source resets it). -/
theorem compile_cast (circular : Bool) (N : ℕ) (evQ : Ang → Rat) (P : Params Rat) (gs : List Gate)
    (hg : ∀ g ∈ gs, NativeOK circular N g ∧ g.name ≠ .IDLE) (phase0 : ℝ) (phase0Q : Rat) :
    compile Real.pi (fun a => Real.pi * ((evQ a : ℚ) : ℝ)) N (castP P) phase0 gs =
      castOut (compile (1 : Rat) evQ N P phase0Q gs) := by
  unfold compile
  rw [if_pos (show compileResetsPhase = true from rfl), if_pos (show compileResetsPhase = true from rfl)]
  have h0 : (Arith.ofFrac 0 1 : ℝ) = Real.pi * (((Arith.ofFrac 0 1 : Rat) : ℚ) : ℝ) := by
    show ((0 : ℤ) : ℝ) / ((1 : ℕ) : ℝ) = Real.pi * (((((0 : ℤ) : Rat) / ((1 : ℕ) : Rat)) : ℚ) : ℝ)
    simp
  rw [h0]
  exact compileLoop_cast _ circular N evQ P gs hg _

end QipVerif.SpinChain
