import QipVerif.Lemmas.DecompNames
/-! Helper lemmas for C03: names of the gates produced by the model of resolve_gates. -/
namespace QipVerif.Decomp
open QipVerif QipVerif.Gen

/-- gates the library declares resolvable (C03's input class) -/
def resolvable : List GName :=
  [.X, .Y, .Z, .SNOT, .SQRTNOT, .PHASEGATE, .RX, .RY, .RZ, .CNOT, .CSIGN, .SWAP, .ISWAP, .SQRTSWAP,
   .SQRTISWAP, .TOFFOLI, .FREDKIN, .GLOBALPHASE, .IDLE]

def rot3 : List GName := [.RX, .RY, .RZ]

/-- names that may be in `temp_resolved` -/
def tempOk (b2 : List GName) (n : GName) : Bool :=
  b2.contains n || tempNames.contains n || n == .IDLE || (n == .SWAP && b2.contains .ISWAP)

theorem pauliSub_names (g0 : Gate) :
    (pauliSub g0).1.all (fun g => g.name == .GLOBALPHASE) = true ∧
    ((pauliSub g0).2.name = g0.name ∧ g0.name ≠ .X ∧ g0.name ≠ .Y ∧ g0.name ≠ .Z ∨
      rot3.contains (pauliSub g0).2.name = true) := by
  unfold pauliSub
  split
  · simp [rot3]
  · split
    · simp [rot3]
    · split
      · simp [rot3]
      · simp_all

theorem dispatch_names (b2 : List GName) (inB : GName → Bool) (g : Gate) (out : List Gate)
    (hres : resolvable.contains g.name = true) (hxyz : g.name ≠ .X ∧ g.name ≠ .Y ∧ g.name ≠ .Z)
    (h : dispatch tables b2 inB g = .ok out) : out.all (fun g' => tempOk b2 g'.name) = true := by
  unfold dispatch at h
  split at h
  · rename_i hb; cases h
    have hb' : g.name ∈ b2 := by simpa using hb
    simp [tempOk, hb']
  · split at h
    · rename_i hb; cases h
      have hb' : GName.ISWAP ∈ b2 := by simpa using hb.2
      simp [tempOk, hb.1, hb']
    · split at h
      · rename_i hr
        cases h
        -- ignored: RX RY RZ IDLE CNOT
        have : g.name ∈ tempNames ∨ g.name = .IDLE := by
          revert hr; cases g.name <;> simp [tables, gateRule, tempNames]
        rcases this with h1 | h1
        · simp [tempOk, h1]
        · simp [tempOk, h1]
      · cases h
      · rename_i hr
        exfalso
        revert hr hres; obtain ⟨h1, h2, h3⟩ := hxyz
        revert h1 h2 h3
        cases g.name <;> simp [tables, gateRule, resolvable]
      · rename_i body hr
        split at h
        · rename_i gs hi
          cases h
          have hb := gateRule_names g.name body hr
          have := instBody_all (fun n => tempNames.contains n) hi hb
          rw [List.all_eq_true] at this ⊢
          intro x hx
          have hx' : x.name ∈ tempNames := by simpa using this x hx
          simp [tempOk, hx']
        · cases h

theorem rot3_tempOk (b2 : List GName) (n : GName) (h : rot3.contains n = true) : tempOk b2 n = true := by
  have : n ∈ tempNames := by
    have h' : n ∈ rot3 := by simpa using h
    simp only [rot3, List.mem_cons, List.not_mem_nil, or_false] at h'
    rcases h' with rfl | rfl | rfl <;> simp [tempNames]
  simp [tempOk, this]

theorem resolveOne_names (b2 : List GName) (inB : GName → Bool) (g0 : Gate) (pre out : List Gate)
    (hres : resolvable.contains g0.name = true)
    (h : resolveOne tables b2 inB g0 = .ok (pre, out)) :
    pre.all (fun g => g.name == .GLOBALPHASE) = true ∧ out.all (fun g' => tempOk b2 g'.name) = true := by
  unfold resolveOne at h
  split at h
  · rename_i o hd
    cases h
    obtain ⟨hp, hg⟩ := pauliSub_names g0
    refine ⟨hp, ?_⟩
    rcases hg with ⟨hn, hx⟩ | hrot
    · exact dispatch_names b2 inB _ _ (by rw [hn]; exact hres) (by rw [hn]; exact hx) hd
    · -- the substituted gate is a rotation: it is resolvable and not a Pauli
      have hr' : (pauliSub g0).2.name ∈ rot3 := by simpa using hrot
      apply dispatch_names b2 inB _ _ _ _ hd
      · simp only [rot3, List.mem_cons, List.not_mem_nil, or_false] at hr'
        rcases hr' with h1 | h1 | h1 <;> simp [h1, resolvable]
      · simp only [rot3, List.mem_cons, List.not_mem_nil, or_false] at hr'
        rcases hr' with h1 | h1 | h1 <;> simp [h1]
  · cases h

theorem resolveAll_names (b2 : List GName) (inB : GName → Bool) :
    ∀ (gs : List Gate) (pre out : List Gate),
    gs.all (fun g => resolvable.contains g.name) = true →
    resolveAll tables b2 inB gs = .ok (pre, out) →
    pre.all (fun g => g.name == .GLOBALPHASE) = true ∧ out.all (fun g' => tempOk b2 g'.name) = true := by
  intro gs
  induction gs with
  | nil => intro pre out _ h; simp [resolveAll] at h; obtain ⟨rfl, rfl⟩ := h; simp
  | cons g gs ih =>
    intro pre out hres h
    simp only [List.all_cons, Bool.and_eq_true] at hres
    unfold resolveAll at h
    split at h
    · cases h
    · rename_i p r h1
      split at h
      · cases h
      · rename_i ps rs h2
        cases h
        obtain ⟨a1, a2⟩ := resolveOne_names b2 inB g p r hres.1 h1
        obtain ⟨b1, b2'⟩ := ih ps rs hres.2 h2
        simp [List.all_append, a1, a2, b1, b2']

def finalOk (b2 : List GName) (n : GName) : Bool :=
  b2.contains n || rot3.contains n || n == .GLOBALPHASE || n == .IDLE

theorem basisPass_names (b2 : List GName) (y : GName)
    (hy : [GName.CSIGN, .ISWAP, .SQRTSWAP, .SQRTISWAP].contains y = true) (hyb : y ∈ b2)
    (hisw : GName.ISWAP ∈ b2 → y = .ISWAP) :
    ∀ (temp out : List Gate), temp.all (fun g => tempOk b2 g.name) = true →
      basisPass tables y temp = .ok out → out.all (fun g => finalOk b2 g.name) = true := by
  intro temp
  induction temp with
  | nil => intro out _ h; simp [basisPass] at h; subst h; simp
  | cons g gs ih =>
    intro out hall h
    simp only [List.all_cons, Bool.and_eq_true] at hall
    unfold basisPass at h
    split at h
    · cases h
    · rename_i rest hrest
      have hr := ih rest hall.2 hrest
      split at h
      · rename_i hnone
        cases h
        simp only [List.all_cons, Bool.and_eq_true]
        refine ⟨?_, hr⟩
        -- the gate stays: it is not CNOT and not a SWAP awaiting the ISWAP pass
        have hcn : g.name ≠ .CNOT := by
          intro hc
          have := basisRule_CNOT y hy
          simp only [tables] at hnone
          rw [hc] at hnone
          rw [hnone] at this; simp at this
        have hsw : ¬ (g.name = .SWAP ∧ GName.ISWAP ∈ b2) := by
          rintro ⟨hs, hi⟩
          have hyi := hisw hi
          have := basisRule_ISWAP_SWAP
          simp only [tables] at hnone
          rw [hs, hyi] at hnone
          rw [hnone] at this; simp at this
        have ht := hall.1
        simp only [tempOk, tempNames, Bool.or_eq_true, Bool.and_eq_true, List.contains_iff_mem,
          beq_iff_eq, List.mem_cons, List.not_mem_nil, or_false] at ht
        simp only [finalOk, rot3, Bool.or_eq_true, List.contains_iff_mem, beq_iff_eq, List.mem_cons,
          List.not_mem_nil, or_false]
        rcases ht with ((h1 | h1) | h1) | h1
        · exact Or.inl (Or.inl (Or.inl h1))
        · rcases h1 with h1 | h1 | h1 | h1 | h1
          · exact Or.inl (Or.inl (Or.inr (Or.inl h1)))
          · exact Or.inl (Or.inl (Or.inr (Or.inr (Or.inl h1))))
          · exact Or.inl (Or.inl (Or.inr (Or.inr (Or.inr h1))))
          · exact absurd h1 hcn
          · exact Or.inl (Or.inr h1)
        · exact Or.inr h1
        · exact absurd h1 hsw
      · rename_i body hsome
        split at h
        · rename_i o hi
          cases h
          rw [List.all_append, Bool.and_eq_true]
          refine ⟨?_, hr⟩
          have hb := (basisRule_names y g.name body hsome).2
          have := instBody_all (fun n => n == y || [GName.RX, .RY, .RZ, .GLOBALPHASE].contains n) hi hb
          rw [List.all_eq_true] at this ⊢
          intro x hx
          have hx' := this x hx
          simp only [Bool.or_eq_true, beq_iff_eq, List.contains_iff_mem, List.mem_cons, List.not_mem_nil,
            or_false] at hx'
          simp only [finalOk, rot3, Bool.or_eq_true, List.contains_iff_mem, beq_iff_eq, List.mem_cons,
            List.not_mem_nil, or_false]
          rcases hx' with h1 | h1 | h1 | h1 | h1
          · exact Or.inl (Or.inl (Or.inl (h1 ▸ hyb)))
          · exact Or.inl (Or.inl (Or.inr (Or.inl h1)))
          · exact Or.inl (Or.inl (Or.inr (Or.inr (Or.inl h1))))
          · exact Or.inl (Or.inl (Or.inr (Or.inr (Or.inr h1))))
          · exact Or.inl (Or.inr h1)
        · cases h

def allowedOk (b1 b2 : List GName) (n : GName) : Bool :=
  b2.contains n || b1.contains n || n == .GLOBALPHASE || n == .IDLE

/-- a duplicate-free list of rotations of length 2 or 3 -/
def rotBasis (b1 : List GName) : Bool :=
  b1.all rot3.contains && decide b1.Nodup && (b1.length == 2 || b1.length == 3)

theorem rot3_cases {n : GName} (h : n ∈ rot3) : n = .RX ∨ n = .RY ∨ n = .RZ := by
  simpa [rot3] using h

theorem rotBasis_three (b1 : List GName) (h : rotBasis b1 = true) (h3 : b1.length = 3) :
    ∀ n, n ∈ rot3 → n ∈ b1 := by
  simp only [rotBasis, Bool.and_eq_true, List.all_eq_true, List.contains_iff_mem, decide_eq_true_eq] at h
  obtain ⟨⟨hsub, hnd⟩, _⟩ := h
  match b1, h3 with
  | [a, b, c], _ =>
    have ha := rot3_cases (hsub a (by simp))
    have hb := rot3_cases (hsub b (by simp))
    have hc := rot3_cases (hsub c (by simp))
    intro n hn
    have hn' := rot3_cases hn
    rcases ha with rfl | rfl | rfl <;> rcases hb with rfl | rfl | rfl <;> rcases hc with rfl | rfl | rfl <;>
      rcases hn' with rfl | rfl | rfl <;> simp_all

theorem rotBasis_two (b1 : List GName) (h : rotBasis b1 = true) (h2 : b1.length = 2) :
    ∀ n, n ∈ rot3 → n ∉ b1 → ∀ m, m ∈ rot3 → m ≠ n → m ∈ b1 := by
  simp only [rotBasis, Bool.and_eq_true, List.all_eq_true, List.contains_iff_mem, decide_eq_true_eq] at h
  obtain ⟨⟨hsub, hnd⟩, _⟩ := h
  match b1, h2 with
  | [a, b], _ =>
    have ha := rot3_cases (hsub a (by simp))
    have hb := rot3_cases (hsub b (by simp))
    intro n hn hnb m hm hmn
    have hn' := rot3_cases hn
    have hm' := rot3_cases hm
    rcases ha with rfl | rfl | rfl <;> rcases hb with rfl | rfl | rfl <;>
      rcases hn' with rfl | rfl | rfl <;> rcases hm' with rfl | rfl | rfl <;> simp_all

theorem elim1q_names (b1 b2 : List GName) (hb : rotBasis b1 = true) (h2 : b1.length = 2) (g : Gate)
    (hg : finalOk b2 g.name = true) : (elim1q b1 g).all (fun g' => allowedOk b1 b2 g'.name) = true := by
  have two := rotBasis_two b1 hb h2
  have memRX : GName.RX ∈ rot3 := by simp [rot3]
  have memRY : GName.RY ∈ rot3 := by simp [rot3]
  have memRZ : GName.RZ ∈ rot3 := by simp [rot3]
  unfold elim1q
  split
  · rename_i h
    have hn : GName.RX ∉ b1 := by simpa using h.2
    have hy := two .RX memRX hn .RY memRY (by simp)
    have hz := two .RX memRX hn .RZ memRZ (by simp)
    simp [allowedOk, hy, hz]
  · split
    · rename_i h
      have hn : GName.RY ∉ b1 := by simpa using h.2
      have hx := two .RY memRY hn .RX memRX (by simp)
      have hz := two .RY memRY hn .RZ memRZ (by simp)
      simp [allowedOk, hx, hz]
    · split
      · rename_i h
        have hn : GName.RZ ∉ b1 := by simpa using h.2
        have hx := two .RZ memRZ hn .RX memRX (by simp)
        have hy := two .RZ memRZ hn .RY memRY (by simp)
        simp [allowedOk, hx, hy]
      · rename_i h1 h2' h3
        simp only [List.all_cons, List.all_nil, Bool.and_true]
        simp only [finalOk, Bool.or_eq_true, List.contains_iff_mem, beq_iff_eq] at hg
        simp only [allowedOk, Bool.or_eq_true, List.contains_iff_mem, beq_iff_eq]
        rcases hg with ((h | h) | h) | h
        · exact Or.inl (Or.inl (Or.inl h))
        · -- a rotation that was not eliminated is in b1
          have hc := rot3_cases h
          rcases hc with hc | hc | hc
          · have : GName.RX ∈ b1 :=
              Decidable.byContradiction (fun hx => h1 ⟨hc, by simpa using hx⟩)
            exact Or.inl (Or.inl (Or.inr (hc ▸ this)))
          · have : GName.RY ∈ b1 :=
              Decidable.byContradiction (fun hx => h2' ⟨hc, by simpa using hx⟩)
            exact Or.inl (Or.inl (Or.inr (hc ▸ this)))
          · have : GName.RZ ∈ b1 :=
              Decidable.byContradiction (fun hx => h3 ⟨hc, by simpa using hx⟩)
            exact Or.inl (Or.inl (Or.inr (hc ▸ this)))
        · exact Or.inl (Or.inr h)
        · exact Or.inr h

theorem finalOk_allowedOk_three (b1 b2 : List GName) (hb : rotBasis b1 = true) (h3 : b1.length = 3)
    (n : GName) (h : finalOk b2 n = true) : allowedOk b1 b2 n = true := by
  have three := rotBasis_three b1 hb h3
  simp only [finalOk, Bool.or_eq_true, List.contains_iff_mem, beq_iff_eq] at h
  simp only [allowedOk, Bool.or_eq_true, List.contains_iff_mem, beq_iff_eq]
  rcases h with ((h | h) | h) | h
  · exact Or.inl (Or.inl (Or.inl h))
  · exact Or.inl (Or.inl (Or.inr (three n h)))
  · exact Or.inl (Or.inr h)
  · exact Or.inr h

theorem tempOk_finalOk_noMatch (b2 : List GName) (hne : b2 ≠ [])
    (hv : b2.all basis2qValid.contains = true)
    (hno : [GName.CSIGN, .ISWAP, .SQRTSWAP, .SQRTISWAP].find? b2.contains = none)
    (n : GName) (h : tempOk b2 n = true) : finalOk b2 n = true := by
  rw [List.find?_eq_none] at hno
  have h1 : GName.CSIGN ∉ b2 := by simpa using hno .CSIGN (by simp)
  have h2 : GName.ISWAP ∉ b2 := by simpa using hno .ISWAP (by simp)
  have h3 : GName.SQRTSWAP ∉ b2 := by simpa using hno .SQRTSWAP (by simp)
  have h4 : GName.SQRTISWAP ∉ b2 := by simpa using hno .SQRTISWAP (by simp)
  have hcnot : GName.CNOT ∈ b2 := by
    match b2, hne with
    | a :: _, _ =>
      have ha : a ∈ basis2qValid := by
        have := (List.all_eq_true.mp hv) a (by simp)
        simpa using this
      simp only [basis2qValid, List.mem_cons, List.not_mem_nil, or_false] at ha
      rcases ha with rfl | rfl | rfl | rfl | rfl
      · simp
      · exact absurd (by simp) h1
      · exact absurd (by simp) h2
      · exact absurd (by simp) h3
      · exact absurd (by simp) h4
  simp only [tempOk, tempNames, Bool.or_eq_true, Bool.and_eq_true, List.contains_iff_mem, beq_iff_eq,
    List.mem_cons, List.not_mem_nil, or_false] at h
  simp only [finalOk, rot3, Bool.or_eq_true, List.contains_iff_mem, beq_iff_eq, List.mem_cons,
    List.not_mem_nil, or_false]
  rcases h with ((h | h) | h) | h
  · exact Or.inl (Or.inl (Or.inl h))
  · rcases h with h | h | h | h | h
    · exact Or.inl (Or.inl (Or.inr (Or.inl h)))
    · exact Or.inl (Or.inl (Or.inr (Or.inr (Or.inl h))))
    · exact Or.inl (Or.inl (Or.inr (Or.inr (Or.inr h))))
    · exact Or.inl (Or.inl (Or.inl (h ▸ hcnot)))
    · exact Or.inl (Or.inr h)
  · exact Or.inr h
  · exact absurd h.2 h2

theorem firstMatch_spec (b2 : List GName) (y : GName)
    (h : [GName.CSIGN, .ISWAP, .SQRTSWAP, .SQRTISWAP].find? b2.contains = some y)
    (hisw : GName.ISWAP ∈ b2 → GName.CSIGN ∉ b2) :
    [GName.CSIGN, .ISWAP, .SQRTSWAP, .SQRTISWAP].contains y = true ∧ y ∈ b2 ∧ (GName.ISWAP ∈ b2 → y = .ISWAP) := by
  have hm := List.mem_of_find?_eq_some h
  have hp := List.find?_some h
  refine ⟨by simpa using hm, by simpa using hp, ?_⟩
  intro hi
  have hc := hisw hi
  have e1 : b2.contains GName.CSIGN = false := by simpa using hc
  have e2 : b2.contains GName.ISWAP = true := by simpa using hi
  simp only [List.find?, e1, e2] at h
  exact (Option.some.inj h).symm

/-- **Output alphabet.**  For every valid basis and every circuit of resolvable gates, whatever
`resolve_gates` returns contains only gates of the basis plus GLOBALPHASE / IDLE markers. -/
theorem resolve_names_core (keep : Bool) (b : BasisSpec) (gs out : List Gate)
    (b1 b2 : List GName) (inB : GName → Bool)
    (hs : splitBasis b = .ok (b1, b2, inB))
    (hne : b2 ≠ []) (hv : b2.all basis2qValid.contains = true)
    (hisw : GName.ISWAP ∈ b2 → GName.CSIGN ∉ b2) (hb1 : rotBasis b1 = true)
    (hres : gs.all (fun g => resolvable.contains g.name) = true)
    (h : resolve tables keep b gs = .ok out) :
    out.all (fun g => allowedOk b1 b2 g.name) = true := by
  unfold resolve at h
  rw [hs] at h
  simp only at h
  split at h
  · cases h
  · rename_i markers temp hra
    obtain ⟨hm, ht⟩ := resolveAll_names b2 inB gs markers temp hres hra
    have hmark : markers.all (fun g => finalOk b2 g.name) = true := by
      rw [List.all_eq_true] at hm ⊢
      intro x hx
      have := hm x hx
      simp only [beq_iff_eq] at this
      simp [finalOk, this]
    -- stage 2
    have stage2 : ∀ o, (match [GName.CSIGN, .ISWAP, .SQRTSWAP, .SQRTISWAP].find? b2.contains with
        | some y => match basisPass tables y temp with
                    | .ok out => Except.ok (markers ++ out)
                    | .error e => .error e
        | none => .ok (if keep then markers ++ temp else temp)) = Except.ok o →
        o.all (fun g => finalOk b2 g.name) = true := by
      intro o ho
      split at ho
      · rename_i y hy
        obtain ⟨y1, y2, y3⟩ := firstMatch_spec b2 y hy hisw
        split at ho
        · rename_i bo hbo
          cases ho
          rw [List.all_append, hmark, basisPass_names b2 y y1 y2 y3 temp bo ht hbo]; rfl
        · cases ho
      · rename_i hno
        cases ho
        have htf : temp.all (fun g => finalOk b2 g.name) = true := by
          rw [List.all_eq_true] at ht ⊢
          intro x hx
          exact tempOk_finalOk_noMatch b2 hne hv hno x.name (ht x hx)
        split
        · rw [List.all_append, hmark, htf]; rfl
        · exact htf
    split at h
    · cases h
    · rename_i o ho
      cases h
      have hfo := stage2 o ho
      have hlen : b1.length = 2 ∨ b1.length = 3 := by
        simp only [rotBasis, Bool.and_eq_true, Bool.or_eq_true, beq_iff_eq] at hb1
        exact hb1.2
      split
      · rename_i h2
        rw [List.all_flatMap]
        rw [List.all_eq_true] at hfo ⊢
        intro x hx
        exact elim1q_names b1 b2 hb1 h2 x (hfo x hx)
      · rename_i h2
        have h3 : b1.length = 3 := by omega
        rw [List.all_eq_true] at hfo ⊢
        intro x hx
        exact finalOk_allowedOk_three b1 b2 hb1 h3 x.name (hfo x hx)
end QipVerif.Decomp
