import QipVerif.Lemmas.QasmTokLine
/-!
# Items and statement shapes of the rendered AST (C04 tokenizer)

* `wordItem`, `argItem`, `exprItem` — identifiers, `q` / `q[i]` operands and parameter expressions of any
  depth as items of comma-separated lists (padded text, tokens);
* `plainShape`, `qop_shape`, `gop_shape` — every quantum operation of the AST has one of the two shapes
  of `OpShape`, with the tokens `qopToks` / `gopToks`.
-/
namespace QipVerif.Qasm.Tok
open QipVerif.Qasm

/-! ## identifiers -/

theorem wordItem {q : Str} (h : isWord q = true) : OpndItem (q, [q], q) := by
  obtain ⟨h1, h2, h3, h4⟩ := isWord_parts h
  have hp : padLine q = q := padLine_plain q h4
  unfold OpndItem
  simp only [hp]
  refine ⟨all_imp (fun _ => plain_okQ) h4, strip_word h3, ?_⟩
  intro rest hr
  rw [splitBy_word sepC q rest h1 h2 hr]; rfl

theorem wordParam {q : Str} (h : isWord q = true) : ParamItem (q, q) := (wordItem h).param

/-! ## operands `q` and `q[i]` -/

theorem padLine_idx (r : Str) (i : Nat) (hr : r.all plain = true) :
    padLine (Arg.render (.idx r i)) = r ++ ' ' :: '[' :: ' ' :: (natDigits i ++ [' ', ']', ' ']) := by
  simp only [Arg.render, padLine_append, padLine_cons, padLine_nil, padLine_plain r hr,
    padLine_plain _ (natDigits_plain i)]
  simp [padChar]

theorem splitBy_char_sep (p : Char → Bool) {c d : Char} (rest : Str) (hc : p c = false) (hd : p d = true) :
    splitBy p (c :: d :: rest) = [c] :: splitBy p rest := by
  have := splitBy_word p [c] (d :: rest) (by simp) (by simpa using hc) (by simpa [startsSep] using hd)
  rw [List.singleton_append, splitBy_sep p rest hd] at this
  exact this

theorem sepC_lbr : sepC '[' = false := by decide
theorem sepC_rbr : sepC ']' = false := by decide

theorem argItem {a : Arg} (h : argOk a = true) : OpndItem (a.render, argToks1 a, argTok3 a) := by
  cases a with
  | whole r => exact wordItem h
  | idx r i =>
    have hw : isWord r = true := h
    obtain ⟨h1, h2, h3, h4⟩ := isWord_parts hw
    obtain ⟨d1, d2, d3, d4⟩ := isWord_parts (natDigits_isWord i)
    unfold OpndItem
    simp only [padLine_idx r i h4, argToks1, argTok3]
    refine ⟨?_, ?_, ?_⟩
    · have e1 := all_imp (fun _ => plain_okQ) h4
      have e2 := all_imp (fun _ => plain_okQ) d4
      simp only [List.all_append, List.all_cons, List.all_nil, e1, e2, Bool.and_true, Bool.true_and]
      decide
    · cases r with
      | nil => exact absurd rfl h1
      | cons a t =>
        have ha := h3 a (by simp)
        have := strip_core [] [' '] (t ++ ' ' :: '[' :: ' ' :: (natDigits i ++ [' '])) a ']' rfl (by decide) ha
          (by decide)
        simp only [List.nil_append] at this
        have e : (a :: t) ++ ' ' :: '[' :: ' ' :: (natDigits i ++ [' ', ']', ' ']) =
            (a :: (t ++ ' ' :: '[' :: ' ' :: (natDigits i ++ [' '])) ++ [']']) ++ [' '] := by simp
        rw [e, this]; simp
    · intro rest hr
      simp only [List.append_assoc, List.cons_append, List.nil_append]
      rw [splitBy_word sepC r _ h1 h2 (by simp [startsSep, sepC_space]), splitBy_sep sepC _ sepC_space,
        splitBy_char_sep sepC _ sepC_lbr sepC_space,
        splitBy_word sepC (natDigits i) _ d1 d2 (by simp [startsSep, sepC_space]),
        splitBy_sep sepC _ sepC_space, splitBy_char_sep sepC _ sepC_rbr sepC_space]

/-! ## parameter expressions -/

/-- characters of a rendered expression: plain, or a parenthesis -/
def ec (c : Char) : Bool := plain c || c == '(' || c == ')'

theorem ec_plain {c : Char} (h : plain c = true) : ec c = true := by simp [ec, h]

theorem all_ec_of_plain {s : Str} (h : s.all plain = true) : s.all ec = true :=
  all_imp (fun _ => ec_plain) h

theorem ec_paren {s : Str} (h : s.all ec = true) : (paren s).all ec = true := by
  simp only [paren, List.all_cons, List.all_append, List.all_nil, h, Bool.and_true]
  decide

theorem render_ec (e : Expr) (h : exprOk e = true) : e.render.all ec = true := by
  induction e with
  | pi => decide
  | lit s => exact all_ec_of_plain h
  | id s => exact all_ec_of_plain h
  | neg e ih =>
    have := ih h
    simp only [Expr.render, List.all_cons]
    split <;> simp [this, ec_paren this] <;> decide
  | add a b iha ihb | sub a b iha ihb | mul a b iha ihb | div a b iha ihb | pow a b iha ihb =>
    simp only [exprOk, Bool.and_eq_true] at h
    have ha := iha h.1
    have hb := ihb h.2
    simp only [Expr.render, List.all_append, List.all_cons]
    split <;> split <;> simp [ha, hb, ec_paren ha, ec_paren hb] <;> decide
  | fn f e ih =>
    simp only [exprOk, Bool.and_eq_true] at h
    have := ih h.2
    simp [Expr.render, List.all_append, all_ec_of_plain h.1, ec_paren this]

theorem ec_ne {c : Char} (h : ec c = true) :
    c ≠ '{' ∧ c ≠ '}' ∧ c ≠ ';' ∧ c ≠ ',' ∧ c ≠ '\n' ∧ c ≠ '[' ∧ c ≠ ']' := by
  simp only [ec, Bool.or_eq_true, beq_iff_eq] at h
  rcases h with (h | rfl) | rfl
  · have := plain_ne h
    exact ⟨this.2.2.2.2.1, this.2.2.2.2.2.1, this.2.2.2.2.2.2.1, this.2.2.2.2.2.2.2.1,
      this.2.2.2.2.2.2.2.2.2, this.2.2.1, this.2.2.2.1⟩
  · decide
  · decide

/-- on text without braces the six `replace` passes are `padBrackets` -/
theorem padLine_eq_padBrackets (s : Str) (h : ∀ c ∈ s, c ≠ '{' ∧ c ≠ '}') : padLine s = padBrackets s := by
  induction s with
  | nil => rfl
  | cons c cs ih =>
    have hc := h c (by simp)
    rw [padLine_cons, ih (fun d hd => h d (by simp [hd])), padBrackets, padChar]
    by_cases h1 : c = '('
    · subst h1; rfl
    by_cases h2 : c = ')'
    · subst h2; rfl
    by_cases h3 : c = '['
    · subst h3; rfl
    by_cases h4 : c = ']'
    · subst h4; rfl
    simp [h1, h2, h3, h4, hc.1, hc.2]

theorem exprItem {e : Expr} (h : exprOk e = true) : ParamItem (e.render, argToken e) := by
  have hec := render_ec e h
  have hb : ∀ c ∈ e.render, c ≠ '{' ∧ c ≠ '}' := fun c hc =>
    have := ec_ne ((List.all_eq_true.mp hec) c hc); ⟨this.1, this.2.1⟩
  unfold ParamItem
  refine ⟨?_, ?_⟩
  · simp only [List.all_eq_true]
    intro c hc
    rcases mem_padLine hc with hm | rfl | ⟨_, hbr⟩
    · have := ec_ne ((List.all_eq_true.mp hec) c hm)
      simp [okP, this]
    · decide
    · rcases hbr with hbr | hbr
      · exact absurd rfl (hb _ hbr).1
      · exact absurd rfl (hb _ hbr).2
  · simp only [argToken, padLine_eq_padBrackets _ hb]

/-! ## bodies without parameter list -/

theorem allWs_startsSep (w rest : Str) (hw : allWs w = true) : startsSep sepC (w ++ rest) = true ∨ w = [] := by
  cases w with
  | nil => exact Or.inr rfl
  | cons c cs =>
    simp only [allWs, List.all_cons, Bool.and_eq_true] at hw
    exact Or.inl (by simp [startsSep, sepC, hw.1])

theorem startsSep_ws (w : Str) (hw : allWs w = true) : startsSep sepC w = true := by
  cases w with
  | nil => rfl
  | cons c cs =>
    simp only [allWs, List.all_cons, Bool.and_eq_true] at hw
    simp [startsSep, sepC, hw.1]

/-- `kw item,item,…` -/
theorem plainShape (kw : Str) (hkw : isWord kw = true) (qi : List (Str × List Str × Str))
    (hqi : ∀ it ∈ qi, OpndItem it) :
    OpShape (kw ++ ' ' :: intercal [','] (qi.map (·.1))) (kw :: qi.flatMap (·.2.1)) := by
  obtain ⟨h1, h2, h3, h4⟩ := isWord_parts hkw
  have hQ := opnds_all qi hqi
  have hp : padLine (kw ++ ' ' :: intercal [','] (qi.map (·.1))) =
      kw ++ ' ' :: padLine (intercal [','] (qi.map (·.1))) := by
    rw [padLine_append, padLine_cons, padLine_plain kw h4]; rfl
  left
  rw [hp]
  refine ⟨?_, ?_⟩
  · simp only [List.all_append, List.all_cons, word_all_okB h4, hQ, Bool.and_true, Bool.true_and]
    decide
  · intro w1 w2 hw1 hw2
    rw [List.append_assoc, splitBy_seps_append sepC w1 _ (allWs_sepC hw1), List.append_assoc,
      splitBy_word sepC kw _ h1 h2 (by simp [startsSep, sepC_space]), List.cons_append,
      splitBy_sep sepC _ sepC_space, opnds1 qi w2 (startsSep_ws w2 hw2) hqi,
      splitBy_allSep sepC w2 (allWs_sepC hw2)]
    simp

theorem argItems (qs : List Arg) (h : qs.all argOk = true) :
    ∀ it ∈ qs.map (fun a => (a.render, argToks1 a, argTok3 a)), OpndItem it := by
  intro it hit
  simp only [List.mem_map] at hit
  obtain ⟨a, ha, rfl⟩ := hit
  exact argItem ((List.all_eq_true.mp h) a ha)

theorem wordItems (qs : List Str) (h : qs.all isWord = true) :
    ∀ it ∈ qs.map (fun q => (q, [q], q)), OpndItem it := by
  intro it hit
  simp only [List.mem_map] at hit
  obtain ⟨a, ha, rfl⟩ := hit
  exact wordItem ((List.all_eq_true.mp h) a ha)

theorem exprItems (ps : List Expr) (h : ps.all exprOk = true) :
    ∀ it ∈ ps.map (fun e => (e.render, argToken e)), ParamItem it := by
  intro it hit
  simp only [List.mem_map] at hit
  obtain ⟨a, ha, rfl⟩ := hit
  exact exprItem ((List.all_eq_true.mp h) a ha)

theorem wordParams (ps : List Str) (h : ps.all isWord = true) :
    ∀ it ∈ ps.map (fun q => (q, q)), ParamItem it := by
  intro it hit
  simp only [List.mem_map] at hit
  obtain ⟨a, ha, rfl⟩ := hit
  exact wordParam ((List.all_eq_true.mp h) a ha)

/-! ## quantum operations -/

/-- the text of an operation without its `;` -/
def qopBody : QOp → Str
  | .U a b c q => callText cs!"U" [a.render, b.render, c.render] [q.render]
  | .CX a b => cs!"CX" ++ ' ' :: intercal [','] [a.render, b.render]
  | .call n ps qs => callText n (ps.map Expr.render) (qs.map Arg.render)
  | .measure q c => cs!"measure " ++ q.render ++ cs!" -> " ++ c.render
  | .reset q => cs!"reset" ++ ' ' :: intercal [','] [q.render]

theorem qop_render (op : QOp) : op.render = qopBody op ++ [';'] := by
  cases op with
  | U a b c q => simp [QOp.render, qopBody, callText, intercal]
  | CX a b => simp [QOp.render, qopBody, intercal]
  | call n ps qs =>
    simp only [QOp.render, qopBody, callText, renderParams, List.isEmpty_map]
  | measure q c => simp [QOp.render, qopBody]
  | reset q => simp [QOp.render, qopBody, intercal]

def gopBody : GOp → Str
  | .U a b c q => callText cs!"U" [a.render, b.render, c.render] [q]
  | .CX a b => cs!"CX" ++ ' ' :: intercal [','] [a, b]
  | .call n ps qs => callText n (ps.map Expr.render) qs
  | .barrier qs => cs!"barrier" ++ ' ' :: intercal [','] qs

theorem gop_render (g : GOp) : g.render = gopBody g ++ [';'] := by
  cases g with
  | U a b c q => simp [GOp.render, gopBody, callText, intercal]
  | CX a b => simp [GOp.render, gopBody, intercal]
  | call n ps qs =>
    simp only [GOp.render, gopBody, callText, renderParams, List.isEmpty_map]
  | barrier qs => simp [GOp.render, gopBody]

theorem isWord_U : isWord cs!"U" = true := by decide
theorem isWord_CX : isWord cs!"CX" = true := by decide
theorem isWord_reset : isWord cs!"reset" = true := by decide
theorem isWord_barrier : isWord cs!"barrier" = true := by decide
theorem isWord_measure : isWord cs!"measure" = true := by decide
theorem isWord_arrow : isWord cs!"->" = true := by decide

/-- a call `name(params) operands` / `name operands` -/
theorem callShape (name : Str) (pi : List (Str × Str)) (qi : List (Str × List Str × Str))
    (hname : isWord name = true) (hif : pi.isEmpty = true ∨ name ≠ cs!"if")
    (hpi : ∀ it ∈ pi, ParamItem it) (hqi : ∀ it ∈ qi, OpndItem it) :
    OpShape (callText name (pi.map (·.1)) (qi.map (·.1)))
      (callToks name (pi.map (·.2)) (qi.flatMap (·.2.1)) (qi.map (·.2.2))) := by
  cases pi with
  | nil =>
    have := plainShape name hname qi hqi
    simpa [callText, callToks] using this
  | cons p ps =>
    right
    refine ⟨name, p :: ps, qi, hname, ?_, by simp, hpi, hqi, rfl, rfl⟩
    rcases hif with h | h
    · simp at h
    · exact h

theorem qop_shape (op : QOp) (h : qopOk op = true) : OpShape (qopBody op) (qopToks op) := by
  cases op with
  | U a b c q =>
    simp only [qopOk, Bool.and_eq_true] at h
    have := callShape cs!"U" [(a.render, argToken a), (b.render, argToken b), (c.render, argToken c)]
      [(q.render, argToks1 q, argTok3 q)] isWord_U (Or.inr (by decide))
      (by
        intro it hit
        simp only [List.mem_cons, List.not_mem_nil, or_false] at hit
        rcases hit with rfl | rfl | rfl
        · exact exprItem h.1.1.1
        · exact exprItem h.1.1.2
        · exact exprItem h.1.2)
      (by
        intro it hit
        simp only [List.mem_cons, List.not_mem_nil, or_false] at hit
        subst hit; exact argItem h.2)
    simpa [qopBody, qopToks] using this
  | CX a b =>
    simp only [qopOk, Bool.and_eq_true] at h
    have := plainShape cs!"CX" isWord_CX [(a.render, argToks1 a, argTok3 a), (b.render, argToks1 b, argTok3 b)]
      (by
        intro it hit
        simp only [List.mem_cons, List.not_mem_nil, or_false] at hit
        rcases hit with rfl | rfl
        · exact argItem h.1
        · exact argItem h.2)
    simpa [qopBody, qopToks] using this
  | call n ps qs =>
    simp only [qopOk, callOk, Bool.and_eq_true, Bool.or_eq_true, bne_iff_ne, ne_eq] at h
    have := callShape n (ps.map fun e => (e.render, argToken e))
      (qs.map fun a => (a.render, argToks1 a, argTok3 a)) h.1.1.1
      (by
        rcases h.1.2 with h' | h'
        · left; simpa using h'
        · exact Or.inr h')
      (exprItems ps h.1.1.2) (argItems qs h.2)
    simpa [qopBody, qopToks, List.map_map, Function.comp_def, List.flatMap_map] using this
  | reset q =>
    have := plainShape cs!"reset" isWord_reset [(q.render, argToks1 q, argTok3 q)]
      (by
        intro it hit
        simp only [List.mem_cons, List.not_mem_nil, or_false] at hit
        subst hit; exact argItem h)
    simpa [qopBody, qopToks] using this
  | measure q c =>
    simp only [qopOk, Bool.and_eq_true] at h
    have hq := argItem h.1
    have hc := argItem h.2
    unfold OpndItem at hq hc
    simp only at hq hc
    have hp : padLine (qopBody (.measure q c)) =
        cs!"measure " ++ padLine q.render ++ cs!" -> " ++ padLine c.render := by
      simp only [qopBody, padLine_append]
      rfl
    left
    rw [hp]
    refine ⟨?_, ?_⟩
    · have e1 := all_imp (q := fun c => okL c && c != '(' && c != ')') (fun c hc' => by
        simp only [okQ, Bool.and_eq_true] at hc'
        simp [okP_okL hc'.1.1, hc'.1.2, hc'.2]) hq.1
      have e2 := all_imp (q := fun c => okL c && c != '(' && c != ')') (fun c hc' => by
        simp only [okQ, Bool.and_eq_true] at hc'
        simp [okP_okL hc'.1.1, hc'.1.2, hc'.2]) hc.1
      simp only [List.all_append, e1, e2, Bool.and_true, Bool.true_and]
      decide
    · intro w1 w2 hw1 hw2
      obtain ⟨m1, m2, m3, m4⟩ := isWord_parts isWord_measure
      obtain ⟨a1, a2, a3, a4⟩ := isWord_parts isWord_arrow
      have e : w1 ++ (cs!"measure " ++ padLine q.render ++ cs!" -> " ++ padLine c.render) ++ w2 =
          w1 ++ (cs!"measure" ++ ' ' :: (padLine q.render ++ (' ' :: (cs!"->" ++ ' ' :: (padLine c.render ++ w2))))) := by
        simp [List.append_assoc]
      rw [e, splitBy_seps_append sepC w1 _ (allWs_sepC hw1),
        splitBy_word sepC cs!"measure" _ m1 m2 (by simp [startsSep, sepC_space]),
        splitBy_sep sepC _ sepC_space, hq.2.2 _ (by simp [startsSep, sepC_space]),
        splitBy_sep sepC _ sepC_space,
        splitBy_word sepC cs!"->" _ a1 a2 (by simp [startsSep, sepC_space]),
        splitBy_sep sepC _ sepC_space, hc.2.2 _ (startsSep_ws w2 hw2),
        splitBy_allSep sepC w2 (allWs_sepC hw2)]
      simp [qopToks]

theorem gop_shape (g : GOp) (h : gopOk' g = true) : OpShape (gopBody g) (gopToks g) := by
  cases g with
  | U a b c q =>
    simp only [gopOk', Bool.and_eq_true] at h
    have := callShape cs!"U" [(a.render, argToken a), (b.render, argToken b), (c.render, argToken c)]
      [(q, [q], q)] isWord_U (Or.inr (by decide))
      (by
        intro it hit
        simp only [List.mem_cons, List.not_mem_nil, or_false] at hit
        rcases hit with rfl | rfl | rfl
        · exact exprItem h.1.1.1
        · exact exprItem h.1.1.2
        · exact exprItem h.1.2)
      (by
        intro it hit
        simp only [List.mem_cons, List.not_mem_nil, or_false] at hit
        subst hit; exact wordItem h.2)
    simpa [gopBody, gopToks] using this
  | CX a b =>
    simp only [gopOk', Bool.and_eq_true] at h
    have := plainShape cs!"CX" isWord_CX [(a, [a], a), (b, [b], b)]
      (by
        intro it hit
        simp only [List.mem_cons, List.not_mem_nil, or_false] at hit
        rcases hit with rfl | rfl
        · exact wordItem h.1
        · exact wordItem h.2)
    simpa [gopBody, gopToks] using this
  | call n ps qs =>
    simp only [gopOk', callOk, Bool.and_eq_true, Bool.or_eq_true, bne_iff_ne, ne_eq] at h
    have := callShape n (ps.map fun e => (e.render, argToken e))
      (qs.map fun q => (q, [q], q)) h.1.1.1
      (by
        rcases h.1.2 with h' | h'
        · left; simpa using h'
        · exact Or.inr h')
      (exprItems ps h.1.1.2) (wordItems qs h.2)
    simpa [gopBody, gopToks, List.map_map, Function.comp_def, List.flatMap_map] using this
  | barrier qs =>
    have := plainShape cs!"barrier" isWord_barrier (qs.map fun q => (q, [q], q)) (wordItems qs h)
    simpa [gopBody, gopToks, List.map_map, Function.comp_def, List.flatMap_map] using this

end QipVerif.Qasm.Tok
