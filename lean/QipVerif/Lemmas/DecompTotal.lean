import QipVerif.Lemmas.DecompNames
/-!
# C03 — when does `resolve_gates` raise?  (regenerated tables)

`lenOK g`: the gate has the number of controls and targets of its name (what the gate classes
build).  On such gates no rule can address a missing qubit (`ruleLenOK`, a decidable fact about the
regenerated tables), so the only error `resolve` can return after the basis validation is
`cannotResolve`, and it returns it exactly when some gate is not `expressible`: not in the
two-qubit basis, no rule (or a rule that raises), and not named in the basis.
-/
namespace QipVerif.Decomp
open QipVerif QipVerif.Gen

/-- (number of controls, number of targets) of a library gate -/
def shape : GName → Option (Nat × Nat)
  | .RX | .RY | .RZ | .PHASEGATE | .X | .Y | .Z | .S | .T | .SNOT | .SQRTNOT | .IDLE | .R | .QASMU => some (0, 1)
  | .CRX | .CRY | .CRZ | .CPHASE | .CNOT | .CSIGN | .CZ | .CY | .CS | .CT => some (1, 1)
  | .SWAP | .ISWAP | .SQRTSWAP | .SQRTISWAP | .BERKELEY | .SWAPalpha | .MS | .RZX => some (0, 2)
  | .FREDKIN => some (1, 2)
  | .TOFFOLI => some (2, 1)
  | .GLOBALPHASE => some (0, 0)
  | .other _ => none

/-- the gate has the shape of its name; a gate the library does not know (a user's gate) has any shape -/
def lenOK (g : Gate) : Bool :=
  match shape g.name with
  | some s => s == (g.controls.length, g.targets.length)
  | none => true

def selIn (nc nt : Nat) : Sel → Bool
  | .t i => i < nt
  | .c i => i < nc

/-- a template gate addresses qubits the rewritten gate has, and has the shape of its own name -/
def tgLenOK (nc nt : Nat) (t : TGate) : Bool :=
  t.targets.all (selIn nc nt) && t.controls.all (selIn nc nt) &&
    shape t.name == some (t.controls.length, t.targets.length)

def ruleLenOK (n : GName) (body : List TGate) : Bool :=
  match shape n with
  | some (nc, nt) => body.all (tgLenOK nc nt)
  | none => false

theorem gateRule_lenOK (n : GName) (body : List TGate) (h : gateRule n = .templ body) :
    ruleLenOK n body = true := by
  cases n <;> simp only [gateRule, reduceCtorEq] at h <;> (cases h; decide)

theorem basisRule_lenOK (y n : GName) (body : List TGate) (h : basisRule y n = some body) :
    ruleLenOK n body = true := by
  cases y <;> cases n <;> simp only [basisRule, reduceCtorEq] at h <;> (cases h; decide)

/-! ## instantiation never fails on a gate of the right shape -/

theorem mapM_total {α β : Type} (f : α → Option β) (l : List α) (h : ∀ a ∈ l, (f a).isSome = true) :
    ∃ bs, l.mapM f = some bs ∧ bs.length = l.length := by
  induction l with
  | nil => exact ⟨[], rfl, rfl⟩
  | cons a as ih =>
    obtain ⟨bs, hbs, hl⟩ := ih (fun x hx => h x (List.mem_cons_of_mem _ hx))
    have ha := h a List.mem_cons_self
    cases hfa : f a with
    | none => rw [hfa] at ha; cases ha
    | some b => exact ⟨b :: bs, by simp [List.mapM_cons, hfa, hbs], by simp [hl]⟩

theorem sel_get_isSome (g : Gate) (s : Sel) (h : selIn g.controls.length g.targets.length s = true) :
    (Sel.get g s).isSome = true := by
  cases s with
  | t i => simp only [selIn, decide_eq_true_eq] at h; simp [Sel.get, h]
  | c i => simp only [selIn, decide_eq_true_eq] at h; simp [Sel.get, h]

theorem inst_total (g : Gate) (t : TGate) (h : tgLenOK g.controls.length g.targets.length t = true) :
    ∃ g', t.inst g = some g' ∧ lenOK g' = true := by
  simp only [tgLenOK, Bool.and_eq_true, List.all_eq_true, beq_iff_eq] at h
  obtain ⟨⟨ht, hc⟩, hs⟩ := h
  obtain ⟨ts, hts, hlt⟩ := mapM_total (Sel.get g) t.targets (fun s hs' => sel_get_isSome g s (ht s hs'))
  obtain ⟨cs, hcs, hlc⟩ := mapM_total (Sel.get g) t.controls (fun s hs' => sel_get_isSome g s (hc s hs'))
  refine ⟨⟨t.name, ts, cs, t.arg.inst g.arg⟩, by simp only [TGate.inst, hts, hcs], ?_⟩
  simp only [lenOK, hs, hlt, hlc, beq_self_eq_true]

theorem instBody_total (g : Gate) (body : List TGate)
    (h : body.all (tgLenOK g.controls.length g.targets.length) = true) :
    ∃ out, instBody g body = some out ∧ ∀ x ∈ out, lenOK x = true := by
  unfold instBody
  induction body with
  | nil => exact ⟨[], rfl, by simp⟩
  | cons t ts ih =>
    simp only [List.all_cons, Bool.and_eq_true] at h
    obtain ⟨g', hg', hl⟩ := inst_total g t h.1
    obtain ⟨out, ho, hall⟩ := ih h.2
    refine ⟨g' :: out, by simp [List.mapM_cons, hg', ho], ?_⟩
    intro x hx
    rcases List.mem_cons.mp hx with rfl | hx'
    · exact hl
    · exact hall x hx'

theorem rule_inst_total (g : Gate) (body : List TGate) (hg : lenOK g = true) (hr : ruleLenOK g.name body = true) :
    ∃ out, instBody g body = some out ∧ ∀ x ∈ out, lenOK x = true := by
  unfold ruleLenOK at hr
  unfold lenOK at hg
  cases hs : shape g.name with
  | none => rw [hs] at hr; cases hr
  | some s =>
    obtain ⟨nc, nt⟩ := s
    rw [hs] at hr hg
    simp only [beq_iff_eq, Prod.mk.injEq] at hg
    rw [hg.1, hg.2] at hr
    exact instBody_total g body hr

/-! ## the dispatch -/

/-- the gate name after the Pauli substitution at the top of the loop -/
def afterPauli (n : GName) : GName :=
  if n = .X then .RX else if n = .Y then .RY else if n = .Z then .RZ else n

/-- `_resolve_to_universal` + the KeyError handler have a way to handle this name -/
def handles (b2 : List GName) (inB : GName → Bool) (n : GName) : Bool :=
  b2.contains n || (n == .SWAP && b2.contains .ISWAP) ||
    match gateRule n with
    | .ignored => true
    | .notImplemented => false
    | .missing => inB n
    | .templ _ => true

/-- a gate of this name can be expressed: after the Pauli substitution the dispatch handles it -/
def expressible (b2 : List GName) (inB : GName → Bool) (n : GName) : Bool := handles b2 inB (afterPauli n)

theorem pauliSub_afterPauli (g : Gate) : (pauliSub g).2.name = afterPauli g.name := by
  unfold pauliSub afterPauli
  split
  · rfl
  · split
    · rfl
    · split <;> rfl

theorem pauliSub_lenOK (g : Gate) (h : lenOK g = true) : lenOK (pauliSub g).2 = true := by
  unfold pauliSub
  split
  · rename_i hn
    simp only [lenOK, hn, shape, beq_iff_eq, Prod.mk.injEq] at h
    simp only [lenOK, shape, List.length_nil, ← h.2, beq_self_eq_true]
  · split
    · rename_i hn
      simp only [lenOK, hn, shape, beq_iff_eq, Prod.mk.injEq] at h
      simp only [lenOK, shape, List.length_nil, ← h.2, beq_self_eq_true]
    · split
      · rename_i hn
        simp only [lenOK, hn, shape, beq_iff_eq, Prod.mk.injEq] at h
        simp only [lenOK, shape, List.length_nil, ← h.2, beq_self_eq_true]
      · exact h

/-- on a gate of the right shape the dispatch either succeeds (with gates of the right shape) or
raises `cannotResolve`, and it raises exactly when `handles` is false -/
theorem dispatch_cases (b2 : List GName) (inB : GName → Bool) (g : Gate) (hg : lenOK g = true) :
    (handles b2 inB g.name = true ∧ ∃ out, dispatch tables b2 inB g = .ok out ∧ ∀ x ∈ out, lenOK x = true) ∨
    (handles b2 inB g.name = false ∧ dispatch tables b2 inB g = .error .cannotResolve) := by
  have self : ∀ x ∈ [g], lenOK x = true := by intro x hx; simp at hx; rw [hx]; exact hg
  unfold dispatch handles
  by_cases h1 : b2.contains g.name = true
  · left; simp only [h1, Bool.true_or, if_true, true_and]; exact ⟨_, rfl, self⟩
  · by_cases h2 : g.name = .SWAP ∧ b2.contains .ISWAP = true
    · left
      refine ⟨?_, [g], ?_, self⟩
      · have hi : GName.ISWAP ∈ b2 := by simpa using h2.2
        simp [h2.1, hi]
      · rw [if_neg h1, if_pos h2]
    · have h1' : b2.contains g.name = false := by simpa using h1
      have h2' : (g.name == .SWAP && b2.contains .ISWAP) = false := by
        cases hs : (g.name == GName.SWAP) <;> cases hi : b2.contains GName.ISWAP <;> simp_all
      rw [if_neg h1, if_neg h2]
      simp only [h1', h2', Bool.false_or]
      have ht : tables.gateRule g.name = gateRule g.name := rfl
      rw [ht]
      cases hr : gateRule g.name with
      | ignored => left; exact ⟨rfl, _, rfl, self⟩
      | notImplemented => right; exact ⟨rfl, rfl⟩
      | missing =>
        simp only
        cases hi : inB g.name with
        | true => left; exact ⟨rfl, _, by simp, self⟩
        | false => right; exact ⟨rfl, by simp⟩
      | templ body =>
        left
        obtain ⟨out, ho, hall⟩ := rule_inst_total g body hg (gateRule_lenOK g.name body hr)
        exact ⟨rfl, out, by simp only [ho], hall⟩

theorem marker_lenOK (g0 : Gate) : ∀ x ∈ (pauliSub g0).1, lenOK x = true := by
  unfold pauliSub
  split
  · intro x hx; simp at hx; subst hx; rfl
  · split
    · intro x hx; simp at hx; subst hx; rfl
    · split
      · intro x hx; simp at hx; subst hx; rfl
      · intro x hx; simp at hx

theorem resolveOne_cases (b2 : List GName) (inB : GName → Bool) (g : Gate) (hg : lenOK g = true) :
    (expressible b2 inB g.name = true ∧ ∃ p r, resolveOne tables b2 inB g = .ok (p, r) ∧
        (∀ x ∈ p, lenOK x = true) ∧ ∀ x ∈ r, lenOK x = true) ∨
    (expressible b2 inB g.name = false ∧ resolveOne tables b2 inB g = .error .cannotResolve) := by
  unfold expressible resolveOne
  rw [← pauliSub_afterPauli]
  rcases dispatch_cases b2 inB (pauliSub g).2 (pauliSub_lenOK g hg) with ⟨h1, out, ho, hall⟩ | ⟨h1, he⟩
  · left; exact ⟨h1, _, out, by simp only [ho], marker_lenOK g, hall⟩
  · right; exact ⟨h1, by simp only [he]⟩

theorem resolveAll_cases (b2 : List GName) (inB : GName → Bool) (gs : List Gate)
    (hg : ∀ g ∈ gs, lenOK g = true) :
    ((∀ g ∈ gs, expressible b2 inB g.name = true) ∧ ∃ p r, resolveAll tables b2 inB gs = .ok (p, r) ∧
        (∀ x ∈ p, lenOK x = true) ∧ ∀ x ∈ r, lenOK x = true) ∨
    ((∃ g ∈ gs, expressible b2 inB g.name = false) ∧ resolveAll tables b2 inB gs = .error .cannotResolve) := by
  induction gs with
  | nil => left; exact ⟨by simp, [], [], rfl, by simp, by simp⟩
  | cons g gs ih =>
    have hg0 := hg g List.mem_cons_self
    have hgs := fun x hx => hg x (List.mem_cons_of_mem _ hx)
    unfold resolveAll
    rcases resolveOne_cases b2 inB g hg0 with ⟨he, p, r, h1, hp, hr⟩ | ⟨he, h1⟩
    · rcases ih hgs with ⟨hall, ps, rs, h2, hps, hrs⟩ | ⟨⟨x, hx, hxe⟩, h2⟩
      · left
        refine ⟨?_, p ++ ps, r ++ rs, by simp only [h1, h2], ?_, ?_⟩
        · intro x hx
          rcases List.mem_cons.mp hx with rfl | hx'
          · exact he
          · exact hall x hx'
        · intro x hx
          rcases List.mem_append.mp hx with h | h
          · exact hp x h
          · exact hps x h
        · intro x hx
          rcases List.mem_append.mp hx with h | h
          · exact hr x h
          · exact hrs x h
      · right
        exact ⟨⟨x, List.mem_cons_of_mem _ hx, hxe⟩, by simp only [h1, h2]⟩
    · right
      exact ⟨⟨g, List.mem_cons_self, he⟩, by simp only [h1]⟩

theorem basisPass_noIndex (y : GName) (gs : List Gate) (hg : ∀ g ∈ gs, lenOK g = true) :
    ∃ out, basisPass tables y gs = .ok out := by
  induction gs with
  | nil => exact ⟨[], rfl⟩
  | cons g gs ih =>
    obtain ⟨rest, hrest⟩ := ih (fun x hx => hg x (List.mem_cons_of_mem _ hx))
    have ht : tables.basisRule y g.name = basisRule y g.name := rfl
    cases hb : basisRule y g.name with
    | none => exact ⟨g :: rest, by simp only [basisPass, hrest, ht, hb]⟩
    | some body =>
      obtain ⟨out, ho, _⟩ := rule_inst_total g body (hg g List.mem_cons_self) (basisRule_lenOK y g.name body hb)
      exact ⟨out ++ rest, by simp only [basisPass, hrest, ht, hb, ho]⟩

/-- after a successful basis validation, on gates of the right shape: `resolve` returns a circuit iff
every gate is expressible, and otherwise it raises `cannotResolve` -/
theorem resolve_cases (keep : Bool) (b : BasisSpec) (gs : List Gate) (b1 b2 : List GName) (inB : GName → Bool)
    (hs : splitBasis b = .ok (b1, b2, inB)) (hg : ∀ g ∈ gs, lenOK g = true) :
    ((∀ g ∈ gs, expressible b2 inB g.name = true) ∧ ∃ out, resolve tables keep b gs = .ok out) ∨
    ((∃ g ∈ gs, expressible b2 inB g.name = false) ∧ resolve tables keep b gs = .error .cannotResolve) := by
  unfold resolve
  rw [hs]
  simp only
  rcases resolveAll_cases b2 inB gs hg with ⟨hall, p, r, h1, _, hr⟩ | ⟨hex, h1⟩
  · left
    refine ⟨hall, ?_⟩
    rw [h1]
    simp only
    cases hf : [GName.CSIGN, .ISWAP, .SQRTSWAP, .SQRTISWAP].find? b2.contains with
    | none => exact ⟨_, rfl⟩
    | some y =>
      obtain ⟨o, ho⟩ := basisPass_noIndex y r hr
      simp only [ho]
      exact ⟨_, rfl⟩
  · right
    refine ⟨hex, ?_⟩
    rw [h1]

end QipVerif.Decomp
