import QipVerif.Lemmas.NoiseVal
import Mathlib.Data.Real.Basic
import Mathlib.Tactic.FieldSimp
import Mathlib.Tactic.Ring
import Mathlib.Tactic.Linarith
import Mathlib.Tactic.Positivity
/-! The model's exact fractions as real numbers (C15). -/
namespace QipVerif.Noise

noncomputable def Frac.toReal (a : Frac) : ℝ := (a.n : ℝ) / (a.d : ℝ)

/-- a positive time given as a fraction with positive numerator and denominator -/
def Frac.Pos (a : Frac) : Prop := 0 < a.n ∧ 0 < a.d

instance (a : Frac) : Decidable a.Pos := by unfold Frac.Pos; infer_instance

theorem Frac.Pos.toReal_pos {a : Frac} (h : a.Pos) : 0 < a.toReal := by
  have h1 : (0 : ℝ) < a.n := by exact_mod_cast h.1
  have h2 : (0 : ℝ) < a.d := by exact_mod_cast h.2
  exact div_pos h1 h2

theorem two_mul_sub (a b : Frac) (ha : a.Pos) (hb : b.Pos) :
    2 * a.toReal - b.toReal = (delta a b : ℝ) / ((a.d : ℝ) * (b.d : ℝ)) := by
  have h2 : (a.d : ℝ) ≠ 0 := by have := ha.2; exact_mod_cast (ne_of_gt this)
  have h3 : (b.d : ℝ) ≠ 0 := by have := hb.2; exact_mod_cast (ne_of_gt this)
  simp only [Frac.toReal, delta]
  push_cast
  field_simp

theorem delta_sign (a b : Frac) (ha : a.Pos) (hb : b.Pos) :
    (delta a b < 0 ↔ 2 * a.toReal < b.toReal) ∧ (delta a b = 0 ↔ b.toReal = 2 * a.toReal) ∧
    (0 < delta a b ↔ b.toReal < 2 * a.toReal) := by
  have hd : (0 : ℝ) < (a.d : ℝ) * (b.d : ℝ) := by
    have h1 : (0 : ℝ) < a.d := by exact_mod_cast ha.2
    have h2 : (0 : ℝ) < b.d := by exact_mod_cast hb.2
    positivity
  have key := two_mul_sub a b ha hb
  refine ⟨?_, ?_, ?_⟩
  · rw [← sub_neg (a := 2 * a.toReal), key, div_neg_iff]
    constructor
    · intro h; right; exact ⟨by exact_mod_cast h, hd⟩
    · rintro (⟨_, h⟩ | ⟨h, _⟩)
      · linarith
      · exact_mod_cast h
  · constructor
    · intro h
      have : 2 * a.toReal - b.toReal = 0 := by rw [key, h]; simp
      linarith
    · intro h
      have h0 : (delta a b : ℝ) / ((a.d : ℝ) * (b.d : ℝ)) = 0 := by rw [← key, h]; ring
      rcases div_eq_zero_iff.mp h0 with h1 | h1
      · exact_mod_cast h1
      · linarith
  · rw [← sub_pos (a := 2 * a.toReal), key, div_pos_iff]
    constructor
    · intro h; left; exact ⟨by exact_mod_cast h, hd⟩
    · rintro (⟨h, _⟩ | ⟨_, h⟩)
      · exact_mod_cast h
      · linarith

/-- rate of the relaxation operator: `1/t1` -/
theorem rate1_toReal (a : Frac) (ha : a.Pos) : (⟨a.d, a.n⟩ : Frac).toReal = 1 / a.toReal := by
  have h1 : (a.n : ℝ) ≠ 0 := by have := ha.1; exact_mod_cast (ne_of_gt this)
  have h2 : (a.d : ℝ) ≠ 0 := by have := ha.2; exact_mod_cast (ne_of_gt this)
  simp only [Frac.toReal]
  field_simp

/-- rate of the dephasing operator: `2 (1/t2 − 1/(2 t1))` -/
theorem ratePhi_toReal (a b : Frac) (ha : a.Pos) (hb : b.Pos) :
    (⟨2 * delta a b, b.n * (2 * a.n)⟩ : Frac).toReal = 2 * (1 / b.toReal - 1 / (2 * a.toReal)) := by
  have h1 : (a.n : ℝ) ≠ 0 := by have := ha.1; exact_mod_cast (ne_of_gt this)
  have h2 : (a.d : ℝ) ≠ 0 := by have := ha.2; exact_mod_cast (ne_of_gt this)
  have h3 : (b.n : ℝ) ≠ 0 := by have := hb.1; exact_mod_cast (ne_of_gt this)
  have h4 : (b.d : ℝ) ≠ 0 := by have := hb.2; exact_mod_cast (ne_of_gt this)
  simp only [Frac.toReal, delta]
  push_cast
  field_simp

/-- rate of the dephasing operator without t1: `2/t2` -/
theorem rateT2_toReal (b : Frac) (hb : b.Pos) : (⟨2 * b.d, b.n⟩ : Frac).toReal = 2 / b.toReal := by
  have h3 : (b.n : ℝ) ≠ 0 := by have := hb.1; exact_mod_cast (ne_of_gt this)
  have h4 : (b.d : ℝ) ≠ 0 := by have := hb.2; exact_mod_cast (ne_of_gt this)
  simp only [Frac.toReal]
  push_cast
  field_simp

end QipVerif.Noise
