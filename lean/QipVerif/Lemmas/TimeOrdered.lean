import QipVerif.Lemmas.MatExp
import Mathlib.Analysis.ODE.Gronwall

set_option linter.unusedSectionVars false
namespace QipVerif.TimeOrdered
open QipVerif.MatExp NormedSpace Matrix Filter Topology Set

variable {n : Type*} [Fintype n] [DecidableEq n]

/-- the piecewise-constant Hamiltonian: `Hs[k]` on `[T[k], T[k+1])`, `0` elsewhere -/
noncomputable def hamAt : List ℝ → List (Matrix n n ℂ) → ℝ → Matrix n n ℂ
  | a :: b :: T, H :: Hs, t => if a ≤ t ∧ t < b then H else hamAt (b :: T) Hs t
  | _, _, _ => 0

/-- `t` clamped to `[a, b]` -/
noncomputable def clamp (a b t : ℝ) : ℝ := max a (min t b)

/-- the ordered product of the slice exponentials up to time `t`:
`… · exp(−i (clamp t − T₁) H₁) · exp(−i (clamp t − T₀) H₀)` (later slices on the left) -/
noncomputable def prop : List ℝ → List (Matrix n n ℂ) → ℝ → Matrix n n ℂ
  | a :: b :: T, H :: Hs, t => prop (b :: T) Hs t * evolve H (clamp a b t - a)
  | _, _, _ => 1

/-- the product of all slice exponentials (what `run_analytically` multiplies up) -/
noncomputable def sliceProd : List ℝ → List (Matrix n n ℂ) → Matrix n n ℂ
  | a :: b :: T, H :: Hs => sliceProd (b :: T) Hs * evolve H (b - a)
  | _, _ => 1

theorem clamp_of_le {a b t : ℝ} (h : t ≤ a) : clamp a b t = a := by
  unfold clamp; exact max_eq_left ((min_le_left _ _).trans h)
theorem clamp_of_mem {a b t : ℝ} (h1 : a ≤ t) (h2 : t ≤ b) : clamp a b t = t := by
  unfold clamp; rw [min_eq_left h2, max_eq_right h1]
theorem clamp_of_ge {a b t : ℝ} (hab : a ≤ b) (h : b ≤ t) : clamp a b t = b := by
  unfold clamp; rw [min_eq_right h, max_eq_right hab]
theorem continuous_clamp (a b : ℝ) : Continuous (clamp a b) :=
  continuous_const.max (continuous_id.min continuous_const)

theorem prop_nil (Hs : List (Matrix n n ℂ)) (t : ℝ) : prop [] Hs t = 1 := by unfold prop; rfl
theorem prop_single (a : ℝ) (Hs : List (Matrix n n ℂ)) (t : ℝ) : prop [a] Hs t = 1 := by
  unfold prop; rfl
theorem prop_noH (L : List ℝ) (t : ℝ) : prop L ([] : List (Matrix n n ℂ)) t = 1 := by
  unfold prop; split <;> simp_all
theorem hamAt_nil (Hs : List (Matrix n n ℂ)) (t : ℝ) : hamAt [] Hs t = 0 := by unfold hamAt; rfl
theorem hamAt_single (a : ℝ) (Hs : List (Matrix n n ℂ)) (t : ℝ) : hamAt [a] Hs t = 0 := by
  unfold hamAt; rfl
theorem hamAt_noH (L : List ℝ) (t : ℝ) : hamAt L ([] : List (Matrix n n ℂ)) t = 0 := by
  unfold hamAt; split <;> simp_all

/-- before (and at) the first grid point nothing has happened -/
theorem prop_of_le_head : ∀ (L : List ℝ) (Hs : List (Matrix n n ℂ)) (a t : ℝ),
    (a :: L).Pairwise (· < ·) → t ≤ a → prop (a :: L) Hs t = 1
  | [], Hs, a, t, _, _ => prop_single a Hs t
  | b :: T, [], a, t, _, _ => prop_noH _ t
  | b :: T, H :: Hs, a, t, hs, ht => by
    have hab : a < b := (List.pairwise_cons.mp hs).1 b (by simp)
    have := prop_of_le_head T Hs b t (List.pairwise_cons.mp hs).2 (ht.trans hab.le)
    show prop (b :: T) Hs t * evolve H (clamp a b t - a) = 1
    rw [this, clamp_of_le ht, sub_self, evolve_zero, one_mul]

theorem hamAt_of_lt_head : ∀ (L : List ℝ) (Hs : List (Matrix n n ℂ)) (a t : ℝ),
    (a :: L).Pairwise (· < ·) → t < a → hamAt (a :: L) Hs t = 0
  | [], Hs, a, t, _, _ => hamAt_single a Hs t
  | b :: T, [], a, t, _, _ => hamAt_noH _ t
  | b :: T, H :: Hs, a, t, hs, ht => by
    have hab : a < b := (List.pairwise_cons.mp hs).1 b (by simp)
    show (if a ≤ t ∧ t < b then H else hamAt (b :: T) Hs t) = 0
    rw [if_neg (fun h => absurd h.1 (not_le.mpr ht))]
    exact hamAt_of_lt_head T Hs b t (List.pairwise_cons.mp hs).2 (ht.trans hab)

theorem prop_cons (a b : ℝ) (T : List ℝ) (H : Matrix n n ℂ) (Hs : List (Matrix n n ℂ)) (t : ℝ) :
    prop (a :: b :: T) (H :: Hs) t = prop (b :: T) Hs t * evolve H (clamp a b t - a) := rfl

theorem hamAt_cons (a b : ℝ) (T : List ℝ) (H : Matrix n n ℂ) (Hs : List (Matrix n n ℂ)) (t : ℝ) :
    hamAt (a :: b :: T) (H :: Hs) t = if a ≤ t ∧ t < b then H else hamAt (b :: T) Hs t := rfl

/-- inside the first slot -/
theorem prop_first_slot (a b : ℝ) (T : List ℝ) (H : Matrix n n ℂ) (Hs : List (Matrix n n ℂ)) (t : ℝ)
    (hs : (a :: b :: T).Pairwise (· < ·)) (h1 : a ≤ t) (h2 : t ≤ b) :
    prop (a :: b :: T) (H :: Hs) t = evolve H (t - a) := by
  rw [prop_cons, prop_of_le_head T Hs b t (List.pairwise_cons.mp hs).2 h2, clamp_of_mem h1 h2, one_mul]

/-- after the first slot -/
theorem prop_later (a b : ℝ) (T : List ℝ) (H : Matrix n n ℂ) (Hs : List (Matrix n n ℂ)) (t : ℝ)
    (hab : a ≤ b) (h : b ≤ t) :
    prop (a :: b :: T) (H :: Hs) t = prop (b :: T) Hs t * evolve H (b - a) := by
  rw [prop_cons, clamp_of_ge hab h]

/-- **the solution operator is continuous** -/
theorem continuous_prop : ∀ (L : List ℝ) (Hs : List (Matrix n n ℂ)), Continuous (prop L Hs)
  | [], Hs => by simp only [funext (prop_nil Hs)]; exact continuous_const
  | [a], Hs => by simp only [funext (prop_single a Hs)]; exact continuous_const
  | a :: b :: T, [] => by simp only [funext (prop_noH _)]; exact continuous_const
  | a :: b :: T, H :: Hs => by
    have h1 := continuous_prop (b :: T) Hs
    have h2 : Continuous fun t => evolve H (clamp a b t - a) :=
      (continuous_evolve H).comp ((continuous_clamp a b).sub continuous_const)
    exact h1.mul h2

/-- at and after the last grid point: the full product of the slice exponentials -/
theorem prop_of_ge_last : ∀ (L : List ℝ) (Hs : List (Matrix n n ℂ)) (t : ℝ),
    L.Pairwise (· < ·) → (∀ x ∈ L, x ≤ t) → prop L Hs t = sliceProd L Hs
  | [], Hs, t, _, _ => by rw [prop_nil]; rfl
  | [a], Hs, t, _, _ => by rw [prop_single]; rfl
  | a :: b :: T, [], t, _, _ => by rw [prop_noH]; rfl
  | a :: b :: T, H :: Hs, t, hs, ht => by
    have hab : a < b := (List.pairwise_cons.mp hs).1 b (by simp)
    rw [prop_later a b T H Hs t hab.le (ht b (by simp)),
      prop_of_ge_last (b :: T) Hs t (List.pairwise_cons.mp hs).2 (fun x hx => ht x (List.mem_cons_of_mem _ hx))]
    rfl

open scoped Matrix.Norms.Operator

/-- **the ODE, right derivative at every time, two-sided derivative off the grid** -/
theorem hasDeriv_prop : ∀ (L : List ℝ) (Hs : List (Matrix n n ℂ)), L.Pairwise (· < ·) → ∀ t : ℝ,
    HasDerivWithinAt (prop L Hs) ((-Complex.I) • (hamAt L Hs t * prop L Hs t)) (Ici t) t ∧
    (t ∉ L → HasDerivAt (prop L Hs) ((-Complex.I) • (hamAt L Hs t * prop L Hs t)) t)
  | [], Hs, _, t => by
    simp only [funext (prop_nil Hs), hamAt_nil, zero_mul, smul_zero]
    exact ⟨hasDerivWithinAt_const _ _ _, fun _ => hasDerivAt_const _ _⟩
  | [a], Hs, _, t => by
    simp only [funext (prop_single a Hs), hamAt_single, zero_mul, smul_zero]
    exact ⟨hasDerivWithinAt_const _ _ _, fun _ => hasDerivAt_const _ _⟩
  | a :: b :: T, [], _, t => by
    simp only [funext (prop_noH _), hamAt_noH, zero_mul, smul_zero]
    exact ⟨hasDerivWithinAt_const _ _ _, fun _ => hasDerivAt_const _ _⟩
  | a :: b :: T, H :: Hs, hs, t => by
    have hab : a < b := (List.pairwise_cons.mp hs).1 b (by simp)
    have hs' : (b :: T).Pairwise (· < ·) := (List.pairwise_cons.mp hs).2
    rcases lt_or_ge t a with hta | hat
    · -- before the grid: constant 1
      have hev : prop (a :: b :: T) (H :: Hs) =ᶠ[𝓝 t] fun _ => (1 : Matrix n n ℂ) := by
        filter_upwards [Iio_mem_nhds hta] with s hs1
        exact prop_of_le_head _ _ a s hs (le_of_lt hs1)
      have hd : HasDerivAt (prop (a :: b :: T) (H :: Hs))
          ((-Complex.I) • (hamAt (a :: b :: T) (H :: Hs) t * prop (a :: b :: T) (H :: Hs) t)) t := by
        rw [hamAt_of_lt_head _ _ a t hs hta, zero_mul, smul_zero]
        exact (hasDerivAt_const t (1 : Matrix n n ℂ)).congr_of_eventuallyEq hev
      exact ⟨hd.hasDerivWithinAt, fun _ => hd⟩
    rcases lt_or_ge t b with htb | hbt
    · -- first slot
      have hval : (-Complex.I) • (hamAt (a :: b :: T) (H :: Hs) t * prop (a :: b :: T) (H :: Hs) t)
          = (-Complex.I) • (H * evolve H (t - a)) := by
        rw [hamAt_cons, if_pos ⟨hat, htb⟩, prop_first_slot a b T H Hs t hs hat htb.le]
      have hd0 : HasDerivAt (fun s => evolve H (s - a)) ((-Complex.I) • (H * evolve H (t - a))) t :=
        (hasDerivAt_evolve H (t - a)).comp_sub_const t a
      rw [hval]
      constructor
      · refine hd0.hasDerivWithinAt.congr_of_eventuallyEq ?_ (prop_first_slot a b T H Hs t hs hat htb.le)
        filter_upwards [inter_mem_nhdsWithin (Ici t) (Iio_mem_nhds htb)] with s hs1
        exact prop_first_slot a b T H Hs s hs (hat.trans hs1.1) (le_of_lt hs1.2)
      · intro hnot
        have hat' : a < t := lt_of_le_of_ne hat (fun h => hnot (by simp [h]))
        refine hd0.congr_of_eventuallyEq ?_
        filter_upwards [Ioo_mem_nhds hat' htb] with s hs1
        exact prop_first_slot a b T H Hs s hs (le_of_lt hs1.1) (le_of_lt hs1.2)
    · -- later slots
      obtain ⟨ih1, ih2⟩ := hasDeriv_prop (b :: T) Hs hs' t
      have hval : (-Complex.I) • (hamAt (a :: b :: T) (H :: Hs) t * prop (a :: b :: T) (H :: Hs) t)
          = ((-Complex.I) • (hamAt (b :: T) Hs t * prop (b :: T) Hs t)) * evolve H (b - a) := by
        rw [hamAt_cons, if_neg (fun h => absurd h.2 (not_lt.mpr hbt)), prop_later a b T H Hs t hab.le hbt,
          Matrix.smul_mul, mul_assoc]
      rw [hval]
      constructor
      · refine (ih1.mul_const (evolve H (b - a))).congr (fun s hs1 => ?_) ?_
        · exact prop_later a b T H Hs s hab.le (hbt.trans hs1)
        · exact prop_later a b T H Hs t hab.le hbt
      · intro hnot
        have hbt' : b < t := lt_of_le_of_ne hbt (fun h => hnot (by simp [h]))
        have hnot' : t ∉ b :: T := fun h => hnot (List.mem_cons_of_mem _ h)
        refine ((ih2 hnot').mul_const (evolve H (b - a))).congr_of_eventuallyEq ?_
        filter_upwards [Ioi_mem_nhds hbt'] with s hs1
        exact prop_later a b T H Hs s hab.le (le_of_lt hs1)


/-- a bound for the norm of the piecewise-constant Hamiltonian -/
theorem norm_hamAt_le : ∀ (L : List ℝ) (Hs : List (Matrix n n ℂ)) (t : ℝ),
    ‖hamAt L Hs t‖ ≤ (Hs.map fun H => ‖H‖).sum
  | [], Hs, t => by
    rw [hamAt_nil, norm_zero]; exact List.sum_nonneg (by simp)
  | [a], Hs, t => by
    rw [hamAt_single, norm_zero]; exact List.sum_nonneg (by simp)
  | a :: b :: T, [], t => by rw [hamAt_noH, norm_zero]; simp
  | a :: b :: T, H :: Hs, t => by
    rw [hamAt_cons, List.map_cons, List.sum_cons]
    have h0 : 0 ≤ (Hs.map fun H => ‖H‖).sum := List.sum_nonneg (by simp)
    split
    · linarith [norm_nonneg H]
    · linarith [norm_hamAt_le (b :: T) Hs t, norm_nonneg H]

/-- **uniqueness**: a continuous function on `[a, b]` that has the right derivative `−i H(t) V(t)` at every
`t ∈ [a, b)` and starts at the value of the ordered product is the ordered product (Grönwall) -/
theorem prop_unique (L : List ℝ) (Hs : List (Matrix n n ℂ)) (hs : L.Pairwise (· < ·)) (a b : ℝ)
    (V : ℝ → Matrix n n ℂ) (hc : ContinuousOn V (Icc a b))
    (hV : ∀ t ∈ Ico a b, HasDerivWithinAt V ((-Complex.I) • (hamAt L Hs t * V t)) (Ici t) t)
    (h0 : V a = prop L Hs a) : EqOn V (prop L Hs) (Icc a b) := by
  intro x hx
  have hsub : ∀ t ∈ Ico a b, HasDerivWithinAt (fun s => V s - prop L Hs s)
      ((-Complex.I) • (hamAt L Hs t * (V t - prop L Hs t))) (Ici t) t := by
    intro t ht
    have := (hV t ht).sub (hasDeriv_prop L Hs hs t).1
    rwa [← smul_sub, ← mul_sub] at this
  have := eq_zero_of_abs_deriv_le_mul_abs_self_of_eq_zero_right
    (f := fun s => V s - prop L Hs s) (K := (Hs.map fun H => ‖H‖).sum)
    (hc.sub (continuous_prop L Hs).continuousOn) hsub (by simp [h0]) (by
      intro t _
      rw [norm_smul, norm_neg, Complex.norm_I, one_mul]
      exact (norm_mul_le _ _).trans (mul_le_mul_of_nonneg_right (norm_hamAt_le L Hs t) (norm_nonneg _))) x hx
  exact sub_eq_zero.mp this

section
variable {E : Type*} [NormedAddCommGroup E] [NormedSpace ℝ E]

/-- Grönwall on an interval with the derivative only in the OPEN interval: `D` continuous on `[p, q]`, `D p = 0`,
`‖D'‖ ≤ K‖D‖` on `(p, q)` ⇒ `D = 0` on `[p, q]` -/
theorem eq_zero_of_deriv_le_open {D D' : ℝ → E} {K p q : ℝ} (hK : 0 ≤ K)
    (hc : ContinuousOn D (Icc p q)) (h0 : D p = 0)
    (hd : ∀ t ∈ Ioo p q, HasDerivAt D (D' t) t) (hb : ∀ t ∈ Ioo p q, ‖D' t‖ ≤ K * ‖D t‖) :
    ∀ t ∈ Icc p q, D t = 0 := by
  rcases le_or_gt q p with hqp | hpq
  · intro t ht
    have : t = p := le_antisymm (ht.2.trans hqp) ht.1
    rw [this, h0]
  have hopen : EqOn D (fun _ => (0 : E)) (Ioo p q) := by
    intro t ht
    have hC : 0 ≤ Real.exp (K * (t - p)) := (Real.exp_pos _).le
    have hev : ∀ᶠ s in 𝓝[Ioo p t] p, ‖D t‖ ≤ ‖D s‖ * Real.exp (K * (t - p)) := by
      filter_upwards [self_mem_nhdsWithin] with s hs
      have hsub : Icc s t ⊆ Icc p q := Icc_subset_Icc hs.1.le ht.2.le
      have := norm_le_gronwallBound_of_norm_deriv_right_le (f := D) (f' := D') (δ := ‖D s‖) (K := K) (ε := 0)
        (a := s) (b := t) (hc.mono hsub)
        (fun x hx => (hd x ⟨lt_of_lt_of_le hs.1 hx.1, lt_trans hx.2 ht.2⟩).hasDerivWithinAt) le_rfl
        (fun x hx => by simpa using hb x ⟨lt_of_lt_of_le hs.1 hx.1, lt_trans hx.2 ht.2⟩) t ⟨hs.2.le, le_rfl⟩
      rw [gronwallBound_ε0] at this
      refine this.trans (mul_le_mul_of_nonneg_left ?_ (norm_nonneg _))
      exact Real.exp_le_exp.mpr (mul_le_mul_of_nonneg_left (by linarith [hs.1]) hK)
    have hcp : ContinuousWithinAt D (Ioo p t) p :=
      (hc p ⟨le_rfl, hpq.le⟩).mono (fun x hx => ⟨hx.1.le, (hx.2.trans ht.2).le⟩)
    have hlim : Tendsto (fun s => ‖D s‖ * Real.exp (K * (t - p))) (𝓝[Ioo p t] p) (𝓝 (‖D p‖ * Real.exp (K * (t - p)))) :=
      (hcp.norm.tendsto).mul_const _
    have := left_nhdsWithin_Ioo_neBot ht.1
    have := ge_of_tendsto hlim hev
    rw [h0, norm_zero, zero_mul] at this
    exact norm_le_zero_iff.mp this
  have := hopen.of_subset_closure hc continuousOn_const Ioo_subset_Icc_self (by rw [closure_Ioo hpq.ne])
  intro t ht
  exact this ht

/-- the same with finitely many exceptional points inside the interval -/
theorem eq_zero_of_deriv_le_off_finite {D D' : ℝ → E} {K : ℝ} (hK : 0 ≤ K) (F : Finset ℝ) :
    ∀ p q : ℝ, ContinuousOn D (Icc p q) → D p = 0 →
      (∀ t ∈ Ioo p q, t ∉ F → HasDerivAt D (D' t) t) → (∀ t ∈ Ioo p q, t ∉ F → ‖D' t‖ ≤ K * ‖D t‖) →
      ∀ t ∈ Icc p q, D t = 0 := by
  induction F using Finset.induction_on with
  | empty =>
    intro p q hc h0 hd hb
    exact eq_zero_of_deriv_le_open hK hc h0 (fun t ht => hd t ht (by simp)) (fun t ht => hb t ht (by simp))
  | insert x F hx ih =>
    intro p q hc h0 hd hb
    by_cases hxin : x ∈ Ioo p q
    · have h1 := ih p x (hc.mono (Icc_subset_Icc_right hxin.2.le)) h0
        (fun t ht hF => hd t ⟨ht.1, ht.2.trans hxin.2⟩ (by
          rw [Finset.mem_insert, not_or]; exact ⟨ne_of_lt ht.2, hF⟩))
        (fun t ht hF => hb t ⟨ht.1, ht.2.trans hxin.2⟩ (by
          rw [Finset.mem_insert, not_or]; exact ⟨ne_of_lt ht.2, hF⟩))
      have hx0 : D x = 0 := h1 x ⟨hxin.1.le, le_rfl⟩
      have h2 := ih x q (hc.mono (Icc_subset_Icc_left hxin.1.le)) hx0
        (fun t ht hF => hd t ⟨hxin.1.trans ht.1, ht.2⟩ (by
          rw [Finset.mem_insert, not_or]; exact ⟨ne_of_gt ht.1, hF⟩))
        (fun t ht hF => hb t ⟨hxin.1.trans ht.1, ht.2⟩ (by
          rw [Finset.mem_insert, not_or]; exact ⟨ne_of_gt ht.1, hF⟩))
      intro t ht
      rcases le_total t x with h | h
      · exact h1 t ⟨ht.1, h⟩
      · exact h2 t ⟨h, ht.2⟩
    · exact ih p q hc h0
        (fun t ht hF => hd t ht (by
          rw [Finset.mem_insert, not_or]; exact ⟨fun e => hxin (e ▸ ht), hF⟩))
        (fun t ht hF => hb t ht (by
          rw [Finset.mem_insert, not_or]; exact ⟨fun e => hxin (e ▸ ht), hF⟩))
end


/-- **uniqueness in the larger class**: a function continuous on `[a, b]` that has the (two-sided) derivative
`−i H(t) V(t)` at every `t ∈ (a, b)` that is NOT a grid point, and starts at the value of the ordered product, is the
ordered product on `[a, b]` — nothing is assumed at the grid points except continuity -/
theorem prop_unique_off_grid (L : List ℝ) (Hs : List (Matrix n n ℂ)) (hs : L.Pairwise (· < ·)) (a b : ℝ)
    (V : ℝ → Matrix n n ℂ) (hc : ContinuousOn V (Icc a b))
    (hV : ∀ t ∈ Ioo a b, t ∉ L → HasDerivAt V ((-Complex.I) • (hamAt L Hs t * V t)) t)
    (h0 : V a = prop L Hs a) : EqOn V (prop L Hs) (Icc a b) := by
  intro x hx
  have key := eq_zero_of_deriv_le_off_finite (D := fun s => V s - prop L Hs s)
    (D' := fun t => (-Complex.I) • (hamAt L Hs t * (V t - prop L Hs t)))
    (K := (Hs.map fun H => ‖H‖).sum) (List.sum_nonneg (by simp)) L.toFinset a b
    (hc.sub (continuous_prop L Hs).continuousOn) (by simp [h0])
    (fun t ht hF => by
      have hF' : t ∉ L := fun h => hF (List.mem_toFinset.mpr h)
      have := (hV t ht hF').sub ((hasDeriv_prop L Hs hs t).2 hF')
      rwa [← smul_sub, ← mul_sub] at this)
    (fun t _ _ => by
      rw [norm_smul, norm_neg, Complex.norm_I, one_mul]
      exact (norm_mul_le _ _).trans (mul_le_mul_of_nonneg_right (norm_hamAt_le L Hs t) (norm_nonneg _))) x hx
  exact sub_eq_zero.mp key

end QipVerif.TimeOrdered
