import QipVerif.Lemmas.NoiseKraus
import Mathlib.Analysis.Matrix.PosDef
import Mathlib.Analysis.SpecialFunctions.Exp
/-! Validity (Hermitian, unit trace, positive semidefinite) of the explicit qubit solution, the exact
boundary `γ ≤ 2Γ` (`t2 ≤ 2·t1`), and the rates of every accepted `(t1, t2)` configuration (C15). -/
namespace QipVerif.Noise
open Matrix ComplexOrder

/-- density matrix: positive semidefinite (which includes Hermitian, Mathlib's `Matrix.PosSemidef`)
with unit trace -/
def IsDensity {n : Type} [Fintype n] (ρ : Matrix n n ℂ) : Prop := ρ.PosSemidef ∧ ρ.trace = 1

theorem IsDensity.hermitian {n : Type} [Fintype n] {ρ : Matrix n n ℂ} (h : IsDensity ρ) : ρᴴ = ρ :=
  h.1.isHermitian

/-- the trace is constant along the explicit solution (all parameters, all `t`) -/
theorem relaxSol2_trace (γ Γ : ℝ) (ρ0 : Matrix (Fin 2) (Fin 2) ℂ) (t : ℝ) :
    (relaxSol2 γ Γ ρ0 t).trace = ρ0.trace := by
  simp only [Matrix.trace, Fin.sum_univ_two, Matrix.diag_apply]
  rw [(relaxSol2_apply γ Γ ρ0 t).1, (relaxSol2_apply γ Γ ρ0 t).2.1]; ring

/-- Hermiticity is preserved along the explicit solution (all parameters, all `t`) -/
theorem relaxSol2_hermitian (γ Γ : ℝ) (ρ0 : Matrix (Fin 2) (Fin 2) ℂ) (t : ℝ) (h : ρ0ᴴ = ρ0) :
    (relaxSol2 γ Γ ρ0 t)ᴴ = relaxSol2 γ Γ ρ0 t := by
  have e : ∀ i j, (starRingEnd ℂ) (ρ0 j i) = ρ0 i j := fun i j => congrFun (congrFun h i) j
  have c : ∀ k, (starRingEnd ℂ) (dec k t) = dec k t := fun k => Complex.conj_ofReal _
  ext i j
  fin_cases i <;> fin_cases j <;>
    simp [relaxSol2, conjTranspose_apply, c, e]

/-- **Validity.** For `γ ≥ 0`, `γ ≤ 2Γ` and `t ≥ 0` the explicit solution maps density matrices to
density matrices. -/
theorem relaxSol2_density (γ Γ t : ℝ) (hγ : 0 ≤ γ) (hΓ : γ ≤ 2 * Γ) (ht : 0 ≤ t)
    {ρ0 : Matrix (Fin 2) (Fin 2) ℂ} (h : IsDensity ρ0) : IsDensity (relaxSol2 γ Γ ρ0 t) := by
  refine ⟨?_, by rw [relaxSol2_trace]; exact h.2⟩
  rw [relaxSol2_kraus]
  exact krausMap_posSemidef _ _
    (kr2c_nonneg γ Γ t (mul_nonneg hγ ht) (mul_nonneg (by linarith) ht)) h.1

/-- the state `|+⟩⟨+|` -/
noncomputable def plusState : Matrix (Fin 2) (Fin 2) ℂ := !![1 / 2, 1 / 2; 1 / 2, 1 / 2]

theorem plusState_density : IsDensity plusState := by
  constructor
  · have h := posSemidef_conjTranspose_mul_self (!![1, 1; 0, 0] : Matrix (Fin 2) (Fin 2) ℂ)
    have h2 := h.smul (show (0 : ℝ) ≤ 1 / 2 by norm_num)
    convert h2 using 1
    ext i j
    fin_cases i <;> fin_cases j <;>
      simp [plusState, Matrix.mul_apply, Fin.sum_univ_two, conjTranspose_apply]
  · simp [plusState, Matrix.trace, Fin.sum_univ_two]; norm_num

/-- **The boundary is sharp.** If the coherence decays more slowly than half the relaxation rate
(`2Γ < γ`, i.e. `t2 > 2·t1`), the specified decay laws take `|+⟩⟨+|` out of the positive
semidefinite matrices at `t = 1/(γ − 2Γ)` (the determinant is negative). -/
theorem relaxSol2_not_posSemidef (γ Γ : ℝ) (hΓ : 2 * Γ < γ) :
    0 < 1 / (γ - 2 * Γ) ∧ ¬ (relaxSol2 γ Γ plusState (1 / (γ - 2 * Γ))).PosSemidef := by
  have hd : 0 < γ - 2 * Γ := by linarith
  refine ⟨by positivity, fun hps => ?_⟩
  set t := 1 / (γ - 2 * Γ) with ht
  have hdet := hps.det_nonneg
  rw [Matrix.det_fin_two] at hdet
  obtain ⟨s00, s11, s01, s10⟩ := relaxSol2_apply γ Γ plusState t
  rw [s00, s11, s01, s10] at hdet
  simp only [plusState, Matrix.of_apply, Matrix.cons_val', Matrix.cons_val_zero, Matrix.cons_val_one,
    Matrix.cons_val_fin_one, dec] at hdet
  set e := Real.exp (-(γ * t)) with he
  set g := Real.exp (-(Γ * t)) with hg
  have hreal : (1 / 2 + (1 - (e : ℂ)) * (1 / 2)) * ((e : ℂ) * (1 / 2)) - (g : ℂ) * (1 / 2) * ((g : ℂ) * (1 / 2))
      = (((2 - e) * e / 4 - g * g / 4 : ℝ) : ℂ) := by push_cast; ring
  rw [hreal, Complex.zero_le_real] at hdet
  have epos : 0 < e := Real.exp_pos _
  have hgg : g * g = e * Real.exp 1 := by
    rw [hg, he, ← Real.exp_add, ← Real.exp_add]
    congr 1
    have : (γ - 2 * Γ) * t = 1 := by rw [ht]; field_simp
    linarith
  have h2 : (2 : ℝ) < Real.exp 1 := by
    have := Real.add_one_lt_exp (x := 1) (by norm_num)
    linarith
  nlinarith

/-- **Exact boundary of validity** of the specified decay laws: for a relaxation rate `γ ≥ 0` the
explicit solution keeps every density matrix a density matrix for all `t ≥ 0` iff `γ ≤ 2Γ`. -/
theorem relaxSol2_density_iff (γ Γ : ℝ) (hγ : 0 ≤ γ) :
    (∀ ρ0, IsDensity ρ0 → ∀ t, 0 ≤ t → IsDensity (relaxSol2 γ Γ ρ0 t)) ↔ γ ≤ 2 * Γ := by
  constructor
  · intro h
    by_contra hc
    obtain ⟨htpos, hbad⟩ := relaxSol2_not_posSemidef γ Γ (not_le.mp hc)
    exact hbad (h plusState plusState_density _ htpos.le).1
  · intro h ρ0 hρ t ht
    exact relaxSol2_density γ Γ t hγ h ht hρ

/-! ### Rates of every accepted configuration -/

/-- population (relaxation) rate `1/t1`, `0` without `t1` -/
noncomputable def popRate : Option Frac → ℝ
  | some a => 1 / a.toReal
  | none => 0

/-- coherence decay rate: `1/t2`; without `t2` half the relaxation rate -/
noncomputable def cohRate (t1 t2 : Option Frac) : ℝ :=
  match t2 with
  | some b => 1 / b.toReal
  | none => popRate t1 / 2

/-- the configurations the property speaks about: given times positive, `t2 ≤ 2·t1` if both given -/
def Admissible (t1 t2 : Option Frac) : Prop :=
  (∀ a, t1 = some a → a.Pos) ∧ (∀ b, t2 = some b → b.Pos) ∧
  (∀ a b, t1 = some a → t2 = some b → b.toReal ≤ 2 * a.toReal)

theorem gen2_nil (ρ : Matrix (Fin 2) (Fin 2) ℂ) : gen2 [] ρ = relaxGen2 0 0 ρ := by
  simp [gen2, generator, relaxGen2]

theorem gen3_nil (s : ℝ) (ρ : Matrix (Fin 3) (Fin 3) ℂ) : gen3 s [] ρ = relaxGen3 s 0 0 ρ := by
  simp [gen3, generator, relaxGen3]

/-- every admissible `(t1, t2)` (both, t1 only, t2 only, none) is accepted by the repaired code, and
the operators it adds define the relaxation generator with squared prefactors `γ1 = popRate`,
`γφ = 2·cohRate − popRate` -/
theorem qubitOps_gen_all (dim q : Nat) (t1 t2 : Option Frac) (h : Admissible t1 t2) :
    ∃ ops, qubitOps true dim q t1 t2 = .ok ops ∧
      (∀ ρ, gen2 ops ρ = relaxGen2 (popRate t1) (2 * cohRate t1 t2 - popRate t1) ρ) ∧
      (∀ s ρ, gen3 s ops ρ = relaxGen3 s (popRate t1) (2 * cohRate t1 t2 - popRate t1) ρ) := by
  obtain ⟨h1, h2, h3⟩ := h
  cases t1 with
  | none =>
    cases t2 with
    | none =>
      refine ⟨_, qubitOps_none true dim q, fun ρ => ?_, fun s ρ => ?_⟩
      · rw [gen2_nil]; simp [popRate, cohRate]
      · rw [gen3_nil]; simp [popRate, cohRate]
    | some b =>
      have hb := h2 b rfl
      refine ⟨_, qubitOps_t2_only true dim q b hb.1, fun ρ => ?_, fun s ρ => ?_⟩
      · rw [gen2_num, rateT2_toReal b hb]; simp only [popRate, cohRate]; congr 1; ring
      · rw [gen3_num, rateT2_toReal b hb]; simp only [popRate, cohRate]; congr 1; ring
  | some a =>
    have ha := h1 a rfl
    cases t2 with
    | none =>
      refine ⟨_, qubitOps_t1_only true dim q a ha.1, fun ρ => ?_, fun s ρ => ?_⟩
      · rw [gen2_destroy, rate1_toReal a ha]; simp only [popRate, cohRate]; congr 1; ring
      · rw [gen3_destroy, rate1_toReal a ha]; simp only [popRate, cohRate]; congr 1; ring
    | some b =>
      have hb := h2 b rfl
      obtain ⟨ops, hops, hg2, hg3⟩ := qubitOps_gen dim q a b ha hb (h3 a b rfl rfl)
      refine ⟨ops, hops, fun ρ => ?_, fun s ρ => ?_⟩
      · rw [hg2]; simp only [popRate, cohRate]; congr 1; ring
      · rw [hg3]; simp only [popRate, cohRate]; congr 1; ring

theorem popRate_nonneg {t1 t2 : Option Frac} (h : Admissible t1 t2) : 0 ≤ popRate t1 := by
  cases t1 with
  | none => simp [popRate]
  | some a => have := (h.1 a rfl).toReal_pos; simp only [popRate]; positivity

/-- in every admissible configuration the relaxation rate is at most twice the coherence rate -/
theorem popRate_le {t1 t2 : Option Frac} (h : Admissible t1 t2) : popRate t1 ≤ 2 * cohRate t1 t2 := by
  obtain ⟨h1, h2, h3⟩ := h
  cases t2 with
  | none => simp only [cohRate]; linarith
  | some b =>
    have hb := (h2 b rfl).toReal_pos
    cases t1 with
    | none => simp only [popRate, cohRate]; positivity
    | some a =>
      have ha := (h1 a rfl).toReal_pos
      have := h3 a b rfl rfl
      simp only [popRate, cohRate]
      rw [div_le_iff₀ ha]
      calc (1 : ℝ) = 2 * (1 / (2 * a.toReal)) * a.toReal := by field_simp
        _ ≤ 2 * (1 / b.toReal) * a.toReal := by
            have : 1 / (2 * a.toReal) ≤ 1 / b.toReal := one_div_le_one_div_of_le hb this
            nlinarith

end QipVerif.Noise
