import QipVerif.Lemmas.ZyzQftDen
import Mathlib.Algebra.BigOperators.Intervals
import Mathlib.Tactic.FieldSimp

/-!
# C17 — amplitudes of the QFT circuit after `m` stages (every `N`, every `m ≤ N`)

Stage `i` of `qft_gate_sequence` = controlled phases `CPHASE(control i, target j, π/2^(i−j))`, `j < i`,
then `SNOT i`.  On basis states, with `lowVal y k = Σ_{j<k} y_j 2^j`:

* the controlled phases of row `i` (first `m` of them) are the diagonal operator
  `z ↦ e^{2πi · z_i · lowVal z m / 2^(i+1)}`  (`inner_den`);
* after `m` stages  `⟨y| W_m |x⟩ = [y_l = x_l for l ≥ m] · 2^{−m/2} · e^{2πi·E_m(x,y)}`,
  `E_m(x,y) = Σ_{i<m} x_i · lowVal y (i+1) / 2^(i+1)`  (`outer_den`).
-/
namespace QipVerif.QftDen
open Matrix Complex
open QipVerif QipVerif.Zyz

variable {N : ℕ}

/-- bit `j` of a basis state as a natural number (0 beyond the register) -/
def bitN (y : St N) (j : ℕ) : ℕ := if h : j < N then ((y ⟨j, h⟩ : Fin 2) : ℕ) else 0

/-- `Σ_{j<m} y_j 2^j` -/
def lowVal (y : St N) (m : ℕ) : ℕ := ∑ j ∈ Finset.range m, bitN y j * 2 ^ j

/-- `Σ_{i<m} x_i · lowVal y (i+1) / 2^(i+1)` -/
noncomputable def E (x y : St N) (m : ℕ) : ℝ :=
  ∑ i ∈ Finset.range m, (bitN x i : ℝ) * (lowVal y (i + 1) : ℝ) / 2 ^ (i + 1)

theorem bitN_eq (y : St N) {j : ℕ} (h : j < N) : bitN y j = ((y ⟨j, h⟩ : Fin 2) : ℕ) := dif_pos h

theorem bitN_le_one (y : St N) (j : ℕ) : bitN y j = 0 ∨ bitN y j = 1 := by
  unfold bitN
  split
  · rename_i h; have := (y ⟨j, h⟩).isLt; omega
  · left; rfl

theorem lowVal_succ (y : St N) (m : ℕ) : lowVal y (m + 1) = lowVal y m + bitN y m * 2 ^ m :=
  Finset.sum_range_succ _ _

theorem E_succ (x y : St N) (m : ℕ) :
    E x y (m + 1) = E x y m + (bitN x m : ℝ) * (lowVal y (m + 1) : ℝ) / 2 ^ (m + 1) :=
  Finset.sum_range_succ _ _

theorem bitN_update_ne (y : St N) {m : ℕ} (hm : m < N) (v : Fin 2) {j : ℕ} (hj : j ≠ m) :
    bitN (Function.update y ⟨m, hm⟩ v) j = bitN y j := by
  unfold bitN
  split
  · rename_i h
    rw [Function.update_of_ne]
    intro e; exact hj (Fin.mk.inj e)
  · rfl

theorem bitN_update_self (y : St N) {m : ℕ} (hm : m < N) (v : Fin 2) :
    bitN (Function.update y ⟨m, hm⟩ v) m = (v : ℕ) := by
  rw [bitN_eq _ hm, Function.update_self]

theorem lowVal_update (y : St N) {m : ℕ} (hm : m < N) (v : Fin 2) {k : ℕ} (hk : k ≤ m) :
    lowVal (Function.update y ⟨m, hm⟩ v) k = lowVal y k := by
  unfold lowVal
  apply Finset.sum_congr rfl
  intro j hj
  rw [bitN_update_ne y hm v (by have := Finset.mem_range.mp hj; omega)]

theorem E_update (x y : St N) {m : ℕ} (hm : m < N) (v : Fin 2) {k : ℕ} (hk : k ≤ m) :
    E x (Function.update y ⟨m, hm⟩ v) k = E x y k := by
  unfold E
  apply Finset.sum_congr rfl
  intro i hi
  rw [lowVal_update y hm v (by have := Finset.mem_range.mp hi; omega)]

/-! ## the controlled phases of one row -/

/-- phase of one controlled phase gate on a basis state -/
theorem cp_phase (z : St N) {i m : ℕ} (hi : i < N) (hmi : m < i) :
    (if z ⟨i, hi⟩ = 1 ∧ z ⟨m, by omega⟩ = 1 then cexp (I * ((angVal ⟨1, i - m⟩ : ℝ) : ℂ)) else 1)
      = ph ((bitN z i : ℝ) * ((bitN z m * 2 ^ m : ℕ) : ℝ) / 2 ^ (i + 1)) := by
  have hm : m < N := by omega
  rw [bitN_eq z hi, bitN_eq z hm]
  have hpow : (2 : ℝ) ^ (i + 1) = 2 ^ (m + 1) * 2 ^ (i - m) := by
    rw [← pow_add]; congr 1; omega
  have key : cexp (I * ((angVal ⟨1, i - m⟩ : ℝ) : ℂ)) = ph ((2 : ℝ) ^ m / 2 ^ (i + 1)) := by
    unfold ph angVal
    congr 1
    rw [hpow]
    have h2 : ((2 : ℝ) ^ (i - m)) ≠ 0 := by positivity
    have h3 : ((2 : ℝ) ^ m) ≠ 0 := by positivity
    push_cast
    field_simp
    ring
  have h1 : ∀ a : Fin 2, a = 1 ∨ a = 0 := by intro a; fin_cases a <;> simp
  rcases h1 (z ⟨i, hi⟩) with ha | ha <;> rcases h1 (z ⟨m, hm⟩) with hb | hb <;>
    simp [ha, hb, key, ph_zero]

theorem gateDen_cphase {c t k : ℕ} (hc : c < N) (ht : t < N) (hne : c ≠ t) :
    gateDen N (Qft.cphase c t k) =
      some (CPq ⟨c, hc⟩ ⟨t, ht⟩ (fun e => hne (Fin.mk.inj e)) (angVal ⟨1, k⟩)) := by
  simp [gateDen, Qft.cphase, hc, ht, hne]

theorem gateDen_snot {q : ℕ} (hq : q < N) : gateDen N (Qft.snot q) = some (Hq ⟨q, hq⟩) := by
  simp [gateDen, Qft.snot, hq]

theorem gateDen_swap {a b : ℕ} (ha : a < N) (hb : b < N) (hne : a ≠ b) :
    gateDen N (Qft.swap a b) = some (SWq ⟨a, ha⟩ ⟨b, hb⟩ (fun e => hne (Fin.mk.inj e))) := by
  simp [gateDen, Qft.swap, ha, hb, hne]

/-- the first `m` controlled phases of row `i` (native CPHASE gates) -/
theorem inner_den {i : ℕ} (hi : i < N) (m : ℕ) (hm : m ≤ i) :
    circDenN N (Qft.inner false i m) =
      some (Matrix.diagonal fun z : St N => ph ((bitN z i : ℝ) * (lowVal z m : ℝ) / 2 ^ (i + 1))) := by
  induction m with
  | zero =>
    simp [Qft.inner, circDenN, lowVal, ph_zero]
  | succ m ih =>
    have hmi : m < i := by omega
    have hmN : m < N := by omega
    have h1 := ih (by omega)
    have h2 : circDenN N (Qft.cphaseGates false i m (i - m)) = some _ :=
      circDenN_singleton (gateDen_cphase hi hmN (by omega))
    have h3 := circDenN_append_some h1 h2
    simp only [Qft.inner]
    rw [h3, CPq_eq_diagonal, Matrix.diagonal_mul_diagonal]
    congr 2
    funext z
    rw [cp_phase z hi hmi, ← ph_add, lowVal_succ]
    congr 1
    push_cast
    ring

/-! ## `m` stages -/

/-- matrix after `m` stages -/
noncomputable def W (N m : ℕ) : Matrix (St N) (St N) ℂ := fun y x =>
  if ∀ l : Fin N, m ≤ l.val → y l = x l then (((Real.sqrt 2 : ℝ) : ℂ)⁻¹) ^ m * ph (E x y m) else 0

theorem outer_den (m : ℕ) (hm : m ≤ N) : circDenN N (Qft.outer false m) = some (W N m) := by
  induction m with
  | zero =>
    simp only [Qft.outer, circDenN]
    congr 1
    ext y x
    simp only [W, Matrix.one_apply, E, Finset.range_zero, Finset.sum_empty, ph_zero, pow_zero, mul_one]
    simp only [funext_iff, Nat.zero_le, forall_const]
  | succ m ih =>
    have hmN : m < N := by omega
    have h1 := ih (by omega)
    have h2 := inner_den hmN m (le_refl m)
    have h3 : circDenN N [Qft.snot m] = some (Hq ⟨m, hmN⟩) := circDenN_singleton (gateDen_snot hmN)
    have h4 := circDenN_append_some h1 (circDenN_append_some h2 h3)
    simp only [Qft.outer]
    rw [h4]
    congr 1
    ext y x
    set im : Fin N := ⟨m, hmN⟩ with him
    set z0 : St N := Function.update y im (x im) with hz0
    rw [Matrix.mul_apply, Finset.sum_eq_single z0]
    · -- the surviving term
      rw [Matrix.mul_diagonal, Hq_apply]
      have hcond : ∀ l, l ≠ im → y l = z0 l := by
        intro l hl; rw [hz0, Function.update_of_ne hl]
      rw [if_pos hcond]
      have hz0m : z0 im = x im := by rw [hz0, Function.update_self]
      have hW : (∀ l : Fin N, m ≤ l.val → z0 l = x l) ↔ (∀ l : Fin N, m + 1 ≤ l.val → y l = x l) := by
        constructor
        · intro h l hl
          have hne : l ≠ im := by intro e; rw [e, him] at hl; simp at hl
          have := h l (by omega)
          rwa [hz0, Function.update_of_ne hne] at this
        · intro h l hl
          by_cases hle : l = im
          · rw [hle]; exact hz0m
          · have hne : l.val ≠ m := by intro e; apply hle; exact Fin.ext e
            rw [hz0, Function.update_of_ne hle]
            exact h l (by omega)
      simp only [W]
      by_cases hc : ∀ l : Fin N, m + 1 ≤ l.val → y l = x l
      · rw [if_pos (hW.mpr hc), if_pos hc]
        have e1 : bitN z0 m = bitN x m := by
          rw [hz0, bitN_update_self, bitN_eq x hmN]
        have e2 : lowVal z0 m = lowVal y m := lowVal_update y hmN _ (le_refl m)
        have e3 : E x z0 m = E x y m := E_update x y hmN _ (le_refl m)
        have e4 : (((z0 im : Fin 2) : ℕ) : ℝ) = (bitN x m : ℝ) := by rw [hz0m, bitN_eq x hmN]
        have e5 : (((y im : Fin 2) : ℕ) : ℝ) = (bitN y m : ℝ) := by rw [bitN_eq y hmN]
        rw [e1, e2, e3, e4, e5, E_succ, lowVal_succ]
        have hph : ph ((bitN y m : ℝ) * (bitN x m : ℝ) / 2) * ph ((bitN x m : ℝ) * (lowVal y m : ℝ) / 2 ^ (m + 1))
            * ph (E x y m) = ph (E x y m + (bitN x m : ℝ) * ((lowVal y m + bitN y m * 2 ^ m : ℕ) : ℝ) / 2 ^ (m + 1)) := by
          rw [← ph_add, ← ph_add]
          congr 1
          have h2 : ((2 : ℝ) ^ m) ≠ 0 := by positivity
          push_cast
          rw [pow_succ]
          field_simp
          ring
        rw [← hph]
        ring
      · rw [if_neg (fun h => hc (hW.mp h)), if_neg hc, mul_zero]
    · intro z _ hz
      rw [Matrix.mul_diagonal, Hq_apply]
      by_cases hH : ∀ l, l ≠ im → y l = z l
      · have hzm : z im ≠ x im := by
          intro e
          apply hz
          funext l
          by_cases hl : l = im
          · rw [hl, e, hz0, Function.update_self]
          · rw [hz0, Function.update_of_ne hl, hH l hl]
        have : ¬ ∀ l : Fin N, m ≤ l.val → z l = x l := fun h => hzm (h im (le_refl m))
        simp only [W, if_neg this, mul_zero]
      · rw [if_neg hH, zero_mul, zero_mul]
    · intro h; exact absurd (Finset.mem_univ _) h

end QipVerif.QftDen
