import QipVerif.Lemmas.SimKetLists
import QipVerif.Lemmas.SimKetAlg
import QipVerif.Lemmas.Sem
/-!
# C01 — the state-vector model over ℂ: one step and a whole run are the ordered product

`opsC` instantiates the scalar operations of `Model/SimKet.lean` with ℂ.  A tensor of shape
`[2]*N ++ ex` is observed through its slices `slice N T r : St N → ℂ` at the trailing indices `r`
(`r = []` for a ket, `r = [column]` for an operator-valued state).
-/
namespace QipVerif.SimKet
open Matrix QipVerif.Embed

noncomputable def opsC : Ops ℂ := ⟨0, 1, (· + ·), (· * ·), starRingEnd ℂ⟩

theorem sumL_opsC (l : List ℂ) : sumL opsC l = l.sum := by
  induction l with
  | nil => rfl
  | cons a as ih => simp only [sumL, ih, List.sum_cons]; rfl

theorem sumL_range (K : ℕ) (f : ℕ → ℂ) : sumL opsC ((List.range K).map f) = ∑ s ∈ Finset.range K, f s := by
  rw [sumL_opsC]
  induction K with
  | zero => simp
  | succ K ih => rw [List.range_succ, List.map_append, List.sum_append, ih, Finset.sum_range_succ]; simp

/-- the gate tensor (`gate.full().reshape(dims)`) read at (row digits, column digits) -/
noncomputable def gateMat (m : ℕ) (U : List (List ℂ)) : Matrix (St m) (St m) ℂ :=
  fun a b => (gateTensor m U).get opsC (bitsL a ++ bitsL b)

/-- the slice of a tensor of shape `[2]*N ++ ex` at the trailing indices `r` -/
noncomputable def slice (N : ℕ) (T : Tensor ℂ) (r : List ℕ) : St N → ℂ :=
  fun x => T.get opsC (bitsL x ++ r)

/-- `r` is a valid index vector for the trailing axes `ex` -/
def ValidIx (ex r : List ℕ) : Prop :=
  r.length = ex.length ∧ ∀ i (h1 : i < r.length) (h2 : i < ex.length), r[i] < ex[i]

theorem shape_getElem?_lt (N : ℕ) (ex : List ℕ) (q : ℕ) (hq : q < N) :
    (List.replicate N 2 ++ ex)[q]? = some 2 := by
  rw [List.getElem?_append_left (by simpa using hq)]
  simp [hq]

theorem valid_full {N : ℕ} (x : St N) (ex r : List ℕ) (hv : ValidIx ex r) :
    (bitsL x ++ r).length = (List.replicate N 2 ++ ex).length ∧
    ∀ i (h1 : i < (bitsL x ++ r).length) (h2 : i < (List.replicate N 2 ++ ex).length),
      (bitsL x ++ r)[i] < (List.replicate N 2 ++ ex)[i] := by
  refine ⟨by simp [hv.1], ?_⟩
  intro i h1 h2
  by_cases hi : i < N
  · rw [List.getElem_append_left (by simpa using hi), List.getElem_append_left (by simpa using hi)]
    simp only [bitsL, List.getElem_ofFn, List.getElem_replicate]
    exact (x ⟨i, hi⟩).isLt
  · rw [List.getElem_append_right (by simpa using hi), List.getElem_append_right (by simpa using hi)]
    simp only [bitsL_length, List.length_replicate]
    apply hv.2

section step
variable {N : ℕ} (qs : List ℕ) (hn : qs.Nodup) (hr : ∀ q ∈ qs, q < N)

theorem map_getD_bits (x : St N) (r : List ℕ) :
    qs.map (fun q => (bitsL x ++ r).getD q 0) = bitsL (x ∘ (tgOfList N qs hn hr).f) := by
  apply List.ext_getElem
  · simp
  · intro i h1 h2
    have hi : i < qs.length := by simpa using h1
    have hq := hr _ (List.getElem_mem hi)
    simp only [List.getElem_map, bitsL, List.getElem_ofFn, Function.comp, tgOfList]
    rw [List.getD_eq_getElem?_getD, List.getElem?_append_left (by simpa using hq),
      List.getElem?_eq_getElem (by simpa using hq), Option.getD_some]
    simp

theorem substL_bits (x : St N) (b : St qs.length) (ex r : List ℕ) (hrl : r.length = ex.length) :
    substL (List.replicate N 2 ++ ex).length qs (bitsL x ++ r) (bitsL b) =
      bitsL ((tgOfList N qs hn hr).update x b) ++ r := by
  unfold substL
  apply List.ext_getElem
  · simp [hrl]
  · intro p h1 h2
    simp only [List.getElem_map, List.getElem_range]
    by_cases hp : p < N
    · rw [List.getElem_append_left (by simpa using hp)]
      simp only [bitsL, List.getElem_ofFn]
      by_cases hq : p ∈ qs
      · rw [if_pos hq]
        have hj := List.idxOf_lt_length_of_mem hq
        rw [List.getD_eq_getElem?_getD, List.getElem?_eq_getElem (by simpa using hj), Option.getD_some]
        simp only [List.getElem_ofFn]
        have : (⟨p, hp⟩ : Fin N) = (tgOfList N qs hn hr).f ⟨qs.idxOf p, hj⟩ := by
          apply Fin.ext; simp [tgOfList]
        rw [this, Tg.update_apply_f]
      · rw [if_neg hq]
        rw [List.getD_eq_getElem?_getD, List.getElem?_append_left (by simpa using hp),
          List.getElem?_eq_getElem (by simpa using hp), Option.getD_some]
        simp only [List.getElem_ofFn]
        rw [Tg.update_rest]
        rintro ⟨j, hj⟩
        apply hq
        have : qs[j.val] = p := by simpa [tgOfList] using congrArg Fin.val hj
        exact this ▸ List.getElem_mem j.isLt
    · have hq : p ∉ qs := fun h => hp (hr p h)
      rw [if_neg hq, List.getElem_append_right (by simpa using hp)]
      rw [List.getD_eq_getElem?_getD, List.getElem?_append_right (by simpa using hp)]
      simp only [bitsL_length]
      rw [List.getElem?_eq_getElem (by simp at h2; simp at h1; omega), Option.getD_some]

/-- **One gate step, for all registers, placements, gate matrices and states**: every slice of the new
tensor is the embedded gate matrix applied to the slice of the old one. -/
theorem slice_stepKet_gate (U : List (List ℂ)) (st : Tensor ℂ) (ex r : List ℕ)
    (hsh : st.shape = List.replicate N 2 ++ ex) (hv : ValidIx ex r) :
    ∃ T', stepKet opsC (.gate qs qs.length U) st = .ok T' ∧ T'.shape = st.shape ∧
      slice N T' r = ((tgOfList N qs hn hr).embed (gateMat qs.length U)).mulVec (slice N st r) := by
  have hr' : ∀ q ∈ qs, st.shape[q]? = some 2 := by
    intro q hq; rw [hsh]; exact shape_getElem?_lt N ex q (hr q hq)
  refine ⟨_, stepKet_gate opsC qs U st hn hr', rfl, ?_⟩
  funext x
  obtain ⟨hl, hvv⟩ := valid_full x ex r hv
  simp only [slice]
  rw [get_ofFn opsC st.shape _ _ (by rw [hsh]; exact hl) (by simpa only [hsh] using hvv)]
  rw [Tg.mulVec_embed]
  unfold contractL
  rw [sumL_range, sum_range_eq_sum_St]
  apply Finset.sum_congr rfl
  intro b _
  rw [digits_enc, map_getD_bits qs hn hr, hsh, substL_bits qs hn hr x b ex r hv.1]
  rfl

end step
end QipVerif.SimKet
