import QipVerif.Model.Vqa
/-! Helper lemmas for C19 (list bookkeeping of `VQA`). Core Lean only. -/
namespace QipVerif.Vqa

theorem nparams_native {b : Block} (h : b.kind = .native) : b.nparams = 0 := by
  simp [Block.nparams, h]

theorem sumParams_append (a b : List IBlock) : sumParams (a ++ b) = sumParams a + sumParams b := by
  induction a with
  | nil => simp [sumParams]
  | cons x xs ih => simp [sumParams, ih, Nat.add_assoc]

theorem sumParams_repeatL (r : Nat) (l : List IBlock) : sumParams (repeatL r l) = r * sumParams l := by
  induction r with
  | zero => simp [repeatL, sumParams]
  | succ r ih => simp [repeatL, sumParams_append, ih, Nat.succ_mul, Nat.add_comm]

theorem sumParams_split (l : List IBlock) :
    sumParams (initialBlocks l) + sumParams (layerBlocks l) = sumParams l := by
  induction l with
  | nil => simp [initialBlocks, layerBlocks, sumParams]
  | cons x xs ih =>
    simp only [initialBlocks, layerBlocks] at ih ⊢
    cases hx : x.2.initial <;> simp [hx, sumParams] <;> omega

theorem seriesGates_append {α : Type} (angles : List α) (a b : List IBlock) (i : Nat) :
    seriesGates angles (a ++ b) i = seriesGates angles a i ++ seriesGates angles b (i + sumParams a) := by
  induction a generalizing i with
  | nil => simp [seriesGates, sumParams]
  | cons x xs ih => simp [seriesGates, sumParams, ih, Nat.add_assoc]

theorem seriesGates_length {α : Type} (angles : List α) (s : List IBlock) (i : Nat) :
    (seriesGates angles s i).length = s.length := by
  induction s generalizing i with
  | nil => simp [seriesGates]
  | cons x xs ih => simp [seriesGates, ih]

theorem seriesGates_getElem? {α : Type} (angles : List α) (s : List IBlock) (i k : Nat) :
    (seriesGates angles s i)[k]? = (s[k]?).map (fun jb => gateOf angles jb (i + sumParams (s.take k))) := by
  induction s generalizing i k with
  | nil => simp [seriesGates]
  | cons x xs ih =>
    cases k with
    | zero => simp [seriesGates, sumParams]
    | succ k => simp [seriesGates, sumParams, ih, Nat.add_assoc]

/-- first layer: every block is visited -/
theorem circLayer_first {α : Type} (angles : List α) (ib : List IBlock) (i : Nat) :
    circLayer angles true ib i = (seriesGates angles ib i, i + sumParams ib) := by
  induction ib generalizing i with
  | nil => simp [circLayer, seriesGates, sumParams]
  | cons x xs ih =>
    by_cases hn : x.2.kind = .native
    · simp [circLayer, seriesGates, sumParams, hn, ih, nparams_native hn]
    · simp [circLayer, seriesGates, sumParams, hn, ih, Nat.add_assoc]

/-- later layers: the initial blocks are skipped -/
theorem circLayer_later {α : Type} (angles : List α) (ib : List IBlock) (i : Nat) :
    circLayer angles false ib i =
      (seriesGates angles (layerBlocks ib) i, i + sumParams (layerBlocks ib)) := by
  induction ib generalizing i with
  | nil => simp [circLayer, seriesGates, sumParams, layerBlocks]
  | cons x xs ih =>
    simp only [layerBlocks] at ih ⊢
    cases hi : x.2.initial
    · by_cases hn : x.2.kind = .native
      · simp [circLayer, seriesGates, sumParams, hn, hi, ih, nparams_native hn]
      · simp [circLayer, seriesGates, sumParams, hn, hi, ih, Nat.add_assoc]
    · simp [circLayer, hi, ih]

theorem circLayers_later {α : Type} (angles : List α) (ib : List IBlock) (r i : Nat) :
    circLayers angles ib r false i = seriesGates angles (repeatL r (layerBlocks ib)) i := by
  induction r generalizing i with
  | zero => simp [circLayers, repeatL, seriesGates]
  | succ r ih => simp [circLayers, repeatL, circLayer_later, ih, seriesGates_append]

theorem constructCircuit_eq {α : Type} (bs : List Block) (L : Nat) (angles : List α) (hL : 0 < L) :
    constructCircuit bs L angles = seriesGates angles (blockSeries bs L) 0 := by
  obtain ⟨r, rfl⟩ : ∃ r, L = r + 1 := ⟨L - 1, by omega⟩
  simp [constructCircuit, circLayers, circLayer_first, circLayers_later, blockSeries,
    seriesGates_append]

theorem freeParams_eq (bs : List Block) (L : Nat) (hL : 0 < L) :
    freeParams bs L = sumParams (blockSeries bs L) := by
  obtain ⟨r, rfl⟩ : ∃ r, L = r + 1 := ⟨L - 1, by omega⟩
  have := sumParams_split (indexFrom 0 bs)
  simp only [freeParams, blockSeries, sumParams_append, sumParams_repeatL, Nat.add_sub_cancel]
  rw [← this, Nat.mul_succ, Nat.mul_comm]
  omega

/-! ### The jacobian loop -/

theorem range'_eq_map (i n : Nat) : List.range' i n = (List.range n).map (fun t => i + t) := by
  rw [List.range'_eq_map_range]

/-- the parameters the entries refer to: every requested index of the block series, ascending -/
theorem jacLoop_params (idx : List Int) (s : List IBlock) (k i : Nat) :
    (jacLoop idx s k i).map JEntry.param =
      (List.range' i (sumParams s)).filter (fun p => idx.contains ((p : Nat) : Int)) := by
  induction s generalizing k i with
  | nil => simp [jacLoop, sumParams]
  | cons x xs ih =>
    simp only [jacLoop, sumParams, List.map_append, ih]
    rw [← List.range'_append_1 (s := i) (m := x.2.nparams) (n := sumParams xs), List.filter_append]
    congr 1
    rw [range'_eq_map, List.filter_map, List.map_map]
    rfl

theorem jacLoop_mem (idx : List Int) (s : List IBlock) (k0 i0 : Nat) (e : JEntry)
    (he : e ∈ jacLoop idx s k0 i0) :
    ∃ jb, k0 ≤ e.k ∧ s[e.k - k0]? = some jb ∧ e.blk = jb.1 ∧ e.n = jb.2.nparams ∧
      e.start = i0 + sumParams (s.take (e.k - k0)) ∧ e.term < e.n ∧
      idx.contains ((e.param : Nat) : Int) = true := by
  induction s generalizing k0 i0 with
  | nil => simp [jacLoop] at he
  | cons x xs ih =>
    simp only [jacLoop, List.mem_append, List.mem_map, List.mem_filter, List.mem_range] at he
    rcases he with ⟨t, ⟨ht, hc⟩, rfl⟩ | he
    · exact ⟨x, Nat.le_refl _, by simp, rfl, rfl, by simp [sumParams], ht, by simpa [JEntry.param] using hc⟩
    · obtain ⟨jb, hk, hget, h1, h2, h3, h4, h5⟩ := ih (k0 + 1) (i0 + x.2.nparams) he
      have hk' : e.k - k0 = (e.k - (k0 + 1)) + 1 := by omega
      refine ⟨jb, by omega, ?_, h1, h2, ?_, h4, h5⟩
      · rw [hk']; simpa using hget
      · rw [hk']; simp [sumParams, h3, Nat.add_assoc]

/-- when every block has at most one free parameter the shipped loop and the repaired loop agree -/
theorem jacLoopOrig_eq (idx : List Int) (s : List IBlock) (k i : Nat)
    (h1 : ∀ jb ∈ s, jb.2.nparams ≤ 1) : jacLoopOrig idx s k i = jacLoop idx s k i := by
  induction s generalizing k i with
  | nil => simp [jacLoop, jacLoopOrig]
  | cons x xs ih =>
    have hx := h1 x (List.mem_cons_self ..)
    have ih' := fun k i => ih k i (fun jb hjb => h1 jb (List.mem_cons_of_mem _ hjb))
    rcases Nat.le_one_iff_eq_zero_or_eq_one.mp hx with h0 | h1'
    · simp [jacLoop, jacLoopOrig, h0, ih']
    · by_cases hc : ((i : Nat) : Int) ∈ idx
      · simp [jacLoop, jacLoopOrig, h1', ih', hc, List.range_succ]
      · simp [jacLoop, jacLoopOrig, h1', ih', hc, List.range_succ]

theorem indexFrom_getElem? (j : Nat) (bs : List Block) (k : Nat) :
    (indexFrom j bs)[k]? = (bs[k]?).map (fun b => (j + k, b)) := by
  induction bs generalizing j k with
  | nil => simp [indexFrom]
  | cons b bs ih =>
    cases k with
    | zero => simp [indexFrom]
    | succ k =>
      simp only [indexFrom, List.getElem?_cons_succ, ih]
      cases bs[k]? <;> simp; omega

theorem indexFrom_mem {j : Nat} {bs : List Block} {jb : IBlock} (h : jb ∈ indexFrom j bs) :
    bs[jb.1 - j]? = some jb.2 ∧ j ≤ jb.1 := by
  obtain ⟨k, hk⟩ := List.getElem?_of_mem h
  rw [indexFrom_getElem?] at hk
  cases hb : bs[k]? with
  | none => simp [hb] at hk
  | some b =>
    simp only [hb, Option.map_some, Option.some.injEq] at hk
    subst hk
    simp [hb]

theorem repeatL_mem {r : Nat} {l : List IBlock} {jb : IBlock} (h : jb ∈ repeatL r l) : jb ∈ l := by
  induction r with
  | zero => simp [repeatL] at h
  | succ r ih =>
    simp only [repeatL, List.mem_append] at h
    exact h.elim id ih

/-- every member of the series is a block of `VQA.blocks`, tagged with its own position -/
theorem blockSeries_mem {bs : List Block} {L : Nat} {jb : IBlock} (h : jb ∈ blockSeries bs L) :
    bs[jb.1]? = some jb.2 := by
  simp only [blockSeries, List.mem_append] at h
  rcases h with h | h
  · simpa using (indexFrom_mem h).1
  · have := repeatL_mem h
    simp only [layerBlocks, List.mem_filter] at this
    simpa using (indexFrom_mem this.1).1

end QipVerif.Vqa
