import QipVerif.Lemmas.DecompNames
import QipVerif.Model.Transpile
import Mathlib.Data.List.Nodup
/-!
# C13: what `resolve_gates` does to the qubits of a gate

* `resolve_rel`: a relation `R g h` ("`h` was derived from `g`") that is reflexive, transitive
  and respected by the Pauli substitution, by every rule of the tables and by the elimination of
  the third rotation, relates every gate of the output of `resolve` to a gate of its input —
  the induction through `resolveAll` / `basisPass` / `elim1q`, done once.
* instance 1 (`StaysOn`, any tables): the qubits of `h` are qubits of `g`.  A template can only
  address qubits through selectors into the rewritten gate, so this holds by construction.
* instance 2 (`ShapedRel`, the regenerated tables): if `g` is a library gate on distinct
  in-range qubits, so is `h`.  This needs the decidable table property `ruleOk` (selectors within
  the shape of the rewritten gate, pairwise distinct within each emitted gate, emitted gates have
  the shape of their name).
-/
namespace QipVerif.Transpile
open QipVerif QipVerif.Decomp

/-! ## `mapM` over `Option` -/

theorem mapM_option {α β : Type} (f : α → Option β) (d : β) : ∀ (l : List α) (ys : List β),
    l.mapM f = some ys → ys = l.map (fun a => (f a).getD d) ∧ ∀ a ∈ l, f a = some ((f a).getD d) := by
  intro l
  induction l with
  | nil => intro ys h; simp at h; subst h; simp
  | cons a l ih =>
    intro ys h
    rw [List.mapM_cons] at h
    cases h1 : f a with
    | none => simp [h1] at h
    | some b =>
      cases h2 : l.mapM f with
      | none => simp [h1, h2] at h
      | some bs =>
        simp [h1, h2] at h
        subst h
        obtain ⟨e, hall⟩ := ih bs h2
        refine ⟨by simp [h1, ← e], ?_⟩
        intro x hx
        rcases List.mem_cons.mp hx with rfl | hx
        · simp [h1]
        · exact hall x hx

theorem mapM_option_some {α β : Type} (f : α → Option β) (d : β) : ∀ (l : List α),
    (∀ a ∈ l, (f a).isSome = true) → l.mapM f = some (l.map (fun a => (f a).getD d)) := by
  intro l
  induction l with
  | nil => intro _; rfl
  | cons a l ih =>
    intro h
    rw [List.mapM_cons]
    obtain ⟨b, hb⟩ := Option.isSome_iff_exists.mp (h a (List.mem_cons_self ..))
    rw [ih (fun x hx => h x (List.mem_cons_of_mem _ hx))]
    simp [hb]

/-! ## instantiating a template -/

/-- the qubit a selector addresses (`0` if the gate has no such qubit) -/
def selQ (g : Gate) (s : Sel) : Nat := (Sel.get g s).getD 0

theorem sel_mem {g : Gate} {s : Sel} {q : Nat} (h : Sel.get g s = some q) : q ∈ g.qubits := by
  cases s with
  | t i => exact List.mem_append_right _ (List.mem_of_getElem? h)
  | c i => exact List.mem_append_left _ (List.mem_of_getElem? h)

/-- what `TGate.inst` returns -/
theorem inst_eq {g : Gate} {t : TGate} {h : Gate} (hi : t.inst g = some h) :
    h = ⟨t.name, t.targets.map (selQ g), t.controls.map (selQ g), t.arg.inst g.arg⟩ ∧
    ∀ s ∈ t.controls ++ t.targets, Sel.get g s = some (selQ g s) := by
  unfold TGate.inst at hi
  split at hi
  · rename_i ts cs h1 h2
    cases hi
    obtain ⟨e1, a1⟩ := mapM_option (Sel.get g) 0 _ _ h1
    obtain ⟨e2, a2⟩ := mapM_option (Sel.get g) 0 _ _ h2
    refine ⟨by rw [e1, e2]; rfl, ?_⟩
    intro s hs
    rcases List.mem_append.mp hs with hs | hs
    · exact a2 s hs
    · exact a1 s hs
  · cases hi

theorem inst_qubits {g : Gate} {t : TGate} {h : Gate} (hi : t.inst g = some h) :
    h.qubits = (t.controls ++ t.targets).map (selQ g) := by
  rw [(inst_eq hi).1]; simp [Gate.qubits]

/-- **a template only addresses qubits of the gate it rewrites** -/
theorem inst_stays {g : Gate} {t : TGate} {h : Gate} (hi : t.inst g = some h) :
    ∀ q ∈ h.qubits, q ∈ g.qubits := by
  intro q hq
  rw [inst_qubits hi] at hq
  obtain ⟨s, hs, rfl⟩ := List.mem_map.mp hq
  exact sel_mem ((inst_eq hi).2 s hs)

theorem instBody_mem {g : Gate} {body : List TGate} {out : List Gate} (hb : instBody g body = some out) :
    ∀ h ∈ out, ∃ t ∈ body, t.inst g = some h := by
  obtain ⟨e, hall⟩ := mapM_option (TGate.inst g) g _ _ hb
  intro h hh
  rw [e] at hh
  obtain ⟨t, ht, rfl⟩ := List.mem_map.mp hh
  exact ⟨t, ht, hall t ht⟩

/-! ## the induction through `resolve`, once -/

/-- a "derived from" relation respected by every step of `resolve_gates` -/
structure RuleRel (T : Tables) (R : Gate → Gate → Prop) : Prop where
  refl : ∀ g, R g g
  trans : ∀ a b c, R a b → R b c → R a c
  pauli : ∀ g, R g (pauliSub g).2 ∧ ∀ m ∈ (pauliSub g).1, R g m
  gate : ∀ g body out, T.gateRule g.name = .templ body → instBody g body = some out → ∀ h ∈ out, R g h
  basis : ∀ y g body out, T.basisRule y g.name = some body → instBody g body = some out → ∀ h ∈ out, R g h
  elim : ∀ b1 g, ∀ h ∈ elim1q b1 g, R g h

section
variable {T : Tables} {R : Gate → Gate → Prop} (rr : RuleRel T R)
include rr

theorem dispatch_rel {b2 : List GName} {inB : GName → Bool} {g : Gate} {out : List Gate}
    (h : dispatch T b2 inB g = .ok out) : ∀ x ∈ out, R g x := by
  unfold dispatch at h
  split at h
  · cases h; intro x hx; rw [List.mem_singleton.mp hx]; exact rr.refl g
  · split at h
    · cases h; intro x hx; rw [List.mem_singleton.mp hx]; exact rr.refl g
    · split at h
      · cases h; intro x hx; rw [List.mem_singleton.mp hx]; exact rr.refl g
      · cases h
      · split at h
        · cases h; intro x hx; rw [List.mem_singleton.mp hx]; exact rr.refl g
        · cases h
      · rename_i body hr
        split at h
        · rename_i gs hi; cases h; exact rr.gate g body _ hr hi
        · cases h

theorem resolveOne_rel {b2 : List GName} {inB : GName → Bool} {g0 : Gate} {p r : List Gate}
    (h : resolveOne T b2 inB g0 = .ok (p, r)) : (∀ x ∈ p, R g0 x) ∧ ∀ x ∈ r, R g0 x := by
  unfold resolveOne at h
  split at h
  · rename_i o hd
    cases h
    exact ⟨(rr.pauli g0).2, fun x hx => rr.trans _ _ _ (rr.pauli g0).1 (dispatch_rel rr hd x hx)⟩
  · cases h

theorem resolveAll_rel {b2 : List GName} {inB : GName → Bool} : ∀ {gs : List Gate} {ps rs : List Gate},
    resolveAll T b2 inB gs = .ok (ps, rs) →
    (∀ x ∈ ps, ∃ g ∈ gs, R g x) ∧ ∀ x ∈ rs, ∃ g ∈ gs, R g x := by
  intro gs
  induction gs with
  | nil => intro ps rs h; simp [resolveAll] at h; obtain ⟨rfl, rfl⟩ := h; simp
  | cons g gs ih =>
    intro ps rs h
    unfold resolveAll at h
    split at h
    · cases h
    · rename_i p r h1
      split at h
      · cases h
      · rename_i ps' rs' h2
        cases h
        obtain ⟨a1, a2⟩ := resolveOne_rel rr h1
        obtain ⟨b1, b2'⟩ := ih h2
        constructor
        · intro x hx
          rcases List.mem_append.mp hx with hx | hx
          · exact ⟨g, List.mem_cons_self .., a1 x hx⟩
          · obtain ⟨g', hg', hr⟩ := b1 x hx
            exact ⟨g', List.mem_cons_of_mem _ hg', hr⟩
        · intro x hx
          rcases List.mem_append.mp hx with hx | hx
          · exact ⟨g, List.mem_cons_self .., a2 x hx⟩
          · obtain ⟨g', hg', hr⟩ := b2' x hx
            exact ⟨g', List.mem_cons_of_mem _ hg', hr⟩

theorem basisPass_rel {y : GName} : ∀ {temp out : List Gate},
    basisPass T y temp = .ok out → ∀ x ∈ out, ∃ g ∈ temp, R g x := by
  intro temp
  induction temp with
  | nil => intro out h; simp [basisPass] at h; subst h; simp
  | cons g gs ih =>
    intro out h
    unfold basisPass at h
    split at h
    · cases h
    · rename_i rest hrest
      have hr := ih hrest
      have lift : ∀ x ∈ rest, ∃ g' ∈ g :: gs, R g' x := fun x hx => by
        obtain ⟨g', hg', h'⟩ := hr x hx
        exact ⟨g', List.mem_cons_of_mem _ hg', h'⟩
      split at h
      · cases h
        intro x hx
        rcases List.mem_cons.mp hx with rfl | hx
        · exact ⟨x, List.mem_cons_self .., rr.refl x⟩
        · exact lift x hx
      · rename_i body hsome
        split at h
        · rename_i o hi
          cases h
          intro x hx
          rcases List.mem_append.mp hx with hx | hx
          · exact ⟨g, List.mem_cons_self .., rr.basis y g body o hsome hi x hx⟩
          · exact lift x hx
        · cases h

/-- **every gate of the output of `resolve_gates` is derived from a gate of its input** -/
theorem resolve_rel {keep : Bool} {b : BasisSpec} {gs out : List Gate}
    (h : resolve T keep b gs = .ok out) : ∀ x ∈ out, ∃ g ∈ gs, R g x := by
  unfold resolve at h
  split at h
  · cases h
  · rename_i b1 b2 inB hs
    simp only at h
    split at h
    · cases h
    · rename_i markers temp hra
      obtain ⟨hm, ht⟩ := resolveAll_rel rr hra
      have stage2 : ∀ o, (match [GName.CSIGN, .ISWAP, .SQRTSWAP, .SQRTISWAP].find? b2.contains with
          | some y => match basisPass T y temp with
                      | .ok out => Except.ok (markers ++ out)
                      | .error e => .error e
          | none => .ok (if keep then markers ++ temp else temp)) = Except.ok o →
          ∀ x ∈ o, ∃ g ∈ gs, R g x := by
        intro o ho
        split at ho
        · split at ho
          · rename_i bo hbo
            cases ho
            intro x hx
            rcases List.mem_append.mp hx with hx | hx
            · exact hm x hx
            · obtain ⟨g', hg', h'⟩ := basisPass_rel rr hbo x hx
              obtain ⟨g, hg, h''⟩ := ht g' hg'
              exact ⟨g, hg, rr.trans _ _ _ h'' h'⟩
          · cases ho
        · cases ho
          intro x hx
          split at hx
          · rcases List.mem_append.mp hx with hx | hx
            · exact hm x hx
            · exact ht x hx
          · exact ht x hx
      split at h
      · cases h
      · rename_i o ho
        cases h
        have hfo := stage2 o ho
        split
        · intro x hx
          obtain ⟨g', hg', hx'⟩ := List.mem_flatMap.mp hx
          obtain ⟨g, hg, h''⟩ := hfo g' hg'
          exact ⟨g, hg, rr.trans _ _ _ h'' (rr.elim b1 g' x hx')⟩
        · exact hfo
end

/-! ## instance 1: the qubits stay (any tables) -/

/-- every qubit of `h` is a qubit of `g` -/
def StaysOn (g h : Gate) : Prop := ∀ q ∈ h.qubits, q ∈ g.qubits

theorem pauliSub_cases (g : Gate) :
    ((pauliSub g).1 = [] ∧ (pauliSub g).2 = g) ∨
    ((g.name = .X ∨ g.name = .Y ∨ g.name = .Z) ∧ (pauliSub g).1 = [⟨.GLOBALPHASE, [], [], halfPi⟩] ∧
      ∃ n, (n = GName.RX ∨ n = .RY ∨ n = .RZ) ∧ (pauliSub g).2 = ⟨n, g.targets, [], .pi8 8⟩) := by
  unfold pauliSub
  split
  · rename_i h; exact Or.inr ⟨Or.inl h, rfl, _, Or.inl rfl, rfl⟩
  · split
    · rename_i h; exact Or.inr ⟨Or.inr (Or.inl h), rfl, _, Or.inr (Or.inl rfl), rfl⟩
    · split
      · rename_i h; exact Or.inr ⟨Or.inr (Or.inr h), rfl, _, Or.inr (Or.inr rfl), rfl⟩
      · exact Or.inl ⟨rfl, rfl⟩

theorem elim1q_cases (b1 : List GName) (g : Gate) (h : Gate) (hh : h ∈ elim1q b1 g) :
    h = g ∨ ((g.name = .RX ∨ g.name = .RY ∨ g.name = .RZ) ∧
      ∃ n a, (n = GName.RX ∨ n = .RY ∨ n = .RZ) ∧ h = ⟨n, g.targets, [], a⟩) := by
  unfold elim1q at hh
  split at hh
  · rename_i hc
    refine Or.inr ⟨Or.inl hc.1, ?_⟩
    simp only [List.mem_cons, List.not_mem_nil, or_false] at hh
    rcases hh with rfl | rfl | rfl
    · exact ⟨_, _, Or.inr (Or.inl rfl), rfl⟩
    · exact ⟨_, _, Or.inr (Or.inr rfl), rfl⟩
    · exact ⟨_, _, Or.inr (Or.inl rfl), rfl⟩
  · split at hh
    · rename_i hc
      refine Or.inr ⟨Or.inr (Or.inl hc.1), ?_⟩
      simp only [List.mem_cons, List.not_mem_nil, or_false] at hh
      rcases hh with rfl | rfl | rfl
      · exact ⟨_, _, Or.inr (Or.inr rfl), rfl⟩
      · exact ⟨_, _, Or.inl rfl, rfl⟩
      · exact ⟨_, _, Or.inr (Or.inr rfl), rfl⟩
    · split at hh
      · rename_i hc
        refine Or.inr ⟨Or.inr (Or.inr hc.1), ?_⟩
        simp only [List.mem_cons, List.not_mem_nil, or_false] at hh
        rcases hh with rfl | rfl | rfl
        · exact ⟨_, _, Or.inl rfl, rfl⟩
        · exact ⟨_, _, Or.inr (Or.inl rfl), rfl⟩
        · exact ⟨_, _, Or.inl rfl, rfl⟩
      · exact Or.inl (List.mem_singleton.mp hh)

theorem staysOn_targets (g : Gate) (n : GName) (a : Ang) : StaysOn g ⟨n, g.targets, [], a⟩ := by
  intro q hq
  simp only [Gate.qubits, List.nil_append] at hq
  exact List.mem_append_right _ hq

theorem staysOn_rel (T : Tables) : RuleRel T StaysOn where
  refl := fun _ _ hq => hq
  trans := fun _ _ _ h1 h2 q hq => h1 q (h2 q hq)
  pauli := by
    intro g
    rcases pauliSub_cases g with ⟨h1, h2⟩ | ⟨_, h1, n, _, h2⟩
    · rw [h1, h2]; exact ⟨fun _ hq => hq, fun m hm => by cases hm⟩
    · rw [h1, h2]
      refine ⟨staysOn_targets g n _, ?_⟩
      intro m hm
      rw [List.mem_singleton.mp hm]
      intro q hq; simp [Gate.qubits] at hq
  gate := by
    intro g body out _ hi h hh
    obtain ⟨t, _, ht⟩ := instBody_mem hi h hh
    exact inst_stays ht
  basis := by
    intro y g body out _ hi h hh
    obtain ⟨t, _, ht⟩ := instBody_mem hi h hh
    exact inst_stays ht
  elim := by
    intro b1 g h hh
    rcases elim1q_cases b1 g h hh with rfl | ⟨_, n, a, _, rfl⟩
    · exact fun _ hq => hq
    · exact staysOn_targets g n a

/-- **decomposition stays on the qubits**: every gate of the output of `resolve_gates` acts on
qubits of one gate of the input — for any rule tables whatsoever -/
theorem resolve_stays (T : Tables) {keep : Bool} {b : BasisSpec} {gs out : List Gate}
    (h : resolve T keep b gs = .ok out) : ∀ x ∈ out, ∃ g ∈ gs, StaysOn g x :=
  resolve_rel (staysOn_rel T) h

/-! ## instance 2: shaped gates stay shaped (needs the table property) -/

/-- selector within a gate with `nc` controls and `nt` targets -/
def selOk (nc nt : Nat) : Sel → Bool
  | .t i => i < nt
  | .c i => i < nc

/-- one emitted gate of a rule for a gate of shape `(nc, nt)`: selectors in range, pairwise
distinct, and as many controls/targets as its name demands -/
def tgateOk (nc nt : Nat) (t : TGate) : Bool :=
  (t.controls ++ t.targets).all (selOk nc nt) && decide (t.controls ++ t.targets).Nodup &&
    shapeOf t.name == some (t.controls.length, t.targets.length)

/-- a rule body for gate name `n` -/
def ruleOk (n : GName) (body : List TGate) : Bool :=
  match shapeOf n with
  | some (nc, nt) => body.all (tgateOk nc nt)
  | none => false

theorem shapedB_iff (N : Nat) (g : Gate) : shapedB N g = true ↔
    shapeOf g.name = some (g.controls.length, g.targets.length) ∧ g.qubits.Nodup ∧ ∀ q ∈ g.qubits, q < N := by
  simp [shapedB, and_assoc]

theorem sel_get_some {g : Gate} {nc nt : Nat} (hc : g.controls.length = nc) (ht : g.targets.length = nt)
    {s : Sel} (hs : selOk nc nt s = true) : ∃ q, Sel.get g s = some q := by
  cases s with
  | t i =>
    have : i < g.targets.length := by simpa [selOk, ht] using hs
    exact ⟨g.targets[i], by simp [Sel.get, this]⟩
  | c i =>
    have : i < g.controls.length := by simpa [selOk, hc] using hs
    exact ⟨g.controls[i], by simp [Sel.get, this]⟩

/-- distinct valid selectors address distinct qubits of a gate on pairwise distinct qubits -/
theorem sel_inj {g : Gate} (hn : g.qubits.Nodup) {s1 s2 : Sel} {q : Nat}
    (h1 : Sel.get g s1 = some q) (h2 : Sel.get g s2 = some q) : s1 = s2 := by
  have hnd := List.nodup_append.mp hn
  cases s1 with
  | t i =>
    cases s2 with
    | t j =>
      simp only [Sel.get] at h1 h2
      have hi : i < g.targets.length := (List.getElem?_eq_some_iff.mp h1).1
      rw [(List.getElem?_inj hi hnd.2.1).mp (h1.trans h2.symm)]
    | c j =>
      exact absurd rfl (hnd.2.2 q (List.mem_of_getElem? h2) q (List.mem_of_getElem? h1))
  | c i =>
    cases s2 with
    | t j =>
      exact absurd rfl (hnd.2.2 q (List.mem_of_getElem? h1) q (List.mem_of_getElem? h2))
    | c j =>
      simp only [Sel.get] at h1 h2
      have hi : i < g.controls.length := (List.getElem?_eq_some_iff.mp h1).1
      rw [(List.getElem?_inj hi hnd.1).mp (h1.trans h2.symm)]

/-- an emitted gate of an `ok` rule on a shaped gate is shaped -/
theorem inst_shaped {N : Nat} {g : Gate} (hg : shapedB N g = true) {t : TGate}
    (hok : tgateOk g.controls.length g.targets.length t = true) {h : Gate} (hi : t.inst g = some h) :
    shapedB N h = true := by
  obtain ⟨_, hn, hr⟩ := (shapedB_iff N g).mp hg
  simp only [tgateOk, Bool.and_eq_true, decide_eq_true_eq, beq_iff_eq] at hok
  obtain ⟨⟨_, hnd⟩, hshape⟩ := hok
  obtain ⟨he, hget⟩ := inst_eq hi
  rw [shapedB_iff]
  refine ⟨by rw [he]; simpa using hshape, ?_, fun q hq => hr q (inst_stays hi q hq)⟩
  rw [inst_qubits hi]
  apply List.Nodup.map_on _ hnd
  intro s1 hs1 s2 hs2 heq
  have e1 := hget s1 hs1
  have e2 := hget s2 hs2
  rw [heq] at e1
  exact sel_inj hn e1 e2

/-- … and on a shaped gate an `ok` rule never addresses a missing qubit -/
theorem instBody_some {g : Gate} {body : List TGate}
    (hok : body.all (tgateOk g.controls.length g.targets.length) = true) :
    ∃ out, instBody g body = some out := by
  refine ⟨_, mapM_option_some (TGate.inst g) g body ?_⟩
  intro t ht
  have := (List.all_eq_true.mp hok) t ht
  simp only [tgateOk, Bool.and_eq_true, List.all_eq_true] at this
  have hall := this.1.1
  have hs : ∀ l : List Sel, (∀ s ∈ l, s ∈ t.controls ++ t.targets) →
      l.mapM (Sel.get g) = some (l.map (fun s => (Sel.get g s).getD 0)) := by
    intro l hl
    apply mapM_option_some
    intro s hs
    obtain ⟨q, hq⟩ := sel_get_some rfl rfl (hall s (hl s hs))
    simp [hq]
  unfold TGate.inst
  rw [hs t.targets (fun s h => List.mem_append_right _ h), hs t.controls (fun s h => List.mem_append_left _ h)]
  rfl

end QipVerif.Transpile
