import QipVerif.Lemmas.SimKetEmbL
import QipVerif.Lemmas.SimKetSort
/-!
# C01 — the compact product (`_mult_sublists`, `_expand_overall`, `_gate_sequence_product`)

Invariant of the loop: the block list is a list of well-formed blocks on pairwise disjoint qubit
lists whose product of placed operators is the ordered product of the gates processed so far.
-/
namespace QipVerif.SimKet
open Matrix QipVerif.Embed

/-- well-formed block on a register of `nq` qubits -/
def WFBk (nq : ℕ) (b : Block ℂ) : Prop := b.2.Nodup ∧ (∀ q ∈ b.2, q < nq) ∧ b.1.n = 2 ^ b.2.length

/-- the operator a block denotes: its matrix placed on its qubits -/
noncomputable def bden (nq : ℕ) (b : Block ℂ) : Matrix (St nq) (St nq) ℂ := embL nq b.2 b.1

def DisjB (a b : Block ℂ) : Prop := ∀ q ∈ a.2, q ∉ b.2

noncomputable def bprod (nq : ℕ) (bl : List (Block ℂ)) : Matrix (St nq) (St nq) ℂ := mprod (bl.map (bden nq))

theorem mprod_append {N : ℕ} (a b : List (Matrix (St N) (St N) ℂ)) : mprod (a ++ b) = mprod b * mprod a := by
  induction a with
  | nil => simp [mprod]
  | cons M Ms ih => simp only [List.cons_append, mprod, ih, Matrix.mul_assoc]

theorem comm_mprod {N : ℕ} (M : Matrix (St N) (St N) ℂ) (l : List (Matrix (St N) (St N) ℂ))
    (h : ∀ X ∈ l, M * X = X * M) : M * mprod l = mprod l * M := by
  induction l with
  | nil => simp [mprod]
  | cons X Xs ih =>
    simp only [mprod]
    rw [← Matrix.mul_assoc, ih (fun Y hY => h Y (by simp [hY])), Matrix.mul_assoc, h X (by simp), Matrix.mul_assoc]

theorem bden_comm (nq : ℕ) (a b : Block ℂ) (ha : WFBk nq a) (hb : WFBk nq b) (hd : DisjB a b) :
    bden nq a * bden nq b = bden nq b * bden nq a :=
  embL_comm nq a.2 b.2 ha.1 ha.2.1 hb.1 hb.2.1 hd a.1 b.1

theorem bprod_cons (nq : ℕ) (b : Block ℂ) (bl : List (Block ℂ)) : bprod nq (b :: bl) = bprod nq bl * bden nq b := rfl

theorem bprod_append (nq : ℕ) (a b : List (Block ℂ)) : bprod nq (a ++ b) = bprod nq b * bprod nq a := by
  simp only [bprod, List.map_append, mprod_append]

/-- splitting a list of pairwise disjoint blocks by a predicate does not change the product -/
theorem bprod_filter (nq : ℕ) (p : Block ℂ → Bool) (bl : List (Block ℂ)) (hw : ∀ b ∈ bl, WFBk nq b)
    (hd : bl.Pairwise DisjB) :
    bprod nq bl = bprod nq (bl.filter fun b => !p b) * bprod nq (bl.filter p) := by
  induction bl with
  | nil => simp [bprod, mprod]
  | cons b bl ih =>
    have hp := List.pairwise_cons.mp hd
    have ih' := ih (fun x hx => hw x (by simp [hx])) hp.2
    by_cases hb : p b = true
    · simp only [List.filter_cons, hb, Bool.not_true, Bool.false_eq_true, if_false, if_true, bprod_cons]
      rw [ih', Matrix.mul_assoc]
    · have hb' : p b = false := by simpa using hb
      simp only [List.filter_cons, hb', Bool.not_false, if_true, bprod_cons, Bool.false_eq_true, if_false]
      rw [ih', Matrix.mul_assoc, Matrix.mul_assoc]
      congr 1
      symm
      unfold bprod
      apply comm_mprod
      intro X hX
      obtain ⟨s, hs, rfl⟩ := List.mem_map.mp hX
      have hs' := (List.mem_filter.mp hs).1
      exact bden_comm nq b s (hw b (by simp)) (hw s (by simp [hs'])) (hp.1 s hs')

theorem flatten_mem {bl : List (Block ℂ)} {q : ℕ} : q ∈ (bl.map (·.2)).flatten ↔ ∃ b ∈ bl, q ∈ b.2 := by
  simp only [List.mem_flatten, List.mem_map]
  constructor
  · rintro ⟨l, ⟨b, hb, rfl⟩, hq⟩; exact ⟨b, hb, hq⟩
  · rintro ⟨b, hb, hq⟩; exact ⟨b.2, ⟨b, hb, rfl⟩, hq⟩

theorem flatten_nodup (bl : List (Block ℂ)) (hn : ∀ b ∈ bl, b.2.Nodup) (hd : bl.Pairwise DisjB) :
    (bl.map (·.2)).flatten.Nodup := by
  induction bl with
  | nil => simp
  | cons b bl ih =>
    have hp := List.pairwise_cons.mp hd
    simp only [List.map_cons, List.flatten_cons]
    rw [List.nodup_append]
    refine ⟨hn b (by simp), ih (fun x hx => hn x (by simp [hx])) hp.2, ?_⟩
    intro q hq q' hq' he
    subst he
    obtain ⟨b', hb', hqb'⟩ := flatten_mem.mp hq'
    exact hp.1 b' hb' q hq hqb'

/-- `tensor(blocks)` placed on the concatenated qubit lists is the product of the placed blocks -/
theorem foldl_kron_spec (nq : ℕ) (rest : List (Block ℂ)) (A0 : FMat ℂ) (l0 : List ℕ)
    (h0 : WFBk nq (A0, l0)) (hw : ∀ b ∈ rest, WFBk nq b) (hd : rest.Pairwise DisjB)
    (hd0 : ∀ b ∈ rest, ∀ q ∈ l0, q ∉ b.2) :
    ((rest.map (·.1)).foldl (FMat.kron opsC) A0).n = 2 ^ (l0 ++ (rest.map (·.2)).flatten).length ∧
    embL nq (l0 ++ (rest.map (·.2)).flatten) ((rest.map (·.1)).foldl (FMat.kron opsC) A0) =
      bprod nq rest * embL nq l0 A0 := by
  induction rest generalizing A0 l0 with
  | nil =>
    have := h0.2.2
    simp only [] at this
    simp [bprod, mprod, this]
  | cons b rest ih =>
    have hp := List.pairwise_cons.mp hd
    have hb := hw b (by simp)
    have hdb : ∀ q ∈ l0, q ∉ b.2 := hd0 b (by simp)
    have h0' : WFBk nq (FMat.kron opsC A0 b.1, l0 ++ b.2) := by
      refine ⟨?_, ?_, ?_⟩
      · rw [List.nodup_append]
        exact ⟨h0.1, hb.1, fun q hq q' hq' he => hdb q hq (he ▸ hq')⟩
      · intro q hq
        rcases List.mem_append.mp hq with h | h
        · exact h0.2.1 q h
        · exact hb.2.1 q h
      · show A0.n * b.1.n = _
        rw [h0.2.2, hb.2.2, List.length_append, Nat.pow_add]
    obtain ⟨i1, i2⟩ := ih (FMat.kron opsC A0 b.1) (l0 ++ b.2) h0' (fun x hx => hw x (by simp [hx])) hp.2
      (by
        intro b' hb' q hq
        rcases List.mem_append.mp hq with h | h
        · exact hd0 b' (by simp [hb']) q h
        · exact hp.1 b' hb' q h)
    simp only [List.map_cons, List.flatten_cons, List.foldl_cons, ← List.append_assoc]
    refine ⟨i1, ?_⟩
    rw [i2, embL_kron nq l0 b.2 h0.1 h0.2.1 hb.1 hb.2.1 hdb A0 b.1 hb.2.2, bprod_cons, Matrix.mul_assoc]
    congr 1
    exact embL_comm nq l0 b.2 h0.1 h0.2.1 hb.1 hb.2.1 hdb A0 b.1

theorem tensorL_spec (nq : ℕ) (bl : List (Block ℂ)) (hw : ∀ b ∈ bl, WFBk nq b) (hd : bl.Pairwise DisjB) :
    (tensorL opsC (bl.map (·.1))).n = 2 ^ ((bl.map (·.2)).flatten).length ∧
    embL nq (bl.map (·.2)).flatten (tensorL opsC (bl.map (·.1))) = bprod nq bl := by
  cases bl with
  | nil => exact ⟨rfl, by simpa [bprod, mprod, tensorL] using embL_nil_ident nq⟩
  | cons b bl =>
    have hp := List.pairwise_cons.mp hd
    obtain ⟨h1, h2⟩ := foldl_kron_spec nq bl b.1 b.2 (hw b (by simp)) (fun x hx => hw x (by simp [hx])) hp.2
      (fun b' hb' q hq => hp.1 b' hb' q hq)
    exact ⟨h1, by rw [bprod_cons]; exact h2⟩


theorem disjB_symm : ∀ {a b : Block ℂ}, DisjB a b → DisjB b a :=
  fun h q hq hq' => h q hq' hq

theorem idxOf_inj_of_mem {l : List ℕ} {x y : ℕ} (hx : x ∈ l) (hy : y ∈ l) (h : l.idxOf x = l.idxOf y) : x = y := by
  have e1 := List.getElem_idxOf (List.idxOf_lt_length_of_mem hx)
  have e2 := List.getElem_idxOf (List.idxOf_lt_length_of_mem hy)
  simp only [h] at e1
  exact e1.symm.trans e2

theorem map_getD_idxOf (r l : List ℕ) (h : ∀ q ∈ l, q ∈ r) :
    (l.map fun q => r.idxOf q).map (fun p => r.getD p 0) = l := by
  rw [List.map_map]
  conv_rhs => rw [← List.map_id l]
  apply List.map_congr_left
  intro q hq
  have := List.idxOf_lt_length_of_mem (h q hq)
  simp [Function.comp, List.getD_eq_getElem?_getD, List.getElem?_eq_getElem this]

theorem nodup_map_idxOf (r l : List ℕ) (hl : l.Nodup) (h : ∀ q ∈ l, q ∈ r) : (l.map fun q => r.idxOf q).Nodup :=
  List.Nodup.map_on (fun x hx y hy e => idxOf_inj_of_mem (h x hx) (h y hy) e) hl

/-- **`_mult_sublists` with the sorting oracle** keeps the invariant and multiplies the product of the
blocks by the new gate. -/
theorem multSublists_spec (nq : ℕ) (bl : List (Block ℂ)) (hw : ∀ b ∈ bl, WFBk nq b) (hd : bl.Pairwise DisjB)
    (U : FMat ℂ) (inds : List ℕ) (hg : WFBk nq (U, inds)) :
    ∃ bl', multSublists opsC ordSorted bl U inds = .ok bl' ∧ (∀ b ∈ bl', WFBk nq b) ∧ bl'.Pairwise DisjB ∧
      bprod nq bl' = embL nq inds U * bprod nq bl ∧
      (∀ q, q ∈ (bl'.map (·.2)).flatten ↔ q ∈ (bl.map (·.2)).flatten ∨ q ∈ inds) := by
  -- names for the intermediate values of the code
  let sel := bl.filter (hits inds)
  let rest := bl.filter (fun b => !hits inds b)
  let indsSub := (sel.map (·.2)).flatten
  let Usub := tensorL opsC (sel.map (·.1))
  let revised := sortDedup (indsSub ++ inds)
  have hselw : ∀ b ∈ sel, WFBk nq b := fun b hb => hw b (List.mem_filter.mp hb).1
  have hrestw : ∀ b ∈ rest, WFBk nq b := fun b hb => hw b (List.mem_filter.mp hb).1
  have hseld : sel.Pairwise DisjB := hd.sublist List.filter_sublist
  have hrestd : rest.Pairwise DisjB := hd.sublist List.filter_sublist
  have hsubn : indsSub.Nodup := flatten_nodup sel (fun b hb => (hselw b hb).1) hseld
  have hsubr : ∀ q ∈ indsSub, q < nq := by
    intro q hq
    obtain ⟨b, hb, hqb⟩ := flatten_mem.mp hq
    exact (hselw b hb).2.1 q hqb
  have hrn : revised.Nodup := sortDedup_nodup _
  have hrs : revised.Pairwise (· < ·) := sortDedup_sorted _
  have hrm : ∀ q, q ∈ revised ↔ q ∈ indsSub ∨ q ∈ inds := by
    intro q; rw [mem_sortDedup, List.mem_append]
  have hrr : ∀ q ∈ revised, q < nq := by
    intro q hq
    rcases (hrm q).mp hq with h | h
    · exact hsubr q h
    · exact hg.2.1 q h
  -- the index map is the rank (here: the position in the sorted list)
  have hsp : sortKey (fun p => revised.getD p 0) (List.range revised.length) = List.range revised.length :=
    argsort_sorted revised hrs
  have hmap : ∀ l : List ℕ, (∀ q ∈ l, q ∈ revised) →
      l.map (fun q => (sortKey (fun p => revised.getD p 0) (List.range revised.length)).getD (revised.idxOf q) 0) =
        l.map (fun q => revised.idxOf q) := by
    intro l hl
    apply List.map_congr_left
    intro q hq
    have := List.idxOf_lt_length_of_mem (hl q hq)
    rw [hsp, List.getD_eq_getElem?_getD, List.getElem?_range this, Option.getD_some]
  have hsubm : ∀ q ∈ indsSub, q ∈ revised := fun q hq => (hrm q).mpr (Or.inl hq)
  have hindm : ∀ q ∈ inds, q ∈ revised := fun q hq => (hrm q).mpr (Or.inr hq)
  obtain ⟨Es, hEs, hEsn, hEsm⟩ := embL_expandV nq revised hrn hrr (indsSub.map fun q => revised.idxOf q)
    (nodup_map_idxOf revised indsSub hsubn hsubm)
    (by intro p hp; obtain ⟨q, hq, rfl⟩ := List.mem_map.mp hp; exact List.idxOf_lt_length_of_mem (hsubm q hq))
    indsSub.length (by simp) Usub
  obtain ⟨Eu, hEu, hEun, hEum⟩ := embL_expandV nq revised hrn hrr (inds.map fun q => revised.idxOf q)
    (nodup_map_idxOf revised inds hg.1 hindm)
    (by intro p hp; obtain ⟨q, hq, rfl⟩ := List.mem_map.mp hp; exact List.idxOf_lt_length_of_mem (hindm q hq))
    inds.length (by simp) U
  rw [map_getD_idxOf revised indsSub hsubm] at hEsm
  rw [map_getD_idxOf revised inds hindm] at hEum
  have hres : multSublists opsC ordSorted bl U inds = .ok (rest ++ [(FMat.mulF opsC Eu Es, revised)]) := by
    simp only [multSublists, ordSorted]
    rw [hmap indsSub hsubm, hmap inds hindm, hEs, hEu]
  refine ⟨_, hres, ?_, ?_, ?_, ?_⟩
  · intro b hb
    rcases List.mem_append.mp hb with h | h
    · exact hrestw b h
    · have : b = (FMat.mulF opsC Eu Es, revised) := by simpa using h
      subst this
      exact ⟨hrn, hrr, by simpa using hEun⟩
  · rw [List.pairwise_append]
    refine ⟨hrestd, by simp, ?_⟩
    intro r hr b hb
    have : b = (FMat.mulF opsC Eu Es, revised) := by simpa using hb
    subst this
    intro q hq hq'
    have hrbl := (List.mem_filter.mp hr).1
    have hrh : hits inds r = false := by simpa using (List.mem_filter.mp hr).2
    rcases (hrm q).mp hq' with h | h
    · obtain ⟨s, hs, hqs⟩ := flatten_mem.mp h
      have hsbl := (List.mem_filter.mp hs).1
      have hsh : hits inds s = true := (List.mem_filter.mp hs).2
      have hne : r ≠ s := fun e => by rw [e, hsh] at hrh; cases hrh
      have : Std.Symm (DisjB) := ⟨fun _ _ h => disjB_symm h⟩
      exact hd.forall hrbl hsbl hne q hq hqs
    · have : hits inds r = true := by
        simp only [hits, List.any_eq_true]
        exact ⟨q, hq, by simpa using h⟩
      rw [this] at hrh; cases hrh
  · rw [bprod_append]
    have hnew : bprod nq [(FMat.mulF opsC Eu Es, revised)] = embL nq inds U * bprod nq sel := by
      simp only [bprod, List.map_cons, List.map_nil, mprod, Matrix.one_mul, bden]
      rw [embL_mulF nq revised hrn hrr Eu Es hEun hEsn, hEum, hEsm]
      congr 1
      exact (tensorL_spec nq sel hselw hseld).2
    have hsplit : bprod nq bl = bprod nq sel * bprod nq rest := by
      have := bprod_filter nq (fun b => !hits inds b) bl hw hd
      simpa only [Bool.not_not] using this
    rw [hnew, hsplit, Matrix.mul_assoc]
  · intro q
    have e1 : q ∈ ((rest ++ [(FMat.mulF opsC Eu Es, revised)]).map (·.2)).flatten ↔
        (∃ b ∈ rest, q ∈ b.2) ∨ q ∈ revised := by
      rw [flatten_mem]
      constructor
      · rintro ⟨b, hb, hq⟩
        rcases List.mem_append.mp hb with h | h
        · exact Or.inl ⟨b, h, hq⟩
        · have : b = (FMat.mulF opsC Eu Es, revised) := by simpa using h
          subst this
          exact Or.inr hq
      · rintro (⟨b, hb, hq⟩ | h)
        · exact ⟨b, List.mem_append_left _ hb, hq⟩
        · exact ⟨(FMat.mulF opsC Eu Es, revised), List.mem_append_right _ (by simp), h⟩
    have e2 : q ∈ indsSub ↔ ∃ b ∈ sel, q ∈ b.2 := flatten_mem
    have e3 : q ∈ (bl.map (·.2)).flatten ↔ ∃ b ∈ bl, q ∈ b.2 := flatten_mem
    rw [e1, hrm, e2, e3]
    constructor
    · rintro (⟨b, hb, hq⟩ | ⟨b, hb, hq⟩ | h)
      · exact Or.inl ⟨b, (List.mem_filter.mp hb).1, hq⟩
      · exact Or.inl ⟨b, (List.mem_filter.mp hb).1, hq⟩
      · exact Or.inr h
    · rintro (⟨b, hb, hq⟩ | h)
      · by_cases hh : hits inds b = true
        · exact Or.inr (Or.inl ⟨b, List.mem_filter.mpr ⟨hb, hh⟩, hq⟩)
        · exact Or.inl ⟨b, List.mem_filter.mpr ⟨hb, by simpa using hh⟩, hq⟩
      · exact Or.inr (Or.inr h)


/-- `_expand_overall` on a block list that covers the whole register -/
theorem expandOverall_spec (nq : ℕ) (bl : List (Block ℂ)) (hw : ∀ b ∈ bl, WFBk nq b) (hd : bl.Pairwise DisjB)
    (hc : ∀ q, q < nq → q ∈ (bl.map (·.2)).flatten) :
    ∃ E, expandOverall opsC bl = .ok (E, List.range nq) ∧ E.n = 2 ^ nq ∧ matOf nq E = bprod nq bl := by
  have hn : ((bl.map (·.2)).flatten).Nodup := flatten_nodup bl (fun b hb => (hw b hb).1) hd
  have hr : ∀ q ∈ (bl.map (·.2)).flatten, q < nq := by
    intro q hq
    obtain ⟨b, hb, hqb⟩ := flatten_mem.mp hq
    exact (hw b hb).2.1 q hqb
  have hperm := perm_range_of_cover _ nq hn hr hc
  have hlen : ((bl.map (·.2)).flatten).length = nq := by simpa using hperm.length_eq
  obtain ⟨E, hE, hEn, hEm⟩ := matOf_expandV_embL nq _ hn hr nq hlen.symm (tensorL opsC (bl.map (·.1)))
  refine ⟨E, ?_, hEn, ?_⟩
  · simp only [expandOverall]
    rw [hlen, hE, sortKey_id_of_perm_range _ nq hperm]
  · rw [hEm, (tensorL_spec nq bl hw hd).2]

theorem range_map_getD (l : List ℕ) : (List.range l.length).map (fun i => l.getD i 0) = l := by
  apply List.ext_getElem
  · simp
  · intro i h1 h2
    simp [List.getD_eq_getElem?_getD, List.getElem?_eq_getElem h2]

/-- one iteration of the loop when the single-full-block test fails and the gate touches a block -/
theorem gspLoop_step_mult (nq : ℕ) (sortedInds : List ℕ) (rec : List (Block ℂ) → Except Err (Block ℂ))
    (bl : List (Block ℂ)) (U : FMat ℂ) (inds : List ℕ) (rest bl' : List (Block ℂ))
    (hnf : ¬ ∃ b, bl = [b] ∧ b.2.length = nq)
    (hany : ((bl.map (·.2)).flatten.any fun q => inds.contains q) = true)
    (hms : multSublists opsC ordSorted bl U inds = .ok bl') :
    gspLoop opsC ordSorted rec nq sortedInds (some bl) ((U, inds) :: rest) =
      gspLoop opsC ordSorted rec nq sortedInds (some bl') rest := by
  match bl, hnf, hany, hms with
  | [], _, hany, hms => simp only [gspLoop, Bool.false_eq_true, if_false, hany, if_true, hms]
  | [b], h, hany, hms =>
    have : (b.2.length == nq) = false := by
      have : ¬ b.2.length = nq := fun e => h ⟨b, rfl, e⟩
      simpa using this
    simp only [gspLoop, this, Bool.false_eq_true, if_false, hany, if_true, hms]
  | _ :: _ :: _, _, hany, hms => simp only [gspLoop, Bool.false_eq_true, if_false, hany, if_true, hms]

/-- … and when it touches none -/
theorem gspLoop_step_append (nq : ℕ) (sortedInds : List ℕ) (rec : List (Block ℂ) → Except Err (Block ℂ))
    (bl : List (Block ℂ)) (U : FMat ℂ) (inds : List ℕ) (rest : List (Block ℂ))
    (hnf : ¬ ∃ b, bl = [b] ∧ b.2.length = nq)
    (hany : ((bl.map (·.2)).flatten.any fun q => inds.contains q) = false) :
    gspLoop opsC ordSorted rec nq sortedInds (some bl) ((U, inds) :: rest) =
      gspLoop opsC ordSorted rec nq sortedInds (some (bl ++ [(U, inds)])) rest := by
  match bl, hnf, hany with
  | [], _, hany => simp only [gspLoop, Bool.false_eq_true, if_false, hany]
  | [b], h, hany =>
    have : (b.2.length == nq) = false := by
      have : ¬ b.2.length = nq := fun e => h ⟨b, rfl, e⟩
      simpa using this
    simp only [gspLoop, this, Bool.false_eq_true, if_false, hany]
  | _ :: _ :: _, _, hany => simp only [gspLoop, Bool.false_eq_true, if_false, hany]

/-- the invariant of the loop of `_gate_sequence_product` -/
def LoopInv (nq : ℕ) (st : Option (List (Block ℂ))) (done : List (Block ℂ)) : Prop :=
  match st with
  | none => done = []
  | some bl => done ≠ [] ∧ (∀ b ∈ bl, WFBk nq b) ∧ bl.Pairwise DisjB ∧
      bprod nq bl = mprod (done.map (bden nq)) ∧
      ∀ q, q ∈ (bl.map (·.2)).flatten ↔ q ∈ (done.map (·.2)).flatten

/-- what the recursive call is assumed to deliver on lists of at most `K` gates -/
def RecSpec (nq K : ℕ) (rec : List (Block ℂ) → Except Err (Block ℂ)) : Prop :=
  ∀ s : List (Block ℂ), s ≠ [] → (∀ g ∈ s, WFBk nq g) → s.length ≤ K →
    ∃ R, rec s = .ok (R, sortDedup (s.map (·.2)).flatten) ∧
      R.n = 2 ^ (sortDedup (s.map (·.2)).flatten).length ∧
      embL nq (sortDedup (s.map (·.2)).flatten) R = mprod (s.map (bden nq))

theorem gspLoop_spec (nq K : ℕ) (sortedInds : List ℕ) (rec : List (Block ℂ) → Except Err (Block ℂ))
    (Hrec : RecSpec nq K rec) (rem : List (Block ℂ)) :
    ∀ (done : List (Block ℂ)) (st : Option (List (Block ℂ))),
      done.length + rem.length ≤ K + 1 → (∀ g ∈ rem, WFBk nq g) →
      (∀ q, q < nq → q ∈ (done.map (·.2)).flatten ∨ q ∈ (rem.map (·.2)).flatten) →
      LoopInv nq st done → (done ≠ [] ∨ rem ≠ []) →
      ∃ R, gspLoop opsC ordSorted rec nq sortedInds st rem =
          .ok (R, (List.range nq).map fun i => sortedInds.getD i 0) ∧ R.n = 2 ^ nq ∧
        matOf nq R = mprod ((done ++ rem).map (bden nq)) := by
  induction rem with
  | nil =>
    intro done st _ _ hc hinv hne
    cases st with
    | none =>
      simp only [LoopInv] at hinv
      rcases hne with h | h
      · exact absurd hinv h
      · exact absurd rfl h
    | some bl =>
      obtain ⟨_, hw, hd, hp, hm⟩ := hinv
      obtain ⟨E, hE, hEn, hEm⟩ := expandOverall_spec nq bl hw hd (by
        intro q hq
        rcases hc q hq with h | h
        · exact (hm q).mpr h
        · simp at h)
      refine ⟨E, by simp only [gspLoop, hE], hEn, ?_⟩
      rw [hEm, hp, List.append_nil]
  | cons g rest ih =>
    intro done st hK hwr hc hinv _
    obtain ⟨U, inds⟩ := g
    have hg : WFBk nq (U, inds) := hwr _ (by simp)
    have hwrest : ∀ g ∈ rest, WFBk nq g := fun x hx => hwr x (by simp [hx])
    -- continuing with the rest after the gate has been absorbed into the block list `bl'`
    have cont : ∀ bl' : List (Block ℂ), LoopInv nq (some bl') (done ++ [(U, inds)]) →
        ∃ R, gspLoop opsC ordSorted rec nq sortedInds (some bl') rest =
          .ok (R, (List.range nq).map fun i => sortedInds.getD i 0) ∧ R.n = 2 ^ nq ∧
        matOf nq R = mprod ((done ++ (U, inds) :: rest).map (bden nq)) := by
      intro bl' hinv'
      have := ih (done ++ [(U, inds)]) (some bl') (by simp at hK ⊢; omega) hwrest (by
        intro q hq
        rcases hc q hq with h | h
        · left; simp only [List.map_append, List.flatten_append, List.mem_append]; exact Or.inl h
        · simp only [List.map_cons, List.flatten_cons, List.mem_append] at h
          rcases h with h | h
          · left; simp only [List.map_append, List.flatten_append, List.mem_append, List.map_cons,
              List.map_nil, List.flatten_cons, List.flatten_nil, List.append_nil]; exact Or.inr h
          · exact Or.inr h) hinv' (Or.inl (by simp))
      simpa only [List.append_assoc, List.singleton_append] using this
    cases st with
    | none =>
      simp only [LoopInv] at hinv
      subst hinv
      have h1 : gspLoop opsC ordSorted rec nq sortedInds none ((U, inds) :: rest) =
          gspLoop opsC ordSorted rec nq sortedInds (some [(U, inds)]) rest := by
        simp only [gspLoop]; rfl
      rw [h1]
      exact cont [(U, inds)] ⟨by simp, by intro b hb; simpa using (by simpa using hb : b = (U, inds)) ▸ hg,
        by simp, rfl, fun q => Iff.rfl⟩
    | some bl =>
      obtain ⟨hdne, hw, hd, hp, hm⟩ := hinv
      by_cases hfull : ∃ b, bl = [b] ∧ b.2.length = nq
      · -- the single block covers the register: expand it, recurse on the remaining gates
        obtain ⟨b, rfl, hbl⟩ := hfull
        have hb : WFBk nq b := hw b (by simp)
        have hcov : ∀ q, q < nq → q ∈ ([b].map (·.2)).flatten := by
          intro q hq
          have := (perm_range_of_length b.2 nq hb.1 hb.2.1 hbl).mem_iff (a := q)
          simpa using this.mpr (List.mem_range.mpr hq)
        obtain ⟨Uo, hUo, hUon, hUom⟩ := expandOverall_spec nq [b] hw hd hcov
        obtain ⟨Ul, hUl, hUln, hUlm⟩ := Hrec ((U, inds) :: rest) (by simp) hwr (by
          have : 0 < done.length := List.length_pos_iff.mpr hdne
          simp at hK; simp; omega)
        have hsr : ∀ q ∈ sortDedup (((U, inds) :: rest).map (·.2)).flatten, q < nq := by
          intro q hq
          rw [mem_sortDedup] at hq
          obtain ⟨g, hg', hqg⟩ := flatten_mem.mp hq
          exact (hwr g hg').2.1 q hqg
        obtain ⟨El, hEl, hEln, hElm⟩ := matOf_expandV_embL nq _ (sortDedup_nodup _) hsr _ rfl Ul
        refine ⟨FMat.mulF opsC El Uo, ?_, by simpa using hEln, ?_⟩
        · have hf : (b.2.length == nq) = true := by simpa using hbl
          simp only [gspLoop, hf, if_true, Option.getD_some, hUo, hUl, hEl]
        · rw [matOf_mulF nq _ _ hEln hUon, hElm, hUlm, hUom, hp, List.map_append, mprod_append]
      · -- ordinary step
        by_cases hany : ((bl.map (·.2)).flatten.any fun q => inds.contains q) = true
        · obtain ⟨bl', hms, hw', hd', hp', hm'⟩ := multSublists_spec nq bl hw hd U inds hg
          have h1 : gspLoop opsC ordSorted rec nq sortedInds (some bl) ((U, inds) :: rest) =
              gspLoop opsC ordSorted rec nq sortedInds (some bl') rest := by
            exact gspLoop_step_mult nq sortedInds rec bl U inds rest bl' hfull hany hms
          rw [h1]
          apply cont
          refine ⟨by simp, hw', hd', ?_, ?_⟩
          · rw [hp', hp, List.map_append, mprod_append]
            simp [mprod, bden]
          · intro q
            rw [hm' q, hm q]
            simp [List.mem_append, or_comm]
        · have hany' : ((bl.map (·.2)).flatten.any fun q => inds.contains q) = false := by simpa using hany
          have h1 : gspLoop opsC ordSorted rec nq sortedInds (some bl) ((U, inds) :: rest) =
              gspLoop opsC ordSorted rec nq sortedInds (some (bl ++ [(U, inds)])) rest := by
            exact gspLoop_step_append nq sortedInds rec bl U inds rest hfull hany'
          rw [h1]
          apply cont
          have hdis : ∀ b ∈ bl, DisjB b (U, inds) := by
            intro b hb q hq hq'
            have : ((bl.map (·.2)).flatten.any fun q => inds.contains q) = true := by
              rw [List.any_eq_true]
              exact ⟨q, flatten_mem.mpr ⟨b, hb, hq⟩, by simpa using hq'⟩
            rw [this] at hany'; cases hany'
          refine ⟨by simp, ?_, ?_, ?_, ?_⟩
          · intro b hb
            rcases List.mem_append.mp hb with h | h
            · exact hw b h
            · have : b = (U, inds) := by simpa using h
              exact this ▸ hg
          · rw [List.pairwise_append]
            refine ⟨hd, by simp, ?_⟩
            intro b hb c hc
            have : c = (U, inds) := by simpa using hc
            exact this ▸ hdis b hb
          · rw [bprod_append, hp, List.map_append, mprod_append]
            simp [bprod, mprod]
          · intro q
            simp only [List.map_append, List.flatten_append, List.mem_append, hm q]


theorem embed_mprod {k N : ℕ} (t : Tg k N) (l : List (Matrix (St k) (St k) ℂ)) :
    t.embed (mprod l) = mprod (l.map t.embed) := by
  induction l with
  | nil => simp [mprod, Tg.embed_one]
  | cons M Ms ih => simp only [mprod, List.map_cons, Tg.embed_mul, ih]

/-- renumbering the qubits of a gate by their rank in `sorted` and placing the register on `sorted`
gives back the gate on its original qubits -/
theorem embed_bden_renumber (N : ℕ) (sorted : List ℕ) (hsn : sorted.Nodup) (hsr : ∀ q ∈ sorted, q < N)
    (U : FMat ℂ) (inds : List ℕ) (hn : inds.Nodup) (hm : ∀ q ∈ inds, q ∈ sorted) :
    (tgOfList N sorted hsn hsr).embed (embL sorted.length (inds.map fun q => sorted.idxOf q) U) = embL N inds U := by
  have hn' := nodup_map_idxOf sorted inds hn hm
  have hr' : ∀ p ∈ inds.map (fun q => sorted.idxOf q), p < sorted.length := by
    intro p hp
    obtain ⟨q, hq, rfl⟩ := List.mem_map.mp hp
    exact List.idxOf_lt_length_of_mem (hm q hq)
  rw [embL_eq_embed sorted.length _ hn' hr', Tg.embed_comp]
  apply embed_eq_embL _ inds (by simp)
  intro j
  have hj : j.val < inds.length := by simpa using j.isLt
  have hq : inds[j.val] ∈ sorted := hm _ (List.getElem_mem hj)
  simp only [Tg.comp, Function.comp, tgOfList, List.getElem_map]
  rw [List.getElem_idxOf (List.idxOf_lt_length_of_mem hq), List.getD_eq_getElem?_getD,
    List.getElem?_eq_getElem hj, Option.getD_some]

/-- **`_gate_sequence_product` with the sorting oracle**, for every register size, every list of
well-formed (matrix, qubit list) gates and every sufficient recursion budget. -/
theorem gsp_spec (fuel : ℕ) : ∀ (N : ℕ) (gates : List (Block ℂ)), gates ≠ [] → (∀ g ∈ gates, WFBk N g) →
    gates.length < fuel →
    ∃ R, gsp opsC ordSorted fuel gates = .ok (R, sortDedup (gates.map (·.2)).flatten) ∧
      R.n = 2 ^ (sortDedup (gates.map (·.2)).flatten).length ∧
      embL N (sortDedup (gates.map (·.2)).flatten) R = mprod (gates.map (bden N)) := by
  induction fuel with
  | zero => intro N gates _ _ h; omega
  | succ fuel ih =>
    intro N gates hne hw hlen
    have hsn : (sortDedup (gates.map (·.2)).flatten).Nodup := sortDedup_nodup _
    have hsm : ∀ g ∈ gates, ∀ q ∈ g.2, q ∈ sortDedup (gates.map (·.2)).flatten := by
      intro g hg q hq
      rw [mem_sortDedup]
      exact flatten_mem.mpr ⟨g, hg, hq⟩
    have hsr : ∀ q ∈ sortDedup (gates.map (·.2)).flatten, q < N := by
      intro q hq
      rw [mem_sortDedup] at hq
      obtain ⟨g, hg, hqg⟩ := flatten_mem.mp hq
      exact (hw g hg).2.1 q hqg
    have Hrec : RecSpec (sortDedup (gates.map (·.2)).flatten).length (gates.length - 1) (gsp opsC ordSorted fuel) :=
      fun s hs hsw hsl => ih _ s hs hsw (by
        have : 0 < gates.length := List.length_pos_iff.mpr hne
        omega)
    have hw' : ∀ g ∈ gates.map (fun g => (g.1, g.2.map fun q => (sortDedup (gates.map (·.2)).flatten).idxOf q)),
        WFBk (sortDedup (gates.map (·.2)).flatten).length g := by
      intro g' hg'
      obtain ⟨g, hg, rfl⟩ := List.mem_map.mp hg'
      refine ⟨nodup_map_idxOf _ g.2 (hw g hg).1 (hsm g hg), ?_, by simpa using (hw g hg).2.2⟩
      intro p hp
      obtain ⟨q, hq, rfl⟩ := List.mem_map.mp hp
      exact List.idxOf_lt_length_of_mem (hsm g hg q hq)
    obtain ⟨R, hR, hRn, hRm⟩ := gspLoop_spec _ (gates.length - 1) (sortDedup (gates.map (·.2)).flatten)
      (gsp opsC ordSorted fuel) Hrec _ [] none
      (by
        have : 0 < gates.length := List.length_pos_iff.mpr hne
        simp; omega) hw'
      (by
        intro q hq
        right
        have hmem : (sortDedup (gates.map (·.2)).flatten)[q] ∈ (gates.map (·.2)).flatten :=
          mem_sortDedup.mp (List.getElem_mem hq)
        obtain ⟨g, hg, hqg⟩ := flatten_mem.mp hmem
        apply flatten_mem.mpr
        refine ⟨_, List.mem_map.mpr ⟨g, hg, rfl⟩, ?_⟩
        simp only [List.mem_map]
        exact ⟨_, hqg, hsn.idxOf_getElem q hq⟩)
      rfl (Or.inr (by simpa using hne))
    refine ⟨R, ?_, hRn, ?_⟩
    · have : gsp opsC ordSorted (fuel + 1) gates =
          gspLoop opsC ordSorted (gsp opsC ordSorted fuel) (sortDedup (gates.map (·.2)).flatten).length
            (sortDedup (gates.map (·.2)).flatten) none
            (gates.map fun g => (g.1, g.2.map fun q => (sortDedup (gates.map (·.2)).flatten).idxOf q)) := rfl
      rw [this, hR, range_map_getD]
    · rw [embL_eq_embed N _ hsn hsr, hRm, embed_mprod, List.nil_append, List.map_map, List.map_map]
      congr 1
      apply List.map_congr_left
      intro g hg
      simp only [Function.comp, bden]
      exact embed_bden_renumber N _ hsn hsr g.1 g.2 (hw g hg).1 (hsm g hg)

/-- the compact product of a non-empty list of well-formed gates, with the sorting oracle -/
theorem compactProduct_spec (N : ℕ) (gates : List (Block ℂ)) (hne : gates ≠ []) (hw : ∀ g ∈ gates, WFBk N g) :
    ∃ R, compactProduct opsC ordSorted gates = .ok (R, sortDedup (gates.map (·.2)).flatten) ∧
      R.n = 2 ^ (sortDedup (gates.map (·.2)).flatten).length ∧
      embL N (sortDedup (gates.map (·.2)).flatten) R = mprod (gates.map (bden N)) :=
  gsp_spec (gates.length + 1) N gates hne hw (Nat.lt_succ_self _)


/-! ## The blocks of a circuit (`propagators(expand=False)` with the gates' qubit lists) -/

/-- the (matrix, qubit list) block of a step; GLOBALPHASE is the full-register scalar matrix on all qubits -/
noncomputable def opBlock (N : ℕ) : Op ℂ → Block ℂ
  | .phase c => (FMat.smul opsC c (FMat.ident opsC (2 ^ N)), List.range N)
  | .gate qs m U => (FMat.ofRows opsC (2 ^ m) U, qs)

theorem encL_range {N : ℕ} (x : St N) : encL (List.range N) x = enc x := by
  have : (List.range N).map (fun q => (bitsL x).getD q 0) = bitsL x := by
    apply List.ext_getElem
    · simp
    · intro i h1 h2
      have hi : i < N := by simpa using h2
      simp [List.getD_eq_getElem?_getD, List.getElem?_eq_getElem (show i < (bitsL x).length by simpa using hi)]
  simp only [encL, enc, this, List.length_range]

theorem bden_opBlock (N : ℕ) (op : Op ℂ) (hw : WFOp N op) : bden N (opBlock N op) = (toPGate N op).den := by
  cases op with
  | phase c =>
    rw [toPGate_phase_den]
    ext x y
    have hc : ∀ i : Fin N, i.val ∉ (opBlock N (.phase c)).2 → x i = y i :=
      fun i hi => absurd (List.mem_range.mpr i.isLt) hi
    simp only [bden, embL]
    rw [if_pos hc]
    simp only [opBlock, encL_range, FMat.smul, FMat.ident, Matrix.smul_apply, Matrix.one_apply]
    by_cases h : x = y
    · subst h; simp [opsC]
    · have : enc x ≠ enc y := fun e => h (enc_inj e)
      simp [h, this, opsC]
  | gate qs m U =>
    obtain ⟨hn, hr, hm, hU⟩ := hw
    subst hm
    simp only [bden, opBlock]
    rw [embL_eq_embed N qs hn hr, matOf_ofRows_eq_gateMat _ U hU, toPGate_gate_den N qs qs.length U hn hr]

theorem wfbk_opBlock (N : ℕ) (op : Op ℂ) (hw : WFOp N op) : WFBk N (opBlock N op) := by
  cases op with
  | phase c => exact ⟨List.nodup_range, fun q hq => List.mem_range.mp hq, by simp [opBlock, FMat.smul, FMat.ident]⟩
  | gate qs m U =>
    obtain ⟨hn, hr, hm, _⟩ := hw
    subst hm
    exact ⟨hn, hr, rfl⟩

/-- the compact product of a circuit's blocks is the ordered product of the circuit -/
theorem compact_circuit (N : ℕ) (ops : List (Op ℂ)) (hne : ops ≠ []) (hw : ∀ op ∈ ops, WFOp N op) :
    ∃ R, compactProduct opsC ordSorted (ops.map (opBlock N)) =
        .ok (R, sortDedup ((ops.map (opBlock N)).map (·.2)).flatten) ∧
      embL N (sortDedup ((ops.map (opBlock N)).map (·.2)).flatten) R = denP (ops.map (toPGate N)) := by
  obtain ⟨R, h1, _, h3⟩ := compactProduct_spec N (ops.map (opBlock N)) (by simpa using hne) (by
    intro g hg
    obtain ⟨op, hop, rfl⟩ := List.mem_map.mp hg
    exact wfbk_opBlock N op (hw op hop))
  refine ⟨R, h1, ?_⟩
  rw [h3, denP_eq_mprod, List.map_map, List.map_map]
  congr 1
  apply List.map_congr_left
  intro op hop
  exact bden_opBlock N op (hw op hop)

/-- both oracles are legal answers of `list(set(a).union(set(b)))`: duplicate-free, same elements -/
theorem ordSorted_legal (a b : List ℕ) : (ordSorted a b).Nodup ∧ ∀ x, x ∈ ordSorted a b ↔ x ∈ a ∨ x ∈ b :=
  ⟨sortDedup_nodup _, fun x => by rw [ordSorted, mem_sortDedup, List.mem_append]⟩

theorem ordRev_legal (a b : List ℕ) : (ordRev a b).Nodup ∧ ∀ x, x ∈ ordRev a b ↔ x ∈ a ∨ x ∈ b :=
  ⟨List.nodup_reverse.mpr (sortDedup_nodup _), fun x => by rw [ordRev, List.mem_reverse, mem_sortDedup, List.mem_append]⟩

end QipVerif.SimKet
