import QipVerif.Lemmas.ConcatCont
/-! Point-level meaning of *every* compiled channel, also one that mixes discrete and continuous
instructions (C12): each appended grid point carries the coefficient its instruction attaches to it. -/
namespace QipVerif.Concat
open QipVerif.Grid (mem_le_last)

/-- the (relative time of a grid point, coefficient appended together with it) pairs of an instruction:
a rectangular pulse attaches its amplitude to its end; a discrete pulse attaches the value of each slot to the
slot's right end; a continuous pulse attaches each sample (but the first) to its sample time -/
def Wave.points : Wave → List (Rat × Rat)
  | .scalar d c => [(d, c)]
  | .arr tl cs => if cs.length + 1 = tl.length then tl.tail.zip cs else (tl.zip cs).drop 1
  | .mixed _ _ => []

/-- a (grid point, coefficient) pair is explained by the schedule: inside the window `(s, s + duration]` of an
instruction it is one of that instruction's points with its coefficient, outside all windows the coefficient is 0 -/
def PointExplained (instrs : List (Rat × Wave)) (xv : Rat × Rat) : Prop :=
  (∃ sw ∈ instrs, sw.1 < xv.1 ∧ xv.1 ≤ sw.1 + sw.2.dur ∧ (xv.1 - sw.1, xv.2) ∈ sw.2.points) ∨
  ((∀ sw ∈ instrs, ¬ (sw.1 < xv.1 ∧ xv.1 ≤ sw.1 + sw.2.dur)) ∧ xv.2 = 0)

theorem points_eq {w : Wave} (hw : WaveOK w) : w.proc.gt.zip w.proc.cs = w.points := by
  match w, hw with
  | .scalar d c, _ => rfl
  | .arr tl cs, ⟨hh, hp, hl, hc⟩ =>
    match tl, hh, hp, hl, hc with
    | a :: b :: rest, hh, hp, hl, hc =>
      by_cases hd : cs.length + 1 = (a :: b :: rest).length
      · have hcast : ((a :: b :: rest).length : Int) - 1 = (cs.length : Int) := by simp at hd ⊢; omega
        have : (Wave.arr (a :: b :: rest) cs).proc = ⟨b :: rest, cs, b - a, .discrete⟩ := by
          simp only [Wave.proc, procPulse]; rw [if_pos hcast]
        rw [this]; simp only [Wave.points]; rw [if_pos hd]; rfl
      · have hlen : cs.length = (a :: b :: rest).length := by rcases hc with h | h; exact absurd h hd; exact h
        have h1 : ¬ (((a :: b :: rest).length : Int) - 1 = (cs.length : Int)) := by simp at hlen ⊢; omega
        have : (Wave.arr (a :: b :: rest) cs).proc = ⟨b :: rest, cs.drop 1, b - a, .continuous⟩ := by
          simp only [Wave.proc, procPulse]; rw [if_neg h1, if_pos hlen.symm]
        rw [this]; simp only [Wave.points]; rw [if_neg hd]
        cases cs with
        | nil => simp at hlen
        | cons c0 cs => simp

/-- **Meaning of the tolerance-free lists of any channel.** -/
theorem pureLoop_points (instrs : List (Rat × Wave)) : ∀ last, Chain last instrs →
    (∀ xv ∈ (pureLoop last instrs).1.zip (pureLoop last instrs).2, last < xv.1 ∧ PointExplained instrs xv) ∧
    (∀ sw ∈ instrs, ∀ yc ∈ sw.2.points, (sw.1 + yc.1, yc.2) ∈ (pureLoop last instrs).1.zip (pureLoop last instrs).2) := by
  induction instrs with
  | nil => intro last _; simp [pureLoop]
  | cons a rest ih =>
    intro last hc
    obtain ⟨s, w⟩ := a
    obtain ⟨hw, hls, hrest⟩ := hc
    have hp := proc_of_ok hw
    have hdp := dur_pos hp
    obtain ⟨ihA, ihB⟩ := ih (s + w.dur) hrest
    have hpts := points_eq hw
    have hstarts := chain_starts hrest
    have hzip : (pureLoop last ((s, w) :: rest)).1.zip (pureLoop last ((s, w) :: rest)).2 =
        (if last < s then idlePure w.proc.mode s last w.proc.step else []).zip
          ((if last < s then idlePure w.proc.mode s last w.proc.step else []).map (fun _ => (0 : Rat))) ++
        ((w.proc.gt.map (· + s)).zip w.proc.cs ++
          (pureLoop (s + w.dur) rest).1.zip (pureLoop (s + w.dur) rest).2) := by
      simp only [pureLoop]
      rw [List.zip_append (by simp), List.zip_append (by simp [hp.len])]
    have hexec : ∀ xv, xv ∈ (w.proc.gt.map (· + s)).zip w.proc.cs ↔ ∃ yc ∈ w.points, xv = (yc.1 + s, yc.2) := by
      intro xv
      rw [List.zip_map_left, List.mem_map, hpts]
      constructor
      · rintro ⟨yc, hyc, rfl⟩; exact ⟨yc, hyc, rfl⟩
      · rintro ⟨yc, hyc, rfl⟩; exact ⟨yc, hyc, rfl⟩
    have hpt_mem : ∀ yc ∈ w.points, yc.1 ∈ w.proc.gt := by
      intro yc hyc
      rw [← hpts] at hyc; exact (List.of_mem_zip hyc).1
    constructor
    · intro xv hxv
      rw [hzip] at hxv
      rcases List.mem_append.mp hxv with h | h
      · obtain ⟨hx, hv⟩ := mem_zip_zeros h
        obtain ⟨h1, h2⟩ := idl_bounds hp.step_pos hx
        refine ⟨h1, Or.inr ⟨?_, hv⟩⟩
        intro sw hsw
        rcases List.mem_cons.mp hsw with rfl | hsw
        · simp only; grind
        · have := hstarts sw hsw; grind
      · rcases List.mem_append.mp h with h | h
        · obtain ⟨yc, hyc, rfl⟩ := (hexec xv).mp h
          have hg := hpt_mem yc hyc
          have hpos := gt_pos hp yc.1 hg
          have hle : yc.1 ≤ w.dur := by
            have hne := hp.gt_ne
            have hl := hp.last
            rw [List.getLast?_eq_some_getLast hne] at hl
            simp only [Option.getD_some] at hl
            have := mem_le_last (List.pairwise_cons.mp hp.gt_inc).2 (List.getLast?_eq_some_getLast hne) yc.1 hg
            grind
          refine ⟨by simp only; grind, Or.inl ⟨(s, w), by simp, by simp only; grind, by simp only; grind, ?_⟩⟩
          simp only
          have : yc.1 + s - s = yc.1 := by grind
          rw [this]; exact hyc
        · obtain ⟨h1, hE⟩ := ihA xv h
          refine ⟨by grind, ?_⟩
          rcases hE with ⟨sw, hsw, hin⟩ | ⟨hno, hv⟩
          · exact Or.inl ⟨sw, by simp [hsw], hin⟩
          · refine Or.inr ⟨?_, hv⟩
            intro sw hsw
            rcases List.mem_cons.mp hsw with rfl | hsw
            · simp only; grind
            · exact hno sw hsw
    · intro sw hsw yc hyc
      rw [hzip]
      rcases List.mem_cons.mp hsw with rfl | hsw
      · apply List.mem_append_right; apply List.mem_append_left
        simp only
        rw [hexec]
        exact ⟨yc, hyc, by simp only [Prod.mk.injEq, and_true]; grind⟩
      · apply List.mem_append_right; apply List.mem_append_right
        exact ihB sw hsw yc hyc

/-- the (grid point, coefficient) pairs of a compiled channel: the coefficient array of a channel that starts with a
discrete instruction is one shorter than the grid and its `k`-th entry belongs to grid point `k+1` -/
def pairsOf (firstMode : Mode) (g c : List Rat) : List (Rat × Rat) :=
  match firstMode with
  | .discrete => g.tail.zip c
  | .continuous => g.zip c

/-- one compiled channel of any composition -/
theorem compiled_points (τ : Rat) (hτ : 0 < τ) (pm : Mode) (final ms : Rat) (hms : 0 < ms)
    (s : Rat) (w : Wave) (rest : List (Rat × Wave)) (hc : Chain 0 ((s, w) :: rest)) :
    let instrs := (s, w) :: rest
    let g := (headChunk true instrs).1 ++ (pureLoop 0 instrs).1 ++ padPts τ pm final ms (endOf 0 instrs)
    let c := (headChunk true instrs).2 ++ (pureLoop 0 instrs).2 ++
      (padPts τ pm final ms (endOf 0 instrs)).map (fun _ => (0 : Rat))
    (∀ xv ∈ pairsOf w.mode g c, PointExplained instrs xv) ∧
      (∀ sw ∈ instrs, ∀ yc ∈ sw.2.points, (sw.1 + yc.1, yc.2) ∈ pairsOf w.mode g c) := by
  intro instrs g c
  obtain ⟨hs1, hs2, hs3, hs4⟩ := pureLoop_struct instrs 0 hc
  obtain ⟨hA, hB⟩ := pureLoop_points instrs 0 hc
  have hcore : ∀ xv ∈ (pureLoop 0 instrs).1.zip (pureLoop 0 instrs).2 ++
      (padPts τ pm final ms (endOf 0 instrs)).zip ((padPts τ pm final ms (endOf 0 instrs)).map (fun _ => (0 : Rat))),
      PointExplained instrs xv := by
    intro xv hxv
    rcases List.mem_append.mp hxv with h | h
    · exact (hA xv h).2
    · obtain ⟨hx, hv⟩ := mem_zip_zeros h
      have hgt := (List.pairwise_cons.mp (padPts_pairwise τ hτ pm final ms (endOf 0 instrs) hms)).1 xv.1 hx
      refine Or.inr ⟨?_, hv⟩
      intro sw hsw
      have := chain_ends hc sw hsw
      grind
  cases hm : w.mode with
  | discrete =>
    have hz : headChunk true instrs = ([0], []) := by simp [instrs, headChunk, zeroChunk, hm]
    have hpairs : pairsOf .discrete g c = (pureLoop 0 instrs).1.zip (pureLoop 0 instrs).2 ++
        (padPts τ pm final ms (endOf 0 instrs)).zip ((padPts τ pm final ms (endOf 0 instrs)).map (fun _ => (0 : Rat))) := by
      simp only [pairsOf, g, c, hz, List.cons_append, List.nil_append, List.tail_cons]
      rw [List.zip_append hs2]
    rw [hpairs]
    exact ⟨hcore, fun sw hsw yc hyc => List.mem_append_left _ (hB sw hsw yc hyc)⟩
  | continuous =>
    have hz : headChunk true instrs = ([0], [0]) := by simp [instrs, headChunk, zeroChunk, hm]
    have hpairs : pairsOf .continuous g c = (0, 0) :: ((pureLoop 0 instrs).1.zip (pureLoop 0 instrs).2 ++
        (padPts τ pm final ms (endOf 0 instrs)).zip ((padPts τ pm final ms (endOf 0 instrs)).map (fun _ => (0 : Rat)))) := by
      simp only [pairsOf, g, c, hz, List.cons_append, List.nil_append, List.zip_cons_cons]
      rw [List.zip_append hs2]
    rw [hpairs]
    refine ⟨?_, fun sw hsw yc hyc => List.mem_cons_of_mem _ (List.mem_append_left _ (hB sw hsw yc hyc))⟩
    intro xv hxv
    rcases List.mem_cons.mp hxv with rfl | hxv
    · refine Or.inr ⟨?_, rfl⟩
      intro sw hsw
      have := chain_starts hc sw hsw
      simp only; grind
    · exact hcore xv hxv

end QipVerif.Concat
