import QipVerif.Lemmas.GridCatchUp
/-! The de-duplication of the merged time grid with either reference point (C14, fixes/C14-8.patch): the predecessor in the
sorted list (as found) or the last KEPT point (repaired).  Both give a strictly increasing grid of channel points with gaps
`> tol`, and the sorted union when distinct points are more than `tol` apart; only the repaired one represents EVERY channel
point up to `tol`. -/
namespace QipVerif.Grid

theorem keepFromK_false (tol prev : Rat) (l : List Rat) : keepFromK false tol prev l = keepFrom tol prev l := by
  induction l generalizing prev with
  | nil => simp [keepFromK, keepFrom]
  | cons b rest ih =>
    unfold keepFromK keepFrom
    simp only [Bool.false_eq_true, if_false]
    rw [ih b]

theorem fullTlistK_false (tol : Rat) (grids : List (List Rat)) : fullTlistK false tol grids = fullTlist tol grids := by
  unfold fullTlistK fullTlist
  split
  · rfl
  · split <;> simp [keepFromK_false]

theorem keepFromK_sublist (kk : Bool) (tol prev : Rat) (l : List Rat) : (keepFromK kk tol prev l).Sublist l := by
  induction l generalizing prev with
  | nil => simp [keepFromK]
  | cons b rest ih =>
    unfold keepFromK
    by_cases h : b - prev > tol
    · rw [if_pos h]; exact (ih b).cons_cons b
    · rw [if_neg h]; exact (ih _).cons b

theorem keepFromK_gaps (kk : Bool) (tol : Rat) (prev lo : Rat) (l : List Rat) (hp : (prev :: l).Pairwise (· < ·)) (hlo : lo ≤ prev) :
    GapsGt tol (lo :: keepFromK kk tol prev l) := by
  induction l generalizing prev lo with
  | nil => simp [keepFromK, GapsGt]
  | cons b rest ih =>
    have hpb : prev < b := (List.pairwise_cons.mp hp).1 b (by simp)
    have hp' : (b :: rest).Pairwise (· < ·) := (List.pairwise_cons.mp hp).2
    have hpr : (prev :: rest).Pairwise (· < ·) :=
      List.pairwise_cons.mpr ⟨fun x hx => (List.pairwise_cons.mp hp).1 x (by simp [hx]), (List.pairwise_cons.mp hp').2⟩
    unfold keepFromK
    by_cases h : b - prev > tol
    · rw [if_pos h]
      exact ⟨by grind, ih b b hp' Rat.le_refl⟩
    · rw [if_neg h]
      cases kk with
      | false => exact ih b lo hp' (by grind)
      | true => exact ih prev lo hpr hlo

theorem keepFromK_eq_self (kk : Bool) (tol prev : Rat) (l : List Rat) (hp : (prev :: l).Pairwise (· < ·))
    (hsep : ∀ x ∈ prev :: l, ∀ y ∈ prev :: l, x < y → y - x > tol) : keepFromK kk tol prev l = l := by
  induction l generalizing prev with
  | nil => simp [keepFromK]
  | cons b rest ih =>
    have hpb : prev < b := (List.pairwise_cons.mp hp).1 b (by simp)
    have hp' : (b :: rest).Pairwise (· < ·) := (List.pairwise_cons.mp hp).2
    unfold keepFromK
    rw [if_pos (hsep prev (by simp) b (by simp) hpb)]
    congr 1
    exact ih b hp' (fun x hx y hy => hsep x (by simp [hx]) y (by simp [hy]))

/-- the repaired de-duplication represents every point: some kept point lies at most `tol` below it -/
theorem keepFromK_true_covers (tol prev : Rat) (l : List Rat) (htol : 0 ≤ tol) (hp : (prev :: l).Pairwise (· < ·)) :
    ∀ x ∈ prev :: l, ∃ t ∈ prev :: keepFromK true tol prev l, t ≤ x ∧ x - t ≤ tol := by
  induction l generalizing prev with
  | nil =>
    intro x hx
    simp only [List.mem_cons, List.not_mem_nil, or_false] at hx
    subst hx
    exact ⟨x, by simp, Rat.le_refl, by grind⟩
  | cons b rest ih =>
    have hpb : prev < b := (List.pairwise_cons.mp hp).1 b (by simp)
    have hp' : (b :: rest).Pairwise (· < ·) := (List.pairwise_cons.mp hp).2
    have hpr : (prev :: rest).Pairwise (· < ·) :=
      List.pairwise_cons.mpr ⟨fun x hx => (List.pairwise_cons.mp hp).1 x (by simp [hx]), (List.pairwise_cons.mp hp').2⟩
    intro x hx
    unfold keepFromK
    by_cases h : b - prev > tol
    · rw [if_pos h]
      rcases List.mem_cons.mp hx with rfl | hx'
      · exact ⟨x, by simp, Rat.le_refl, by grind⟩
      · obtain ⟨t, ht, h1, h2⟩ := ih b hp' x hx'
        exact ⟨t, List.mem_cons_of_mem _ ht, h1, h2⟩
    · rw [if_neg h]
      simp only [if_true]
      rcases List.mem_cons.mp hx with rfl | hx'
      · exact ⟨x, by simp, Rat.le_refl, by grind⟩
      · rcases List.mem_cons.mp hx' with rfl | hx''
        · exact ⟨prev, by simp, Rat.le_of_lt hpb, by grind⟩
        · exact ih prev hpr x (List.mem_cons_of_mem _ hx'')

theorem fullTlistK_pairwise {kk : Bool} {tol : Rat} {grids : List (List Rat)} {T : List Rat}
    (h : fullTlistK kk tol grids = some T) : T.Pairwise (· < ·) := by
  unfold fullTlistK at h
  split at h
  · cases h
  · have hs := sortU_pairwise grids.flatten
    split at h
    · cases h; simp
    · rename_i a rest heq
      cases h
      rw [heq] at hs
      exact List.Pairwise.sublist ((keepFromK_sublist kk tol a rest).cons_cons a) hs

theorem fullTlistK_gaps {kk : Bool} {tol : Rat} {grids : List (List Rat)} {T : List Rat}
    (h : fullTlistK kk tol grids = some T) : GapsGt tol T := by
  unfold fullTlistK at h
  split at h
  · cases h
  · have hs := sortU_pairwise grids.flatten
    split at h
    · cases h; simp [GapsGt]
    · rename_i a rest heq
      cases h
      rw [heq] at hs
      exact keepFromK_gaps kk tol a a rest hs Rat.le_refl

theorem fullTlistK_subset {kk : Bool} {tol : Rat} {grids : List (List Rat)} {T : List Rat}
    (h : fullTlistK kk tol grids = some T) : ∀ t ∈ T, ∃ g ∈ grids, t ∈ g := by
  unfold fullTlistK at h
  split at h
  · cases h
  · split at h
    · cases h; simp
    · rename_i a rest heq
      cases h
      intro t ht
      have : t ∈ sortU grids.flatten := by
        rw [heq]
        rcases List.mem_cons.mp ht with rfl | ht
        · simp
        · exact List.mem_cons_of_mem _ ((keepFromK_sublist kk tol a rest).subset ht)
      rw [mem_sortU, List.mem_flatten] at this
      exact this

theorem fullTlistK_eq_sortU (kk : Bool) {tol : Rat} {grids : List (List Rat)} (hne : grids ≠ [])
    (hsep : SepAll tol grids) : fullTlistK kk tol grids = some (sortU grids.flatten) := by
  unfold fullTlistK
  have : grids.isEmpty = false := by cases grids <;> simp_all
  rw [this]
  simp only [Bool.false_eq_true, if_false]
  have hs := sortU_pairwise grids.flatten
  split
  · rename_i heq; rw [heq]
  · rename_i a rest heq
    rw [heq] at hs ⊢
    congr 2
    apply keepFromK_eq_self kk tol a rest hs
    intro x hx y hy hxy
    have hx' : x ∈ sortU grids.flatten := heq ▸ hx
    have hy' : y ∈ sortU grids.flatten := heq ▸ hy
    rw [mem_sortU, List.mem_flatten] at hx' hy'
    obtain ⟨g, hg, hxg⟩ := hx'
    obtain ⟨g', hg', hyg⟩ := hy'
    exact hsep g hg x hxg g' hg' y hyg hxy

/-- the repaired merged grid represents every channel point up to `tol` (from below) -/
theorem fullTlistK_true_covers {tol : Rat} {grids : List (List Rat)} {T : List Rat} (htol : 0 ≤ tol)
    (h : fullTlistK true tol grids = some T) : ∀ g ∈ grids, ∀ x ∈ g, ∃ t ∈ T, t ≤ x ∧ x - t ≤ tol := by
  unfold fullTlistK at h
  split at h
  · cases h
  · have hs := sortU_pairwise grids.flatten
    intro g hg x hx
    have hxs : x ∈ sortU grids.flatten := by rw [mem_sortU, List.mem_flatten]; exact ⟨g, hg, hx⟩
    split at h
    · rename_i heq; rw [heq] at hxs; simp at hxs
    · rename_i a rest heq
      cases h
      rw [heq] at hs hxs
      exact keepFromK_true_covers tol a rest htol hs x hxs

theorem fullCoeffsVWK_false (zl w : Bool) (tol : Rat) (chans : List Chan) :
    fullCoeffsVWK zl w false tol chans = fullCoeffsVW zl w tol chans := by
  unfold fullCoeffsVWK fullCoeffsVW fullCoeffsW procTlist
  simp only [fullTlistK_false]

/-- **get_full_coeffs with either reference point of the de-duplication** returns the same grid and rows when distinct points
of the channels are more than `tol` apart -/
theorem fullCoeffsVWK_eq (zl w kk : Bool) (tol : Rat) (chans : List (List Rat × List Rat)) (hne : chans ≠ [])
    (hsep : SepAll tol (chans.map (·.1))) :
    fullCoeffsVWK zl w kk tol (chans.map fun c => Chan.arr c.1 c.2) = fullCoeffsVW zl w tol (chans.map fun c => Chan.arr c.1 c.2) := by
  have hgrids : ∀ l : List (List Rat × List Rat),
      ((l.map fun c => Chan.arr c.1 c.2).map (Chan.norm zl)).filterMap Chan.grid? = l.map (·.1) := by
    intro l
    induction l with
    | nil => rfl
    | cons c cs ih => simp [Chan.grid?, Chan.norm] at ih ⊢; exact ih
  have hne' : chans.map (·.1) ≠ [] := by simpa using hne
  unfold fullCoeffsVWK fullCoeffsVW fullCoeffsW procTlist
  simp only [hgrids chans, fullTlistK_eq_sortU kk hne' hsep, fullTlist_eq_sortU hne' hsep]

end QipVerif.Grid
