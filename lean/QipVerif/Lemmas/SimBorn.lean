import QipVerif.Lemmas.SimProb
import Mathlib.Data.Complex.Basic
import Mathlib.Data.Fintype.Pi
import Mathlib.Algebra.BigOperators.Group.Finset.Basic
import Mathlib.Algebra.Order.Field.Basic
import Mathlib.Tactic.FieldSimp
/-!
# The Born rule for the projective measurement of one qubit of an `N`-qubit register

Vectors are functions on basis states `Fin N → Fin 2` with values in `ℂ`.
-/
namespace QipVerif.Sim
open Finset

abbrev Basis (N : ℕ) := Fin N → Fin 2
abbrev Vec (N : ℕ) := Basis N → ℂ

/-- `‖ψ‖²` -/
noncomputable def normSqV {N : ℕ} (ψ : Vec N) : ℝ := ∑ x, Complex.normSq (ψ x)

/-- the projector `|o⟩⟨o|` on qubit `t`, identity elsewhere -/
def projV {N : ℕ} (t : Fin N) (o : Fin 2) (ψ : Vec N) : Vec N := fun x => if x t = o then ψ x else 0

/-- **Born split**: `‖P₀ψ‖² + ‖P₁ψ‖² = ‖ψ‖²` for every qubit of every register size and every vector. -/
theorem born_split {N : ℕ} (t : Fin N) (ψ : Vec N) :
    normSqV (projV t 0 ψ) + normSqV (projV t 1 ψ) = normSqV ψ := by
  unfold normSqV
  rw [← Finset.sum_add_distrib]
  apply Finset.sum_congr rfl
  intro x _
  unfold projV
  have h : x t = 0 ∨ x t = 1 := by
    generalize x t = y
    revert y; decide
  rcases h with h | h <;> simp [h]

/-- non-zero vectors (the states a live run can hold) -/
abbrev NzVec (N : ℕ) := { ψ : Vec N // normSqV ψ ≠ 0 }

/-- the outcome index of the model (`0`/`1`; anything else is never asked) as a `Fin 2` -/
def outcome (o : ℕ) : Fin 2 := if o = 0 then 0 else 1

open Classical in
/-- The ideal backend on `ℂ`-vectors: conditional Born probability `‖P_oψ‖²/‖ψ‖²`; an outcome of
probability `0` is pruned; gates are any maps of non-zero vectors (unitaries).  The collapsed state is
kept unnormalised: conditional probabilities do not depend on the scale. -/
noncomputable def bornBackend (N : ℕ) (gate : ℕ → List ℕ → NzVec N → NzVec N)
    (dephase : ℕ → NzVec N → NzVec N) : Backend (NzVec N) ℝ where
  gate := gate
  dephase := dephase
  meas := fun t ψ o =>
    if ht : t < N then
      (normSqV (projV ⟨t, ht⟩ (outcome o) ψ.1) / normSqV ψ.1,
       if h : normSqV (projV ⟨t, ht⟩ (outcome o) ψ.1) = 0 then none else some ⟨projV ⟨t, ht⟩ (outcome o) ψ.1, h⟩)
    else (if o = 0 then 1 else 0, if o = 0 then some ψ else none)

/-- the ideal backend satisfies the two facts `probs_sum_one` needs -/
theorem bornBackend_ok (N : ℕ) (gate : ℕ → List ℕ → NzVec N → NzVec N) (dephase : ℕ → NzVec N → NzVec N) :
    BornOk (bornBackend N gate dephase) := by
  constructor
  · intro t ψ
    unfold bornBackend
    by_cases ht : t < N
    · simp only [ht, ↓reduceDIte]
      have h := born_split ⟨t, ht⟩ ψ.1
      have hn := ψ.2
      have e0 : outcome 0 = 0 := rfl
      have e1 : outcome 1 = 1 := rfl
      rw [e0, e1, ← add_div, h]
      exact div_self hn
    · simp [ht]
  · intro t ψ o hnone
    unfold bornBackend at hnone ⊢
    by_cases ht : t < N
    · simp only [ht, ↓reduceDIte] at hnone ⊢
      by_cases h0 : normSqV (projV ⟨t, ht⟩ (outcome o) ψ.1) = 0
      · rw [h0, zero_div]
      · simp [h0] at hnone
    · simp only [ht, ↓reduceDIte] at hnone ⊢
      by_cases ho : o = 0
      · simp [ho] at hnone
      · simp [ho]

end QipVerif.Sim
