import QipVerif.Lemmas.QasmTokRe
/-!
# `_tokenize_line` on commands of the three shapes (C04)

* `tokenizeLineF_plain` — no `(`: the tokens are the words between blanks and commas;
* `tokenizeLineF_call`  — `head ( params ) operands`;
* `tokenizeLineF_ifPlain`, `tokenizeLineF_ifArgs` — the two `if` forms;
* `split3` / `opnds1`   — comma-separated lists of padded items;
* `callP_tokens`, `OpShape`, `shape_tokens`, `shape_if_tokens` — a statement `name(params) operands`
  with or without parameter list, alone or behind `if(c==k)`.
-/
namespace QipVerif.Qasm.Tok
open QipVerif.Qasm

/-! ## `strip` is idempotent -/

theorem stripL_shape (s : Str) : stripL s = [] ∨ ∃ c cs, stripL s = c :: cs ∧ isWs c = false := by
  induction s with
  | nil => exact Or.inl rfl
  | cons c cs ih =>
    by_cases hc : isWs c = true
    · rw [stripL_cons_ws _ hc]; exact ih
    · have hc' : isWs c = false := by simpa using hc
      rw [stripL_cons_nws _ hc']; exact Or.inr ⟨c, cs, rfl, hc'⟩

theorem stripR_cons_nws (c : Char) (cs : Str) (h : isWs c = false) :
    stripR (c :: cs) = c :: stripR cs := by
  simp only [stripR]
  cases stripR cs <;> simp [h]

theorem stripR_cons_of_ne (c : Char) (cs : Str) (h : stripR cs ≠ []) :
    stripR (c :: cs) = c :: stripR cs := by
  cases hr : stripR cs with
  | nil => exact absurd hr h
  | cons d ds => simp [stripR, hr]

theorem stripR_cons_of_nil (c : Char) (cs : Str) (h : stripR cs = []) :
    stripR (c :: cs) = if isWs c then [] else [c] := by
  simp only [stripR, h]

theorem stripR_idem (t : Str) : stripR (stripR t) = stripR t := by
  induction t with
  | nil => rfl
  | cons c cs ih =>
    by_cases hr : stripR cs = []
    · rw [stripR_cons_of_nil c cs hr]
      by_cases hc : isWs c = true
      · simp [hc]
      · have hc' : isWs c = false := by simpa using hc
        simp [hc', stripR]
    · rw [stripR_cons_of_ne c cs hr, stripR_cons_of_ne c _ (by rw [ih]; exact hr), ih]

theorem strip_idem (s : Str) : strip (strip s) = strip s := by
  unfold strip
  rcases stripL_shape s with h | ⟨c, cs, h, hc⟩
  · rw [h]; rfl
  · rw [h, stripR_cons_nws c cs hc, stripL_cons_nws _ hc, ← stripR_cons_nws c cs hc, stripR_idem]

theorem map_strip_strip (l : List Str) : (l.map strip).map strip = l.map strip := by
  simp [List.map_map, Function.comp_def, strip_idem]

theorem strip_word {w : Str} (h : ∀ c ∈ w, isWs c = false) : strip w = w := strip_noWs w h

/-! ## first branch -/

theorem contains_open {cmd : Str} : cmd.contains '(' = true ↔ '(' ∈ cmd := by
  simp

theorem tokenizeLineF_plain (f : Nat) (cmd : Str) (h : '(' ∉ cmd) :
    tokenizeLineF (f + 1) cmd = .ok (splitBy sepC cmd) := by
  have : cmd.contains '(' = false := by
    cases hc : cmd.contains '(' with
    | false => rfl
    | true => exact absurd (contains_open.mp hc) h
  simp [tokenizeLineF, h, plainTokens_eq]

/-! ## third branch -/

theorem reCall_eq' (h g2 g3 : Str) (hh : ∀ c ∈ h, c ≠ '\n' ∧ c ≠ '(') (h2 : noNl g2) (h3 : noNl g3)
    (hc : ')' ∉ g3) : reCall (h ++ ('(' :: (g2 ++ (')' :: g3)))) = some (h, g2, g3) := by
  have := reCall_eq h g2 g3 hh h2 h3 hc
  simpa [List.append_assoc] using this

theorem tokenizeLineF_call (f : Nat) (h g2 g3 : Str) (hh : ∀ c ∈ h, c ≠ '\n' ∧ c ≠ '(')
    (h2 : noNl g2) (h3 : noNl g3) (hc : ')' ∉ g3)
    (hif : reIfHead (h ++ ('(' :: (g2 ++ (')' :: g3)))) = false) :
    tokenizeLineF (f + 1) (h ++ ('(' :: (g2 ++ (')' :: g3)))) =
      .ok ((splitWs h ++ [cs!"("] ++ splitOn ',' g2 ++ [cs!")"] ++ splitOn ',' g3).map strip) := by
  have hc' : (h ++ ('(' :: (g2 ++ (')' :: g3)))).contains '(' = true := by
    rw [contains_open]; simp
  rw [tokenizeLineF]
  simp only [hc', Bool.not_true, Bool.false_eq_true, if_false, hif, reCall_eq' h g2 g3 hh h2 h3 hc]

/-! ## second branch -/

theorem strip_if : strip cs!"if" = cs!"if" := by decide
theorem strip_open : strip cs!"(" = cs!"(" := by decide
theorem strip_close : strip cs!")" = cs!")" := by decide

/-- `if ( cond ) rest` where `rest` has no parenthesis -/
theorem tokenizeLineF_ifPlain (f : Nat) (w0 g1 g2 : Str) (h0 : allWs w0 = true) (h1 : noNl g1)
    (h2 : noNl g2) (hc : ')' ∉ g2) (ho1 : '(' ∉ g1) (ho : '(' ∉ g2) :
    tokenizeLineF (f + 2) ('i' :: 'f' :: w0 ++ '(' :: (g1 ++ ')' :: g2)) =
      .ok ([cs!"if", cs!"(", strip g1, cs!")"] ++ splitBy sepC g2) := by
  have hc' : ('i' :: 'f' :: w0 ++ '(' :: (g1 ++ ')' :: g2)).contains '(' = true := by
    rw [contains_open]; simp
  have hnone : reIfArgs ('i' :: 'f' :: w0 ++ '(' :: (g1 ++ ')' :: g2)) = none :=
    reIfArgs_none w0 _ h0 (by simp [ho1, ho])
  rw [tokenizeLineF]
  simp only [hc', Bool.not_true, Bool.false_eq_true, if_false, reIfHead_true w0 _ h0, if_true, hnone,
    reIfPlain_eq w0 g1 g2 h0 h1 h2 hc, tokenizeLineF_plain f g2 ho]
  have : (splitBy sepC g2).map strip = splitBy sepC g2 := by
    calc (splitBy sepC g2).map strip = (splitBy sepC g2).map id :=
          List.map_congr_left (fun t ht => strip_word (fun c hc => by
            have := (mem_splitBy sepC g2 ht).2 c hc
            simp only [sepC, Bool.or_eq_false_iff] at this; exact this.1))
      _ = _ := by simp
  simp [strip_if, strip_open, strip_close, this]

/-- `if ( cond ) name ( params ) operands` -/
theorem tokenizeLineF_ifArgs (f : Nat) (w0 g1 w1 name w2 g3 g4 : Str) (c2 : Char)
    (h0 : allWs w0 = true) (h1 : ∀ c ∈ g1, c ≠ '\n' ∧ c ≠ ')') (hw1 : allWs w1 = true)
    (hne : name ≠ []) (hname : ∀ c ∈ name, isWs c = false) (hc2 : isWs c2 = true) (hw2 : allWs w2 = true)
    (h3 : noNl g3) (h4 : noNl g4) (hc : ')' ∉ g4) (ts : List Str)
    (hin : tokenizeLineF (f + 1) (name ++ cs!" (" ++ g3 ++ cs!") " ++ g4) = .ok ts) :
    tokenizeLineF (f + 2)
        ('i' :: 'f' :: w0 ++ '(' :: (g1 ++ ')' :: (w1 ++ (name ++ (c2 :: w2 ++ '(' :: (g3 ++ ')' :: g4)))))) =
      .ok ([cs!"if", cs!"(", strip g1, cs!")"] ++ ts.map strip) := by
  have hc' : List.contains
      ('i' :: 'f' :: w0 ++ '(' :: (g1 ++ ')' :: (w1 ++ (name ++ (c2 :: w2 ++ '(' :: (g3 ++ ')' :: g4)))))) '(' = true := by
    rw [contains_open]; simp
  rw [tokenizeLineF]
  simp only [hc', Bool.not_true, Bool.false_eq_true, if_false, reIfHead_true w0 _ h0, if_true,
    reIfArgs_eq w0 g1 w1 name w2 g3 g4 c2 h0 h1 hw1 hne hname hc2 hw2 h3 h4 hc, hin]
  simp [strip_if, strip_open, strip_close]

theorem tokenizeLine_ifPlain (w0 g1 g2 : Str) (h0 : allWs w0 = true) (h1 : noNl g1)
    (h2 : noNl g2) (hc : ')' ∉ g2) (ho1 : '(' ∉ g1) (ho : '(' ∉ g2) :
    tokenizeLine ('i' :: 'f' :: w0 ++ '(' :: (g1 ++ ')' :: g2)) =
      .ok ([cs!"if", cs!"(", strip g1, cs!")"] ++ splitBy sepC g2) := by
  unfold tokenizeLine
  have hl : ('i' :: 'f' :: w0 ++ '(' :: (g1 ++ ')' :: g2)).length + 1 =
      (w0 ++ '(' :: (g1 ++ ')' :: g2)).length + 1 + 2 := by simp
  rw [hl]
  exact tokenizeLineF_ifPlain _ w0 g1 g2 h0 h1 h2 hc ho1 ho

theorem tokenizeLine_ifArgs (w0 g1 w1 name w2 g3 g4 : Str) (c2 : Char)
    (h0 : allWs w0 = true) (h1 : ∀ c ∈ g1, c ≠ '\n' ∧ c ≠ ')') (hw1 : allWs w1 = true)
    (hne : name ≠ []) (hname : ∀ c ∈ name, isWs c = false) (hc2 : isWs c2 = true) (hw2 : allWs w2 = true)
    (h3 : noNl g3) (h4 : noNl g4) (hc : ')' ∉ g4) (ts : List Str)
    (hin : ∀ f, tokenizeLineF (f + 1) (name ++ cs!" (" ++ g3 ++ cs!") " ++ g4) = .ok ts) :
    tokenizeLine
        ('i' :: 'f' :: w0 ++ '(' :: (g1 ++ ')' :: (w1 ++ (name ++ (c2 :: w2 ++ '(' :: (g3 ++ ')' :: g4)))))) =
      .ok ([cs!"if", cs!"(", strip g1, cs!")"] ++ ts.map strip) := by
  unfold tokenizeLine
  have hl : ('i' :: 'f' :: w0 ++ '(' :: (g1 ++ ')' :: (w1 ++ (name ++ (c2 :: w2 ++ '(' :: (g3 ++ ')' :: g4)))))).length + 1 =
      (w0 ++ '(' :: (g1 ++ ')' :: (w1 ++ (name ++ (c2 :: w2 ++ '(' :: (g3 ++ ')' :: g4)))))).length + 1 + 2 := by simp
  rw [hl]
  exact tokenizeLineF_ifArgs _ w0 g1 w1 name w2 g3 g4 c2 h0 h1 hw1 hne hname hc2 hw2 h3 h4 hc ts (hin _)

/-! ## comma-separated lists of padded items -/

/-- characters of a padded parameter / formal: no `;`, no line break, no comma -/
def okP (c : Char) : Bool := c != ';' && c != '\n' && c != ','
/-- characters of a padded operand: moreover no parenthesis -/
def okQ (c : Char) : Bool := okP c && c != '(' && c != ')'
/-- characters of a padded command -/
def okL (c : Char) : Bool := c != ';' && c != '\n'

theorem okP_okL {c : Char} (h : okP c = true) : okL c = true := by
  simp only [okP, okL, Bool.and_eq_true] at h ⊢; exact h.1
theorem okQ_okP {c : Char} (h : okQ c = true) : okP c = true := by
  simp only [okQ, Bool.and_eq_true] at h; exact h.1.1
theorem okL_space : okL ' ' = true := by decide
theorem okL_comma : okL ',' = true := by decide

theorem all_imp {p q : Char → Bool} (h : ∀ c, p c = true → q c = true) {s : Str} (hs : s.all p = true) :
    s.all q = true := by
  simp only [List.all_eq_true] at hs ⊢
  exact fun c hc => h c (hs c hc)

theorem not_mem_of_all {p : Char → Bool} {s : Str} {d : Char} (hs : s.all p = true) (hd : p d = false) :
    d ∉ s := by
  intro hm
  simp only [List.all_eq_true] at hs
  have := hs d hm
  rw [hd] at this; cases this

theorem noNl_of_okL {s : Str} (hs : s.all okL = true) : noNl s := by
  intro c hc
  simp only [List.all_eq_true] at hs
  have := hs c hc
  simp only [okL, Bool.and_eq_true, bne_iff_ne, ne_eq] at this
  exact this.2

theorem padLine_comma : padLine [','] = [','] := by decide

theorem intercal_cons_cons (x y : Str) (r : List Str) :
    intercal [','] (x :: y :: r) = x ++ ',' :: intercal [','] (y :: r) := by
  simp [intercal]

/-- blanks only -/
def allSp (w : Str) : Bool := w.all (· == ' ')

theorem allSp_allWs {w : Str} (h : allSp w = true) : allWs w = true := by
  unfold allSp at h; unfold allWs
  simp only [List.all_eq_true, beq_iff_eq] at h ⊢
  intro c hc; rw [h c hc]; decide

theorem allSp_all {w : Str} (h : allSp w = true) (q : Char → Bool) (hq : q ' ' = true) :
    w.all q = true := by
  unfold allSp at h
  simp only [List.all_eq_true, beq_iff_eq] at h ⊢
  intro c hc; rw [h c hc]; exact hq

theorem padLine_intercal (xs : List Str) :
    padLine (intercal [','] xs) = intercal [','] (xs.map padLine) := by
  induction xs with
  | nil => rfl
  | cons x rest ih =>
    cases rest with
    | nil => rfl
    | cons y r =>
      simp only [List.map_cons] at ih ⊢
      rw [intercal_cons_cons, intercal_cons_cons, padLine_append, padLine_cons, ih]
      rfl

/-- an item of a parameter list: padded text and the token that comes out -/
def ParamItem (it : Str × Str) : Prop := (padLine it.1).all okP = true ∧ strip (padLine it.1) = it.2

theorem intercal_all (q : Char → Bool) (hq : q ',' = true) (xs : List Str)
    (h : ∀ x ∈ xs, x.all q = true) : (intercal [','] xs).all q = true := by
  induction xs with
  | nil => rfl
  | cons x rest ih =>
    cases rest with
    | nil => simpa [intercal] using h x (by simp)
    | cons y r =>
      have ih' := ih (fun z hz => h z (by simp [hz]))
      rw [intercal_cons_cons]
      simp [List.all_append, h x (by simp), hq, ih']

/-- `( a , b , c )` split at the commas and stripped -/
theorem split3 (items : List (Str × Str)) (w1 w2 : Str) (h1 : allWs w1 = true) (h2 : allWs w2 = true)
    (hit : ∀ it ∈ items, ParamItem it) (hne : items ≠ []) :
    (splitOn ',' (w1 ++ padLine (intercal [','] (items.map (·.1))) ++ w2)).map strip =
      items.map (·.2) := by
  rw [padLine_intercal]
  induction items generalizing w1 with
  | nil => exact absurd rfl hne
  | cons it rest ih =>
    have hi := hit it (by simp)
    have hcomma : ',' ∉ padLine it.1 := not_mem_of_all hi.1 (by decide)
    cases rest with
    | nil =>
      have : ',' ∉ w1 ++ padLine it.1 ++ w2 := by
        simp only [List.mem_append, not_or]
        refine ⟨⟨?_, hcomma⟩, ?_⟩
        · exact not_mem_of_all (p := isWs) h1 (by decide)
        · exact not_mem_of_all (p := isWs) h2 (by decide)
      simp only [List.map_cons, List.map_nil, intercal]
      rw [splitOn_none _ _ this]
      simp [strip_pad _ _ _ h1 h2, hi.2, -List.append_assoc]
    | cons it2 r =>
      have ih' := ih [] rfl (fun x hx => hit x (by simp [hx])) (by simp)
      have hc1 : ',' ∉ w1 ++ padLine it.1 := by
        simp only [List.mem_append, not_or]
        exact ⟨not_mem_of_all (p := isWs) h1 (by decide), hcomma⟩
      simp only [List.map_cons] at ih' ⊢
      rw [intercal_cons_cons]
      have e : w1 ++ (padLine it.1 ++ ',' :: intercal [','] (padLine it2.1 :: List.map padLine (List.map (·.1) r))) ++ w2
          = (w1 ++ padLine it.1) ++ ',' :: ([] ++ intercal [','] (padLine it2.1 :: List.map padLine (List.map (·.1) r)) ++ w2) := by
        simp [List.append_assoc]
      rw [e, splitOn_append _ _ _ hc1]
      simp only [List.map_cons]
      rw [ih']
      have : strip (w1 ++ padLine it.1) = it.2 := by
        have := strip_pad w1 (padLine it.1) [] h1 rfl
        simp only [List.append_nil] at this
        rw [this, hi.2]
      rw [this]

theorem split3_nil (w1 w2 : Str) (h1 : allWs w1 = true) (h2 : allWs w2 = true) :
    (splitOn ',' (w1 ++ padLine (intercal [','] []) ++ w2)).map strip = [[]] := by
  have : ',' ∉ w1 ++ w2 := by
    simp only [List.mem_append, not_or]
    exact ⟨not_mem_of_all (p := isWs) h1 (by decide), not_mem_of_all (p := isWs) h2 (by decide)⟩
  have e : strip (w1 ++ w2) = [] := by
    have := strip_pad w1 [] w2 h1 h2
    simpa [strip] using this
  simp [intercal, splitOn_none _ _ this, e]

theorem padLine_items_all (q : Char → Bool) (hq : q ',' = true) (xs : List Str)
    (h : ∀ x ∈ xs, (padLine x).all q = true) : (padLine (intercal [','] xs)).all q = true := by
  rw [padLine_intercal]
  exact intercal_all q hq _ (by simpa using h)

/-- an operand: padded text, tokens in the first branch, token in the third branch -/
def OpndItem (it : Str × List Str × Str) : Prop :=
  (padLine it.1).all okQ = true ∧ strip (padLine it.1) = it.2.2 ∧
    ∀ rest, startsSep sepC rest = true → splitBy sepC (padLine it.1 ++ rest) = it.2.1 ++ splitBy sepC rest

theorem OpndItem.param {it : Str × List Str × Str} (h : OpndItem it) : ParamItem (it.1, it.2.2) :=
  ⟨all_imp (fun _ => okQ_okP) h.1, h.2.1⟩

/-- operands in the first branch -/
theorem opnds1 (items : List (Str × List Str × Str)) (rest : Str) (hr : startsSep sepC rest = true)
    (hit : ∀ it ∈ items, OpndItem it) :
    splitBy sepC (padLine (intercal [','] (items.map (·.1))) ++ rest) =
      items.flatMap (·.2.1) ++ splitBy sepC rest := by
  rw [padLine_intercal]
  induction items with
  | nil => rfl
  | cons it r ih =>
    have hi := hit it (by simp)
    have ih' := ih (fun x hx => hit x (by simp [hx]))
    cases r with
    | nil => simpa [intercal] using hi.2.2 rest hr
    | cons it2 r2 =>
      simp only [List.map_cons, List.flatMap_cons] at ih' ⊢
      rw [intercal_cons_cons, List.append_assoc, hi.2.2 _ (by simp [startsSep, sepC_comma]), List.cons_append,
        splitBy_sep sepC _ sepC_comma, ih']
      simp [List.append_assoc]

/-- operands in the third branch -/
theorem opnds3_eq (items : List (Str × List Str × Str)) (w1 w2 : Str) (h1 : allWs w1 = true)
    (h2 : allWs w2 = true) (hit : ∀ it ∈ items, OpndItem it) :
    (splitOn ',' (w1 ++ padLine (intercal [','] (items.map (·.1))) ++ w2)).map strip =
      opnds3 (items.map (·.2.2)) := by
  cases items with
  | nil => simpa [opnds3] using split3_nil w1 w2 h1 h2
  | cons it r =>
    have := split3 ((it :: r).map fun x => (x.1, x.2.2)) w1 w2 h1 h2
      (by
        intro x hx
        simp only [List.mem_map] at hx
        obtain ⟨y, hy, rfl⟩ := hx
        exact (hit y hy).param) (by simp)
    simpa [opnds3, List.map_map, Function.comp_def] using this

theorem opnds_all (items : List (Str × List Str × Str)) (hit : ∀ it ∈ items, OpndItem it) :
    (padLine (intercal [','] (items.map (·.1)))).all (fun c => okL c && c != '(' && c != ')') = true := by
  apply padLine_items_all _ (by decide)
  intro x hx
  simp only [List.mem_map] at hx
  obtain ⟨y, hy, rfl⟩ := hx
  refine all_imp ?_ (hit y hy).1
  intro c hc
  simp only [okQ, Bool.and_eq_true] at hc
  simp [okP_okL hc.1.1, hc.1.2, hc.2]

theorem params_all (items : List (Str × Str)) (hit : ∀ it ∈ items, ParamItem it) :
    (padLine (intercal [','] (items.map (·.1)))).all okL = true := by
  apply padLine_items_all _ (by decide)
  intro x hx
  simp only [List.mem_map] at hx
  obtain ⟨y, hy, rfl⟩ := hx
  exact all_imp (fun _ => okP_okL) (hit y hy).1

/-! ## `head name ( params ) operands` -/

/-- the unpadded text of a call / definition head without its terminator -/
def callText (name : Str) (ps qs : List Str) : Str :=
  name ++ (if ps.isEmpty then [] else paren (intercal [','] ps)) ++ ' ' :: intercal [','] qs

/-- a fixed head (`gate `, `opaque `, nothing): its words, and that it is not `if (` -/
structure Head (pre : Str) (toks : List Str) : Prop where
  pad : padLine pre = pre
  all : pre.all (fun c => okL c && c != '(' && c != ')') = true
  sepC : ∀ rest, splitBy sepC (pre ++ rest) = toks ++ splitBy sepC rest
  ws : ∀ rest, splitBy isWs (pre ++ rest) = toks ++ splitBy isWs rest
  strip : toks.map Tok.strip = toks

theorem head_nil : Head [] [] := ⟨rfl, rfl, fun _ => rfl, fun _ => rfl, rfl⟩

theorem isWord_parts {w : Str} (h : isWord w = true) :
    w ≠ [] ∧ (∀ c ∈ w, sepC c = false) ∧ (∀ c ∈ w, isWs c = false) ∧ w.all plain = true := by
  obtain ⟨h1, h2⟩ := isWord_iff.mp h
  refine ⟨h1, fun c hc => plain_not_sepC (h2 c hc), fun c hc => plain_not_ws (h2 c hc), ?_⟩
  simpa [List.all_eq_true] using h2

theorem plain_okQ {c : Char} (h : plain c = true) : okQ c = true := by
  have := plain_ne h
  simp [okQ, okP, this]

theorem word_all_okB {w : Str} (h : w.all plain = true) :
    w.all (fun c => okL c && c != '(' && c != ')') = true := by
  refine all_imp ?_ h
  intro c hc
  have := plain_ne hc
  simp [okL, this]

/-- third branch on `pre name ( params ) operands`, any amount of whitespace after `)` -/
theorem call3_tokens (f : Nat) (pre : Str) (ptoks : List Str) (hp : Head pre ptoks) (name : Str)
    (hname : isWord name = true) (pi : List (Str × Str)) (hpi : ∀ it ∈ pi, ParamItem it) (hne : pi ≠ [])
    (qi : List (Str × List Str × Str)) (hqi : ∀ it ∈ qi, OpndItem it) (wq w : Str)
    (hwq : allSp wq = true) (hw : allSp w = true)
    (hif : ∀ rest, reIfHead (pre ++ name ++ ' ' :: rest) = false) :
    tokenizeLineF (f + 1)
        ((pre ++ name ++ [' ']) ++ ('(' :: ((' ' :: padLine (intercal [','] (pi.map (·.1))) ++ [' ']) ++
          (')' :: (wq ++ padLine (intercal [','] (qi.map (·.1))) ++ w))))) =
      .ok (ptoks ++ name :: cs!"(" :: pi.map (·.2) ++ cs!")" :: opnds3 (qi.map (·.2.2))) := by
  obtain ⟨hn1, hn2, hn3, hn4⟩ := isWord_parts hname
  have hpre := hp.all
  have hP := params_all pi hpi
  have hQ := opnds_all qi hqi
  rw [tokenizeLineF_call]
  · -- the tokens
    have e1 : splitWs (pre ++ name ++ [' ']) = ptoks ++ [name] := by
      unfold splitWs
      rw [List.append_assoc, hp.ws, splitBy_word isWs name [' '] hn1 hn3 (by simp [startsSep, isWs_space])]
      simp [splitBy_sep isWs [] isWs_space]
    have e2 := split3 pi [' '] [' '] (by decide) (by decide) hpi hne
    have e3 := opnds3_eq qi wq w (allSp_allWs hwq) (allSp_allWs hw) hqi
    simp only [List.singleton_append] at e2
    rw [e1]
    simp only [List.map_append, List.map_cons, List.map_nil, e2, e3, strip_open, strip_close, hp.strip,
      strip_word hn3]
    simp
  · intro c hc
    simp only [List.mem_append, List.mem_singleton] at hc
    rcases hc with (hc | hc) | hc
    · have := (List.all_eq_true.mp hpre) c hc
      simp only [okL, Bool.and_eq_true, bne_iff_ne, ne_eq] at this
      exact ⟨this.1.1.2, this.1.2⟩
    · have := plain_ne ((List.all_eq_true.mp hn4) c hc)
      exact ⟨this.2.2.2.2.2.2.2.2.2, this.1⟩
    · subst hc; exact ⟨by decide, by decide⟩
  · apply noNl_of_okL
    simp [List.all_append, hP, okL_space]
  · apply noNl_of_okL
    simp only [List.all_append, Bool.and_eq_true]
    refine ⟨⟨allSp_all hwq _ (by decide), all_imp (fun c hc => ?_) hQ⟩, allSp_all hw _ (by decide)⟩
    simp only [Bool.and_eq_true] at hc; exact hc.1.1
  · simp only [List.mem_append, not_or]
    refine ⟨⟨not_mem_of_all (allSp_all hwq (· != ')') (by decide)) (by decide), ?_⟩,
      not_mem_of_all (allSp_all hw (· != ')') (by decide)) (by decide)⟩
    exact not_mem_of_all hQ (by decide)
  · have := hif ('(' :: ((' ' :: padLine (intercal [','] (pi.map (·.1))) ++ [' ']) ++
          (')' :: (wq ++ padLine (intercal [','] (qi.map (·.1))) ++ w))))
    simpa [List.append_assoc] using this

/-- padded text of `callText` -/
def callP (name : Str) (ps qs : List Str) : Str :=
  if ps.isEmpty then name ++ ' ' :: padLine (intercal [','] qs)
  else (name ++ [' ']) ++ ('(' :: ((' ' :: padLine (intercal [','] ps) ++ [' ']) ++
          (')' :: (cs!"  " ++ padLine (intercal [','] qs)))))

theorem padLine_callText (name : Str) (ps qs : List Str) (hn : name.all plain = true) :
    padLine (callText name ps qs) = callP name ps qs := by
  unfold callText callP
  by_cases h : ps.isEmpty = true
  · simp [h, padLine_append, padLine_plain name hn, padLine_cons, padChar]
  · simp only [h, Bool.false_eq_true, if_false, paren]
    simp only [padLine_append, padLine_cons, padLine_nil, padLine_plain name hn]
    simp [padChar, List.append_assoc]

/-- **a call head, with or without parameter list** -/
theorem callP_tokens (f : Nat) (pre : Str) (ptoks : List Str) (hp : Head pre ptoks) (name : Str)
    (hname : isWord name = true) (pi : List (Str × Str)) (hpi : ∀ it ∈ pi, ParamItem it)
    (qi : List (Str × List Str × Str)) (hqi : ∀ it ∈ qi, OpndItem it) (w : Str) (hw : allSp w = true)
    (hif : pi ≠ [] → ∀ rest, reIfHead (pre ++ name ++ ' ' :: rest) = false) :
    tokenizeLineF (f + 1) (pre ++ callP name (pi.map (·.1)) (qi.map (·.1)) ++ w) =
      .ok (ptoks ++ callToks name (pi.map (·.2)) (qi.flatMap (·.2.1)) (qi.map (·.2.2))) := by
  obtain ⟨hn1, hn2, hn3, hn4⟩ := isWord_parts hname
  by_cases h : pi = []
  · subst h
    have hQ := opnds_all qi hqi
    have hno : '(' ∉ pre ++ (name ++ ' ' :: padLine (intercal [','] (qi.map (·.1)))) ++ w := by
      simp only [List.mem_append, List.mem_cons, not_or]
      refine ⟨⟨not_mem_of_all hp.all (by decide), not_mem_of_all (word_all_okB hn4) (by decide), by decide,
        not_mem_of_all hQ (by decide)⟩, not_mem_of_all (allSp_all hw (· != '(') (by decide)) (by decide)⟩
    simp only [callP, List.map_nil, List.isEmpty_nil, if_true, callToks]
    rw [tokenizeLineF_plain f _ hno, List.append_assoc, hp.sepC, List.append_assoc,
      splitBy_word sepC name _ hn1 hn2 (by simp [startsSep, sepC_space]), List.cons_append,
      splitBy_sep sepC _ sepC_space, opnds1 qi w (by
        cases w with
        | nil => rfl
        | cons c cs =>
          have := allSp_all hw sepC sepC_space
          simp only [List.all_cons, Bool.and_eq_true] at this
          simp [startsSep, this.1]) hqi,
      splitBy_allSep sepC w (allSp_all hw sepC sepC_space)]
    simp
  · have hne : (pi.map (·.1)).isEmpty = false := by
      cases pi with
      | nil => exact absurd rfl h
      | cons a b => rfl
    have hne2 : (pi.map (·.2)).isEmpty = false := by
      cases pi with
      | nil => exact absurd rfl h
      | cons a b => rfl
    simp only [callP, hne, Bool.false_eq_true, if_false, callToks, hne2]
    have := call3_tokens f pre ptoks hp name hname pi hpi h qi hqi cs!"  " w (by decide) hw (hif h)
    simp only [List.append_assoc, List.cons_append] at this ⊢
    exact this

/-! ## a statement body, alone or behind `if(c==k)` -/

/-- the two shapes of a statement body (text without `;`): no parenthesis at all, or a call with a
parameter list -/
def OpShape (body : Str) (toks : List Str) : Prop :=
  ((padLine body).all (fun c => okL c && c != '(' && c != ')') = true ∧
      ∀ w1 w2, allWs w1 = true → allWs w2 = true → splitBy sepC (w1 ++ padLine body ++ w2) = toks) ∨
  (∃ (name : Str) (pi : List (Str × Str)) (qi : List (Str × List Str × Str)), isWord name = true ∧ name ≠ cs!"if" ∧ pi ≠ [] ∧ (∀ it ∈ pi, ParamItem it) ∧
      (∀ it ∈ qi, OpndItem it) ∧ body = callText name (pi.map (·.1)) (qi.map (·.1)) ∧
      toks = callToks name (pi.map (·.2)) (qi.flatMap (·.2.1)) (qi.map (·.2.2)))

theorem isWs_sepC {c : Char} (h : isWs c = true) : sepC c = true := by simp [sepC, h]

/-- a word other than `if` followed by a blank does not look like `if (` -/
theorem reIfHead_word (name rest : Str) (hname : isWord name = true) (hne : name ≠ cs!"if") :
    reIfHead (name ++ ' ' :: rest) = false := by
  obtain ⟨hn1, _, hn3, hn4⟩ := isWord_parts hname
  unfold reIfHead
  cases name with
  | nil => exact absurd rfl hn1
  | cons a t =>
    have ha := hn3 a (by simp)
    rw [List.cons_append, wsStar_cons_nws _ _ ha]
    by_cases hai : a = 'i'
    · subst hai
      rw [lit_cons_self]
      cases t with
      | nil => simp [lit]
      | cons b t2 =>
        by_cases hbf : b = 'f'
        · subst hbf
          rw [List.cons_append, lit_cons_self]
          cases t2 with
          | nil => exact absurd rfl hne
          | cons d t3 =>
            have hd := hn3 d (by simp)
            have hd2 := plain_ne ((List.all_eq_true.mp hn4) d (by simp))
            rw [List.cons_append, wsStar_cons_nws _ _ hd, lit_cons_ne _ _ hd2.1]; rfl
        · rw [List.cons_append, lit_cons_ne _ _ hbf]; rfl
    · rw [lit_cons_ne _ _ hai]; rfl

theorem allWs_sepC {w : Str} (h : allWs w = true) : w.all sepC = true :=
  all_imp (fun _ hc => isWs_sepC hc) h

/-- **one statement body as a command of its own** -/
theorem shape_tokens (f : Nat) (body : Str) (toks : List Str) (h : OpShape body toks) (w : Str)
    (hw : allSp w = true) : tokenizeLineF (f + 1) (padLine body ++ w) = .ok toks := by
  rcases h with ⟨hall, hs⟩ | ⟨name, pi, qi, hname, hnif, hne, hpi, hqi, rfl, rfl⟩
  · have hno : '(' ∉ padLine body ++ w := by
      simp only [List.mem_append, not_or]
      exact ⟨not_mem_of_all hall (by decide), not_mem_of_all (allSp_all hw (· != '(') (by decide)) (by decide)⟩
    rw [tokenizeLineF_plain f _ hno]
    have := hs [] w rfl (allSp_allWs hw)
    simpa using this
  · obtain ⟨_, _, _, hn4⟩ := isWord_parts hname
    rw [padLine_callText _ _ _ hn4]
    have := callP_tokens f [] [] head_nil name hname pi hpi qi hqi w hw
      (fun _ rest => by simpa using reIfHead_word name rest hname hnif)
    simpa using this

theorem strip_spaces_pad (s : Str) : strip (' ' :: s ++ [' ']) = strip s := by
  have := strip_pad [' '] s [' '] (by decide) (by decide)
  simpa using this

/-- **the same body behind `if(cond) `** (text as rendered: `if(` cond `) ` body) -/
theorem shape_if_tokens (body : Str) (toks : List Str) (h : OpShape body toks) (cond : Str)
    (hc : cond.all plain = true) :
    tokenizeLine (padLine (cs!"if(" ++ cond ++ cs!") " ++ body)) =
      .ok ([cs!"if", cs!"(", cond, cs!")"] ++ toks) := by
  have hcond : padLine cond = cond := padLine_plain cond hc
  have hcws : ∀ c ∈ cond, isWs c = false := fun c hc' => plain_not_ws ((List.all_eq_true.mp hc) c hc')
  have epad : padLine (cs!"if(" ++ cond ++ cs!") " ++ body) =
      'i' :: 'f' :: [' '] ++ '(' :: ((' ' :: cond ++ [' ']) ++ ')' :: ([' ', ' '] ++ padLine body)) := by
    simp only [padLine_append, padLine_cons, hcond, padChar, padLine_nil]
    simp [List.append_assoc]
  have hg1 : ∀ c ∈ (' ' :: cond ++ [' ']), c ≠ '\n' ∧ c ≠ ')' := by
    intro c hc'
    simp only [List.mem_append, List.mem_cons, List.mem_singleton, List.not_mem_nil, or_false] at hc'
    rcases hc' with (rfl | hc') | rfl
    · exact ⟨by decide, by decide⟩
    · have := plain_ne ((List.all_eq_true.mp hc) c hc'); exact ⟨this.2.2.2.2.2.2.2.2.2, this.2.1⟩
    · exact ⟨by decide, by decide⟩
  have hstrip : strip (' ' :: cond ++ [' ']) = cond := by
    rw [strip_spaces_pad]; exact strip_word hcws
  rw [epad]
  rcases h with ⟨hall, hs⟩ | ⟨name, pi, qi, hname, hnif, hne, hpi, hqi, rfl, rfl⟩
  · -- no parenthesis: second pattern
    rw [tokenizeLine_ifPlain [' '] (' ' :: cond ++ [' ']) ([' ', ' '] ++ padLine body) (by decide)
      (fun c hc' => (hg1 c hc').1)
      (by
        apply noNl_of_okL
        simp only [List.all_append, Bool.and_eq_true]
        exact ⟨by decide, all_imp (fun c hc' => by simp only [Bool.and_eq_true] at hc'; exact hc'.1.1) hall⟩)
      (by
        simp only [List.mem_append, not_or]
        exact ⟨by decide, not_mem_of_all hall (by decide)⟩)
      (by
        simp only [List.mem_append, List.mem_cons, List.mem_singleton, List.not_mem_nil, or_false, not_or]
        refine ⟨⟨by decide, ?_⟩, by decide⟩
        intro hm; exact (plain_ne ((List.all_eq_true.mp hc) _ hm)).1 rfl)
      (by
        simp only [List.mem_append, not_or]
        exact ⟨by decide, not_mem_of_all hall (by decide)⟩)]
    have := hs [' ', ' '] [] (by decide) rfl
    simp only [List.append_nil] at this
    rw [this, hstrip]
  · -- a parameter list: first pattern, then the third branch on `name (params) operands`
    obtain ⟨hn1, hn2, hn3, hn4⟩ := isWord_parts hname
    rw [padLine_callText _ _ _ hn4]
    have hne1 : (pi.map (·.1)).isEmpty = false := by
      cases pi with
      | nil => exact absurd rfl hne
      | cons a b => rfl
    have hne2 : (pi.map (·.2)).isEmpty = false := by
      cases pi with
      | nil => exact absurd rfl hne
      | cons a b => rfl
    simp only [callP, hne1, Bool.false_eq_true, if_false, callToks, hne2]
    have hP := params_all pi hpi
    have hQ := opnds_all qi hqi
    -- the inner command
    have hin : ∀ f, tokenizeLineF (f + 1)
        (name ++ cs!" (" ++ (' ' :: padLine (intercal [','] (pi.map (·.1))) ++ [' ']) ++ cs!") " ++
          (cs!"  " ++ padLine (intercal [','] (qi.map (·.1))))) =
        .ok (name :: cs!"(" :: pi.map (·.2) ++ cs!")" :: opnds3 (qi.map (·.2.2))) := by
      intro f
      have := call3_tokens f [] [] head_nil name hname pi hpi hne qi hqi cs!"   " [] (by decide) rfl
        (fun rest => by simpa using reIfHead_word name rest hname hnif)
      simp only [List.nil_append, List.append_nil] at this
      rw [← this]
      simp [List.append_assoc]
    have key := tokenizeLine_ifArgs [' '] (' ' :: cond ++ [' ']) [' ', ' '] name []
      (' ' :: padLine (intercal [','] (pi.map (·.1))) ++ [' '])
      (cs!"  " ++ padLine (intercal [','] (qi.map (·.1)))) ' '
      (by decide) hg1 (by decide) hn1 hn3 (by decide) rfl
      (by apply noNl_of_okL; simp [List.all_append, hP, okL_space])
      (by
        apply noNl_of_okL
        simp only [List.all_append, Bool.and_eq_true]
        exact ⟨by decide, all_imp (fun c hc' => by simp only [Bool.and_eq_true] at hc'; exact hc'.1.1) hQ⟩)
      (by
        simp only [List.mem_append, not_or]
        exact ⟨by decide, not_mem_of_all hQ (by decide)⟩)
      _ hin
    simp only [List.append_assoc, List.cons_append, List.nil_append] at key hstrip ⊢
    rw [key, hstrip]
    -- the inner tokens are already stripped
    have hst : (name :: cs!"(" :: pi.map (·.2) ++ cs!")" :: opnds3 (qi.map (·.2.2))).map strip =
        name :: cs!"(" :: pi.map (·.2) ++ cs!")" :: opnds3 (qi.map (·.2.2)) := by
      have h1 : (pi.map (·.2)).map strip = pi.map (·.2) := by
        rw [List.map_map]
        apply List.map_congr_left
        intro it hit
        simp only [Function.comp_def]
        rw [← (hpi it hit).2, strip_idem]
      have h2 : (opnds3 (qi.map (·.2.2))).map strip = opnds3 (qi.map (·.2.2)) := by
        unfold opnds3
        split
        · decide
        · rw [List.map_map]
          apply List.map_congr_left
          intro it hit
          simp only [Function.comp_def]
          rw [← (hqi it hit).2.1, strip_idem]
      simp only [List.map_cons, List.map_append, h1, h2, strip_open, strip_close, strip_word hn3]
    simp only [List.cons_append, List.append_assoc, List.nil_append] at hst ⊢
    rw [hst]

end QipVerif.Qasm.Tok
