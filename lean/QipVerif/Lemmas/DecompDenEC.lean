import QipVerif.Lemmas.DecompDenSem
import QipVerif.Model.Decompose
/-!
# C03 — consistency of the exact (ℤ[ζ₁₆][1/2]) and the complex denotation of fixed-angle circuits

`gateDenE k g = some D` implies that the complex semantics `semD` of the gate is `toMatD k D`
(rotations, controlled rotations and PHASEGATE/CPHASE at multiples of π/4, GLOBALPHASE at multiples
of π/8, every fixed gate of the library), hence `denE k gs = some D → denG k ρ gs = some (toMatD k D)`, and a kernel-checked
`ruleSoundE m body g₀ = true` yields an identity between complex operators on the canonical
placement (`rule_canon`).
-/
namespace QipVerif
open Complex Embed

theorem enc_one (x : St 1) : enc x = (x 0).val := by
  simp [enc, bitsL, undigits, prodL]

theorem toMatD_one_eq (e : ℕ) (a b c d : Cyc) :
    toMatD 1 ⟨e, [[a, b], [c, d]]⟩ = mat1 (((1 : ℂ) / 2 ^ e) • !![Cyc.toC a, Cyc.toC b; Cyc.toC c, Cyc.toC d]) := by
  ext x y
  simp only [toMatD, toMat, mat1, enc_one, Matrix.smul_apply, CMat.get]
  generalize x 0 = i
  generalize y 0 = j
  fin_cases i <;> fin_cases j <;> simp

open Cyc in
theorem rx_def (n : ℤ) : GateE.rx n = ⟨1, [[cos2 n, neg (mul Cyc.I (sin2 n))], [neg (mul Cyc.I (sin2 n)), cos2 n]]⟩ := rfl
open Cyc in
theorem ry_def (n : ℤ) : GateE.ry n = ⟨1, [[cos2 n, neg (sin2 n)], [sin2 n, cos2 n]]⟩ := rfl
open Cyc in
theorem rz_def (n : ℤ) : GateE.rz n = ⟨0, [[zpow (-n), Cyc.zero], [Cyc.zero, zpow n]]⟩ := rfl
open Cyc in
theorem phasegate_def (n : ℤ) : GateE.phasegate n = ⟨0, [[Cyc.one, Cyc.zero], [Cyc.zero, zpow (2 * n)]]⟩ := rfl

namespace Cyc
theorem toC_zpow (n : ℤ) : toC (zpow n) = Complex.exp ((n : ℂ) * ((Real.pi : ℂ) / 8) * Complex.I) := by
  unfold zpow
  rw [toC_zetaPow]
  have hk : (((n % 16).toNat : ℤ)) = n % 16 := Int.toNat_of_nonneg (Int.emod_nonneg _ (by norm_num))
  have hn : n = ((n % 16).toNat : ℤ) + 16 * (n / 16) := by omega
  generalize (n % 16).toNat = k at hk hn
  generalize n / 16 = j at hn
  subst hn
  unfold ζ
  rw [← Complex.exp_nat_mul]
  have : (((k : ℤ) + 16 * j : ℤ) : ℂ) * ((Real.pi : ℂ) / 8) * Complex.I
      = (k : ℂ) * ((Real.pi : ℂ) / 8 * Complex.I) + (j : ℂ) * (2 * (Real.pi : ℂ) * Complex.I) := by
    push_cast; ring
  rw [this, Complex.exp_add, Complex.exp_int_mul_two_pi_mul_I, mul_one]

theorem toC_I : toC I = Complex.I := by
  unfold I
  rw [toC_zetaPow]
  unfold ζ
  rw [← Complex.exp_nat_mul]
  rw [show ((4 : ℕ) : ℂ) * ((Real.pi : ℂ) / 8 * Complex.I) = (Real.pi : ℂ) / 2 * Complex.I by push_cast; ring,
    Complex.exp_pi_div_two_mul_I]

theorem toC_cos2 (n : ℤ) : toC (cos2 n) = 2 * Complex.cos ((n : ℂ) * ((Real.pi : ℂ) / 8)) := by
  unfold cos2
  rw [toC_add, toC_zpow, toC_zpow, Complex.cos]
  push_cast
  ring_nf

theorem toC_sin2 (n : ℤ) : toC (sin2 n) = 2 * Complex.sin ((n : ℂ) * ((Real.pi : ℂ) / 8)) := by
  unfold sin2
  rw [toC_neg, toC_mul, toC_sub, toC_zpow, toC_zpow, toC_I, Complex.sin]
  push_cast
  ring_nf
end Cyc

theorem toMatD_rx (n : ℤ) (θ : ℝ) (hθ : θ = (n : ℝ) * (Real.pi / 4)) :
    toMatD 1 (GateE.rx n) = mat1 (Gen.G.rx_ θ) := by
  rw [rx_def, toMatD_one_eq]; congr 1
  have hθ' : (θ : ℂ) / 2 = (n : ℂ) * ((Real.pi : ℂ) / 8) := by rw [hθ]; push_cast; ring
  unfold Gen.G.rx_; rw [hθ']
  simp only [Cyc.toC_neg, Cyc.toC_mul, Cyc.toC_I, Cyc.toC_cos2, Cyc.toC_sin2]
  ext i j; fin_cases i <;> fin_cases j <;> simp <;> ring

theorem toMatD_ry (n : ℤ) (θ : ℝ) (hθ : θ = (n : ℝ) * (Real.pi / 4)) :
    toMatD 1 (GateE.ry n) = mat1 (Gen.G.ry_ θ) := by
  rw [ry_def, toMatD_one_eq]; congr 1
  have hθ' : (θ : ℂ) / 2 = (n : ℂ) * ((Real.pi : ℂ) / 8) := by rw [hθ]; push_cast; ring
  unfold Gen.G.ry_; rw [hθ']
  simp only [Cyc.toC_neg, Cyc.toC_cos2, Cyc.toC_sin2]
  ext i j; fin_cases i <;> fin_cases j <;> simp

theorem toMatD_rz (n : ℤ) (θ : ℝ) (hθ : θ = (n : ℝ) * (Real.pi / 4)) :
    toMatD 1 (GateE.rz n) = mat1 (Gen.G.rz_ θ) := by
  rw [rz_def, toMatD_one_eq]; congr 1
  unfold Gen.G.rz_
  have h1 : -Complex.I * (θ : ℂ) / 2 = ((-n : ℤ) : ℂ) * ((Real.pi : ℂ) / 8) * Complex.I := by
    rw [hθ]; push_cast; ring
  have h2 : Complex.I * (θ : ℂ) / 2 = ((n : ℤ) : ℂ) * ((Real.pi : ℂ) / 8) * Complex.I := by
    rw [hθ]; push_cast; ring
  rw [h1, h2, ← Cyc.toC_zpow, ← Cyc.toC_zpow]
  ext i j; fin_cases i <;> fin_cases j <;> simp

theorem toMatD_phasegate (n : ℤ) (θ : ℝ) (hθ : θ = (n : ℝ) * (Real.pi / 4)) :
    toMatD 1 (GateE.phasegate n) = mat1 (Gen.G.phasegate_ θ) := by
  rw [phasegate_def, toMatD_one_eq]; congr 1
  unfold Gen.G.phasegate_
  have h2 : Complex.I * (θ : ℂ) = ((2 * n : ℤ) : ℂ) * ((Real.pi : ℂ) / 8) * Complex.I := by
    rw [hθ]; push_cast; ring
  rw [h2, ← Cyc.toC_zpow]
  ext i j; fin_cases i <;> fin_cases j <;> simp

theorem enc_two_fn (x : St 2) : enc x = 2 * (x 0).val + (x 1).val := by
  simp [enc, bitsL, undigits, prodL, List.ofFn_succ]
  ring

theorem ctrl_def (u : DMat) : GateE.ctrl u =
    ⟨u.e, [[Cyc.ofInt (2 ^ u.e), Cyc.zero, Cyc.zero, Cyc.zero], [Cyc.zero, Cyc.ofInt (2 ^ u.e), Cyc.zero, Cyc.zero],
      [Cyc.zero, Cyc.zero, u.m.get 0 0, u.m.get 0 1], [Cyc.zero, Cyc.zero, u.m.get 1 0, u.m.get 1 1]]⟩ := rfl

theorem toMatD_ctrl (e : ℕ) (a b c d : Cyc) (M : Matrix (Fin 2) (Fin 2) ℂ)
    (hM : toMatD 1 ⟨e, [[a, b], [c, d]]⟩ = mat1 M) :
    toMatD 2 (GateE.ctrl ⟨e, [[a, b], [c, d]]⟩) = ctrl1 M := by
  rw [toMatD_one_eq] at hM
  have hM' : M = ((1 : ℂ) / 2 ^ e) • !![Cyc.toC a, Cyc.toC b; Cyc.toC c, Cyc.toC d] := by
    ext i j
    have := congrFun (congrFun hM (fun _ => i)) (fun _ => j)
    simpa [mat1] using this.symm
  subst hM'
  have h2 : (2 : ℂ) ^ e ≠ 0 := pow_ne_zero _ (by norm_num)
  rw [ctrl_def]
  ext x y
  simp only [toMatD, toMat, enc_two_fn, ctrl1, Matrix.smul_apply, CMat.get]
  generalize x 0 = i0
  generalize x 1 = i1
  generalize y 0 = j0
  generalize y 1 = j1
  fin_cases i0 <;> fin_cases i1 <;> fin_cases j0 <;> fin_cases j1 <;> simp [Cyc.toC_ofInt, h2]

theorem Ang.eval_fixed (ρ : ℕ → ℝ) (a : Ang) (h : a.isFixed = true) : a.eval ρ = (a.p8 : ℝ) * (Real.pi / 8) := by
  unfold Ang.isFixed at h
  unfold Ang.eval
  cases hs : a.sym with
  | none => simp
  | some j =>
    have : a.cn = 0 := by simpa [hs] using h
    simp [this]

theorem toMatD_embedE (k : ℕ) (qs : List Nat) (m : ℕ) (U : DMat) (hm : qs.length = m) (hn : qs.Nodup)
    (hr : ∀ q ∈ qs, q < k) :
    toMatD k ⟨U.e, embedE k qs U.m⟩ = (tgL k qs m hm hn hr).embed (toMatD m U) := by
  subst hm
  simp only [toMatD, toMat_embedE k qs U.m hn hr, Tg.embed_smul]
  rfl

/-- names whose complex matrix `compactC` ties to the exact library -/
def ecName (n : GName) : Bool := !([GName.GLOBALPHASE].contains n)

theorem half_angle (p8 : ℤ) (h : p8 % 2 = 0) : ((p8 : ℝ)) * (Real.pi / 8) = ((p8 / 2 : ℤ) : ℝ) * (Real.pi / 4) := by
  have : p8 = 2 * (p8 / 2) := by omega
  generalize p8 / 2 = j at this
  subst this
  push_cast; ring

theorem compact_EC (n : GName) (p8 : ℤ) (m : ℕ) (D : DMat) (hn : ecName n = true)
    (h : gateE n p8 = some (m, D)) : compactC n ((p8 : ℝ) * (Real.pi / 8)) = some ⟨m, toMatD m D⟩ := by
  cases n
  case RX =>
    simp only [gateE] at h; split at h
    · rename_i he; cases h; simp only [compactC]; rw [toMatD_rx _ _ (half_angle p8 he)]
    · cases h
  case RY =>
    simp only [gateE] at h; split at h
    · rename_i he; cases h; simp only [compactC]; rw [toMatD_ry _ _ (half_angle p8 he)]
    · cases h
  case RZ =>
    simp only [gateE] at h; split at h
    · rename_i he; cases h; simp only [compactC]; rw [toMatD_rz _ _ (half_angle p8 he)]
    · cases h
  case PHASEGATE =>
    simp only [gateE] at h; split at h
    · rename_i he; cases h; simp only [compactC]; rw [toMatD_phasegate _ _ (half_angle p8 he)]
    · cases h
  case CRX =>
    simp only [gateE] at h; split at h
    · rename_i he; cases h; simp only [compactC]
      rw [rx_def]; rw [toMatD_ctrl _ _ _ _ _ _ (by rw [← rx_def]; exact toMatD_rx _ _ (half_angle p8 he))]
    · cases h
  case CRY =>
    simp only [gateE] at h; split at h
    · rename_i he; cases h; simp only [compactC]
      rw [ry_def]; rw [toMatD_ctrl _ _ _ _ _ _ (by rw [← ry_def]; exact toMatD_ry _ _ (half_angle p8 he))]
    · cases h
  case CRZ =>
    simp only [gateE] at h; split at h
    · rename_i he; cases h; simp only [compactC]
      rw [rz_def]; rw [toMatD_ctrl _ _ _ _ _ _ (by rw [← rz_def]; exact toMatD_rz _ _ (half_angle p8 he))]
    · cases h
  case CPHASE =>
    simp only [gateE] at h; split at h
    · rename_i he; cases h; simp only [compactC]
      rw [phasegate_def]
      rw [toMatD_ctrl _ _ _ _ _ _ (by rw [← phasegate_def]; exact toMatD_phasegate _ _ (half_angle p8 he))]
    · cases h
  all_goals first
    | (simp [ecName] at hn; done)
    | (simp only [gateE] at h; cases h; rfl)
    | (simp only [gateE] at h; cases h)

/-- gates for which the exact and the complex denotation are tied: a GLOBALPHASE carries no qubit
(`gateDenE` does not look at the qubits of a GLOBALPHASE, `semG` requires none) -/
def ecOK (g : Gate) : Bool := g.name != .GLOBALPHASE || g.qubits.isEmpty

theorem phase_p8 (p8 : ℤ) : GateC.phase ((p8 : ℝ) * (Real.pi / 8)) = Cyc.toC (Cyc.zpow p8) := by
  rw [Cyc.toC_zpow]; unfold GateC.phase; congr 1; push_cast; ring

theorem gate_EC (k : ℕ) (ρ : ℕ → ℝ) (g : Gate) (D : DMat) (hok : ecOK g = true) (h : gateDenE k g = some D) :
    semD k ρ g = some (toMatD k D) ∧ WF (2 ^ k) D.m := by
  unfold gateDenE at h
  split at h
  · cases h
  rename_i hfix
  have hev := Ang.eval_fixed ρ g.arg (by simpa using hfix)
  split at h
  · rename_i hname; cases h
    have hq : g.qubits = [] := by simpa [ecOK, hname] using hok
    rw [semD_gphase k ρ g hname hq, hev, phase_p8, toMatD_smul, toMatD_ident]
    exact ⟨rfl, WF_smul _ _ _ (WF_ident _)⟩
  · rename_i hname
    split at h
    · cases h
    · rename_i m U hg
      simp only [] at h
      split at h
      · rename_i hc; cases h
        have hr : ∀ q ∈ g.qubits, q < k := by simpa using hc.2.2
        have hn : ecName g.name = true := by simp [ecName, hname]
        refine ⟨?_, WF_embedE _ _ _⟩
        rw [semD_of k ρ g m (toMatD m U) (by rw [hev]; exact compact_EC _ _ _ _ hn hg) hc.1 hc.2.1 hr,
          toMatD_embedE]
      · cases h

theorem den_EC (k : ℕ) (ρ : ℕ → ℝ) (gs : List Gate) (D : DMat) (hok : ∀ g ∈ gs, ecOK g = true)
    (h : denE k gs = some D) : denG k ρ gs = some (toMatD k D) ∧ WF (2 ^ k) D.m := by
  induction gs generalizing D with
  | nil =>
    simp only [denE, Option.some.injEq] at h
    subst h
    exact ⟨by rw [denG_nil, toMatD_ident], WF_ident _⟩
  | cons g gs ih =>
    unfold denE at h
    cases h1 : gateDenE k g with
    | none => simp [h1] at h
    | some G =>
      cases h2 : denE k gs with
      | none => simp [h1, h2] at h
      | some R =>
        simp only [h1, h2, Option.some.injEq] at h
        subst h
        obtain ⟨hG, hGw⟩ := gate_EC k ρ g G (hok g List.mem_cons_self) h1
        obtain ⟨hR, hRw⟩ := ih R (fun x hx => hok x (List.mem_cons_of_mem _ hx)) h2
        refine ⟨?_, WF_mul _ _ _ hRw⟩
        rw [denG_cons_some k ρ g gs _ _ hG hR, toMatD_mul k R G hRw hGw]

namespace Decomp

/-- template gates whose instances satisfy `ecOK` -/
def ecOKT (t : TGate) : Bool :=
  t.name != .GLOBALPHASE || (t.targets.isEmpty && t.controls.isEmpty)

theorem inst_ecOK (g : Gate) (t : TGate) (g' : Gate) (h : t.inst g = some g') (ht : ecOKT t = true) :
    ecOK g' = true := by
  unfold TGate.inst at h
  split at h
  · rename_i ts cs h1 h2
    cases h
    simp only [ecOKT, Bool.and_eq_true, Bool.or_eq_true, List.isEmpty_iff] at ht
    simp only [ecOK, Bool.or_eq_true, List.isEmpty_iff, Gate.qubits]
    rcases ht with hn | ⟨ht1, ht2⟩
    · exact Or.inl hn
    · right
      rw [ht1] at h1; rw [ht2] at h2
      simp at h1 h2
      subst h1; subst h2; rfl
  · cases h

theorem mapM_mem {α β : Type} (f : α → Option β) : ∀ (l : List α) (r : List β), l.mapM f = some r →
    ∀ b ∈ r, ∃ a ∈ l, f a = some b := by
  intro l
  induction l with
  | nil => intro r h b hb; simp at h; subst h; cases hb
  | cons a as ih =>
    intro r h b hb
    rw [List.mapM_cons] at h
    cases h1 : f a with
    | none => simp [h1] at h
    | some b' =>
      cases h2 : as.mapM f with
      | none => simp [h1, h2] at h
      | some r' =>
        simp [h1, h2] at h
        subst h
        rcases List.mem_cons.mp hb with rfl | hb'
        · exact ⟨a, List.mem_cons_self, h1⟩
        · obtain ⟨a', ha', hfa⟩ := ih r' h2 b hb'
          exact ⟨a', List.mem_cons_of_mem _ ha', hfa⟩

theorem instBody_ecOK (g : Gate) (body : List TGate) (gs : List Gate) (h : instBody g body = some gs)
    (hb : body.all ecOKT = true) : ∀ g' ∈ gs, ecOK g' = true := by
  intro g' hg'
  obtain ⟨t, ht, hi⟩ := mapM_mem _ body gs h g' hg'
  exact inst_ecOK g t g' hi (List.all_eq_true.mp hb t ht)

/-- a kernel-checked exact rule identity, read over ℂ on the canonical placement -/
theorem rule_canon (m : ℕ) (body : List TGate) (g₀ : Gate) (ρ : ℕ → ℝ)
    (hs : ruleSoundE m body g₀ = true) (hb : body.all ecOKT = true) (hg : ecOK g₀ = true) :
    ∃ gs₀ A, instBody g₀ body = some gs₀ ∧ denG m ρ gs₀ = some A ∧ semD m ρ g₀ = some A := by
  unfold ruleSoundE at hs
  cases hi : instBody g₀ body with
  | none => simp [hi] at hs
  | some gs₀ =>
    simp only [hi] at hs
    unfold sameDenE at hs
    cases hA : denE m gs₀ with
    | none => simp [hA] at hs
    | some A =>
      cases hB : denE m [g₀] with
      | none => simp [hA, hB] at hs
      | some B =>
        simp only [hA, hB] at hs
        have heq := eqv_sound m A B hs
        obtain ⟨h1, _⟩ := den_EC m ρ gs₀ A (instBody_ecOK g₀ body gs₀ hi hb) hA
        obtain ⟨h2, _⟩ := den_EC m ρ [g₀] B (by intro x hx; simp at hx; subst hx; exact hg) hB
        rw [denG_single] at h2
        exact ⟨gs₀, toMatD m A, rfl, h1, by rw [heq]; exact h2⟩

end Decomp
end QipVerif
