import QipVerif.Num.Cyc
import Mathlib.Analysis.SpecialFunctions.Trigonometric.Basic
import Mathlib.Tactic.Ring
import Mathlib.Tactic.LinearCombination
/-! The ring homomorphism ℤ[ζ₁₆] → ℂ, ζ ↦ e^{iπ/8}: every identity decided in `Cyc` by the kernel is
an identity between the complex numbers (and matrices) users see. -/
namespace QipVerif.Cyc
open Complex

noncomputable def ζ : ℂ := Complex.exp ((Real.pi : ℂ) / 8 * Complex.I)

theorem ζ8 : ζ ^ 8 = -1 := by
  unfold ζ
  rw [← Complex.exp_nat_mul]
  have : ((8 : ℕ) : ℂ) * ((Real.pi : ℂ) / 8 * Complex.I) = (Real.pi : ℂ) * Complex.I := by push_cast; ring
  rw [this, Complex.exp_pi_mul_I]

theorem ζ16 : ζ ^ 16 = 1 := by
  have : ζ ^ 16 = (ζ ^ 8) ^ 2 := by ring
  rw [this, ζ8]; norm_num

noncomputable def toC (a : Cyc) : ℂ :=
  a.c0 + a.c1 * ζ + a.c2 * ζ ^ 2 + a.c3 * ζ ^ 3 + a.c4 * ζ ^ 4 + a.c5 * ζ ^ 5 + a.c6 * ζ ^ 6 + a.c7 * ζ ^ 7

@[simp] theorem toC_zero : toC zero = 0 := by simp [toC, zero]
@[simp] theorem toC_one : toC one = 1 := by simp [toC, one]
theorem toC_ofInt (n : Int) : toC (ofInt n) = n := by simp [toC, ofInt]
theorem toC_add (a b : Cyc) : toC (add a b) = toC a + toC b := by
  simp only [toC, add]; push_cast; ring
theorem toC_neg (a : Cyc) : toC (neg a) = -toC a := by
  simp only [toC, neg]; push_cast; ring
theorem toC_sub (a b : Cyc) : toC (sub a b) = toC a - toC b := by
  rw [sub, toC_add, toC_neg]; ring
theorem toC_smul (k : Int) (a : Cyc) : toC (smul k a) = k * toC a := by
  simp only [toC, smul]; push_cast; ring
theorem toC_mulZeta (a : Cyc) : toC (mulZeta a) = ζ * toC a := by
  simp only [toC, mulZeta]; push_cast
  linear_combination (-(a.c7 : ℂ)) * ζ8
theorem toC_mul (a b : Cyc) : toC (mul a b) = toC a * toC b := by
  simp only [mul, toC_add, toC_smul, toC_mulZeta]
  simp only [toC]; ring
theorem toC_zetaPow (n : ℕ) : toC (zetaPow n) = ζ ^ n := by
  induction n with
  | zero => simp [zetaPow]
  | succ n ih => rw [zetaPow, toC_mulZeta, ih]; ring

end QipVerif.Cyc
