import QipVerif.Model.Grid
/-! Lemmas about the step function `stepAt` of a channel (C14). -/
namespace QipVerif.Grid

theorem stepAt_lt_head (tl cs : List Rat) (t : Rat) (h : ∀ p ∈ tl, t < p) : stepAt tl cs t = 0 := by
  fun_induction stepAt tl cs t with
  | case1 a b tl c cs t hh => have := h a (by simp); grind
  | case2 a b tl c cs t hh ih => exact ih (fun p hp => h p (by simp [hp]))
  | case3 => rfl

theorem stepAt_ge_all (tl cs : List Rat) (t : Rat) (h : ∀ p ∈ tl, p ≤ t) : stepAt tl cs t = 0 := by
  fun_induction stepAt tl cs t with
  | case1 a b tl c cs t hh => have := h b (by simp); grind
  | case2 a b tl c cs t hh ih => exact ih (fun p hp => h p (by simp [hp]))
  | case3 => rfl

/-- in a strictly increasing list every element is at least the head -/
theorem head_le_of_pairwise {a : Rat} {l : List Rat} (h : (a :: l).Pairwise (· < ·)) (i : Nat) (hi : i < (a :: l).length) :
    a ≤ (a :: l)[i] := by
  cases i with
  | zero => simp
  | succ j =>
    have := (List.pairwise_cons.mp h).1 (l[j]'(by simpa using hi)) (List.getElem_mem _)
    simp; exact Rat.le_of_lt this

/-- value in slot `i` -/
theorem stepAt_slot (tl cs : List Rat) (t : Rat) (hp : tl.Pairwise (· < ·)) (i : Nat)
    (h1 : i + 1 < tl.length) (hc : i < cs.length) (hlo : tl[i] ≤ t) (hhi : t < tl[i + 1]) :
    stepAt tl cs t = cs[i] := by
  fun_induction stepAt tl cs t generalizing i with
  | case1 a b tl c cs t hh =>
    cases i with
    | zero => rfl
    | succ j =>
      exfalso
      have hp' := (List.pairwise_cons.mp hp).2
      have : b ≤ (b :: tl)[j]'(by simp at h1 ⊢; omega) := head_le_of_pairwise hp' j _
      simp at hlo
      grind
  | case2 a b tl c cs t hh ih =>
    cases i with
    | zero => simp at hlo hhi; grind
    | succ j =>
      have hp' := (List.pairwise_cons.mp hp).2
      simpa using ih hp' j (by simp at h1 ⊢; omega) (by simp at hc ⊢; omega) (by simpa using hlo) (by simpa using hhi)
  | case3 tl cs t hne =>
    exfalso
    match tl, cs with
    | a :: b :: tl, c :: cs => exact hne a b tl c cs rfl rfl
    | [], _ => simp at h1
    | [_], _ => simp at h1
    | _ :: _ :: _, [] => simp at hc

/-- coefficients beyond the last slot are never read -/
theorem stepAt_append (tl cs extra : List Rat) (t : Rat) (h : tl.length ≤ cs.length + 1) :
    stepAt tl (cs ++ extra) t = stepAt tl cs t := by
  fun_induction stepAt tl cs t with
  | case1 a b tl c cs t hh => simp [stepAt, hh]
  | case2 a b tl c cs t hh ih =>
    simp only [List.cons_append, stepAt, hh, if_false]
    exact ih (by simp at h ⊢; omega)
  | case3 tl cs t hne =>
    match tl, cs with
    | a :: b :: tl, c :: cs => exact (hne a b tl c cs rfl rfl).elim
    | [], _ => simp [stepAt]
    | [_], _ => simp [stepAt]
    | _ :: _ :: _, [] => simp at h

end QipVerif.Grid
