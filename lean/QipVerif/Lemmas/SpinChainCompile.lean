import QipVerif.Lemmas.SpinChainReal
import QipVerif.Lemmas.SpinChainLabel
import QipVerif.Lemmas.DecompDenStages
import QipVerif.Lemmas.RouteC
/-!
# C06: what the compiled instructions do — global phase, ideal propagator of an instruction,
one gate at a time, and the whole gate list in circuit order
-/
namespace QipVerif.SpinChain
open QipVerif QipVerif.Gen QipVerif.Gen.SC Matrix

/-! ## accumulated global phase -/

/-- the gate is compiled by the rule "add the angle to `self.global_phase`" -/
def isPhaseGate (g : Gate) : Bool := gateCompiler.lookup g.name.toString == some Rule.phase

/-- sum of the angles of the phase gates of a gate list -/
noncomputable def phaseSum (ev : Ang → ℝ) (gs : List Gate) : ℝ :=
  ((gs.filter isPhaseGate).map fun g => ev g.arg).sum

theorem phaseSum_nil (ev : Ang → ℝ) : phaseSum ev [] = 0 := by simp [phaseSum]

theorem phaseSum_cons (ev : Ang → ℝ) (g : Gate) (gs : List Gate) :
    phaseSum ev (g :: gs) = (if isPhaseGate g then ev g.arg else 0) + phaseSum ev gs := by
  unfold phaseSum
  by_cases h : isPhaseGate g = true
  · simp [List.filter_cons, h]
  · simp [List.filter_cons, h]

/-- what `compileGate` returns determines whether the gate is a phase gate -/
theorem compileGate_phase {pi : ℝ} {ev : Ang → ℝ} {N : ℕ} {P : Params ℝ} {g : Gate} {θ : ℝ}
    (h : compileGate pi ev N P g = .ok (.phase θ)) : isPhaseGate g = true ∧ θ = ev g.arg := by
  unfold compileGate at h
  unfold isPhaseGate
  split at h
  · cases h
  · split at h <;> try cases h
    split at h <;> try cases h
    split at h <;> cases h
  · simp only at h
    split at h
    · split at h <;> cases h
    · split at h <;> try cases h
      split at h <;> cases h
  · rename_i hl
    cases h
    exact ⟨by rw [hl]; rfl, rfl⟩
  · cases h
  · cases h

theorem compileGate_notphase {pi : ℝ} {ev : Ang → ℝ} {N : ℕ} {P : Params ℝ} {g : Gate}
    (h : (∃ i, compileGate pi ev N P g = .ok (.instr i)) ∨ compileGate pi ev N P g = .ok .nothing) :
    isPhaseGate g = false := by
  unfold isPhaseGate
  cases hl : gateCompiler.lookup g.name.toString with
  | none => rfl
  | some r =>
    cases r with
    | phase =>
      exfalso
      unfold compileGate at h
      rw [hl] at h
      rcases h with ⟨i, h⟩ | h <;> cases h
    | rotation _ _ => rfl
    | exchange _ _ => rfl
    | noop => rfl
    | idle => rfl

/-- the loop adds exactly the phase gates' angles -/
theorem compileLoop_phase (drop : Bool) (pi : ℝ) (ev : Ang → ℝ) (N : ℕ) (P : Params ℝ) :
    ∀ (gs : List Gate) (ph : ℝ) (is : List (Instr ℝ)) (ph' : ℝ),
      compileLoop drop pi ev N P gs ph = .ok (is, ph') → ph' = ph + phaseSum ev gs := by
  intro gs
  induction gs with
  | nil =>
    intro ph is ph' h
    simp only [compileLoop] at h
    cases h
    simp [phaseSum_nil]
  | cons g gs ih =>
    intro ph is ph' h
    rw [phaseSum_cons]
    unfold compileLoop at h
    cases hg : compileGate pi ev N P g with
    | error e => rw [hg] at h; cases h
    | ok st =>
      rw [hg] at h
      cases st with
      | instr i =>
        simp only at h
        rw [compileGate_notphase (Or.inl ⟨i, hg⟩)]
        cases hr : compileLoop drop pi ev N P gs ph with
        | error e => rw [hr] at h; cases h
        | ok r =>
          obtain ⟨is', p'⟩ := r
          rw [hr] at h
          simp only at h
          have hp : p' = ph' := by
            split at h <;> (cases h; rfl)
          subst hp
          have := ih ph is' p' hr
          simp [this]
      | phase θ =>
        simp only at h
        obtain ⟨hp, hθ⟩ := compileGate_phase hg
        rw [hp, if_pos rfl]
        have := ih _ is ph' h
        rw [this, hθ]
        show ph + ev g.arg + phaseSum ev gs = ph + (ev g.arg + phaseSum ev gs)
        ring
      | nothing =>
        simp only at h
        rw [compileGate_notphase (Or.inr hg)]
        have := ih ph is ph' h
        simp [this]

/-! ## ideal propagator of one compiled instruction -/

/-- an operator on `m` qubits placed on the listed qubits of the register (`none`: malformed placement);
this is how `semD` places a gate -/
noncomputable def placeL (N : ℕ) (qs : List ℕ) (m : ℕ) (U : Matrix (St m) (St m) ℂ) :
    Option (Matrix (St N) (St N) ℂ) :=
  if h : qs.length = m ∧ qs.Nodup ∧ ∀ q ∈ qs, q < N then some ((tgL N qs m h.1 h.2.1 h.2.2).embed U) else none

theorem semD_placeL (N : ℕ) (ρ : ℕ → ℝ) (g : Gate) (m : ℕ) (U : Matrix (St m) (St m) ℂ)
    (hc : compactC g.name (g.arg.eval ρ) = some ⟨m, U⟩) : semD N ρ g = placeL N g.qubits m U := by
  rw [semD_eq, hc]
  rfl

/-- the exchange Hamiltonian `XX + YY` as the generated table writes it -/
def xxyy : List (Int × Pauli × Pauli) := [(1, .x, .x), (1, .y, .y)]

/-- **ideal propagator of an instruction** (`circular`, `N`: the chain): the constant coefficient
`coeff` on the channel's Hamiltonian `c·P` for the time `dur` gives `exp(−i·coeff·dur·c·P)` on the
channel's qubits, by the two trusted closed forms; an instruction without a channel (IDLE) is the
identity; `none`: the label names no control Hamiltonian of the model -/
noncomputable def instrProp (circular : Bool) (N : ℕ) (i : Instr ℝ) : Option (Matrix (St N) (St N) ℂ) :=
  match i.chan with
  | none => some 1
  | some (pre, n) =>
    match control? circular N pre n, hamCoef Real.pi pre with
    | some (.single op q), some c =>
      placeL N [q.toNat] 1 (mat1 (segProp (pauliMat op) (i.coeff * i.dur * c)))
    | some (.pair terms q0 q1), some c =>
      if terms = xxyy then placeL N [q0.toNat, q1.toNat] 2 (mat2 (exchProp (i.coeff * i.dur * c))) else none
    | _, _ => none

/-! ## the bridges between the generated matrices and the exact library -/

theorem toMatD_idle : toMatD 1 GateE.idle = 1 := by
  have : GateE.idle = DMat.ident (2 ^ 1) := by decide
  rw [this, toMatD_ident]

theorem iswap_entries : ∀ a b c d : Fin 2,
    GateE.iswap.m.get (2 * a.val + b.val) (2 * c.val + d.val) =
      if a = c ∧ b = d ∧ a = b then Cyc.one else if a = d ∧ b = c ∧ a ≠ b then Cyc.I else Cyc.zero := by decide

theorem toMatD_iswap : toMatD 2 GateE.iswap = mat2 G.iswap_ := by
  have key : ∀ a b c d : Fin 2, toMatD 2 GateE.iswap ![a, b] ![c, d] = mat2 G.iswap_ ![a, b] ![c, d] := by
    intro a b c d
    rw [toMatD_two_apply, iswap_entries]
    have he : GateE.iswap.e = 0 := rfl
    rw [he]
    fin_cases a <;> fin_cases b <;> fin_cases c <;> fin_cases d <;>
      simp [mat2, idx2, G.iswap_, Cyc.toC_I]
  ext x y
  rw [St2_eta x, St2_eta y]
  exact key _ _ _ _

theorem zeta4 : Cyc.ζ ^ 4 = Complex.I := by
  have := Cyc.toC_I
  unfold Cyc.I at this
  rwa [Cyc.toC_zetaPow] at this

theorem zeta2 : Cyc.ζ ^ 2 = GateC.r2 + GateC.r2 * Complex.I := by
  unfold Cyc.ζ
  rw [← Complex.exp_nat_mul]
  rw [show ((2 : ℕ) : ℂ) * ((Real.pi : ℂ) / 8 * Complex.I) = ((Real.pi : ℂ) / 4) * Complex.I by push_cast; ring,
    Complex.exp_mul_I, GateC.cos_pi4, GateC.sin_pi4]

theorem toC_sqrt2 : Cyc.toC Cyc.sqrt2 = ((Real.sqrt 2 : ℝ) : ℂ) := by
  have h6 : Cyc.ζ ^ 6 = Complex.I * (GateC.r2 + GateC.r2 * Complex.I) := by
    rw [show Cyc.ζ ^ 6 = Cyc.ζ ^ 4 * Cyc.ζ ^ 2 by ring, zeta4, zeta2]
  simp only [Cyc.toC, Cyc.sqrt2]
  rw [zeta2, h6]
  have hI : Complex.I * Complex.I = -1 := Complex.I_mul_I
  unfold GateC.r2
  push_cast
  linear_combination (-((Real.sqrt 2 : ℝ) : ℂ) / 2) * hI

theorem sqrtiswap_entries : ∀ a b c d : Fin 2,
    GateE.sqrtiswap.m.get (2 * a.val + b.val) (2 * c.val + d.val) =
      if a = c ∧ b = d ∧ a = b then Cyc.ofInt 2 else
      if a = c ∧ b = d ∧ a ≠ b then Cyc.sqrt2 else
      if a = d ∧ b = c ∧ a ≠ b then Cyc.mul Cyc.I Cyc.sqrt2 else Cyc.zero := by decide

theorem toMatD_sqrtiswap : toMatD 2 GateE.sqrtiswap = mat2 G.sqrtiswap_ := by
  have hs : ((Real.sqrt 2 : ℝ) : ℂ) ≠ 0 := by
    have : (Real.sqrt 2 : ℝ) ≠ 0 := by positivity
    exact_mod_cast this
  have h2 : ((Real.sqrt 2 : ℝ) : ℂ) * ((Real.sqrt 2 : ℝ) : ℂ) = 2 := by
    rw [← Complex.ofReal_mul, Real.mul_self_sqrt (by norm_num)]; norm_num
  have key : ∀ a b c d : Fin 2,
      toMatD 2 GateE.sqrtiswap ![a, b] ![c, d] = mat2 G.sqrtiswap_ ![a, b] ![c, d] := by
    intro a b c d
    rw [toMatD_two_apply, sqrtiswap_entries]
    have he : GateE.sqrtiswap.e = 1 := rfl
    rw [he]
    fin_cases a <;> fin_cases b <;> fin_cases c <;> fin_cases d <;>
      simp [mat2, idx2, G.sqrtiswap_, Cyc.toC_I, Cyc.toC_mul, toC_sqrt2, Cyc.toC_ofInt] <;>
      field_simp <;> linear_combination (1 : ℂ) * h2
  ext x y
  rw [St2_eta x, St2_eta y]
  exact key _ _ _ _

/-! ## one gate at a time -/

/-- the hardware parameter vectors as `SpinChainModel._compute_params` builds them, all strengths non-zero -/
structure ParamsOK (circular : Bool) (N : ℕ) (P : Params ℝ) : Prop where
  sx_len : P.sx.length = N
  sz_len : P.sz.length = N
  sxsy_len : (P.sxsy.length : Int) = numCoupling circular (N : Int)
  sx_ne : ∀ x ∈ P.sx, x ≠ 0
  sz_ne : ∀ x ∈ P.sz, x ≠ 0
  sxsy_ne : ∀ x ∈ P.sxsy, x ≠ 0

theorem lookup_RX : gateCompiler.lookup GName.RX.toString = some (.rotation "sx" "sx") := by decide
theorem lookup_RZ : gateCompiler.lookup GName.RZ.toString = some (.rotation "sz" "sz") := by decide
theorem lookup_ISWAP : gateCompiler.lookup GName.ISWAP.toString = some (.exchange (-1) 8) := by decide
theorem lookup_SQRTISWAP : gateCompiler.lookup GName.SQRTISWAP.toString = some (.exchange (-1) 16) := by decide
theorem lookup_GLOBALPHASE : gateCompiler.lookup GName.GLOBALPHASE.toString = some .phase := by decide
theorem lookup_IDLE : gateCompiler.lookup GName.IDLE.toString = some .idle := by decide

theorem get_sx (P : Params ℝ) : P.get? "sx" = some P.sx := by
  unfold Params.get?; rw [if_pos (by decide)]
theorem get_sz (P : Params ℝ) : P.get? "sz" = some P.sz := by
  unfold Params.get?; rw [if_neg (by decide), if_pos (by decide)]
theorem get_sxsy (P : Params ℝ) : P.get? swapParamKey = some P.sxsy := by
  unfold Params.get?; rw [if_neg (by decide), if_neg (by decide), if_pos (by decide)]

theorem control_sx (circular : Bool) (N : ℕ) (t : ℕ) (ht : t < N) :
    control? circular N "sx" (t : Int) = some (.single .x (t : Int)) := by
  unfold control?
  rw [if_neg (by decide), if_neg (by decide), if_pos (by decide), if_pos ⟨by omega, by omega⟩]
  rfl

theorem control_sz (circular : Bool) (N : ℕ) (t : ℕ) (ht : t < N) :
    control? circular N "sz" (t : Int) = some (.single .z (t : Int)) := by
  unfold control?
  rw [if_neg (by decide), if_pos (by decide), if_pos ⟨by omega, by omega⟩]
  rfl

theorem hamCoef_sx : hamCoef Real.pi "sx" = some (ctlA_coef Real.pi) := by
  unfold hamCoef; rw [if_neg (by decide), if_neg (by decide), if_pos (by decide)]
theorem hamCoef_sz : hamCoef Real.pi "sz" = some (ctlB_coef Real.pi) := by
  unfold hamCoef; rw [if_neg (by decide), if_pos (by decide)]
theorem hamCoef_g : hamCoef Real.pi swapPrefix = some (ctlG_coef Real.pi) := by
  unfold hamCoef; rw [if_pos (by decide)]

/-- **RX**: the compiled pulse on `sx<t>` has the propagator of the gate -/
theorem compile_RX (circular : Bool) (N : ℕ) (ρ : ℕ → ℝ) (P : Params ℝ) (hP : ParamsOK circular N P)
    (t : ℕ) (ht : t < N) (a : Ang) :
    ∃ i, compileGate Real.pi (Ang.eval ρ) N P ⟨.RX, [t], [], a⟩ = .ok (.instr i) ∧
      instrProp circular N i = semD N ρ ⟨.RX, [t], [], a⟩ ∧
      i.dur = pulseDur (P.sx[t]'(by rw [hP.sx_len]; exact ht)) (rotArea Real.pi (a.eval ρ)) := by
  have hlt : t < P.sx.length := by rw [hP.sx_len]; exact ht
  have hΩ : P.sx[t] ≠ 0 := hP.sx_ne _ (List.getElem_mem hlt)
  refine ⟨⟨⟨.RX, [t], [], a⟩, some ("sx", (t : Int)), pulseCoeff P.sx[t] (rotArea Real.pi (a.eval ρ)),
    pulseDur P.sx[t] (rotArea Real.pi (a.eval ρ))⟩, ?_, ?_, rfl⟩
  · unfold compileGate
    rw [lookup_RX]
    simp only [List.head?_cons, get_sx, List.getElem?_eq_getElem hlt]
  · unfold instrProp
    simp only [control_sx circular N t ht, hamCoef_sx, Int.toNat_natCast]
    rw [rot_phase _ _ _ hΩ ctlA_coef_eq]
    rw [semD_placeL N ρ _ 1 (mat1 (G.rx_ (a.eval ρ))) rfl]
    show placeL N [t] 1 (mat1 (segProp G.x_gate_ (a.eval ρ / 2))) = placeL N [t] 1 _
    rw [segProp_x]

/-- **RZ** -/
theorem compile_RZ (circular : Bool) (N : ℕ) (ρ : ℕ → ℝ) (P : Params ℝ) (hP : ParamsOK circular N P)
    (t : ℕ) (ht : t < N) (a : Ang) :
    ∃ i, compileGate Real.pi (Ang.eval ρ) N P ⟨.RZ, [t], [], a⟩ = .ok (.instr i) ∧
      instrProp circular N i = semD N ρ ⟨.RZ, [t], [], a⟩ ∧
      i.dur = pulseDur (P.sz[t]'(by rw [hP.sz_len]; exact ht)) (rotArea Real.pi (a.eval ρ)) := by
  have hlt : t < P.sz.length := by rw [hP.sz_len]; exact ht
  have hΩ : P.sz[t] ≠ 0 := hP.sz_ne _ (List.getElem_mem hlt)
  refine ⟨⟨⟨.RZ, [t], [], a⟩, some ("sz", (t : Int)), pulseCoeff P.sz[t] (rotArea Real.pi (a.eval ρ)),
    pulseDur P.sz[t] (rotArea Real.pi (a.eval ρ))⟩, ?_, ?_, rfl⟩
  · unfold compileGate
    rw [lookup_RZ]
    simp only [List.head?_cons, get_sz, List.getElem?_eq_getElem hlt]
  · unfold instrProp
    simp only [control_sz circular N t ht, hamCoef_sz, Int.toNat_natCast]
    rw [rot_phase _ _ _ hΩ ctlB_coef_eq]
    rw [semD_placeL N ρ _ 1 (mat1 (G.rz_ (a.eval ρ))) rfl]
    show placeL N [t] 1 (mat1 (segProp G.z_gate_ (a.eval ρ / 2))) = placeL N [t] 1 _
    rw [segProp_z]

/-! ### exchange gates -/

theorem placeL_pair {N a b : ℕ} (ha : a < N) (hb : b < N) (hab : a ≠ b) (U : Matrix (St 2) (St 2) ℂ) :
    placeL N [a, b] 2 U =
      some ((Tg.pair ⟨a, ha⟩ ⟨b, hb⟩ (fun e => hab (congrArg Fin.val e))).embed U) := by
  unfold placeL
  have h : [a, b].length = 2 ∧ [a, b].Nodup ∧ ∀ q ∈ [a, b], q < N := by
    refine ⟨rfl, by simp [hab], ?_⟩
    intro q hq
    simp only [List.mem_cons, List.not_mem_nil, or_false] at hq
    rcases hq with rfl | rfl <;> assumption
  rw [dif_pos h]
  congr 2
  apply Tg.ext'
  intro i
  fin_cases i <;> rfl

/-- an exchange-symmetric two-qubit operator may be placed on `[b, a]` instead of `[a, b]` -/
theorem placeL_swap {N a b : ℕ} (ha : a < N) (hb : b < N) (hab : a ≠ b) (U : Matrix (St 2) (St 2) ℂ)
    (hU : SWAP2 * U * SWAP2 = U) : placeL N [b, a] 2 U = placeL N [a, b] 2 U := by
  rw [placeL_pair ha hb hab, placeL_pair hb ha (Ne.symm hab)]
  congr 1
  exact (embed_exchange_symm U hU ⟨a, ha⟩ ⟨b, hb⟩ (fun e => hab (congrArg Fin.val e))).symm

theorem ctlG_terms_eq : ctlG_terms = xxyy := by decide

/-- the channel of an exchange gate on neighbouring qubits: its Hamiltonian acts on exactly these two -/
theorem control_exch (circular : Bool) {N a b : ℕ} (hN : 2 ≤ N) (ha : a < N) (hb : b < N) (hab : a ≠ b)
    (hadj : adjacent circular N a b = true) :
    control? circular N swapPrefix (chosenLabel N a b) = some (.pair xxyy (a : Int) (b : Int)) ∨
    control? circular N swapPrefix (chosenLabel N a b) = some (.pair xxyy (b : Int) (a : Int)) := by
  have h := label_rule circular hN ha hb hab
  rw [hadj, connects_iff] at h
  obtain ⟨hr, hq⟩ := h
  rw [control_g, if_pos hr, ctlG_terms_eq]
  rcases hq with ⟨h1, h2⟩ | ⟨h1, h2⟩
  · left
    show some (Ham.pair xxyy (chosenLabel N a b) ((chosenLabel N a b + 1) % (N : Int))) = _
    rw [h2, h1]
  · right
    show some (Ham.pair xxyy (chosenLabel N a b) ((chosenLabel N a b + 1) % (N : Int))) = _
    rw [h2, h1]

/-- the strength index of an exchange gate is inside the parameter vector -/
theorem strength_idx (circular : Bool) {N a b : ℕ} (P : Params ℝ) (hP : ParamsOK circular N P)
    (ha : a < N) (hb : b < N) (hab : a ≠ b) :
    ∃ g, idx? P.sxsy (swapStrengthIdx (N : Int) (swapQ1 (a : Int) (b : Int)) (swapQ2 (a : Int) (b : Int))) = some g ∧
      g ≠ 0 := by
  have hl := hP.sxsy_len
  have hnc : numCoupling circular (N : Int) = if circular = true then (N : Int) else (N : Int) - 1 := by
    unfold numCoupling; cases circular <;> simp
  have hidx : swapStrengthIdx (N : Int) (swapQ1 (a : Int) (b : Int)) (swapQ2 (a : Int) (b : Int)) =
      ((min a b : ℕ) : Int) := by
    unfold swapStrengthIdx swapQ1 imin
    by_cases h : (a : Int) ≤ (b : Int)
    · rw [if_pos h]; congr 1; omega
    · rw [if_neg h]; congr 1; omega
  rw [hidx]
  have hlt : min a b < P.sxsy.length := by
    have : ((min a b : ℕ) : Int) < (P.sxsy.length : Int) := by
      rw [hl, hnc]; split <;> omega
    exact_mod_cast this
  refine ⟨P.sxsy[min a b], ?_, hP.sxsy_ne _ (List.getElem_mem hlt)⟩
  unfold idx?
  rw [if_neg (by omega), Int.toNat_natCast, List.getElem?_eq_getElem hlt]

/-- **exchange gate on neighbouring qubits** (`G` = the gate's exact library matrix, `num/den` its area) -/
theorem compile_exch (circular : Bool) (N : ℕ) (ρ : ℕ → ℝ) (P : Params ℝ) (hP : ParamsOK circular N P)
    (name : GName) (num : Int) (den : ℕ) (D : DMat)
    (hl : gateCompiler.lookup name.toString = some (.exchange num den))
    (hc : ∀ θ, compactC name θ = some ⟨2, toMatD 2 D⟩)
    (hcal : mat2 (exchProp (2 * Real.pi * ((num : ℝ) / (den : ℝ)))) = toMatD 2 D)
    (hex : SWAP2 * toMatD 2 D * SWAP2 = toMatD 2 D)
    (a b : ℕ) (hN : 2 ≤ N) (ha : a < N) (hb : b < N) (hab : a ≠ b) (hadj : adjacent circular N a b = true)
    (ang : Ang) :
    ∃ i, compileGate Real.pi (Ang.eval ρ) N P ⟨name, [a, b], [], ang⟩ = .ok (.instr i) ∧
      instrProp circular N i = semD N ρ ⟨name, [a, b], [], ang⟩ ∧
      ∃ g, g ≠ 0 ∧ i.dur = pulseDur g ((num : ℝ) / (den : ℝ)) := by
  obtain ⟨g, hg, hg0⟩ := strength_idx circular P hP ha hb hab
  refine ⟨⟨⟨name, [a, b], [], ang⟩, some (swapPrefix, chosenLabel N a b),
    pulseCoeff g ((num : ℝ) / (den : ℝ)), pulseDur g ((num : ℝ) / (den : ℝ))⟩, ?_, ?_, g, hg0, rfl⟩
  · unfold compileGate
    rw [hl]
    simp only [get_sxsy, hg]
    rfl
  · unfold instrProp
    simp only [hamCoef_g]
    rw [semD_placeL N ρ _ 2 (toMatD 2 D) (hc _)]
    show _ = placeL N [a, b] 2 (toMatD 2 D)
    rcases control_exch circular hN ha hb hab hadj with h | h
    · rw [h]
      simp only [if_true, Int.toNat_natCast]
      rw [exch_phase _ _ _ hg0 ctlG_coef_eq, hcal]
    · rw [h]
      simp only [if_true, Int.toNat_natCast]
      rw [exch_phase _ _ _ hg0 ctlG_coef_eq, hcal]
      exact placeL_swap ha hb hab _ hex

/-! ### IDLE and GLOBALPHASE -/

theorem compile_IDLE (circular : Bool) (N : ℕ) (ρ : ℕ → ℝ) (P : Params ℝ) (t : ℕ) (ht : t < N) (a : Ang) :
    ∃ i, compileGate Real.pi (Ang.eval ρ) N P ⟨.IDLE, [t], [], a⟩ = .ok (.instr i) ∧
      instrProp circular N i = semD N ρ ⟨.IDLE, [t], [], a⟩ ∧ i.dur = a.eval ρ := by
  refine ⟨⟨⟨.IDLE, [t], [], a⟩, none, (0 : ℤ) / (1 : ℕ), a.eval ρ⟩, ?_, ?_, rfl⟩
  · unfold compileGate
    rw [lookup_IDLE]
    rfl
  · unfold instrProp
    simp only []
    rw [semD_placeL N ρ _ 1 (toMatD 1 GateE.idle) rfl, toMatD_idle]
    show _ = placeL N [t] 1 1
    unfold placeL
    have h : [t].length = 1 ∧ [t].Nodup ∧ ∀ q ∈ [t], q < N := ⟨rfl, List.nodup_singleton t, by simpa using ht⟩
    rw [dif_pos h, Tg.embed_one]

theorem compile_GLOBALPHASE (N : ℕ) (ρ : ℕ → ℝ) (P : Params ℝ) (a : Ang) :
    compileGate Real.pi (Ang.eval ρ) N P ⟨.GLOBALPHASE, [], [], a⟩ = .ok (.phase (a.eval ρ)) := by
  unfold compileGate
  rw [lookup_GLOBALPHASE]

/-! ## the whole gate list, circuit order -/

/-- product in circuit order: later factors multiply on the left -/
noncomputable def ordProd {N : ℕ} : List (Matrix (St N) (St N) ℂ) → Matrix (St N) (St N) ℂ
  | [] => 1
  | w :: ws => ordProd ws * w

/-- a native gate as the transpiler emits it: library shape, in range, exchange gates on coupled qubits -/
def NativeOK (circular : Bool) (N : ℕ) (g : Gate) : Prop :=
  (∃ t a, t < N ∧ (g = ⟨.RX, [t], [], a⟩ ∨ g = ⟨.RZ, [t], [], a⟩ ∨ g = ⟨.IDLE, [t], [], a⟩)) ∨
  (∃ a b ang, a < N ∧ b < N ∧ a ≠ b ∧ adjacent circular N a b = true ∧
    (g = ⟨.ISWAP, [a, b], [], ang⟩ ∨ g = ⟨.SQRTISWAP, [a, b], [], ang⟩)) ∨
  (∃ ang, g = ⟨.GLOBALPHASE, [], [], ang⟩)

/-- one native gate: either an instruction whose ideal propagator is the gate's operator, or a phase -/
theorem compile_native (circular : Bool) (N : ℕ) (ρ : ℕ → ℝ) (P : Params ℝ) (hP : ParamsOK circular N P)
    (g : Gate) (hg : NativeOK circular N g) :
    (∃ i, compileGate Real.pi (Ang.eval ρ) N P g = .ok (.instr i) ∧ instrProp circular N i = semD N ρ g ∧
      i.gate = g ∧ ((g.name = .IDLE ∧ i.dur = g.arg.eval ρ) ∨ 0 ≤ i.dur)) ∨
    (compileGate Real.pi (Ang.eval ρ) N P g = .ok (.phase (g.arg.eval ρ)) ∧ g.name = .GLOBALPHASE ∧ g.qubits = []) := by
  rcases hg with ⟨t, a, ht, rfl | rfl | rfl⟩ | ⟨a, b, ang, ha, hb, hab, hadj, rfl | rfl⟩ | ⟨ang, rfl⟩
  · obtain ⟨i, h1, h2, h3⟩ := compile_RX circular N ρ P hP t ht a
    refine Or.inl ⟨i, h1, h2, ?_, Or.inr (by rw [h3]; exact pulse_dur_nonneg _ _)⟩
    unfold compileGate at h1; rw [lookup_RX] at h1
    simp only [List.head?_cons, get_sx] at h1
    split at h1 <;> cases h1; rfl
  · obtain ⟨i, h1, h2, h3⟩ := compile_RZ circular N ρ P hP t ht a
    refine Or.inl ⟨i, h1, h2, ?_, Or.inr (by rw [h3]; exact pulse_dur_nonneg _ _)⟩
    unfold compileGate at h1; rw [lookup_RZ] at h1
    simp only [List.head?_cons, get_sz] at h1
    split at h1 <;> cases h1; rfl
  · obtain ⟨i, h1, h2, h3⟩ := compile_IDLE circular N ρ P t ht a
    refine Or.inl ⟨i, h1, h2, ?_, Or.inl ⟨rfl, h3⟩⟩
    unfold compileGate at h1; rw [lookup_IDLE] at h1
    cases h1; rfl
  · have hN : 2 ≤ N := by omega
    obtain ⟨i, h1, h2, g0, _, h3⟩ := compile_exch circular N ρ P hP .ISWAP (-1) 8 GateE.iswap lookup_ISWAP (fun _ => rfl)
      (by rw [exchProp_iswap, toMatD_iswap]) exch_iswap a b hN ha hb hab hadj ang
    refine Or.inl ⟨i, h1, h2, ?_, Or.inr (by rw [h3]; exact pulse_dur_nonneg _ _)⟩
    unfold compileGate at h1; rw [lookup_ISWAP] at h1
    simp only [get_sxsy] at h1
    split at h1 <;> cases h1; rfl
  · have hN : 2 ≤ N := by omega
    obtain ⟨i, h1, h2, g0, _, h3⟩ := compile_exch circular N ρ P hP .SQRTISWAP (-1) 16 GateE.sqrtiswap lookup_SQRTISWAP
      (fun _ => rfl) (by rw [exchProp_sqrtiswap, toMatD_sqrtiswap]) exch_sqrtiswap a b hN ha hb hab hadj ang
    refine Or.inl ⟨i, h1, h2, ?_, Or.inr (by rw [h3]; exact pulse_dur_nonneg _ _)⟩
    unfold compileGate at h1; rw [lookup_SQRTISWAP] at h1
    simp only [get_sxsy] at h1
    split at h1 <;> cases h1; rfl
  · exact Or.inr ⟨compile_GLOBALPHASE N ρ P ang, rfl, rfl⟩

theorem phase_add (a b : ℝ) : GateC.phase (a + b) = GateC.phase a * GateC.phase b := by
  unfold GateC.phase
  rw [← Complex.exp_add]; congr 1; push_cast; ring

theorem phase_zero : GateC.phase 0 = 1 := by simp [GateC.phase]

theorem idx2_inj {x y : St 2} (h : idx2 x = idx2 y) : x = y := by
  rw [St2_eta x, St2_eta y] at h ⊢
  generalize x 0 = a at h ⊢
  generalize x 1 = b at h ⊢
  generalize y 0 = c at h ⊢
  generalize y 1 = d at h ⊢
  fin_cases a <;> fin_cases b <;> fin_cases c <;> fin_cases d <;> simp [idx2] at h ⊢

theorem mat2_one : mat2 (1 : Matrix (Fin 4) (Fin 4) ℂ) = 1 := by
  ext x y
  simp only [mat2, Matrix.one_apply]
  by_cases h : x = y
  · subst h; simp
  · rw [if_neg h, if_neg (fun e => h (idx2_inj e))]

theorem placeL_one {N : ℕ} {qs : List ℕ} {m : ℕ} {A : Matrix (St N) (St N) ℂ}
    (h : placeL N qs m (1 : Matrix (St m) (St m) ℂ) = some A) : A = 1 := by
  unfold placeL at h
  split at h
  · cases h; exact Tg.embed_one _
  · cases h

/-- an instruction of duration 0 does nothing -/
theorem instrProp_dur_zero {circular : Bool} {N : ℕ} {i : Instr ℝ} {A : Matrix (St N) (St N) ℂ}
    (h : instrProp circular N i = some A) (hd : i.dur = 0) : A = 1 := by
  unfold instrProp at h
  split at h
  · cases h; rfl
  · split at h
    · rw [hd, mul_zero, zero_mul, segProp_zero, mat1_one] at h
      exact placeL_one h
    · split at h
      · rw [hd, mul_zero, zero_mul, exchProp_zero, mat2_one] at h
        exact placeL_one h
      · cases h
    · cases h

/-- **circuit order.**  For a list of native gates with operator `U`, the compiler succeeds, every
instruction has an ideal propagator, and their product in circuit order, times `e^{i·(accumulated
phase)}`, is `U` — whether or not instructions of duration 0 are dropped. -/
theorem compileLoop_den (drop circular : Bool) (N : ℕ) (ρ : ℕ → ℝ) (P : Params ℝ) (hP : ParamsOK circular N P) :
    ∀ (gs : List Gate) (ph : ℝ) (U : Matrix (St N) (St N) ℂ), (∀ g ∈ gs, NativeOK circular N g) →
      denG N ρ gs = some U →
      ∃ is ph' ws, compileLoop drop Real.pi (Ang.eval ρ) N P gs ph = .ok (is, ph') ∧
        is.mapM (instrProp circular N) = some ws ∧ GateC.phase (ph' - ph) • ordProd ws = U ∧
        is.mapM (fun i => semD N ρ i.gate) = some ws ∧ (∀ i ∈ is, i.gate ∈ gs) ∧
        (drop = true → ∀ i ∈ is, i.dur ≠ 0) ∧
        (∀ i ∈ is, (i.gate.name = .IDLE ∧ i.dur = i.gate.arg.eval ρ) ∨ 0 ≤ i.dur) := by
  intro gs
  induction gs with
  | nil =>
    intro ph U _ hU
    rw [denG_nil] at hU; cases hU
    exact ⟨[], ph, [], rfl, rfl, by simp [ordProd, phase_zero], rfl, by simp, by simp, by simp⟩
  | cons g gs ih =>
    intro ph U hok hU
    obtain ⟨A, R, hA, hR, rfl⟩ := denG_cons_inv N ρ g gs U hU
    have hok' : ∀ x ∈ gs, NativeOK circular N x := fun x hx => hok x (List.mem_cons_of_mem _ hx)
    rcases compile_native circular N ρ P hP g (hok g (List.mem_cons_self ..)) with ⟨i, hc, hp, hgi, hdur⟩ | ⟨hc, hname, hq⟩
    · obtain ⟨is, ph', ws, h1, h2, h3, h4, h5, h6, h7⟩ := ih ph R hok' hR
      by_cases hz : (drop && Arith.isZero i.dur) = true
      · -- the instruction is dropped: its operator is the identity
        have hd : i.dur = 0 := (isZero_iff _).mp (by simp only [Bool.and_eq_true] at hz; exact hz.2)
        have hA1 : A = 1 := instrProp_dur_zero (hp.trans hA) hd
        refine ⟨is, ph', ws, ?_, h2, ?_, h4, fun x hx => List.mem_cons_of_mem _ (h5 x hx), h6, h7⟩
        · unfold compileLoop; rw [hc]; simp only [h1, hz, if_true]
        · rw [hA1, Matrix.mul_one]; exact h3
      · refine ⟨i :: is, ph', A :: ws, ?_, ?_, ?_, ?_, ?_, ?_, ?_⟩
        · unfold compileLoop; rw [hc]; simp only [h1, hz]; rfl
        · rw [List.mapM_cons, hp, hA, h2]; rfl
        · simp only [ordProd]; rw [← h3, Matrix.smul_mul]
        · rw [List.mapM_cons, hgi, hA, h4]; rfl
        · intro x hx
          rcases List.mem_cons.mp hx with rfl | hx
          · rw [hgi]; exact List.mem_cons_self ..
          · exact List.mem_cons_of_mem _ (h5 x hx)
        · intro hdrop x hx
          rcases List.mem_cons.mp hx with rfl | hx
          · intro hd
            apply hz
            rw [hdrop, Bool.true_and]
            exact (isZero_iff _).mpr hd
          · exact h6 hdrop x hx
        · intro x hx
          rcases List.mem_cons.mp hx with rfl | hx
          · rw [hgi]; exact hdur
          · exact h7 x hx
    · obtain ⟨is, ph', ws, h1, h2, h3, h4, h5, h6, h7⟩ := ih (ph + g.arg.eval ρ) R hok' hR
      rw [semD_gphase N ρ g hname hq] at hA
      cases hA
      refine ⟨is, ph', ws, ?_, h2, ?_, h4, fun x hx => List.mem_cons_of_mem _ (h5 x hx), h6, h7⟩
      · unfold compileLoop; rw [hc]; exact h1
      · rw [← h3, Matrix.mul_smul, Matrix.mul_one, smul_smul, ← phase_add]
        congr 2; ring

end QipVerif.SpinChain
