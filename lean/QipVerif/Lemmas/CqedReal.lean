import QipVerif.Model.Cqed
import Mathlib.Data.Real.Sign
import Mathlib.Analysis.SpecialFunctions.Trigonometric.Basic
import Mathlib.Analysis.SpecialFunctions.Sqrt
import Mathlib.Tactic.Ring
import Mathlib.Tactic.FieldSimp
import Mathlib.Tactic.Linarith
/-!
# C18: the generated formulas of the cavity-QED / superconducting-qubit compilers over ℝ

`DArith ℝ` instantiates the regenerated formulas of `Gen/CqedTables.lean`, `Gen/ScqTables.lean` with real
arithmetic, `Real.sqrt`, `Real.cos`, `Real.sign`.  The lemmas of this file restate each generated formula in closed
form (they are proved from the generated term, so a changed source formula makes them fail).
-/
set_option linter.unusedTactic false
set_option linter.unreachableTactic false
set_option linter.unusedVariables false
namespace QipVerif.DevReal
open QipVerif.Dev QipVerif.Gen

noncomputable instance instDArithReal : DArith ℝ where
  add := (· + ·)
  sub := (· - ·)
  mul := (· * ·)
  div := (· / ·)
  neg := fun x => -x
  abs := fun x => |x|
  sign := Real.sign
  sqrt := Real.sqrt
  cos := Real.cos
  ofFrac := fun n d => (n : ℝ) / (d : ℝ)
  lt := fun a b => @decide (a < b) (Classical.propDecidable _)
  isZero := fun x => @decide (x = 0) (Classical.propDecidable _)

@[simp] theorem add_def (a b : ℝ) : DArith.add a b = a + b := rfl
@[simp] theorem sub_def (a b : ℝ) : DArith.sub a b = a - b := rfl
@[simp] theorem mul_def (a b : ℝ) : DArith.mul a b = a * b := rfl
@[simp] theorem div_def (a b : ℝ) : DArith.div a b = a / b := rfl
@[simp] theorem neg_def (a : ℝ) : DArith.neg a = -a := rfl
@[simp] theorem abs_def (a : ℝ) : DArith.abs a = |a| := rfl
@[simp] theorem sign_def (a : ℝ) : DArith.sign a = Real.sign a := rfl
@[simp] theorem sqrt_def (a : ℝ) : DArith.sqrt a = Real.sqrt a := rfl
@[simp] theorem cos_def (a : ℝ) : DArith.cos a = Real.cos a := rfl
@[simp] theorem ofFrac_def (n : Int) (d : Nat) : (DArith.ofFrac n d : ℝ) = (n : ℝ) / (d : ℝ) := rfl
@[simp] theorem lt_iff (a b : ℝ) : DArith.lt a b = true ↔ a < b := by
  show @decide (a < b) (Classical.propDecidable _) = true ↔ a < b
  simp
@[simp] theorem isZero_iff (x : ℝ) : DArith.isZero x = true ↔ x = 0 := by
  show @decide (x = 0) (Classical.propDecidable _) = true ↔ x = 0
  simp
@[simp] theorem zero_def : (zero : ℝ) = 0 := by
  show ((0 : ℤ) : ℝ) / ((1 : ℕ) : ℝ) = 0
  simp

theorem sign_mul_abs (a : ℝ) : Real.sign a * |a| = a := by
  rcases lt_trichotomy a 0 with h | h | h
  · rw [Real.sign_of_neg h, abs_of_neg h]; ring
  · subst h; simp
  · rw [Real.sign_of_pos h, abs_of_pos h]; ring

theorem abs_mul_sign (a : ℝ) : |a| * Real.sign a = a := by rw [mul_comm]; exact sign_mul_abs a

/-! ## `generate_pulse_shape` (the same generated term in both files) -/

theorem cq_pulseCoeff_eq (c0 Ω a : ℝ) : CQ.pulseCoeff c0 Ω a = c0 * (|Ω| * Real.sign a) := rfl
theorem cq_pulseDur_eq (t0 Ω a : ℝ) : CQ.pulseDur t0 Ω a = t0 * (|a| / |Ω|) := rfl
theorem scq_pulseCoeff_eq (c0 Ω a : ℝ) : SCQ.pulseCoeff c0 Ω a = c0 * (|Ω| * Real.sign a) := rfl
theorem scq_pulseDur_eq (t0 Ω a : ℝ) : SCQ.pulseDur t0 Ω a = t0 * (|a| / |Ω|) := rfl

/-- **area of a scaled pulse**: (coefficient for window value `c0`) × (time for window time `t0`) = `c0·t0·area` -/
theorem pulse_area (c0 t0 Ω a : ℝ) (hΩ : Ω ≠ 0) : (c0 * (|Ω| * Real.sign a)) * (t0 * (|a| / |Ω|)) = c0 * t0 * a := by
  have h : |Ω| ≠ 0 := abs_ne_zero.mpr hΩ
  have := sign_mul_abs a
  field_simp
  linear_combination (c0 * t0) * this

theorem cq_rect (x : ℝ) : (CQ.rectC0 : ℝ) = 1 ∧ (CQ.rectT0 : ℝ) = 1 := by
  constructor <;> (show ((1 : ℤ) : ℝ) / ((1 : ℕ) : ℝ) = 1) <;> simp

/-- the rectangular pulse of the cavity compiler: coefficient × duration = area -/
theorem cq_rect_area (Ω a : ℝ) (hΩ : Ω ≠ 0) :
    CQ.pulseCoeff (CQ.rectC0 : ℝ) Ω a * CQ.pulseDur (CQ.rectT0 : ℝ) Ω a = a := by
  rw [cq_pulseCoeff_eq, cq_pulseDur_eq, pulse_area _ _ _ _ hΩ, (cq_rect 0).1, (cq_rect 0).2]; ring

theorem cq_rect_coeff (Ω a : ℝ) : CQ.pulseCoeff (CQ.rectC0 : ℝ) Ω a = |Ω| * Real.sign a := by
  rw [cq_pulseCoeff_eq, (cq_rect 0).1]; ring
theorem cq_rect_dur (Ω a : ℝ) : CQ.pulseDur (CQ.rectT0 : ℝ) Ω a = |a| / |Ω| := by
  rw [cq_pulseDur_eq, (cq_rect 0).2]; ring

/-! ## rotation areas -/

/-- cavity compiler: the rotation area is `θ/(4π)` -/
theorem cq_rotArea_eq (θ : ℝ) : CQ.rotArea Real.pi θ = θ / (4 * Real.pi) := by
  show θ / (((2 : ℤ) : ℝ) / ((1 : ℕ) : ℝ)) / Real.pi * (((1 : ℤ) : ℝ) / ((2 : ℕ) : ℝ)) = θ / (4 * Real.pi)
  have := Real.pi_ne_zero
  push_cast
  field_simp
  ring

/-- superconducting compiler: the rotation area is `θ/(2π)` -/
theorem scq_rotArea_eq (θ : ℝ) : SCQ.rotArea Real.pi θ = θ / (2 * Real.pi) := by
  show θ / (((2 : ℤ) : ℝ) / ((1 : ℕ) : ℝ)) / Real.pi = θ / (2 * Real.pi)
  have := Real.pi_ne_zero
  push_cast
  field_simp

/-- the amplitude handed to `generate_pulse_shape` by the superconducting compiler: lowered in proportion to the area
below a quarter turn exactly when the source contains the floor (`rotFloor`, fixes/C18-3.patch) -/
theorem scq_rotMax_eq (Ω a : ℝ) :
    SCQ.rotMax Ω a = if SCQ.rotFloor = true ∧ 0 < |a| ∧ |a| < 1 / 4 then Ω * |a| / (1 / 4) else Ω := by
  unfold SCQ.rotMax SCQ.rotFloor
  first
    | (simp; done)
    | (have e0 : (DArith.lt (DArith.ofFrac 0 1 : ℝ) (DArith.abs a) = true) ↔ 0 < |a| := by
         rw [lt_iff]; show ((0 : ℤ) : ℝ) / ((1 : ℕ) : ℝ) < |a| ↔ _; simp
       have e1 : (DArith.lt (DArith.abs a) (DArith.ofFrac 1 4 : ℝ) = true) ↔ |a| < 1 / 4 := by
         rw [lt_iff]; show |a| < ((1 : ℤ) : ℝ) / ((4 : ℕ) : ℝ) ↔ _; push_cast; rfl
       have ev : (DArith.div (DArith.mul Ω (DArith.abs a)) (DArith.ofFrac 1 4 : ℝ)) = Ω * |a| / (1 / 4) := by
         show Ω * |a| / (((1 : ℤ) : ℝ) / ((4 : ℕ) : ℝ)) = _; push_cast; rfl
       rw [ev]
       by_cases h0 : 0 < |a| <;> by_cases h1 : |a| < 1 / 4 <;> simp [h0, h1, e0.mpr, e1.mpr, Bool.and_eq_true] <;>
         simp_all)

theorem scq_rotMax_ne_zero (Ω a : ℝ) (hΩ : Ω ≠ 0) : SCQ.rotMax Ω a ≠ 0 := by
  rw [scq_rotMax_eq]
  split
  · rename_i h
    have : |a| ≠ 0 := ne_of_gt h.2.1
    positivity
  · exact hΩ

/-- with the floor, the pulse of a rotation is never shorter than that of a quarter turn -/
theorem scq_floor_duration (Ω a t0 : ℝ) (hΩ : Ω ≠ 0) (hf : SCQ.rotFloor = true) (ha : a ≠ 0) :
    SCQ.pulseDur t0 (SCQ.rotMax Ω a) a = t0 * (max |a| (1 / 4) / |Ω|) := by
  have hΩ' : |Ω| ≠ 0 := abs_ne_zero.mpr hΩ
  have ha' : 0 < |a| := abs_pos.mpr ha
  rw [scq_pulseDur_eq, scq_rotMax_eq]
  by_cases h : |a| < 1 / 4
  · rw [if_pos ⟨hf, ha', h⟩, max_eq_right (le_of_lt h), abs_div, abs_mul, abs_abs]
    have : |(1 / 4 : ℝ)| = 1 / 4 := abs_of_pos (by norm_num)
    rw [this]
    field_simp
  · rw [if_neg (fun hh => h hh.2.2), max_eq_left (not_lt.mp h)]

/-! ## control prefactors -/

theorem cq_ctlSX_coef_eq : CQ.ctlSX_coef Real.pi = 2 * Real.pi := by
  show ((2 : ℤ) : ℝ) / ((1 : ℕ) : ℝ) * Real.pi = 2 * Real.pi
  push_cast; ring
theorem cq_ctlSZ_coef_eq : CQ.ctlSZ_coef Real.pi = 2 * Real.pi := by
  show ((2 : ℤ) : ℝ) / ((1 : ℕ) : ℝ) * Real.pi = 2 * Real.pi
  push_cast; ring
theorem cq_ctlG_coef_eq : CQ.ctlG_coef0 Real.pi = 2 * Real.pi ∧ CQ.ctlG_coef1 Real.pi = 2 * Real.pi := by
  constructor <;> (show ((2 : ℤ) : ℝ) / ((1 : ℕ) : ℝ) * Real.pi = 2 * Real.pi) <;> (push_cast; ring)
theorem scq_ctlSX_coef_eq : SCQ.ctlSX_coef Real.pi = Real.pi := by
  show ((2 : ℤ) : ℝ) / ((1 : ℕ) : ℝ) * Real.pi / (((2 : ℤ) : ℝ) / ((1 : ℕ) : ℝ)) = Real.pi
  push_cast; ring
theorem scq_ctlSY_coef_eq : SCQ.ctlSY_coef Real.pi = Real.pi := by
  show ((2 : ℤ) : ℝ) / ((1 : ℕ) : ℝ) * Real.pi / (((2 : ℤ) : ℝ) / ((1 : ℕ) : ℝ)) = Real.pi
  push_cast; ring
theorem scq_ctlZX_coef_eq : SCQ.ctlZXf_coef Real.pi = 2 * Real.pi ∧ SCQ.ctlZXb_coef Real.pi = 2 * Real.pi := by
  constructor <;> (show ((2 : ℤ) : ℝ) / ((1 : ℕ) : ℝ) * Real.pi = 2 * Real.pi) <;> (push_cast; ring)

/-! ## the exchange gate of the cavity compiler -/

theorem cq_exchArea_eq : (CQ.exchArea 0 : ℝ) = 1 / 2 ∧ (CQ.exchArea 1 : ℝ) = 1 / 4 := by
  constructor
  · show ((1 : ℤ) : ℝ) / ((2 : ℕ) : ℝ) = 1 / 2
    push_cast; ring
  · show ((1 : ℤ) : ℝ) / ((4 : ℕ) : ℝ) = 1 / 4
    push_cast; ring

theorem cq_exchCorr_eq : CQ.exchCorr Real.pi 0 = -(Real.pi / 2) ∧ CQ.exchCorr Real.pi 1 = -(Real.pi / 4) := by
  constructor
  · show -Real.pi / (((2 : ℤ) : ℝ) / ((1 : ℕ) : ℝ)) = -(Real.pi / 2)
    push_cast; ring
  · show -Real.pi / (((4 : ℤ) : ℝ) / ((1 : ℕ) : ℝ)) = -(Real.pi / 4)
    push_cast; ring

theorem cq_compWq_eq (e d : ℝ) : CQ.compWq e d = Real.sqrt (e * e + d * d) := rfl
theorem cq_compDelta_eq (wq w0 : ℝ) : CQ.compDelta wq w0 = wq - w0 := rfl
/-- the compiler and the model compute the same `wq`, `Delta` -/
theorem cq_comp_eq_model (e d w0 : ℝ) :
    CQ.compWq e d = CQ.modelWq e d ∧ CQ.compDelta (CQ.compWq e d) w0 = CQ.modelDelta (CQ.modelWq e d) w0 := ⟨rfl, rfl⟩

theorem cq_swapJ_eq (g1 g2 D1 D2 : ℝ) : CQ.swapJ g1 g2 D1 D2 = g1 * g2 * (1 / D1 + 1 / D2) / 2 := by
  show g1 * g2 * (((1 : ℤ) : ℝ) / ((1 : ℕ) : ℝ) / D1 + ((1 : ℤ) : ℝ) / ((1 : ℕ) : ℝ) / D2) / (((2 : ℤ) : ℝ) / ((1 : ℕ) : ℝ))
    = g1 * g2 * (1 / D1 + 1 / D2) / 2
  push_cast; ring

theorem cq_swapHeldCoef_eq (wq1 wq2 g1 g2 w0 : ℝ) :
    CQ.swapHeldCoef wq1 wq2 g1 g2 w0 0 = wq1 - w0 ∧ CQ.swapHeldCoef wq1 wq2 g1 g2 w0 1 = wq2 - w0 ∧
    CQ.swapHeldCoef wq1 wq2 g1 g2 w0 2 = g1 ∧ CQ.swapHeldCoef wq1 wq2 g1 g2 w0 3 = g2 := ⟨rfl, rfl, rfl, rfl⟩

/-- the area handed to the rectangular pulse of the exchange: reversed for `J < 0` exactly when the source contains
the reversal (`swapFlipsNegJ`, fixes/C18-1.patch) -/
theorem cq_swapArea_eq (J a : ℝ) :
    CQ.swapArea J a = if CQ.swapFlipsNegJ = true ∧ J < 0 then 1 - a else a := by
  unfold CQ.swapArea CQ.swapFlipsNegJ
  first
    | (simp; done)
    | (by_cases h : J < 0
       · have h' : DArith.lt J (DArith.ofFrac 0 1 : ℝ) = true := by
           rw [lt_iff]; show J < ((0 : ℤ) : ℝ) / ((1 : ℕ) : ℝ); simpa using h
         simp [h, h']
       · have h' : ¬ (DArith.lt J (DArith.ofFrac 0 1 : ℝ) = true) := by
           rw [lt_iff]; show ¬ J < ((0 : ℤ) : ℝ) / ((1 : ℕ) : ℝ); simpa using h
         simp [h, h'])

/-! ## the cross-resonance gate of the superconducting compiler -/

theorem scq_rzxArea_eq (θ : ℝ) :
    SCQ.rzxArea Real.pi θ = if SCQ.rzxSigned = true then 1 / 2 * Real.sign θ else 1 / 2 := by
  unfold SCQ.rzxArea SCQ.rzxSigned
  first
    | (show ((1 : ℤ) : ℝ) / ((2 : ℕ) : ℝ) = _; simp; done)
    | (show ((1 : ℤ) : ℝ) / ((2 : ℕ) : ℝ) * Real.sign θ = _; simp)

theorem scq_rzxRescale_eq (θ : ℝ) : SCQ.rzxRescale Real.pi θ = Real.sqrt (|θ| / (Real.pi / 2)) := by
  show Real.sqrt (|θ| / (Real.pi / (((2 : ℤ) : ℝ) / ((1 : ℕ) : ℝ)))) = Real.sqrt (|θ| / (Real.pi / 2))
  push_cast; ring_nf

/-- the rescale factor squared (it multiplies the coefficients and the times): `|θ|/(π/2)` -/
theorem scq_rzxRescale_sq (θ : ℝ) : SCQ.rzxRescale Real.pi θ * SCQ.rzxRescale Real.pi θ = |θ| / (Real.pi / 2) := by
  rw [scq_rzxRescale_eq]
  exact Real.mul_self_sqrt (div_nonneg (abs_nonneg θ) (by positivity))

theorem scq_rzxIdx_eq (q1 q2 : Int) : SCQ.rzxIdx q1 q2 = if q1 < q2 then 2 * q1 else 2 * q1 - 1 := by
  unfold SCQ.rzxIdx
  by_cases h : q1 < q2 <;> simp [h]

/-! ## the Hann window and DRAG -/

theorem scq_window_eq (u : ℝ) : SCQ.window Real.pi u = 1 / 2 - 1 / 2 * Real.cos (Real.pi * u) := by
  show ((1 : ℤ) : ℝ) / ((1 : ℕ) : ℝ) / (((2 : ℤ) : ℝ) / ((1 : ℕ) : ℝ))
    - ((1 : ℤ) : ℝ) / ((1 : ℕ) : ℝ) / (((2 : ℤ) : ℝ) / ((1 : ℕ) : ℝ)) * Real.cos (Real.pi * u) = _
  push_cast; ring

theorem scq_windowTmax_eq : (SCQ.windowTmax : ℝ) = 2 := by
  show ((2 : ℤ) : ℝ) / ((1 : ℕ) : ℝ) = 2
  push_cast; ring

theorem scq_dragZ_eq (c α : ℝ) (hα : α ≠ 0) : SCQ.dragZ c α = -(c * c) / (2 * α) := by
  show -(c * c) / α + Real.sqrt (((2 : ℤ) : ℝ) / ((1 : ℕ) : ℝ)) * Real.sqrt (((2 : ℤ) : ℝ) / ((1 : ℕ) : ℝ)) * (c * c)
    / (((4 : ℤ) : ℝ) / ((1 : ℕ) : ℝ) * α) = -(c * c) / (2 * α)
  have h2 : Real.sqrt (((2 : ℤ) : ℝ) / ((1 : ℕ) : ℝ)) * Real.sqrt (((2 : ℤ) : ℝ) / ((1 : ℕ) : ℝ)) = 2 := by
    rw [Real.mul_self_sqrt] <;> norm_num
  rw [h2]
  push_cast
  field_simp
  ring

theorem scq_dragX_eq (c α : ℝ) : SCQ.dragX c α = c - c * c * c / (4 * (α * α)) := by
  show c + -(c * c * c / (((4 : ℤ) : ℝ) / ((1 : ℕ) : ℝ) * (α * α))) = _
  push_cast; ring

theorem scq_dragY_eq (g α : ℝ) : SCQ.dragY (SCQ.dragDt Real.pi g) α = -(g / (2 * Real.pi)) / α := by
  show -(g / (((2 : ℤ) : ℝ) / ((1 : ℕ) : ℝ)) / Real.pi) / α = _
  have := Real.pi_ne_zero
  push_cast
  field_simp

theorem scq_zxFinal_eq (x : ℝ) : SCQ.zxFinal x = 2 * x := by
  show x * (((2 : ℤ) : ℝ) / ((1 : ℕ) : ℝ)) = 2 * x
  push_cast; ring

end QipVerif.DevReal
