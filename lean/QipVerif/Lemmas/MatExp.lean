import Mathlib.Analysis.Normed.Algebra.MatrixExponential
import Mathlib.Analysis.SpecialFunctions.Exponential
import Mathlib.Analysis.SpecialFunctions.Trigonometric.Series
import Mathlib.Analysis.Calculus.Deriv.Slope
import Mathlib.Analysis.Calculus.Deriv.Shift
/-!
# The matrix exponential of a constant Hamiltonian (C06, C14)

`evolve H t = exp(−i·t·H)` is Mathlib's matrix exponential (`NormedSpace.exp`, a definition that does not depend on
a choice of norm).  Proved here, for complex square matrices of any size:

* `exp_smul_of_cube` — `exp(z•Q) = 1 + sinh z • Q + (cosh z − 1) • Q²` whenever `Q³ = Q` (power series split into
  even and odd terms);
* `evolve_of_cube`, `evolve_involution` — `exp(−i t a Q) = 1 − i sin(at) Q + (cos(at) − 1) Q²`, and
  `exp(−i t a P) = cos(at) − i sin(at) P` for `P² = 1`;
* `evolve_zero`, `evolve_add`, `commute_evolve`, `hasDerivAt_evolve` (`d/dt evolve H t = −i H · evolve H t`),
  `continuous_evolve`;
* `hasDerivAt_entry_iff`, `hasDerivWithinAt_entry_iff` — a matrix-valued function of a real variable has a
  derivative iff every entry has (so statements can be made entry by entry, without naming a matrix norm).
-/
namespace QipVerif.MatExp
open NormedSpace Matrix Filter Topology
open scoped Nat

variable {n : Type*} [Fintype n] [DecidableEq n]


theorem pow_even_of_cube (Q : Matrix n n ℂ) (hQ : Q * Q * Q = Q) (k : ℕ) :
    Q ^ (2 * (k + 1)) = Q * Q := by
  induction k with
  | zero => simp [pow_two]
  | succ k ih =>
    rw [show 2 * (k + 1 + 1) = 2 * (k + 1) + 2 by ring, pow_add, ih, pow_two, ← mul_assoc, hQ]

theorem pow_odd_of_cube (Q : Matrix n n ℂ) (hQ : Q * Q * Q = Q) (k : ℕ) :
    Q ^ (2 * k + 1) = Q := by
  cases k with
  | zero => simp
  | succ k => rw [pow_succ, pow_even_of_cube Q hQ k, hQ]

open scoped Matrix.Norms.Operator in
theorem hasSum_exp_series (A : Matrix n n ℂ) :
    HasSum (fun k : ℕ => ((k ! : ℂ)⁻¹) • A ^ k) (exp A) :=
  exp_series_hasSum_exp' (𝕂 := ℂ) A

/-- `exp (z • Q) = 1 + sinh z • Q + (cosh z − 1) • Q²` whenever `Q³ = Q` -/
theorem exp_smul_of_cube (Q : Matrix n n ℂ) (hQ : Q * Q * Q = Q) (z : ℂ) :
    exp (z • Q) = 1 + Complex.sinh z • Q + (Complex.cosh z - 1) • (Q * Q) := by
  refine (hasSum_exp_series (z • Q)).unique ?_
  have hc := (Complex.hasSum_cosh z).smul_const (Q * Q)
  have hs := (Complex.hasSum_sinh z).smul_const Q
  have h0 : HasSum (fun k : ℕ => if k = 0 then (1 - Q * Q : Matrix n n ℂ) else 0) (1 - Q * Q) :=
    hasSum_ite_eq 0 _
  have he := hc.add h0
  have := HasSum.even_add_odd (f := fun k : ℕ => ((k ! : ℂ)⁻¹) • (z • Q) ^ k) (he.congr_fun ?_) (hs.congr_fun ?_)
  · convert this using 1
    simp only [sub_smul, one_smul]
    abel
  · intro k
    cases k with
    | zero => simp
    | succ k =>
      simp only [smul_pow, pow_even_of_cube Q hQ k, Nat.succ_ne_zero, if_false, add_zero, smul_smul]
      congr 1
      rw [div_eq_inv_mul]
  · intro k
    simp only [smul_pow, pow_odd_of_cube Q hQ k, smul_smul]
    congr 1
    rw [div_eq_inv_mul]


/-- `exp(−i·t·H)` -/
noncomputable def evolve (H : Matrix n n ℂ) (t : ℝ) : Matrix n n ℂ := exp ((-(Complex.I * (t : ℂ))) • H)

theorem evolve_eq_real (H : Matrix n n ℂ) (t : ℝ) : evolve H t = exp (t • ((-Complex.I) • H)) := by
  unfold evolve
  congr 1
  rw [← Complex.coe_smul, smul_smul]
  congr 1
  ring

theorem evolve_zero (H : Matrix n n ℂ) : evolve H 0 = 1 := by
  simp [evolve, exp_zero]

theorem evolve_zero_ham (t : ℝ) : evolve (0 : Matrix n n ℂ) t = 1 := by
  simp [evolve, exp_zero]

theorem evolve_add (H : Matrix n n ℂ) (s t : ℝ) : evolve H (s + t) = evolve H s * evolve H t := by
  unfold evolve
  rw [← Matrix.exp_add_of_commute]
  · congr 1
    rw [← add_smul]; congr 1; push_cast; ring
  · exact (Commute.refl H).smul_left _ |>.smul_right _

theorem commute_evolve (H : Matrix n n ℂ) (t : ℝ) : Commute H (evolve H t) := by
  unfold evolve
  exact ((Commute.refl H).smul_right _).exp_right

open scoped Matrix.Norms.Operator in
theorem hasDerivAt_evolve (H : Matrix n n ℂ) (t : ℝ) :
    HasDerivAt (fun s => evolve H s) ((-Complex.I) • (H * evolve H t)) t := by
  have := hasDerivAt_exp_smul_const' (𝕂 := ℝ) ((-Complex.I) • H) t
  have h2 : (fun s => evolve H s) = fun u : ℝ => exp (u • ((-Complex.I) • H)) := by
    funext s; exact evolve_eq_real H s
  rw [h2, evolve_eq_real, ← Matrix.smul_mul]
  exact this

theorem continuous_evolve (H : Matrix n n ℂ) : Continuous (fun s => evolve H s) := by
  open scoped Matrix.Norms.Operator in
  exact continuous_iff_continuousAt.mpr fun t => (hasDerivAt_evolve H t).continuousAt


/-- `exp(−i·t·a·Q) = 1 − i sin(a t) Q + (cos(a t) − 1) Q²` for `Q³ = Q` -/
theorem evolve_of_cube (Q : Matrix n n ℂ) (hQ : Q * Q * Q = Q) (a t : ℝ) :
    evolve ((a : ℂ) • Q) t =
      1 - (Complex.I * (Real.sin (a * t) : ℂ)) • Q + ((Real.cos (a * t) : ℂ) - 1) • (Q * Q) := by
  unfold evolve
  rw [smul_smul, exp_smul_of_cube Q hQ]
  have e : -(Complex.I * (t : ℂ)) * (a : ℂ) = (-(a * t : ℝ) : ℂ) * Complex.I := by push_cast; ring
  rw [e, Complex.cosh_mul_I, Complex.sinh_mul_I, Complex.cos_neg, Complex.sin_neg,
    ← Complex.ofReal_cos, ← Complex.ofReal_sin]
  have e2 : (-(Real.sin (a * t) : ℂ) * Complex.I) = -(Complex.I * (Real.sin (a * t) : ℂ)) := by ring
  rw [e2, neg_smul, ← sub_eq_add_neg]

/-- `exp(−i·t·a·P) = cos(a t) − i sin(a t) P` for `P² = 1` -/
theorem evolve_involution (P : Matrix n n ℂ) (hP : P * P = 1) (a t : ℝ) :
    evolve ((a : ℂ) • P) t =
      (Real.cos (a * t) : ℂ) • (1 : Matrix n n ℂ) - (Complex.I * (Real.sin (a * t) : ℂ)) • P := by
  rw [evolve_of_cube P (by rw [hP, one_mul]) a t, hP, sub_smul, one_smul]
  abel

omit [Fintype n] [DecidableEq n] in
theorem slope_entry (f : ℝ → Matrix n n ℂ) (x s : ℝ) (i j : n) :
    slope f x s i j = slope (fun u => f u i j) x s := by
  simp [slope, Matrix.smul_apply, Matrix.sub_apply]

omit [Fintype n] [DecidableEq n] in
theorem tendsto_slope_entry (f : ℝ → Matrix n n ℂ) (f' : Matrix n n ℂ) (x : ℝ) (L : Filter ℝ) :
    Tendsto (slope f x) L (𝓝 f') ↔ ∀ i j, Tendsto (slope (fun u => f u i j) x) L (𝓝 (f' i j)) := by
  have key : Tendsto (slope f x) L (𝓝 f') ↔
      ∀ i j, Tendsto (fun s => slope f x s i j) L (𝓝 (f' i j)) := by
    constructor
    · intro h i j
      exact tendsto_pi_nhds.mp (tendsto_pi_nhds.mp h i) j
    · intro h
      exact tendsto_pi_nhds.mpr fun i => tendsto_pi_nhds.mpr fun j => h i j
  rw [key]
  simp only [slope_entry]

omit [DecidableEq n] in
open scoped Matrix.Norms.Operator in
theorem hasDerivAt_entry_iff (f : ℝ → Matrix n n ℂ) (f' : Matrix n n ℂ) (x : ℝ) :
    HasDerivAt f f' x ↔ ∀ i j, HasDerivAt (fun u => f u i j) (f' i j) x := by
  refine hasDerivAt_iff_tendsto_slope.trans ((tendsto_slope_entry f f' x _).trans ?_)
  exact forall_congr' fun i => forall_congr' fun j => hasDerivAt_iff_tendsto_slope.symm

omit [DecidableEq n] in
open scoped Matrix.Norms.Operator in
theorem hasDerivWithinAt_entry_iff (f : ℝ → Matrix n n ℂ) (f' : Matrix n n ℂ) (S : Set ℝ) (x : ℝ) :
    HasDerivWithinAt f f' S x ↔ ∀ i j, HasDerivWithinAt (fun u => f u i j) (f' i j) S x := by
  refine hasDerivWithinAt_iff_tendsto_slope.trans ((tendsto_slope_entry f f' x _).trans ?_)
  exact forall_congr' fun i => forall_congr' fun j => hasDerivWithinAt_iff_tendsto_slope.symm

end QipVerif.MatExp
