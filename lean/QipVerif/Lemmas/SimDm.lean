import QipVerif.Lemmas.SimProb
import Mathlib.Algebra.Module.LinearMap.Defs
/-!
# Density-matrix mode = probability-weighted mixture of the branches, for circuits without feed-forward

Everything is stated in a space `V` of unnormalised density operators (any `P`-module): gates act by linear maps
`G`, the outcome `o` of a measurement of qubit `t` by a linear map `Pi t o` (`ρ ↦ P_o ρ P_o`).  The state-vector
backend `Bs` is linked to `V` by `dm : Q → V` (`ψ ↦ |ψ⟩⟨ψ|`) with `p_o · dm(collapsed) = Pi t o (dm ψ)` — the Born
rule — and the density-matrix backend `Bd` evolves `V` itself with `dephase = Pi t 0 + Pi t 1`.
-/
namespace QipVerif.Sim
open QipVerif.Heap

variable {Q V P : Type} [Semiring P] [AddCommMonoid V] [Module P V]

/-- `|ψ⟩⟨ψ|`, or `0` for a pruned branch -/
def dmOpt (dm : Q → V) : Option Q → V
  | some q => dm q
  | none => 0

/-- how the two backends are linked to the operator space -/
structure DmLink (Bs : Backend Q P) (Bd : Backend V P) (dm : Q → V) where
  G : Nat → List Nat → V →ₗ[P] V
  Pi : Nat → Nat → V →ₗ[P] V
  gate_dm : ∀ code qs v, Bd.gate code qs v = G code qs v
  dephase_dm : ∀ t v, Bd.dephase t v = Pi t 0 v + Pi t 1 v
  gate_sv : ∀ code qs q, dm (Bs.gate code qs q) = G code qs (dm q)
  /-- Born rule in operator form: `p_o · |φ_o⟩⟨φ_o| = P_o |ψ⟩⟨ψ| P_o` (and `= 0` when the outcome is pruned) -/
  meas_sv : ∀ t q o, (Bs.meas t q o).1 • dmOpt dm (Bs.meas t q o).2 = Pi t o (dm q)

/-- unnormalised weight of the record `r`: gates where `fire`, one projector per measurement -/
def wRun (G : Nat → List Nat → V →ₗ[P] V) (Pi : Nat → Nat → V →ₗ[P] V) (fire : Gate → Bool) :
    List Op → List Int → V → V
  | [], _, v => v
  | .gate g :: ops, r, v => wRun G Pi fire ops r (if fire g then G g.code g.qubits v else v)
  | .meas t _ :: ops, i :: r, v => wRun G Pi fire ops r (Pi t i.toNat v)
  | .meas _ _ :: _, [], v => v

/-- density-matrix evolution: a measurement is `Pi t 0 + Pi t 1` -/
def dmRun (G : Nat → List Nat → V →ₗ[P] V) (Pi : Nat → Nat → V →ₗ[P] V) (fire : Gate → Bool) :
    List Op → V → V
  | [], v => v
  | .gate g :: ops, v => dmRun G Pi fire ops (if fire g then G g.code g.qubits v else v)
  | .meas t _ :: ops, v => dmRun G Pi fire ops (Pi t 0 v + Pi t 1 v)

theorem dmRun_add (G : Nat → List Nat → V →ₗ[P] V) (Pi : Nat → Nat → V →ₗ[P] V) (fire : Gate → Bool) :
    ∀ (ops : List Op) (a b : V), dmRun G Pi fire ops (a + b) = dmRun G Pi fire ops a + dmRun G Pi fire ops b := by
  intro ops
  induction ops with
  | nil => intro a b; rfl
  | cons op ops ih =>
    intro a b
    cases op with
    | gate g =>
      simp only [dmRun]
      by_cases h : fire g = true
      · simp only [h, ↓reduceIte, map_add]; exact ih _ _
      · simp only [h, Bool.false_eq_true, ↓reduceIte]; exact ih _ _
    | meas t s =>
      simp only [dmRun, map_add]
      rw [← ih]
      congr 1
      exact add_add_add_comm _ _ _ _

theorem wRun_zero (G : Nat → List Nat → V →ₗ[P] V) (Pi : Nat → Nat → V →ₗ[P] V) (fire : Gate → Bool) :
    ∀ (ops : List Op) (r : List Int), wRun G Pi fire ops r 0 = 0 := by
  intro ops
  induction ops with
  | nil => intro r; rfl
  | cons op ops ih =>
    intro r
    cases op with
    | gate g => simp only [wRun, map_zero, ite_self]; exact ih r
    | meas t s =>
      cases r with
      | nil => rfl
      | cons i r => simp only [wRun, map_zero]; exact ih r

/-- **Linear-algebra core**: the density-matrix evolution is the sum over all records of the record weights. -/
theorem dmRun_eq_sum (G : Nat → List Nat → V →ₗ[P] V) (Pi : Nat → Nat → V →ₗ[P] V) (fire : Gate → Bool) :
    ∀ (ops : List Op) (v : V),
      dmRun G Pi fire ops v = ((records (numMeasOps ops)).map (fun r => wRun G Pi fire ops r v)).sum := by
  intro ops
  induction ops with
  | nil => intro v; simp [dmRun, wRun, numMeasOps, records]
  | cons op ops ih =>
    intro v
    cases op with
    | gate g =>
      rw [numMeasOps_gate]
      simp only [dmRun, wRun]
      exact ih _
    | meas t s =>
      rw [numMeasOps_meas]
      simp only [dmRun, records, List.map_append, List.map_map, List.sum_append, Function.comp_def, wRun]
      rw [dmRun_add, ih, ih]
      rfl

/-! ## The condition test only reads the listed bits -/

/-- `cbits[x]` for the optional list -/
def readBit : Option (List Int) → Int → Option Int
  | some l, x => pyGet l x
  | none, _ => none

theorem matchLoop_congr (l l' : List Int) : ∀ (cs : List Int) (conds : List Nat),
    (∀ x ∈ cs, pyGet l x = pyGet l' x) → matchLoop l cs conds = matchLoop l' cs conds
  | [], _, _ => rfl
  | c :: cs, conds, h => by
    have hc := h c (List.mem_cons_self ..)
    have ih := fun ds => matchLoop_congr l l' cs ds (fun x hx => h x (List.mem_cons_of_mem _ hx))
    unfold matchLoop
    rw [hc]
    cases pyGet l' c with
    | none => rfl
    | some b =>
      cases conds with
      | nil => rfl
      | cons d ds => simp only [ih ds]

/-- two bit stores that agree on the controlled positions (and are both present or both absent) give the same
firing decision -/
theorem firesB_congr (g : Gate) (bits bits' : Option (List Int)) (hsome : bits.isSome = bits'.isSome)
    (h : ∀ cs, g.cc = some cs → ∀ x ∈ cs, readBit bits x = readBit bits' x) : firesB g bits = firesB g bits' := by
  unfold firesB fires
  cases hcc : g.cc with
  | none => rfl
  | some cs =>
    simp only
    unfold checkCCV
    cases decimalToBinary g.ccv cs.length with
    | error e => rfl
    | ok conds =>
      simp only
      cases bits with
      | none =>
        cases bits' with
        | none => rfl
        | some l' => simp at hsome
      | some l =>
        cases bits' with
        | none => simp at hsome
        | some l' =>
          simp only
          rw [matchLoop_congr l l' cs conds (fun x hx => h cs hcc x hx)]

theorem pyGet_pySet_ne (l l' : List Int) (s x i : Int) (hs0 : 0 ≤ s) (hx0 : 0 ≤ x) (hne : x ≠ s)
    (hset : pySet l s i = some l') : pyGet l' x = pyGet l x := by
  unfold pySet pyIdx at hset
  simp only [hs0, ↓reduceIte] at hset
  split at hset
  · rename_i j hj
    split at hj
    · simp only [Option.some.injEq] at hj hset
      subst hj hset
      unfold pyGet pyIdx
      simp only [hx0, ↓reduceIte, List.length_set]
      split
      · rename_i j' hlt
        have hsx : s.toNat ≠ x.toNat := by omega
        have hj' : j' = x.toNat := by
          split at hlt
          · exact (Option.some.inj hlt).symm
          · cases hlt
        subst hj'
        rw [List.getElem?_set_ne hsx]
      · rfl
    · cases hj
  · cases hset

theorem readBit_writeBit (bits : Option (List Int)) (store : Option Int) (i x : Int) (hx0 : 0 ≤ x)
    (hne : ∀ s, store = some s → 0 ≤ s ∧ x ≠ s) : readBit (writeBit bits store i) x = readBit bits x := by
  unfold writeBit
  cases store with
  | none => rfl
  | some s =>
    cases bits with
    | none => rfl
    | some l =>
      simp only [readBit]
      cases hset : pySet l s i with
      | none => rfl
      | some l' =>
        simp only [Option.getD_some]
        exact pyGet_pySet_ne l l' s x i (hne s rfl).1 hx0 (hne s rfl).2 hset

theorem writeBit_isSome (bits : Option (List Int)) (store : Option Int) (i : Int) :
    (writeBit bits store i).isSome = bits.isSome := by
  unfold writeBit
  cases store <;> cases bits <;> rfl

/-! ## Branch weights without feed-forward -/

/-- the weight `p · |φ⟩⟨φ|` carried by a branch state (`0` once pruned) -/
def weight (dm : Q → V) (b : Br Q P) : V := b.prob • dmOpt dm b.st

/-- no gate of `ops` is conditioned on a bit that a measurement of `ops` writes; indices are non-negative -/
structure NoFeedForward (ops : List Op) (reads : Int → Prop) : Prop where
  gates : ∀ g cs, Op.gate g ∈ ops → g.cc = some cs → ∀ x ∈ cs, reads x ∧ 0 ≤ x
  stores : ∀ t s, Op.meas t (some s) ∈ ops → ¬ reads s ∧ 0 ≤ s

/-- **Branch weight = projector chain.** Without feed-forward every conditioned gate decides as it would on the
initial bits, and the weight of a record's branch is the chain of gate maps and projectors applied to the
initial weight. -/
theorem weight_brRun (Bs : Backend Q P) (Bd : Backend V P) (dm : Q → V) (L : DmLink Bs Bd dm)
    (bits0 : Option (List Int)) (reads : Int → Prop) :
    ∀ (ops : List Op) (b : Br Q P), NoFeedForward ops reads →
      b.bits.isSome = bits0.isSome → (∀ x, reads x → 0 ≤ x → readBit b.bits x = readBit bits0 x) →
      b.rest.length = numMeasOps ops →
      weight dm (brRun Bs b ops) = wRun L.G L.Pi (fun g => firesB g bits0) ops b.rest (weight dm b) := by
  intro ops
  induction ops with
  | nil => intro b _ _ _ _; rfl
  | cons op ops ih =>
    intro b hff hsome hagree hlen
    have hff' : NoFeedForward ops reads :=
      ⟨fun g cs hg => hff.gates g cs (List.mem_cons_of_mem _ hg),
       fun t s hm => hff.stores t s (List.mem_cons_of_mem _ hm)⟩
    have hstep : brRun Bs b (op :: ops) = brRun Bs (brStep Bs b op) ops := by simp [brRun]
    rw [hstep]
    cases op with
    | gate g =>
      rw [numMeasOps_gate] at hlen
      have hfire : firesB g b.bits = firesB g bits0 :=
        firesB_congr g b.bits bits0 hsome (fun cs hcc x hx => by
          obtain ⟨h1, h2⟩ := hff.gates g cs (List.mem_cons_self ..) hcc x hx
          exact hagree x h1 h2)
      simp only [wRun]
      cases hst : b.st with
      | none =>
        have hb' : brStep Bs b (.gate g) = b := by simp [brStep, hst]
        rw [hb', ih b hff' hsome hagree hlen]
        have hw0 : weight dm b = 0 := by simp [weight, hst, dmOpt]
        rw [hw0]
        simp
      | some q =>
        by_cases hf : firesB g bits0 = true
        · have hb' : brStep Bs b (.gate g) = { b with st := some (Bs.gate g.code g.qubits q) } := by
            simp [brStep, hst, hfire, hf]
          rw [hb', ih { b with st := some (Bs.gate g.code g.qubits q) } hff' hsome hagree hlen]
          simp only [hf, ↓reduceIte]
          congr 1
          show b.prob • dm (Bs.gate g.code g.qubits q) = L.G g.code g.qubits (b.prob • dmOpt dm b.st)
          rw [hst, L.gate_sv, map_smul]
          rfl
        · have hb' : brStep Bs b (.gate g) = b := by simp [brStep, hst, hfire, hf]
          rw [hb', ih b hff' hsome hagree hlen]
          simp [hf]
    | meas t store =>
      rw [numMeasOps_meas] at hlen
      cases hr : b.rest with
      | nil => rw [hr] at hlen; simp at hlen
      | cons i rest =>
        simp only [wRun]
        cases hst : b.st with
        | none =>
          have hb' : brStep Bs b (.meas t store) = b := by simp [brStep, hst]
          have hw0 : weight dm b = 0 := by simp [weight, hst, dmOpt]
          rw [hb', brRun_dead Bs b hst, hw0, map_zero, wRun_zero]
        | some q =>
          have hb' : brStep Bs b (.meas t store) =
              { bits := writeBit b.bits store i, st := (Bs.meas t q i.toNat).2,
                prob := b.prob * (Bs.meas t q i.toNat).1, rest := rest } := by
            simp [brStep, hst, hr]
          rw [hb']
          have hsome' : (writeBit b.bits store i).isSome = bits0.isSome := by rw [writeBit_isSome, hsome]
          have hagree' : ∀ x, reads x → 0 ≤ x → readBit (writeBit b.bits store i) x = readBit bits0 x := by
            intro x hx hx0
            rw [readBit_writeBit b.bits store i x hx0, hagree x hx hx0]
            intro s hs
            subst hs
            obtain ⟨h1, h2⟩ := hff.stores t s (List.mem_cons_self ..)
            exact ⟨h2, fun h => h1 (h ▸ hx)⟩
          rw [ih _ hff' hsome' hagree' (by rw [hr] at hlen; simpa using hlen)]
          congr 1
          show (b.prob * (Bs.meas t q i.toNat).1) • dmOpt dm (Bs.meas t q i.toNat).2
            = L.Pi t i.toNat (b.prob • dmOpt dm b.st)
          rw [hst, mul_smul, L.meas_sv, map_smul]
          rfl

end QipVerif.Sim
