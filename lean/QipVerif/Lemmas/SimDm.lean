import QipVerif.Lemmas.SimProb
import Mathlib.Algebra.Module.LinearMap.Defs
/-!
# Density-matrix mode = probability-weighted mixture of the branches, for circuits without feed-forward

Everything is stated in a space `V` of unnormalised density operators (any `P`-module): gates act by linear maps
`G`, the outcome `o` of a measurement of qubit `t` by a linear map `Pi t o` (`ρ ↦ P_o ρ P_o`).  The state-vector
backend `Bs` is linked to `V` by `dm : Q → V` (`ψ ↦ |ψ⟩⟨ψ|`) with `p_o · dm(collapsed) = Pi t o (dm ψ)` — the Born
rule — and the density-matrix backend `Bd` evolves `V` itself with `dephase = Pi t 0 + Pi t 1`.
-/
namespace QipVerif.Sim
open QipVerif.Heap

variable {Q V P : Type} [Semiring P] [AddCommMonoid V] [Module P V]

/-- `|ψ⟩⟨ψ|`, or `0` for a pruned branch -/
def dmOpt (dm : Q → V) : Option Q → V
  | some q => dm q
  | none => 0

/-- how the two backends are linked to the operator space -/
structure DmLink (Bs : Backend Q P) (Bd : Backend V P) (dm : Q → V) where
  G : Nat → List Nat → V →ₗ[P] V
  Pi : Nat → Nat → V →ₗ[P] V
  gate_dm : ∀ code qs v, Bd.gate code qs v = G code qs v
  dephase_dm : ∀ t v, Bd.dephase t v = Pi t 0 v + Pi t 1 v
  gate_sv : ∀ code qs q, dm (Bs.gate code qs q) = G code qs (dm q)
  /-- Born rule in operator form: `p_o · |φ_o⟩⟨φ_o| = P_o |ψ⟩⟨ψ| P_o` (and `= 0` when the outcome is pruned) -/
  meas_sv : ∀ t q o, (Bs.meas t q o).1 • dmOpt dm (Bs.meas t q o).2 = Pi t o (dm q)

/-- unnormalised weight of the record `r`: gates where `fire`, one projector per measurement -/
def wRun (G : Nat → List Nat → V →ₗ[P] V) (Pi : Nat → Nat → V →ₗ[P] V) (fire : Gate → Bool) :
    List Op → List Int → V → V
  | [], _, v => v
  | .gate g :: ops, r, v => wRun G Pi fire ops r (if fire g then G g.code g.qubits v else v)
  | .meas t _ :: ops, i :: r, v => wRun G Pi fire ops r (Pi t i.toNat v)
  | .meas _ _ :: _, [], v => v

/-- density-matrix evolution: a measurement is `Pi t 0 + Pi t 1` -/
def dmRun (G : Nat → List Nat → V →ₗ[P] V) (Pi : Nat → Nat → V →ₗ[P] V) (fire : Gate → Bool) :
    List Op → V → V
  | [], v => v
  | .gate g :: ops, v => dmRun G Pi fire ops (if fire g then G g.code g.qubits v else v)
  | .meas t _ :: ops, v => dmRun G Pi fire ops (Pi t 0 v + Pi t 1 v)

theorem dmRun_add (G : Nat → List Nat → V →ₗ[P] V) (Pi : Nat → Nat → V →ₗ[P] V) (fire : Gate → Bool) :
    ∀ (ops : List Op) (a b : V), dmRun G Pi fire ops (a + b) = dmRun G Pi fire ops a + dmRun G Pi fire ops b := by
  intro ops
  induction ops with
  | nil => intro a b; rfl
  | cons op ops ih =>
    intro a b
    cases op with
    | gate g =>
      simp only [dmRun]
      by_cases h : fire g = true
      · simp only [h, ↓reduceIte, map_add]; exact ih _ _
      · simp only [h, Bool.false_eq_true, ↓reduceIte]; exact ih _ _
    | meas t s =>
      simp only [dmRun, map_add]
      rw [← ih]
      congr 1
      exact add_add_add_comm _ _ _ _

theorem wRun_zero (G : Nat → List Nat → V →ₗ[P] V) (Pi : Nat → Nat → V →ₗ[P] V) (fire : Gate → Bool) :
    ∀ (ops : List Op) (r : List Int), wRun G Pi fire ops r 0 = 0 := by
  intro ops
  induction ops with
  | nil => intro r; rfl
  | cons op ops ih =>
    intro r
    cases op with
    | gate g => simp only [wRun, map_zero, ite_self]; exact ih r
    | meas t s =>
      cases r with
      | nil => rfl
      | cons i r => simp only [wRun, map_zero]; exact ih r

/-- **Linear-algebra core**: the density-matrix evolution is the sum over all records of the record weights. -/
theorem dmRun_eq_sum (G : Nat → List Nat → V →ₗ[P] V) (Pi : Nat → Nat → V →ₗ[P] V) (fire : Gate → Bool) :
    ∀ (ops : List Op) (v : V),
      dmRun G Pi fire ops v = ((records (numMeasOps ops)).map (fun r => wRun G Pi fire ops r v)).sum := by
  intro ops
  induction ops with
  | nil => intro v; simp [dmRun, wRun, numMeasOps, records]
  | cons op ops ih =>
    intro v
    cases op with
    | gate g =>
      rw [numMeasOps_gate]
      simp only [dmRun, wRun]
      exact ih _
    | meas t s =>
      rw [numMeasOps_meas]
      simp only [dmRun, records, List.map_append, List.map_map, List.sum_append, Function.comp_def, wRun]
      rw [dmRun_add, ih, ih]
      rfl

/-! ## The condition test only reads the listed bits -/

/-- `cbits[x]` for the optional list -/
def readBit : Option (List Int) → Int → Option Int
  | some l, x => pyGet l x
  | none, _ => none

theorem matchLoop_congr (l l' : List Int) : ∀ (cs : List Int) (conds : List Nat),
    (∀ x ∈ cs, pyGet l x = pyGet l' x) → matchLoop l cs conds = matchLoop l' cs conds
  | [], _, _ => rfl
  | c :: cs, conds, h => by
    have hc := h c (List.mem_cons_self ..)
    have ih := fun ds => matchLoop_congr l l' cs ds (fun x hx => h x (List.mem_cons_of_mem _ hx))
    unfold matchLoop
    rw [hc]
    cases pyGet l' c with
    | none => rfl
    | some b =>
      cases conds with
      | nil => rfl
      | cons d ds => simp only [ih ds]

/-- two bit stores that agree on the controlled positions (and are both present or both absent) give the same
firing decision -/
theorem firesB_congr (g : Gate) (bits bits' : Option (List Int)) (hsome : bits.isSome = bits'.isSome)
    (h : ∀ cs, g.cc = some cs → ∀ x ∈ cs, readBit bits x = readBit bits' x) : firesB g bits = firesB g bits' := by
  unfold firesB fires
  cases hcc : g.cc with
  | none => rfl
  | some cs =>
    simp only
    unfold checkCCV
    cases decimalToBinary g.ccv cs.length with
    | error e => rfl
    | ok conds =>
      simp only
      cases bits with
      | none =>
        cases bits' with
        | none => rfl
        | some l' => simp at hsome
      | some l =>
        cases bits' with
        | none => simp at hsome
        | some l' =>
          simp only
          rw [matchLoop_congr l l' cs conds (fun x hx => h cs hcc x hx)]

theorem pyGet_pySet_ne (l l' : List Int) (s x i : Int) (hs0 : 0 ≤ s) (hx0 : 0 ≤ x) (hne : x ≠ s)
    (hset : pySet l s i = some l') : pyGet l' x = pyGet l x := by
  unfold pySet pyIdx at hset
  simp only [hs0, ↓reduceIte] at hset
  split at hset
  · rename_i j hj
    split at hj
    · simp only [Option.some.injEq] at hj hset
      subst hj hset
      unfold pyGet pyIdx
      simp only [hx0, ↓reduceIte, List.length_set]
      split
      · rename_i j' hlt
        have hsx : s.toNat ≠ x.toNat := by omega
        have hj' : j' = x.toNat := by
          split at hlt
          · exact (Option.some.inj hlt).symm
          · cases hlt
        subst hj'
        rw [List.getElem?_set_ne hsx]
      · rfl
    · cases hj
  · cases hset

theorem readBit_writeBit (bits : Option (List Int)) (store : Option Int) (i x : Int) (hx0 : 0 ≤ x)
    (hne : ∀ s, store = some s → 0 ≤ s ∧ x ≠ s) : readBit (writeBit bits store i) x = readBit bits x := by
  unfold writeBit
  cases store with
  | none => rfl
  | some s =>
    cases bits with
    | none => rfl
    | some l =>
      simp only [readBit]
      cases hset : pySet l s i with
      | none => rfl
      | some l' =>
        simp only [Option.getD_some]
        exact pyGet_pySet_ne l l' s x i (hne s rfl).1 hx0 (hne s rfl).2 hset

theorem writeBit_isSome (bits : Option (List Int)) (store : Option Int) (i : Int) :
    (writeBit bits store i).isSome = bits.isSome := by
  unfold writeBit
  cases store <;> cases bits <;> rfl

/-! ## Branch weights without feed-forward -/

/-- the weight `p · |φ⟩⟨φ|` carried by a branch state (`0` once pruned) -/
def weight (dm : Q → V) (b : Br Q P) : V := b.prob • dmOpt dm b.st

/-- no gate of `ops` is conditioned on a bit that a measurement of `ops` writes; indices are non-negative -/
structure NoFeedForward (ops : List Op) (reads : Int → Prop) : Prop where
  gates : ∀ g cs, Op.gate g ∈ ops → g.cc = some cs → ∀ x ∈ cs, reads x ∧ 0 ≤ x
  stores : ∀ t s, Op.meas t (some s) ∈ ops → ¬ reads s ∧ 0 ≤ s

/-- **Branch weight = projector chain.** Without feed-forward every conditioned gate decides as it would on the
initial bits, and the weight of a record's branch is the chain of gate maps and projectors applied to the
initial weight. -/
theorem weight_brRun (Bs : Backend Q P) (Bd : Backend V P) (dm : Q → V) (L : DmLink Bs Bd dm)
    (bits0 : Option (List Int)) (reads : Int → Prop) :
    ∀ (ops : List Op) (b : Br Q P), NoFeedForward ops reads →
      b.bits.isSome = bits0.isSome → (∀ x, reads x → 0 ≤ x → readBit b.bits x = readBit bits0 x) →
      b.rest.length = numMeasOps ops →
      weight dm (brRun Bs b ops) = wRun L.G L.Pi (fun g => firesB g bits0) ops b.rest (weight dm b) := by
  intro ops
  induction ops with
  | nil => intro b _ _ _ _; rfl
  | cons op ops ih =>
    intro b hff hsome hagree hlen
    have hff' : NoFeedForward ops reads :=
      ⟨fun g cs hg => hff.gates g cs (List.mem_cons_of_mem _ hg),
       fun t s hm => hff.stores t s (List.mem_cons_of_mem _ hm)⟩
    have hstep : brRun Bs b (op :: ops) = brRun Bs (brStep Bs b op) ops := by simp [brRun]
    rw [hstep]
    cases op with
    | gate g =>
      rw [numMeasOps_gate] at hlen
      have hfire : firesB g b.bits = firesB g bits0 :=
        firesB_congr g b.bits bits0 hsome (fun cs hcc x hx => by
          obtain ⟨h1, h2⟩ := hff.gates g cs (List.mem_cons_self ..) hcc x hx
          exact hagree x h1 h2)
      simp only [wRun]
      cases hst : b.st with
      | none =>
        have hb' : brStep Bs b (.gate g) = b := by simp [brStep, hst]
        rw [hb', ih b hff' hsome hagree hlen]
        have hw0 : weight dm b = 0 := by simp [weight, hst, dmOpt]
        rw [hw0]
        simp
      | some q =>
        by_cases hf : firesB g bits0 = true
        · have hb' : brStep Bs b (.gate g) = { b with st := some (Bs.gate g.code g.qubits q) } := by
            simp [brStep, hst, hfire, hf]
          rw [hb', ih { b with st := some (Bs.gate g.code g.qubits q) } hff' hsome hagree hlen]
          simp only [hf, ↓reduceIte]
          congr 1
          show b.prob • dm (Bs.gate g.code g.qubits q) = L.G g.code g.qubits (b.prob • dmOpt dm b.st)
          rw [hst, L.gate_sv, map_smul]
          rfl
        · have hb' : brStep Bs b (.gate g) = b := by simp [brStep, hst, hfire, hf]
          rw [hb', ih b hff' hsome hagree hlen]
          simp [hf]
    | meas t store =>
      rw [numMeasOps_meas] at hlen
      cases hr : b.rest with
      | nil => rw [hr] at hlen; simp at hlen
      | cons i rest =>
        simp only [wRun]
        cases hst : b.st with
        | none =>
          have hb' : brStep Bs b (.meas t store) = b := by simp [brStep, hst]
          have hw0 : weight dm b = 0 := by simp [weight, hst, dmOpt]
          rw [hb', brRun_dead Bs b hst, hw0, map_zero, wRun_zero]
        | some q =>
          have hb' : brStep Bs b (.meas t store) =
              { bits := writeBit b.bits store i, st := (Bs.meas t q i.toNat).2,
                prob := b.prob * (Bs.meas t q i.toNat).1, rest := rest } := by
            simp [brStep, hst, hr]
          rw [hb']
          have hsome' : (writeBit b.bits store i).isSome = bits0.isSome := by rw [writeBit_isSome, hsome]
          have hagree' : ∀ x, reads x → 0 ≤ x → readBit (writeBit b.bits store i) x = readBit bits0 x := by
            intro x hx hx0
            rw [readBit_writeBit b.bits store i x hx0, hagree x hx hx0]
            intro s hs
            subst hs
            obtain ⟨h1, h2⟩ := hff.stores t s (List.mem_cons_self ..)
            exact ⟨h2, fun h => h1 (h ▸ hx)⟩
          rw [ih _ hff' hsome' hagree' (by rw [hr] at hlen; simpa using hlen)]
          congr 1
          show (b.prob * (Bs.meas t q i.toNat).1) • dmOpt dm (Bs.meas t q i.toNat).2
            = L.Pi t i.toNat (b.prob • dmOpt dm b.st)
          rw [hst, mul_smul, L.meas_sv, map_smul]
          rfl

/-! ## Feed-forward, position-sensitive: a gate must not read a bit written by an EARLIER measurement -/

/-- `FF m ops`: with `m` the bits written so far, no conditioned gate of `ops` reads a bit written before it -/
def FF : List Int → List Op → Prop
  | _, [] => True
  | m, .gate g :: ops => (∀ cs, g.cc = some cs → ∀ x ∈ cs, x ∉ m) ∧ FF m ops
  | m, .meas _ store :: ops => FF (store.toList ++ m) ops

theorem FF_of_noFeedForward (reads : Int → Prop) : ∀ (ops : List Op) (m : List Int),
    NoFeedForward ops reads → (∀ s ∈ m, ¬ reads s) → FF m ops := by
  intro ops
  induction ops with
  | nil => intro m _ _; trivial
  | cons op ops ih =>
    intro m hff hm
    have hff' : NoFeedForward ops reads :=
      ⟨fun g cs hg => hff.gates g cs (List.mem_cons_of_mem _ hg),
       fun t s hmm => hff.stores t s (List.mem_cons_of_mem _ hmm)⟩
    cases op with
    | gate g =>
      refine ⟨?_, ih m hff' hm⟩
      intro cs hcc x hx hxm
      exact hm x hxm (hff.gates g cs (List.mem_cons_self ..) hcc x hx).1
    | meas t store =>
      apply ih _ hff'
      intro s hs
      rcases List.mem_append.mp hs with h | h
      · cases store with
        | none => simp at h
        | some s' =>
          simp only [Option.toList_some, List.mem_singleton] at h
          subst h
          exact (hff.stores t s (List.mem_cons_self ..)).1
      · exact hm s h

/-- **Branch weight = projector chain (position-sensitive version).** -/
theorem weight_brRun_ff (Bs : Backend Q P) (Bd : Backend V P) (dm : Q → V) (L : DmLink Bs Bd dm)
    (bits0 : Option (List Int)) (nq ncb : Nat) :
    ∀ (ops : List Op) (b : Br Q P) (m : List Int), FF m ops → (∀ op ∈ ops, op.Valid nq ncb) →
      b.bits.isSome = bits0.isSome → (∀ x, 0 ≤ x → x ∉ m → readBit b.bits x = readBit bits0 x) →
      b.rest.length = numMeasOps ops →
      weight dm (brRun Bs b ops) = wRun L.G L.Pi (fun g => firesB g bits0) ops b.rest (weight dm b) := by
  intro ops
  induction ops with
  | nil => intro b m _ _ _ _ _; rfl
  | cons op ops ih =>
    intro b m hff hvalid hsome hagree hlen
    have hvalid' : ∀ op' ∈ ops, op'.Valid nq ncb := fun o ho => hvalid o (List.mem_cons_of_mem _ ho)
    have hstep : brRun Bs b (op :: ops) = brRun Bs (brStep Bs b op) ops := by simp [brRun]
    rw [hstep]
    cases op with
    | gate g =>
      obtain ⟨hg, hff'⟩ := hff
      rw [numMeasOps_gate] at hlen
      have hgv := hvalid (.gate g) (List.mem_cons_self ..)
      have hfire : firesB g b.bits = firesB g bits0 :=
        firesB_congr g b.bits bits0 hsome (fun cs hcc x hx =>
          hagree x ((hgv cs hcc).1 x hx).1 (hg cs hcc x hx))
      simp only [wRun]
      cases hst : b.st with
      | none =>
        have hb' : brStep Bs b (.gate g) = b := by simp [brStep, hst]
        rw [hb', ih b m hff' hvalid' hsome hagree hlen]
        have hw0 : weight dm b = 0 := by simp [weight, hst, dmOpt]
        rw [hw0]
        simp
      | some q =>
        by_cases hf : firesB g bits0 = true
        · have hb' : brStep Bs b (.gate g) = { b with st := some (Bs.gate g.code g.qubits q) } := by
            simp [brStep, hst, hfire, hf]
          rw [hb', ih { b with st := some (Bs.gate g.code g.qubits q) } m hff' hvalid' hsome hagree hlen]
          simp only [hf, ↓reduceIte]
          congr 1
          show b.prob • dm (Bs.gate g.code g.qubits q) = L.G g.code g.qubits (b.prob • dmOpt dm b.st)
          rw [hst, L.gate_sv, map_smul]
          rfl
        · have hb' : brStep Bs b (.gate g) = b := by simp [brStep, hst, hfire, hf]
          rw [hb', ih b m hff' hvalid' hsome hagree hlen]
          simp [hf]
    | meas t store =>
      have hff' : FF (store.toList ++ m) ops := hff
      rw [numMeasOps_meas] at hlen
      have hmv := hvalid (.meas t store) (List.mem_cons_self ..)
      cases hr : b.rest with
      | nil => rw [hr] at hlen; simp at hlen
      | cons i rest =>
        simp only [wRun]
        cases hst : b.st with
        | none =>
          have hb' : brStep Bs b (.meas t store) = b := by simp [brStep, hst]
          have hw0 : weight dm b = 0 := by simp [weight, hst, dmOpt]
          rw [hb', brRun_dead Bs b hst, hw0, map_zero, wRun_zero]
        | some q =>
          have hb' : brStep Bs b (.meas t store) =
              { bits := writeBit b.bits store i, st := (Bs.meas t q i.toNat).2,
                prob := b.prob * (Bs.meas t q i.toNat).1, rest := rest } := by
            simp [brStep, hst, hr]
          rw [hb']
          have hsome' : (writeBit b.bits store i).isSome = bits0.isSome := by rw [writeBit_isSome, hsome]
          have hagree' : ∀ x, 0 ≤ x → x ∉ store.toList ++ m →
              readBit (writeBit b.bits store i) x = readBit bits0 x := by
            intro x hx0 hxm
            rw [readBit_writeBit b.bits store i x hx0, hagree x hx0 (fun h => hxm (List.mem_append_right _ h))]
            intro s hs
            subst hs
            refine ⟨(hmv.2 s rfl).1, fun h => hxm ?_⟩
            subst h
            simp
          rw [ih _ (store.toList ++ m) hff' hvalid' hsome' hagree' (by rw [hr] at hlen; simpa using hlen)]
          congr 1
          show (b.prob * (Bs.meas t q i.toNat).1) • dmOpt dm (Bs.meas t q i.toNat).2
            = L.Pi t i.toNat (b.prob • dmOpt dm b.st)
          rw [hst, mul_smul, L.meas_sv, map_smul]
          rfl

/-! ## The model's density-matrix run -/

/-- the set `_mixed_cbits` after the measurements seen so far wrote `m` -/
def mixedOf (cfg : Cfg) (m : List Int) : List Int := if cfg.dmRefuse then m else []

theorem noteMixed_mixedOf (cfg : Cfg) (store : Option Int) (m : List Int) :
    noteMixed cfg store (mixedOf cfg m) = mixedOf cfg (store.toList ++ m) := by
  unfold noteMixed mixedOf
  cases store with
  | none => simp
  | some s => by_cases h : cfg.dmRefuse <;> simp [h]

theorem refuses_false_of (cfg : Cfg) (g : Gate) (m : List Int) (h : ∀ cs, g.cc = some cs → ∀ x ∈ cs, x ∉ m) :
    refuses cfg g (mixedOf cfg m) = false := by
  unfold refuses mixedOf
  by_cases hd : cfg.dmRefuse
  · simp only [hd, ↓reduceIte, Bool.true_and]
    cases hcc : g.cc with
    | none => rfl
    | some cs =>
      simp only [List.any_eq_false, List.contains_eq_mem, decide_eq_true_eq]
      intro x hx; exact h cs hcc x hx
  · simp [hd]

omit [AddCommMonoid V] [Module P V] in
theorem coreStep_dm_gate (Bd : Backend V P) (cfg : Cfg) (c : Circuit) (k : Core V P) (rng : List Int) (g : Gate) (v : V)
    (hop : c.ops[k.f.opIndex]? = some (.gate g)) (hv : (Op.gate g).Valid c.nq c.ncb) (hb : BitsOk c.ncb k.bits)
    (hq : k.f.st = some v) (href : refuses cfg g k.f.mixed = false) :
    (coreStep Bd cfg .dm c k rng).err = none ∧
    (coreStep Bd cfg .dm c k rng).core.f.opIndex = k.f.opIndex + 1 ∧
    (coreStep Bd cfg .dm c k rng).core.bits = k.bits ∧
    (coreStep Bd cfg .dm c k rng).core.f.st = some (if firesB g k.bits then Bd.gate g.code g.qubits v else v) ∧
    (coreStep Bd cfg .dm c k rng).core.f.mixed = k.f.mixed := by
  obtain ⟨bv, hbv⟩ := fires_ok g c.nq c.ncb k.bits hv hb
  have hfb : firesB g k.bits = bv := by unfold firesB; rw [hbv]
  unfold coreStep
  simp only [hop, href, Bool.false_eq_true, ↓reduceIte]
  cases bv with
  | false => simp [hbv, hfb, hq]
  | true => simp [hbv, hfb, hq]

omit [AddCommMonoid V] [Module P V] in
theorem coreStep_dm_meas (Bd : Backend V P) (cfg : Cfg) (c : Circuit) (k : Core V P) (rng : List Int) (t : Nat)
    (store : Option Int) (v : V) (hop : c.ops[k.f.opIndex]? = some (.meas t store)) (ht : t < c.nq)
    (hq : k.f.st = some v) :
    (coreStep Bd cfg .dm c k rng).err = none ∧
    (coreStep Bd cfg .dm c k rng).core.f.opIndex = k.f.opIndex + 1 ∧
    (coreStep Bd cfg .dm c k rng).core.bits = k.bits ∧
    (coreStep Bd cfg .dm c k rng).core.f.st = some (Bd.dephase t v) ∧
    (coreStep Bd cfg .dm c k rng).core.f.mixed = noteMixed cfg store k.f.mixed := by
  unfold coreStep
  have : ¬ t ≥ c.nq := by omega
  simp [hop, hq, this]

omit [Semiring P] [AddCommMonoid V] [Module P V] in
/-- in density-matrix mode `_state` stays a `Qobj` -/
theorem coreStep_dm_form [Mul P] (Bd : Backend V P) (cfg : Cfg) (c : Circuit) (k : Core V P) (rng : List Int) :
    (coreStep Bd cfg .dm c k rng).core.f.form = k.f.form := by
  unfold coreStep
  cases hop : c.ops[k.f.opIndex]? with
  | none => rfl
  | some op =>
    cases op with
    | meas t store =>
      simp only
      cases hst : k.f.st with
      | none => rfl
      | some q => by_cases ht : t ≥ c.nq <;> simp [ht]
    | gate g =>
      simp only
      by_cases hr : refuses cfg g k.f.mixed = true
      · simp only [hr, ↓reduceIte]
      · simp only [hr, Bool.false_eq_true, ↓reduceIte]
        cases hf : fires g k.bits with
        | error e => rfl
        | ok bv =>
          cases bv with
          | false => rfl
          | true =>
            cases hst : k.f.st with
            | none => rfl
            | some q => rfl

omit [Semiring P] [AddCommMonoid V] [Module P V] in
/-- density-matrix mode never touches `_probability` -/
theorem coreStep_dm_prob [Mul P] (Bd : Backend V P) (cfg : Cfg) (c : Circuit) (k : Core V P) (rng : List Int) :
    (coreStep Bd cfg .dm c k rng).core.f.prob = k.f.prob := by
  unfold coreStep
  cases hop : c.ops[k.f.opIndex]? with
  | none => rfl
  | some op =>
    cases op with
    | meas t store =>
      simp only
      cases hst : k.f.st with
      | none => rfl
      | some q => by_cases ht : t ≥ c.nq <;> simp [ht]
    | gate g =>
      simp only
      by_cases hr : refuses cfg g k.f.mixed = true
      · simp only [hr, ↓reduceIte]
      · simp only [hr, Bool.false_eq_true, ↓reduceIte]
        cases hf : fires g k.bits with
        | error e => rfl
        | ok bv =>
          cases bv with
          | false => rfl
          | true =>
            cases hst : k.f.st with
            | none => rfl
            | some q => rfl

/-- the model's density-matrix loop computes `dmRun` with the firing decisions taken on the (never changing) bits,
as long as no gate reads a bit written by an earlier measurement -/
theorem coreRunLoop_dm (Bs : Backend Q P) (Bd : Backend V P) (dm : Q → V) (L : DmLink Bs Bd dm) (cfg : Cfg)
    (c : Circuit) (hc : c.Valid) :
    ∀ (ops : List Op) (k : Core V P) (rng : List Int) (v : V) (m : List Int),
      c.ops.drop k.f.opIndex = ops → BitsOk c.ncb k.bits → k.f.st = some v → FF m ops →
      k.f.mixed = mixedOf cfg m →
      (coreRunLoop Bd cfg .dm c ops.length k rng).err = none ∧
      (coreRunLoop Bd cfg .dm c ops.length k rng).core.f.st =
        some (dmRun L.G L.Pi (fun g => firesB g k.bits) ops v) ∧
      (coreRunLoop Bd cfg .dm c ops.length k rng).core.f.prob = k.f.prob := by
  intro ops
  induction ops with
  | nil => intro k rng v m _ _ hq _ _; exact ⟨rfl, hq, rfl⟩
  | cons op ops ih =>
    intro k rng v m hdrop hb hq hff hmix
    obtain ⟨hget, hdrop'⟩ := getElem?_of_drop c.ops k.f.opIndex op ops hdrop
    have hvalid : op.Valid c.nq c.ncb := hc op (List.mem_of_getElem? hget)
    have hstep : ∃ v' m', (coreStep Bd cfg .dm c k rng).err = none ∧
        (coreStep Bd cfg .dm c k rng).core.f.opIndex = k.f.opIndex + 1 ∧
        (coreStep Bd cfg .dm c k rng).core.bits = k.bits ∧
        (coreStep Bd cfg .dm c k rng).core.f.st = some v' ∧
        (coreStep Bd cfg .dm c k rng).core.f.prob = k.f.prob ∧
        FF m' ops ∧ (coreStep Bd cfg .dm c k rng).core.f.mixed = mixedOf cfg m' ∧
        dmRun L.G L.Pi (fun g => firesB g k.bits) (op :: ops) v = dmRun L.G L.Pi (fun g => firesB g k.bits) ops v' := by
      cases op with
      | gate g =>
        obtain ⟨hg, hff'⟩ := hff
        have href : refuses cfg g k.f.mixed = false := by rw [hmix]; exact refuses_false_of cfg g m hg
        obtain ⟨h1, h2, h3, h4, h5⟩ := coreStep_dm_gate Bd cfg c k rng g v hget hvalid hb hq href
        refine ⟨_, m, h1, h2, h3, h4, coreStep_dm_prob Bd cfg c k rng, hff', by rw [h5, hmix], ?_⟩
        simp only [dmRun, L.gate_dm]
      | meas t store =>
        obtain ⟨h1, h2, h3, h4, h5⟩ := coreStep_dm_meas Bd cfg c k rng t store v hget hvalid.1 hq
        refine ⟨_, store.toList ++ m, h1, h2, h3, h4, coreStep_dm_prob Bd cfg c k rng, hff, ?_, ?_⟩
        · rw [h5, hmix, noteMixed_mixedOf]
        · simp only [dmRun, L.dephase_dm]
    obtain ⟨v', m', he, hidx, hbits, hst, hprob, hff', hmix', hdm⟩ := hstep
    simp only [List.length_cons]
    unfold coreRunLoop
    generalize ho : coreStep Bd cfg .dm c k rng = o at he hidx hbits hst hprob hmix'
    simp only [he, hst, Option.isNone_some, Bool.false_eq_true, ↓reduceIte]
    have := ih o.core o.rng v' m' (by rw [hidx]; exact hdrop') (by rw [hbits]; exact hb) hst hff' hmix'
    rw [hbits] at this
    exact ⟨this.1, by rw [this.2.1, hdm], by rw [this.2.2, hprob]⟩

theorem refuses_true_of (cfg : Cfg) (hd : cfg.dmRefuse = true) (g : Gate) (m : List Int)
    (h : ¬ ∀ cs, g.cc = some cs → ∀ x ∈ cs, x ∉ m) : refuses cfg g (mixedOf cfg m) = true := by
  unfold refuses mixedOf
  simp only [hd, ↓reduceIte, Bool.true_and]
  cases hcc : g.cc with
  | none => exact absurd (fun cs hc => by rw [hcc] at hc; cases hc) h
  | some cs =>
    simp only [List.any_eq_true, List.contains_eq_mem, decide_eq_true_eq]
    by_contra hne
    apply h
    intro cs' hc x hx hxm
    rw [hcc] at hc
    cases hc
    exact hne ⟨x, hx, hxm⟩

/-- **With fix C02-3 a feed-forward circuit is refused**: if some gate reads a bit written by an earlier
measurement, the density-matrix run raises `NotImplementedError` (instead of deciding the gate on the stale bit). -/
theorem coreRunLoop_dm_refuses (Bd : Backend V P) (cfg : Cfg) (hd : cfg.dmRefuse = true) (c : Circuit) (hc : c.Valid) :
    ∀ (ops : List Op) (k : Core V P) (rng : List Int) (v : V) (m : List Int),
      c.ops.drop k.f.opIndex = ops → BitsOk c.ncb k.bits → k.f.st = some v → ¬ FF m ops →
      k.f.mixed = mixedOf cfg m →
      (coreRunLoop Bd cfg .dm c ops.length k rng).err = some .notimpl := by
  intro ops
  induction ops with
  | nil => intro k rng v m _ _ _ hff _; exact absurd trivial hff
  | cons op ops ih =>
    intro k rng v m hdrop hb hq hff hmix
    obtain ⟨hget, hdrop'⟩ := getElem?_of_drop c.ops k.f.opIndex op ops hdrop
    have hvalid : op.Valid c.nq c.ncb := hc op (List.mem_of_getElem? hget)
    simp only [List.length_cons]
    unfold coreRunLoop
    cases op with
    | gate g =>
      by_cases hg : ∀ cs, g.cc = some cs → ∀ x ∈ cs, x ∉ m
      · have hff' : ¬ FF m ops := fun h => hff ⟨hg, h⟩
        have href : refuses cfg g k.f.mixed = false := by rw [hmix]; exact refuses_false_of cfg g m hg
        obtain ⟨h1, h2, h3, h4, h5⟩ := coreStep_dm_gate Bd cfg c k rng g v hget hvalid hb hq href
        generalize ho : coreStep Bd cfg .dm c k rng = o at h1 h2 h3 h4 h5
        simp only [h1, h4, Option.isNone_some, Bool.false_eq_true, ↓reduceIte]
        exact ih o.core o.rng _ m (by rw [h2]; exact hdrop') (by rw [h3]; exact hb) h4 hff' (by rw [h5, hmix])
      · have href : refuses cfg g k.f.mixed = true := by rw [hmix]; exact refuses_true_of cfg hd g m hg
        have : (coreStep Bd cfg .dm c k rng).err = some .notimpl := by
          unfold coreStep; simp only [hget, href, ↓reduceIte]
        simp only [this]
    | meas t store =>
      have hff' : ¬ FF (store.toList ++ m) ops := hff
      obtain ⟨h1, h2, h3, h4, h5⟩ := coreStep_dm_meas Bd cfg c k rng t store v hget hvalid.1 hq
      generalize ho : coreStep Bd cfg .dm c k rng = o at h1 h2 h3 h4 h5
      simp only [h1, h4, Option.isNone_some, Bool.false_eq_true, ↓reduceIte]
      exact ih o.core o.rng _ _ (by rw [h2]; exact hdrop') (by rw [h3]; exact hb) h4 hff'
        (by rw [h5, hmix, noteMixed_mixedOf])

theorem coreRun_dm_refuses (Bd : Backend V P) (cfg : Cfg) (hd : cfg.dmRefuse = true) (c : Circuit)
    (hc : c.Valid) (hff : ¬ FF [] c.ops) (bits0 : Option (List Int)) (hb : BitsOk c.ncb bits0) (v0 : V)
    (mr : Option (List Int)) (rng : List Int) :
    (coreRun Bd cfg .dm c bits0 v0 mr rng).res = .error .notimpl := by
  have := coreRunLoop_dm_refuses Bd cfg hd c hc c.ops ⟨bits0, fields0 v0 mr⟩ rng v0 []
    (by simp [fields0]) hb rfl hff (by simp [fields0, mixedOf])
  unfold coreRun
  simp only [this]

/-- **dm_eq_mixture (no gate reads an EARLIER-written bit).** For a well-formed circuit the density-matrix run of the
model from `|ψ⟩⟨ψ|` ends — without exception, with probability `1` — in `Σ_r p_r · |φ_r⟩⟨φ_r|` over all records `r`,
where `(φ_r, p_r)` is the branch of `r` (pruned branches weigh `0`); with or without fix C02-3. -/
theorem coreRun_dm_eq_mixture_ff (Bs : Backend Q P) (Bd : Backend V P) (dm : Q → V) (L : DmLink Bs Bd dm)
    (cfg : Cfg) (c : Circuit) (hc : c.Valid) (hff : FF [] c.ops)
    (bits0 : Option (List Int)) (hb : BitsOk c.ncb bits0) (q0 : Q) (mr : Option (List Int)) (rng : List Int) :
    (coreRun Bd cfg .dm c bits0 (dm q0) mr rng).res =
      .ok (some (((records c.numMeas).map (fun r =>
        (branchEntry Bs c bits0 q0 r).2.1 • dmOpt dm (branchEntry Bs c bits0 q0 r).1)).sum), 1) := by
  obtain ⟨he, hst, hprob⟩ := coreRunLoop_dm Bs Bd dm L cfg c hc c.ops ⟨bits0, fields0 (dm q0) mr⟩ rng (dm q0) []
    (by simp [fields0]) hb rfl hff (by simp [fields0, mixedOf])
  -- the final read of `.state` does nothing in density-matrix mode (`_state` is a Qobj)
  have hform : ∀ (n : Nat) (k : Core V P) (rng : List Int), k.f.form = .qobj →
      (coreRunLoop Bd cfg .dm c n k rng).core.f.form = .qobj := by
    intro n
    induction n with
    | zero => intro k rng h; exact h
    | succ n ih =>
      intro k rng h
      unfold coreRunLoop
      have hs : (coreStep Bd cfg .dm c k rng).core.f.form = .qobj := by
        rw [coreStep_dm_form]; exact h
      simp only
      split
      · exact hs
      · split
        · exact hs
        · exact ih _ _ hs
  have hq := hform c.ops.length ⟨bits0, fields0 (dm q0) mr⟩ rng rfl
  -- the sum over the records
  have hsum : dmRun L.G L.Pi (fun g => firesB g bits0) c.ops (dm q0) =
      ((records c.numMeas).map (fun r =>
        (branchEntry Bs c bits0 q0 r).2.1 • dmOpt dm (branchEntry Bs c bits0 q0 r).1)).sum := by
    rw [dmRun_eq_sum, ← numMeas_eq]
    congr 1
    apply List.map_congr_left
    intro r hr
    have hrec := records_isRecord c r hr
    have := weight_brRun_ff Bs Bd dm L bits0 c.nq c.ncb c.ops ⟨bits0, some q0, 1, r⟩ [] hff hc rfl
      (fun _ _ _ => rfl) (by rw [← numMeas_eq]; exact hrec.1)
    simp only [branchEntry, branch]
    unfold weight at this
    rw [this]
    simp only [dmOpt, one_smul]
  unfold coreRun
  generalize ho : coreRunLoop Bd cfg .dm c c.ops.length ⟨bits0, fields0 (dm q0) mr⟩ rng = o at he hst hprob hq
  have hg : getter cfg o.core.f = (o.core.f, none) := by
    unfold getter; rw [hst]; simp only [hq]
  simp only [he, hg, hst, hprob, hsum, fields0]

/-- the version with a position-insensitive hypothesis (kept: `Props/C02.dm_eq_mixture_partial`) -/
theorem coreRun_dm_eq_mixture (Bs : Backend Q P) (Bd : Backend V P) (dm : Q → V) (L : DmLink Bs Bd dm)
    (cfg : Cfg) (c : Circuit) (hc : c.Valid) (reads : Int → Prop) (hff : NoFeedForward c.ops reads)
    (bits0 : Option (List Int)) (hb : BitsOk c.ncb bits0) (q0 : Q) (mr : Option (List Int)) (rng : List Int) :
    (coreRun Bd cfg .dm c bits0 (dm q0) mr rng).res =
      .ok (some (((records c.numMeas).map (fun r =>
        (branchEntry Bs c bits0 q0 r).2.1 • dmOpt dm (branchEntry Bs c bits0 q0 r).1)).sum), 1) :=
  coreRun_dm_eq_mixture_ff Bs Bd dm L cfg c hc
    (FF_of_noFeedForward reads c.ops [] hff (fun _ h => by cases h)) bits0 hb q0 mr rng

end QipVerif.Sim
