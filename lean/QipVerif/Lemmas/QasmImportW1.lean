import QipVerif.Lemmas.QasmCustomDen
import QipVerif.Lemmas.QasmFlatWf
import QipVerif.Lemmas.QasmRenderInj
/-!
# Whole programs WITH user gate definitions (class W₁) — refinement (C04)

W₁: `OPENQASM 2.0; include "qelib1.inc";`, register declarations, then gate definitions the standard
accepts (`DefsOk`, any nesting), then operations — `U`, `CX`, calls of `qelib1.inc` gates **and of the
defined gates** (indexed or broadcast), `measure`, `barrier`, `if(c==k)` on a gate.  For such a program
that the standard accepts, the importer model returns, for every flat operation of the standard, the
library gate (`gatesOf`) or — for a call of a user gate — one `Gate` named `name(args)` on the call's
qubits whose unitary is that of the temporary circuit `_custom_gate` builds (`IOp.custom … inner`,
`inner` = `customGate` on the local qubits `0 … k−1`).

The importer caches the unitary of a user gate under the TEXT `name(arg tokens)`.  In the model the key
is `customName name ps` (rendered expressions); `KeyInj` — different calls of the program have different
keys — is what makes a cache hit return the expansion of the gate that is being called.  It holds for
every program whose user-gate names are identifiers and whose parameter expressions are well formed
(`ExprWf`: literals are numeric tokens, identifiers are identifiers): rendering is injective on such
expressions (`Lemmas/QasmRenderInj*.lean`: strict parser ∘ strict lexer ∘ render = id).
-/
namespace QipVerif.Qasm.Import
open QipVerif.Qasm

/-! ## expected operations -/

/-- the operations the importer must add for one flat operation of the standard, user gates included;
`D`: the definitions as `_initialize_pass` stores them, newest first -/
def gatesOf1 (D : List GateDef) : FlatOp → List IOp
  | .call c n ps t =>
    if predefined n then gatesOf (.call c n ps t)
    else if condUnsat c then []
    else match customGate D 64 n ps ((List.range t.length).map Sum.inl) with
      | .ok inner => [.custom (customName n ps) t (ccOf c) (cvOf c) inner]
      | .error _ => []
  | f => gatesOf f

theorem gatesOf1_of_predefined (D : List GateDef) (c : Option Cond) (n : Str) (ps : List Expr) (t : List Nat)
    (h : predefined n = true) : gatesOf1 D (.call c n ps t) = gatesOf (.call c n ps t) := by
  simp [gatesOf1, h]

/-! ## the cache of user-gate expansions -/

/-- every entry of `custom_gates` is one of the initial ones, or the expansion of a call of the program -/
def KnownInv (U : List GateDef) (C : Str → List Expr → Prop) (known : List (Str × List IGate)) : Prop :=
  ∀ e ∈ known, e ∈ initialKnown ∨
    ∃ n ps d, C n ps ∧ e.1 = customName n ps ∧ U.find? (fun x => x.name == n) = some d ∧
      customGate (U.map storeDef) 64 n ps ((List.range d.qargs.length).map Sum.inl) = .ok e.2

/-- different user-gate calls of the program are cached under different keys -/
def KeyInj (C : Str → List Expr → Prop) : Prop :=
  ∀ n ps n' ps', C n ps → C n' ps' → customName n ps = customName n' ps' → n = n' ∧ ps = ps'

theorem initial_keys : ∀ e ∈ initialKnown, predefined e.1 = true ∧ e.1.getLast? ≠ some ')' := by decide

theorem getLast?_mid {α} (a b : List α) (x y : α) : (a ++ x :: (b ++ [y])).getLast? = some y := by
  have : a ++ x :: (b ++ [y]) = (a ++ x :: b) ++ [y] := by simp
  rw [this, List.getLast?_concat]

theorem customName_getLast (n : Str) (ps : List Expr) (h : ps ≠ []) : (customName n ps).getLast? = some ')' := by
  have : ps.isEmpty = false := by cases ps <;> simp_all
  simp only [customName, this, Bool.false_eq_true, if_false]
  exact List.getLast?_concat

/-- the key of a call of a user gate is none of the initial keys -/
theorem key_not_initial (n : Str) (ps : List Expr) (hpre : predefined n = false) :
    ∀ e ∈ initialKnown, e.1 ≠ customName n ps := by
  intro e he heq
  obtain ⟨h1, h2⟩ := initial_keys e he
  by_cases hps : ps = []
  · subst hps
    simp only [customName, List.isEmpty_nil, if_true] at heq
    rw [heq, hpre] at h1
    cases h1
  · rw [heq, customName_getLast n ps hps] at h2
    exact h2 rfl

/-- a cache hit for a call of the program returns the expansion of the called gate -/
theorem known_hit {U : List GateDef} {C : Str → List Expr → Prop} (hC : KeyInj C)
    {known : List (Str × List IGate)} (hinv : KnownInv U C known) (n : Str) (ps : List Expr) (d : GateDef)
    (hcall : C n ps) (hpre : predefined n = false) (hd : U.find? (fun x => x.name == n) = some d)
    (e : Str × List IGate) (he : known.find? (fun e => e.1 == customName n ps) = some e) :
    customGate (U.map storeDef) 64 n ps ((List.range d.qargs.length).map Sum.inl) = .ok e.2 := by
  have hmem := List.mem_of_find?_eq_some he
  have hkey : e.1 = customName n ps := by simpa using List.find?_some he
  rcases hinv e hmem with hini | ⟨n', ps', d', hc', hk', hd', hg'⟩
  · exact absurd hkey (key_not_initial n ps hpre e hini)
  · obtain ⟨rfl, rfl⟩ := hC n' ps' n ps hc' hcall (hk'.symm.trans hkey)
    rw [hd] at hd'
    cases hd'
    exact hg'

/-! ## one call of a user gate -/

theorem loop2_eq (gname : Str) (cc : Option (List Nat)) (cv : Option Nat) (inner : List IGate)
    (ts : List (List Nat)) (hd : ∀ t ∈ ts, firstDup t = false) (hcv : cvBad cc cv = false) :
    gateAdd.loop2 cc cv gname inner ts = .ok (ts.map fun t => IOp.custom gname t cc cv inner) := by
  induction ts with
  | nil => rfl
  | cons t ts ih =>
    have := ih (fun u hu => hd u (by simp [hu]))
    simp [gateAdd.loop2, hd t (by simp), hcv, this]

theorem flatMap_singleton_of {α β} {l : List α} {f : α → List β} {g : α → β} (h : ∀ x ∈ l, f x = [g x]) :
    l.flatMap f = l.map g := by
  induction l with
  | nil => rfl
  | cons a as ih => simp [h a (by simp), ih (fun x hx => h x (by simp [hx]))]

/-- in the original code (`Gen.emptyRegOk = false`) every statement has at least one instance -/
theorem broadcast_ne_nil {env : Env} (hpos : ∀ r s n, env.qregs.find? r = some (s, n) → 0 < n)
    (qs : List Arg) (xs : List (Nat ⊕ List Nat)) (ts : List (List Nat))
    (h1 : resolveArgs env.qregs qs = .ok xs) (h2 : broadcast xs = .ok ts) : ts ≠ [] := by
  simp only [broadcast, bind, Except.bind, pure, Except.pure] at h2
  cases hb : broadcastSize xs with
  | error e => simp [hb] at h2
  | ok r =>
    simp only [hb] at h2
    cases r with
    | none =>
      simp only at h2
      split at h2
      · simp only [Except.ok.injEq] at h2; subst h2; simp
      · cases h2
    | some m =>
      simp only at h2
      split at h2
      · simp only [Except.ok.injEq] at h2; subst h2
        obtain ⟨hall, l0, hl0⟩ := broadcastSize_some hb
        have : 0 < m := by
          rw [← hall l0 hl0]
          exact resolveArgs_inr_pos hpos qs xs h1 l0 hl0
        intro hnil
        have := congrArg List.length hnil
        simp at this
        omega
      · cases h2

theorem user_not_qelib {U : List GateDef} {name : Str} (hpre : predefined name = false) {d : GateDef}
    (h : (U ++ qelib1.reverse).find? (fun x => x.name == name) = some d) :
    U.find? (fun x => x.name == name) = some d := by
  rw [List.find?_append] at h
  cases hf : U.find? (fun x => x.name == name) with
  | some d' => simpa [hf] using h
  | none =>
    rw [hf] at h
    simp only [Option.none_or] at h
    rw [qelib_predefined h] at hpre
    cases hpre

/-- **a call of a user gate** (any arguments, any condition the importer does not skip) -/
theorem gateAdd_user {st : Init} {env : Env} (U : List GateDef) (hU : DefsOk U) (hlen : U.length ≤ 64)
    (hr : Rel st env) (hdefs : st.defs = U.map storeDef) (hg : env.gates = U ++ qelib1.reverse)
    (C : Str → List Expr → Prop) (hC : KeyInj C) (known : List (Str × List IGate)) (hinv : KnownInv U C known)
    (cnd : Option (Str × Nat)) (name : Str) (ps : List Expr) (qs : List Arg) (fl : List FlatOp)
    (hcall : C name ps) (hpre : predefined name = false)
    (h : flattenQOp env cnd (.call name ps qs) = .ok fl) (hz : ∀ e ∈ ps, divZero e = false)
    (hcv : ∀ cond, condOf env cnd = .ok cond → condUnsat cond = false ∧ cvBad (ccOf cond) (cvOf cond) = false) :
    ∃ cond known', condOf env cnd = .ok cond ∧
      gateAdd st known name ps qs (ccOf cond) (cvOf cond) = .ok (fl.flatMap (gatesOf1 (U.map storeDef)), known') ∧
      KnownInv U C known' := by
  obtain ⟨cond, sg, xs, ts, hcond, hsig, hnp, hnq, hsup, hcl, hra, hbc, rfl⟩ := flatten_call_inv h
  -- the called gate is a user gate
  simp only [Env.sig?, hg] at hsig
  cases hfd : (U ++ qelib1.reverse).find? (fun d => d.name == name) with
  | none => simp [hfd] at hsig
  | some d =>
    simp only [hfd, Option.map_some, Option.some.injEq] at hsig
    subst hsig
    have hdU := user_not_qelib hpre hfd
    have hnp' : ps.length = d.params.length := hnp.symm
    have hnq' : qs.length = d.qargs.length := hnq.symm
    obtain ⟨hrs, hdup⟩ := regSet_of_spec hr qs xs ts hra hbc
    have hps : ArgsOk ps := ⟨hsup, hcl, hz⟩
    -- the expansion on the local qubits
    obtain ⟨inner, _, _, _, hcg, _⟩ := custom_den U hU hlen name d hdU d.qargs.length ps
      (List.range d.qargs.length) hps hnp' (by simp) List.nodup_range (by simp)
    have hfindS : st.defs.find? (fun x => x.name == name) = some (storeDef d) := by
      rw [hdefs, find_storeDef, hdU]; rfl
    -- the arity the importer checks
    have hn : (if Gen.emptyRegOk then some qs.length else ts.head?.map List.length) = some d.qargs.length := by
      cases hflag : Gen.emptyRegOk with
      | true => simp [hnq']
      | false =>
        have hne := broadcast_ne_nil (hr.pos hflag) qs xs ts hra hbc
        cases ts with
        | nil => exact absurd rfl hne
        | cons t0 ts' =>
          simp only [Bool.false_eq_true, if_false, List.head?_cons, Option.map_some, Option.some.injEq]
          rw [broadcast_length hbc t0 (by simp), resolveArgs_length qs xs hra, hnq']
    have har : checkArity (storeDef d).params.length (storeDef d).qargs.length ps (List.range d.qargs.length) = .ok () := by
      simp [checkArity, storeDef, hnp']
    have hcvb := (hcv cond hcond).2
    -- what the standard's flat operations map to
    have hflat : ∀ inner', customGate (U.map storeDef) 64 name ps ((List.range d.qargs.length).map Sum.inl) = .ok inner' →
        (ts.map (FlatOp.call cond name ps)).flatMap (gatesOf1 (U.map storeDef)) =
          ts.map (fun t => IOp.custom (customName name ps) t (ccOf cond) (cvOf cond) inner') := by
      intro inner' hi
      rw [List.flatMap_map]
      apply flatMap_singleton_of
      intro t ht
      have htl : t.length = d.qargs.length := by
        rw [broadcast_length hbc t ht, resolveArgs_length qs xs hra, hnq']
      simp [gatesOf1, hpre, (hcv cond hcond).1, htl, hi]
    cases hk : known.find? (fun e => e.1 == customName name ps) with
    | some e =>
      -- already expanded: the cached expansion is the one of this gate
      have he := known_hit hC hinv name ps d hcall hpre hdU e hk
      refine ⟨cond, known, hcond, ?_, hinv⟩
      rw [hflat e.2 he]
      simp only [gateAdd, hrs, hpre, Bool.false_eq_true, if_false, hfindS, hn, har, hk,
        loop2_eq (customName name ps) (ccOf cond) (cvOf cond) e.2 ts hdup hcvb, Except.map]
    | none =>
      refine ⟨cond, (customName name ps, inner) :: known, hcond, ?_, ?_⟩
      · rw [hflat inner hcg]
        have hcg' : customGate st.defs 64 name ps ((List.range d.qargs.length).map Sum.inl) = .ok inner := by
          rw [hdefs]; exact hcg
        simp only [gateAdd, hrs, hpre, Bool.false_eq_true, if_false, hfindS, hn, har, hk, hcg',
          loop2_eq (customName name ps) (ccOf cond) (cvOf cond) inner ts hdup hcvb, Except.map]
      · intro e he
        rcases List.mem_cons.mp he with rfl | he
        · exact Or.inr ⟨name, ps, d, hcall, rfl, hdU, hcg⟩
        · exact hinv e he

/-! ## one statement -/

theorem gatesOf1_not_call (D : List GateDef) (f : FlatOp) (h : ∀ c n ps t, f ≠ .call c n ps t) :
    gatesOf1 D f = gatesOf f := by
  cases f with
  | call c n ps t => exact absurd rfl (h c n ps t)
  | _ => rfl

theorem flatMap_gatesOf1_U (D : List GateDef) (cond : Option Cond) (a b l : Expr) (ts : List (List Nat)) :
    (ts.map fun t => FlatOp.U cond a b l (t.getD 0 0)).flatMap (gatesOf1 D) =
      (ts.map fun t => FlatOp.U cond a b l (t.getD 0 0)).flatMap gatesOf := by
  apply flatMap_congr'
  intro f hf
  obtain ⟨t, _, rfl⟩ := List.mem_map.mp hf
  rfl

theorem flatMap_gatesOf1_CX (D : List GateDef) (cond : Option Cond) (ts : List (List Nat)) :
    (ts.map fun t => FlatOp.CX cond (t.getD 0 0) (t.getD 1 0)).flatMap (gatesOf1 D) =
      (ts.map fun t => FlatOp.CX cond (t.getD 0 0) (t.getD 1 0)).flatMap gatesOf := by
  apply flatMap_congr'
  intro f hf
  obtain ⟨t, _, rfl⟩ := List.mem_map.mp hf
  rfl

/-- the user-gate calls of the program: what the cache keys are about -/
def callOfOp : QOp → Option (Str × List Expr)
  | .call n ps _ => some (n, ps)
  | _ => none

/-- **one gate operation** of a program with user definitions -/
theorem qopAdd_gate1 {st : Init} {env : Env} (U : List GateDef) (hU : DefsOk U) (hlen : U.length ≤ 64)
    (hr : Rel st env) (hdefs : st.defs = U.map storeDef) (hg : env.gates = U ++ qelib1.reverse)
    (C : Str → List Expr → Prop) (hC : KeyInj C) (known : List (Str × List IGate)) (hinv : KnownInv U C known)
    (cnd : Option (Str × Nat)) (viaIf : Bool) (op : QOp) (hop : isGateOp op = true) (fl : List FlatOp)
    (hcall : ∀ n ps, callOfOp op = some (n, ps) → predefined n = false → C n ps)
    (h : flattenQOp env cnd op = .ok fl)
    (hz : ∀ e ∈ paramsOf (.qop op), divZero e = false)
    (hcv : ∀ cond, condOf env cnd = .ok cond → condUnsat cond = false ∧ cvBad (ccOf cond) (cvOf cond) = false) :
    ∃ cond known', condOf env cnd = .ok cond ∧
      qopAdd st known (ccOf cond) (cvOf cond) viaIf op = .ok (fl.flatMap (gatesOf1 (U.map storeDef)), known') ∧
      KnownInv U C known' := by
  cases op with
  | U a b l q =>
    obtain ⟨cond, hc, hga⟩ := gateAdd_U hr known cnd a b l q fl h hz hcv
    obtain ⟨_, _, ts, _, _, _, _, _, rfl⟩ := flatten_U_inv h
    exact ⟨cond, known, hc, by rw [flatMap_gatesOf1_U]; simpa [qopAdd] using hga, hinv⟩
  | CX a b =>
    obtain ⟨cond, hc, hga⟩ := gateAdd_CX hr known cnd a b fl h hcv
    obtain ⟨_, _, ts, _, _, _, rfl⟩ := flatten_CX_inv h
    exact ⟨cond, known, hc, by rw [flatMap_gatesOf1_CX]; simpa [qopAdd] using hga, hinv⟩
  | call n ps qs =>
    by_cases hpre : predefined n = true
    · -- a `qelib1.inc` gate
      have hqel : ∀ sg, env.sig? n = some sg → ∃ d ∈ qelib1, d.name = n ∧ sg = d.sig := by
        intro sg hs
        simp only [Env.sig?, hg] at hs
        cases hfd : (U ++ qelib1.reverse).find? (fun d => d.name == n) with
        | none => simp [hfd] at hs
        | some d =>
          simp only [hfd, Option.map_some, Option.some.injEq] at hs
          rw [List.find?_append] at hfd
          cases hfu : U.find? (fun d => d.name == n) with
          | some d' =>
            -- a user gate is never predefined
            exfalso
            have hmem := List.mem_of_find?_eq_some hfu
            have hnm : d'.name = n := by simpa using List.find?_some hfu
            obtain ⟨pre, suf, hsplit⟩ := List.append_of_mem hmem
            have := (defsOk_suffix pre (d' :: suf) (hsplit ▸ hU)).2.1
            rw [hnm, hpre] at this
            cases this
          | none =>
            rw [hfu] at hfd
            simp only [Option.none_or] at hfd
            have h1 := List.mem_of_find?_eq_some hfd
            have h2 : d.name = n := by simpa using List.find?_some hfd
            exact ⟨d, by simpa using h1, h2, hs.symm⟩
      obtain ⟨cond, hc, _, hga⟩ := gateAdd_call hr known cnd n ps qs fl hqel h hz hcv
      obtain ⟨cond0, _, _, ts, _, _, _, _, _, _, _, _, rfl⟩ := flatten_call_inv h
      have hgn : isGateName st.defs n = true := by simp [isGateName, hpre]
      refine ⟨cond, known, hc, ?_, hinv⟩
      have : (ts.map (FlatOp.call cond0 n ps)).flatMap (gatesOf1 (U.map storeDef)) =
          (ts.map (FlatOp.call cond0 n ps)).flatMap gatesOf := by
        apply flatMap_congr'
        intro f hf
        obtain ⟨t, _, rfl⟩ := List.mem_map.mp hf
        exact gatesOf1_of_predefined _ _ n ps t hpre
      rw [this]
      simpa [qopAdd, hgn] using hga
    · have hpre' : predefined n = false := by simpa using hpre
      obtain ⟨cond, known', hc, hga, hinv'⟩ := gateAdd_user U hU hlen hr hdefs hg C hC known hinv cnd n ps qs fl
        (hcall n ps rfl hpre') hpre' h hz hcv
      -- the gate is declared: `command[0] in self.gate_names`
      have hgn : isGateName st.defs n = true := by
        obtain ⟨_, sg, _, _, _, hsig, _⟩ := flatten_call_inv h
        simp only [Env.sig?, hg] at hsig
        cases hfd : (U ++ qelib1.reverse).find? (fun d => d.name == n) with
        | none => simp [hfd] at hsig
        | some d =>
          have hdU := user_not_qelib hpre' hfd
          simp only [isGateName, hdefs, Bool.or_eq_true, List.any_eq_true]
          right
          refine ⟨storeDef d, List.mem_map.mpr ⟨d, List.mem_of_find?_eq_some hdU, rfl⟩, ?_⟩
          have hnm : d.name = n := by simpa using List.find?_some hdU
          show ((storeDef d).name == n) = true
          simpa [storeDef] using hnm
      exact ⟨cond, known', hc, by simpa [qopAdd, hgn] using hga, hinv'⟩
  | measure q c => simp [isGateOp] at hop
  | reset q => simp [isGateOp] at hop

/-- the call (name, actual parameters) of a statement -/
def callOf : Stmt → Option (Str × List Expr)
  | .qop op | .ifc _ _ op => callOfOp op
  | _ => none

theorem flattenStmt_op1 {st : Init} {env env' : Env} (U : List GateDef) (hU : DefsOk U) (hlen : U.length ≤ 64)
    (hr : Rel st env) (hdefs : st.defs = U.map storeDef) (hg : env.gates = U ++ qelib1.reverse)
    (C : Str → List Expr → Prop) (hC : KeyInj C) (known : List (Str × List IGate)) (hinv : KnownInv U C known)
    (s : Stmt) (hop : isOp s = true) (hnb : notBarrier s = true) (fl : List FlatOp)
    (hcall : ∀ n ps, callOf s = some (n, ps) → predefined n = false → C n ps)
    (h : flattenStmt env s = .ok (env', fl)) (hz : ∀ e ∈ paramsOf s, divZero e = false)
    (hk : ifRangeOk env s) :
    env' = env ∧ ∃ known', stepStmt st known s = .ok (fl.flatMap (gatesOf1 (U.map storeDef)), known') ∧
      KnownInv U C known' := by
  cases s with
  | qop op =>
    simp only [flattenStmt, bind, Except.bind] at h
    cases hq : flattenQOp env none op with
    | error e => simp [hq] at h
    | ok fl' =>
      simp only [hq, Except.ok.injEq, Prod.mk.injEq] at h
      obtain ⟨rfl, rfl⟩ := h
      refine ⟨rfl, ?_⟩
      by_cases hgo : isGateOp op = true
      · obtain ⟨cond, known', hc, hadd, hinv'⟩ := qopAdd_gate1 U hU hlen hr hdefs hg C hC known hinv none false op hgo
          fl' (by simpa [callOf] using hcall) hq (by cases op <;> simpa [paramsOf] using hz) cvBad_none
        simp only [condOf, Except.ok.injEq] at hc
        subst hc
        exact ⟨known', by simpa [stepStmt, ccOf, cvOf] using hadd, hinv'⟩
      · cases op with
        | measure q c =>
          have hm := measure_of_spec hr q c fl' hq
          have hfl : fl'.flatMap (gatesOf1 (U.map storeDef)) = fl'.flatMap gatesOf := by
            apply flatMap_congr'
            intro f hf
            apply gatesOf1_not_call
            intro c' n ps t hcontra
            subst hcontra
            -- a measurement statement yields measurements only
            simp only [flattenQOp, condOf, bind, Except.bind] at hq
            cases hx : resolveArg env.qregs q with
            | error e => simp [hx] at hq
            | ok x =>
              cases hy : resolveArg env.cregs c with
              | error e => simp [hx, hy] at hq
              | ok y =>
                simp only [hx, hy] at hq
                cases x <;> cases y <;> simp only at hq
                · simp only [Except.ok.injEq] at hq; subst hq; simp at hf
                · cases hq
                · cases hq
                · split at hq
                  · simp only [Except.ok.injEq] at hq; subst hq
                    obtain ⟨ij, _, hij⟩ := List.mem_map.mp hf
                    cases hij
                  · cases hq
          exact ⟨known, by simp [stepStmt, qopAdd, hm, hfl, Except.map], hinv⟩
        | reset q => simp [isOp] at hop
        | _ => simp [isGateOp] at hgo
  | ifc c k op =>
    simp only [flattenStmt, bind, Except.bind] at h
    cases hq : flattenQOp env (some (c, k)) op with
    | error e => simp [hq] at h
    | ok fl' =>
      simp only [hq, Except.ok.injEq, Prod.mk.injEq] at h
      obtain ⟨rfl, rfl⟩ := h
      refine ⟨rfl, ?_⟩
      have hgo : isGateOp op = true := by cases op <;> simp_all [isOp, isGateOp]
      obtain ⟨s0, n, hfe⟩ : ∃ s0 n, env.cregs.find? c = some (s0, n) := by
        cases hfe : env.cregs.find? c with
        | some v => exact ⟨v.1, v.2, rfl⟩
        | none =>
          exfalso
          cases op <;> simp_all [flattenQOp, condOf, bind, Except.bind, isGateOp]
      have hf : regFind st.cregs c = some (s0, n) := by rw [hr.c c, hfe]
      have hzz : ∀ e ∈ paramsOf (.qop op), divZero e = false := by
        cases op <;> simpa [paramsOf] using hz
      have hcall' : ∀ n ps, callOfOp op = some (n, ps) → predefined n = false → C n ps := by
        simpa [callOf] using hcall
      by_cases hs : condSkipped n k = true
      · obtain ⟨⟨fl0, h0⟩, hnil⟩ := flattenQOp_skipped op hgo fl' hq
        obtain ⟨cond0, known', hc0, hadd, hinv'⟩ := qopAdd_gate1 U hU hlen hr hdefs hg C hC known hinv none true op hgo
          fl0 hcall' h0 hzz cvBad_none
        simp only [condOf, Except.ok.injEq] at hc0
        subst hc0
        have hemp : fl'.flatMap (gatesOf1 (U.map storeDef)) = [] := by
          have hun : condUnsat (some ⟨(List.range n).map (s0 + ·), k⟩) = true := by simpa [condUnsat] using hs
          have hcond : condOf env (some (c, k)) = .ok (some ⟨(List.range n).map (s0 + ·), k⟩) := by
            simp [condOf, hfe]
          -- every flat operation carries the skipped condition
          cases op with
          | U a b l q =>
            obtain ⟨cond, _, ts, hcd, _, _, _, _, rfl⟩ := flatten_U_inv hq
            rw [hcond] at hcd; cases hcd
            rw [flatMap_gatesOf1_U]
            exact hnil _ hcond hun
          | CX a b =>
            obtain ⟨cond, _, ts, hcd, _, _, rfl⟩ := flatten_CX_inv hq
            rw [hcond] at hcd; cases hcd
            rw [flatMap_gatesOf1_CX]
            exact hnil _ hcond hun
          | call nm ps qs =>
            obtain ⟨cond, _, _, ts, hcd, _, _, _, _, _, _, _, rfl⟩ := flatten_call_inv hq
            rw [hcond] at hcd; cases hcd
            apply flatMap_nil_of
            intro f hf'
            obtain ⟨t, _, rfl⟩ := List.mem_map.mp hf'
            by_cases hp : predefined nm = true
            · rw [gatesOf1_of_predefined _ _ _ _ _ hp]
              simp [gatesOf, hun]
            · simp [gatesOf1, hp, hun]
          | measure q cb => simp [isGateOp] at hgo
          | reset q => simp [isGateOp] at hgo
        simp only [ccOf, cvOf, Option.map_none] at hadd
        exact ⟨known', by simp [stepStmt, hf, hs, hadd, hemp, Except.map], hinv'⟩
      · have hs' : condSkipped n k = false := by simpa using hs
        have hlt := cond_fits hfe hk hs'
        obtain ⟨cond, known', hc, hadd, hinv'⟩ := qopAdd_gate1 U hU hlen hr hdefs hg C hC known hinv (some (c, k)) true
          op hgo fl' hcall' hq hzz (cvBad_some hfe hlt hs')
        simp only [condOf, hfe, Except.ok.injEq] at hc
        subst hc
        exact ⟨known', by simpa [stepStmt, hf, hs', ccOf, cvOf] using hadd, hinv'⟩
  | barrier qs => simp [notBarrier] at hnb
  | _ => simp [isOp] at hop

/-! ## the operations of a program -/

theorem flattenStmt_op_env {env env' : Env} (s : Stmt) (hop : isOp s = true) (fl : List FlatOp)
    (h : flattenStmt env s = .ok (env', fl)) : env' = env :=
  flattenFrom_ops_env [s] env env' fl (by simp [hop]) (by simp [flattenFrom, bind, Except.bind, h])

theorem finalPass_ops1 {st : Init} {env : Env} (U : List GateDef) (hU : DefsOk U) (hlen : U.length ≤ 64)
    (hr : Rel st env) (hdefs : st.defs = U.map storeDef) (hg : env.gates = U ++ qelib1.reverse)
    (C : Str → List Expr → Prop) (hC : KeyInj C) :
    ∀ (ops : List Stmt) (known : List (Str × List IGate)) (env' : Env) (fl : List FlatOp), KnownInv U C known →
      ops.all isOp = true → (∀ s ∈ ops, ∀ n ps, callOf s = some (n, ps) → predefined n = false → C n ps) →
      (∀ s ∈ ops, ∀ e ∈ paramsOf s, divZero e = false) → (∀ s ∈ ops, ifRangeOk env s) →
      flattenFrom env ops = .ok (env', fl) →
      env' = env ∧ finalPass st (ops.filter keepStmt) known = .ok (fl.flatMap (gatesOf1 (U.map storeDef))) := by
  intro ops
  induction ops with
  | nil =>
    intro known env' fl _ _ _ _ _ h
    simp only [flattenFrom, Except.ok.injEq, Prod.mk.injEq] at h
    obtain ⟨rfl, rfl⟩ := h
    exact ⟨rfl, rfl⟩
  | cons s ss ih =>
    intro known env' fl hinv hall hcalls hz hkk h
    simp only [List.all_cons, Bool.and_eq_true] at hall
    obtain ⟨e1, o1, o2, h1, h2, rfl⟩ := flattenFrom_cons_inv h
    by_cases hb : notBarrier s = true
    · obtain ⟨he, known', hstep, hinv'⟩ := flattenStmt_op1 U hU hlen hr hdefs hg C hC known hinv s hall.1 hb o1
        (hcalls s (by simp)) h1 (hz s (by simp)) (hkk s (by simp))
      subst he
      obtain ⟨he2, hfin⟩ := ih known' env' o2 hinv' hall.2 (fun t ht => hcalls t (by simp [ht]))
        (fun t ht => hz t (by simp [ht])) (fun t ht => hkk t (by simp [ht])) h2
      refine ⟨he2, ?_⟩
      have hkeep : keepStmt s = true := by cases s <;> simp_all [keepStmt, notBarrier]
      simp only [List.filter_cons, hkeep, if_true]
      rw [finalPass_cons, hstep]
      simp [hfin]
    · cases s with
      | barrier qs =>
        simp only [flattenStmt, bind, Except.bind] at h1
        cases hra : resolveArgs env.qregs qs with
        | error e => simp [hra] at h1
        | ok xs =>
          simp only [hra, Except.ok.injEq, Prod.mk.injEq] at h1
          obtain ⟨rfl, rfl⟩ := h1
          obtain ⟨he2, hfin⟩ := ih known env' o2 hinv hall.2 (fun t ht => hcalls t (by simp [ht]))
            (fun t ht => hz t (by simp [ht])) (fun t ht => hkk t (by simp [ht])) h2
          refine ⟨he2, ?_⟩
          cases hflag : Gen.barrierChecked with
          | false => simp [List.filter_cons, keepStmt, hflag, hfin, gatesOf1, gatesOf]
          | true =>
            obtain ⟨ex', hres⟩ := resolveQs_nochk hr qs xs hra none
            simp only [List.filter_cons, keepStmt, hflag, if_true]
            rw [finalPass_cons]
            simp [stepStmt, hflag, barrierCheck, hres, Except.map, hfin, gatesOf1, gatesOf]
      | _ => simp [notBarrier] at hb

/-! ## the gate definitions: both passes -/

theorem strDup_of_nodup (l : List Str) (h : l.Nodup) : strDup l = false := by
  induction l with
  | nil => rfl
  | cons x xs ih =>
    have := List.nodup_cons.mp h
    simp [strDup, this.1, ih this.2]

theorem foreignId_of_closed (params : List Str) (e : Expr) (hs : e.supported = true)
    (h : e.closedIn params = true) : foreignId params e = false := by
  induction e with
  | id s => simpa [foreignId, Expr.closedIn] using h
  | pow a b => simp [Expr.supported] at hs
  | fn f e => simp [Expr.supported] at hs
  | neg e ih =>
    simpa [foreignId] using ih (by simpa [Expr.supported] using hs) (by simpa [Expr.closedIn] using h)
  | add a b iha ihb | sub a b iha ihb | mul a b iha ihb | div a b iha ihb =>
    simp only [Expr.supported, Bool.and_eq_true] at hs
    simp only [Expr.closedIn, Bool.and_eq_true] at h
    simp [foreignId, iha hs.1 h.1, ihb hs.2 h.2]
  | _ => rfl

/-- every name of the importer's arity table is a built-in name -/
theorem sig_predefined : ∀ n sg, sigOf n = some sg → predefined n = true := by
  intro n sg h
  unfold sigOf at h
  cases hg : Gen.gateSignatures with
  | none => simp [hg] at h
  | some t =>
    simp only [hg, Option.map_eq_some_iff] at h
    obtain ⟨e, he, _⟩ := h
    have hmem := List.mem_of_find?_eq_some he
    have hn : e.1 = n := by simpa using List.find?_some he
    have hall : ∀ t', Gen.gateSignatures = some t' → ∀ e ∈ t', predefined e.1 = true := by decide
    rw [← hn]
    exact hall t hg e hmem

/-- the parameter part of `_check_body_call` accepts supported expressions over the formal parameters -/
theorem findSome_params_none (params : List Str) (ps : List Expr) (hsup : ps.all Expr.supported = true)
    (hcl : ps.all (Expr.closedIn params) = true) :
    (ps.findSome? fun e => if hasPow e then some Err.notImpl else if foreignId params e then some Err.name else none) =
      none := by
  rw [List.findSome?_eq_none_iff]
  intro e he
  have h1 := hasPow_of_supported e (List.all_eq_true.mp hsup e he)
  have h2 := foreignId_of_closed params e (List.all_eq_true.mp hsup e he) (List.all_eq_true.mp hcl e he)
  simp [h1, h2]

/-- `_check_body_call` accepts a statement the standard accepts -/
theorem bodyCheck_ok (rest : List GateDef) (hrest : DefsOk rest) (params qargs : List Str) (n : Str)
    (ps : List Expr) (qs : List Str) (d : GateDef)
    (hfind : (rest ++ qelib1.reverse).find? (fun x => x.name == n) = some d)
    (hpl : ps.length = d.params.length) (hql : qs.length = d.qargs.length)
    (hsup : ps.all Expr.supported = true) (hcl : ps.all (Expr.closedIn params) = true)
    (hsub : ∀ x ∈ qs, x ∈ qargs) (hnd : qs.Nodup) :
    bodyCheck (rest.map storeDef) params qargs n ps qs = none := by
  have h1 : qs.all qargs.contains = true := by
    rw [List.all_eq_true]; intro x hx; simpa using hsub x hx
  have hexp : expectedSig (rest.map storeDef) n = some (d.params.length, d.qargs.length) := by
    unfold expectedSig
    rw [List.find?_append] at hfind
    cases hfr : rest.find? (fun x => x.name == n) with
    | some d' =>
      rw [hfr] at hfind
      simp only [Option.some_or, Option.some.injEq] at hfind
      subst hfind
      have hmem := List.mem_of_find?_eq_some hfr
      have hnm : d'.name = n := by simpa using List.find?_some hfr
      obtain ⟨pre, suf, hsplit⟩ := List.append_of_mem hmem
      have hp : predefined n = false := by
        rw [← hnm]; exact (defsOk_suffix pre (d' :: suf) (hsplit ▸ hrest)).2.1
      have hs : sigOf n = none := by
        cases hsg : sigOf n with
        | none => rfl
        | some sg => rw [sig_predefined n sg hsg] at hp; cases hp
      rw [hs, find_storeDef, hfr]
      simp [hp, storeDef]
    | none =>
      rw [hfr] at hfind
      simp only [Option.none_or] at hfind
      have hmem : d ∈ qelib1 := by simpa using List.mem_of_find?_eq_some hfind
      have hnm : d.name = n := by simpa using List.find?_some hfind
      have hk := List.all_eq_true.mp qelib_ok d hmem
      simp only [qelibEntryOk, Bool.and_eq_true, beq_iff_eq] at hk
      rw [← hnm, hk.1.1.1.2]
  simp only [bodyCheck, h1, Bool.not_true, Bool.false_eq_true, if_false, strDup_of_nodup qs hnd, hexp, hpl, hql,
    and_self, not_true_eq_false, findSome_params_none params ps hsup hcl]

theorem bodyCheck_builtin_U (defs : List GateDef) (params qargs : List Str) (a b l : Expr) (x : Str)
    (hsup : [a, b, l].all Expr.supported = true) (hcl : [a, b, l].all (Expr.closedIn params) = true)
    (hx : x ∈ qargs) : bodyCheck defs params qargs cs!"U" [a, b, l] [x] = none := by
  have h1 : [x].all qargs.contains = true := by simpa using hx
  simp only [bodyCheck, h1, Bool.not_true, Bool.false_eq_true, if_false, strDup, List.contains_nil, Bool.or_self,
    expectedSig, builtin_ok.2.2.1, List.length_cons, List.length_nil, and_self, not_true_eq_false,
    findSome_params_none params [a, b, l] hsup hcl]

theorem bodyCheck_builtin_CX (defs : List GateDef) (params qargs : List Str) (a b : Str)
    (ha : a ∈ qargs) (hb : b ∈ qargs) (hab : a ≠ b) : bodyCheck defs params qargs cs!"CX" [] [a, b] = none := by
  have h1 : [a, b].all qargs.contains = true := by simp [ha, hb]
  have h2 : strDup [a, b] = false := strDup_of_nodup _ (by simpa using hab)
  simp only [bodyCheck, h1, Bool.not_true, Bool.false_eq_true, if_false, h2, expectedSig, builtin_ok.2.2.2,
    List.length_cons, List.length_nil, and_self, not_true_eq_false, List.findSome?_nil]

/-- what `_initialize_pass` keeps of a body the standard accepts: everything but the barriers -/
theorem bodyPass_ok (rest : List GateDef) (hrest : DefsOk rest) (params qargs : List Str) : ∀ body : List GOp,
    gopsOk (rest ++ qelib1.reverse) params qargs body = .ok () →
    bodyPass (rest.map storeDef) params qargs body = .ok (body.filter noBarrier) := by
  intro body
  induction body with
  | nil => intro _; rfl
  | cons g gs ih =>
    intro h
    have hg := gopsOk_mem h g (by simp)
    have hgs : gopsOk (rest ++ qelib1.reverse) params qargs gs = .ok () := by
      simp only [gopsOk, bind, Except.bind, hg] at h
      exact h
    have := ih hgs
    cases g with
    | U a b l x =>
      obtain ⟨hsup, hcl, hx⟩ := gopOk_U hg
      have hc := bodyCheck_builtin_U (rest.map storeDef) params qargs a b l x hsup hcl hx
      cases hflag : Gen.bodyChecked <;>
        simp [bodyPass, this, noBarrier, Except.map, List.filter_cons, hflag, hc]
    | CX a b =>
      obtain ⟨ha, hb, hab⟩ := gopOk_CX hg
      have hc := bodyCheck_builtin_CX (rest.map storeDef) params qargs a b ha hb hab
      cases hflag : Gen.bodyChecked <;>
        simp [bodyPass, this, noBarrier, Except.map, List.filter_cons, hflag, hc]
    | barrier qs =>
      have hq : qs.all qargs.contains = true := by
        simp only [gopOk] at hg
        split at hg
        · assumption
        · cases hg
      simp [bodyPass, this, noBarrier, hq, List.filter_cons]
    | call n ps qs =>
      obtain ⟨d, hfind, hpl, hql, hsup, hcl, hsub, hnd⟩ := gopOk_call hg
      have hc := bodyCheck_ok rest hrest params qargs n ps qs d hfind hpl hql hsup hcl hsub hnd
      have hgn : isGateName (rest.map storeDef) n = true := by
        rw [List.find?_append] at hfind
        cases hfr : rest.find? (fun x => x.name == n) with
        | some d' =>
          simp only [isGateName, Bool.or_eq_true, List.any_eq_true]
          right
          refine ⟨storeDef d', List.mem_map.mpr ⟨d', List.mem_of_find?_eq_some hfr, rfl⟩, ?_⟩
          have hnm : d'.name = n := by simpa using List.find?_some hfr
          show ((storeDef d').name == n) = true
          simpa [storeDef] using hnm
        | none =>
          rw [hfr] at hfind
          simp only [Option.none_or] at hfind
          simp [isGateName, qelib_predefined hfind]
      cases hflag : Gen.bodyChecked <;>
        simp [bodyPass, hgn, this, noBarrier, Except.map, List.filter_cons, hflag, hc]

/-- the definitions in program order: both passes record them, newest first -/
theorem gdefs_passes : ∀ (gdefs : List GateDef) (U0 : List GateDef) (st : Init) (env env' : Env)
    (tail : List Stmt) (fl : List FlatOp),
    DefsOk (gdefs.reverse ++ U0) → st.defs = U0.map storeDef → env.gates = U0 ++ qelib1.reverse →
    (Gen.emptyBodyOk = true ∨ ∀ d ∈ gdefs, d.body.filter noBarrier ≠ []) →
    flattenFrom env (gdefs.map Stmt.gate ++ tail) = .ok (env', fl) →
    initPass (gdefs.map Stmt.gate ++ tail) st =
        initPass tail { st with defs := (gdefs.reverse ++ U0).map storeDef } ∧
      flattenFrom { env with gates := gdefs.reverse ++ U0 ++ qelib1.reverse } tail = .ok (env', fl) := by
  intro gdefs
  induction gdefs with
  | nil =>
    intro U0 st env env' tail fl _ hd hg _ h
    refine ⟨?_, ?_⟩
    · simp only [List.map_nil, List.nil_append, List.reverse_nil]
      rw [← hd]
    · simp only [List.reverse_nil, List.nil_append, List.map_nil] at h ⊢
      rw [← hg]
      exact h
  | cons d ds ih =>
    intro U0 st env env' tail fl hok hd hg hbody h
    have hok' : DefsOk (ds.reverse ++ (d :: U0)) := by
      simpa [List.reverse_cons, List.append_assoc] using hok
    have hdOk : DefsOk (d :: U0) := defsOk_suffix ds.reverse (d :: U0) hok'
    obtain ⟨hfresh, _, _, _, hgops, _, hU0⟩ := hdOk
    obtain ⟨e1, o1, o2, h1, h2, rfl⟩ := flattenFrom_cons_inv (by simpa using h)
    -- the standard records the definition
    have he1 : e1 = { env with gates := d :: env.gates } ∧ o1 = [] := by
      simp only [flattenStmt, bind, Except.bind] at h1
      split at h1
      · cases h1
      · split at h1
        · cases h1
        · cases hgo : gopsOk env.gates d.params d.qargs d.body with
          | error e => simp [hgo] at h1
          | ok u =>
            simp only [hgo, Except.ok.injEq, Prod.mk.injEq] at h1
            exact ⟨h1.1.symm, h1.2.symm⟩
    obtain ⟨rfl, rfl⟩ := he1
    -- the importer stores it without the barriers
    have hbp := bodyPass_ok U0 hU0 d.params d.qargs d.body hgops
    have hne : ((d.body.filter noBarrier).isEmpty && !Gen.emptyBodyOk) = false := by
      rcases hbody with hb | hb
      · simp [hb]
      · have := hb d (by simp)
        cases hf : d.body.filter noBarrier with
        | nil => exact absurd hf this
        | cons x xs => simp
    -- the name is new: no earlier definition of the program carries it
    have hnd : gateDeclared st d.name = false := by
      have hnone : U0.find? (fun x => x.name == d.name) = none := by
        rw [List.find?_append] at hfresh
        cases hf : U0.find? (fun x => x.name == d.name) with
        | none => rfl
        | some x => simp [hf] at hfresh
      have hany : (U0.map storeDef).any (fun x => x.name == d.name) = false := by
        rw [List.any_eq_false]
        intro x hx
        obtain ⟨y, hy, rfl⟩ := List.mem_map.mp hx
        have := List.find?_eq_none.mp hnone y hy
        simpa [storeDef] using this
      simp [gateDeclared, hd, hany]
    have hstep : initPass (Stmt.gate d :: (ds.map Stmt.gate ++ tail)) st =
        initPass (ds.map Stmt.gate ++ tail) { st with defs := storeDef d :: st.defs } := by
      simp only [initPass, hnd, Bool.and_false, hd, hbp, hne, Bool.false_eq_true, if_false]
      rfl
    obtain ⟨hi, hf⟩ := ih (d :: U0) { st with defs := storeDef d :: st.defs } { env with gates := d :: env.gates }
      env' tail o2 hok' (by simp [hd]) (by simp [hg]) (by
        rcases hbody with hb | hb
        · exact Or.inl hb
        · exact Or.inr (fun x hx => hb x (by simp [hx]))) h2
    refine ⟨?_, ?_⟩
    · simp only [List.map_cons, List.cons_append]
      rw [hstep, hi]
      simp [List.reverse_cons, List.append_assoc]
    · simpa [List.reverse_cons, List.append_assoc] using hf

/-- gate definitions the standard accepts are `DefsOk` — given that no definition reuses a built-in name and
that no divisor is a literal zero or a bare formal parameter -/
theorem defsOk_of_flatten : ∀ (gdefs U0 : List GateDef) (env env' : Env) (tail : List Stmt) (fl : List FlatOp),
    env.gates = U0 ++ qelib1.reverse → DefsOk U0 →
    (∀ d ∈ gdefs, predefined d.name = false ∧ d.body.all gopDivOk = true) →
    flattenFrom env (gdefs.map Stmt.gate ++ tail) = .ok (env', fl) → DefsOk (gdefs.reverse ++ U0) := by
  intro gdefs
  induction gdefs with
  | nil => intro U0 _ _ _ _ _ h _ _; simpa using h
  | cons d ds ih =>
    intro U0 env env' tail fl hg hU hside h
    obtain ⟨e1, o1, o2, h1, h2, rfl⟩ := flattenFrom_cons_inv (by simpa using h)
    simp only [flattenStmt, bind, Except.bind] at h1
    split at h1
    · cases h1
    · rename_i hnew
      split at h1
      · cases h1
      · rename_i hnd
        cases hgo : gopsOk env.gates d.params d.qargs d.body with
        | error e => simp [hgo] at h1
        | ok u =>
          simp only [hgo, Except.ok.injEq, Prod.mk.injEq] at h1
          obtain ⟨rfl, _⟩ := h1
          have hdOk : DefsOk (d :: U0) := by
            refine ⟨?_, (hside d (by simp)).1, ?_, ?_, by rw [← hg]; exact hgo, (hside d (by simp)).2, hU⟩
            · simp only [Env.sig?, hg] at hnew
              cases hf : (U0 ++ qelib1.reverse).find? (fun x => x.name == d.name) with
              | none => rfl
              | some x => simp [hf] at hnew
            · have : decide d.params.Nodup && decide d.qargs.Nodup = true := by simpa using hnd
              simp only [Bool.and_eq_true, decide_eq_true_eq] at this
              exact this.1
            · have : decide d.params.Nodup && decide d.qargs.Nodup = true := by simpa using hnd
              simp only [Bool.and_eq_true, decide_eq_true_eq] at this
              exact this.2
          have := ih (d :: U0) { env with gates := d :: env.gates } env' tail o2 (by simp [hg]) hdOk
            (fun x hx => hside x (by simp [hx])) h2
          simpa [List.reverse_cons, List.append_assoc] using this

/-! ## whole programs -/

/-- **the class W₁**: header, `include "qelib1.inc"`, declarations, gate definitions, operations -/
structure W1 (p : Program) (decls : List Stmt) (gdefs : List GateDef) (ops : List Stmt) : Prop where
  shape : p = .version :: .incl cs!"qelib1.inc" :: (decls ++ (gdefs.map Stmt.gate ++ ops))
  allDecls : decls.all isDecl = true
  allOps : ops.all isOp = true
  /-- the definitions, newest first, are accepted by the standard after `qelib1.inc` -/
  defs : DefsOk gdefs.reverse
  few : gdefs.length ≤ 64
  /-- original code: a body without any gate statement is refused (`Gen.emptyBodyOk = false`) -/
  bodies : Gen.emptyBodyOk = true ∨ ∀ d ∈ gdefs, d.body.filter noBarrier ≠ []
  noZeroDiv : ∀ s ∈ ops, ∀ e ∈ paramsOf s, divZero e = false
  /-- calls of user gates: the name is an identifier, the parameter expressions are well formed (literals
  are numeric tokens of the standard, identifiers are identifiers, functions are the standard's) — then
  different calls have different cache keys `name(args)` -/
  wf : ∀ s ∈ ops, ∀ n ps, callOf s = some (n, ps) → predefined n = false →
    isIdent n = true ∧ ∀ e ∈ ps, ExprWf e = true

theorem knownInv_initial (U : List GateDef) (C : Str → List Expr → Prop) : KnownInv U C initialKnown :=
  fun _ he => Or.inl he

/-- **refinement for programs with user gate definitions** -/
theorem import_refines_w1 (p : Program) (decls : List Stmt) (gdefs : List GateDef) (ops : List Stmt)
    (hw : W1 p decls gdefs ops) (env : Env) (fl : List FlatOp) (h : flatten p = .ok (env, fl))
    (hk : ∀ s ∈ ops, ifRangeOk env s) :
    importProgram p = .ok (env.qregs.total, env.cregs.total,
      fl.flatMap (gatesOf1 (gdefs.reverse.map storeDef))) ∧ env.gates = gdefs.reverse ++ qelib1.reverse := by
  obtain ⟨rfl, hd, ho, hdefs, hfew, hbodies, hz, hwf⟩ := hw
  have hkeys : KeyInj (fun n ps => ∃ s ∈ ops, callOf s = some (n, ps) ∧ predefined n = false) := by
    rintro n ps n' ps' ⟨s, hs, hc, hp⟩ ⟨s', hs', hc', hp'⟩ hk
    obtain ⟨hn, he⟩ := hwf s hs n ps hc hp
    obtain ⟨hn', he'⟩ := hwf s' hs' n' ps' hc' hp'
    exact customName_inj n n' ps ps' (isIdent_no_paren hn) (isIdent_no_paren hn') he he' hk
  obtain ⟨e0, o0, o1, h0, h1, rfl⟩ := flattenFrom_cons_inv (by simpa [flatten] using h)
  simp only [flattenStmt, Except.ok.injEq, Prod.mk.injEq] at h0
  obtain ⟨rfl, rfl⟩ := h0
  obtain ⟨e1, o2, o3, h2, h3, rfl⟩ := flattenFrom_cons_inv h1
  have hinc : flattenStmt ({} : Env) (.incl cs!"qelib1.inc") =
      .ok ({ ({} : Env) with gates := qelib1.reverse }, []) := rfl
  rw [hinc] at h2
  simp only [Except.ok.injEq, Prod.mk.injEq] at h2
  obtain ⟨rfl, rfl⟩ := h2
  obtain ⟨e2, o4, o5, h4, h5, rfl⟩ := flattenFrom_append_inv h3
  have hr0 : Rel ({} : Init) { ({} : Env) with gates := qelib1.reverse } :=
    ⟨fun _ => rfl, fun _ => rfl, rfl, rfl, fun _ r s n hh => by simp [Regs.find?] at hh⟩
  obtain ⟨st', hi, hrel, hfl, hrest, hsd, hgates⟩ := decls_rel decls {} _ e2 o4 hd hr0 h4
  subst hfl
  -- the definitions
  obtain ⟨hig, hfg⟩ := gdefs_passes gdefs [] st' e2 env ops o5 (by simpa using hdefs) (by simp [hsd])
    (by simp [hgates]) hbodies h5
  simp only [List.append_nil] at hig hfg
  -- the operations
  have hrel2 : Rel { st' with defs := gdefs.reverse.map storeDef, rest := ops.filter keepStmt }
      { e2 with gates := gdefs.reverse ++ qelib1.reverse } :=
    ⟨hrel.q, hrel.c, hrel.nq, hrel.nc, hrel.pos⟩
  have hee : env = { e2 with gates := gdefs.reverse ++ qelib1.reverse } := flattenFrom_ops_env ops _ env o5 ho hfg
  subst hee
  have hinit : initPass (.incl cs!"qelib1.inc" :: (decls ++ (gdefs.map Stmt.gate ++ ops))) {} =
      .ok { st' with defs := gdefs.reverse.map storeDef, rest := ops.filter keepStmt } := by
    have : st'.rest = [] := hrest
    simp only [initPass]
    rw [hi (gdefs.map Stmt.gate ++ ops), hig, initPass_ops ops _ ho]
    simp [this]
  obtain ⟨_, hfin⟩ := finalPass_ops1 gdefs.reverse hdefs (by simpa using hfew) hrel2 rfl rfl
    (fun n ps => ∃ s ∈ ops, callOf s = some (n, ps) ∧ predefined n = false) hkeys ops initialKnown _ o5
    (knownInv_initial _ _) ho (fun s hs n ps hc hp => ⟨s, hs, hc, hp⟩) hz hk hfg
  refine ⟨?_, rfl⟩
  simp only [importProgram, hinit]
  rw [hfin]
  simp [hrel.nq, hrel.nc]

end QipVerif.Qasm.Import
