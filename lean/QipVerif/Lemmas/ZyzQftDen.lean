import QipVerif.Lemmas.EmbedPerm
import QipVerif.Lemmas.ZyzQftSem

/-!
# C17 — denotation of the QFT model's gate lists on an N-qubit register (over ℂ)

`gateDen N g` is the operator on `St N = Fin N → Fin 2` (qubit 0 first = most significant, as the
package) of a gate of `Model/Qft.lean`: the one- and two-qubit matrices of `ZyzGates.lean` /
`ZyzCphase.lean` placed with `Tg.embed` (C08's specification); `circDenN` multiplies a gate list in
circuit order.  Matrix-element forms of the placed Hadamard, controlled phase and SWAP.
-/
namespace QipVerif.QftDen
open Matrix Complex
open QipVerif QipVerif.Zyz

variable {N : ℕ}

/-- `e^{2πi·t}` -/
noncomputable def ph (t : ℝ) : ℂ := cexp (2 * Real.pi * I * t)

theorem ph_zero : ph 0 = 1 := by simp [ph]
theorem ph_add (a b : ℝ) : ph (a + b) = ph a * ph b := by
  unfold ph; rw [← Complex.exp_add]; congr 1; push_cast; ring
theorem ph_nat (n : ℕ) : ph n = 1 := by
  unfold ph
  have := Complex.exp_nat_mul_two_pi_mul_I n
  rw [← this]; congr 1; push_cast; ring
theorem ph_add_nat (a : ℝ) (n : ℕ) : ph (a + n) = ph a := by rw [ph_add, ph_nat, mul_one]
theorem ph_half : ph (1 / 2) = -1 := by
  unfold ph
  rw [← Complex.exp_pi_mul_I]; congr 1; push_cast; ring
theorem ph_inv_two : ph 2⁻¹ = -1 := by rw [← one_div]; exact ph_half

/-- a 2×2 matrix as an operator on one qubit -/
def of2 (A : M2) : Matrix (St 1) (St 1) ℂ := fun x y => A (x 0) (y 0)
/-- a matrix over (control, target) bits as an operator on two qubits (qubit 0 = control) -/
def of4 (A : M4) : Matrix (St 2) (St 2) ℂ := fun x y => A (x 0, x 1) (y 0, y 1)

theorem of4_mul (A B : M4) : of4 (A * B) = of4 A * of4 B := by
  ext x y
  simp only [of4, Matrix.mul_apply]
  exact (Fintype.sum_equiv (piFinTwoEquiv (fun _ => Fin 2)) _ _ (fun z => rfl)).symm

theorem of4_smul (c : ℂ) (A : M4) : of4 (c • A) = c • of4 A := by
  ext x y; simp [of4]

theorem of4_one : of4 (1 : M4) = 1 := by
  ext x y
  simp only [of4, Matrix.one_apply, Prod.mk.injEq]
  have : (x 0 = y 0 ∧ x 1 = y 1) ↔ x = y := by
    constructor
    · rintro ⟨h0, h1⟩; funext i; fin_cases i <;> assumption
    · rintro rfl; exact ⟨rfl, rfl⟩
  simp [this]

/-- placement of a one-qubit operator on qubit `i` -/
def single (i : Fin N) : Tg 1 N := ⟨fun _ => i, fun a b _ => Subsingleton.elim a b⟩

theorem mem_range_single (i l : Fin N) : l ∈ Set.range (single i).f ↔ l = i := by
  constructor
  · rintro ⟨p, rfl⟩; rfl
  · rintro rfl; exact ⟨0, rfl⟩

/-- Hadamard -/
noncomputable def Hm : M2 := ((Real.sqrt 2 : ℝ) : ℂ)⁻¹ • !![1, 1; 1, -1]

noncomputable def Hq (i : Fin N) : Matrix (St N) (St N) ℂ := (single i).embed (of2 Hm)
noncomputable def RZq (i : Fin N) (θ : ℝ) : Matrix (St N) (St N) ℂ := (single i).embed (of2 (Rz θ))
noncomputable def CPq (c t : Fin N) (h : c ≠ t) (θ : ℝ) : Matrix (St N) (St N) ℂ :=
  (Tg.pair c t h).embed (of4 (cphaseMat θ))
noncomputable def CXq (c t : Fin N) (h : c ≠ t) : Matrix (St N) (St N) ℂ :=
  (Tg.pair c t h).embed (of4 cnotMat)
noncomputable def SWq (a b : Fin N) (h : a ≠ b) : Matrix (St N) (St N) ℂ := (Tg.pair a b h).embed SWAP2

/-- operator of a model gate on `N` qubits; `none`: malformed (index ≥ N, control = target, wrong shape) -/
noncomputable def gateDen (N : ℕ) (g : Qft.Gate) : Option (Matrix (St N) (St N) ℂ) :=
  match g.kind, g.targets, g.controls, g.ang with
  | .SNOT, [q], [], none => if h : q < N then some (Hq ⟨q, h⟩) else none
  | .RZ, [q], [], some a => if h : q < N then some (RZq ⟨q, h⟩ (angVal a)) else none
  | .CPHASE, [t], [c], some a =>
    if h : c < N ∧ t < N ∧ c ≠ t then
      some (CPq ⟨c, h.1⟩ ⟨t, h.2.1⟩ (fun e => h.2.2 (Fin.mk.inj e)) (angVal a)) else none
  | .CNOT, [t], [c], none =>
    if h : c < N ∧ t < N ∧ c ≠ t then
      some (CXq ⟨c, h.1⟩ ⟨t, h.2.1⟩ (fun e => h.2.2 (Fin.mk.inj e))) else none
  | .SWAP, [a, b], [], none =>
    if h : a < N ∧ b < N ∧ a ≠ b then
      some (SWq ⟨a, h.1⟩ ⟨b, h.2.1⟩ (fun e => h.2.2 (Fin.mk.inj e))) else none
  | .GLOBALPHASE, _, [], some a => some (cexp (I * (angVal a : ℂ)) • (1 : Matrix (St N) (St N) ℂ))
  | _, _, _, _ => none

/-- operator of a gate list applied in list order (first gate = right-most factor) -/
noncomputable def circDenN (N : ℕ) : List Qft.Gate → Option (Matrix (St N) (St N) ℂ)
  | [] => some 1
  | g :: gs => (gateDen N g).bind fun A => (circDenN N gs).map fun B => B * A

theorem circDenN_append (a b : List Qft.Gate) :
    circDenN N (a ++ b) = (circDenN N a).bind fun A => (circDenN N b).map fun B => B * A := by
  induction a with
  | nil => simp [circDenN]
  | cons g gs ih =>
    simp only [List.cons_append, circDenN, ih]
    cases gateDen N g <;> cases circDenN N gs <;> cases circDenN N b <;> simp [Matrix.mul_assoc]

theorem circDenN_append_some {a b : List Qft.Gate} {A B : Matrix (St N) (St N) ℂ}
    (ha : circDenN N a = some A) (hb : circDenN N b = some B) : circDenN N (a ++ b) = some (B * A) := by
  rw [circDenN_append, ha, hb]; rfl

theorem circDenN_singleton {g : Qft.Gate} {A : Matrix (St N) (St N) ℂ} (h : gateDen N g = some A) :
    circDenN N [g] = some A := by
  simp [circDenN, h]

/-! ## matrix elements -/

theorem Hm_apply (a b : Fin 2) :
    Hm a b = ((Real.sqrt 2 : ℝ) : ℂ)⁻¹ * ph (((a : ℕ) : ℝ) * ((b : ℕ) : ℝ) / 2) := by
  fin_cases a <;> fin_cases b <;> simp [Hm, ph_zero, ph_inv_two]

theorem Hq_apply (i : Fin N) (y z : St N) :
    Hq i y z = if ∀ l, l ≠ i → y l = z l then
      ((Real.sqrt 2 : ℝ) : ℂ)⁻¹ * ph ((((y i : Fin 2) : ℕ) : ℝ) * (((z i : Fin 2) : ℕ) : ℝ) / 2) else 0 := by
  rw [Hq, Tg.embed_apply]
  have hc : (∀ l, l ∉ Set.range (single i).f → y l = z l) ↔ (∀ l, l ≠ i → y l = z l) := by
    simp only [mem_range_single]
  by_cases h : ∀ l, l ≠ i → y l = z l
  · rw [if_pos h, if_pos (hc.mpr h), mul_one]
    exact Hm_apply (y i) (z i)
  · rw [if_neg h, if_neg (fun h' => h (hc.mp h')), mul_zero]

theorem CPq_eq_diagonal (c t : Fin N) (h : c ≠ t) (θ : ℝ) :
    CPq c t h θ = Matrix.diagonal (fun z : St N => if z c = 1 ∧ z t = 1 then cexp (I * θ) else 1) := by
  ext y z
  rw [CPq, Tg.embed_apply, Matrix.diagonal_apply]
  by_cases hyz : y = z
  · subst hyz
    simp [of4, cphaseMat]
  · rw [if_neg hyz]
    by_cases hr : ∀ l, l ∉ Set.range (Tg.pair c t h).f → y l = z l
    · have : ¬ ((y c, y t) = (z c, z t)) := by
        intro he
        apply hyz
        funext l
        by_cases hl : l ∈ Set.range (Tg.pair c t h).f
        · rcases (Tg.mem_range_pair c t h l).mp hl with rfl | rfl
          · exact (Prod.mk.inj he).1
          · exact (Prod.mk.inj he).2
        · exact hr l hl
      have h0 : of4 (cphaseMat θ) (y ∘ (Tg.pair c t h).f) (z ∘ (Tg.pair c t h).f) = 0 := by
        show cphaseMat θ (y c, y t) (z c, z t) = 0
        simp [cphaseMat, this]
      rw [h0, zero_mul]
    · rw [if_neg hr, mul_zero]

theorem SWq_eq_permOp (a b : Fin N) (h : a ≠ b) : SWq a b h = permOp (Equiv.swap a b) :=
  embed_swap_eq_permOp a b h

end QipVerif.QftDen
