import QipVerif.Lemmas.NoiseLindblad
import Mathlib.LinearAlgebra.Matrix.Kronecker
/-! Lindblad operators acting on one tensor factor (C15: subsystems decay independently). -/
namespace QipVerif.Noise
open Matrix Kronecker
set_option linter.unusedSectionVars false
variable {m n : Type} [Fintype m] [DecidableEq m] [Fintype n] [DecidableEq n]

theorem sub_kronecker' (A B : Matrix m m ℂ) (C : Matrix n n ℂ) :
    (A - B) ⊗ₖ C = A ⊗ₖ C - B ⊗ₖ C := by
  ext ⟨i, k⟩ ⟨j, l⟩; simp [sub_mul]

theorem kronecker_sub' (A : Matrix m m ℂ) (B C : Matrix n n ℂ) :
    A ⊗ₖ (B - C) = A ⊗ₖ B - A ⊗ₖ C := by
  ext ⟨i, k⟩ ⟨j, l⟩; simp [mul_sub]

/-- a collapse operator acting on the first factor only transforms a product state factorwise -/
theorem dissipator_kronecker_left (L ρA : Matrix m m ℂ) (ρB : Matrix n n ℂ) :
    dissipator (L ⊗ₖ (1 : Matrix n n ℂ)) (ρA ⊗ₖ ρB) = dissipator L ρA ⊗ₖ ρB := by
  unfold dissipator
  simp only [conjTranspose_kronecker, conjTranspose_one, ← mul_kronecker_mul, Matrix.mul_one,
    Matrix.one_mul, ← add_kronecker, ← smul_kronecker, ← sub_kronecker']

theorem dissipator_kronecker_right (L ρB : Matrix n n ℂ) (ρA : Matrix m m ℂ) :
    dissipator ((1 : Matrix m m ℂ) ⊗ₖ L) (ρA ⊗ₖ ρB) = ρA ⊗ₖ dissipator L ρB := by
  unfold dissipator
  simp only [conjTranspose_kronecker, conjTranspose_one, ← mul_kronecker_mul, Matrix.mul_one,
    Matrix.one_mul, ← kronecker_add, ← kronecker_smul, ← kronecker_sub']

/-- two subsystems, collapse operators `LA ⊗ 1` and `1 ⊗ LB` with rates `γA`, `γB`: on a product
state the generator is the sum of the local generators (Leibniz rule of `ρA(t) ⊗ ρB(t)`) -/
theorem generator_product (LA ρA : Matrix m m ℂ) (LB ρB : Matrix n n ℂ) (γA γB : ℝ) :
    generator 0 [(γA, LA ⊗ₖ (1 : Matrix n n ℂ)), (γB, (1 : Matrix m m ℂ) ⊗ₖ LB)] (ρA ⊗ₖ ρB) =
      ((γA : ℂ) • dissipator LA ρA) ⊗ₖ ρB + ρA ⊗ₖ ((γB : ℂ) • dissipator LB ρB) := by
  simp [generator, dissipator_kronecker_left, dissipator_kronecker_right, smul_kronecker, kronecker_smul]

end QipVerif.Noise
