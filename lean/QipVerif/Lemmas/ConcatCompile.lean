import Mathlib.Data.List.Perm.Subperm
import QipVerif.Lemmas.ConcatTop
/-! `_schedule` and the grouping loop of `GateCompiler.compile` (C12): which instructions with which start times
end up on which channel. -/
namespace QipVerif.Concat

/-! ### grouping by pulse label -/

/-- instructions of the channel `l` accumulated so far -/
def chanLookup (l : Nat) : List (Nat × List (Rat × Wave)) → List (Rat × Wave)
  | [] => []
  | (l', ch) :: rest => if l' = l then ch else chanLookup l rest

/-- the pulses of an instruction (tlist `tl`, started at `s`) that carry the label `l`, in `pulse_info` order -/
def pulsesOf (l : Nat) (tl : TList) (s : Rat) (ps : List (Nat × Coef)) : List (Rat × Wave) :=
  ps.filterMap (fun lc => if lc.1 = l then (mkWave tl lc.2).map (fun w => (s, w)) else none)

/-- **specification of the grouping loop**: channel `l` receives, in scheduled order, every pulse labelled `l`
together with the start time of its instruction -/
def chanOf (l : Nat) (pairs : List (Instr × Rat)) : List (Rat × Wave) :=
  pairs.flatMap (fun p => pulsesOf l p.1.tl p.2 p.1.pulses)

theorem chanLookup_addPulse (l l' : Nat) (sw : Rat × Wave) (acc : List (Nat × List (Rat × Wave))) :
    chanLookup l (addPulse l' sw acc) = if l' = l then chanLookup l acc ++ [sw] else chanLookup l acc := by
  induction acc with
  | nil =>
    simp only [addPulse, chanLookup]
    by_cases h : l' = l <;> simp [h]
  | cons a rest ih =>
    obtain ⟨l0, ch⟩ := a
    simp only [addPulse]
    by_cases h0 : l0 = l'
    · subst h0
      simp only [if_true, chanLookup]
      by_cases h : l0 = l <;> simp [h]
    · rw [if_neg h0]
      simp only [chanLookup]
      by_cases h : l0 = l
      · subst h
        have : ¬ (l' = l0) := fun e => h0 e.symm
        simp [this]
      · simp [h, ih]

theorem labels_addPulse (l' : Nat) (sw : Rat × Wave) (acc : List (Nat × List (Rat × Wave))) :
    (addPulse l' sw acc).map (·.1) = if l' ∈ acc.map (·.1) then acc.map (·.1) else acc.map (·.1) ++ [l'] := by
  induction acc with
  | nil => simp [addPulse]
  | cons a rest ih =>
    obtain ⟨l0, ch⟩ := a
    simp only [addPulse]
    by_cases h0 : l0 = l'
    · subst h0; simp
    · rw [if_neg h0]
      have h0' : ¬ (l' = l0) := fun e => h0 e.symm
      simp only [List.map_cons, ih, List.mem_cons, h0', false_or]
      by_cases hm : l' ∈ rest.map (·.1)
      · simp [hm]
      · simp [hm]

theorem nodup_addPulse (l' : Nat) (sw : Rat × Wave) (acc : List (Nat × List (Rat × Wave)))
    (h : (acc.map (·.1)).Nodup) : ((addPulse l' sw acc).map (·.1)).Nodup := by
  rw [labels_addPulse]
  by_cases hm : l' ∈ acc.map (·.1)
  · rw [if_pos hm]; exact h
  · rw [if_neg hm]
    exact List.nodup_append.mpr ⟨h, by simp, by
      intro a ha b hb; simp at hb; subst hb; intro e; subst e; exact hm ha⟩

theorem nonempty_addPulse (l' : Nat) (sw : Rat × Wave) (acc : List (Nat × List (Rat × Wave)))
    (h : ∀ g ∈ acc, g.2 ≠ []) : ∀ g ∈ addPulse l' sw acc, g.2 ≠ [] := by
  induction acc with
  | nil => intro g hg; simp [addPulse] at hg; subst hg; simp
  | cons a rest ih =>
    obtain ⟨l0, ch⟩ := a
    intro g hg
    simp only [addPulse] at hg
    by_cases h0 : l0 = l'
    · rw [if_pos h0] at hg
      rcases List.mem_cons.mp hg with rfl | hg
      · simp
      · exact h g (by simp [hg])
    · rw [if_neg h0] at hg
      rcases List.mem_cons.mp hg with rfl | hg
      · exact h _ (by simp)
      · exact ih (fun g hg => h g (by simp [hg])) g hg

theorem foldl_groupOne_none (tl : TList) (s : Rat) (ps : List (Nat × Coef)) :
    ps.foldl (groupOne tl s) none = none := by
  induction ps with
  | nil => rfl
  | cons p ps ih => simpa [groupOne] using ih

/-- the inner loop over `instruction.pulse_info` -/
theorem foldl_groupOne_spec (tl : TList) (s : Rat) (ps : List (Nat × Coef)) :
    ∀ (acc out : List (Nat × List (Rat × Wave))), ps.foldl (groupOne tl s) (some acc) = some out →
      (∀ l, chanLookup l out = chanLookup l acc ++ pulsesOf l tl s ps) ∧
      ((acc.map (·.1)).Nodup → (out.map (·.1)).Nodup) ∧
      ((∀ g ∈ acc, g.2 ≠ []) → ∀ g ∈ out, g.2 ≠ []) := by
  induction ps with
  | nil =>
    intro acc out h
    simp at h; subst h
    exact ⟨fun l => by simp [pulsesOf], id, id⟩
  | cons p ps ih =>
    intro acc out h
    simp only [List.foldl_cons] at h
    cases hw : mkWave tl p.2 with
    | none =>
      have : groupOne tl s (some acc) p = none := by simp [groupOne, hw]
      rw [this, foldl_groupOne_none] at h; cases h
    | some w =>
      have : groupOne tl s (some acc) p = some (addPulse p.1 (s, w) acc) := by simp [groupOne, hw]
      rw [this] at h
      obtain ⟨h1, h2, h3⟩ := ih _ _ h
      refine ⟨?_, fun hn => h2 (nodup_addPulse _ _ _ hn), fun hne => h3 (nonempty_addPulse _ _ _ hne)⟩
      intro l
      rw [h1 l, chanLookup_addPulse]
      simp only [pulsesOf, List.filterMap_cons]
      by_cases hl : p.1 = l
      · simp [hl, hw]
      · simp [hl]

/-- **The grouping loop of `compile` meets its specification.** -/
theorem groupPulses_spec (pairs : List (Instr × Rat)) :
    ∀ (acc out : List (Nat × List (Rat × Wave))), groupPulses pairs acc = some out →
      (∀ l, chanLookup l out = chanLookup l acc ++ chanOf l pairs) ∧
      ((acc.map (·.1)).Nodup → (out.map (·.1)).Nodup) ∧
      ((∀ g ∈ acc, g.2 ≠ []) → ∀ g ∈ out, g.2 ≠ []) := by
  induction pairs with
  | nil =>
    intro acc out h
    simp [groupPulses] at h; subst h
    exact ⟨fun l => by simp [chanOf], id, id⟩
  | cons p rest ih =>
    intro acc out h
    obtain ⟨i, s⟩ := p
    simp only [groupPulses] at h
    cases hf : i.pulses.foldl (groupOne i.tl s) (some acc) with
    | none => rw [hf] at h; cases h
    | some acc' =>
      rw [hf] at h
      obtain ⟨a1, a2, a3⟩ := foldl_groupOne_spec i.tl s i.pulses acc acc' hf
      obtain ⟨b1, b2, b3⟩ := ih acc' out h
      refine ⟨?_, fun hn => b2 (a2 hn), fun hne => b3 (a3 hne)⟩
      intro l
      rw [b1 l, a1 l]
      simp [chanOf, List.append_assoc]

theorem chanLookup_of_mem {groups : List (Nat × List (Rat × Wave))} (hn : (groups.map (·.1)).Nodup)
    {g : Nat × List (Rat × Wave)} (hg : g ∈ groups) : chanLookup g.1 groups = g.2 := by
  induction groups with
  | nil => simp at hg
  | cons a rest ih =>
    obtain ⟨l0, ch⟩ := a
    simp only [chanLookup]
    rcases List.mem_cons.mp hg with rfl | hg
    · simp
    · have hn' := List.nodup_cons.mp hn
      have : l0 ≠ g.1 := by
        intro e; apply hn'.1; rw [e]; exact List.mem_map.mpr ⟨g, hg, rfl⟩
      rw [if_neg this]; exact ih hn'.2 hg

/-! ### `_schedule` -/

theorem filterMap_range_getElem? {α : Type} (l : List α) : (List.range l.length).filterMap (fun i => l[i]?) = l := by
  induction l with
  | nil => rfl
  | cons a l ih =>
    rw [List.length_cons, List.range_succ_eq_map, List.filterMap_cons]
    simp only [List.getElem?_cons_zero, List.filterMap_map]
    congr 1


theorem cumStarts_length (acc : Rat) (l : List Instr) : (cumStarts acc l).length = l.length := by
  induction l generalizing acc with
  | nil => rfl
  | cons i rest ih => simp [cumStarts, ih]

/-- without scheduling every instruction starts when the previous one ends -/
theorem cumStarts_succ (acc : Rat) (l : List Instr) (k : Nat) (h1 : k + 1 < (cumStarts acc l).length) (h2 : k < l.length) :
    (cumStarts acc l)[k + 1] = (cumStarts acc l)[k]'(by omega) + l[k].duration := by
  induction l generalizing acc k with
  | nil => simp at h2
  | cons i rest ih =>
    cases k with
    | zero =>
      cases rest with
      | nil => simp [cumStarts] at h1
      | cons j rest' => simp [cumStarts]
    | succ k =>
      simp only [cumStarts, List.getElem_cons_succ]
      exact ih (acc + i.duration) k (by simpa [cumStarts] using h1) (by simpa using h2)

theorem isSortedLE_pairwise : ∀ (l : List Rat), isSortedLE l = true → l.Pairwise (· ≤ ·)
  | [], _ => List.Pairwise.nil
  | [a], _ => by simp
  | a :: b :: rest, h => by
    simp only [isSortedLE, Bool.and_eq_true, decide_eq_true_eq] at h
    have ih := isSortedLE_pairwise (b :: rest) h.2
    refine List.pairwise_cons.mpr ⟨?_, ih⟩
    intro x hx
    rcases List.mem_cons.mp hx with rfl | hx
    · exact h.1
    · exact Rat.le_trans h.1 ((List.pairwise_cons.mp ih).1 x hx)

/-- **`_schedule` with a scheduler**: the returned start times are sorted and the returned (instruction, start) pairs
are a permutation of the scheduler's (instruction, start) pairs — nothing is lost, duplicated or re-timed. -/
theorem schedule_sorted_perm (instrs : List Instr) (starts : List Rat) (perm : List Nat) (is : List Instr) (st : List Rat)
    (h : schedule instrs (some (starts, perm)) = .ok (is, st)) :
    st.Pairwise (· ≤ ·) ∧ (is.zip st).Perm (instrs.zip starts) := by
  simp only [schedule] at h
  split at h
  · cases h
  · rename_i hchk
    split at h
    · cases h
    · rename_i hsorted
      simp only [Except.ok.injEq, Prod.mk.injEq] at h
      obtain ⟨rfl, rfl⟩ := h
      have hlen1 : starts.length = instrs.length := by
        rcases Nat.lt_or_ge 0 0 with h | _; exact absurd h (by omega)
        exact Decidable.byContradiction fun hc => hchk (Or.inl hc)
      have hlen2 : perm.length = instrs.length :=
        Decidable.byContradiction fun hc => hchk (Or.inr (Or.inl hc))
      have hall : ∀ i ∈ perm, i < instrs.length := by
        have : perm.all (· < instrs.length) = true := by
          cases hb : perm.all (· < instrs.length) with
          | true => rfl
          | false => exact absurd (Or.inr (Or.inr (Or.inl (by simp [hb])))) hchk
        simpa [List.all_eq_true] using this
      have hsurj : ∀ i < instrs.length, i ∈ perm := by
        have : (List.range instrs.length).all (fun i => perm.contains i) = true := by
          cases hb : (List.range instrs.length).all (fun i => perm.contains i) with
          | true => rfl
          | false => exact absurd (Or.inr (Or.inr (Or.inr (by rw [hb]; rfl)))) hchk
        intro i hi
        have := List.all_eq_true.mp this i (List.mem_range.mpr hi)
        simpa using this
      have hperm : perm.Perm (List.range instrs.length) := by
        have hsub : (List.range instrs.length).Subperm perm :=
          List.subperm_of_subset List.nodup_range (fun i hi => hsurj i (List.mem_range.mp hi))
        exact (hsub.perm_of_length_le (by simp [hlen2])).symm
      refine ⟨isSortedLE_pairwise _ (by simpa using hsorted), ?_⟩
      have hZlen : (instrs.zip starts).length = instrs.length := by simp [hlen1]
      have hzipL : (perm.filterMap (fun i => instrs[i]?)).zip (perm.map (fun i => starts.getD i 0)) =
          perm.filterMap (fun i => (instrs.zip starts)[i]?) := by
        clear hperm hsurj hlen2 hsorted hchk
        induction perm with
        | nil => rfl
        | cons i rest ih =>
          have hi : i < instrs.length := hall i (by simp)
          have hi' : i < starts.length := by omega
          have hz : (instrs.zip starts)[i]? = some (instrs[i], starts[i]) := by
            rw [List.getElem?_eq_getElem (by omega)]; simp
          have hg : starts.getD i 0 = starts[i] := by simp [List.getD_eq_getElem?_getD, hi']
          rw [List.filterMap_cons, List.filterMap_cons, List.map_cons, List.getElem?_eq_getElem hi, hz, hg]
          simp only [List.zip_cons_cons]
          rw [ih (fun j hj => hall j (by simp [hj]))]
      rw [hzipL]
      have := hperm.filterMap (fun i => (instrs.zip starts)[i]?)
      rw [← hZlen, filterMap_range_getElem?] at this
      exact this

end QipVerif.Concat
