import QipVerif.Gen.GatePaths
import QipVerif.Lemmas.GateC
import QipVerif.Lemmas.GateKron
import QipVerif.Lemmas.GateExp
/-! Documented forms and unitarity of the generated gate matrices `Gen.G.*` for all parameter values (C09):
rotations about an involution (`rotOf A θ = cos(θ/2)·1 − i·sin(θ/2)·A`, the closed form of `exp(−iθ/2·A)`),
R, Mølmer–Sørensen, RZX, BERKELEY, SWAPα, the square-root gates, CPHASE and the controlled block `ctrl`. -/
open QipVerif QipVerif.Gen QipVerif.GateC QipVerif.GateKron Complex Matrix

namespace QipVerif.GateDoc

theorem hc_conj (θ : ℝ) : (starRingEnd ℂ) (hc θ) = hc θ := by
  unfold hc
  rw [show ((θ : ℂ) / 2) = ((θ / 2 : ℝ) : ℂ) by push_cast; ring, ← Complex.ofReal_cos, Complex.conj_ofReal]
theorem hs_conj (θ : ℝ) : (starRingEnd ℂ) (hs θ) = hs θ := by
  unfold hs
  rw [show ((θ : ℂ) / 2) = ((θ / 2 : ℝ) : ℂ) by push_cast; ring, ← Complex.ofReal_sin, Complex.conj_ofReal]

/-- cosine and sine of a real angle as complex numbers -/
noncomputable def ec (φ : ℝ) : ℂ := Complex.cos (φ : ℂ)
noncomputable def es (φ : ℝ) : ℂ := Complex.sin (φ : ℂ)
theorem ec_conj (φ : ℝ) : (starRingEnd ℂ) (ec φ) = ec φ := by
  unfold ec; rw [← Complex.ofReal_cos, Complex.conj_ofReal]
theorem es_conj (φ : ℝ) : (starRingEnd ℂ) (es φ) = es φ := by
  unfold es; rw [← Complex.ofReal_sin, Complex.conj_ofReal]
theorem ec_sq_add_es_sq (φ : ℝ) : ec φ * ec φ + es φ * es φ = 1 := by
  have := Complex.cos_sq_add_sin_sq (φ : ℂ)
  unfold ec es; linear_combination this
theorem exp_I_mul (φ : ℝ) : Complex.exp (I * (φ : ℂ)) = ec φ + I * es φ := by
  rw [mul_comm, Complex.exp_mul_I]; unfold ec es; ring
theorem exp_negI_mul (φ : ℝ) : Complex.exp (-I * (φ : ℂ)) = ec φ - I * es φ := by
  rw [show -I * (φ : ℂ) = (-(φ : ℂ)) * I by ring, Complex.exp_mul_I, Complex.cos_neg, Complex.sin_neg]
  unfold ec es; ring

/-- the rotation axis `cos φ·X + sin φ·Y` of the R gate and of the Mølmer–Sørensen gate -/
noncomputable def axis (φ : ℝ) : Matrix (Fin 2) (Fin 2) ℂ := ec φ • G.x_gate_ + es φ • G.y_gate_

theorem axis_eq (φ : ℝ) : axis φ = !![0, ec φ - I * es φ; ec φ + I * es φ, 0] := by
  ext i j; fin_cases i <;> fin_cases j <;> simp [axis, G.x_gate_, G.y_gate_] <;> ring

theorem axis_sq (φ : ℝ) : axis φ * axis φ = 1 := by
  have h := ec_sq_add_es_sq φ
  have hI : I * I = -1 := Complex.I_mul_I
  rw [axis_eq]
  ext i j
  fin_cases i <;> fin_cases j <;> simp [Matrix.mul_apply, Fin.sum_univ_two]
  all_goals linear_combination h - (es φ * es φ) * hI

theorem axis_herm (φ : ℝ) : (axis φ)ᴴ = axis φ := by
  rw [axis_eq]
  ext i j
  fin_cases i <;> fin_cases j <;> simp [Matrix.conjTranspose_apply, ec_conj, es_conj]
  all_goals ring

/-- `cos(θ/2)·1 − i·sin(θ/2)·A`: the closed form of `exp(−iθ/2·A)` for an involution `A` -/
noncomputable def rotOf {n : ℕ} (A : Matrix (Fin n) (Fin n) ℂ) (θ : ℝ) : Matrix (Fin n) (Fin n) ℂ :=
  hc θ • (1 : Matrix (Fin n) (Fin n) ℂ) - (I * hs θ) • A

theorem rotOf_unitary {n : ℕ} (A : Matrix (Fin n) (Fin n) ℂ) (hA : Aᴴ = A) (hA2 : A * A = 1) (θ : ℝ) :
    (rotOf A θ)ᴴ * rotOf A θ = 1 := by
  have h := hc_sq_add_hs_sq θ
  have hI : I * I = -1 := Complex.I_mul_I
  unfold rotOf
  rw [Matrix.conjTranspose_sub, Matrix.conjTranspose_smul, Matrix.conjTranspose_smul, hA, Matrix.conjTranspose_one]
  simp only [star_mul', RCLike.star_def, hc_conj, hs_conj, Complex.conj_I]
  rw [Matrix.sub_mul, Matrix.mul_sub, Matrix.mul_sub]
  simp only [Matrix.smul_mul, Matrix.mul_smul, Matrix.one_mul, Matrix.mul_one, hA2, smul_smul]
  ext i j
  simp only [Matrix.sub_apply, Matrix.smul_apply, smul_eq_mul]
  linear_combination (h - (hs θ * hs θ) * hI) * (1 : Matrix (Fin n) (Fin n) ℂ) i j

theorem kron2_herm (A B : Matrix (Fin 2) (Fin 2) ℂ) (hA : Aᴴ = A) (hB : Bᴴ = B) : (kron2 A B)ᴴ = kron2 A B := by
  rw [kron2_conjTranspose, hA, hB]
theorem kron2_sq (A B : Matrix (Fin 2) (Fin 2) ℂ) (hA : A * A = 1) (hB : B * B = 1) : kron2 A B * kron2 A B = 1 := by
  rw [kron2_mul, hA, hB, kron2_one]

theorem x_herm : (G.x_gate_)ᴴ = G.x_gate_ := by
  ext i j; fin_cases i <;> fin_cases j <;> simp [G.x_gate_, Matrix.conjTranspose_apply]
theorem y_herm : (G.y_gate_)ᴴ = G.y_gate_ := by
  ext i j; fin_cases i <;> fin_cases j <;> simp [G.y_gate_, Matrix.conjTranspose_apply]
theorem z_herm : (G.z_gate_)ᴴ = G.z_gate_ := by
  ext i j; fin_cases i <;> fin_cases j <;> simp [G.z_gate_, Matrix.conjTranspose_apply]
theorem x_sq : G.x_gate_ * G.x_gate_ = 1 := by
  ext i j; fin_cases i <;> fin_cases j <;> simp [G.x_gate_, Matrix.mul_apply, Fin.sum_univ_two]
theorem y_sq : G.y_gate_ * G.y_gate_ = 1 := by
  ext i j; fin_cases i <;> fin_cases j <;> simp [G.y_gate_, Matrix.mul_apply, Fin.sum_univ_two]
theorem z_sq : G.z_gate_ * G.z_gate_ = 1 := by
  ext i j; fin_cases i <;> fin_cases j <;> simp [G.z_gate_, Matrix.mul_apply, Fin.sum_univ_two]

theorem qrot_doc (θ φ : ℝ) : G.qrot_ θ φ = rotOf (axis φ) θ := by
  unfold G.qrot_ rotOf
  rw [exp_I_mul, exp_negI_mul, axis_eq]
  ext i j
  fin_cases i <;> fin_cases j <;> simp [hc, hs] <;> ring

theorem ms_doc (θ φ : ℝ) : G.molmer_sorensen_ θ φ = rotOf (kron2 (axis φ) (axis φ)) θ := by
  have h := ec_sq_add_es_sq φ
  have hI : I * I = -1 := Complex.I_mul_I
  have e1 : Complex.exp (-I * 2 * (φ : ℂ)) = (ec φ - I * es φ) * (ec φ - I * es φ) := by
    rw [← exp_negI_mul, ← Complex.exp_add]; congr 1; ring
  have e2 : Complex.exp (I * 2 * (φ : ℂ)) = (ec φ + I * es φ) * (ec φ + I * es φ) := by
    rw [← exp_I_mul, ← Complex.exp_add]; congr 1; ring
  unfold G.molmer_sorensen_ rotOf
  rw [e1, e2, axis_eq, kron2_eq]
  ext i j
  fin_cases i <;> fin_cases j <;> simp [hc, hs] <;> first | ring1 | linear_combination (-(I * Complex.sin ((θ:ℂ)/2))) * (h - (es φ * es φ) * hI)

theorem rzx_doc (θ : ℝ) : G.cls_RZX_ θ = rotOf (kron2 G.z_gate_ G.x_gate_) θ := by
  unfold G.cls_RZX_ rotOf
  rw [kron2_eq]
  ext i j
  fin_cases i <;> fin_cases j <;> simp [hc, hs, G.z_gate_, G.x_gate_]


/-! ## BERKELEY -/

/-- cos(π/8), sin(π/8), cos(3π/8), sin(3π/8) as complex numbers -/
noncomputable def c8 : ℂ := Complex.cos ((Real.pi : ℂ) / 8)
noncomputable def s8 : ℂ := Complex.sin ((Real.pi : ℂ) / 8)
noncomputable def c38 : ℂ := Complex.cos (3 * (Real.pi : ℂ) / 8)
noncomputable def s38 : ℂ := Complex.sin (3 * (Real.pi : ℂ) / 8)

theorem berkeley_eq : G.berkeley_ = !![c8, 0, 0, I * s8; 0, c38, I * s38, 0; 0, I * s38, c38, 0; I * s8, 0, 0, c8] := rfl

theorem c8_sq : c8 * c8 + s8 * s8 = 1 := by
  have := Complex.cos_sq_add_sin_sq ((Real.pi : ℂ) / 8); unfold c8 s8; linear_combination this
theorem c38_sq : c38 * c38 + s38 * s38 = 1 := by
  have := Complex.cos_sq_add_sin_sq (3 * (Real.pi : ℂ) / 8); unfold c38 s38; linear_combination this
theorem c8_conj : (starRingEnd ℂ) c8 = c8 := by
  unfold c8; rw [show ((Real.pi : ℂ) / 8) = ((Real.pi / 8 : ℝ) : ℂ) by push_cast; ring, ← Complex.ofReal_cos, Complex.conj_ofReal]
theorem s8_conj : (starRingEnd ℂ) s8 = s8 := by
  unfold s8; rw [show ((Real.pi : ℂ) / 8) = ((Real.pi / 8 : ℝ) : ℂ) by push_cast; ring, ← Complex.ofReal_sin, Complex.conj_ofReal]
theorem c38_conj : (starRingEnd ℂ) c38 = c38 := by
  unfold c38; rw [show (3 * (Real.pi : ℂ) / 8) = ((3 * Real.pi / 8 : ℝ) : ℂ) by push_cast; ring, ← Complex.ofReal_cos, Complex.conj_ofReal]
theorem s38_conj : (starRingEnd ℂ) s38 = s38 := by
  unfold s38; rw [show (3 * (Real.pi : ℂ) / 8) = ((3 * Real.pi / 8 : ℝ) : ℂ) by push_cast; ring, ← Complex.ofReal_sin, Complex.conj_ofReal]

theorem berkeley_unitary : (G.berkeley_)ᴴ * G.berkeley_ = 1 := by
  have h1 := c8_sq
  have h3 := c38_sq
  have hI : I * I = -1 := Complex.I_mul_I
  rw [berkeley_eq]
  ext i j
  fin_cases i <;> fin_cases j <;>
    simp [Matrix.mul_apply, Fin.sum_univ_four, Matrix.conjTranspose_apply, c8_conj, s8_conj, c38_conj, s38_conj] <;>
    first | ring1 | linear_combination h1 - (s8 * s8) * hI | linear_combination h3 - (s38 * s38) * hI

/-- angle addition: π/8 = π/4 − π/8 and 3π/8 = π/4 + π/8 -/
theorem c8_add : c8 = r2 * c8 + r2 * s8 := by
  have := Complex.cos_sub ((Real.pi : ℂ) / 4) ((Real.pi : ℂ) / 8)
  rw [show (Real.pi : ℂ) / 4 - (Real.pi : ℂ) / 8 = (Real.pi : ℂ) / 8 by ring, cos_pi4, sin_pi4] at this
  exact this
theorem s8_add : s8 = r2 * c8 - r2 * s8 := by
  have := Complex.sin_sub ((Real.pi : ℂ) / 4) ((Real.pi : ℂ) / 8)
  rw [show (Real.pi : ℂ) / 4 - (Real.pi : ℂ) / 8 = (Real.pi : ℂ) / 8 by ring, cos_pi4, sin_pi4] at this
  exact this
theorem c38_add : c38 = r2 * c8 - r2 * s8 := by
  have := Complex.cos_add ((Real.pi : ℂ) / 4) ((Real.pi : ℂ) / 8)
  rw [show (Real.pi : ℂ) / 4 + (Real.pi : ℂ) / 8 = 3 * (Real.pi : ℂ) / 8 by ring, cos_pi4, sin_pi4] at this
  exact this
theorem s38_add : s38 = r2 * c8 + r2 * s8 := by
  have := Complex.sin_add ((Real.pi : ℂ) / 4) ((Real.pi : ℂ) / 8)
  rw [show (Real.pi : ℂ) / 4 + (Real.pi : ℂ) / 8 = 3 * (Real.pi : ℂ) / 8 by ring, cos_pi4, sin_pi4] at this
  exact this

theorem hc_quarter_pi : hc (Real.pi / 4) = c8 := by
  unfold hc c8; congr 1; push_cast; ring
theorem hs_quarter_pi : hs (Real.pi / 4) = s8 := by
  unfold hs s8; congr 1; push_cast; ring

/-- BERKELEY = exp(iπ/4·X⊗X)·exp(iπ/8·Y⊗Y), each factor in closed form (X⊗X and Y⊗Y commute, so this is
`exp(iπ/8·(2·X⊗X + Y⊗Y))`, the definition of the Berkeley gate) -/
theorem berkeley_factor :
    G.berkeley_ = rotOf (kron2 G.x_gate_ G.x_gate_) (-(Real.pi / 2)) * rotOf (kron2 G.y_gate_ G.y_gate_) (-(Real.pi / 4)) := by
  have hI : I * I = -1 := Complex.I_mul_I
  have a1 := c8_add
  have a2 := s8_add
  have a3 := c38_add
  have a4 := s38_add
  rw [berkeley_eq]
  unfold rotOf
  rw [hc_neg, hs_neg, hc_neg, hs_neg, hc_half_pi, hs_half_pi, hc_quarter_pi, hs_quarter_pi, kron2_eq, kron2_eq]
  ext i j
  fin_cases i <;> fin_cases j <;>
    simp [Matrix.mul_apply, Fin.sum_univ_four, G.x_gate_, G.y_gate_]
  all_goals first
    | linear_combination a1 + (r2 * s8) * hI
    | linear_combination I * a2
    | linear_combination a3 - (r2 * s8) * hI
    | linear_combination I * a4

theorem xx_yy_commute : kron2 G.x_gate_ G.x_gate_ * kron2 G.y_gate_ G.y_gate_ =
    kron2 G.y_gate_ G.y_gate_ * kron2 G.x_gate_ G.x_gate_ := by
  rw [kron2_mul, kron2_mul]
  have : G.x_gate_ * G.y_gate_ = -(G.y_gate_ * G.x_gate_) := by
    ext i j; fin_cases i <;> fin_cases j <;> simp [G.x_gate_, G.y_gate_, Matrix.mul_apply, Fin.sum_univ_two]
  rw [this]
  ext i j
  simp [kron2_apply]


/-! ## SWAPα and the square-root gates -/

/-- e^{iπα} -/
noncomputable def ea (α : ℝ) : ℂ := Complex.exp (I * (Real.pi : ℂ) * (α : ℂ))

theorem ea_eq (α : ℝ) : ea α = ec (Real.pi * α) + I * es (Real.pi * α) := by
  rw [← exp_I_mul]; unfold ea; congr 1; push_cast; ring
theorem ea_add (α β : ℝ) : ea (α + β) = ea α * ea β := by
  unfold ea; rw [← Complex.exp_add]; congr 1; push_cast; ring
theorem ea_zero : ea 0 = 1 := by simp [ea]
theorem ea_one : ea 1 = -1 := by
  unfold ea; rw [show I * (Real.pi : ℂ) * ((1 : ℝ) : ℂ) = (Real.pi : ℂ) * I by push_cast; ring, Complex.exp_pi_mul_I]
theorem ea_half : ea (1 / 2) = I := by
  unfold ea
  rw [show I * (Real.pi : ℂ) * ((1 / 2 : ℝ) : ℂ) = (Real.pi : ℂ) / 2 * I by push_cast; ring, Complex.exp_pi_div_two_mul_I]

theorem swapalpha_eq (α : ℝ) : G.swapalpha_ α =
    !![1, 0, 0, 0; 0, 1 / 2 * (1 + ea α), 1 / 2 * (1 - ea α), 0; 0, 1 / 2 * (1 - ea α), 1 / 2 * (1 + ea α), 0; 0, 0, 0, 1] := rfl

/-- SWAPα = ½(1 + e^{iπα})·1 + ½(1 − e^{iπα})·SWAP -/
theorem swapalpha_doc (α : ℝ) : G.swapalpha_ α =
    (1 / 2 * (1 + ea α)) • (1 : Matrix (Fin 4) (Fin 4) ℂ) + (1 / 2 * (1 - ea α)) • G.swap_ := by
  rw [swapalpha_eq]
  ext i j
  fin_cases i <;> fin_cases j <;> simp [G.swap_]
  all_goals ring

theorem swapalpha_unitary (α : ℝ) : (G.swapalpha_ α)ᴴ * G.swapalpha_ α = 1 := by
  have h := ec_sq_add_es_sq (Real.pi * α)
  have hI : I * I = -1 := Complex.I_mul_I
  rw [swapalpha_eq, ea_eq]
  ext i j
  fin_cases i <;> fin_cases j <;>
    simp [Matrix.mul_apply, Fin.sum_univ_four, Matrix.conjTranspose_apply, ec_conj, es_conj, map_ofNat] <;>
    first
    | ring1
    | linear_combination (1 / 2 : ℂ) * (h - (es (Real.pi * α) * es (Real.pi * α)) * hI)
    | linear_combination (-1 / 2 : ℂ) * (h - (es (Real.pi * α) * es (Real.pi * α)) * hI)

theorem swapalpha_mul (α β : ℝ) : G.swapalpha_ α * G.swapalpha_ β = G.swapalpha_ (α + β) := by
  rw [swapalpha_eq, swapalpha_eq, swapalpha_eq, ea_add]
  ext i j
  fin_cases i <;> fin_cases j <;> simp [Matrix.mul_apply, Fin.sum_univ_four]
  all_goals ring

theorem swapalpha_zero : G.swapalpha_ 0 = 1 := by
  rw [swapalpha_eq, ea_zero]
  ext i j
  fin_cases i <;> fin_cases j <;> simp
  all_goals norm_num

theorem swapalpha_one : G.swapalpha_ 1 = G.swap_ := by
  rw [swapalpha_eq, ea_one]
  ext i j
  fin_cases i <;> fin_cases j <;> simp [G.swap_]
  all_goals norm_num

theorem swapalpha_half : G.swapalpha_ (1 / 2) = G.sqrtswap_ := by
  rw [swapalpha_eq, ea_half]
  ext i j
  fin_cases i <;> fin_cases j <;> simp [G.sqrtswap_]
  all_goals ring

theorem sqrtswap_sq : G.sqrtswap_ * G.sqrtswap_ = G.swap_ := by
  rw [← swapalpha_half, swapalpha_mul, show (1 / 2 : ℝ) + 1 / 2 = 1 by norm_num, swapalpha_one]

theorem sqrt2_sq : ((Real.sqrt 2 : ℝ) : ℂ) * ((Real.sqrt 2 : ℝ) : ℂ) = 2 := by
  rw [← Complex.ofReal_mul, Real.mul_self_sqrt (by norm_num)]; norm_num
theorem sqrt2_ne : ((Real.sqrt 2 : ℝ) : ℂ) ≠ 0 := by
  intro h0; have := sqrt2_sq; rw [h0] at this; norm_num at this

theorem sqrtiswap_sq : G.sqrtiswap_ * G.sqrtiswap_ = G.iswap_ := by
  have h2 := sqrt2_sq
  have hne := sqrt2_ne
  have hI : I * I = -1 := Complex.I_mul_I
  unfold G.sqrtiswap_ G.iswap_
  ext i j
  fin_cases i <;> fin_cases j <;> simp [Matrix.mul_apply, Fin.sum_univ_four]
  all_goals (field_simp; first | ring1 | linear_combination hI | linear_combination (-1 : ℂ) * h2)


/-! ## The controlled block `ctrl U = 1₂ ⊕ U` and CPHASE -/
open QipVerif.GatePath

theorem ctrl_mul (U V : Matrix (Fin 2) (Fin 2) ℂ) : ctrl U * ctrl V = ctrl (U * V) := by
  ext i j
  fin_cases i <;> fin_cases j <;> simp [ctrl, Matrix.mul_apply, Fin.sum_univ_four, Fin.sum_univ_two]

theorem ctrl_one : ctrl 1 = 1 := by
  ext i j
  fin_cases i <;> fin_cases j <;> simp [ctrl]

theorem ctrl_conjTranspose (U : Matrix (Fin 2) (Fin 2) ℂ) : (ctrl U)ᴴ = ctrl Uᴴ := by
  ext i j
  fin_cases i <;> fin_cases j <;> simp [ctrl, Matrix.conjTranspose_apply]

theorem ctrl_unitary (U : Matrix (Fin 2) (Fin 2) ℂ) (h : Uᴴ * U = 1) : (ctrl U)ᴴ * ctrl U = 1 := by
  rw [ctrl_conjTranspose, ctrl_mul, h, ctrl_one]

/-- `cphase(θ)` = |1⟩⟨1| ⊗ phasegate(θ) + |0⟩⟨0| ⊗ 1 is the controlled phase gate -/
theorem cphase_eq_ctrl (θ : ℝ) : G.cphase_ θ = ctrl (G.phasegate_ θ) := by
  unfold G.cphase_
  rw [kron2_eq, kron2_eq]
  ext i j
  fin_cases i <;> fin_cases j <;> simp [ctrl, G.phasegate_]

/-- |e^{iφ}| = 1 for real φ -/
theorem exp_I_unit (φ : ℝ) : (starRingEnd ℂ) (Complex.exp (I * (φ : ℂ))) * Complex.exp (I * (φ : ℂ)) = 1 := by
  have h := ec_sq_add_es_sq φ
  have hI : I * I = -1 := Complex.I_mul_I
  rw [exp_I_mul]
  simp only [map_add, map_mul, ec_conj, es_conj, Complex.conj_I]
  linear_combination h - (es φ * es φ) * hI

theorem t_exp : Complex.exp (I * (Real.pi : ℂ) / 4) = Complex.exp (I * ((Real.pi : ℂ) / 4)) := by
  congr 1; ring
theorem t_unit : (starRingEnd ℂ) (Complex.exp (I * ((Real.pi : ℂ) / 4))) * Complex.exp (I * ((Real.pi : ℂ) / 4)) = 1 := by
  have := exp_I_unit (Real.pi / 4); push_cast at this; exact this

/-! ## Unitarity of the fixed gates over ℂ (generated matrices) -/

theorem x_unitary : (G.x_gate_)ᴴ * G.x_gate_ = 1 := by rw [x_herm, x_sq]
theorem y_unitary : (G.y_gate_)ᴴ * G.y_gate_ = 1 := by rw [y_herm, y_sq]
theorem z_unitary : (G.z_gate_)ᴴ * G.z_gate_ = 1 := by rw [z_herm, z_sq]
theorem s_unitary : (G.s_gate_)ᴴ * G.s_gate_ = 1 := by
  ext i j; fin_cases i <;> fin_cases j <;> simp [G.s_gate_, Matrix.mul_apply, Fin.sum_univ_two, Matrix.conjTranspose_apply]
theorem t_unitary : (G.t_gate_)ᴴ * G.t_gate_ = 1 := by
  have h := t_unit
  unfold G.t_gate_
  rw [t_exp]
  ext i j; fin_cases i <;> fin_cases j <;> simp [Matrix.mul_apply, Fin.sum_univ_two, Matrix.conjTranspose_apply]
  exact h
theorem sqrtnot_unitary : (G.sqrtnot_)ᴴ * G.sqrtnot_ = 1 := by
  have hI : I * I = -1 := Complex.I_mul_I
  unfold G.sqrtnot_
  ext i j
  fin_cases i <;> fin_cases j <;>
    simp [Matrix.mul_apply, Fin.sum_univ_two, Matrix.conjTranspose_apply, map_ofNat] <;>
    first | ring1 | linear_combination (-1 / 2 : ℂ) * hI | linear_combination (1 / 2 : ℂ) * hI
theorem cnot_unitary : (G.cnot_)ᴴ * G.cnot_ = 1 := by
  ext i j; fin_cases i <;> fin_cases j <;> simp [G.cnot_, Matrix.mul_apply, Fin.sum_univ_four, Matrix.conjTranspose_apply]
theorem csign_unitary : (G.csign_)ᴴ * G.csign_ = 1 := by
  ext i j; fin_cases i <;> fin_cases j <;> simp [G.csign_, Matrix.mul_apply, Fin.sum_univ_four, Matrix.conjTranspose_apply]
theorem cz_unitary : (G.cz_gate_)ᴴ * G.cz_gate_ = 1 := by
  ext i j; fin_cases i <;> fin_cases j <;> simp [G.cz_gate_, Matrix.mul_apply, Fin.sum_univ_four, Matrix.conjTranspose_apply]
theorem cy_unitary : (G.cy_gate_)ᴴ * G.cy_gate_ = 1 := by
  ext i j; fin_cases i <;> fin_cases j <;> simp [G.cy_gate_, Matrix.mul_apply, Fin.sum_univ_four, Matrix.conjTranspose_apply]
theorem cs_unitary : (G.cs_gate_)ᴴ * G.cs_gate_ = 1 := by
  ext i j; fin_cases i <;> fin_cases j <;> simp [G.cs_gate_, Matrix.mul_apply, Fin.sum_univ_four, Matrix.conjTranspose_apply]
theorem ct_unitary : (G.ct_gate_)ᴴ * G.ct_gate_ = 1 := by
  have h := t_unit
  unfold G.ct_gate_
  rw [t_exp]
  ext i j; fin_cases i <;> fin_cases j <;> simp [Matrix.mul_apply, Fin.sum_univ_four, Matrix.conjTranspose_apply]
  exact h
theorem swap_unitary : (G.swap_)ᴴ * G.swap_ = 1 := by
  ext i j; fin_cases i <;> fin_cases j <;> simp [G.swap_, Matrix.mul_apply, Fin.sum_univ_four, Matrix.conjTranspose_apply]
theorem iswap_unitary : (G.iswap_)ᴴ * G.iswap_ = 1 := by
  ext i j; fin_cases i <;> fin_cases j <;> simp [G.iswap_, Matrix.mul_apply, Fin.sum_univ_four, Matrix.conjTranspose_apply]
theorem sqrtswap_unitary : (G.sqrtswap_)ᴴ * G.sqrtswap_ = 1 := by
  rw [← swapalpha_half]; exact swapalpha_unitary _
theorem sqrtiswap_unitary : (G.sqrtiswap_)ᴴ * G.sqrtiswap_ = 1 := by
  have h2 := sqrt2_sq
  have hne := sqrt2_ne
  have hI : I * I = -1 := Complex.I_mul_I
  unfold G.sqrtiswap_
  ext i j
  fin_cases i <;> fin_cases j <;>
    simp [Matrix.mul_apply, Fin.sum_univ_four, Matrix.conjTranspose_apply, Complex.conj_ofReal]
  all_goals (field_simp; first | ring1 | linear_combination hI | linear_combination (-1 : ℂ) * h2 | linear_combination (-1 : ℂ) * h2 - hI)
theorem fredkin_unitary : (G.fredkin_)ᴴ * G.fredkin_ = 1 := by
  ext i j
  fin_cases i <;> fin_cases j <;> simp [G.fredkin_, Matrix.mul_apply, Fin.sum_univ_eight, Matrix.conjTranspose_apply]
theorem toffoli_unitary : (G.toffoli_)ᴴ * G.toffoli_ = 1 := by
  ext i j
  fin_cases i <;> fin_cases j <;> simp [G.toffoli_, Matrix.mul_apply, Fin.sum_univ_eight, Matrix.conjTranspose_apply]

/-- iSWAP = ½(1 + Z⊗Z) + (i/2)(X⊗X + Y⊗Y): identity on |00⟩, |11⟩ and i·SWAP on |01⟩, |10⟩ -/
theorem iswap_doc : G.iswap_ = (1 / 2 : ℂ) • (1 + kron2 G.z_gate_ G.z_gate_) +
    (I / 2) • (kron2 G.x_gate_ G.x_gate_ + kron2 G.y_gate_ G.y_gate_) := by
  rw [kron2_eq, kron2_eq, kron2_eq]
  ext i j
  fin_cases i <;> fin_cases j <;> simp [G.iswap_, G.x_gate_, G.y_gate_, G.z_gate_]
  all_goals ring1


/-! ## The documented exponentials -/

/-- `rotOf A θ` is the matrix exponential `exp(−i·θ/2·A)` when `A·A = 1` -/
theorem rotOf_eq_exp {n : ℕ} (A : Matrix (Fin n) (Fin n) ℂ) (hA : A * A = 1) (θ : ℝ) :
    rotOf A θ = NormedSpace.exp ((-(I * ((θ : ℂ) / 2))) • A) := by
  rw [GateExp.exp_rot A hA]; rfl

/-- BERKELEY = exp(i·π/8·(2·X⊗X + Y⊗Y)) -/
theorem berkeley_exp :
    G.berkeley_ = NormedSpace.exp ((I * (Real.pi : ℂ) / 8) • ((2 : ℂ) • kron2 G.x_gate_ G.x_gate_ + kron2 G.y_gate_ G.y_gate_)) := by
  have hc : Commute ((-(I * (((-(Real.pi / 2) : ℝ) : ℂ) / 2))) • kron2 G.x_gate_ G.x_gate_)
      ((-(I * (((-(Real.pi / 4) : ℝ) : ℂ) / 2))) • kron2 G.y_gate_ G.y_gate_) :=
    (Commute.smul_right (Commute.smul_left xx_yy_commute _) _)
  rw [berkeley_factor, rotOf_eq_exp _ (kron2_sq _ _ x_sq x_sq), rotOf_eq_exp _ (kron2_sq _ _ y_sq y_sq),
    ← GateExp.exp_add_of_commute _ _ hc]
  congr 1
  rw [smul_add, smul_smul]
  congr 1
  · congr 1; push_cast; ring
  · congr 1; push_cast; ring

end QipVerif.GateDoc
