import QipVerif.Lemmas.QasmRenderInjLex
/-!
# The strict parser inverts the tokens of a rendered expression; rendering is injective (C04, cache keys)

`pExp_toks : ExprWf e → ∃ n, ∀ f ≥ n, pExp f (toks e) = some (e, [])` — the recursive-descent parser of the
strict recogniser (precedences `+ -` < `* /` < unary minus < `^`, left-associative binary operators,
right-associative `^`) returns the tree from the tokens of its minimal-parentheses rendering, for every
well-formed expression of any depth.  With `lexLine_render` (`QasmRenderInjLex.lean`):
`render_inj : ExprWf e → ExprWf e' → e.render = e'.render → e = e'`.
-/
namespace QipVerif.Qasm

/-- eventually (for all large enough fuel) the result is `r` -/
def EvP {α : Type} (g : Nat → Option α) (r : α) : Prop := ∃ n, ∀ f, n ≤ f → g f = some r

def noPow : List Tok → Bool
  | .sym '^' :: _ => false
  | _ => true

def noMulPow : List Tok → Bool
  | .sym '^' :: _ | .sym '*' :: _ | .sym '/' :: _ => false
  | _ => true

theorem pTerm_succ (f : Nat) (ts : List Tok) :
    pTerm (f + 1) ts = match pFactor f ts with
      | some (a, r) => pTermRest f a r
      | none => none := by rw [pTerm]; rfl

theorem pExp_succ (f : Nat) (ts : List Tok) :
    pExp (f + 1) ts = match pTerm f ts with
      | some (a, r) => pExpRest f a r
      | none => none := by rw [pExp]; rfl

theorem pTermRest_stop (f : Nat) (a : Expr) (rest : List Tok) (h : noMulPow rest = true) :
    pTermRest (f + 1) a rest = some (a, rest) := by
  unfold pTermRest
  split <;> simp_all [noMulPow]

theorem pAtom_minus (f : Nat) (r : List Tok) : pAtom f (.sym '-' :: r) = none := by
  cases f <;> simp [pAtom]

theorem pFactor_nonminus (f : Nat) (ts : List Tok) (h : ∀ r, ts ≠ .sym '-' :: r) :
    pFactor (f + 1) ts = match pAtom f ts with
      | some (a, .sym '^' :: r) =>
        (match pFactor f r with
         | some (b, r') => some (.pow a b, r')
         | none => none)
      | other => other := by
  rw [pFactor]
  · rfl
  · exact h

theorem pFactor_atom_stop (f : Nat) (ts : List Tok) (a : Expr) (r : List Tok) (h : pAtom f ts = some (a, r))
    (hr : noPow r = true) : pFactor (f + 1) ts = some (a, r) := by
  rw [pFactor_nonminus f ts (by rintro r0 rfl; rw [pAtom_minus] at h; cases h), h]
  split
  · rename_i heq
    simp only [Option.some.injEq, Prod.mk.injEq] at heq
    obtain ⟨rfl, rfl⟩ := heq
    simp [noPow] at hr
  · rfl

theorem pFactor_atom_pow (f : Nat) (ts : List Tok) (a : Expr) (r : List Tok)
    (h : pAtom f ts = some (a, .sym '^' :: r)) :
    pFactor (f + 1) ts = match pFactor f r with
      | some (b, r') => some (.pow a b, r')
      | none => none := by
  rw [pFactor_nonminus f ts (by rintro r0 rfl; rw [pAtom_minus] at h; cases h), h]
  rfl

theorem pFactor_minus (f : Nat) (r : List Tok) :
    pFactor (f + 1) (.sym '-' :: r) = match pFactor f r with
      | some (a, r') => some (.neg a, r')
      | none => none := by
  rw [pFactor]; rfl

theorem pAtom_paren (f : Nat) (r : List Tok) :
    pAtom (f + 1) (.sym '(' :: r) = match pExp f r with
      | some (e, .sym ')' :: r') => some (e, r')
      | _ => none := by
  rw [pAtom]; rfl

theorem pExpRest_add (f : Nat) (a : Expr) (r : List Tok) :
    pExpRest (f + 1) a (.sym '+' :: r) = match pTerm f r with
      | some (b, r') => pExpRest f (.add a b) r'
      | none => none := by
  rw [pExpRest]; rfl

theorem pExpRest_sub (f : Nat) (a : Expr) (r : List Tok) :
    pExpRest (f + 1) a (.sym '-' :: r) = match pTerm f r with
      | some (b, r') => pExpRest f (.sub a b) r'
      | none => none := by
  rw [pExpRest]; rfl

theorem pTermRest_mul (f : Nat) (a : Expr) (r : List Tok) :
    pTermRest (f + 1) a (.sym '*' :: r) = match pFactor f r with
      | some (b, r') => pTermRest f (.mul a b) r'
      | none => none := by
  rw [pTermRest]; rfl

theorem pTermRest_div (f : Nat) (a : Expr) (r : List Tok) :
    pTermRest (f + 1) a (.sym '/' :: r) = match pFactor f r with
      | some (b, r') => pTermRest f (.div a b) r'
      | none => none := by
  rw [pTermRest]; rfl

theorem pExpRest_nil (f : Nat) (a : Expr) : pExpRest (f + 1) a [] = some (a, []) := by
  rw [pExpRest]
  all_goals simp

theorem pExpRest_close (f : Nat) (a : Expr) (r : List Tok) :
    pExpRest (f + 1) a (.sym ')' :: r) = some (a, .sym ')' :: r) := by
  rw [pExpRest]
  all_goals simp


/-! ## composition with enough fuel -/

theorem EvP.term {ts r1 : List Tok} {a : Expr} {r : Expr × List Tok} (h1 : EvP (pFactor · ts) (a, r1))
    (h2 : EvP (pTermRest · a r1) r) : EvP (pTerm · ts) r := by
  obtain ⟨n1, k1⟩ := h1
  obtain ⟨n2, k2⟩ := h2
  refine ⟨max n1 n2 + 1, fun f hf => ?_⟩
  obtain ⟨g, rfl⟩ : ∃ g, f = g + 1 := ⟨f - 1, by omega⟩
  simp only [pTerm_succ, k1 g (by omega)]
  exact k2 g (by omega)

theorem EvP.exp {ts r1 : List Tok} {a : Expr} {r : Expr × List Tok} (h1 : EvP (pTerm · ts) (a, r1))
    (h2 : EvP (pExpRest · a r1) r) : EvP (pExp · ts) r := by
  obtain ⟨n1, k1⟩ := h1
  obtain ⟨n2, k2⟩ := h2
  refine ⟨max n1 n2 + 1, fun f hf => ?_⟩
  obtain ⟨g, rfl⟩ : ∃ g, f = g + 1 := ⟨f - 1, by omega⟩
  simp only [pExp_succ, k1 g (by omega)]
  exact k2 g (by omega)

theorem EvP.termRest_stop (a : Expr) {rest : List Tok} (h : noMulPow rest = true) :
    EvP (pTermRest · a rest) (a, rest) :=
  ⟨1, fun f hf => by
    obtain ⟨g, rfl⟩ : ∃ g, f = g + 1 := ⟨f - 1, by omega⟩
    exact pTermRest_stop g a rest h⟩

theorem EvP.expRest_nil (a : Expr) : EvP (pExpRest · a []) (a, []) :=
  ⟨1, fun f hf => by
    obtain ⟨g, rfl⟩ : ∃ g, f = g + 1 := ⟨f - 1, by omega⟩
    exact pExpRest_nil g a⟩

theorem EvP.expRest_close (a : Expr) (r : List Tok) : EvP (pExpRest · a (.sym ')' :: r)) (a, .sym ')' :: r) :=
  ⟨1, fun f hf => by
    obtain ⟨g, rfl⟩ : ∃ g, f = g + 1 := ⟨f - 1, by omega⟩
    exact pExpRest_close g a r⟩

theorem EvP.termRest_mul {a b : Expr} {r r' : List Tok} {res : Expr × List Tok} (h1 : EvP (pFactor · r) (b, r'))
    (h2 : EvP (pTermRest · (.mul a b) r') res) : EvP (pTermRest · a (.sym '*' :: r)) res := by
  obtain ⟨n1, k1⟩ := h1
  obtain ⟨n2, k2⟩ := h2
  refine ⟨max n1 n2 + 1, fun f hf => ?_⟩
  obtain ⟨g, rfl⟩ : ∃ g, f = g + 1 := ⟨f - 1, by omega⟩
  simp only [pTermRest_mul, k1 g (by omega)]
  exact k2 g (by omega)

theorem EvP.termRest_div {a b : Expr} {r r' : List Tok} {res : Expr × List Tok} (h1 : EvP (pFactor · r) (b, r'))
    (h2 : EvP (pTermRest · (.div a b) r') res) : EvP (pTermRest · a (.sym '/' :: r)) res := by
  obtain ⟨n1, k1⟩ := h1
  obtain ⟨n2, k2⟩ := h2
  refine ⟨max n1 n2 + 1, fun f hf => ?_⟩
  obtain ⟨g, rfl⟩ : ∃ g, f = g + 1 := ⟨f - 1, by omega⟩
  simp only [pTermRest_div, k1 g (by omega)]
  exact k2 g (by omega)

theorem EvP.expRest_add {a b : Expr} {r r' : List Tok} {res : Expr × List Tok} (h1 : EvP (pTerm · r) (b, r'))
    (h2 : EvP (pExpRest · (.add a b) r') res) : EvP (pExpRest · a (.sym '+' :: r)) res := by
  obtain ⟨n1, k1⟩ := h1
  obtain ⟨n2, k2⟩ := h2
  refine ⟨max n1 n2 + 1, fun f hf => ?_⟩
  obtain ⟨g, rfl⟩ : ∃ g, f = g + 1 := ⟨f - 1, by omega⟩
  simp only [pExpRest_add, k1 g (by omega)]
  exact k2 g (by omega)

theorem EvP.expRest_sub {a b : Expr} {r r' : List Tok} {res : Expr × List Tok} (h1 : EvP (pTerm · r) (b, r'))
    (h2 : EvP (pExpRest · (.sub a b) r') res) : EvP (pExpRest · a (.sym '-' :: r)) res := by
  obtain ⟨n1, k1⟩ := h1
  obtain ⟨n2, k2⟩ := h2
  refine ⟨max n1 n2 + 1, fun f hf => ?_⟩
  obtain ⟨g, rfl⟩ : ∃ g, f = g + 1 := ⟨f - 1, by omega⟩
  simp only [pExpRest_sub, k1 g (by omega)]
  exact k2 g (by omega)

theorem EvP.factor_atom_stop {ts r : List Tok} {a : Expr} (h : EvP (pAtom · ts) (a, r)) (hr : noPow r = true) :
    EvP (pFactor · ts) (a, r) := by
  obtain ⟨n1, k1⟩ := h
  refine ⟨n1 + 1, fun f hf => ?_⟩
  obtain ⟨g, rfl⟩ : ∃ g, f = g + 1 := ⟨f - 1, by omega⟩
  exact pFactor_atom_stop g ts a r (k1 g (by omega)) hr

theorem EvP.factor_atom_pow {ts r r' : List Tok} {a b : Expr} (h1 : EvP (pAtom · ts) (a, .sym '^' :: r))
    (h2 : EvP (pFactor · r) (b, r')) : EvP (pFactor · ts) (.pow a b, r') := by
  obtain ⟨n1, k1⟩ := h1
  obtain ⟨n2, k2⟩ := h2
  refine ⟨max n1 n2 + 1, fun f hf => ?_⟩
  obtain ⟨g, rfl⟩ : ∃ g, f = g + 1 := ⟨f - 1, by omega⟩
  simp only [pFactor_atom_pow g ts a r (k1 g (by omega)), k2 g (by omega)]

theorem EvP.factor_minus {r r' : List Tok} {a : Expr} (h : EvP (pFactor · r) (a, r')) :
    EvP (pFactor · (.sym '-' :: r)) (.neg a, r') := by
  obtain ⟨n1, k1⟩ := h
  refine ⟨n1 + 1, fun f hf => ?_⟩
  obtain ⟨g, rfl⟩ : ∃ g, f = g + 1 := ⟨f - 1, by omega⟩
  simp only [pFactor_minus, k1 g (by omega)]

theorem EvP.atom_paren {r r' : List Tok} {e : Expr} (h : EvP (pExp · r) (e, .sym ')' :: r')) :
    EvP (pAtom · (.sym '(' :: r)) (e, r') := by
  obtain ⟨n1, k1⟩ := h
  refine ⟨n1 + 1, fun f hf => ?_⟩
  obtain ⟨g, rfl⟩ : ∃ g, f = g + 1 := ⟨f - 1, by omega⟩
  simp only [pAtom_paren, k1 g (by omega)]

theorem EvP.atom_fn {f : Str} (hf : unaryFns.contains f = true) {r r' : List Tok} {e : Expr}
    (h : EvP (pExp · r) (e, .sym ')' :: r')) :
    EvP (pAtom · (.word f :: .sym '(' :: r)) (.fn f e, r') := by
  obtain ⟨n1, k1⟩ := h
  refine ⟨n1 + 1, fun g hg => ?_⟩
  obtain ⟨g, rfl⟩ : ∃ g', g = g' + 1 := ⟨g - 1, by omega⟩
  have hpi : (f == cs!"pi") = false := by
    simp only [unaryFns, List.contains_eq_mem, List.mem_cons, List.not_mem_nil, or_false, decide_eq_true_eq] at hf
    rcases hf with rfl | rfl | rfl | rfl | rfl | rfl <;> decide
  have hm : f ∈ unaryFns := by simpa using hf
  have := k1 g (by omega)
  simp only at this
  simp [pAtom, hpi, hm, this]

theorem EvP.atom_pi (r : List Tok) : EvP (pAtom · (.word cs!"pi" :: r)) (.pi, r) :=
  ⟨1, fun f hf => by
    obtain ⟨g, rfl⟩ : ∃ g, f = g + 1 := ⟨f - 1, by omega⟩
    simp [pAtom]⟩

theorem EvP.atom_id {s : Str} (h : isId s = true) (r : List Tok) : EvP (pAtom · (.word s :: r)) (.id s, r) :=
  ⟨1, fun f hf => by
    obtain ⟨g, rfl⟩ : ∃ g, f = g + 1 := ⟨f - 1, by omega⟩
    have h1 : (s == cs!"pi") = false := by
      cases hh : s == cs!"pi"
      · rfl
      · have : s = cs!"pi" := by simpa using hh
        subst this; exact absurd h (by decide)
    have h2 : s ∉ unaryFns := by
      intro hh
      simp only [unaryFns, List.mem_cons, List.not_mem_nil, or_false] at hh
      rcases hh with rfl | rfl | rfl | rfl | rfl | rfl <;> exact absurd h (by decide)
    simp [pAtom, h1, h2, h]⟩

theorem EvP.atom_num {s : Str} (h : isNumToken s = true) (r : List Tok) :
    EvP (pAtom · (numTok s :: r)) (.lit s, r) :=
  ⟨1, fun f hf => by
    obtain ⟨g, rfl⟩ : ∃ g, f = g + 1 := ⟨f - 1, by omega⟩
    obtain ⟨_, _, _, hk⟩ := numTok_spec h
    show pAtom (g + 1) (numTok s :: r) = _
    rcases hk with hk | ⟨hk, hn⟩ <;> rw [hk] <;> simp [pAtom, *]⟩


/-! ## the parser inverts `toks` -/

theorem noPow_of_noMulPow {r : List Tok} (h : noMulPow r = true) : noPow r = true := by
  unfold noPow
  split
  · simp [noMulPow] at h
  · rfl

theorem Expr.level_pos (e : Expr) : 1 ≤ e.level := by cases e <;> simp [Expr.level]

/-- what the recursive-descent parser does on the tokens of `e` followed by `rest`, at each level at which
`e` is rendered without parentheses.  `exp` / `term` are in continuation form (left-associative chains). -/
structure POk (e : Expr) : Prop where
  exp : ∀ rest r, noMulPow rest = true → EvP (pExpRest · e rest) r → EvP (pExp · (toks e ++ rest)) r
  term : 2 ≤ e.level → ∀ rest r, noPow rest = true → EvP (pTermRest · e rest) r →
    EvP (pTerm · (toks e ++ rest)) r
  factor : 3 ≤ e.level → ∀ rest, noPow rest = true → EvP (pFactor · (toks e ++ rest)) (e, rest)
  atom : 5 ≤ e.level → ∀ rest, EvP (pAtom · (toks e ++ rest)) (e, rest)

theorem POk.of_term {e : Expr} (hl : e.level = 2)
    (ht : ∀ rest r, noPow rest = true → EvP (pTermRest · e rest) r → EvP (pTerm · (toks e ++ rest)) r) :
    POk e where
  exp := fun rest r hr h =>
    EvP.exp (ht rest (e, rest) (noPow_of_noMulPow hr) (EvP.termRest_stop e hr)) h
  term := fun _ => ht
  factor := fun h => by omega
  atom := fun h => by omega

theorem POk.of_factor {e : Expr} (hl : 3 ≤ e.level) (hl' : e.level < 5)
    (hf : ∀ rest, noPow rest = true → EvP (pFactor · (toks e ++ rest)) (e, rest)) : POk e where
  exp := fun rest r hr h =>
    EvP.exp (EvP.term (hf rest (noPow_of_noMulPow hr)) (EvP.termRest_stop e hr)) h
  term := fun _ rest r hr h => EvP.term (hf rest hr) h
  factor := fun _ => hf
  atom := fun h => by omega

theorem POk.of_atom {e : Expr} (ha : ∀ rest, EvP (pAtom · (toks e ++ rest)) (e, rest)) : POk e where
  exp := fun rest _ hr h =>
    EvP.exp (EvP.term (EvP.factor_atom_stop (ha rest) (noPow_of_noMulPow hr)) (EvP.termRest_stop e hr)) h
  term := fun _ rest _ hr h => EvP.term (EvP.factor_atom_stop (ha rest) hr) h
  factor := fun _ rest hr => EvP.factor_atom_stop (ha rest) hr
  atom := fun _ => ha

/-- a parenthesised expression is an atom -/
theorem POk.paren {e : Expr} (he : POk e) (rest : List Tok) :
    EvP (pAtom · (tparen (toks e) ++ rest)) (e, rest) := by
  have := EvP.atom_paren (he.exp (.sym ')' :: rest) (e, .sym ')' :: rest) rfl (EvP.expRest_close e rest))
  simpa [tparen] using this

/-- operand of `^` on the left -/
theorem POk.op5 {e : Expr} (he : POk e) (rest : List Tok) :
    EvP (pAtom · ((if e.level < 5 then tparen (toks e) else toks e) ++ rest)) (e, rest) := by
  by_cases h : e.level < 5
  · simp only [h, if_true]; exact he.paren rest
  · simp only [h, if_false]; exact he.atom (by omega) rest

/-- operand of unary minus, right operand of `* / ^` -/
theorem POk.opF {e : Expr} (he : POk e) (k : Nat) (hk : 3 ≤ k) (rest : List Tok) (hr : noPow rest = true) :
    EvP (pFactor · ((if e.level < k then tparen (toks e) else toks e) ++ rest)) (e, rest) := by
  by_cases h : e.level < k
  · simp only [h, if_true]; exact EvP.factor_atom_stop (he.paren rest) hr
  · simp only [h, if_false]; exact he.factor (by omega) rest hr

/-- right operand of `+ -` -/
theorem POk.opT {e : Expr} (he : POk e) (rest : List Tok) (hr : noMulPow rest = true) :
    EvP (pTerm · ((if e.level < 2 then tparen (toks e) else toks e) ++ rest)) (e, rest) := by
  by_cases h : e.level < 2
  · simp only [h, if_true]
    exact EvP.term (EvP.factor_atom_stop (he.paren rest) (noPow_of_noMulPow hr)) (EvP.termRest_stop e hr)
  · simp only [h, if_false]
    exact he.term (by omega) rest (e, rest) (noPow_of_noMulPow hr) (EvP.termRest_stop e hr)

/-- left operand of `* /` -/
theorem POk.opTc {e : Expr} (he : POk e) (rest : List Tok) (r : Expr × List Tok) (hr : noPow rest = true)
    (h : EvP (pTermRest · e rest) r) :
    EvP (pTerm · ((if e.level < 2 then tparen (toks e) else toks e) ++ rest)) r := by
  by_cases hl : e.level < 2
  · simp only [hl, if_true]
    exact EvP.term (EvP.factor_atom_stop (he.paren rest) hr) h
  · simp only [hl, if_false]
    exact he.term (by omega) rest r hr h

/-- left operand of `+ -` -/
theorem POk.opEc {e : Expr} (he : POk e) (rest : List Tok) (r : Expr × List Tok) (hr : noMulPow rest = true)
    (h : EvP (pExpRest · e rest) r) :
    EvP (pExp · ((if e.level < 1 then tparen (toks e) else toks e) ++ rest)) r := by
  have : ¬ e.level < 1 := by have := e.level_pos; omega
  simp only [this, if_false]
  exact he.exp rest r hr h

theorem pOk (e : Expr) (h : ExprWf e = true) : POk e := by
  induction e with
  | pi => exact POk.of_atom (fun rest => EvP.atom_pi rest)
  | lit s => exact POk.of_atom (fun rest => EvP.atom_num h rest)
  | id s =>
    simp only [ExprWf, isIdent, Bool.and_eq_true] at h
    exact POk.of_atom (fun rest => EvP.atom_id h.2 rest)
  | neg e ih =>
    refine POk.of_factor (by simp [Expr.level]) (by simp [Expr.level]) (fun rest hr => ?_)
    exact EvP.factor_minus ((ih h).opF 3 (by omega) rest hr)
  | add a b iha ihb =>
    simp only [ExprWf, Bool.and_eq_true] at h
    refine ⟨fun rest r hr hh => ?_, fun hl => by simp [Expr.level] at hl, fun hl => by simp [Expr.level] at hl,
      fun hl => by simp [Expr.level] at hl⟩
    simp only [toks, List.append_assoc, List.cons_append]
    exact (iha h.1).opEc _ r rfl (EvP.expRest_add ((ihb h.2).opT rest hr) hh)
  | sub a b iha ihb =>
    simp only [ExprWf, Bool.and_eq_true] at h
    refine ⟨fun rest r hr hh => ?_, fun hl => by simp [Expr.level] at hl, fun hl => by simp [Expr.level] at hl,
      fun hl => by simp [Expr.level] at hl⟩
    simp only [toks, List.append_assoc, List.cons_append]
    exact (iha h.1).opEc _ r rfl (EvP.expRest_sub ((ihb h.2).opT rest hr) hh)
  | mul a b iha ihb =>
    simp only [ExprWf, Bool.and_eq_true] at h
    refine POk.of_term rfl (fun rest r hr hh => ?_)
    simp only [toks, List.append_assoc, List.cons_append]
    exact (iha h.1).opTc _ r rfl (EvP.termRest_mul ((ihb h.2).opF 3 (by omega) rest hr) hh)
  | div a b iha ihb =>
    simp only [ExprWf, Bool.and_eq_true] at h
    refine POk.of_term rfl (fun rest r hr hh => ?_)
    simp only [toks, List.append_assoc, List.cons_append]
    exact (iha h.1).opTc _ r rfl (EvP.termRest_div ((ihb h.2).opF 3 (by omega) rest hr) hh)
  | pow a b iha ihb =>
    simp only [ExprWf, Bool.and_eq_true] at h
    refine POk.of_factor (by simp [Expr.level]) (by simp [Expr.level]) (fun rest hr => ?_)
    simp only [toks, List.append_assoc, List.cons_append]
    exact EvP.factor_atom_pow ((iha h.1).op5 _) ((ihb h.2).opF 4 (by omega) rest hr)
  | fn f e ih =>
    simp only [ExprWf, Bool.and_eq_true] at h
    refine POk.of_atom (fun rest => ?_)
    have := EvP.atom_fn h.1
      ((ih h.2).exp (.sym ')' :: rest) (e, .sym ')' :: rest) rfl (EvP.expRest_close e rest))
    simpa [toks, tparen] using this

/-- **the parser on the tokens of a well-formed expression**: with enough fuel it returns the expression -/
theorem pExp_toks (e : Expr) (h : ExprWf e = true) : ∃ n, ∀ f, n ≤ f → pExp f (toks e) = some (e, []) := by
  have := (pOk e h).exp [] (e, []) rfl (EvP.expRest_nil e)
  simpa [EvP] using this

/-- the same followed by a closing parenthesis or a comma (as in a parameter list) -/
theorem pExp_toks_close (e : Expr) (h : ExprWf e = true) (rest : List Tok) :
    ∃ n, ∀ f, n ≤ f → pExp f (toks e ++ .sym ')' :: rest) = some (e, .sym ')' :: rest) :=
  (pOk e h).exp (.sym ')' :: rest) _ rfl (EvP.expRest_close e rest)

theorem toks_inj {e e' : Expr} (h : ExprWf e = true) (h' : ExprWf e' = true) (ht : toks e = toks e') : e = e' := by
  obtain ⟨n, hn⟩ := pExp_toks e h
  obtain ⟨n', hn'⟩ := pExp_toks e' h'
  have h1 := hn (max n n') (by omega)
  have h2 := hn' (max n n') (by omega)
  rw [ht, h2] at h1
  simpa using h1.symm

/-- **the rendering of well-formed expression trees is injective** -/
theorem render_inj {e e' : Expr} (h : ExprWf e = true) (h' : ExprWf e' = true) (hr : e.render = e'.render) :
    e = e' := by
  have h1 := lexLine_render e h
  have h2 := lexLine_render e' h'
  rw [hr, h2] at h1
  exact toks_inj h h' (by simpa using h1.symm)

end QipVerif.Qasm
