import QipVerif.Lemmas.SimLift
import QipVerif.Lemmas.SimCond
/-!
# Branch semantics: the unnormalised-record view of a run, and the refinement `run ⊑ branch`

`brRun` folds the operation list over a tiny state (bits, state or `None`, probability, remaining
record).  For well-formed circuits and records the state-vector run of the model (`coreRunLoop`)
computes exactly `brRun` — whether the outcomes come from `measure_results` or from the random
stream.
-/
namespace QipVerif.Sim
open QipVerif.Heap

variable {Q P : Type}

/-! ## Well-formed circuits -/

/-- every index in range and every control value non-negative (what `add_gate`/`add_measurement`
users are expected to pass; the malformed stream of the correspondence covers the rest) -/
def Op.Valid (nq ncb : Nat) : Op → Prop
  | .gate g => ∀ cs, g.cc = some cs → (∀ c ∈ cs, 0 ≤ c ∧ c < (ncb : Int)) ∧ 0 ≤ g.ccv
  | .meas t store => t < nq ∧ ∀ s, store = some s → 0 ≤ s ∧ s < (ncb : Int)

def Circuit.Valid (c : Circuit) : Prop := ∀ op ∈ c.ops, op.Valid c.nq c.ncb

/-- the value of `self.cbits`: a list of `ncb` entries, or `None` when the circuit has no classical bits -/
def BitsOk (ncb : Nat) : Option (List Int) → Prop
  | some l => l.length = ncb ∧ 0 < ncb
  | none => ncb = 0

theorem matchLoop_ok (l : List Int) : ∀ (cs : List Int) (conds : List Nat),
    (∀ c ∈ cs, 0 ≤ c ∧ c < (l.length : Int)) → cs.length ≤ conds.length → ∃ b, matchLoop l cs conds = .ok b
  | [], _, _, _ => ⟨true, rfl⟩
  | c :: cs, [], _, h => by simp at h
  | c :: cs, d :: ds, hr, h => by
    obtain ⟨h0, h1⟩ := hr c (List.mem_cons_self ..)
    have hget : ∃ v, pyGet l c = some v := by
      unfold pyGet pyIdx
      have : c.toNat < l.length := by omega
      simp [h0, this]
    obtain ⟨v, hv⟩ := hget
    obtain ⟨b, hb⟩ := matchLoop_ok l cs ds (fun x hx => hr x (List.mem_cons_of_mem _ hx)) (by simpa using h)
    exact ⟨decide (v = (d : Int)) && b, by simp [matchLoop, hv, hb]⟩

theorem d2b_length_ge (v k : Nat) : k ≤ (d2b v k).length := by
  unfold d2b; simp only [List.length_append, List.length_replicate]; omega

theorem fires_ok (g : Gate) (nq ncb : Nat) (bits : Option (List Int)) (hv : (Op.gate g).Valid nq ncb)
    (hb : BitsOk ncb bits) : ∃ b, fires g bits = .ok b := by
  unfold fires
  cases hcc : g.cc with
  | none => exact ⟨true, rfl⟩
  | some cs =>
    obtain ⟨hr, hnn⟩ := hv cs hcc
    simp only
    unfold checkCCV
    obtain ⟨n, hn⟩ : ∃ n : Nat, g.ccv = n := ⟨g.ccv.toNat, by omega⟩
    rw [hn, decimalToBinary_ofNat]
    simp only
    cases bits with
    | none =>
      have h0 : ncb = 0 := hb
      have : cs = [] := by
        cases cs with
        | nil => rfl
        | cons c _ => have := hr c (List.mem_cons_self ..); subst h0; simp at this; omega
      subst this; exact ⟨true, rfl⟩
    | some l =>
      have hl : l.length = ncb := hb.1
      exact matchLoop_ok l cs _ (fun c hc => by rw [hl]; exact hr c hc) (d2b_length_ge n cs.length)

/-! ## The branch semantics -/

structure Br (Q P : Type) where
  bits : Option (List Int)
  st : Option Q
  prob : P
  rest : List Int

/-- does the gate act (errors excluded by `fires_ok`) -/
def firesB (g : Gate) (bits : Option (List Int)) : Bool :=
  match fires g bits with
  | .ok b => b
  | .error _ => false

/-- `cbits[store] = i` -/
def writeBit (bits : Option (List Int)) (store : Option Int) (i : Int) : Option (List Int) :=
  match store, bits with
  | some s, some l => some ((pySet l s i).getD l)
  | _, _ => bits

def brStep [Mul P] (B : Backend Q P) (b : Br Q P) : Op → Br Q P
  | .gate g =>
    match b.st with
    | none => b
    | some q => if firesB g b.bits then { b with st := some (B.gate g.code g.qubits q) } else b
  | .meas t store =>
    match b.st, b.rest with
    | some q, i :: rest =>
      { bits := writeBit b.bits store i, st := (B.meas t q i.toNat).2,
        prob := b.prob * (B.meas t q i.toNat).1, rest := rest }
    | _, _ => b

def brRun [Mul P] (B : Backend Q P) (b : Br Q P) (ops : List Op) : Br Q P := ops.foldl (brStep B) b

theorem brRun_dead [Mul P] (B : Backend Q P) (b : Br Q P) (h : b.st = none) (ops : List Op) : brRun B b ops = b := by
  induction ops with
  | nil => rfl
  | cons op ops ih =>
    unfold brRun at *
    simp only [List.foldl_cons]
    have : brStep B b op = b := by
      cases op <;> simp [brStep, h]
    rw [this, ih]

/-- number of measurements -/
def numMeasOps (ops : List Op) : Nat := (ops.filter Op.isMeas).length

theorem numMeasOps_meas (t : Nat) (s : Option Int) (ops : List Op) :
    numMeasOps (.meas t s :: ops) = numMeasOps ops + 1 := rfl

theorem numMeasOps_gate (g : Gate) (ops : List Op) : numMeasOps (.gate g :: ops) = numMeasOps ops := rfl

/-! ## The source of outcomes -/

/-- the outcomes the run will take are `rest`: the unread part of `measure_results`, or (when that is
falsy) a prefix of the random stream -/
def Src (f : Fields Q P) (rng : List Int) (rest : List Int) : Prop :=
  (mresTruthy f.mres = true ∧ (f.mres.getD []).drop f.mind = rest) ∨
  (mresTruthy f.mres = false ∧ ∃ tail, rng = rest ++ tail)

theorem pickOutcome_src (f : Fields Q P) (rng : List Int) (i : Int) (rest : List Int) (h : Src f rng (i :: rest)) :
    ∃ f' rng', pickOutcome f rng = .ok (i, f', rng') ∧ Src f' rng' rest ∧
      f'.st = f.st ∧ f'.form = f.form ∧ f'.prob = f.prob ∧ f'.opIndex = f.opIndex ∧ f'.mixed = f.mixed := by
  unfold pickOutcome
  rcases h with ⟨ht, hd⟩ | ⟨hf, tail, htail⟩
  · have hget : (f.mres.getD [])[f.mind]? = some i := by
      have := congrArg List.head? hd
      simpa [List.head?_drop] using this
    have hdrop : (f.mres.getD []).drop (f.mind + 1) = rest := by
      have := congrArg List.tail hd
      simpa [List.tail_drop] using this
    refine ⟨{ f with mind := f.mind + 1 }, rng, by simp [ht, hget], Or.inl ⟨ht, hdrop⟩, rfl, rfl, rfl, rfl, rfl⟩
  · refine ⟨f, rest ++ tail, by simp [hf, htail], Or.inr ⟨hf, tail, rfl⟩, rfl, rfl, rfl, rfl, rfl⟩

/-! ## One step of the model = one step of the branch semantics -/

/-- the relation maintained along a run -/
structure Rel (ncb : Nat) (k : Core Q P) (rng : List Int) (b : Br Q P) : Prop where
  bits : k.bits = b.bits
  st : k.f.st = b.st
  prob : k.f.prob = b.prob
  src : Src k.f rng b.rest
  form : k.f.form = .qobj ∨ k.f.form = .tensor
  ok : BitsOk ncb k.bits
  mixed : k.f.mixed = []      -- `_mixed_cbits` is only ever filled in density-matrix mode

theorem refuses_nil (cfg : Cfg) (g : Gate) : refuses cfg g [] = false := by
  unfold refuses
  cases g.cc with
  | none => simp
  | some cs => simp

theorem pyIdx_two (i : Int) (h : i = 0 ∨ i = 1) : pyIdx 2 i = some i.toNat := by
  rcases h with rfl | rfl <;> rfl

theorem pySet_ok (l : List Int) (s i : Int) (h0 : 0 ≤ s) (h1 : s < (l.length : Int)) :
    ∃ l', pySet l s i = some l' ∧ l'.length = l.length := by
  unfold pySet pyIdx
  have : s.toNat < l.length := by omega
  simp [h0, this]

theorem coreStep_gate [Mul P] (B : Backend Q P) (cfg : Cfg) (c : Circuit) (k : Core Q P) (rng : List Int)
    (b : Br Q P) (g : Gate) (q : Q)
    (hop : c.ops[k.f.opIndex]? = some (.gate g)) (hv : (Op.gate g).Valid c.nq c.ncb)
    (hrel : Rel c.ncb k rng b) (hq : k.f.st = some q) :
    ∃ o, coreStep B cfg .sv c k rng = o ∧ o.err = none ∧ o.core.f.opIndex = k.f.opIndex + 1 ∧
      Rel c.ncb o.core o.rng (brStep B b (.gate g)) ∧ o.core.f.st.isSome := by
  obtain ⟨bv, hbv⟩ := fires_ok g c.nq c.ncb k.bits hv hrel.ok
  have hbq : b.st = some q := by rw [← hrel.st, hq]
  have hfb : firesB g b.bits = bv := by unfold firesB; rw [← hrel.bits, hbv]
  refine ⟨_, rfl, ?_⟩
  unfold coreStep
  simp only [hop, hrel.mixed, refuses_nil, Bool.false_eq_true, ↓reduceIte]
  cases bv with
  | false =>
    simp only [hbv]
    refine ⟨by trivial, by trivial, ?_, by simp [hq]⟩
    simp only [brStep, hbq, hfb, Bool.false_eq_true, ↓reduceIte]
    exact ⟨hrel.bits, hrel.st, hrel.prob, hrel.src, hrel.form, hrel.ok, rfl⟩
  | true =>
    simp only [hbv, hq]
    have hform : ∃ fm, einsumForm c.nq g.qubits k.f.form = .ok fm ∧ (fm = .qobj ∨ fm = .tensor) := by
      rcases hrel.form with h | h <;> rw [h] <;> exact ⟨.tensor, rfl, Or.inr rfl⟩
    obtain ⟨fm, hfm, hfm'⟩ := hform
    simp only [hfm]
    refine ⟨by trivial, by trivial, ?_, by trivial⟩
    simp only [brStep, hbq, hfb, ↓reduceIte]
    exact ⟨hrel.bits, rfl, hrel.prob, hrel.src, hfm', hrel.ok, rfl⟩

theorem getter_good (cfg : Cfg) (f : Fields Q P) (h : f.form = .qobj ∨ f.form = .tensor) :
    ∃ f', getter cfg f = (f', none) ∧ f'.st = f.st ∧ f'.prob = f.prob ∧ f'.opIndex = f.opIndex ∧
      f'.mres = f.mres ∧ f'.mind = f.mind ∧ f'.mixed = f.mixed := by
  unfold getter
  cases hst : f.st with
  | none => exact ⟨f, rfl, hst.symm ▸ rfl, rfl, rfl, rfl, rfl, rfl⟩
  | some q =>
    rcases h with h | h
    · simp only [h]; exact ⟨f, rfl, hst.symm ▸ rfl, rfl, rfl, rfl, rfl, rfl⟩
    · simp only [h]
      by_cases hp : cfg.pureGetter
      · simp only [hp, ↓reduceIte]; exact ⟨f, rfl, hst.symm ▸ rfl, rfl, rfl, rfl, rfl, rfl⟩
      · simp only [hp, Bool.false_eq_true, ↓reduceIte]; exact ⟨_, rfl, hst.symm ▸ rfl, rfl, rfl, rfl, rfl, rfl⟩

theorem coreStep_meas [Mul P] (B : Backend Q P) (cfg : Cfg) (c : Circuit) (k : Core Q P) (rng : List Int)
    (b : Br Q P) (t : Nat) (store : Option Int) (q : Q) (i : Int) (rest : List Int)
    (hop : c.ops[k.f.opIndex]? = some (.meas t store)) (hv : (Op.meas t store).Valid c.nq c.ncb)
    (hrel : Rel c.ncb k rng b) (hq : k.f.st = some q) (hrest : b.rest = i :: rest) (hi : i = 0 ∨ i = 1) :
    ∃ o, coreStep B cfg .sv c k rng = o ∧ o.err = none ∧ o.core.f.opIndex = k.f.opIndex + 1 ∧
      Rel c.ncb o.core o.rng (brStep B b (.meas t store)) := by
  obtain ⟨ht, hs⟩ := hv
  have hbq : b.st = some q := by rw [← hrel.st, hq]
  refine ⟨_, rfl, ?_⟩
  unfold coreStep
  simp only [hop]
  unfold measureSv
  simp only
  obtain ⟨f', hg, hg1, hg2, hg3, hg4, hg5, hg6⟩ := getter_good cfg { k.f with opIndex := k.f.opIndex + 1 } hrel.form
  rw [hg]
  simp only
  have hst' : f'.st = some q := by rw [hg1]; exact hq
  simp only [hst']
  have hnt : ¬ t ≥ c.nq := by omega
  simp only [hnt, ↓reduceIte]
  have hsrc : Src f' rng (i :: rest) := by
    rcases hrel.src with ⟨h1, h2⟩ | ⟨h1, h2⟩
    · left; rw [hg4, hg5]; exact ⟨h1, by rw [h2, hrest]⟩
    · right; rw [hg4]; exact ⟨h1, by rw [← hrest]; exact h2⟩
  obtain ⟨f1, rng1, hp, hsrc1, h1st, _h1form, h1prob, h1idx, h1mixed⟩ := pickOutcome_src f' rng i rest hsrc
  have hmix : f1.mixed = [] := by rw [h1mixed, hg6]; exact hrel.mixed
  rw [hp]
  simp only [pyIdx_two i hi]
  have hprob : f1.prob = b.prob := by rw [h1prob, hg2]; exact hrel.prob
  cases store with
  | none =>
    simp only
    refine ⟨by trivial, by simp [h1idx, hg3], ?_⟩
    simp only [brStep, hbq, hrest, writeBit]
    exact ⟨hrel.bits, rfl, by simp [hprob], hsrc1, Or.inl rfl, hrel.ok, hmix⟩
  | some sidx =>
    obtain ⟨hs0, hs1⟩ := hs sidx rfl
    cases hkb : k.bits with
    | none =>
      have : c.ncb = 0 := by have := hrel.ok; rw [hkb] at this; exact this
      omega
    | some l =>
      have hok := hrel.ok
      rw [hkb] at hok
      obtain ⟨l', hl', hlen⟩ := pySet_ok l sidx i hs0 (by rw [hok.1]; exact hs1)
      simp only [hl']
      refine ⟨by trivial, by simp [h1idx, hg3], ?_⟩
      have hbb : b.bits = some l := by rw [← hrel.bits, hkb]
      simp only [brStep, hbq, hrest, writeBit, hbb, hl', Option.getD_some]
      exact ⟨rfl, rfl, by simp [hprob], hsrc1, Or.inl rfl, ⟨by rw [hlen]; exact hok.1, hok.2⟩, hmix⟩

/-! ## The whole run -/

theorem getElem?_of_drop {α : Type} (l : List α) (i : Nat) (a : α) (t : List α) (h : l.drop i = a :: t) :
    l[i]? = some a ∧ l.drop (i + 1) = t := by
  constructor
  · have := congrArg List.head? h
    simpa [List.head?_drop] using this
  · have := congrArg List.tail h
    simpa [List.tail_drop] using this

/-- **Refinement.** On a well-formed circuit, from a live state, with a well-formed record for the
remaining measurements, the model's run loop returns without exception and ends in the state computed by
the branch semantics. -/
theorem coreRunLoop_eq_brRun [Mul P] (B : Backend Q P) (cfg : Cfg) (c : Circuit) (hc : c.Valid) :
    ∀ (ops : List Op) (k : Core Q P) (rng : List Int) (b : Br Q P),
      c.ops.drop k.f.opIndex = ops → Rel c.ncb k rng b → k.f.st.isSome →
      b.rest.length = numMeasOps ops → (∀ i ∈ b.rest, i = 0 ∨ i = 1) →
      (coreRunLoop B cfg .sv c ops.length k rng).err = none ∧
      (coreRunLoop B cfg .sv c ops.length k rng).core.bits = (brRun B b ops).bits ∧
      (coreRunLoop B cfg .sv c ops.length k rng).core.f.st = (brRun B b ops).st ∧
      (coreRunLoop B cfg .sv c ops.length k rng).core.f.prob = (brRun B b ops).prob ∧
      ((coreRunLoop B cfg .sv c ops.length k rng).core.f.form = .qobj ∨
        (coreRunLoop B cfg .sv c ops.length k rng).core.f.form = .tensor) ∧
      BitsOk c.ncb (coreRunLoop B cfg .sv c ops.length k rng).core.bits := by
  intro ops
  induction ops with
  | nil =>
    intro k rng b _ hrel _ _ _
    exact ⟨rfl, hrel.bits, hrel.st, hrel.prob, hrel.form, hrel.ok⟩
  | cons op ops ih =>
    intro k rng b hdrop hrel hlive hlen hbin
    obtain ⟨hget, hdrop'⟩ := getElem?_of_drop c.ops k.f.opIndex op ops hdrop
    have hvalid : op.Valid c.nq c.ncb := hc op (List.mem_of_getElem? hget)
    obtain ⟨q, hq⟩ := Option.isSome_iff_exists.mp hlive
    -- one step
    have hstep : ∃ o, coreStep B cfg .sv c k rng = o ∧ o.err = none ∧ o.core.f.opIndex = k.f.opIndex + 1 ∧
        Rel c.ncb o.core o.rng (brStep B b op) ∧
        (brStep B b op).rest.length = numMeasOps ops ∧ (∀ i ∈ (brStep B b op).rest, i = 0 ∨ i = 1) := by
      cases op with
      | gate g =>
        obtain ⟨o, ho, he, hi, hr, _⟩ := coreStep_gate B cfg c k rng b g q hget hvalid hrel hq
        refine ⟨o, ho, he, hi, hr, ?_, ?_⟩
        · have : (brStep B b (.gate g)).rest = b.rest := by
            unfold brStep; cases b.st <;> simp <;> split <;> rfl
          rw [this, hlen, numMeasOps_gate]
        · have : (brStep B b (.gate g)).rest = b.rest := by
            unfold brStep; cases b.st <;> simp <;> split <;> rfl
          rw [this]; exact hbin
      | meas t store =>
        have hlen' : b.rest.length = numMeasOps ops + 1 := by
          rw [hlen, numMeasOps_meas]
        obtain ⟨i, rest, hrest⟩ : ∃ i rest, b.rest = i :: rest := by
          cases hb : b.rest with
          | nil => rw [hb] at hlen'; simp at hlen'
          | cons i rest => exact ⟨i, rest, rfl⟩
        have hi : i = 0 ∨ i = 1 := hbin i (by rw [hrest]; exact List.mem_cons_self ..)
        obtain ⟨o, ho, he, hidx, hr⟩ := coreStep_meas B cfg c k rng b t store q i rest hget hvalid hrel hq hrest hi
        have hbq : b.st = some q := by rw [← hrel.st, hq]
        have hrest' : (brStep B b (.meas t store)).rest = rest := by simp [brStep, hbq, hrest]
        refine ⟨o, ho, he, hidx, hr, ?_, ?_⟩
        · rw [hrest']; rw [hrest] at hlen'; simpa using hlen'
        · rw [hrest']; intro j hj; exact hbin j (by rw [hrest]; exact List.mem_cons_of_mem _ hj)
    obtain ⟨o, ho, he, hidx, hr, hlen2, hbin2⟩ := hstep
    simp only [List.length_cons]
    unfold coreRunLoop
    simp only [ho, he]
    have hbr : brRun B b (op :: ops) = brRun B (brStep B b op) ops := by simp [brRun]
    by_cases hdead : o.core.f.st.isNone
    · simp only [hdead, ↓reduceIte]
      have hbdead : (brStep B b op).st = none := by
        rw [← hr.st]; exact Option.isNone_iff_eq_none.mp hdead
      rw [hbr, brRun_dead B _ hbdead]
      exact ⟨he, hr.bits, hr.st, hr.prob, hr.form, hr.ok⟩
    · simp only [hdead, Bool.false_eq_true, ↓reduceIte]
      have hlive2 : o.core.f.st.isSome := by
        cases h : o.core.f.st <;> simp_all
      have := ih o.core o.rng (brStep B b op) (by rw [hidx]; exact hdrop') hr hlive2 hlen2 hbin2
      rw [hbr]
      exact this

end QipVerif.Sim
