import QipVerif.Lemmas.EmbedFlatIdx
import Mathlib.Data.List.Induction
/-!
# Iterated Kronecker product with identities on flat indices (C08, flat-index model)

`tensorIds_undigits`: the stored entry of `kron(…kron(P, 1_{r₁})…, 1_{rₘ})` at the flat indices with digit
lists `a ++ r` and `b ++ s` is `P` at `(a, b)` if `r = s`, else 0.
-/
namespace QipVerif.EmbedFlat
open QipVerif.Embed

theorem undigits_snoc (ds vs : List Nat) (d v : Nat) (hl : vs.length = ds.length) :
    undigits (ds ++ [d]) (vs ++ [v]) = undigits ds vs * d + v := by
  induction ds generalizing vs with
  | nil =>
    have : vs = [] := List.length_eq_zero_iff.mp (by simpa using hl)
    subst this; simp [undigits, prodL]
  | cons e es ih =>
    match vs, hl with
    | a :: as, hl =>
      have hl' : as.length = es.length := by simpa using hl
      simp only [List.cons_append, undigits, ih as hl', prodL_append, prodL, Nat.mul_one]
      rw [Nat.add_mul, Nat.mul_assoc, Nat.add_assoc]

theorem tensorIds_snoc (P : Nat → Nat → Entry) (rs : List Nat) (r : Nat) :
    tensorIds P (rs ++ [r]) = kronId (tensorIds P rs) r := by
  induction rs generalizing P with
  | nil => rfl
  | cons q qs ih => simp only [List.cons_append, tensorIds, ih]

/-- valid digit list for a radix list -/
def ValidDigits (ds vs : List Nat) : Prop :=
  vs.length = ds.length ∧ ∀ i (h1 : i < vs.length) (h2 : i < ds.length), vs[i] < ds[i]

theorem tensorIds_undigits (P : Nat → Nat → Entry) (od a b : List Nat)
    (hla : a.length = od.length) (hlb : b.length = od.length) (rest r s : List Nat)
    (hr : ValidDigits rest r) (hs : ValidDigits rest s) :
    tensorIds P rest (undigits (od ++ rest) (a ++ r)) (undigits (od ++ rest) (b ++ s)) =
      if r = s then P (undigits od a) (undigits od b) else none := by
  induction rest using List.reverseRecOn generalizing r s with
  | nil =>
    have h1 : r = [] := List.length_eq_zero_iff.mp (by simpa using hr.1)
    have h2 : s = [] := List.length_eq_zero_iff.mp (by simpa using hs.1)
    subst h1 h2; simp [tensorIds]
  | append_singleton rs d ih =>
    -- split the last digits off
    obtain ⟨hrl, hrv⟩ := hr
    obtain ⟨hsl, hsv⟩ := hs
    have hr0 : r ≠ [] := by intro h; simp [h] at hrl
    have hs0 : s ≠ [] := by intro h; simp [h] at hsl
    obtain ⟨r', u, rfl⟩ : ∃ r' u, r = r' ++ [u] := ⟨r.dropLast, r.getLast hr0, (List.dropLast_append_getLast hr0).symm⟩
    obtain ⟨s', w, rfl⟩ : ∃ s' w, s = s' ++ [w] := ⟨s.dropLast, s.getLast hs0, (List.dropLast_append_getLast hs0).symm⟩
    have hrl' : r'.length = rs.length := by simpa using hrl
    have hsl' : s'.length = rs.length := by simpa using hsl
    have hu : u < d := by
      have := hrv r'.length (by simp) (by simp [hrl'])
      simpa [hrl'] using this
    have hw : w < d := by
      have := hsv s'.length (by simp) (by simp [hsl'])
      simpa [hsl'] using this
    have hr' : ValidDigits rs r' := ⟨hrl', fun i h1 h2 => by
      have := hrv i (by simp; omega) (by simp; omega)
      simpa [List.getElem_append_left h1, List.getElem_append_left h2] using this⟩
    have hs' : ValidDigits rs s' := ⟨hsl', fun i h1 h2 => by
      have := hsv i (by simp; omega) (by simp; omega)
      simpa [List.getElem_append_left h1, List.getElem_append_left h2] using this⟩
    rw [tensorIds_snoc, ← List.append_assoc, ← List.append_assoc, ← List.append_assoc,
      undigits_snoc _ _ _ _ (by simp [hla, hrl']), undigits_snoc _ _ _ _ (by simp [hlb, hsl'])]
    have hd : 0 < d := by omega
    simp only [kronId, Nat.mul_add_mod_self_right, Nat.mod_eq_of_lt hu, Nat.mod_eq_of_lt hw]
    have e1 : ∀ m v, v < d → (m * d + v) / d = m := fun m v hv => by
      rw [Nat.add_comm, Nat.add_mul_div_right _ _ hd, Nat.div_eq_of_lt hv]; omega
    rw [e1 _ _ hu, e1 _ _ hw, ih r' s' hr' hs']
    by_cases huw : u = w
    · subst huw
      by_cases hrs : r' = s'
      · simp [hrs]
      · simp [hrs]
    · have : r' ++ [u] ≠ s' ++ [w] := by
        intro h
        have := List.append_inj' h rfl
        exact huw (by simpa using this.2)
      simp [huw, this]

end QipVerif.EmbedFlat
