import QipVerif.Lemmas.QasmLex
/-!
# Rendered parameter expressions are lexed into their tokens (C04, cache keys)

`ExprWf` — the class of expression trees: literals that are one numeric token of the standard,
identifiers that are identifiers, `pi`, unary minus, `+ - * / ^`, calls of the six unary functions.
`toks e` — the token list of `e.render` (same minimal parentheses), and
`lexLine_render : ExprWf e → lexLine e.render = some (toks e)`.

Also: a numeric token consists of the characters `0-9 . e E + -` only (`numToken_chars`), hence a
rendered well-formed expression contains no blank and no comma (`render_chars`).
-/
namespace QipVerif.Qasm

/-! ## the class -/

/-- `[A-Za-z][A-Za-z0-9_]*`, first letter lower case, not a keyword -/
def isIdent (s : Str) : Bool := isWordStr s && isId s

/-- **well-formed parameter expression**: every literal is ONE `real` / `nninteger` token of the standard,
every identifier is an `id` of the standard (not a keyword), every function is one of `sin cos tan exp ln sqrt`;
`pi`, unary minus and the five binary operators are unrestricted (any nesting) -/
def ExprWf : Expr → Bool
  | .pi => true
  | .lit s => isNumToken s
  | .id s => isIdent s
  | .neg e => ExprWf e
  | .add a b | .sub a b | .mul a b | .div a b | .pow a b => ExprWf a && ExprWf b
  | .fn f e => unaryFns.contains f && ExprWf e

/-! ## tokens of a rendered expression -/

/-- the token a numeric text lexes to -/
def numTok (s : Str) : Tok :=
  match lexRun .idle s with
  | some (_, st) =>
    match st.flush with
    | some [t] => t
    | _ => .real s
  | none => .real s

theorem numTok_spec {s : Str} (h : isNumToken s = true) :
    ∃ st, Lex .idle s [] st ∧ st.flush = some [numTok s] ∧
      (numTok s = .real s ∨ (numTok s = .nat s ∧ isNNInt s = true)) := by
  obtain ⟨st, hl, hf⟩ := numToken_state h
  refine ⟨st, hl, ?_, ?_⟩
  · unfold numTok
    rw [show lexRun .idle s = some ([], st) from hl]
    rcases hf with hf | ⟨hf, _⟩ <;> simp [hf]
  · unfold numTok
    rw [show lexRun .idle s = some ([], st) from hl]
    rcases hf with hf | ⟨hf, hn⟩
    · left; simp [hf]
    · right; simp [hf, hn]

def tparen (ts : List Tok) : List Tok := .sym '(' :: ts ++ [.sym ')']

/-- tokens of `e.render` (the parentheses of `Expr.render`) -/
def toks : Expr → List Tok
  | .pi => [.word cs!"pi"]
  | .lit s => [numTok s]
  | .id s => [.word s]
  | .neg e => .sym '-' :: (if e.level < 3 then tparen (toks e) else toks e)
  | .add a b => (if a.level < 1 then tparen (toks a) else toks a) ++ .sym '+' ::
                (if b.level < 2 then tparen (toks b) else toks b)
  | .sub a b => (if a.level < 1 then tparen (toks a) else toks a) ++ .sym '-' ::
                (if b.level < 2 then tparen (toks b) else toks b)
  | .mul a b => (if a.level < 2 then tparen (toks a) else toks a) ++ .sym '*' ::
                (if b.level < 3 then tparen (toks b) else toks b)
  | .div a b => (if a.level < 2 then tparen (toks a) else toks a) ++ .sym '/' ::
                (if b.level < 3 then tparen (toks b) else toks b)
  | .pow a b => (if a.level < 5 then tparen (toks a) else toks a) ++ .sym '^' ::
                (if b.level < 4 then tparen (toks b) else toks b)
  | .fn f e => .word f :: tparen (toks e)

/-! ## lexer: operator characters close every pending operand -/

/-- the operator and bracket characters of expressions -/
def isOpChar (c : Char) : Bool :=
  c == '+' || c == '-' || c == '*' || c == '/' || c == '^' || c == '(' || c == ')'

theorem isOpChar_cases {c : Char} (h : isOpChar c = true) :
    c = '+' ∨ c = '-' ∨ c = '*' ∨ c = '/' ∨ c = '^' ∨ c = '(' ∨ c = ')' := by
  simpa [isOpChar, or_assoc] using h

/-- states reached at the end of an operand: nothing pending, or a word / number that any operator
character completes -/
def LexSt.closed : LexSt → Bool
  | .idle | .word _ | .int _ | .frac _ | .expD _ => true
  | _ => false

theorem lexStep_closed (st : LexSt) (c : Char) (hst : st.closed = true) (hc : isOpChar c = true) :
    lexStep st c = lexDelim st.flush c := by
  rcases isOpChar_cases hc with rfl | rfl | rfl | rfl | rfl | rfl | rfl <;>
    cases st <;> simp [LexSt.closed] at hst <;>
    simp [lexStep, LexSt.flush, isIdChar, isAlpha, isLower, isUpper, isDigit]

/-- `lexDelim` with pending tokens just prepends them -/
theorem lexDelim_prefix (p : List Tok) (c : Char) :
    lexDelim (some p) c = (lexDelim (some []) c).map (fun r => (p ++ r.1, r.2)) := by
  simp only [lexDelim]
  repeat' split
  all_goals simp

/-- reading a text from a state whose pending tokens its first character completes -/
theorem lex_from {c : Char} {cs : Str} {o p : List Tok} {st st0 : LexSt} (h : Lex .idle (c :: cs) o st)
    (hstep : lexStep st0 c = lexDelim (some p) c) :
    Lex st0 (c :: cs) (p ++ o) st := by
  simp only [Lex, lexRun] at h ⊢
  have e2 : lexStep .idle c = lexDelim (some []) c := by simp [lexStep]
  rw [hstep, lexDelim_prefix p]
  rw [e2] at h
  cases hd : lexDelim (some []) c with
  | none => simp [hd] at h
  | some r =>
    obtain ⟨o1, s1⟩ := r
    simp only [hd, Option.map_some] at h ⊢
    cases hr : lexRun s1 cs with
    | none => simp [hr] at h
    | some r2 =>
      obtain ⟨o2, s2⟩ := r2
      simp only [hr, Option.map_some, Option.some.injEq, Prod.mk.injEq] at h ⊢
      obtain ⟨rfl, rfl⟩ := h
      simp

/-- `LexC s ts`: the text `s` is lexed, from between tokens, into the tokens `ts`, the last of which
may still be pending in a state that every operator character closes -/
def LexC (s : Str) (ts : List Tok) : Prop :=
  ∃ o st p, Lex .idle s o st ∧ st.closed = true ∧ st.flush = some p ∧ o ++ p = ts

/-- first character of an operand: not `/` (no comment after a division sign), not `>` (no arrow after a minus) -/
def Head (s : Str) : Prop := ∃ c cs, s = c :: cs ∧ c ≠ '/' ∧ c ≠ '>'

theorem LexC.lexLine {s : Str} {ts : List Tok} (h : LexC s ts) : lexLine s = some ts := by
  obtain ⟨o, st, p, hl, _, hf, rfl⟩ := h
  exact lexGo_of_Lex hl hf

/-- two texts, the second starting with an operator character -/
theorem LexC.glue {a b : Str} {ta tb : List Tok} (ha : LexC a ta) (hb : LexC b tb)
    (hhead : ∃ c cs, b = c :: cs ∧ isOpChar c = true) : LexC (a ++ b) (ta ++ tb) := by
  obtain ⟨oa, sa, pa, hla, hca, hfa, rfl⟩ := ha
  obtain ⟨ob, sb, pb, hlb, hcb, hfb, rfl⟩ := hb
  obtain ⟨c, cs, rfl, hc⟩ := hhead
  have h1 := lex_from hlb (by rw [lexStep_closed sa c hca hc, hfa])
  exact ⟨oa ++ (pa ++ ob), sb, pb, Lex.append hla h1, hcb, hfb, by simp [List.append_assoc]⟩

/-- an operator sign or an opening parenthesis before an operand -/
theorem LexC.opcons {b : Str} {tb : List Tok} (hb : LexC b tb) (hh : Head b) (op : Char)
    (hop : op = '+' ∨ op = '-' ∨ op = '*' ∨ op = '/' ∨ op = '^' ∨ op = '(') :
    LexC (op :: b) (.sym op :: tb) := by
  obtain ⟨ob, sb, pb, hlb, hcb, hfb, rfl⟩ := hb
  obtain ⟨c, cs, rfl, hc1, hc2⟩ := hh
  have hc1' : (c == '/') = false := by simpa using hc1
  have hc2' : (c == '>') = false := by simpa using hc2
  rcases hop with rfl | rfl | rfl | rfl | rfl | rfl
  · exact ⟨[.sym '+'] ++ ob, sb, pb, Lex.cons (st1 := .idle) (by decide) hlb, hcb, hfb, by simp⟩
  · have h1 := lex_from (st0 := .minus) (p := [.sym '-']) hlb (by simp [lexStep, hc2', LexSt.flush])
    exact ⟨[] ++ ([.sym '-'] ++ ob), sb, pb, Lex.cons (st1 := .minus) (by decide) h1, hcb, hfb, by simp⟩
  · exact ⟨[.sym '*'] ++ ob, sb, pb, Lex.cons (st1 := .idle) (by decide) hlb, hcb, hfb, by simp⟩
  · have h1 := lex_from (st0 := .slash) (p := [.sym '/']) hlb (by simp [lexStep, hc1', LexSt.flush])
    exact ⟨[] ++ ([.sym '/'] ++ ob), sb, pb, Lex.cons (st1 := .slash) (by decide) h1, hcb, hfb, by simp⟩
  · exact ⟨[.sym '^'] ++ ob, sb, pb, Lex.cons (st1 := .idle) (by decide) hlb, hcb, hfb, by simp⟩
  · exact ⟨[.sym '('] ++ ob, sb, pb, Lex.cons (st1 := .idle) (by decide) hlb, hcb, hfb, by simp⟩

/-- the closing parenthesis -/
theorem LexC.close {a : Str} {ta : List Tok} (ha : LexC a ta) : LexC (a ++ [')']) (ta ++ [.sym ')']) := by
  obtain ⟨oa, sa, pa, hla, hca, hfa, rfl⟩ := ha
  have h1 : Lex sa [')'] ((pa ++ [.sym ')']) ++ []) .idle :=
    Lex.cons (by rw [lexStep_closed sa ')' hca (by decide), hfa]; simp [lexDelim, isSpace, isSymChar]) (Lex.nil _)
  exact ⟨oa ++ ((pa ++ [.sym ')']) ++ []), .idle, [], Lex.append hla h1, rfl, rfl, by simp⟩

theorem LexC.paren {a : Str} {ta : List Tok} (ha : LexC a ta) (hh : Head a) : LexC (paren a) (tparen ta) := by
  have := (ha.opcons hh '(' (by simp)).close
  simpa [Qasm.paren, tparen] using this

theorem Head.paren (a : Str) : Head (paren a) := ⟨'(', a ++ [')'], rfl, by decide, by decide⟩

theorem Head.append {a : Str} (h : Head a) (b : Str) : Head (a ++ b) := by
  obtain ⟨c, cs, rfl, h1, h2⟩ := h
  exact ⟨c, cs ++ b, rfl, h1, h2⟩

theorem LexC.word {w : Str} (h : isWordStr w = true) : LexC w [.word w] :=
  ⟨[], .word w.reverse, [.word w], lex_word w h, rfl, by simp [LexSt.flush], rfl⟩

theorem Head.word {w : Str} (h : isWordStr w = true) : Head w := by
  match w, h with
  | c :: cs, h =>
    simp only [isWordStr, Bool.and_eq_true] at h
    refine ⟨c, cs, rfl, ?_, ?_⟩ <;> (rintro rfl; exact absurd h.1 (by decide))

theorem LexC.binop {a b : Str} {ta tb : List Tok} (ha : LexC a ta) (hb : LexC b tb) (hh : Head b) (op : Char)
    (hop : op = '+' ∨ op = '-' ∨ op = '*' ∨ op = '/' ∨ op = '^') :
    LexC (a ++ op :: b) (ta ++ .sym op :: tb) := by
  refine ha.glue (hb.opcons hh op (by rcases hop with h | h | h | h | h <;> simp [h])) ⟨op, b, rfl, ?_⟩
  rcases hop with rfl | rfl | rfl | rfl | rfl <;> decide


/-! ## the characters of a numeric token -/

def numChar (c : Char) : Bool := isDigit c || c == '.' || c == 'e' || c == 'E' || c == '+' || c == '-'

/-- text of the number being accumulated -/
def LexSt.numTxt : LexSt → Option Str
  | .int a => some a.reverse
  | .dot => some ['.']
  | .frac a => some a.reverse
  | .expE m e => some (m.reverse ++ [e])
  | .expS m e s => some (m.reverse ++ [e, s])
  | .expD a => some a.reverse
  | _ => none

/-- states with a pending token that is not a number -/
def LexSt.other : LexSt → Bool
  | .word _ | .str _ | .minus | .eq | .slash | .comment => true
  | _ => false

theorem lexDelim_out {p o : List Tok} {c : Char} {st1 : LexSt} (h : lexDelim (some p) c = some (o, st1)) :
    ∃ q, o = p ++ q := by
  rw [lexDelim_prefix] at h
  cases hd : lexDelim (some []) c with
  | none => simp [hd] at h
  | some r =>
    simp only [hd, Option.map_some, Option.some.injEq, Prod.mk.injEq] at h
    exact ⟨_, h.1.symm⟩

theorem lexDelim_nil {t : Tok} {p : List Tok} {c : Char} {st1 : LexSt} :
    lexDelim (some (t :: p)) c ≠ some ([], st1) := by
  intro h
  obtain ⟨q, hq⟩ := lexDelim_out h
  simp at hq

theorem numStep {st st1 : LexSt} {t : Str} {c : Char} (ht : st.numTxt = some t)
    (h : lexStep st c = some ([], st1)) : st1.numTxt = some (t ++ [c]) ∧ numChar c = true := by
  cases st <;> simp only [LexSt.numTxt, Option.some.injEq, reduceCtorEq] at ht <;> subst ht <;>
    simp only [lexStep, LexSt.flush] at h
  all_goals
    repeat' split at h
  all_goals
    first
    | exact absurd h lexDelim_nil
    | (simp only [Option.some.injEq, Prod.mk.injEq, reduceCtorEq, false_and, List.cons_ne_nil] at h; done)
    | (simp only [Option.some.injEq, Prod.mk.injEq, true_and] at h
       subst h
       simp_all [LexSt.numTxt, numChar]
       try grind)


theorem otherStep {st st1 : LexSt} {c : Char} (ht : st.other = true)
    (h : lexStep st c = some ([], st1)) : st1.other = true := by
  cases st <;> simp only [LexSt.other, reduceCtorEq] at ht <;>
    simp only [lexStep, LexSt.flush] at h
  all_goals
    repeat' split at h
  all_goals
    first
    | exact absurd h lexDelim_nil
    | (simp only [Option.some.injEq, Prod.mk.injEq, reduceCtorEq, false_and, List.cons_ne_nil] at h; done)
    | (simp only [Option.some.injEq, Prod.mk.injEq, true_and] at h
       subst h
       rfl)
    | (simp [lexDelim] at h; done)

theorem Lex.cons_inv {st st' : LexSt} {c : Char} {cs : Str} {o : List Tok} (h : Lex st (c :: cs) o st') :
    ∃ o1 st1 o2, lexStep st c = some (o1, st1) ∧ Lex st1 cs o2 st' ∧ o = o1 ++ o2 := by
  simp only [Lex, lexRun] at h
  cases hs : lexStep st c with
  | none => simp [hs] at h
  | some r =>
    obtain ⟨o1, s1⟩ := r
    simp only [hs] at h
    cases hr : lexRun s1 cs with
    | none => simp [hr] at h
    | some r2 =>
      obtain ⟨o2, s2⟩ := r2
      simp only [hr, Option.map_some, Option.some.injEq, Prod.mk.injEq] at h
      obtain ⟨rfl, rfl⟩ := h
      exact ⟨o1, s1, o2, rfl, hr, rfl⟩

theorem Lex.cons_inv_nil {st st' : LexSt} {c : Char} {cs : Str} (h : Lex st (c :: cs) [] st') :
    ∃ st1, lexStep st c = some ([], st1) ∧ Lex st1 cs [] st' := by
  obtain ⟨o1, st1, o2, h1, h2, h3⟩ := h.cons_inv
  have : o1 = [] ∧ o2 = [] := by simpa using h3.symm
  obtain ⟨rfl, rfl⟩ := this
  exact ⟨st1, h1, h2⟩

theorem lex_other {st st' : LexSt} {s : Str} (h : Lex st s [] st') (ht : st.other = true) : st'.other = true := by
  induction s generalizing st with
  | nil =>
    simp only [Lex, lexRun, Option.some.injEq, Prod.mk.injEq, true_and] at h
    subst h; exact ht
  | cons c cs ih =>
    obtain ⟨st1, h1, h2⟩ := h.cons_inv_nil
    exact ih h2 (otherStep ht h1)

theorem lex_numTxt {st st' : LexSt} {s t : Str} (h : Lex st s [] st') (ht : st.numTxt = some t) :
    st'.numTxt = some (t ++ s) ∧ s.all numChar = true := by
  induction s generalizing st t with
  | nil =>
    simp only [Lex, lexRun, Option.some.injEq, Prod.mk.injEq, true_and] at h
    subst h; simpa using ht
  | cons c cs ih =>
    obtain ⟨st1, h1, h2⟩ := h.cons_inv_nil
    obtain ⟨k1, k2⟩ := numStep ht h1
    obtain ⟨k3, k4⟩ := ih h2 k1
    exact ⟨by simpa using k3, by simp [k2, k4]⟩

theorem flush_numTxt {st : LexSt} {t : Str} (h : st.flush = some [.real t] ∨ st.flush = some [.nat t]) :
    st.numTxt = some t := by
  cases st <;> simp [LexSt.flush] at h <;> simp [LexSt.numTxt, h]

theorem other_numTxt {st : LexSt} (h : st.other = true) : st.numTxt = none := by
  cases st <;> simp [LexSt.other] at h <;> rfl

/-- first step between tokens without output -/
theorem idleStep {c : Char} {st1 : LexSt} (h : lexStep .idle c = some ([], st1)) :
    st1 = .idle ∨ st1.other = true ∨ (st1.numTxt = some [c] ∧ numChar c = true) := by
  simp only [lexStep, lexDelim] at h
  repeat' split at h
  all_goals
    first
    | (simp only [Option.some.injEq, Prod.mk.injEq, reduceCtorEq, false_and, List.cons_ne_nil, List.nil_append] at h; done)
    | (simp only [Option.some.injEq, Prod.mk.injEq, true_and] at h
       subst h
       simp_all [LexSt.numTxt, LexSt.other, numChar])

/-- a number token read between tokens: blanks, then exactly its text -/
theorem lex_idle_num {s t : Str} {st' : LexSt} (h : Lex .idle s [] st')
    (hf : st'.flush = some [.real t] ∨ st'.flush = some [.nat t]) :
    t.length ≤ s.length ∧ (t.length = s.length → s.all numChar = true) := by
  induction s with
  | nil =>
    simp only [Lex, lexRun, Option.some.injEq, Prod.mk.injEq, true_and] at h
    subst h; simp [LexSt.flush] at hf
  | cons c cs ih =>
    obtain ⟨st1, h1, h2⟩ := h.cons_inv_nil
    rcases idleStep h1 with rfl | ho | ⟨hn, hc⟩
    · have := ih h2
      simp only [List.length_cons]
      exact ⟨by omega, by omega⟩
    · have := other_numTxt (lex_other h2 ho)
      rw [flush_numTxt hf] at this; cases this
    · obtain ⟨k1, k2⟩ := lex_numTxt h2 hn
      rw [flush_numTxt hf] at k1
      simp only [Option.some.injEq] at k1
      subst k1
      simp [hc, k2]

theorem numToken_chars {s : Str} (h : isNumToken s = true) : s.all numChar = true := by
  obtain ⟨st, hl, hf⟩ := numToken_state h
  refine (lex_idle_num (t := s) hl ?_).2 rfl
  rcases hf with hf | ⟨hf, _⟩
  · exact Or.inl hf
  · exact Or.inr hf

theorem LexC.num {s : Str} (h : isNumToken s = true) : LexC s [numTok s] := by
  obtain ⟨st, hl, hf, _⟩ := numTok_spec h
  refine ⟨[], st, [numTok s], hl, ?_, hf, rfl⟩
  have := flush_numTxt (st := st) (t := s) (by
    obtain ⟨st2, hl2, hf2⟩ := numToken_state h
    have : st2 = st := by
      have := hl.symm.trans hl2
      simpa using this.symm
    subst this
    rcases hf2 with hf2 | ⟨hf2, _⟩
    · exact Or.inl hf2
    · exact Or.inr hf2)
  cases st <;> simp [LexSt.flush] at hf <;> simp [LexSt.numTxt] at this <;> rfl

theorem Head.num {s : Str} (h : isNumToken s = true) : Head s := by
  have hc := numToken_chars h
  match s, h, hc with
  | [], h, _ => simp [isNumToken, lexRun, LexSt.flush] at h
  | c :: cs, _, hc =>
    simp only [List.all_cons, Bool.and_eq_true] at hc
    refine ⟨c, cs, rfl, ?_, ?_⟩ <;> (rintro rfl; exact absurd hc.1 (by decide))


/-! ## the rendered expression -/

theorem LexC.wrap {s : Str} {ts : List Tok} (p : Prop) [Decidable p] (h : LexC s ts) (hh : Head s) :
    LexC (if p then Qasm.paren s else s) (if p then tparen ts else ts) ∧
      Head (if p then Qasm.paren s else s) := by
  by_cases hp : p
  · simp only [hp, if_true]; exact ⟨h.paren hh, Head.paren s⟩
  · simp only [hp, if_false]; exact ⟨h, hh⟩

theorem unaryFns_word {f : Str} (h : unaryFns.contains f = true) : isWordStr f = true := by
  simp only [unaryFns, List.contains_eq_mem, List.mem_cons, List.not_mem_nil, or_false, decide_eq_true_eq] at h
  rcases h with rfl | rfl | rfl | rfl | rfl | rfl <;> decide

/-- **the lexer on a rendered well-formed expression** (with the state left pending) -/
theorem lexC_render (e : Expr) (h : ExprWf e = true) : LexC e.render (toks e) ∧ Head e.render := by
  induction e with
  | pi => exact ⟨LexC.word (w := cs!"pi") (by decide), Head.word (w := cs!"pi") (by decide)⟩
  | lit s => exact ⟨LexC.num h, Head.num h⟩
  | id s =>
    simp only [ExprWf, isIdent, Bool.and_eq_true] at h
    exact ⟨LexC.word h.1, Head.word h.1⟩
  | neg e ih =>
    obtain ⟨h1, h2⟩ := ih h
    obtain ⟨k1, k2⟩ := h1.wrap (e.level < 3) h2
    exact ⟨k1.opcons k2 '-' (by simp), '-', _, rfl, by decide, by decide⟩
  | add a b iha ihb =>
    simp only [ExprWf, Bool.and_eq_true] at h
    obtain ⟨a1, a2⟩ := iha h.1
    obtain ⟨b1, b2⟩ := ihb h.2
    obtain ⟨ka, ka'⟩ := a1.wrap (a.level < 1) a2
    obtain ⟨kb, kb'⟩ := b1.wrap (b.level < 2) b2
    exact ⟨ka.binop kb kb' '+' (by simp), ka'.append _⟩
  | sub a b iha ihb =>
    simp only [ExprWf, Bool.and_eq_true] at h
    obtain ⟨a1, a2⟩ := iha h.1
    obtain ⟨b1, b2⟩ := ihb h.2
    obtain ⟨ka, ka'⟩ := a1.wrap (a.level < 1) a2
    obtain ⟨kb, kb'⟩ := b1.wrap (b.level < 2) b2
    exact ⟨ka.binop kb kb' '-' (by simp), ka'.append _⟩
  | mul a b iha ihb =>
    simp only [ExprWf, Bool.and_eq_true] at h
    obtain ⟨a1, a2⟩ := iha h.1
    obtain ⟨b1, b2⟩ := ihb h.2
    obtain ⟨ka, ka'⟩ := a1.wrap (a.level < 2) a2
    obtain ⟨kb, kb'⟩ := b1.wrap (b.level < 3) b2
    exact ⟨ka.binop kb kb' '*' (by simp), ka'.append _⟩
  | div a b iha ihb =>
    simp only [ExprWf, Bool.and_eq_true] at h
    obtain ⟨a1, a2⟩ := iha h.1
    obtain ⟨b1, b2⟩ := ihb h.2
    obtain ⟨ka, ka'⟩ := a1.wrap (a.level < 2) a2
    obtain ⟨kb, kb'⟩ := b1.wrap (b.level < 3) b2
    exact ⟨ka.binop kb kb' '/' (by simp), ka'.append _⟩
  | pow a b iha ihb =>
    simp only [ExprWf, Bool.and_eq_true] at h
    obtain ⟨a1, a2⟩ := iha h.1
    obtain ⟨b1, b2⟩ := ihb h.2
    obtain ⟨ka, ka'⟩ := a1.wrap (a.level < 5) a2
    obtain ⟨kb, kb'⟩ := b1.wrap (b.level < 4) b2
    exact ⟨ka.binop kb kb' '^' (by simp), ka'.append _⟩
  | fn f e ih =>
    simp only [ExprWf, Bool.and_eq_true] at h
    obtain ⟨h1, h2⟩ := ih h.2
    have hw := unaryFns_word h.1
    have := (LexC.word hw).glue (h1.paren h2) ⟨'(', _, rfl, by decide⟩
    exact ⟨this, (Head.word hw).append _⟩

/-- **lexing a rendered well-formed expression gives its tokens** -/
theorem lexLine_render (e : Expr) (h : ExprWf e = true) : lexLine e.render = some (toks e) :=
  (lexC_render e h).1.lexLine

/-! ## characters of a rendered expression -/

/-- characters of rendered well-formed expressions: letters, digits, `_ . + - * / ^ ( )` — in particular no
blank, no comma, no square bracket -/
def exprChar (c : Char) : Bool := isIdChar c || c == '.' || isOpChar c

theorem exprChar_of_numChar {c : Char} (h : numChar c = true) : exprChar c = true := by
  simp only [numChar, Bool.or_eq_true, beq_iff_eq] at h
  rcases h with ((((h | rfl) | rfl) | rfl) | rfl) | rfl
  · simp [exprChar, isIdChar, h]
  all_goals decide

theorem word_chars {w : Str} (h : isWordStr w = true) : w.all exprChar = true := by
  match w, h with
  | c :: cs, h =>
    simp only [isWordStr, Bool.and_eq_true] at h
    simp only [List.all_cons, Bool.and_eq_true, List.all_eq_true]
    refine ⟨by simp [exprChar, isIdChar, h.1], fun x hx => ?_⟩
    simp [exprChar, List.all_eq_true.mp h.2 x hx]

theorem wrap_chars {s : Str} (p : Prop) [Decidable p] (h : s.all exprChar = true) :
    (if p then paren s else s).all exprChar = true := by
  by_cases hp : p
  · simp only [hp, if_true, paren, List.all_cons, List.all_append, h, List.all_nil, Bool.and_true]
    decide
  · simpa [hp] using h

theorem binop_chars {a b : Str} (ha : a.all exprChar = true) (hb : b.all exprChar = true) (op : Char)
    (hop : exprChar op = true) : (a ++ op :: b).all exprChar = true := by
  simp [List.all_append, ha, hb, hop]

theorem render_chars (e : Expr) (h : ExprWf e = true) : e.render.all exprChar = true := by
  induction e with
  | pi => decide
  | lit s =>
    simp only [Expr.render, List.all_eq_true]
    exact fun x hx => exprChar_of_numChar (List.all_eq_true.mp (numToken_chars h) x hx)
  | id s =>
    simp only [ExprWf, isIdent, Bool.and_eq_true] at h
    exact word_chars h.1
  | neg e ih =>
    have := wrap_chars (e.level < 3) (ih h)
    simp only [Expr.render, List.all_cons, this, Bool.and_true]; decide
  | add a b iha ihb =>
    simp only [ExprWf, Bool.and_eq_true] at h
    exact binop_chars (wrap_chars _ (iha h.1)) (wrap_chars _ (ihb h.2)) '+' (by decide)
  | sub a b iha ihb =>
    simp only [ExprWf, Bool.and_eq_true] at h
    exact binop_chars (wrap_chars _ (iha h.1)) (wrap_chars _ (ihb h.2)) '-' (by decide)
  | mul a b iha ihb =>
    simp only [ExprWf, Bool.and_eq_true] at h
    exact binop_chars (wrap_chars _ (iha h.1)) (wrap_chars _ (ihb h.2)) '*' (by decide)
  | div a b iha ihb =>
    simp only [ExprWf, Bool.and_eq_true] at h
    exact binop_chars (wrap_chars _ (iha h.1)) (wrap_chars _ (ihb h.2)) '/' (by decide)
  | pow a b iha ihb =>
    simp only [ExprWf, Bool.and_eq_true] at h
    exact binop_chars (wrap_chars _ (iha h.1)) (wrap_chars _ (ihb h.2)) '^' (by decide)
  | fn f e ih =>
    simp only [ExprWf, Bool.and_eq_true] at h
    have h1 := word_chars (unaryFns_word h.1)
    have h2 := wrap_chars True (ih h.2)
    simp only [if_true] at h2
    simp only [Expr.render, List.all_append, h1, h2, Bool.and_self]

theorem render_ne_nil (e : Expr) (h : ExprWf e = true) : e.render ≠ [] := by
  obtain ⟨c, cs, hc, _⟩ := (lexC_render e h).2
  rw [hc]; simp

end QipVerif.Qasm
