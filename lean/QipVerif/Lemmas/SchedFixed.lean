import QipVerif.Lemmas.SchedSafe
/-!
# C05 for the repaired commutation rule: `safeComm` holds automatically

`fixes/C05-1.patch` restricts the same-name rule to the names of `_SELF_COMMUTING_GATES`
(`patchNames`).  For *any* list `w` of self-commuting names that does not contain `FREDKIN`, every
circuit of well-formed, canonically shaped gates with complex semantics satisfies `safeComm w`:
every pair the rule can declare commuting is one of the proved families.  Hence
`schedule_den_fixed`: on the repaired tree the scheduled circuit denotes the same operator as the
original one, with no hypothesis besides well-formedness.
-/
namespace QipVerif
open Matrix Sched

/-- the gate has the canonical shape of its family (what `QubitCircuit.add_gate` of the library builds) -/
def shapeOK (g : Gate) : Bool :=
  if oneQ g.name then g.controls.isEmpty && g.targets.length == 1
  else if ctlQ g.name then g.controls.length == 1 && g.targets.length == 1
  else if symQ g.name then g.controls.isEmpty && g.targets.length == 2
  else match g.name with
    | .TOFFOLI => g.controls.length == 2 && g.targets.length == 1
    | .FREDKIN => g.controls.length == 1 && g.targets.length == 2
    | .GLOBALPHASE => g.controls.isEmpty && g.targets.isEmpty
    | _ => false

/-! ## sorted lists of length one and two -/

theorem isort_one (t : ℕ) : isort [t] = [t] := rfl

theorem isort_two (x y : ℕ) : isort [x, y] = if x ≤ y then [x, y] else [y, x] := by
  simp only [isort, insertNat]

theorem isort_two_eq {x y u v : ℕ} (h : isort [x, y] = isort [u, v]) : [u, v] = [x, y] ∨ [u, v] = [y, x] := by
  rw [isort_two, isort_two] at h
  split at h <;> split at h <;> simp only [List.cons.injEq, and_true] at h <;> obtain ⟨rfl, rfl⟩ := h <;> simp

/-! ## names -/

/-- among the names with complex semantics the printed name determines the name -/
theorem toString_inj {a b : GName} (ha : (arityOf a).isSome = true) (hb : (arityOf b).isSome = true)
    (h : a.toString = b.toString) : a = b := by
  cases a <;> simp [arityOf, oneQ, ctlQ, symQ] at ha <;> cases b <;> simp [arityOf, oneQ, ctlQ, symQ] at hb <;>
    first
      | rfl
      | (exfalso; revert h; simp [GName.toString])

theorem wfG_arity {N : ℕ} {g : Gate} (h : wfG N g = true) : (arityOf g.name).isSome = true := by
  unfold wfG at h
  cases ha : arityOf g.name with
  | none => rw [ha] at h; cases h
  | some m => rfl

theorem name_of_toString {N : ℕ} {g : Gate} (h : wfG N g = true) (n : GName) (hn : (arityOf n).isSome = true)
    (hs : g.name.toString = n.toString) : g.name = n :=
  toString_inj (wfG_arity h) hn hs

/-! ## shapes by class -/

/-- class of a name with complex semantics: 1 one-qubit, 2 controlled, 3 symmetric two-qubit, 4 TOFFOLI,
5 FREDKIN, 6 GLOBALPHASE, 0 none -/
def cls (n : GName) : ℕ :=
  if oneQ n then 1 else if ctlQ n then 2 else if symQ n then 3 else
  match n with
  | .TOFFOLI => 4
  | .FREDKIN => 5
  | .GLOBALPHASE => 6
  | _ => 0

theorem cls_one {n : GName} (h : cls n = 1) : oneQ n = true := by
  unfold cls at h; split at h
  · assumption
  · split at h
    · omega
    · split at h
      · omega
      · split at h <;> omega

theorem cls_two {n : GName} (h : cls n = 2) : ctlQ n = true := by
  unfold cls at h; split at h
  · omega
  · split at h
    · assumption
    · split at h
      · omega
      · split at h <;> omega

theorem cls_three {n : GName} (h : cls n = 3) : symQ n = true := by
  unfold cls at h; split at h
  · omega
  · split at h
    · omega
    · split at h
      · assumption
      · split at h <;> omega

theorem cls_four {n : GName} (h : cls n = 4) : n = .TOFFOLI := by
  cases n <;> simp [cls, oneQ, ctlQ, symQ] at h ⊢

theorem cls_five {n : GName} (h : cls n = 5) : n = .FREDKIN := by
  cases n <;> simp [cls, oneQ, ctlQ, symQ] at h ⊢

theorem shape_cases (g : Gate) (h : shapeOK g = true) :
    (cls g.name = 1 ∧ g.controls = [] ∧ ∃ t, g.targets = [t]) ∨
    (cls g.name = 2 ∧ ∃ c t, g.controls = [c] ∧ g.targets = [t]) ∨
    (cls g.name = 3 ∧ g.controls = [] ∧ ∃ i j, g.targets = [i, j]) ∨
    (cls g.name = 4 ∧ ∃ x y t, g.controls = [x, y] ∧ g.targets = [t]) ∨
    (cls g.name = 5) ∨
    (cls g.name = 6 ∧ g.controls = [] ∧ g.targets = []) := by
  unfold shapeOK at h
  split at h
  · rename_i h1
    simp only [Bool.and_eq_true, List.isEmpty_iff, beq_iff_eq] at h
    exact Or.inl ⟨by simp [cls, h1], h.1, len1 h.2⟩
  · rename_i h1
    split at h
    · rename_i h2
      simp only [Bool.and_eq_true, beq_iff_eq] at h
      obtain ⟨c, hc⟩ := len1 h.1
      obtain ⟨t, ht⟩ := len1 h.2
      exact Or.inr (Or.inl ⟨by simp [cls, h1, h2], c, t, hc, ht⟩)
    · rename_i h2
      split at h
      · rename_i h3
        simp only [Bool.and_eq_true, List.isEmpty_iff, beq_iff_eq] at h
        obtain ⟨i, j, hij⟩ := len2 h.2
        exact Or.inr (Or.inr (Or.inl ⟨by simp [cls, h1, h2, h3], h.1, i, j, hij⟩))
      · rename_i h3
        split at h
        · rename_i hn
          simp only [Bool.and_eq_true, beq_iff_eq] at h
          obtain ⟨x, y, hxy⟩ := len2 h.1
          obtain ⟨t, ht⟩ := len1 h.2
          exact Or.inr (Or.inr (Or.inr (Or.inl ⟨by rw [hn]; rfl, x, y, t, hxy, ht⟩)))
        · rename_i hn
          exact Or.inr (Or.inr (Or.inr (Or.inr (Or.inl (by rw [hn]; rfl)))))
        · rename_i hn
          simp only [Bool.and_eq_true, List.isEmpty_iff] at h
          exact Or.inr (Or.inr (Or.inr (Or.inr (Or.inr ⟨by rw [hn]; rfl, h.1, h.2⟩))))
        · cases h

theorem shape1 {g : Gate} (h : shapeOK g = true) (hc : cls g.name = 1) : g.controls = [] ∧ ∃ t, g.targets = [t] := by
  rcases shape_cases g h with ⟨_, h1, h2⟩ | ⟨c, _⟩ | ⟨c, _⟩ | ⟨c, _⟩ | c | ⟨c, _⟩
  · exact ⟨h1, h2⟩
  all_goals omega

theorem shape2 {g : Gate} (h : shapeOK g = true) (hc : cls g.name = 2) : ∃ c t, g.controls = [c] ∧ g.targets = [t] := by
  rcases shape_cases g h with ⟨c, _⟩ | ⟨_, h1⟩ | ⟨c, _⟩ | ⟨c, _⟩ | c | ⟨c, _⟩
  · omega
  · exact h1
  all_goals omega

theorem shape3 {g : Gate} (h : shapeOK g = true) (hc : cls g.name = 3) : g.controls = [] ∧ ∃ i j, g.targets = [i, j] := by
  rcases shape_cases g h with ⟨c, _⟩ | ⟨c, _⟩ | ⟨_, h1, h2⟩ | ⟨c, _⟩ | c | ⟨c, _⟩
  · omega
  · omega
  · exact ⟨h1, h2⟩
  all_goals omega

theorem shape4 {g : Gate} (h : shapeOK g = true) (hc : cls g.name = 4) :
    ∃ x y t, g.controls = [x, y] ∧ g.targets = [t] := by
  rcases shape_cases g h with ⟨c, _⟩ | ⟨c, _⟩ | ⟨c, _⟩ | ⟨_, h1⟩ | c | ⟨c, _⟩
  · omega
  · omega
  · omega
  · exact h1
  all_goals omega

theorem isort_nil : isort [] = [] := rfl

/-- **every pair the rule declares commuting is a proved family**, for well-formed canonically shaped gates,
as soon as `FREDKIN` is not listed as self-commuting -/
theorem safePair_of_declared (w : String → Bool) (hF : w "FREDKIN" = false) {N : ℕ} (a b : Gate)
    (ha : wfG N a = true) (hb : wfG N b = true) (sa : shapeOK a = true) (sb : shapeOK b = true)
    (hsh : share (insOf w a) (insOf w b) = true) (hc : commRules (insOf w b) (insOf w a) = true) :
    safePair a b = true := by
  rw [commRules_true_iff] at hc
  simp only [insOf] at hc
  have hCN : (arityOf .CNOT).isSome = true := rfl
  rcases hc with ⟨hn, hsb, hsa, hrel⟩ | ⟨hbn, han, ht⟩ | ⟨hbn, han, ht⟩ | ⟨han, hbn, ht⟩ | ⟨han, hbn, ht⟩
  · -- the same name
    have hname : a.name = b.name := toString_inj (wfG_arity ha) (wfG_arity hb) hn.symm
    rcases shape_cases a sa with ⟨ca, hac, t, hat⟩ | ⟨ca, c, t, hac, hat⟩ | ⟨ca, hac, i, j, hat⟩ |
      ⟨ca, x, y, t, hac, hat⟩ | ca | ⟨ca, hac, hat⟩
    · obtain ⟨hbc, u, hbt⟩ := shape1 sb (hname ▸ ca)
      rw [hac, hbc, hat, hbt] at hrel
      simp only [isort_nil, ne_eq, not_true_eq_false, false_and, false_or, isort_one, List.cons.injEq, and_true] at hrel
      have : fam1 a b = true := by simp [fam1, hname, cls_one (hname ▸ ca), hac, hbc, hat, hbt, hrel]
      simp [safePair, this]
    · obtain ⟨c', u, hbc, hbt⟩ := shape2 sb (hname ▸ ca)
      rw [hac, hbc, hat, hbt] at hrel
      simp only [isort_one, List.cons.injEq, and_true, ne_eq, List.cons_ne_nil, not_false_eq_true, true_and] at hrel
      have : fam2 a b = true := by
        simp only [fam2, hname, cls_two (hname ▸ ca), hac, hbc, hat, hbt, List.length_cons, List.length_nil,
          beq_self_eq_true, Bool.and_true, Bool.true_and, Bool.or_eq_true, beq_iff_eq, List.cons.injEq, and_true]
        rcases hrel with h | h
        · exact Or.inl h.symm
        · exact Or.inr h.symm
      simp [safePair, this]
    · obtain ⟨hbc, k, l, hbt⟩ := shape3 sb (hname ▸ ca)
      rw [hac, hbc, hat, hbt] at hrel
      simp only [isort_nil, ne_eq, not_true_eq_false, false_and, false_or] at hrel
      rcases isort_two_eq hrel with h | h
      · have : fam5 a b = true := by simp [fam5, hname, cls_three (hname ▸ ca), hac, hbc, hat, hbt, h]
        simp [safePair, this]
      · have : fam5r a b = true := by
          simp only [List.cons.injEq, and_true] at h
          simp [fam5r, hname, cls_three (hname ▸ ca), hac, hbc, hat, hbt, h.1, h.2]
        simp [safePair, this]
    · obtain ⟨x', y', u, hbc, hbt⟩ := shape4 sb (hname ▸ ca)
      have hna := cls_four ca
      have hnb : b.name = .TOFFOLI := hname ▸ hna
      rw [hac, hbc, hat, hbt] at hrel
      simp only [isort_one, List.cons.injEq, and_true] at hrel
      have : famT a b = true := by
        simp only [famT, hna, hnb, hac, hbc, hat, hbt, List.length_cons, List.length_nil, beq_self_eq_true,
          Bool.and_true, Bool.true_and, Bool.or_eq_true, beq_iff_eq, List.cons.injEq, and_true, List.reverse_cons,
          List.reverse_nil, List.nil_append, List.cons_append]
        rcases hrel with ⟨_, h⟩ | h
        · rcases isort_two_eq h with h' | h'
          · simp only [List.cons.injEq, and_true] at h'
            exact Or.inl (Or.inr ⟨h'.1, h'.2⟩)
          · simp only [List.cons.injEq, and_true] at h'
            exact Or.inr ⟨h'.1, h'.2⟩
        · exact Or.inl (Or.inl h.symm)
      simp [safePair, this]
    · have := cls_five ca
      rw [this] at hsa
      have hF' : w GName.FREDKIN.toString = false := hF
      rw [hF'] at hsa
      cases hsa
    · exfalso
      obtain ⟨q, hq, _⟩ := share_iff.mp hsh
      rw [mem_used_insOf] at hq
      simp [Gate.qubits, hac, hat] at hq
  · -- `b` is a CNOT, `a` an X / RX on its target
    have hbN : b.name = .CNOT := name_of_toString hb .CNOT hCN hbn
    obtain ⟨c, t, hbc, hbt⟩ := shape2 sb (by rw [hbN]; rfl)
    have haN : a.name = .X ∨ a.name = .RX := by
      rcases han with h | h
      · exact Or.inl (name_of_toString ha .X rfl h)
      · exact Or.inr (name_of_toString ha .RX rfl h)
    obtain ⟨hac, u, hat⟩ := shape1 sa (by rcases haN with h | h <;> rw [h] <;> rfl)
    rw [hbt, hat] at ht
    simp only [isort_one, List.cons.injEq, and_true] at ht
    have : cnotX b a = true := by
      rcases haN with h | h <;> simp [cnotX, hbN, hbc, hbt, hac, hat, h, ht]
    simp [safePair, this]
  · -- `b` is a CNOT, `a` a Z / RZ on its control
    have hbN : b.name = .CNOT := name_of_toString hb .CNOT hCN hbn
    obtain ⟨c, t, hbc, hbt⟩ := shape2 sb (by rw [hbN]; rfl)
    have haN : a.name = .Z ∨ a.name = .RZ := by
      rcases han with h | h
      · exact Or.inl (name_of_toString ha .Z rfl h)
      · exact Or.inr (name_of_toString ha .RZ rfl h)
    obtain ⟨hac, u, hat⟩ := shape1 sa (by rcases haN with h | h <;> rw [h] <;> rfl)
    rw [hbc, hat] at ht
    simp only [isort_one, List.cons.injEq, and_true] at ht
    have : cnotZ b a = true := by
      rcases haN with h | h <;> simp [cnotZ, hbN, hbc, hbt, hac, hat, h, ht]
    simp [safePair, this]
  · -- `a` is a CNOT, `b` an X / RX on its target
    have haN : a.name = .CNOT := name_of_toString ha .CNOT hCN han
    obtain ⟨c, t, hac, hat⟩ := shape2 sa (by rw [haN]; rfl)
    have hbN : b.name = .X ∨ b.name = .RX := by
      rcases hbn with h | h
      · exact Or.inl (name_of_toString hb .X rfl h)
      · exact Or.inr (name_of_toString hb .RX rfl h)
    obtain ⟨hbc, u, hbt⟩ := shape1 sb (by rcases hbN with h | h <;> rw [h] <;> rfl)
    rw [hbt, hat] at ht
    simp only [isort_one, List.cons.injEq, and_true] at ht
    have : cnotX a b = true := by
      rcases hbN with h | h <;> simp [cnotX, haN, hbc, hbt, hac, hat, h, ht]
    simp [safePair, this]
  · -- `a` is a CNOT, `b` a Z / RZ on its control
    have haN : a.name = .CNOT := name_of_toString ha .CNOT hCN han
    obtain ⟨c, t, hac, hat⟩ := shape2 sa (by rw [haN]; rfl)
    have hbN : b.name = .Z ∨ b.name = .RZ := by
      rcases hbn with h | h
      · exact Or.inl (name_of_toString hb .Z rfl h)
      · exact Or.inr (name_of_toString hb .RZ rfl h)
    obtain ⟨hbc, u, hbt⟩ := shape1 sb (by rcases hbN with h | h <;> rw [h] <;> rfl)
    rw [hac, hbt] at ht
    simp only [isort_one, List.cons.injEq, and_true] at ht
    have : cnotZ a b = true := by
      rcases hbN with h | h <;> simp [cnotZ, haN, hbc, hbt, hac, hat, h, ht]
    simp [safePair, this]

/-- `safeComm` holds for every circuit of well-formed, canonically shaped gates -/
theorem safeComm_of_shape (w : String → Bool) (hF : w "FREDKIN" = false) (N : ℕ) (gs : List Gate)
    (h : ∀ g ∈ gs, wfG N g = true ∧ shapeOK g = true) : safeComm w N gs = true := by
  simp only [safeComm, Bool.and_eq_true, List.all_eq_true, List.mem_range, Bool.or_eq_true, Bool.not_eq_true']
  refine ⟨fun g hg => (h g hg).1, ?_⟩
  intro j hj i hij
  by_cases hd : (share (insOf w (gs.getD i dfltGate)) (insOf w (gs.getD j dfltGate)) &&
      commRules (insOf w (gs.getD j dfltGate)) (insOf w (gs.getD i dfltGate))) = true
  · right
    simp only [Bool.and_eq_true] at hd
    have hi : i < gs.length := by omega
    exact safePair_of_declared w hF _ _ (h _ (getD_mem gs hi)).1 (h _ (getD_mem gs hj)).1
      (h _ (getD_mem gs hi)).2 (h _ (getD_mem gs hj)).2 hd.1 hd.2
  · left
    simpa using hd

/-- **The repaired rule needs no side condition.** -/
theorem schedule_den_fixed {N : ℕ} (ρ : ℕ → ℝ) (w : String → Bool) (hF : w "FREDKIN" = false)
    (alap allowPerm : Bool) (gs : List Gate) (O2 : ℕ → List ℕ → List ℕ) (hO : ∀ r l, (O2 r l).Perm l)
    (h : ∀ g ∈ gs, wfG N g = true ∧ shapeOK g = true) :
    denG N ρ (((cyclesGen alap allowPerm (gs.map (insOf w)) O2).flatten).map (fun i => gs.getD i dfltGate)) =
      denG N ρ gs :=
  schedule_den_safe ρ w alap allowPerm gs O2 hO (safeComm_of_shape w hF N gs h)

theorem wPatch_fredkin : wPatch "FREDKIN" = false := by decide

end QipVerif
