import QipVerif.Model.QasmImport
/-!
# `if(c==k)`: the simulator's reading of classical controls against the standard's condition (C04)

The simulator (`CircuitSimulator.step`, `_check_classical_control_value`) writes the control value in
binary, pads it with zeros on the left to the number of classical controls and compares the digits
with the listed bits **in order** — the first listed bit against the most significant digit.  The
standard reads the register as an integer whose bit 0 is `c[0]`.  The repaired importer lists the bits
in register order and passes the **bit-reversed** value (`pyRevBits`); this file proves that the two
readings then agree for registers of every width, and that a value that does not fit the register is
never equal to the register.
-/
namespace QipVerif.C04
open QipVerif.Qasm QipVerif.Qasm.Import

/-- binary digits of `v`, most significant first (`"{0:#b}".format(v)[2:]`) -/
def binDigits : Nat → Nat → List Nat
  | 0, _ => []
  | f + 1, v => if v < 2 then [v] else binDigits f (v / 2) ++ [v % 2]

/-- the simulator's test of a classically controlled gate (`_check_classical_control_value`):
the digits of the value, left-padded with zeros to the number of controls, are compared with the
listed bits **in order** (first listed bit against the most significant digit) -/
def simFires (cc : List Nat) (v : Nat) (st : Nat → Bool) : Bool :=
  let b := binDigits (v + 1) v
  let conds := List.replicate (cc.length - b.length) 0 ++ b
  (cc.zip conds).all fun (bit, d) => (if st bit then 1 else 0) == d

/-- the `n` low binary digits of `k`, least significant first -/
def leDigits : Nat → Nat → List Nat
  | 0, _ => []
  | n + 1, k => k % 2 :: leDigits n (k / 2)

/-- value of a digit list, least significant first -/
def leVal : List Nat → Nat
  | [] => 0
  | b :: l => b + 2 * leVal l

/-- value of a digit list, most significant first (`int(s, 2)`) -/
def beVal (l : List Nat) : Nat := l.foldl (fun a b => 2 * a + b) 0

def IsBits (l : List Nat) : Prop := ∀ b ∈ l, b < 2

theorem leDigits_length (n k : Nat) : (leDigits n k).length = n := by
  induction n generalizing k with
  | zero => rfl
  | succ n ih => simp [leDigits, ih]

theorem leDigits_bits (n k : Nat) : IsBits (leDigits n k) := by
  induction n generalizing k with
  | zero => intro b hb; cases hb
  | succ n ih =>
    intro b hb
    simp only [leDigits, List.mem_cons] at hb
    rcases hb with rfl | hb
    · omega
    · exact ih _ b hb

theorem leDigits_zero (n : Nat) : leDigits n 0 = List.replicate n 0 := by
  induction n with
  | zero => rfl
  | succ n ih => simp [leDigits, ih, List.replicate_succ]

theorem leVal_lt (l : List Nat) (h : IsBits l) : leVal l < 2 ^ l.length := by
  induction l with
  | nil => simp [leVal]
  | cons b l ih =>
    have hb : b < 2 := h b (by simp)
    have := ih (fun x hx => h x (by simp [hx]))
    simp only [leVal, List.length_cons, Nat.pow_succ]
    omega

theorem leDigits_leVal (l : List Nat) (h : IsBits l) : leDigits l.length (leVal l) = l := by
  induction l with
  | nil => rfl
  | cons b l ih =>
    have hb : b < 2 := h b (by simp)
    have hi := ih (fun x hx => h x (by simp [hx]))
    simp only [List.length_cons, leDigits, leVal]
    have h1 : (b + 2 * leVal l) % 2 = b := by omega
    have h2 : (b + 2 * leVal l) / 2 = leVal l := by omega
    rw [h1, h2, hi]

theorem leVal_append (x y : List Nat) : leVal (x ++ y) = leVal x + 2 ^ x.length * leVal y := by
  induction x with
  | nil => simp [leVal]
  | cons b x ih =>
    simp only [List.cons_append, leVal, ih, List.length_cons, Nat.pow_succ]
    rw [Nat.mul_add, ← Nat.mul_assoc, Nat.mul_comm 2 (2 ^ x.length), Nat.add_assoc]

theorem foldl_leVal (l : List Nat) (a : Nat) :
    l.foldl (fun a b => 2 * a + b) a = leVal l.reverse + 2 ^ l.length * a := by
  induction l generalizing a with
  | nil => simp [leVal]
  | cons b l ih =>
    simp only [List.foldl_cons, ih, List.reverse_cons, leVal_append, List.length_reverse, leVal,
      List.length_cons, Nat.pow_succ]
    rw [Nat.mul_zero, Nat.add_zero, Nat.mul_add, Nat.add_assoc, Nat.mul_assoc, Nat.add_comm (2 ^ l.length * b)]

theorem beVal_eq_leVal_reverse (l : List Nat) : beVal l = leVal l.reverse := by
  simp [beVal, foldl_leVal]

/-- digits of the binary numeral (least significant first), padded to `n` digits -/
theorem bitsLE_pad : ∀ (n f k : Nat), k < 2 ^ n → k < f → 0 < n →
    bitsLE f k ++ List.replicate (n - (bitsLE f k).length) 0 = leDigits n k := by
  intro n
  induction n with
  | zero => intro f k _ _ h; omega
  | succ n ih =>
    intro f k hk hf _
    obtain ⟨f', rfl⟩ : ∃ f', f = f' + 1 := ⟨f - 1, by omega⟩
    by_cases h2 : k < 2
    · simp only [bitsLE, h2, if_true, List.length_singleton, leDigits, List.cons_append, List.nil_append,
        Nat.add_sub_cancel]
      have h3 : k % 2 = k := by omega
      have h4 : k / 2 = 0 := by omega
      rw [h3, h4, leDigits_zero]
    · have hn : 0 < n := by
        rcases Nat.eq_zero_or_pos n with rfl | h
        · simp at hk; omega
        · exact h
      have hk2 : k / 2 < 2 ^ n := by
        rw [Nat.pow_succ] at hk; omega
      have hf2 : k / 2 < f' := by omega
      have := ih f' (k / 2) hk2 hf2 hn
      simp only [bitsLE, h2, if_false, List.length_cons, leDigits, List.cons_append]
      rw [show n + 1 - ((bitsLE f' (k / 2)).length + 1) = n - (bitsLE f' (k / 2)).length by omega, this]

/-- **the value the repaired importer passes on**: the most-significant-first reading of the `n` low
digits of `k`, least significant first -/
theorem pyRevBits_eq (n k : Nat) (hk : k < 2 ^ n) : pyRevBits n k = beVal (leDigits n k) := by
  rcases Nat.eq_zero_or_pos n with rfl | hn
  · have : k = 0 := by simpa using hk
    subst this
    rfl
  · simp only [pyRevBits]
    rw [bitsLE_pad n (k + 1) k hk (by omega) hn]
    rfl

theorem pyRevBits_lt (n k : Nat) (hk : k < 2 ^ n) : pyRevBits n k < 2 ^ n := by
  rw [pyRevBits_eq n k hk, beVal_eq_leVal_reverse]
  have h := leVal_lt (leDigits n k).reverse (by
    intro b hb
    exact leDigits_bits n k b (by simpa using hb))
  simpa [leDigits_length] using h

/-- binary numeral (most significant first), padded to `n` digits -/
theorem binDigits_pad : ∀ (n f v : Nat), v < 2 ^ n → v < f → 0 < n →
    List.replicate (n - (binDigits f v).length) 0 ++ binDigits f v = (leDigits n v).reverse := by
  intro n
  induction n with
  | zero => intro f v _ _ h; omega
  | succ n ih =>
    intro f v hv hf _
    obtain ⟨f', rfl⟩ : ∃ f', f = f' + 1 := ⟨f - 1, by omega⟩
    by_cases h2 : v < 2
    · have h3 : v % 2 = v := by omega
      have h4 : v / 2 = 0 := by omega
      simp only [binDigits, h2, if_true, List.length_singleton, leDigits, Nat.add_sub_cancel, h3, h4,
        leDigits_zero, List.reverse_cons, List.reverse_replicate]
    · have hn : 0 < n := by
        rcases Nat.eq_zero_or_pos n with rfl | h
        · simp at hv; omega
        · exact h
      have hv2 : v / 2 < 2 ^ n := by
        rw [Nat.pow_succ] at hv; omega
      have hf2 : v / 2 < f' := by omega
      have := ih f' (v / 2) hv2 hf2 hn
      simp only [binDigits, h2, if_false, List.length_append, List.length_singleton, leDigits,
        List.reverse_cons]
      rw [show n + 1 - ((binDigits f' (v / 2)).length + 1) = n - (binDigits f' (v / 2)).length by omega,
        ← List.append_assoc, this]

/-- the digits the simulator compares, for a value that is the most-significant-first reading of a
list of `n ≥ 1` bits, are these bits -/
theorem simConds_beVal (d : List Nat) (hd : IsBits d) (hn : 0 < d.length) :
    List.replicate (d.length - (binDigits (beVal d + 1) (beVal d)).length) 0 ++
      binDigits (beVal d + 1) (beVal d) = d := by
  have hlt : beVal d < 2 ^ d.length := by
    rw [beVal_eq_leVal_reverse]
    have := leVal_lt d.reverse (fun b hb => hd b (by simpa using hb))
    simpa using this
  rw [binDigits_pad d.length (beVal d + 1) (beVal d) hlt (by omega) hn, beVal_eq_leVal_reverse]
  have := leDigits_leVal d.reverse (fun b hb => hd b (by simpa using hb))
  rw [List.length_reverse] at this
  rw [this, List.reverse_reverse]

/-- bit by bit against the low digits of `k` = the little-endian value equals `k` -/
theorem zip_leDigits (st : Nat → Bool) : ∀ (cc : List Nat) (k : Nat), k < 2 ^ cc.length →
    ((cc.zip (leDigits cc.length k)).all fun (bit, d) => (if st bit then 1 else 0) == d) =
      (leValue st cc == k) := by
  intro cc
  induction cc with
  | nil =>
    intro k hk
    have : k = 0 := by simpa using hk
    subst this
    rfl
  | cons b bs ih =>
    intro k hk
    have hk2 : k / 2 < 2 ^ bs.length := by
      simp only [List.length_cons, Nat.pow_succ] at hk; omega
    simp only [List.length_cons, leDigits, List.zip_cons_cons, List.all_cons, ih (k / 2) hk2, leValue]
    cases hb : st b <;> simp only [Bool.false_eq_true, if_false, if_true] <;>
      · rw [Bool.eq_iff_iff]
        simp only [Bool.and_eq_true, beq_iff_eq]
        omega

/-- **`if(c==k)` on a register of ANY width.**  With the bits listed in register order and the value
`pyRevBits n k` (what the repaired importer passes on, `n` = number of bits, `k < 2^n`), the simulator's
test is the standard's condition "the register, read as an integer whose bit 0 is `c[0]`, equals `k`",
for every classical state. -/
theorem simFires_pyRevBits (cc : List Nat) (k : Nat) (st : Nat → Bool) (hk : k < 2 ^ cc.length) :
    simFires cc (pyRevBits cc.length k) st = Cond.holds ⟨cc, k⟩ st := by
  rcases Nat.eq_zero_or_pos cc.length with h0 | hn
  · have hc : cc = [] := List.eq_nil_of_length_eq_zero h0
    subst hc
    have : k = 0 := by simpa using hk
    subst this
    rfl
  · rw [pyRevBits_eq _ _ hk]
    simp only [simFires, Cond.holds]
    have := simConds_beVal (leDigits cc.length k) (leDigits_bits _ _) (by rw [leDigits_length]; exact hn)
    rw [leDigits_length] at this
    rw [this]
    exact zip_leDigits st cc k hk

theorem leValue_lt (st : Nat → Bool) (cc : List Nat) : leValue st cc < 2 ^ cc.length := by
  induction cc with
  | nil => simp [leValue]
  | cons b bs ih =>
    simp only [leValue, List.length_cons, Nat.pow_succ]
    cases st b <;> simp <;> omega

/-- a value that does not fit the register is never the value of the register -/
theorem cond_never_holds (cc : List Nat) (k : Nat) (hk : 2 ^ cc.length ≤ k) (st : Nat → Bool) :
    Cond.holds ⟨cc, k⟩ st = false := by
  have := leValue_lt st cc
  simp only [Cond.holds, beq_eq_false_iff_ne, ne_eq]
  omega

end QipVerif.C04
