import QipVerif.Lemmas.ConcatSem
/-! Pointwise meaning of a compiled *discrete* channel: its step function is the scheduled waveform (C12). -/
namespace QipVerif.Concat
open QipVerif.Grid (stepAt stepAt_lt_head stepAt_ge_all mem_le_last)

/-! ### specification objects -/

/-- waveform of one instruction at time `x` after its start (0 outside `[0, duration)`) -/
def waveAt : Wave → Rat → Rat
  | .scalar d c, x => if 0 ≤ x ∧ x < d then c else 0
  | .arr tl cs, x => stepAt tl cs x
  | .mixed _ _, _ => 0

/-- **the scheduled function of a channel**: inside the window `[s, s + duration)` of an instruction its
waveform, `0` at all times not covered by an instruction -/
def specAt : List (Rat × Wave) → Rat → Rat
  | [], _ => 0
  | (s, w) :: rest, t => if s ≤ t ∧ t < s + w.dur then waveAt w (t - s) else specAt rest t

/-! ### step-function algebra -/

theorem stepAt_split (a : Rat) (A B cA cB : List Rat) (m t : Rat) (hlen : cA.length = A.length)
    (hp : (a :: (A ++ B)).Pairwise (· < ·)) (hm : (a :: A).getLast? = some m) :
    stepAt (a :: (A ++ B)) (cA ++ cB) t = if t < m then stepAt (a :: A) cA t else stepAt (m :: B) cB t := by
  induction A generalizing a cA with
  | nil =>
    have : cA = [] := by simpa using hlen
    subst this
    simp at hm; subst hm
    simp only [List.nil_append]
    by_cases h : t < a
    · rw [if_pos h]
      rw [stepAt_lt_head _ _ _ (fun p hp' => by
        rcases List.mem_cons.mp hp' with rfl | hp'
        · exact h
        · have := (List.pairwise_cons.mp hp).1 p (by simpa using hp'); grind)]
      simp [stepAt]
    · rw [if_neg h]
  | cons x A ih =>
    match cA, hlen with
    | c :: cA, hlen =>
      have hp' := (List.pairwise_cons.mp hp).2
      have hm' : (x :: A).getLast? = some m := by rw [← hm, List.getLast?_cons_cons]
      have hxm : x ≤ m := mem_le_last (List.Pairwise.sublist (by simp) hp' : (x :: A).Pairwise (· < ·)) hm' x (by simp)
      have := ih x cA (by simpa using hlen) hp' hm'
      simp only [List.cons_append, stepAt]
      rw [this]
      by_cases h1 : a ≤ t ∧ t < x
      · rw [if_pos h1, if_pos (by grind), if_pos h1]
      · rw [if_neg h1]
        by_cases h2 : t < m
        · rw [if_pos h2, if_pos h2, if_neg h1]
        · rw [if_neg h2, if_neg h2]

theorem stepAt_shift (tl cs : List Rat) (s t : Rat) : stepAt (tl.map (· + s)) cs t = stepAt tl cs (t - s) := by
  induction tl generalizing cs with
  | nil => simp [stepAt]
  | cons a tl ih =>
    match tl, cs with
    | [], _ => simp [stepAt]
    | b :: tl, [] => simp [stepAt]
    | b :: tl, c :: cs =>
      have := ih cs
      simp only [List.map_cons, stepAt] at this ⊢
      rw [this]
      have : (a + s ≤ t ∧ t < b + s) ↔ (a ≤ t - s ∧ t - s < b) := by grind
      by_cases h : a + s ≤ t ∧ t < b + s
      · rw [if_pos h, if_pos (this.mp h)]
      · rw [if_neg h, if_neg (fun h' => h (this.mpr h'))]

theorem stepAt_zeros (g cs : List Rat) (t : Rat) (h : ∀ c ∈ cs, c = 0) : stepAt g cs t = 0 := by
  induction g generalizing cs with
  | nil => simp [stepAt]
  | cons a g ih =>
    match g, cs with
    | [], _ => simp [stepAt]
    | b :: g, [] => simp [stepAt]
    | b :: g, c :: cs =>
      simp only [stepAt]
      split
      · exact h c (by simp)
      · exact ih cs (fun c' hc' => h c' (by simp [hc']))

/-! ### the scheduled function -/

theorem waveAt_outside {w : Wave} (hw : WaveOK w) (x : Rat) (h : ¬ (0 ≤ x ∧ x < w.dur)) : waveAt w x = 0 := by
  match w, hw with
  | .scalar d c, _ => simp only [waveAt, Wave.dur] at h ⊢; rw [if_neg h]
  | .arr tl cs, ⟨hh, hp, hl, hc⟩ =>
    simp only [waveAt]
    by_cases h0 : 0 ≤ x
    · have hx : w.dur ≤ x ∨ True := Or.inr trivial
      have hd : ¬ (x < (Wave.arr tl cs).dur) := fun hx => h ⟨h0, hx⟩
      simp only [Wave.dur] at hd
      have hne : tl ≠ [] := by intro e; simp [e] at hl
      rw [List.getLast?_eq_some_getLast hne] at hd
      simp only [Option.getD_some] at hd
      apply stepAt_ge_all
      intro p hpm
      have := mem_le_last hp (List.getLast?_eq_some_getLast hne) p hpm
      grind
    · apply stepAt_lt_head
      intro p hpm
      match tl, hh with
      | a :: rest, hh =>
        simp at hh; subst hh
        rcases List.mem_cons.mp hpm with rfl | hpm
        · grind
        · have := (List.pairwise_cons.mp hp).1 p hpm; grind

theorem specAt_before (instrs : List (Rat × Wave)) : ∀ last, Chain last instrs → ∀ t, t < last → specAt instrs t = 0 := by
  induction instrs with
  | nil => intros; rfl
  | cons sw rest ih =>
    intro last hc t ht
    obtain ⟨s, w⟩ := sw
    obtain ⟨hw, hls, hrest⟩ := hc
    have hdp := dur_pos (proc_of_ok hw)
    simp only [specAt]
    rw [if_neg (by grind)]
    exact ih (s + w.dur) hrest t (by grind)

/-- the points and coefficients one discrete instruction contributes are its waveform shifted to its start -/
theorem body_value {w : Wave} (hw : WaveOK w) (hm : w.mode = .discrete) (s t : Rat) :
    stepAt (s :: w.proc.gt.map (· + s)) w.proc.cs t = waveAt w (t - s) := by
  match w, hw with
  | .scalar d c, hw =>
    have : (Wave.scalar d c).proc = ⟨[d], [c], d, .discrete⟩ := rfl
    rw [this]
    simp only [List.map_cons, List.map_nil, stepAt, waveAt]
    have : (s ≤ t ∧ t < d + s) ↔ (0 ≤ t - s ∧ t - s < d) := by grind
    by_cases h : s ≤ t ∧ t < d + s
    · rw [if_pos h, if_pos (this.mp h)]
    · rw [if_neg h, if_neg (fun h' => h (this.mpr h'))]
  | .arr tl cs, ⟨hh, hp, hl, hc⟩ =>
    have hdisc : cs.length + 1 = tl.length := by
      simp only [Wave.mode] at hm
      by_cases h : cs.length + 1 = tl.length
      · exact h
      · rw [if_neg h] at hm; cases hm
    match tl, hh, hp, hl, hdisc with
    | a :: b :: rest, hh, hp, hl, hdisc =>
      simp at hh; subst hh
      have hcast : ((0 :: b :: rest).length : Int) - 1 = (cs.length : Int) := by simp at hdisc ⊢; omega
      have : (Wave.arr (0 :: b :: rest) cs).proc = ⟨b :: rest, cs, b - 0, .discrete⟩ := by
        simp only [Wave.proc, procPulse]; rw [if_pos hcast]
      rw [this]
      simp only [waveAt]
      have : (s :: (b :: rest).map (· + s)) = (0 :: b :: rest).map (· + s) := by simp [Rat.zero_add]
      rw [this, stepAt_shift]

theorem idlePure_discrete (start last step : Rat) : idlePure .discrete start last step = [start] := rfl

/-- **Meaning of the tolerance-free lists of a discrete channel**: as a step function on the grid
`last :: ts` they are the scheduled function, at every time. -/
theorem pureLoop_discrete (instrs : List (Rat × Wave)) : ∀ last, Chain last instrs →
    (∀ sw ∈ instrs, sw.2.mode = .discrete) →
    ∀ t, stepAt (last :: (pureLoop last instrs).1) (pureLoop last instrs).2 t = specAt instrs t := by
  induction instrs with
  | nil => intro last _ _ t; simp [pureLoop, specAt, stepAt]
  | cons sw rest ih =>
    intro last hc hmode t
    obtain ⟨s, w⟩ := sw
    have hchain := hc
    obtain ⟨hw, hls, hrest⟩ := hc
    have hm : w.mode = .discrete := hmode (s, w) (by simp)
    have hp := proc_of_ok hw
    have hdp := dur_pos hp
    have ihr := ih (s + w.dur) hrest (fun sw h => hmode sw (by simp [h])) t
    obtain ⟨hs1, hs2, hs3, hs4⟩ := pureLoop_struct rest (s + w.dur) hrest
    have hpm : w.proc.mode = .discrete := by rw [hp.mode_eq]; exact hm
    -- value on and after the instruction's start
    have hexec : stepAt (s :: (w.proc.gt.map (· + s) ++ (pureLoop (s + w.dur) rest).1))
        (w.proc.cs ++ (pureLoop (s + w.dur) rest).2) t =
        if t < s + w.dur then waveAt w (t - s) else specAt rest t := by
      have hbl := body_last hw s s ([] : List Rat)
      simp only [List.nil_append] at hbl
      have hpw : (s :: (w.proc.gt.map (· + s) ++ (pureLoop (s + w.dur) rest).1)).Pairwise (· < ·) :=
        pairwise_join (exec_pairwise hp s) hbl hs1
      rw [stepAt_split s _ _ _ _ (s + w.dur) t (by simp [hp.len]) hpw hbl, body_value hw hm, ihr]
    have hspec : specAt ((s, w) :: rest) t = if t < s + w.dur then waveAt w (t - s) else specAt rest t := by
      simp only [specAt]
      by_cases h1 : t < s + w.dur
      · rw [if_pos h1]
        by_cases h2 : s ≤ t
        · rw [if_pos ⟨h2, h1⟩]
        · rw [if_neg (by grind), waveAt_outside hw _ (by grind)]
          exact specAt_before rest (s + w.dur) hrest t h1
      · rw [if_neg h1, if_neg (by grind)]
    rw [hspec]
    simp only [pureLoop, hpm, idlePure_discrete]
    by_cases hlt : last < s
    · rw [if_pos hlt]
      simp only [List.cons_append, List.nil_append, List.map_cons, List.map_nil, stepAt]
      by_cases hin : last ≤ t ∧ t < s
      · rw [if_pos hin, if_pos (by grind), waveAt_outside hw _ (by grind)]
      · rw [if_neg hin]; exact hexec
    · rw [if_neg hlt]
      have : last = s := by grind
      subst this
      simpa using hexec

end QipVerif.Concat
