import QipVerif.Lemmas.RenderLinks
/-! C20: `links_reach` — the glyphs of the link column in the pieces of control bridges, SWAPs
and measurements. -/
namespace QipVerif.Render
variable {v : Variant}

theorem mid3 (h : Nat) (a b : Char) (l : Str) : (rep h a ++ b :: l)[h]? = some b := by
  rw [List.getElem?_append_right (by simp)]; simp

theorem setChar_get (s : Str) (i : Nat) (c : Char) (h : i < s.length) : (setChar s i c)[i]? = some c := by
  unfold setChar
  have hl : (s.take i).length = i := by simp; omega
  rw [List.getElem?_append_right (by omega), hl]
  simp

theorem pyRange_head? {a b : Nat} (h : a < b) : (pyRange a b).head? = some a := by
  simp [pyRange, List.head?_range']; omega

theorem pyRange_getLast? {a b : Nat} (h : a < b) : (pyRange a b).getLast? = some (b - 1) := by
  simp only [pyRange, List.getLast?_range']
  rw [if_neg (by omega)]; congr 1; omega

/-! ### control bridges -/

/-- the piece `_update_qbridge` appends to a non-target wire of its range -/
theorem updQbridge_mem {ts cs wl : List Nat} {width : Nat} {isTop : Bool} {w : Nat} (hw : w ∈ wl)
    (hnt : ¬ inBox v ts w = true) :
    ∃ g, (w, g) ∈ updQbridge v ts cs wl width isTop ∧
      g.mid[width / 2]? = some (if w ∈ cs then '█' else '│') ∧
      (¬ (w ∈ cs ∧ (some w = wl.head? ∨ some w = wl.getLast?) ∧ isTop = true) → g.top[width / 2]? = some '│') ∧
      (¬ (w ∈ cs ∧ (some w = wl.head? ∨ some w = wl.getLast?) ∧ isTop = false) → g.bot[width / 2]? = some '│') := by
  by_cases hc : w ∈ cs
  · by_cases he : some w = wl.head? ∨ some w = wl.getLast?
    · refine ⟨_, List.mem_filterMap.mpr ⟨w, hw, by rw [if_neg hnt, if_pos hc, if_pos he]⟩, ?_, ?_, ?_⟩
      · simp only [if_pos hc]; exact mid3 ..
      · intro hn
        have : isTop = false := by cases isTop <;> simp_all
        subst this
        simp only [Bool.not_false, if_true]; exact mid3 ..
      · intro hn
        have : isTop = true := by cases isTop <;> simp_all
        subst this
        simp only [if_true]; exact mid3 ..
    · refine ⟨_, List.mem_filterMap.mpr ⟨w, hw, by rw [if_neg hnt, if_pos hc, if_neg he]⟩, ?_, ?_, ?_⟩
      · simp only [if_pos hc]; exact mid3 ..
      · intro _; exact mid3 ..
      · intro _; exact mid3 ..
  · refine ⟨_, List.mem_filterMap.mpr ⟨w, hw, by rw [if_neg hnt, if_neg hc]⟩, ?_, ?_, ?_⟩
    · simp only [if_neg hc]; exact mid3 ..
    · intro _; exact mid3 ..
    · intro _; exact mid3 ..

/-- the marks `┴` / `┬` on the frame of a box with controls, at the link column -/
theorem drawMultiq_marks (v : Variant) (p : Nat) (text : Str) (ts : List Nat) (cs : Option (List Nat))
    (htr : truthy cs = true) :
    (isTop v (ctrlList cs) ts = true →
      (drawMultiq v p text ts cs).top[(drawMultiq v p text ts cs).top.length / 2]? = some '┴') ∧
    (isBot v (ctrlList cs) ts = true →
      (drawMultiq v p text ts cs).bot[(drawMultiq v p text ts cs).top.length / 2]? = some '┬') := by
  have hb := drawMultiq_w v p text ts cs
  rw [hb.top]
  have e : ∀ (a b : Char) , ((' ' : Char) :: a :: (rep (p * 2 + text.length) '─' ++ [b, ' '])).length
      = p * 2 + text.length + 4 := by intro a b; simp
  unfold drawMultiq
  simp only [htr, if_true]
  constructor
  · intro h
    simp only [if_pos h]
    have := setChar_get (' ' :: '┌' :: (rep (p * 2 + text.length) '─' ++ ['┐', ' ']))
      ((' ' :: '└' :: (rep (p * 2 + text.length) '─' ++ ['┘', ' '])).length / 2) '┴' (by rw [e, e]; omega)
    simp only [e] at this ⊢
    exact this
  · intro h
    simp only [if_pos h]
    have := setChar_get (' ' :: '└' :: (rep (p * 2 + text.length) '─' ++ ['┘', ' ']))
      ((' ' :: '└' :: (rep (p * 2 + text.length) '─' ++ ['┘', ' '])).length / 2) '┬' (by rw [e]; omega)
    simp only [e] at this ⊢
    exact this

/-- the pieces of the target pass on the highest and on the lowest target wire carry the box's
top / bottom frame -/
theorem updTargetMultiq_ends (ts cs : List Nat) (b : Box) (hne : ts ≠ []) (hshape : ts.length = 1 ∨ lmin ts < lmax ts) :
    (∃ g, (lmax ts, g) ∈ updTargetMultiq v ts cs (pyRange (lmin ts) (lmax ts + 1)) b ∧ g.top = b.top) ∧
    (∃ g, (lmin ts, g) ∈ updTargetMultiq v ts cs (pyRange (lmin ts) (lmax ts + 1)) b ∧ g.bot = b.bot) := by
  have hmm : lmin ts ≤ lmax ts := lmin_le (lmax_mem hne)
  have hlen : (pyRange (lmin ts) (lmax ts + 1)).length = lmax ts + 1 - lmin ts := by simp [pyRange]
  unfold updTargetMultiq
  rw [hlen]
  unfold pyRange
  rw [zip_range_range', List.map_map]
  constructor
  · have hq : lmin ts + (lmax ts - lmin ts) = lmax ts := by omega
    refine ⟨targetSeg v ts cs (lmax ts + 1 - lmin ts) b (lmax ts - lmin ts) (lmax ts),
      List.mem_map.mpr ⟨lmax ts - lmin ts, List.mem_range.mpr (by omega), ?_⟩, ?_⟩
    · simp only [Function.comp, hq]
    · unfold targetSeg
      by_cases hone : ts.length = 1
      · rw [if_pos hone]
      · have hlt : lmin ts < lmax ts := by rcases hshape with h | h; exact absurd h hone; exact h
        rw [if_neg hone, if_neg (by omega), if_pos ⟨by omega, lmax_mem hne⟩]
  · refine ⟨targetSeg v ts cs (lmax ts + 1 - lmin ts) b 0 (lmin ts),
      List.mem_map.mpr ⟨0, List.mem_range.mpr (by omega), ?_⟩, ?_⟩
    · simp only [Function.comp, Nat.add_zero]
    · unfold targetSeg
      by_cases hone : ts.length = 1
      · rw [if_pos hone]
      · rw [if_neg hone, if_pos ⟨rfl, lmin_mem hne⟩]

/-- the piece of the target pass on a control strictly between the targets carries the node `█`
at the link column, inside the box (repaired tree, `insideNode`) -/
theorem updTargetMultiq_inside (hv : v.insideNode = true) (ts cs : List Nat) (b : Box) {n : Nat} (hb : BoxW n b)
    {w : Nat} (h1 : lmin ts < w) (h2 : w < lmax ts) (hnt : w ∉ ts) (hc : w ∈ cs) :
    ∃ g, (w, g) ∈ updTargetMultiq v ts cs (pyRange (lmin ts) (lmax ts + 1)) b ∧
      g.mid = setChar b.midFrame (n / 2) '█' ∧ g.top = b.midFrame ∧ g.bot = b.midFrame := by
  have hlen : (pyRange (lmin ts) (lmax ts + 1)).length = lmax ts + 1 - lmin ts := by simp [pyRange]
  unfold updTargetMultiq
  rw [hlen]
  unfold pyRange
  rw [zip_range_range', List.map_map]
  have hq : lmin ts + (w - lmin ts) = w := by omega
  refine ⟨targetSeg v ts cs (lmax ts + 1 - lmin ts) b (w - lmin ts) w,
    List.mem_map.mpr ⟨w - lmin ts, List.mem_range.mpr (by omega), ?_⟩, ?_⟩
  · simp only [Function.comp, hq]
  · have hone : ¬ ts.length = 1 := by
      intro h
      match ts, h with
      | [t], _ => simp only [lmin, lmax, List.foldl_nil] at h1 h2; omega
    unfold targetSeg
    rw [if_neg hone, if_neg (fun h => hnt h.2), if_neg (fun h => hnt h.2)]
    simp only [hv, hc, and_self, if_true, hb.midFrame]

/-! ### SWAP -/

/-- the piece `_update_swap_gate` appends to wire `w` -/
def swapSeg (p : Nat) (wl : List Nat) (w : Nat) : Seg :=
  let h := (4 * p + 1) / 2
  let cross := rep h '─' ++ '╳' :: rep h '─'
  let bar := rep h ' ' ++ '│' :: rep h ' '
  let midBar := rep h '─' ++ '│' :: rep h '─'
  let blank := rep bar.length ' '
  if some w = wl.getLast? then { top := blank, mid := cross, bot := bar }
  else if some w = wl.head? then { top := bar, mid := cross, bot := blank }
  else { top := bar, mid := midBar, bot := bar }

theorem updSwap_eq (p : Nat) (wl : List Nat) : updSwap p wl = wl.map fun w => (w, swapSeg p wl w) := by
  unfold updSwap swapSeg
  apply List.map_congr_left
  intro w _
  simp only []
  split
  · rfl
  · split <;> rfl

theorem updSwap_mem {p : Nat} {a b w : Nat} (hab : a ≤ b) (hw : a ≤ w ∧ w ≤ b) :
    ∃ g, (w, g) ∈ updSwap p (pyRange a (b + 1)) ∧
      g.mid[(4 * p + 1) / 2]? = some (if w = a ∨ w = b then '╳' else '│') ∧
      (w ≠ b → g.top[(4 * p + 1) / 2]? = some '│') ∧ (w = b ∨ w ≠ a → g.bot[(4 * p + 1) / 2]? = some '│') := by
  have hmem : w ∈ pyRange a (b + 1) := mem_pyRange.mpr ⟨hw.1, by omega⟩
  have hl : (pyRange a (b + 1)).getLast? = some b := by rw [pyRange_getLast? (by omega)]; rfl
  have hh : (pyRange a (b + 1)).head? = some a := pyRange_head? (by omega)
  refine ⟨swapSeg p (pyRange a (b + 1)) w, by rw [updSwap_eq]; exact List.mem_map.mpr ⟨w, hmem, rfl⟩, ?_⟩
  unfold swapSeg
  rw [hl, hh]
  by_cases h1 : w = b
  · subst h1
    simp only [if_true, or_true]
    exact ⟨mid3 .., fun h => absurd rfl h, fun _ => mid3 ..⟩
  · have h1' : ¬ some w = some b := by simpa using h1
    simp only [if_neg h1']
    by_cases h2 : w = a
    · subst h2
      simp only [if_true, true_or]
      refine ⟨mid3 .., fun _ => mid3 .., ?_⟩
      intro h; rcases h with h | h
      · exact absurd h h1
      · exact absurd rfl h
    · have h2' : ¬ some w = some a := by simpa using h2
      simp only [if_neg h2', h1, h2, or_self, if_false]
      exact ⟨mid3 .., fun _ => mid3 .., fun _ => mid3 ..⟩

/-! ### measurement -/

theorem drawMeas_glyphs (p N t0 store : Nat) (h : store + N > t0) :
    (drawMeas p N t0 store).mid[(drawMeas p N t0 store).top.length / 2]? = some 'M' ∧
    (drawMeas p N t0 store).bot[(drawMeas p N t0 store).top.length / 2]? = some '╥' := by
  have hw := drawMeas_w p N t0 store
  have hs := drawSingleq_w p ['M']
  simp only [List.length_cons, List.length_nil] at hs
  rw [hw.top]
  have hhalf : (p * 2 + 5) / 2 = p + 2 := by omega
  constructor
  · rw [drawMeas_mid, hhalf]
    simp only [drawSingleq]
    show ('─' :: '┤' :: (rep p ' ' ++ ['M'] ++ rep p ' ' ++ ['├', '─']))[p + 1 + 1]? = some 'M'
    rw [List.getElem?_cons_succ, List.getElem?_cons_succ, List.append_assoc, List.append_assoc]
    exact mid3 ..
  · unfold drawMeas
    rw [if_pos h]
    simp only []
    have := setChar_get (drawSingleq p ['M']).bot ((drawSingleq p ['M']).bot.length / 2) '╥' (by rw [hs.bot]; omega)
    rw [hs.bot] at this ⊢
    simpa using this

theorem updCbridge_mem {N t0 store : Nat} {wl : List Nat} {width w : Nat} (hw : w ∈ wl) (hne : w ≠ t0) :
    ∃ g, (w, g) ∈ updCbridge N t0 store wl width ∧ g.top[width / 2]? = some '║' ∧
      g.mid[width / 2]? = some (if w = N + store then '╩' else '║') ∧
      (w ≠ N + store → g.bot[width / 2]? = some '║') := by
  by_cases hs : w = N + store
  · refine ⟨_, List.mem_filterMap.mpr ⟨w, hw, by rw [if_neg hne, if_pos hs]⟩, mid3 .., ?_, fun h => absurd hs h⟩
    rw [if_pos hs]; exact mid3 ..
  · refine ⟨_, List.mem_filterMap.mpr ⟨w, hw, by rw [if_neg hne, if_neg hs]⟩, mid3 .., ?_, fun _ => mid3 ..⟩
    rw [if_neg hs]
    simp only []
    split <;> exact mid3 ..

end QipVerif.Render
