import Mathlib.Algebra.BigOperators.Group.List.Basic
import Mathlib.Algebra.Group.Commute.Defs
import Mathlib.Data.List.Perm.Basic
import Mathlib.Data.List.Nodup
/-!
# Trace-monoid lemma

A re-ordering of a word that only exchanges commuting letters has the same product.
Generic: any monoid `M`, any interpretation `g : ι → M` of the letters.  Used by C05
(scheduled order vs. original order of the gates).
-/
namespace QipVerif

variable {ι M : Type*} [Monoid M]

/-- `i` occurs before `j` in `l` -/
def Before (l : List ι) (i j : ι) : Prop := [i, j].Sublist l

theorem prod_commute_left (g : ι → M) (a : ι) (p : List ι)
    (h : ∀ x ∈ p, Commute (g x) (g a)) : (p.map g).prod * g a = g a * (p.map g).prod := by
  induction p with
  | nil => simp
  | cons x p ih =>
    have hx := h x (by simp)
    have := ih (fun y hy => h y (by simp [hy]))
    simp only [List.map_cons, List.prod_cons]
    rw [mul_assoc, this, ← mul_assoc, hx.eq, mul_assoc]

/-- **Trace-monoid lemma**: if `l'` is a permutation of `l` and every pair of letters whose
relative order differs between `l` and `l'` commutes, the two products are equal. -/
theorem trace_lemma (g : ι → M) :
    ∀ (l l' : List ι), l.Perm l' →
      (∀ i j, Before l i j → Before l' j i → Commute (g i) (g j)) →
      (l.map g).prod = (l'.map g).prod := by
  intro l
  induction l with
  | nil => intro l' hp _; simp [List.Perm.nil_eq hp]
  | cons a t ih =>
    intro l' hp hc
    have ha : a ∈ l' := hp.subset (by simp)
    obtain ⟨p, s, rfl⟩ := List.append_of_mem ha
    have hpt : t.Perm (p ++ s) := (List.perm_cons a).mp (hp.trans List.perm_middle)
    have hpa : ∀ x ∈ p, Commute (g x) (g a) := by
      intro x hx
      have hxt : x ∈ t := hpt.symm.subset (by simp [hx])
      refine (hc a x ?_ ?_).symm
      · exact List.Sublist.cons_cons a (List.singleton_sublist.mpr hxt)
      · have h1 : [x].Sublist p := List.singleton_sublist.mpr hx
        have h2 : [a].Sublist (a :: s) := List.Sublist.cons_cons a (List.nil_sublist s)
        have h3 := List.Sublist.append h1 h2
        simpa [Before] using h3
    have hrest := ih (p ++ s) hpt (by
      intro i j hij hji
      apply hc i j
      · exact List.Sublist.cons a hij
      · exact hji.trans (List.Sublist.append (List.Sublist.refl p) (List.sublist_cons_self a s)))
    simp only [List.map_cons, List.prod_cons, List.map_append, List.prod_append]
    rw [hrest]
    simp only [List.map_append, List.prod_append]
    rw [← mul_assoc, ← prod_commute_left g a p hpa, mul_assoc]

end QipVerif
