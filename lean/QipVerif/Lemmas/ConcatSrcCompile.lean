import QipVerif.Lemmas.ConcatCompile
import QipVerif.Model.ConcatSrc
/-! `GateCompiler.compile` around any concatenation function (C12): schedule, group by label, concatenate. -/
namespace QipVerif.Concat

/-- the instructions `compile` keeps -/
def keptInstrs (dropZero : Bool) (instrs0 : List Instr) : List Instr :=
  if dropZero then instrs0.filter (fun i => i.duration != 0) else instrs0

theorem compileWith_channels (dropZero : Bool)
    (cat : List (List (Rat × Wave)) → Except Err (List (Option (List Rat × List Rat))))
    (instrs0 : List Instr) (sch : Option (List Rat × List Nat))
    (is : List Instr) (starts : List Rat) (groups : List (Nat × List (Rat × Wave)))
    (hne : keptInstrs dropZero instrs0 ≠ []) (hs : schedule (keptInstrs dropZero instrs0) sch = .ok (is, starts))
    (hg : groupPulses (is.zip starts) [] = some groups) :
    (groups.map (·.1)).Nodup ∧ (∀ g ∈ groups, g.2 ≠ [] ∧ g.2 = chanOf g.1 (is.zip starts)) ∧
    compileWith dropZero cat instrs0 sch =
      (match cat (groups.map (·.2)) with
       | .error e => some (.error e)
       | .ok outs => some (.ok (some ((groups.map (·.1)).zip outs)))) := by
  obtain ⟨g1, g2, g3⟩ := groupPulses_spec (is.zip starts) [] groups hg
  have hnd := g2 (by simp)
  have hnonempty := g3 (by simp)
  refine ⟨hnd, ?_, ?_⟩
  · intro g hgm
    refine ⟨hnonempty g hgm, ?_⟩
    rw [← chanLookup_of_mem hnd hgm, g1 g.1]; simp [chanLookup]
  · have he : (keptInstrs dropZero instrs0).isEmpty = false := by
      cases h : keptInstrs dropZero instrs0 <;> simp_all
    unfold compileWith
    simp only [keptInstrs] at he hs
    simp only [he, hs, hg, Bool.false_eq_true, if_false]
    rfl

end QipVerif.Concat

namespace QipVerif.Concat

/-! ### `Instruction.__init__` and the recorded durations -/

theorem cumStartsD_eq (ids : List (Instr × Rat)) (h : ∀ id ∈ ids, id.2 = id.1.duration) :
    ∀ acc, cumStartsD acc ids = cumStarts acc (ids.map (·.1)) := by
  induction ids with
  | nil => intro acc; rfl
  | cons id rest ih =>
    intro acc
    obtain ⟨i, d⟩ := id
    have hd : d = i.duration := h (i, d) (by simp)
    simp only [cumStartsD, List.map_cons, cumStarts, hd]
    rw [ih (fun id hid => h id (by simp [hid]))]

theorem scheduleD_eq (ids : List (Instr × Rat)) (h : ∀ id ∈ ids, id.2 = id.1.duration)
    (sch : Option (List Rat × List Nat)) : scheduleD ids sch = schedule (ids.map (·.1)) sch := by
  cases sch with
  | none => simp only [scheduleD, schedule, cumStartsD_eq ids h]
  | some sp => rfl

theorem filter_durations (ids : List (Instr × Rat)) (h : ∀ id ∈ ids, id.2 = id.1.duration) :
    (ids.filter (fun id => id.2 != 0)).map (·.1) = (ids.map (·.1)).filter (fun i => i.duration != 0) := by
  induction ids with
  | nil => rfl
  | cons id rest ih =>
    obtain ⟨i, d⟩ := id
    have hd : d = i.duration := h (i, d) (by simp)
    have ih' := ih (fun id hid => h id (by simp [hid]))
    simp only [List.filter_cons, List.map_cons, hd]
    by_cases hz : (i.duration != 0) = true
    · simp only [hz, if_true, List.map_cons, ih']
    · simp only [hz, Bool.false_eq_true, if_false, ih']

/-- **with the recorded duration equal to `Instruction.duration` of the model, `compile` on constructed instructions is
`compileWith` on the instructions as stored** -/
theorem compileD_eq (dropZero : Bool)
    (cat : List (List (Rat × Wave)) → Except Err (List (Option (List Rat × List Rat))))
    (ids : List (Instr × Rat)) (h : ∀ id ∈ ids, id.2 = id.1.duration) (sch : Option (List Rat × List Nat)) :
    compileD dropZero cat ids sch = compileWith dropZero cat (ids.map (·.1)) sch := by
  unfold compileD compileWith
  cases dropZero with
  | false =>
    simp only [Bool.false_eq_true, if_false, scheduleD_eq ids h, List.isEmpty_map]
  | true =>
    have hf : ∀ id ∈ ids.filter (fun id => id.2 != 0), id.2 = id.1.duration :=
      fun id hid => h id (List.mem_filter.mp hid).1
    simp only [if_true, scheduleD_eq _ hf, filter_durations ids h]
    rw [← filter_durations ids h, List.isEmpty_map]

theorem init_duration (s : InstrSrc) (hs : s.Standard) (i i' : Instr) (d : Rat) (h : s.init i = some (i', d)) :
    d = i'.duration := by
  obtain ⟨_, h1, h0⟩ := hs
  unfold InstrSrc.init at h
  cases htl : i.tl with
  | scalar t =>
    rw [htl] at h
    simp only [Option.some.injEq, Prod.mk.injEq] at h
    obtain ⟨rfl, rfl⟩ := h
    simp [Instr.duration, htl]
  | arr tl =>
    rw [htl] at h
    simp only at h
    split at h
    · cases h
    · simp only [Option.some.injEq, Prod.mk.injEq] at h
      obtain ⟨rfl, rfl⟩ := h
      simp only [Instr.duration, h1, h0]
      grind

theorem initAll_durations (s : InstrSrc) (hs : s.Standard) (instrs : List Instr) :
    ∀ ids, initAll s instrs = some ids → ∀ id ∈ ids, id.2 = id.1.duration := by
  induction instrs with
  | nil => intro ids h id hid; simp [initAll] at h; subst h; simp at hid
  | cons i rest ih =>
    intro ids h id hid
    simp only [initAll] at h
    cases hi : s.init i with
    | none => rw [hi] at h; simp at h
    | some a =>
      cases hr : initAll s rest with
      | none => rw [hi, hr] at h; simp at h
      | some as =>
        rw [hi, hr] at h
        simp only [Option.some.injEq] at h
        subst h
        rcases List.mem_cons.mp hid with rfl | hid
        · exact init_duration s hs i id.1 id.2 hi
        · exact ih as hr id hid

/-- **fixes/C12-6.patch: the stored time sequence of a sampled instruction starts at exactly 0** (and is still strictly
increasing, with the same pulses): the hypothesis `tl.head? = some 0` of `WaveOK` then holds for every accepted instruction. -/
theorem init_shift_head (s : InstrSrc) (hs : s.shift = true) (i i' : Instr) (d : Rat) (tl : List Rat)
    (htl : i.tl = .arr tl) (hne : tl ≠ []) (h : s.init i = some (i', d)) :
    ∃ tl', i'.tl = .arr tl' ∧ tl'.head? = some 0 ∧ tl'.length = tl.length ∧
      (tl.Pairwise (· < ·) → tl'.Pairwise (· < ·)) ∧ i'.pulses = i.pulses := by
  unfold InstrSrc.init at h
  rw [htl] at h
  simp only at h
  split at h
  · cases h
  · simp only [Option.some.injEq, Prod.mk.injEq] at h
    obtain ⟨rfl, _⟩ := h
    obtain ⟨a, r, rfl⟩ : ∃ a r, tl = a :: r := by
      cases tl with
      | nil => exact absurd rfl hne
      | cons a r => exact ⟨a, r, rfl⟩
    simp only [List.head?_cons, Option.getD_some, hs, Bool.true_and]
    by_cases h0 : a = 0
    · subst h0
      refine ⟨0 :: r, by simp, rfl, rfl, id, ?_⟩
      simp
    · have hb : (a != 0) = true := by simp [h0]
      refine ⟨(a :: r).map (· - a), by simp [hb], ?_, by simp, ?_, by simp⟩
      · simp only [List.map_cons, List.head?_cons]; congr 1; grind
      · intro hp
        rw [List.pairwise_map]
        exact List.Pairwise.imp (fun {x y} hxy => by grind) hp

/-- **The convention for a first entry that is not 0** (code without the shift): `_process_gate_pulse` never reads
`tlist[0]` except for the step size — the points, coefficients and kind of the pulse are those of the sequence with its
first entry replaced by 0, the step size is `tlist[1] - tlist[0]`. -/
theorem procPulse_head_ignored (a b : Rat) (rest cs : List Rat) (p : Proc)
    (h : procPulse (.arr (0 :: b :: rest) cs) = .ok p) :
    procPulse (.arr (a :: b :: rest) cs) = .ok { p with step := b - a } := by
  simp only [procPulse, List.length_cons] at h ⊢
  split at h
  · rename_i h1; cases h; rw [if_pos h1]
  · rename_i h1
    split at h
    · rename_i h2; cases h; rw [if_neg h1, if_pos h2]
    · cases h

end QipVerif.Concat

namespace QipVerif.Concat

theorem map_fst_withDuration (l : List Instr) : (l.map fun i => (i, i.duration)).map (·.1) = l := by
  induction l with
  | nil => rfl
  | cons a l ih => simp only [List.map_cons, ih]

/-- instructions with a scalar `tlist` (one rectangular pulse) are stored as they are, with `duration = tlist` -/
theorem initAll_scalar (s : InstrSrc) (instrs : List Instr) (h : ∀ i ∈ instrs, ∃ t, i.tl = .scalar t) :
    initAll s instrs = some (instrs.map fun i => (i, i.duration)) := by
  induction instrs with
  | nil => rfl
  | cons i rest ih =>
    obtain ⟨t, ht⟩ := h i (by simp)
    have hi : s.init i = some (i, i.duration) := by simp [InstrSrc.init, Instr.duration, ht]
    simp only [initAll, hi, ih (fun j hj => h j (by simp [hj])), List.map_cons]

end QipVerif.Concat
