import QipVerif.Lemmas.ConcatCompile
import QipVerif.Model.ConcatSrc
/-! `GateCompiler.compile` around any concatenation function (C12): schedule, group by label, concatenate. -/
namespace QipVerif.Concat

/-- the instructions `compile` keeps -/
def keptInstrs (dropZero : Bool) (instrs0 : List Instr) : List Instr :=
  if dropZero then instrs0.filter (fun i => i.duration != 0) else instrs0

theorem compileWith_channels (dropZero : Bool)
    (cat : List (List (Rat × Wave)) → Except Err (List (Option (List Rat × List Rat))))
    (instrs0 : List Instr) (sch : Option (List Rat × List Nat))
    (is : List Instr) (starts : List Rat) (groups : List (Nat × List (Rat × Wave)))
    (hne : keptInstrs dropZero instrs0 ≠ []) (hs : schedule (keptInstrs dropZero instrs0) sch = .ok (is, starts))
    (hg : groupPulses (is.zip starts) [] = some groups) :
    (groups.map (·.1)).Nodup ∧ (∀ g ∈ groups, g.2 ≠ [] ∧ g.2 = chanOf g.1 (is.zip starts)) ∧
    compileWith dropZero cat instrs0 sch =
      (match cat (groups.map (·.2)) with
       | .error e => some (.error e)
       | .ok outs => some (.ok (some ((groups.map (·.1)).zip outs)))) := by
  obtain ⟨g1, g2, g3⟩ := groupPulses_spec (is.zip starts) [] groups hg
  have hnd := g2 (by simp)
  have hnonempty := g3 (by simp)
  refine ⟨hnd, ?_, ?_⟩
  · intro g hgm
    refine ⟨hnonempty g hgm, ?_⟩
    rw [← chanLookup_of_mem hnd hgm, g1 g.1]; simp [chanLookup]
  · have he : (keptInstrs dropZero instrs0).isEmpty = false := by
      cases h : keptInstrs dropZero instrs0 <;> simp_all
    unfold compileWith
    simp only [keptInstrs] at he hs
    simp only [he, hs, hg, Bool.false_eq_true, if_false]
    rfl

end QipVerif.Concat
