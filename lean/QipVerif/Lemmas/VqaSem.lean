import QipVerif.Lemmas.VqaExp
import QipVerif.Lemmas.VqaList
import QipVerif.Lemmas.VqaMonoid
/-!
# Matrix semantics of the blocks of a `VQA` (C19)

`SBlock` gives every block of `Model/Vqa.lean` its matrices: what `VQABlock.get_unitary` and
`VQABlock.get_unitary_derivative` compute, written with Mathlib's matrix exponential.

* fixed unitary (`is_unitary=True`) / native gate (string): a constant matrix, no parameter;
* Hamiltonian block: `get_unitary([θ]) = (-1j * θ * H).expm()`,
  `get_unitary_derivative([θ]) = get_unitary([θ]) * -1j * H`;
* `ParameterizedHamiltonian(terms, const)`: `get_unitary(p) = (-1j * (Σ p_j H_j + const)).expm()`,
  `get_unitary_derivative(p, t) = expm_frechet(-1j * (Σ p_j H_j + const), -1j * H_t)`
  with `expm_frechet(A, E) :=` the derivative of `exp` at `A` in direction `E` (`expFrechet`).

`SBlock.mderiv` proves that the second is the partial derivative of the first with respect to parameter
`t` of the block, for every block and all matrices.  `props` are the propagators of the constructed
circuit and `propsFrom_set` shows that changing the flat parameter `start_k + t` changes propagator `k`
only.  Python functions as blocks are not represented (their derivative raises `TypeError`).
-/
namespace QipVerif.Vqa
open Matrix NormedSpace
open scoped Matrix.Norms.Operator
set_option linter.unusedSectionVars false
variable {n : Type} [Fintype n] [DecidableEq n]

inductive SBlock (n : Type) where
  /-- `VQABlock(Qobj, is_unitary=True)` -/
  | fixed (U : Matrix n n ℂ) (initial : Bool)
  /-- `VQABlock("NAME", targets=…)`: the (expanded) matrix of the library gate -/
  | native (U : Matrix n n ℂ) (initial : Bool)
  /-- `VQABlock(Qobj)`: Hamiltonian with one global parameter -/
  | ham (H : Matrix n n ℂ) (initial : Bool)
  /-- `VQABlock(ParameterizedHamiltonian(terms, const))` (`c = 0` for `constant_term=None`) -/
  | pham (terms : List (Matrix n n ℂ)) (c : Matrix n n ℂ) (initial : Bool)

/-- the bookkeeping view of a block (what `Model/Vqa.lean` sees) -/
def SBlock.toBlock : SBlock n → Block
  | .fixed _ ini => ⟨.unitary, 0, ini⟩
  | .native _ ini => ⟨.native, 0, ini⟩
  | .ham _ ini => ⟨.ham, 0, ini⟩
  | .pham ts _ ini => ⟨.pham, ts.length, ini⟩

/-- `sum(param * H for param, H in zip(p_terms, params))` -/
def hamSum : List (Matrix n n ℂ) → List ℝ → Matrix n n ℂ
  | H :: hs, a :: as => ((a : ℝ) : ℂ) • H + hamSum hs as
  | _, _ => 0

/-- `VQABlock.get_unitary(args)` (`args` = the block's slice of the parameter vector; `None` ↦ `[]`) -/
noncomputable def SBlock.unitary : SBlock n → List ℝ → Matrix n n ℂ
  | .fixed U _, _ => U
  | .native U _, _ => U
  | .ham H _, args => exp ((-Complex.I * ((args.headD 0 : ℝ) : ℂ)) • H)
  | .pham ts c _, args => exp ((-Complex.I) • (hamSum ts args + c))

/-- `VQABlock.get_unitary_derivative(args, term_index)` -/
noncomputable def SBlock.dUnitary : SBlock n → List ℝ → Nat → Matrix n n ℂ
  | .ham H ini, args, _ => (SBlock.ham H ini).unitary args * ((-Complex.I) • H)
  | .pham ts c _, args, t =>
      expFrechet ((-Complex.I) • (hamSum ts args + c)) ((-Complex.I) • ts.getD t 0)
  | _, _, _ => 0

theorem hamSum_set (ts : List (Matrix n n ℂ)) (args : List ℝ) (term : Nat) (t : ℝ)
    (h1 : term < ts.length) (h2 : term < args.length) :
    hamSum ts (args.set term t) =
      hamSum ts args + (((t - args.getD term 0 : ℝ)) : ℂ) • ts.getD term 0 := by
  induction ts generalizing args term with
  | nil => simp at h1
  | cons H hs ih =>
    cases args with
    | nil => simp at h2
    | cons a as =>
      cases term with
      | zero =>
        simp only [List.set_cons_zero, hamSum, List.getD_cons_zero, Complex.ofReal_sub, sub_smul]
        abel
      | succ r =>
        simp only [List.set_cons_succ, hamSum, List.getD_cons_succ]
        rw [ih as r (by simpa using h1) (by simpa using h2)]
        abel

/-- **The block derivative is the partial derivative of the block unitary** with respect to its
parameter `term`, for every kind of block, all matrices, all parameter values. -/
theorem SBlock.mderiv (b : SBlock n) (args : List ℝ) (term : Nat)
    (hn : args.length = b.toBlock.nparams) (ht : term < b.toBlock.nparams) :
    MDeriv (fun t => b.unitary (args.set term t)) (b.dUnitary args term) (args.getD term 0) := by
  cases b with
  | fixed U ini => simp [SBlock.toBlock, Block.nparams] at ht
  | native U ini => simp [SBlock.toBlock, Block.nparams] at ht
  | ham H ini =>
    simp only [SBlock.toBlock, Block.nparams] at hn ht
    obtain ⟨a, rfl⟩ : ∃ a, args = [a] := by
      match args, hn with
      | [a], _ => exact ⟨a, rfl⟩
    have h0 : term = 0 := by omega
    subst h0
    simp only [List.set_cons_zero, SBlock.unitary, SBlock.dUnitary, List.headD_cons, List.getD_cons_zero]
    exact MDeriv_of_hasDerivAt (hasDerivAt_exp_ham H a)
  | pham ts c ini =>
    simp only [SBlock.toBlock, Block.nparams] at hn ht
    simp only [SBlock.unitary, SBlock.dUnitary]
    apply MDeriv_of_hasDerivAt
    have h := hasDerivAt_exp_affine ((-Complex.I) • (hamSum ts args + c)) ((-Complex.I) • ts.getD term 0)
      (args.getD term 0)
    refine h.congr_of_eventuallyEq (Filter.Eventually.of_forall fun t => ?_)
    show exp _ = exp _
    congr 1
    rw [hamSum_set ts args term t ht (by omega), real_smul_eq]
    simp only [smul_add, smul_smul]
    abel

/-! ## propagators -/

/-- block `j` of `VQA.blocks` -/
def sbAt (sbs : List (SBlock n)) (j : Nat) : SBlock n := sbs.getD j (.fixed 1 false)

/-- the propagator of one gate of the constructed circuit: the user gate `lambda angles=None:
block.get_unitary(angles)` applied to `arg_value` (a native gate: its fixed matrix) -/
noncomputable def gateUnitary (sbs : List (SBlock n)) (g : CGate ℝ) : Matrix n n ℂ :=
  (sbAt sbs g.blk).unitary (g.arg.getD [])

/-- `construct_circuit(θ).propagators()` -/
noncomputable def props (sbs : List (SBlock n)) (L : Nat) (θ : List ℝ) : List (Matrix n n ℂ) :=
  (constructCircuit (sbs.map SBlock.toBlock) L θ).map (gateUnitary sbs)

noncomputable def propsFrom (sbs : List (SBlock n)) (θ : List ℝ) : List IBlock → Nat → List (Matrix n n ℂ)
  | [], _ => []
  | jb :: rest, i =>
    (sbAt sbs jb.1).unitary (slice θ i jb.2.nparams) :: propsFrom sbs θ rest (i + jb.2.nparams)

theorem slice_zero {α : Type} (θ : List α) (i : Nat) : slice θ i 0 = [] := by simp [slice]

theorem gateOf_arg (θ : List ℝ) (jb : IBlock) (i : Nat) :
    (gateOf θ jb i).arg.getD [] = slice θ i jb.2.nparams ∧ (gateOf θ jb i).blk = jb.1 := by
  unfold gateOf
  by_cases h : jb.2.kind = .native
  · simp [h, nparams_native h, slice_zero]
  · by_cases h0 : jb.2.nparams > 0
    · simp [h, h0]
    · have : jb.2.nparams = 0 := by omega
      simp [h, this, slice_zero]

theorem seriesGates_map (sbs : List (SBlock n)) (θ : List ℝ) (s : List IBlock) (i : Nat) :
    (seriesGates θ s i).map (gateUnitary sbs) = propsFrom sbs θ s i := by
  induction s generalizing i with
  | nil => simp [seriesGates, propsFrom]
  | cons jb rest ih =>
    simp only [seriesGates, propsFrom, List.map_cons, ih, gateUnitary, (gateOf_arg θ jb i).1,
      (gateOf_arg θ jb i).2]

theorem props_eq (sbs : List (SBlock n)) (L : Nat) (θ : List ℝ) (hL : 0 < L) :
    props sbs L θ = propsFrom sbs θ (blockSeries (sbs.map SBlock.toBlock) L) 0 := by
  rw [props, constructCircuit_eq _ _ _ hL, seriesGates_map]

theorem propsFrom_length (sbs : List (SBlock n)) (θ : List ℝ) (s : List IBlock) (i : Nat) :
    (propsFrom sbs θ s i).length = s.length := by
  induction s generalizing i with
  | nil => simp [propsFrom]
  | cons jb rest ih => simp [propsFrom, ih]

theorem propsFrom_getElem? (sbs : List (SBlock n)) (θ : List ℝ) (s : List IBlock) (i k : Nat) :
    (propsFrom sbs θ s i)[k]? =
      (s[k]?).map (fun jb => (sbAt sbs jb.1).unitary (slice θ (i + sumParams (s.take k)) jb.2.nparams)) := by
  induction s generalizing i k with
  | nil => simp [propsFrom]
  | cons jb rest ih =>
    cases k with
    | zero => simp [propsFrom, sumParams]
    | succ k => simp [propsFrom, ih, sumParams, Nat.add_assoc]

/-! ## slices of a vector with one entry changed -/

theorem slice_set_lt {α : Type} (θ : List α) (p i m : Nat) (t : α) (h : p < i) :
    slice (θ.set p t) i m = slice θ i m := by
  apply List.ext_getElem?
  intro r
  simp only [slice, List.getElem?_take, List.getElem?_drop, List.getElem?_set]
  split <;> [skip; rfl]
  rw [if_neg (by omega)]

theorem slice_set_ge {α : Type} (θ : List α) (p i m : Nat) (t : α) (h : i + m ≤ p) :
    slice (θ.set p t) i m = slice θ i m := by
  apply List.ext_getElem?
  intro r
  simp only [slice, List.getElem?_take, List.getElem?_drop, List.getElem?_set]
  split <;> [skip; rfl]
  rw [if_neg (by omega)]

theorem slice_set_in {α : Type} (θ : List α) (i m r : Nat) (t : α) (hr : r < m) :
    slice (θ.set (i + r) t) i m = (slice θ i m).set r t := by
  apply List.ext_getElem?
  intro q
  simp only [slice, List.getElem?_take, List.getElem?_drop, List.getElem?_set, List.length_take,
    List.length_drop]
  by_cases hq : q < m
  · simp only [hq, if_true]
    by_cases hqr : r = q
    · subst hqr
      simp only [if_true]
      by_cases hl : i + r < θ.length
      · rw [if_pos hl, if_pos (by omega)]
      · rw [if_neg hl, if_neg (by omega)]
    · rw [if_neg (by omega), if_neg hqr]
  · simp only [hq, if_false]
    by_cases hqr : r = q
    · omega
    · rw [if_neg hqr]

theorem propsFrom_set_lt (sbs : List (SBlock n)) (θ : List ℝ) (p : Nat) (t : ℝ) (s : List IBlock) (i : Nat)
    (h : p < i) : propsFrom sbs (θ.set p t) s i = propsFrom sbs θ s i := by
  induction s generalizing i with
  | nil => simp [propsFrom]
  | cons jb rest ih =>
    simp only [propsFrom, slice_set_lt θ p i _ t h, ih (i + jb.2.nparams) (by omega)]

/-- **Changing the flat parameter `start_k + term` changes propagator `k` only**, and there it changes
entry `term` of the block's slice. -/
theorem propsFrom_set (sbs : List (SBlock n)) (θ : List ℝ) (t : ℝ) (s : List IBlock) (i k term : Nat)
    (jb : IBlock) (hk : s[k]? = some jb) (ht : term < jb.2.nparams) :
    propsFrom sbs (θ.set (i + sumParams (s.take k) + term) t) s i =
      (propsFrom sbs θ s i).set k
        ((sbAt sbs jb.1).unitary ((slice θ (i + sumParams (s.take k)) jb.2.nparams).set term t)) := by
  induction s generalizing i k with
  | nil => simp at hk
  | cons jb0 rest ih =>
    cases k with
    | zero =>
      simp only [List.getElem?_cons_zero, Option.some.injEq] at hk
      subst hk
      simp only [List.take_zero, sumParams, Nat.add_zero, propsFrom, List.set_cons_zero]
      rw [slice_set_in θ i _ term t ht, propsFrom_set_lt sbs θ _ t rest _ (by omega)]
    | succ k =>
      simp only [List.getElem?_cons_succ] at hk
      simp only [List.take_succ_cons, sumParams, propsFrom, List.set_cons_succ]
      rw [slice_set_ge θ _ i _ t (by omega)]
      have := ih (i + jb0.2.nparams) k hk
      simp only [Nat.add_assoc] at this ⊢
      rw [this]

/-! ## when `compute_jac` does not raise, every requested slice lies inside the vector -/

theorem seriesErr_none_bound (m : Nat) (s : List IBlock) (i : Nat) (h : seriesErr m s i = none)
    (k : Nat) (jb : IBlock) (hk : s[k]? = some jb) (hpos : 0 < jb.2.nparams) :
    i + sumParams (s.take k) + jb.2.nparams ≤ m := by
  induction s generalizing i k with
  | nil => simp at hk
  | cons jb0 rest ih =>
    simp only [seriesErr] at h
    cases hb : blockErr m jb0.2 i with
    | some e => simp [hb] at h
    | none =>
      simp only [hb] at h
      cases k with
      | zero =>
        simp only [List.getElem?_cons_zero, Option.some.injEq] at hk
        subst hk
        simp only [List.take_zero, sumParams, Nat.add_zero]
        unfold blockErr at hb
        by_cases hn : jb0.2.kind = .native
        · have := nparams_native hn; omega
        · rw [if_neg hn, if_neg (by omega)] at hb
          by_cases hm : min jb0.2.nparams (m - i) ≠ jb0.2.nparams
          · simp [hm] at hb
          · omega
      | succ k =>
        simp only [List.getElem?_cons_succ] at hk
        have := ih (i + jb0.2.nparams) h k hk
        simp only [List.take_succ_cons, sumParams]
        omega

theorem slice_length {α : Type} (θ : List α) (i m : Nat) (h : i + m ≤ θ.length) :
    (slice θ i m).length = m := by
  simp [slice]; omega

theorem slice_getD (θ : List ℝ) (i m r : Nat) (hr : r < m) :
    (slice θ i m).getD r 0 = θ.getD (i + r) 0 := by
  simp [slice, List.getD_eq_getElem?_getD, List.getElem?_drop, hr]

theorem sbAt_toBlock (sbs : List (SBlock n)) (j : Nat) (b : Block)
    (h : (sbs.map SBlock.toBlock)[j]? = some b) : (sbAt sbs j).toBlock = b := by
  simp only [List.getElem?_map, Option.map_eq_some_iff] at h
  obtain ⟨sb, h1, h2⟩ := h
  simp [sbAt, List.getD_eq_getElem?_getD, h1, h2]


/-- matrices for the non-vacuity examples -/
def pauliX : Matrix (Fin 2) (Fin 2) ℂ := !![0, 1; 1, 0]
def pauliY : Matrix (Fin 2) (Fin 2) ℂ := !![0, -Complex.I; Complex.I, 0]
def pauliZ : Matrix (Fin 2) (Fin 2) ℂ := !![1, 0; 0, -1]

theorem pauliXZ_not_commute : ¬ Commute pauliX pauliZ := by
  intro h
  have := congrFun (congrFun h.eq 0) 1
  simp [pauliX, pauliZ, Matrix.mul_apply, Fin.sum_univ_two] at this
  have h2 := congrArg Complex.re this
  norm_num at h2

/-! ## cost and jacobian values -/

/-- `evaluate_parameters(θ)` in OBSERVABLE mode: `⟨ψ|U(θ)† O U(θ)|ψ⟩`, `U(θ)` the ordered product of the
propagators of `construct_circuit(θ)` -/
noncomputable def costOf (sbs : List (SBlock n)) (L : Nat) (ψ : n → ℂ) (O : Matrix n n ℂ) (θ : List ℝ) : ℂ :=
  cost ψ O (fullProd (· * ·) 1 (props sbs L θ))

/-- what `get_unitary_derivative` returns for a jacobian entry -/
noncomputable def entryDeriv (sbs : List (SBlock n)) (θ : List ℝ) (e : JEntry) : Matrix n n ℂ :=
  (sbAt sbs e.blk).dUnitary (slice θ e.start e.n) e.term

/-- the number `compute_jac` appends for an entry:
`cost_derivative(U, U_prods_back[n-1-k] * dBlock * U_prods[k])` -/
noncomputable def jacValue (sbs : List (SBlock n)) (L : Nat) (ψ : n → ℂ) (O : Matrix n n ℂ) (θ : List ℝ)
    (e : JEntry) : ℝ :=
  costDerivative ψ O (fullProd (· * ·) 1 (props sbs L θ))
    (modifyUnitary (· * ·) 1 (props sbs L θ) e.k (entryDeriv sbs θ e))

theorem jacValues_eq (sbs : List (SBlock n)) (L : Nat) (ψ : n → ℂ) (O : Matrix n n ℂ) (θ : List ℝ)
    (es : List JEntry) :
    jacValues (· * ·) 1 (props sbs L θ) (entryDeriv sbs θ) (costDerivative ψ O) es =
      es.map (jacValue sbs L ψ O θ) := rfl

theorem computeJac_ok {bs : List Block} {L m : Nat} {idx : Option (List Int)} {es : List JEntry}
    (h : computeJac false bs L m idx = .ok es) :
    seriesErr m (blockSeries bs L) 0 = none ∧ es = jacLoop (indices m idx) (blockSeries bs L) 0 0 := by
  unfold computeJac at h
  simp only [Bool.false_eq_true, ↓reduceIte] at h
  cases hs : seriesErr m (blockSeries bs L) 0 with
  | some e => simp [hs] at h
  | none =>
    simp only [hs] at h
    split at h
    · cases h
    · exact ⟨rfl, (Except.ok.inj h).symm⟩

/-- Everything `jac_entry_is_partial_derivative` needs about one entry: the propagator list with the flat
parameter `start + term` changed is the propagator list with factor `k` replaced by the block unitary at
the changed slice, and the block derivative is the derivative of that factor. -/
theorem entry_setup (sbs : List (SBlock n)) (L : Nat) (θ : List ℝ) (hL : 0 < L) (k term : Nat) (jb : IBlock)
    (hget : (blockSeries (sbs.map SBlock.toBlock) L)[k]? = some jb) (ht : term < jb.2.nparams)
    (hb : sumParams ((blockSeries (sbs.map SBlock.toBlock) L).take k) + jb.2.nparams ≤ θ.length) :
    ∃ (P : ℝ → Matrix n n ℂ) (hk : k < (props sbs L θ).length),
      (∀ t, props sbs L (θ.set (sumParams ((blockSeries (sbs.map SBlock.toBlock) L).take k) + term) t) =
        (props sbs L θ).set k (P t)) ∧
      P (θ.getD (sumParams ((blockSeries (sbs.map SBlock.toBlock) L).take k) + term) 0) = (props sbs L θ)[k] ∧
      MDeriv P ((sbAt sbs jb.1).dUnitary
          (slice θ (sumParams ((blockSeries (sbs.map SBlock.toBlock) L).take k)) jb.2.nparams) term)
        (θ.getD (sumParams ((blockSeries (sbs.map SBlock.toBlock) L).take k) + term) 0) := by
  set s := blockSeries (sbs.map SBlock.toBlock) L with hs
  set start := sumParams (s.take k) with hstart
  set args := slice θ start jb.2.nparams with hargs
  have hlen : args.length = jb.2.nparams := slice_length θ start _ hb
  have hself : args.set term (args.getD term 0) = args := by
    rw [List.getD_eq_getElem?_getD, List.getElem?_eq_getElem (by omega), Option.getD_some,
      List.set_getElem_self]
  have hgetD : args.getD term 0 = θ.getD (start + term) 0 := slice_getD θ start _ term ht
  have hkl : k < (props sbs L θ).length := by
    rw [props_eq sbs L θ hL, propsFrom_length]
    exact (List.getElem?_eq_some_iff.mp hget).1
  refine ⟨fun t => (sbAt sbs jb.1).unitary (args.set term t), hkl, fun t => ?_, ?_, ?_⟩
  · rw [props_eq sbs L _ hL, props_eq sbs L θ hL]
    have := propsFrom_set sbs θ t s 0 k term jb hget ht
    simpa only [Nat.zero_add] using this
  · have h1 : (props sbs L θ)[k]? = some ((sbAt sbs jb.1).unitary args) := by
      rw [props_eq sbs L θ hL, propsFrom_getElem?, hget]
      simp only [Option.map_some, Nat.zero_add]
      rfl
    rw [← hgetD]
    show (sbAt sbs jb.1).unitary (args.set term (args.getD term 0)) = _
    rw [hself]
    exact (Option.some.inj ((List.getElem?_eq_getElem hkl).symm.trans h1)).symm
  · have htb : (sbAt sbs jb.1).toBlock = jb.2 :=
      sbAt_toBlock sbs jb.1 jb.2 (blockSeries_mem (List.mem_of_getElem? hget))
    rw [← hgetD]
    exact SBlock.mderiv (sbAt sbs jb.1) args term (by rw [htb]; exact hlen) (by rw [htb]; exact ht)

end QipVerif.Vqa
