import QipVerif.Lemmas.NoiseLift
import QipVerif.Lemmas.NoiseKron
import Mathlib.Analysis.Matrix.Order
/-! Several subsystems (C15): product states of two subsystems of any dimensions, and a qubit joined
to any system whose own (linear) flow is known — for arbitrary, also entangled, joint states. -/
namespace QipVerif.Noise
open Matrix Kronecker ComplexOrder

section Product
set_option linter.unusedSectionVars false
variable {m n : Type} [Fintype m] [DecidableEq m] [Fintype n] [DecidableEq n]

/-- Leibniz rule: a product of local solutions is differentiable entrywise, with derivative
`(𝓛A ρA) ⊗ ρB + ρA ⊗ (𝓛B ρB)` -/
theorem hasDerivAt_kron (LA : Matrix m m ℂ → Matrix m m ℂ) (LB : Matrix n n ℂ → Matrix n n ℂ)
    (ρA : ℝ → Matrix m m ℂ) (ρB : ℝ → Matrix n n ℂ) (hA : Solves LA ρA) (hB : Solves LB ρB)
    (t : ℝ) (a b : m × n) :
    HasDerivAt (fun s => (ρA s ⊗ₖ ρB s) a b) ((LA (ρA t) ⊗ₖ ρB t + ρA t ⊗ₖ LB (ρB t)) a b) t := by
  simp only [kroneckerMap_apply, Matrix.add_apply]
  exact (hA t a.1 b.1).mul (hB t a.2 b.2)

theorem generator_kron_left (ops : List (ℝ × Matrix m m ℂ)) (ρA : Matrix m m ℂ) (ρB : Matrix n n ℂ) :
    generator 0 (ops.map fun o => (o.1, o.2 ⊗ₖ (1 : Matrix n n ℂ))) (ρA ⊗ₖ ρB) =
      generator 0 ops ρA ⊗ₖ ρB := by
  induction ops with
  | nil => simp [generator]
  | cons o os ih =>
    simp only [generator_zero_eq] at ih ⊢
    simp only [List.map_cons, List.sum_cons, ih, dissipator_kronecker_left, add_kronecker,
      smul_kronecker]

theorem generator_kron_right (ops : List (ℝ × Matrix n n ℂ)) (ρA : Matrix m m ℂ) (ρB : Matrix n n ℂ) :
    generator 0 (ops.map fun o => (o.1, (1 : Matrix m m ℂ) ⊗ₖ o.2)) (ρA ⊗ₖ ρB) =
      ρA ⊗ₖ generator 0 ops ρB := by
  induction ops with
  | nil => simp [generator]
  | cons o os ih =>
    simp only [generator_zero_eq] at ih ⊢
    simp only [List.map_cons, List.sum_cons, ih, dissipator_kronecker_right, kronecker_add,
      kronecker_smul]

/-- the Lindblad operators of two subsystems, each placed on its own factor -/
def jointOps (opsA : List (ℝ × Matrix m m ℂ)) (opsB : List (ℝ × Matrix n n ℂ)) :
    List (ℝ × Matrix (m × n) (m × n) ℂ) :=
  (opsA.map fun o => (o.1, o.2 ⊗ₖ (1 : Matrix n n ℂ))) ++
    (opsB.map fun o => (o.1, (1 : Matrix m m ℂ) ⊗ₖ o.2))

/-- **product states**: if `ρA(t)`, `ρB(t)` solve the local master equations then `ρA(t) ⊗ ρB(t)`
solves the joint one (any dimensions, any lists of local collapse operators) -/
theorem solves_kron (opsA : List (ℝ × Matrix m m ℂ)) (opsB : List (ℝ × Matrix n n ℂ))
    (ρA : ℝ → Matrix m m ℂ) (ρB : ℝ → Matrix n n ℂ)
    (hA : Solves (generator 0 opsA) ρA) (hB : Solves (generator 0 opsB) ρB) :
    Solves (generator 0 (jointOps opsA opsB)) (fun t => ρA t ⊗ₖ ρB t) := by
  intro t a b
  rw [jointOps, generator_zero_append, generator_kron_left, generator_kron_right]
  exact hasDerivAt_kron _ _ ρA ρB hA hB t a b

/-- a product of density matrices is a density matrix -/
theorem IsDensity.kron {ρA : Matrix m m ℂ} {ρB : Matrix n n ℂ} (hA : IsDensity ρA) (hB : IsDensity ρB) :
    IsDensity (ρA ⊗ₖ ρB) :=
  ⟨hA.1.kronecker hB.1, by rw [trace_kronecker, hA.2, hB.2, mul_one]⟩

/-- operators of two subsystems placed on their own factors: the joint generator is the sum of the
lifted local generators, on every joint matrix -/
theorem generator_jointOps (opsA : List (ℝ × Matrix m m ℂ)) (opsB : List (ℝ × Matrix n n ℂ))
    (ρ : Matrix (m × n) (m × n) ℂ) :
    generator 0 (jointOps opsA opsB) ρ = liftL (generator 0 opsA) ρ + liftR (generator 0 opsB) ρ := by
  rw [jointOps, generator_zero_append, generator_map_left, generator_map_right]

end Product

/-! ### A qubit joined to any system with a known flow: all joint states -/

/-- additive and homogeneous -/
structure IsLin {n : Type} (L : Matrix n n ℂ → Matrix n n ℂ) : Prop where
  add : ∀ R S, L (R + S) = L R + L S
  smul : ∀ (z : ℂ) R, L (z • R) = z • L R

section Joint
set_option linter.unusedSectionVars false
variable {n : Type} [Fintype n] [DecidableEq n]

/-- joint flow: the explicit qubit solution on the first factor, `ΦB t` on the second -/
noncomputable def jointSol (γ Γ : ℝ) (ΦB : ℝ → Matrix n n ℂ → Matrix n n ℂ) (t : ℝ)
    (ρ0 : Matrix (Fin 2 × n) (Fin 2 × n) ℂ) : Matrix (Fin 2 × n) (Fin 2 × n) ℂ :=
  liftL (fun R => relaxSol2 γ Γ R t) (liftR (ΦB t) ρ0)

theorem jointSol_block (γ Γ : ℝ) (ΦB : ℝ → Matrix n n ℂ → Matrix n n ℂ) (t : ℝ)
    (ρ0 : Matrix (Fin 2 × n) (Fin 2 × n) ℂ) :
    blockR (jointSol γ Γ ΦB t ρ0) 0 0 = ΦB t (blockR ρ0 0 0) + (1 - dec γ t) • ΦB t (blockR ρ0 1 1) ∧
    blockR (jointSol γ Γ ΦB t ρ0) 1 1 = dec γ t • ΦB t (blockR ρ0 1 1) ∧
    blockR (jointSol γ Γ ΦB t ρ0) 0 1 = dec Γ t • ΦB t (blockR ρ0 0 1) ∧
    blockR (jointSol γ Γ ΦB t ρ0) 1 0 = dec Γ t • ΦB t (blockR ρ0 1 0) := by
  refine ⟨?_, ?_, ?_, ?_⟩ <;>
  · ext k l
    simp only [jointSol, blockR, liftL, Matrix.add_apply, Matrix.smul_apply, smul_eq_mul]
    first
      | exact (relaxSol2_apply γ Γ _ t).1
      | exact (relaxSol2_apply γ Γ _ t).2.1
      | exact (relaxSol2_apply γ Γ _ t).2.2.1
      | exact (relaxSol2_apply γ Γ _ t).2.2.2

/-- **qubit ⊗ anything, every joint initial matrix.**  If `ΦB t R` solves `d/dt = 𝓛B` for every `R`
and `𝓛B` is linear, the joint flow solves the joint master equation
`d/dt ρ = (𝓛qubit ⊗ id + id ⊗ 𝓛B) ρ`. -/
theorem jointSol_solves (γ1 γφ : ℝ) (LB : Matrix n n ℂ → Matrix n n ℂ)
    (ΦB : ℝ → Matrix n n ℂ → Matrix n n ℂ) (hL : IsLin LB)
    (hB : ∀ R, Solves LB (fun t => ΦB t R)) (ρ0 : Matrix (Fin 2 × n) (Fin 2 × n) ℂ) :
    Solves (fun ρ => liftL (relaxGen2 γ1 γφ) ρ + liftR LB ρ)
      (fun t => jointSol γ1 (γ1 / 2 + γφ / 2) ΦB t ρ0) := by
  intro t
  set Γ := γ1 / 2 + γφ / 2 with hΓ
  set S := fun t => jointSol γ1 Γ ΦB t ρ0 with hS
  have blk := fun u => jointSol_block γ1 Γ ΦB u ρ0
  have d1 := hasDerivAt_dec γ1 t
  have d2 := hasDerivAt_dec Γ t
  -- entries of the generator applied to the joint solution
  have gL : ∀ (i j : Fin 2) (k l : n),
      liftL (relaxGen2 γ1 γφ) (S t) (i, k) (j, l) = relaxGen2 γ1 γφ (blockL (S t) k l) i j := fun _ _ _ _ => rfl
  have gR : ∀ (i j : Fin 2) (k l : n), liftR LB (S t) (i, k) (j, l) = LB (blockR (S t) i j) k l :=
    fun _ _ _ _ => rfl
  have ent : ∀ (u : ℝ) (i j : Fin 2) (k l : n), S u (i, k) (j, l) = blockR (S u) i j k l := fun _ _ _ _ _ => rfl
  have entL : ∀ (i j : Fin 2) (k l : n), blockL (S t) k l i j = blockR (S t) i j k l := fun _ _ _ _ => rfl
  have e00 := fun k l => (relaxGen2_apply γ1 γφ (blockL (S t) k l)).1
  have e11 := fun k l => (relaxGen2_apply γ1 γφ (blockL (S t) k l)).2.1
  have e01 := fun k l => (relaxGen2_apply γ1 γφ (blockL (S t) k l)).2.2.1
  have e10 := fun k l => (relaxGen2_apply γ1 γφ (blockL (S t) k l)).2.2.2
  rintro ⟨i, k⟩ ⟨j, l⟩
  simp only [Matrix.add_apply, gL, gR]
  have Y := fun (a b : Fin 2) => hB (blockR ρ0 a b) t k l
  fin_cases i <;> fin_cases j
  · -- (0,0)
    show HasDerivAt (fun s => S s (0, k) (0, l)) (relaxGen2 γ1 γφ (blockL (S t) k l) 0 0 + LB (blockR (S t) 0 0) k l) t
    simp only [ent]
    rw [e00, entL, (blk t).2.1, (blk t).1, hL.add, hL.smul]
    simp only [Matrix.add_apply, Matrix.smul_apply, smul_eq_mul]
    refine ((Y 0 0).add ((((hasDerivAt_const t (1 : ℂ)).sub d1)).mul (Y 1 1))).congr_deriv ?_
    simp only [Pi.sub_apply]
    ring
  · -- (0,1)
    show HasDerivAt (fun s => S s (0, k) (1, l)) (relaxGen2 γ1 γφ (blockL (S t) k l) 0 1 + LB (blockR (S t) 0 1) k l) t
    simp only [ent]
    rw [e01, entL, (blk t).2.2.1, hL.smul]
    simp only [Matrix.smul_apply, smul_eq_mul]
    refine (d2.mul (Y 0 1)).congr_deriv ?_
    rw [hΓ]; push_cast; ring
  · -- (1,0)
    show HasDerivAt (fun s => S s (1, k) (0, l)) (relaxGen2 γ1 γφ (blockL (S t) k l) 1 0 + LB (blockR (S t) 1 0) k l) t
    simp only [ent]
    rw [e10, entL, (blk t).2.2.2, hL.smul]
    simp only [Matrix.smul_apply, smul_eq_mul]
    refine (d2.mul (Y 1 0)).congr_deriv ?_
    rw [hΓ]; push_cast; ring
  · -- (1,1)
    show HasDerivAt (fun s => S s (1, k) (1, l)) (relaxGen2 γ1 γφ (blockL (S t) k l) 1 1 + LB (blockR (S t) 1 1) k l) t
    simp only [ent]
    rw [e11, entL, (blk t).2.1, hL.smul]
    simp only [Matrix.smul_apply, smul_eq_mul]
    refine (d1.mul (Y 1 1)).congr_deriv ?_
    ring

/-- the joint generator is the Lindblad generator of the embedded collapse operators -/
theorem jointGen_eq_generator (γ1 γφ : ℝ) (LB : Matrix n n ℂ → Matrix n n ℂ)
    (opsB : List (ℝ × Matrix n n ℂ)) (hB : ∀ R, LB R = generator 0 opsB R)
    (ρ : Matrix (Fin 2 × n) (Fin 2 × n) ℂ) :
    liftL (relaxGen2 γ1 γφ) ρ + liftR LB ρ =
      generator 0 (jointOps [(γ1, a2), (γφ, n2)] opsB) ρ := by
  have h1 : LB = generator 0 opsB := funext hB
  have h2 : relaxGen2 γ1 γφ = generator 0 [(γ1, a2), (γφ, n2)] := by
    funext ρ; simp [relaxGen2, generator]
  rw [jointOps, generator_zero_append, generator_map_left, generator_map_right, h1, h2]

theorem jointSol_zero (γ Γ : ℝ) (ΦB : ℝ → Matrix n n ℂ → Matrix n n ℂ) (h0 : ∀ R, ΦB 0 R = R)
    (ρ0 : Matrix (Fin 2 × n) (Fin 2 × n) ℂ) : jointSol γ Γ ΦB 0 ρ0 = ρ0 := by
  have h1 : ΦB 0 = fun R => R := funext h0
  have h2 : (fun R => relaxSol2 γ Γ R 0) = fun R => R := funext fun R => relaxSol2_zero γ Γ R
  rw [jointSol, h1, h2]
  rfl

theorem jointSol_trace (γ Γ : ℝ) (ΦB : ℝ → Matrix n n ℂ → Matrix n n ℂ) (t : ℝ)
    (hB : ∀ R, (ΦB t R).trace = R.trace) (ρ0 : Matrix (Fin 2 × n) (Fin 2 × n) ℂ) :
    (jointSol γ Γ ΦB t ρ0).trace = ρ0.trace := by
  rw [jointSol, trace_liftL _ (fun R => relaxSol2_trace γ Γ R t), trace_liftR _ hB]

theorem jointSol_isKraus (γ Γ t : ℝ) (hγ : 0 ≤ γ) (hΓ : γ ≤ 2 * Γ) (ht : 0 ≤ t)
    (ΦB : ℝ → Matrix n n ℂ → Matrix n n ℂ) (hB : IsKraus (ΦB t)) : IsKraus (jointSol γ Γ ΦB t) := by
  have h := IsKraus.comp (IsKraus.liftL (n := n) (relaxSol2_isKraus γ Γ t hγ hΓ ht))
    (IsKraus.liftR (m := Fin 2) hB)
  exact h

theorem relaxSol2_smul (γ Γ t : ℝ) (z : ℂ) (R : Matrix (Fin 2) (Fin 2) ℂ) :
    relaxSol2 γ Γ (z • R) t = z • relaxSol2 γ Γ R t := by
  ext i j
  fin_cases i <;> fin_cases j <;> simp [relaxSol2] <;> ring

theorem jointSol_smul (γ Γ t : ℝ) (ΦB : ℝ → Matrix n n ℂ → Matrix n n ℂ)
    (hΦ : ∀ (z : ℂ) R, ΦB t (z • R) = z • ΦB t R) (z : ℂ) (ρ : Matrix (Fin 2 × n) (Fin 2 × n) ℂ) :
    jointSol γ Γ ΦB t (z • ρ) = z • jointSol γ Γ ΦB t ρ := by
  have h1 : liftR (m := Fin 2) (ΦB t) (z • ρ) = z • liftR (ΦB t) ρ := by
    ext a b
    have : blockR (z • ρ) a.1 b.1 = z • blockR ρ a.1 b.1 := rfl
    simp [liftR, this, hΦ]
  rw [jointSol, h1]
  ext a b
  have : blockL (z • liftR (ΦB t) ρ) a.2 b.2 = z • blockL (liftR (ΦB t) ρ) a.2 b.2 := rfl
  simp [jointSol, liftL, this, relaxSol2_smul]

/-- **independence**: on a state that is a product between the qubit and the rest, the qubit
evolves by its own explicit solution and the rest by its own flow -/
theorem jointSol_kron (γ Γ t : ℝ) (ΦB : ℝ → Matrix n n ℂ → Matrix n n ℂ)
    (hΦ : ∀ (z : ℂ) R, ΦB t (z • R) = z • ΦB t R) (ρA : Matrix (Fin 2) (Fin 2) ℂ) (ρB : Matrix n n ℂ) :
    jointSol γ Γ ΦB t (ρA ⊗ₖ ρB) = relaxSol2 γ Γ ρA t ⊗ₖ ΦB t ρB := by
  have h1 : liftR (m := Fin 2) (ΦB t) (ρA ⊗ₖ ρB) = ρA ⊗ₖ ΦB t ρB := by
    ext a b
    have : blockR (ρA ⊗ₖ ρB) a.1 b.1 = ρA a.1 b.1 • ρB := by
      ext k l; simp [blockR]
    simp [liftR, this, hΦ]
  rw [jointSol, h1]
  ext a b
  have : blockL (ρA ⊗ₖ ΦB t ρB) a.2 b.2 = (ΦB t ρB) a.2 b.2 • ρA := by
    ext i j; simp [blockL, mul_comm]
  simp [liftL, this, relaxSol2_smul, mul_comm]

end Joint

end QipVerif.Noise
