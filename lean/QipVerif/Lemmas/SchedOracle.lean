import QipVerif.Model.Sched
import Mathlib.Data.List.Perm.Basic
/-!
# The executable re-ordering oracles return permutations

`applyShuffle` (a recorded `random.shuffle`), `stableSort` (Python's `list.sort` with the
priority comparator), hence `realO1` and `realO2`: every theorem stated for an arbitrary
permutation-valued oracle applies to the executable model that is compared with the code.
-/
namespace QipVerif.Sched

theorem insertSorted_perm (le : Nat → Nat → Bool) (x : Nat) (l : List Nat) :
    (insertSorted le x l).Perm (x :: l) := by
  induction l with
  | nil => simp [insertSorted]
  | cons y ys ih =>
    simp only [insertSorted]
    split
    · exact (ih.cons y).trans (List.Perm.swap x y ys)
    · exact List.Perm.refl _

theorem stableSort_perm (le : Nat → Nat → Bool) (l : List Nat) : (stableSort le l).Perm l := by
  have key : ∀ (l acc : List Nat), (l.foldl (fun acc x => insertSorted le x acc) acc).Perm (acc ++ l) := by
    intro l
    induction l with
    | nil => intro acc; simp
    | cons x xs ih =>
      intro acc
      simp only [List.foldl_cons]
      refine (ih _).trans ?_
      refine ((insertSorted_perm le x acc).append_right xs).trans ?_
      simpa using (List.perm_middle (a := x) (l₁ := acc) (l₂ := xs)).symm
  simpa [stableSort] using key l []

theorem map_getD_range (l : List Nat) : (List.range l.length).map (fun k => l.getD k 0) = l := by
  apply List.ext_getElem
  · simp
  · intro i h1 h2
    simp [List.getD_eq_getElem?_getD, h2]

theorem applyShuffle_perm (π l : List Nat) : (applyShuffle π l).Perm l := by
  unfold applyShuffle
  split
  · rename_i h
    have hp : π.Perm (List.range l.length) := List.isPerm_iff.mp h
    have := hp.map (fun k => l.getD k 0)
    rwa [map_getD_range] at this
  · exact List.Perm.refl _

theorem realO1_perm (shufs : List (List Nat)) (r : Nat) (l : List Nat) : (realO1 shufs r l).Perm l :=
  applyShuffle_perm _ _

theorem realO2_perm (shufs : List (List Nat)) (p : Pass1) (r : Nat) (l : List Nat) : (realO2 shufs p r l).Perm l :=
  (stableSort_perm _ _).trans (applyShuffle_perm _ _)

theorem O2of_perm (cfg : Cfg) (ns : List Ins) (r : Nat) (l : List Nat) : (O2of cfg ns r l).Perm l :=
  realO2_perm _ _ r l

theorem gateCycles_eq (cfg : Cfg) (ns : List Ins) :
    gateCycles cfg ns = cyclesGen cfg.alap cfg.allowPerm ns (O2of cfg ns) := rfl

theorem pulseStarts_eq (cfg : Cfg) (ns : List Ins) :
    pulseStarts cfg ns = startsGen cfg.alap cfg.allowPerm cfg.fx ns (O2of cfg ns) := rfl

end QipVerif.Sched
