import QipVerif.Lemmas.RenderWidth
/-! C20: the invariant of the main loop of `layout` and its consequences
(`len row[w] ≤ Σ layer_list[w]`; classical wires never get ahead of qubit 0). -/
namespace QipVerif.Render
variable {v : Variant}

/-- The loop invariant of `layout` (for circuits whose elements satisfy `opOk`). -/
structure Inv (N : Nat) (st : St) : Prop where
  aligned : Aligned st
  /-- `len(row[w]) ≤ sum(layer_list[w])` -/
  le : ∀ w ∈ st, (w.top.length : Int) ≤ isum w.layers
  /-- a classical wire's layers never sum to more than those of qubit 0
  (needed for `align_layer=True`, where `_get_xskip` looks at the qubit wires only) -/
  cl : ∀ i w w0, N ≤ i → st[i]? = some w → st[0]? = some w0 → isum w.layers ≤ isum w0.layers

theorem compAt_nodup_mem (l : List (Nat × (Wire → Wire))) (hn : (l.map (·.1)).Nodup)
    (a : Nat × (Wire → Wire)) (ha : a ∈ l) (w : Wire) : compAt a.1 l w = a.2 w := by
  induction l generalizing w with
  | nil => cases ha
  | cons b l ih =>
    simp only [List.map_cons, List.nodup_cons] at hn
    rcases List.mem_cons.mp ha with rfl | ha'
    · simp only [compAt, if_true]
      exact compAt_not_mem _ _ hn.1 _
    · have hne : b.1 ≠ a.1 := by
        intro h
        exact hn.1 (h ▸ List.mem_map.mpr ⟨a, ha', rfl⟩)
      simp only [compAt, if_neg hne]
      exact ih hn.2 ha' w

theorem padWire_layers (q : Bool) (X : Int) (w : Wire) : (padWire q X w).layers = w.layers := rfl

/-- what `_adjust_layer_pad` followed by `_manage_layers` does to one wire of the wire list -/
theorem padManage_spec (q : Bool) (X : Int) (width layer : Nat) (w : Wire)
    (ha : WAligned w) (hle : (w.top.length : Int) ≤ isum w.layers) (hX : isum w.layers ≤ X)
    (hl : w.layers.length ≤ layer) :
    isum (manageWire width layer X (padWire q X w)).layers = X + width ∧
    ((manageWire width layer X (padWire q X w)).top.length : Int) = X ∧
    WAligned (manageWire width layer X (padWire q X w)) := by
  have hal := manageWire_aligned width layer X _ (padWire_aligned q X w ha)
  refine ⟨?_, ?_, hal⟩
  · unfold manageWire
    rw [if_neg (by rw [padWire_layers]; omega)]
    simp only [padWire_layers, isum_append_single]
    split <;> omega
  · rw [(manageWire_strs width layer X _).1]
    simp only [padWire, repI, List.length_append, List.length_replicate]
    omega

theorem take_all_of_le {α : Type} (l : List α) (n : Nat) (h : l.length ≤ n) : l.take n = l :=
  List.take_of_length_le h

theorem layersOf_eq {st : St} {k : Nat} {w : Wire} (h : st[k]? = some w) : layersOf st k = w.layers := by
  simp [layersOf, h]

section place
variable {align : Bool} {N C : Nat} {pl : Plan} {st : St}

theorem le_layerOf {k : Nat} {w : Wire} (hk : st[k]? = some w) (hmem : k ∈ pl.wl) :
    w.layers.length ≤ layerOf st pl.wl := by
  unfold layerOf
  apply le_lmax
  exact List.mem_map.mpr ⟨k, hmem, by rw [layersOf_eq hk]⟩

/-- every wire of the wire list has `Σ layer_list[w] ≤ xskip` -/
theorem sum_le_xskip (hinv : Inv N st) (hpl : PlanOk N C pl) (hN : ¬ (align = true ∧ N = 0))
    (hlen : st.length = N + C) {k : Nat} {w : Wire} (hk : st[k]? = some w) (hmem : k ∈ pl.wl) :
    isum w.layers ≤ getXskip align N st pl.wl (layerOf st pl.wl) := by
  have hself : isum ((layersOf st k).take (layerOf st pl.wl)) = isum w.layers := by
    rw [layersOf_eq hk, take_all_of_le _ _ (le_layerOf hk hmem)]
  unfold getXskip
  cases align with
  | false =>
    simp only [Bool.false_eq_true, if_false]
    rw [← hself]
    exact le_imax (List.mem_map.mpr ⟨k, hmem, rfl⟩)
  | true =>
    simp only [if_true]
    by_cases hkN : k < N
    · rw [← hself]
      exact le_imax (List.mem_map.mpr ⟨k, List.mem_range.mpr hkN, rfl⟩)
    · have h0 : 0 ∈ pl.wl := hpl.zero ⟨k, hmem, by omega⟩
      have hN' : 0 < N := by
        rcases Nat.eq_zero_or_pos N with h | h
        · exact absurd ⟨rfl, h⟩ hN
        · exact h
      have h0lt : 0 < st.length := by have := hpl.wl_lt 0 h0; omega
      have hw0 : st[0]? = some st[0] := List.getElem?_eq_getElem h0lt
      have h1 := hinv.cl k w st[0] (by omega) hk hw0
      have h2 : isum ((layersOf st 0).take (layerOf st pl.wl)) = isum (st[0]).layers := by
        rw [layersOf_eq hw0, take_all_of_le _ _ (le_layerOf hw0 h0)]
      have h3 : isum (st[0]).layers ≤ imax ((List.range N).map fun w => isum ((layersOf st w).take (layerOf st pl.wl))) := by
        rw [← h2]
        exact le_imax (List.mem_map.mpr ⟨0, List.mem_range.mpr hN', rfl⟩)
      omega

/-- **the effect of one iteration on one wire** -/
theorem place_wire (hinv : Inv N st) (hpl : PlanOk N C pl) (hN : ¬ (align = true ∧ N = 0))
    (hlen : st.length = N + C) (k : Nat) (w : Wire) (hk : st[k]? = some w) :
    ∃ w', (place align N pl st)[k]? = some w' ∧
      (k ∉ pl.wl → w' = w) ∧
      (k ∈ pl.wl → isum w.layers ≤ getXskip align N st pl.wl (layerOf st pl.wl) ∧
        isum w'.layers = getXskip align N st pl.wl (layerOf st pl.wl) + pl.width ∧
        (w'.top.length : Int) ≤ getXskip align N st pl.wl (layerOf st pl.wl) + pl.width ∧ WAligned w') := by
  have hfst : (pl.acts.map fun a => (a.1, appendSeg a.2)).map (·.1) = pl.acts.map (·.1) := by
    rw [List.map_map]; rfl
  simp only [place, applyActs_eq, manageLayers_eq, adjustPad_eq, modAll_getElem?, hk, Option.map_some,
    compAt_map_nodup _ _ _ hpl.wl_nodup]
  refine ⟨_, rfl, ?_, ?_⟩
  · intro hnm
    rw [if_neg hnm, if_neg hnm]
    apply compAt_not_mem
    rw [hfst]
    intro hmem
    obtain ⟨a, ha, ha1⟩ := mem_map_fst hmem
    exact hnm (ha1 ▸ hpl.acts_sub a ha)
  · intro hmem
    rw [if_pos hmem, if_pos hmem]
    have hX := sum_le_xskip hinv hpl hN hlen hk hmem
    have hw := hinv.aligned w (List.mem_of_getElem? hk)
    obtain ⟨s1, s2, s3⟩ := padManage_spec (decide (k < N)) _ pl.width (layerOf st pl.wl) w hw
      (hinv.le w (List.mem_of_getElem? hk)) hX (le_layerOf hk hmem)
    refine ⟨hX, ?_⟩
    by_cases hact : k ∈ pl.acts.map (·.1)
    · obtain ⟨a, ha, ha1⟩ := mem_map_fst hact
      have hmem' : (a.1, appendSeg a.2) ∈ pl.acts.map fun a => (a.1, appendSeg a.2) :=
        List.mem_map.mpr ⟨a, ha, rfl⟩
      have := compAt_nodup_mem _ (by rw [hfst]; exact hpl.acts_nodup) _ hmem'
      simp only [ha1] at this
      rw [this]
      obtain ⟨n, hn, hseg⟩ := hpl.acts_w a ha
      refine ⟨s1, ?_, appendSeg_aligned _ hseg.ok _ s3⟩
      simp only [appendSeg, List.length_append, hseg.top]
      omega
    · rw [compAt_not_mem _ _ (by rw [hfst]; exact hact)]
      exact ⟨s1, by omega, s3⟩

theorem place_pre {k : Nat} {w' : Wire} (h : (place align N pl st)[k]? = some w') : ∃ w, st[k]? = some w := by
  obtain ⟨hk, _⟩ := List.getElem?_eq_some_iff.mp h
  rw [place_length] at hk
  exact ⟨st[k], List.getElem?_eq_getElem hk⟩

/-- **Lemma B**: one iteration of a covered element preserves the invariant. -/
theorem place_inv (hinv : Inv N st) (hpl : PlanOk N C pl) (hN : ¬ (align = true ∧ N = 0))
    (hlen : st.length = N + C) : Inv N (place align N pl st) := by
  refine ⟨?_, ?_, ?_⟩
  · exact place_aligned _ _ _ _ (fun a ha => by obtain ⟨n, _, hs⟩ := hpl.acts_w a ha; exact hs.ok) hinv.aligned
  · intro w' hw'
    obtain ⟨k, hk'⟩ := List.mem_iff_getElem?.mp hw'
    obtain ⟨w, hk⟩ := place_pre hk'
    obtain ⟨w'', h1, h2, h3⟩ := place_wire hinv hpl hN hlen k w hk
    rw [hk'] at h1; cases h1
    by_cases hmem : k ∈ pl.wl
    · obtain ⟨_, e1, e2, _⟩ := h3 hmem; omega
    · rw [h2 hmem]; exact hinv.le w (List.mem_of_getElem? hk)
  · intro i wi' w0' hi hgi hg0
    obtain ⟨wi, hki⟩ := place_pre hgi
    obtain ⟨w0, hk0⟩ := place_pre hg0
    obtain ⟨wi'', a1, a2, a3⟩ := place_wire hinv hpl hN hlen i wi hki
    obtain ⟨w0'', b1, b2, b3⟩ := place_wire hinv hpl hN hlen 0 w0 hk0
    rw [hgi] at a1; cases a1
    rw [hg0] at b1; cases b1
    have hold := hinv.cl i wi w0 hi hki hk0
    by_cases hmi : i ∈ pl.wl
    · have hm0 : 0 ∈ pl.wl := hpl.zero ⟨i, hmi, hi⟩
      obtain ⟨_, e1, _, _⟩ := a3 hmi
      obtain ⟨_, f1, _, _⟩ := b3 hm0
      omega
    · rw [a2 hmi]
      by_cases hm0 : 0 ∈ pl.wl
      · obtain ⟨f0, f1, _, _⟩ := b3 hm0
        omega
      · rw [b2 hm0]; exact hold

end place

end QipVerif.Render
