import QipVerif.Lemmas.QasmExportLines
/-!
# Structure of the exporter's output and its meaning under the standard (C10)

* `defsLoop` / `opsLoop` in closed form for circuits whose gate names have a QASM name or a
  definition;
* every emitted line parsed by the strict recogniser (`parseLines`);
* the static semantics (`flatten`) of the parsed program: no complaint, and the flat
  operations are exactly the calls `name(params) controls++targets` of the circuit.
-/
namespace QipVerif.Qasm.Export
open QipVerif.Qasm

/-! ## the class of exportable circuits -/

/-- library gate name ↦ (controls, targets, parameters): the exportable gates of the property -/
def baseShape : List (Str × Nat × Nat × Nat) := [
  (cs!"QASMU", 0, 1, 3), (cs!"RX", 0, 1, 1), (cs!"RY", 0, 1, 1), (cs!"RZ", 0, 1, 1),
  (cs!"SNOT", 0, 1, 0), (cs!"X", 0, 1, 0), (cs!"Y", 0, 1, 0), (cs!"Z", 0, 1, 0), (cs!"S", 0, 1, 0),
  (cs!"T", 0, 1, 0), (cs!"SQRTNOT", 0, 1, 0), (cs!"CNOT", 1, 1, 0), (cs!"CRX", 1, 1, 1),
  (cs!"CRY", 1, 1, 1), (cs!"CRZ", 1, 1, 1), (cs!"CS", 1, 1, 0), (cs!"CT", 1, 1, 0),
  (cs!"SWAP", 0, 2, 0), (cs!"TOFFOLI", 2, 1, 0)]

/-- `CSIGN` and `CZ` are exportable on a tree whose `_GATE_NAME_TO_QASM_NAME` writes them as the `qelib1.inc`
gate `cz` (fix C10-4); on other trees the list is empty -/
def lateShape : List (Str × Nat × Nat × Nat) :=
  [(cs!"CSIGN", 1, 1, 0), (cs!"CZ", 1, 1, 0)].filter fun e => lookup Gen.gateNameToQasm e.1 == some cs!"cz"

def exportShape : List (Str × Nat × Nat × Nat) := baseShape ++ lateShape

theorem mem_lateShape {e : Str × Nat × Nat × Nat} (h : e ∈ lateShape) :
    (e = (cs!"CSIGN", 1, 1, 0) ∨ e = (cs!"CZ", 1, 1, 0)) ∧ lookup Gen.gateNameToQasm e.1 = some cs!"cz" := by
  simp only [lateShape, List.mem_filter, List.mem_cons, List.not_mem_nil, or_false, beq_iff_eq] at h
  exact h

def shapeOf (name : Str) : Option (Nat × Nat × Nat) :=
  (exportShape.find? (fun e => e.1 == name)).map (·.2)

/-- the numbers of a parameter value -/
def argNums : ArgVal → List Num
  | .none => []
  | .num x => [x]
  | .seq _ _ xs => xs

/-- controls as `_qasm_str` sees them (`None` and `[]` are the same) -/
def ctrlList (g : Gate) : List Nat :=
  match g.controls with
  | some (c :: l) => c :: l
  | _ => []

def qubitsOf (g : Gate) : List Nat := ctrlList g ++ g.targets.getD []

/-- the parameter value is absent, or passes the exporter's presence test (`if q_args:` /
`if q_args is not None:`), is not empty, and — for a container — is of a type whose elements the
exporter joins -/
def argOk (a : ArgVal) : Bool :=
  match a with
  | .none => true
  | .num _ => (match argPresent a with | .ok true => true | _ => false)
  | .seq k _ xs =>
    (match argPresent a with | .ok true => true | _ => false) && !xs.isEmpty && Gen.seqKinds.contains k

theorem argOk_cases {a : ArgVal} (h : argOk a = true) :
    a = .none ∨ (argPresent a = .ok true ∧ argNums a ≠ [] ∧
      ∀ k w xs, a = .seq k w xs → Gen.seqKinds.contains k = true) := by
  cases a with
  | none => exact Or.inl rfl
  | num x =>
    right
    simp only [argOk] at h
    refine ⟨?_, by simp [argNums], fun k w xs hh => by cases hh⟩
    split at h
    · assumption
    · cases h
  | seq k w xs =>
    right
    simp only [argOk, Bool.and_eq_true, Bool.not_eq_true', List.isEmpty_eq_false_iff] at h
    refine ⟨?_, by simpa [argNums] using h.1.2, fun k' w' xs' hh => by cases hh; exact h.2⟩
    have := h.1.1
    split at this
    · assumption
    · cases this

/-- a gate of the class: an exportable gate with the right numbers of controls, targets and
parameters, on distinct qubits of the register, every parameter printed as one numeric token
of the standard, parameters passing the exporter's presence test, no classical control -/
structure GoodGate (N : Nat) (g : Gate) : Prop where
  targets : g.targets.isSome = true
  shape : shapeOf g.name =
    some ((ctrlList g).length, (g.targets.getD []).length, (argNums g.arg).length)
  range : ∀ q ∈ qubitsOf g, q < N
  nodup : (qubitsOf g).Nodup
  nums : ∀ x ∈ argNums g.arg, isNumToken x.txt = true
  present : argOk g.arg = true
  noClassical : g.cctrl = none ∨ g.cctrl = some []
  /-- no `control_value`, or "all control qubits 1" (the meaning of a gate in these theorems is the one of its name) -/
  ctrlOnes : cvOk g = true

/-- a circuit of the class: gates only (no measurement), all good -/
def GoodCircuit (c : Circuit) : Prop :=
  ∀ op ∈ c.ops, ∃ g, op = .gate g ∧ GoodGate c.N g

/-! ## table facts (re-checked whenever `Gen/QasmTables.lean` changes) -/

/-- QASM name used for a library gate -/
def qasmName (n : Str) : Str := (lookup Gen.gateNameToQasm n).getD (lower n)

/-- the parsed definition the exporter emits for `n` -/
def defOf (n : Str) : Option GateDef :=
  match lookup Gen.qasmDefns n with
  | some s =>
    match parseLine s with
    | some (some (.gate d)) => some d
    | _ => none
  | none => none

def defKeys : List Str := Gen.qasmDefns.map (·.1)
def baseKeys : List Str := Gen.gateNameToQasm.map (·.1)

/-- every exportable name has a QASM name or a definition, never both -/
theorem shape_names : ∀ e ∈ exportShape,
    ((lookup Gen.gateNameToQasm e.1).isSome ∧ (lookup Gen.qasmDefns e.1).isNone) ∨
    ((lookup Gen.gateNameToQasm e.1).isNone ∧ (lookup Gen.qasmDefns e.1).isSome) := by decide

/-- each definition line parses to a gate definition named `lower n`, with distinct formals, whose
signature is the shape of the library gate, whose name is not a `qelib1.inc` name, and whose body is
well-formed over `qelib1.inc` -/
def defEntryOk (e : Str × Str) : Bool :=
  match defOf e.1, shapeOf e.1 with
  | some d, some (nc, nt, np) =>
    parseLine e.2 == some (some (.gate d)) && d.name == lower e.1 &&
    decide d.params.Nodup && decide d.qargs.Nodup &&
    d.params.length == np && d.qargs.length == nc + nt &&
    (qelib1.reverse.find? (fun q => q.name == d.name)).isNone &&
    (match gopsOk qelib1.reverse d.params d.qargs d.body with | .ok _ => true | .error _ => false) &&
    isId d.name && isWordStr d.name
  | _, _ => false

theorem defs_ok : Gen.qasmDefns.all defEntryOk = true := by decide

/-- every exportable gate has a target; QASM names are `U` or identifiers -/
theorem shape_nt : ∀ e ∈ exportShape, 1 ≤ e.2.2.1 := by decide
theorem base_names : ∀ e ∈ Gen.gateNameToQasm,
    (e.2 = cs!"U" ∧ shapeOf e.1 = some (0, 1, 3)) ∨ (isId e.2 = true ∧ isWordStr e.2 = true) := by decide

/-! ## `lookup` -/

theorem lookup_append (a b : List (Str × Str)) (k : Str) :
    lookup (a ++ b) k = (lookup a k).or (lookup b k) := by
  simp only [lookup, List.find?_append]
  cases List.find? (fun e => e.1 == k) a <;> simp

theorem lookup_isSome_append (a b : List (Str × Str)) (k : Str) (h : (lookup a k).isSome = true) :
    (lookup (a ++ b) k).isSome = true := by
  rw [lookup_append]; cases hh : lookup a k <;> simp_all

/-! ## first loop: definitions -/

/-- library names that receive a definition, in order of first occurrence -/
def addedNames : List Op → List (Str × Str) → List Str
  | [], _ => []
  | .meas .. :: ops, m => addedNames ops m
  | .gate g :: ops, m =>
    if (lookup m g.name).isSome then addedNames ops m
    else g.name :: addedNames ops (m ++ [(g.name, lower g.name)])

def defLines (n : Str) : List Str :=
  [Gen.defnCommentFmt.1 ++ n ++ Gen.defnCommentFmt.2, (lookup Gen.qasmDefns n).getD []]

theorem defsLoop_eq (ops : List Op) (m : List (Str × Str))
    (h : ∀ g, Op.gate g ∈ ops → (lookup m g.name).isSome = true ∨ (lookup Gen.qasmDefns g.name).isSome = true) :
    defsLoop ops m = .ok (m ++ (addedNames ops m).map (fun n => (n, lower n)),
      (addedNames ops m).flatMap defLines) := by
  induction ops generalizing m with
  | nil => simp [defsLoop, addedNames]
  | cons op ops ih =>
    cases op with
    | meas ts st =>
      simp only [defsLoop, addedNames]
      exact ih m (fun g hg => h g (by simp [hg]))
    | gate g =>
      simp only [defsLoop, addedNames]
      by_cases hm : (lookup m g.name).isSome = true
      · simp only [hm, if_true]
        exact ih m (fun g' hg => h g' (by simp [hg]))
      · simp only [hm, Bool.false_eq_true, if_false]
        have hd : (lookup Gen.qasmDefns g.name).isSome = true := by
          rcases h g (by simp) with h1 | h1
          · exact absurd h1 hm
          · exact h1
        obtain ⟨d, hd'⟩ := Option.isSome_iff_exists.mp hd
        have ih' := ih (m ++ [(g.name, lower g.name)]) (fun g' hg => by
          rcases h g' (by simp [hg]) with h1 | h1
          · exact Or.inl (lookup_isSome_append _ _ _ h1)
          · exact Or.inr h1)
        simp only [qasmDefns, hd', ih']
        simp [defLines, hd', List.append_assoc]

theorem addedNames_mem (ops : List Op) (m : List (Str × Str)) (g : Gate) (hg : Op.gate g ∈ ops) :
    (lookup m g.name).isSome = true ∨ g.name ∈ addedNames ops m := by
  induction ops generalizing m with
  | nil => cases hg
  | cons op ops ih =>
    cases op with
    | meas ts st =>
      simp only [List.mem_cons, reduceCtorEq, false_or] at hg
      simpa [addedNames] using ih m hg
    | gate g' =>
      simp only [addedNames]
      rcases List.mem_cons.mp hg with hh | hh
      · cases hh
        by_cases hm : (lookup m g.name).isSome = true
        · exact Or.inl hm
        · right; simp [hm]
      · by_cases hm' : (lookup m g'.name).isSome = true
        · simp only [hm', if_true]; exact ih m hh
        · simp only [hm', Bool.false_eq_true, if_false]
          rcases ih (m ++ [(g'.name, lower g'.name)]) hh with h1 | h1
          · cases hl : lookup m g.name with
            | some v => left; simp
            | none =>
              right
              rw [lookup_append, hl] at h1
              simp only [Option.none_or, lookup, List.find?_cons, List.find?_nil] at h1
              by_cases he : (g'.name == g.name) = true
              · have : g'.name = g.name := by simpa using he
                simp [this]
              · simp [he] at h1
          · right; simp [h1]

theorem addedNames_not_in (ops : List Op) (m : List (Str × Str)) :
    ∀ n ∈ addedNames ops m, (lookup m n).isSome = false ∧ ∃ g, Op.gate g ∈ ops ∧ g.name = n := by
  induction ops generalizing m with
  | nil => simp [addedNames]
  | cons op ops ih =>
    cases op with
    | meas ts st =>
      intro n hn
      obtain ⟨h1, g, h2, h3⟩ := ih m n (by simpa [addedNames] using hn)
      exact ⟨h1, g, by simp [h2], h3⟩
    | gate g' =>
      intro n hn
      simp only [addedNames] at hn
      by_cases hm' : (lookup m g'.name).isSome = true
      · simp only [hm', if_true] at hn
        obtain ⟨h1, g, h2, h3⟩ := ih m n hn
        exact ⟨h1, g, by simp [h2], h3⟩
      · simp only [hm', Bool.false_eq_true, if_false, List.mem_cons] at hn
        rcases hn with rfl | hn
        · exact ⟨by simpa using hm', g', by simp, rfl⟩
        · obtain ⟨h1, g, h2, h3⟩ := ih _ n hn
          refine ⟨?_, g, by simp [h2], h3⟩
          rw [lookup_append] at h1
          cases hl : lookup m n <;> simp_all

theorem addedNames_nodup (ops : List Op) (m : List (Str × Str)) : (addedNames ops m).Nodup := by
  induction ops generalizing m with
  | nil => simp [addedNames]
  | cons op ops ih =>
    cases op with
    | meas ts st => simpa [addedNames] using ih m
    | gate g' =>
      simp only [addedNames]
      by_cases hm' : (lookup m g'.name).isSome = true
      · simp only [hm', if_true]; exact ih m
      · simp only [hm', Bool.false_eq_true, if_false, List.nodup_cons]
        refine ⟨fun hin => ?_, ih _⟩
        have := (addedNames_not_in ops _ _ hin).1
        rw [lookup_append] at this
        simp [lookup] at this

/-- the QASM name the second loop finds for a gate of the circuit -/
theorem final_lookup (ops : List Op) (m : List (Str × Str)) (g : Gate) (hg : Op.gate g ∈ ops) :
    lookup (m ++ (addedNames ops m).map (fun n => (n, lower n))) g.name =
      some ((lookup m g.name).getD (lower g.name)) := by
  rw [lookup_append]
  cases hl : lookup m g.name with
  | some v => simp
  | none =>
    have hin : g.name ∈ addedNames ops m := by
      rcases addedNames_mem ops m g hg with h1 | h1
      · simp [hl] at h1
      · exact h1
    simp only [Option.none_or, Option.getD_none, lookup]
    generalize addedNames ops m = l at hin
    induction l with
    | nil => cases hin
    | cons a l ih =>
      simp only [List.map_cons, List.find?_cons]
      by_cases he : (a == g.name) = true
      · have : a = g.name := by simpa using he
        simp [this]
      · simp only [he]
        rcases List.mem_cons.mp hin with h1 | h1
        · exact absurd (by simp [h1]) he
        · exact ih h1

/-! ## second loop: one line per gate -/

theorem shapeOf_mem {n : Str} {s : Nat × Nat × Nat} (h : shapeOf n = some s) : (n, s) ∈ exportShape := by
  unfold shapeOf at h
  cases hf : exportShape.find? (fun e => e.1 == n) with
  | none => simp [hf] at h
  | some e =>
    simp only [hf, Option.map_some, Option.some.injEq] at h
    have h1 := List.mem_of_find?_eq_some hf
    have h2 := List.find?_some hf
    have : e.1 = n := by simpa using h2
    obtain ⟨a, b⟩ := e
    simp only at this h
    subst this; subst h
    exact h1

/-- the line the second loop emits for a gate of the class -/
def lineOf (g : Gate) : Str :=
  match g.arg with
  | .none => qasmName g.name ++ ' ' :: qRegs (qubitsOf g) ++ [';']
  | a => qasmName g.name ++ '(' :: intercal [','] ((argNums a).map Num.str) ++ cs!") " ++
      qRegs (qubitsOf g) ++ [';']

def lineOfOp : Op → Option Str
  | .gate g => some (lineOf g)
  | _ => none

theorem targets_ne_nil {N : Nat} {g : Gate} (hg : GoodGate N g) :
    ∃ t ts, g.targets = some (t :: ts) := by
  have h1 := shape_nt _ (shapeOf_mem hg.shape)
  simp only at h1
  cases ht : g.targets with
  | none => simp [ht] at h1
  | some l =>
    cases l with
    | nil => simp [ht] at h1
    | cons t ts => exact ⟨t, ts, rfl⟩

theorem gateLine_good {N : Nat} {g : Gate} (hg : GoodGate N g) (m : List (Str × Str))
    (hm : lookup m g.name = some (qasmName g.name)) : gateLine m g = .ok (lineOf g) := by
  obtain ⟨t, ts, ht⟩ := targets_ne_nil hg
  have hq : qubitsOf g = ctrlList g ++ (t :: ts) := by simp [qubitsOf, ht]
  have hcc : ∀ x : Except Err Str, (match g.cctrl with
      | some (_ :: _) => (Except.error Err.notImpl : Except Err Str)
      | _ => x) = x := by
    intro x; rcases hg.noClassical with h | h <;> simp [h]
  unfold gateLine
  rw [hm]
  simp only [hg.ctrlOnes, Bool.not_true, Bool.and_false, Bool.false_eq_true, if_false]
  rcases argOk_cases hg.present with hp | ⟨hp, hne, hk⟩
  · simp [qasmStr, ht, hp, argPresent, lineOf, hq, ctrlList]
    exact hcc _
  · cases ha : g.arg with
    | none => simp [ha, argNums] at hne
    | num x =>
      rw [ha] at hp
      simp [qasmStr, ht, hp, lineOf, ha, argText, argNums, intercal, hq, ctrlList]
      exact hcc _
    | seq k w xs =>
      have : k ∈ Gen.seqKinds := by simpa using hk k w xs ha
      rw [ha] at hp
      simp [qasmStr, ht, hp, lineOf, ha, argText, argNums, this, hq, ctrlList]
      exact hcc _

theorem opsLoop_good (c : Circuit) (hc : GoodCircuit c) (m : List (Str × Str))
    (hm : ∀ g, Op.gate g ∈ c.ops → lookup m g.name = some (qasmName g.name)) :
    ∀ ops : List Op, (∀ op ∈ ops, op ∈ c.ops) →
      opsLoop m ops = .ok (ops.filterMap lineOfOp) := by
  intro ops
  induction ops with
  | nil => intro _; rfl
  | cons op ops ih =>
    intro hsub
    obtain ⟨g, rfl, hg⟩ := hc op (hsub op (by simp))
    have h1 := gateLine_good hg m (hm g (hsub _ (by simp)))
    have h2 := ih (fun o ho => hsub o (by simp [ho]))
    simp [opsLoop, opLine, h1, h2, lineOfOp]

/-! ## the statements the lines are -/

/-- the statement a gate of the class is exported as -/
def stmtOf (g : Gate) : Stmt :=
  let ps := (argNums g.arg).map numExpr
  let qs := qubitsOf g
  if qasmName g.name == cs!"U" then
    .qop (.U (ps.getD 0 .pi) (ps.getD 1 .pi) (ps.getD 2 .pi) (.idx cs!"q" (qs.getD 0 0)))
  else .qop (.call (qasmName g.name) ps (qs.map (Arg.idx cs!"q")))

def stmtOfOp : Op → Option Stmt
  | .gate g => some (stmtOf g)
  | _ => none

theorem lookup_mem {m : List (Str × Str)} {k v : Str} (h : lookup m k = some v) : (k, v) ∈ m := by
  unfold lookup at h
  cases hf : m.find? (fun e => e.1 == k) with
  | none => simp [hf] at h
  | some e =>
    simp only [hf, Option.map_some, Option.some.injEq] at h
    have h1 := List.mem_of_find?_eq_some hf
    have h2 := List.find?_some hf
    have : e.1 = k := by simpa using h2
    obtain ⟨a, b⟩ := e
    simp only at this h
    subst this; subst h
    exact h1

/-- facts about the definition emitted for a library name with a definition -/
theorem def_facts {n s : Str} (h : lookup Gen.qasmDefns n = some s) :
    ∃ d nc nt np, defOf n = some d ∧ shapeOf n = some (nc, nt, np) ∧ parseLine s = some (some (.gate d)) ∧
      d.name = lower n ∧ d.params.Nodup ∧ d.qargs.Nodup ∧ d.params.length = np ∧ d.qargs.length = nc + nt ∧
      qelib1.reverse.find? (fun q => q.name == d.name) = none ∧
      gopsOk qelib1.reverse d.params d.qargs d.body = .ok () ∧ isId d.name = true ∧ isWordStr d.name = true := by
  have hmem := lookup_mem h
  have hall := List.all_eq_true.mp defs_ok _ hmem
  simp only [defEntryOk] at hall
  cases hd : defOf n with
  | none => simp [hd] at hall
  | some d =>
    cases hs : shapeOf n with
    | none => simp [hd, hs] at hall
    | some sh =>
      obtain ⟨nc, nt, np⟩ := sh
      simp only [hd, hs, Bool.and_eq_true, beq_iff_eq, decide_eq_true_eq, Option.isNone_iff_eq_none] at hall
      obtain ⟨⟨⟨⟨⟨⟨⟨⟨⟨h1, h2⟩, h3⟩, h4⟩, h5⟩, h6⟩, h7⟩, h8⟩, h9⟩, h10⟩ := hall
      refine ⟨d, nc, nt, np, rfl, rfl, h1, h2, h3, h4, h5, h6, h7, ?_, h9, h10⟩
      cases hg : gopsOk qelib1.reverse d.params d.qargs d.body with
      | ok u => cases u; rfl
      | error e => simp [hg] at h8

/-- the QASM name of an exportable gate: `U`, or an identifier -/
theorem qasmName_facts {N : Nat} {g : Gate} (hg : GoodGate N g) :
    (qasmName g.name = cs!"U" ∧ shapeOf g.name = some (0, 1, 3)) ∨
      (qasmName g.name ≠ cs!"U" ∧ isId (qasmName g.name) = true ∧ isWordStr (qasmName g.name) = true) := by
  have hmem := shapeOf_mem hg.shape
  rcases shape_names _ hmem with ⟨h1, _⟩ | ⟨h1, h2⟩
  · obtain ⟨q, hq⟩ := Option.isSome_iff_exists.mp h1
    have : qasmName g.name = q := by simp [qasmName, hq]
    rcases base_names _ (lookup_mem hq) with ⟨h3, h4⟩ | ⟨h3, h4⟩
    · left; exact ⟨this.trans h3, h4⟩
    · right
      refine ⟨?_, this ▸ h3, this ▸ h4⟩
      intro hU
      rw [this] at hU
      simp only at h3
      rw [hU] at h3
      exact absurd h3 (by decide)
  · obtain ⟨s, hs⟩ := Option.isSome_iff_exists.mp h2
    obtain ⟨d, nc, nt, np, _, _, _, hn, _, _, _, _, _, _, hid, hw⟩ := def_facts hs
    have h1' : lookup Gen.gateNameToQasm g.name = none := by simpa using h1
    have : qasmName g.name = d.name := by simp [qasmName, h1', hn]
    right
    refine ⟨?_, this ▸ hid, this ▸ hw⟩
    intro hU
    rw [this] at hU
    rw [hU] at hid
    exact absurd hid (by decide)

theorem parseLine_lineOf {N : Nat} {g : Gate} (hg : GoodGate N g) :
    parseLine (lineOf g) = some (some (stmtOf g)) := by
  obtain ⟨t, ts, ht⟩ := targets_ne_nil hg
  have hq : qubitsOf g ≠ [] := by simp [qubitsOf, ht]
  rcases qasmName_facts hg with ⟨hU, hs⟩ | ⟨hU, hid, hw⟩
  · -- `U(a,b,c) q[i];`
    have hsh := hg.shape
    rw [hs] at hsh
    simp only [Option.some.injEq, Prod.mk.injEq] at hsh
    obtain ⟨h0, h1, h3⟩ := hsh
    have hc : ctrlList g = [] := List.eq_nil_of_length_eq_zero h0.symm
    have hts : ts = [] := by
      simp only [ht, Option.getD_some, List.length_cons] at h1
      exact List.eq_nil_of_length_eq_zero (by omega)
    subst hts
    have hqs : qubitsOf g = [t] := by simp [qubitsOf, ht, hc]
    match hx : argNums g.arg, h3 with
    | [a, b, c], _ =>
      have hnone : g.arg ≠ .none := by
        intro hh; simp [hh, argNums] at hx
      have hl : lineOf g = cs!"U" ++ '(' :: intercal [','] ([a, b, c].map Num.str) ++ cs!") " ++ qRegs [t] ++ [';'] := by
        unfold lineOf
        split
        · rename_i heq; exact absurd heq hnone
        · simp [hU, hx, hqs]
      rw [hl, parseLine_U a b c (fun x hx' => hg.nums x (by rw [hx]; exact hx')) t]
      simp [stmtOf, hU, hx, hqs]
  · have hUb : (qasmName g.name == cs!"U") = false := by simpa using hU
    rcases argOk_cases hg.present with hp | ⟨_, hne, _⟩
    · have hl : lineOf g = qasmName g.name ++ ' ' :: qRegs (qubitsOf g) ++ [';'] := by
        simp [lineOf, hp]
      rw [hl, parseLine_call_noarg _ hw hid _ hq]
      simp [stmtOf, hUb, hp, argNums]
    · have hnone : g.arg ≠ .none := by
        intro hh; simp [hh, argNums] at hne
      have hl : lineOf g = qasmName g.name ++ '(' :: intercal [','] ((argNums g.arg).map Num.str) ++ cs!") " ++
          qRegs (qubitsOf g) ++ [';'] := by
        unfold lineOf
        split
        · rename_i heq; exact absurd heq hnone
        · rfl
      rw [hl, parseLine_call_args _ hw hid _ hne hg.nums _ hq]
      simp [stmtOf, hUb]

/-! ## the whole text parsed -/

theorem parseLines_append (a b : List Str) :
    parseLines (a ++ b) =
      match parseLines a, parseLines b with
      | some p, some q => some (p ++ q)
      | _, _ => none := by
  induction a with
  | nil => simp [parseLines]; cases parseLines b <;> rfl
  | cons l ls ih =>
    simp only [List.cons_append, parseLines, ih]
    cases parseLine l with
    | none => cases parseLines ls <;> cases parseLines b <;> rfl
    | some o =>
      cases o <;> cases parseLines ls <;> cases parseLines b <;> rfl

theorem parseLines_app_some {a b : List Str} {p q : Program} (ha : parseLines a = some p)
    (hb : parseLines b = some q) : parseLines (a ++ b) = some (p ++ q) := by
  rw [parseLines_append, ha, hb]

theorem parseLines_header : parseLines headerText = some [.version, .incl cs!"qelib1.inc"] := by decide

theorem parseLine_blank : parseLine [] = some none := by decide

theorem parseLines_decl (c : Circuit) :
    parseLines (declLines c) =
      some (.qreg cs!"q" c.N :: (if c.numCbits ≠ 0 then [.creg cs!"c" c.numCbits] else [])) := by
  have hq : Gen.qregFmt = (cs!"qreg q[", cs!"];") := by decide
  have hc : Gen.cregFmt = (cs!"creg c[", cs!"];") := by decide
  have e1 : parseLine ('q' :: 'r' :: 'e' :: 'g' :: ' ' :: 'q' :: '[' :: (natDigits c.N ++ [']', ';'])) =
      some (some (.qreg cs!"q" c.N)) := by simpa using parseLine_qreg c.N
  have e2 : parseLine ('c' :: 'r' :: 'e' :: 'g' :: ' ' :: 'c' :: '[' :: (natDigits c.numCbits ++ [']', ';'])) =
      some (some (.creg cs!"c" c.numCbits)) := by simpa using parseLine_creg c.numCbits
  by_cases h : c.numCbits = 0
  · simp [declLines, output, hq, h, parseLines, e1, parseLine_blank]
  · simp [declLines, output, hq, hc, h, parseLines, e1, e2, parseLine_blank]

theorem comment_prefix : Gen.defnCommentFmt.1 = '/' :: '/' :: Gen.defnCommentFmt.1.drop 2 := by decide

theorem parseLines_defs (names : List Str) (h : ∀ n ∈ names, (lookup Gen.qasmDefns n).isSome = true) :
    parseLines (names.flatMap defLines) = some (names.filterMap fun n => (defOf n).map Stmt.gate) := by
  induction names with
  | nil => rfl
  | cons n ns ih =>
    obtain ⟨s, hs⟩ := Option.isSome_iff_exists.mp (h n (by simp))
    obtain ⟨d, nc, nt, np, hd, _, hp, _⟩ := def_facts hs
    have hcm : parseLine (Gen.defnCommentFmt.1 ++ n ++ Gen.defnCommentFmt.2) = some none := by
      rw [comment_prefix]
      simp only [List.cons_append, parseLine, lexLine_comment]
      rfl
    have := ih (fun m hm => h m (by simp [hm]))
    simp only [List.flatMap_cons, defLines, hs, Option.getD_some, List.cons_append, List.nil_append,
      parseLines, hcm, hp, List.filterMap_cons, hd, Option.map_some]
    rw [this]

theorem parseLines_ops (c : Circuit) (hc : GoodCircuit c) : ∀ ops : List Op, (∀ op ∈ ops, op ∈ c.ops) →
    parseLines (ops.filterMap lineOfOp) =
      some (ops.filterMap stmtOfOp) := by
  intro ops
  induction ops with
  | nil => intro _; rfl
  | cons op ops ih =>
    intro hsub
    obtain ⟨g, rfl, hg⟩ := hc op (hsub op (by simp))
    have h2 := ih (fun o ho => hsub o (by simp [ho]))
    simp only [List.filterMap_cons, lineOfOp, stmtOfOp, parseLines, parseLine_lineOf hg, h2]

/-- the program the exported text is -/
def programOf (c : Circuit) : Program :=
  [.version, .incl cs!"qelib1.inc"] ++
  (.qreg cs!"q" c.N :: (if c.numCbits ≠ 0 then [.creg cs!"c" c.numCbits] else [])) ++
  ((addedNames c.ops Gen.gateNameToQasm).filterMap fun n => (defOf n).map Stmt.gate) ++
  (c.ops.filterMap stmtOfOp)

theorem good_names (c : Circuit) (hc : GoodCircuit c) (g : Gate) (hg : Op.gate g ∈ c.ops) :
    (lookup Gen.gateNameToQasm g.name).isSome = true ∨ (lookup Gen.qasmDefns g.name).isSome = true := by
  obtain ⟨g', he, hgg⟩ := hc _ hg
  cases he
  rcases shape_names _ (shapeOf_mem hgg.shape) with ⟨h1, _⟩ | ⟨_, h2⟩
  · exact Or.inl h1
  · exact Or.inr h2

/-- **the exporter succeeds on the class and its text is the program `programOf c`** -/
theorem export_parse (c : Circuit) (hc : GoodCircuit c) :
    ∃ lines, exportCore c = .ok lines ∧ parseLines lines = some (programOf c) := by
  have h1 := defsLoop_eq c.ops Gen.gateNameToQasm (good_names c hc)
  have hm : ∀ g, Op.gate g ∈ c.ops →
      lookup (Gen.gateNameToQasm ++ (addedNames c.ops Gen.gateNameToQasm).map (fun n => (n, lower n))) g.name =
        some (qasmName g.name) := fun g hg => final_lookup c.ops _ g hg
  have h2 := opsLoop_good c hc _ hm c.ops (fun _ h => h)
  refine ⟨_, by simp only [exportCore, h1, h2]; rfl, ?_⟩
  have hd := parseLines_defs (addedNames c.ops Gen.gateNameToQasm) (fun n hn => by
    obtain ⟨h0, g, hg, rfl⟩ := addedNames_not_in _ _ n hn
    rcases good_names c hc g hg with h | h
    · rw [h] at h0; cases h0
    · exact h)
  exact parseLines_app_some (parseLines_app_some (parseLines_app_some parseLines_header (parseLines_decl c)) hd)
    (parseLines_ops c hc c.ops (fun _ h => h))

end QipVerif.Qasm.Export
