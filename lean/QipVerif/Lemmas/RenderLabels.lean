import QipVerif.Lemmas.RenderPrefix
/-! C20: reading the boxed labels off a middle row (`labels_in_order`). -/
namespace QipVerif.Render
variable {v : Variant}

/-! ## the reader: contents of `┤ … ├`, left to right -/

/-- scanner: state `none` = outside a box, `some acc` = inside (`acc` = what was read, reversed) -/
def scan : Option Str → Str → List Str × Option Str
  | s, [] => ([], s)
  | none, c :: cs => if c = '┤' then scan (some []) cs else scan none cs
  | some acc, c :: cs =>
    if c = '├' then (acc.reverse :: (scan none cs).1, (scan none cs).2)
    else scan (some (c :: acc)) cs

/-- the contents of the boxes `┤…├` of a row, left to right -/
def readBoxes (row : Str) : List Str := (scan none row).1

/-- remove the `p` padding blanks on both sides -/
def strip (p : Nat) (s : Str) : Str := (s.drop p).take (s.length - 2 * p)

/-- **reading a middle row**: the labels in its boxes, left to right -/
def readLabels (p : Nat) (row : Str) : List Str := (readBoxes row).map (strip p)

/-- no `┤`, no `├` -/
def noGlyph (s : Str) : Bool := s.all fun c => c != '┤' && c != '├'

theorem noGlyph_iff {s : Str} : noGlyph s = true ↔ ∀ c ∈ s, c ≠ '┤' ∧ c ≠ '├' := by
  simp [noGlyph, List.all_eq_true]

theorem noGlyph_append {a b : Str} (ha : noGlyph a = true) (hb : noGlyph b = true) : noGlyph (a ++ b) = true := by
  simp only [noGlyph, List.all_append, Bool.and_eq_true] at *; exact ⟨ha, hb⟩

theorem noGlyph_rep (k : Nat) (c : Char) (h1 : c ≠ '┤') (h2 : c ≠ '├') : noGlyph (rep k c) = true := by
  rw [noGlyph_iff]; intro x hx
  have := List.eq_of_mem_replicate hx
  subst this; exact ⟨h1, h2⟩

theorem noGlyph_cons {c : Char} {s : Str} (h1 : c ≠ '┤') (h2 : c ≠ '├') (hs : noGlyph s = true) :
    noGlyph (c :: s) = true := by
  simp only [noGlyph, List.all_cons, Bool.and_eq_true, bne_iff_ne, ne_eq] at *
  exact ⟨⟨h1, h2⟩, hs⟩

theorem scan_append (s : Option Str) (a b : Str) :
    scan s (a ++ b) = ((scan s a).1 ++ (scan (scan s a).2 b).1, (scan (scan s a).2 b).2) := by
  induction a generalizing s with
  | nil => cases s <;> simp [scan]
  | cons c cs ih =>
    cases s with
    | none =>
      simp only [List.cons_append, scan]
      split <;> exact ih _
    | some acc =>
      simp only [List.cons_append, scan]
      split
      · rw [ih none]; simp
      · exact ih _

theorem scan_noGlyph_some (a acc : Str) (h : noGlyph a = true) : scan (some acc) a = ([], some (a.reverse ++ acc)) := by
  induction a generalizing acc with
  | nil => simp [scan]
  | cons c cs ih =>
    have hc := noGlyph_iff.mp h c (List.mem_cons_self ..)
    have hcs : noGlyph cs = true := noGlyph_iff.mpr fun x hx => noGlyph_iff.mp h x (List.mem_cons_of_mem _ hx)
    simp only [scan, if_neg hc.2, ih _ hcs]
    simp

theorem scan_noGlyph_none (a : Str) (h : noGlyph a = true) : scan none a = ([], none) := by
  induction a with
  | nil => simp [scan]
  | cons c cs ih =>
    have hc := noGlyph_iff.mp h c (List.mem_cons_self ..)
    have hcs : noGlyph cs = true := noGlyph_iff.mpr fun x hx => noGlyph_iff.mp h x (List.mem_cons_of_mem _ hx)
    simp only [scan, if_neg hc.1, ih hcs]

/-- a connector `─┤ x ├─` reads as the one box `x` -/
theorem scan_box (x : Str) (h : noGlyph x = true) :
    scan none ('─' :: '┤' :: (x ++ ['├', '─'])) = ([x], none) := by
  have h1 : ('─' : Char) ≠ '┤' := by decide
  simp only [scan, if_neg h1, if_true]
  rw [scan_append, scan_noGlyph_some x [] h]
  simp [scan, h1]

/-- the row reads as the boxes `L` and ends outside a box -/
def Reads (L : List Str) (w : Wire) : Prop := scan none w.mid = (L, none)

theorem reads_append {L : List Str} {w : Wire} (h : Reads L w) (g : Seg) (l : List Str)
    (hg : scan none g.mid = (l, none)) : Reads (L ++ l) (appendSeg g w) := by
  unfold Reads at *
  simp only [appendSeg, scan_append, h, hg]

theorem reads_stable (L : List Str) : (∀ q x w, Reads L w → Reads L (padWire q x w)) ∧
    (∀ a b x w, Reads L w → Reads L (manageWire a b x w)) := by
  constructor
  · intro q x w h
    unfold Reads at *
    simp only [padWire, scan_append, h]
    rw [scan_noGlyph_none]
    · simp
    · unfold repI
      split
      · exact noGlyph_rep _ _ (by decide) (by decide)
      · exact noGlyph_rep _ _ (by decide) (by decide)
  · intro a b x w h
    unfold Reads at *
    rw [(manageWire_strs a b x w).2.1]; exact h

/-- replaying appends whose middle pieces are closed (`scan` ends outside a box) -/
theorem reads_compAt (q : Nat) (acts : List (Nat × Seg))
    (hclosed : ∀ a ∈ acts, (scan none a.2.mid).2 = none) (L : List Str) (w : Wire) (h : Reads L w) :
    Reads (L ++ (acts.filter fun a => a.1 = q).flatMap fun a => (scan none a.2.mid).1)
      (compAt q (acts.map fun a => (a.1, appendSeg a.2)) w) := by
  induction acts generalizing L w with
  | nil => simpa [compAt] using h
  | cons a acts ih =>
    have hc := hclosed a (List.mem_cons_self ..)
    have hrest := fun b hb => hclosed b (List.mem_cons_of_mem _ hb)
    simp only [List.map_cons, compAt]
    by_cases ha : a.1 = q
    · rw [if_pos ha, List.filter_cons_of_pos (by simpa using ha), List.flatMap_cons, ← List.append_assoc]
      apply ih hrest
      exact reads_append h a.2 _ (Prod.ext rfl hc)
    · rw [if_neg ha, List.filter_cons_of_neg (by simpa using ha)]
      exact ih hrest L w h

end QipVerif.Render
