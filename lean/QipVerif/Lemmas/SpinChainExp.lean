import QipVerif.Lemmas.SpinChainTop
import QipVerif.Lemmas.GateKron
import QipVerif.Lemmas.MatExp
/-!
# C06: the ideal propagator of a compiled pulse as a matrix exponential

`SpinChainModel` puts the control Hamiltonian `c·σ` (`c = ctl*_coef π = 2π`, `σ` the Pauli operator, resp.
`XX + YY` read from the regenerated `ctlG_terms`) on a label; a rectangular pulse drives it with the constant
coefficient `u` for the time `T`.  Its ideal propagator is `exp(−i·T·u·c·σ)` — `MatExp.evolve (u • c • σ) T`, Mathlib's
matrix exponential.  Proved here: it equals the closed forms `segProp` / `exchProp` that
`Lemmas/SpinChainReal.lean` used as definitions, on one / two qubits and embedded in the `N`-qubit register
(`instrPropExp_eq`).
-/
set_option linter.unusedSectionVars false
namespace QipVerif.SpinChain
open QipVerif QipVerif.Gen QipVerif.Gen.SC Matrix QipVerif.MatExp QipVerif.GateKron

/-- the two-qubit operator denoted by a term list of the generated table: `Σ sign · σ_a ⊗ σ_b`
(`qutip.tensor`, first factor most significant) -/
noncomputable def termsMat : List (Int × Pauli × Pauli) → Matrix (Fin 4) (Fin 4) ℂ
  | [] => 0
  | (s, a, b) :: r => ((s : ℤ) : ℂ) • kron2 (pauliMat a) (pauliMat b) + termsMat r

/-- half of `XX + YY`: the exchange of `|01⟩` and `|10⟩` -/
noncomputable def exQ : Matrix (Fin 4) (Fin 4) ℂ := !![0, 0, 0, 0; 0, 0, 1, 0; 0, 1, 0, 0; 0, 0, 0, 0]

theorem termsMat_ctlG : termsMat ctlG_terms = (2 : ℂ) • exQ := by
  show ((1 : ℤ) : ℂ) • kron2 G.x_gate_ G.x_gate_ + (((1 : ℤ) : ℂ) • kron2 G.y_gate_ G.y_gate_ + 0) = _
  rw [kron2_eq, kron2_eq]
  ext i j
  fin_cases i <;> fin_cases j <;> simp [exQ, G.x_gate_, G.y_gate_] <;> norm_num

theorem exQ_cube : exQ * exQ * exQ = exQ := by
  ext i j
  fin_cases i <;> fin_cases j <;> simp [exQ, Matrix.mul_apply, Fin.sum_univ_four]

theorem exQ_sq : exQ * exQ = !![0, 0, 0, 0; 0, 1, 0, 0; 0, 0, 1, 0; 0, 0, 0, 0] := by
  ext i j
  fin_cases i <;> fin_cases j <;> simp [exQ, Matrix.mul_apply, Fin.sum_univ_four]

theorem pauliMat_sq (op : Pauli) : pauliMat op * pauliMat op = 1 := by
  cases op <;> ext i j <;> fin_cases i <;> fin_cases j <;>
    simp [pauliMat, G.x_gate_, G.y_gate_, G.z_gate_, Matrix.mul_apply, Fin.sum_univ_two]

theorem smul_smul_real (u c : ℝ) {m : Type*} (A : Matrix m m ℂ) :
    (u : ℂ) • (c : ℂ) • A = ((u * c : ℝ) : ℂ) • A := by
  rw [smul_smul]; push_cast; rfl

/-- **one qubit (any size, `P² = 1`)**: the closed form `segProp` is the matrix exponential
`exp(−i·T·u·c·P)` -/
theorem evolve_involution_eq {m : Type*} [Fintype m] [DecidableEq m] (P : Matrix m m ℂ) (hP : P * P = 1)
    (u T c : ℝ) :
    evolve ((u : ℂ) • (c : ℂ) • P) T =
      (Real.cos (u * T * c) : ℂ) • (1 : Matrix m m ℂ) - (Complex.I * (Real.sin (u * T * c) : ℂ)) • P := by
  rw [smul_smul_real, evolve_involution P hP, show u * c * T = u * T * c by ring]

theorem segProp_eq_exp (P : Matrix (Fin 2) (Fin 2) ℂ) (hP : P * P = 1) (u T c : ℝ) :
    segProp P (u * T * c) = evolve ((u : ℂ) • (c : ℂ) • P) T := by
  rw [evolve_involution_eq P hP]; rfl

/-- the closed form for `Q³ = Q`, `H = 2Q` -/
theorem evolve_two_cube_eq {m : Type*} [Fintype m] [DecidableEq m] (Q : Matrix m m ℂ) (hQ : Q * Q * Q = Q)
    (u T c : ℝ) :
    evolve ((u : ℂ) • (c : ℂ) • (2 : ℂ) • Q) T =
      1 - (Complex.I * (Real.sin (2 * (u * T * c)) : ℂ)) • Q + ((Real.cos (2 * (u * T * c)) : ℂ) - 1) • (Q * Q) := by
  have : (u : ℂ) • (c : ℂ) • (2 : ℂ) • Q = ((u * c * 2 : ℝ) : ℂ) • Q := by
    rw [smul_smul, smul_smul]; push_cast; rfl
  rw [this, evolve_of_cube Q hQ, show u * c * 2 * T = 2 * (u * T * c) by ring]

/-- **two qubits**: the block form `exchProp` is the matrix exponential `exp(−i·T·u·c·(XX+YY))` of the
operator the regenerated table puts on a coupling label -/
theorem exchProp_eq_exp (u T c : ℝ) :
    exchProp (u * T * c) = evolve ((u : ℂ) • (c : ℂ) • termsMat ctlG_terms) T := by
  rw [termsMat_ctlG, evolve_two_cube_eq exQ exQ_cube, exQ_sq]
  ext i j
  fin_cases i <;> fin_cases j <;> simp [exchProp, exQ]

/-! ## on the register -/

theorem mat1_add (A B : Matrix (Fin 2) (Fin 2) ℂ) : mat1 (A + B) = mat1 A + mat1 B := rfl
theorem mat2_add (A B : Matrix (Fin 4) (Fin 4) ℂ) : mat2 (A + B) = mat2 A + mat2 B := rfl
theorem mat2_smul (c : ℂ) (A : Matrix (Fin 4) (Fin 4) ℂ) : mat2 (c • A) = c • mat2 A := rfl

theorem idx2_surj (k : Fin 4) : ∃ x : St 2, idx2 x = k := by
  fin_cases k
  · exact ⟨![0, 0], rfl⟩
  · exact ⟨![0, 1], rfl⟩
  · exact ⟨![1, 0], rfl⟩
  · exact ⟨![1, 1], rfl⟩

theorem mat2_mulX (A B : Matrix (Fin 4) (Fin 4) ℂ) : mat2 (A * B) = mat2 A * mat2 B := by
  ext x y
  simp only [mat2, Matrix.mul_apply]
  exact (Fintype.sum_bijective idx2 ⟨fun _ _ h => idx2_inj h, idx2_surj⟩ _ _ (fun z => rfl)).symm

/-- a unital multiplicative linear map between matrix algebras commutes with `exp(−i t a Q)` for `Q³ = Q`
(both sides by the closed form) -/
theorem evolve_map_of_cube {m k : Type*} [Fintype m] [DecidableEq m] [Fintype k] [DecidableEq k]
    (f : Matrix m m ℂ → Matrix k k ℂ) (hmul : ∀ A B, f (A * B) = f A * f B) (hone : f 1 = 1)
    (hadd : ∀ A B, f (A + B) = f A + f B) (hsmul : ∀ (c : ℂ) A, f (c • A) = c • f A)
    (Q : Matrix m m ℂ) (hQ : Q * Q * Q = Q) (a t : ℝ) :
    evolve ((a : ℂ) • f Q) t = f (evolve ((a : ℂ) • Q) t) := by
  rw [evolve_of_cube (f Q) (by rw [← hmul, ← hmul, hQ]), evolve_of_cube Q hQ, sub_eq_add_neg, ← neg_smul,
    sub_eq_add_neg (1 : Matrix m m ℂ), ← neg_smul, hadd, hadd, hone, hsmul, hsmul, hmul]

/-- the Hamiltonian of a control of the model on the whole register (without its prefactor) -/
noncomputable def hamMat (N : ℕ) : Ham → Option (Matrix (St N) (St N) ℂ)
  | .single op q => placeL N [q.toNat] 1 (mat1 (pauliMat op))
  | .pair terms q0 q1 => placeL N [q0.toNat, q1.toNat] 2 (mat2 (termsMat terms))

/-- **ideal propagator of an instruction, as a matrix exponential on the register**: the instruction drives the
control Hamiltonian `c·H_label` of its channel with the constant coefficient `coeff` for the time `dur`:
`exp(−i·dur·coeff·c·H_label)`; an instruction without a channel (IDLE) drives nothing (`H = 0`). -/
noncomputable def instrPropExp (circular : Bool) (N : ℕ) (i : Instr ℝ) : Option (Matrix (St N) (St N) ℂ) :=
  match i.chan with
  | none => some (evolve 0 i.dur)
  | some (pre, n) =>
    match control? circular N pre n, hamCoef Real.pi pre with
    | some h, some c => (hamMat N h).map fun H => evolve ((i.coeff : ℂ) • (c : ℂ) • H) i.dur
    | _, _ => none

theorem placeL_map_evolve_single (N : ℕ) (qs : List ℕ) (P : Matrix (Fin 2) (Fin 2) ℂ) (hP : P * P = 1) (u T c : ℝ) :
    (placeL N qs 1 (mat1 P)).map (fun H => evolve ((u : ℂ) • (c : ℂ) • H) T) =
      placeL N qs 1 (mat1 (segProp P (u * T * c))) := by
  unfold placeL
  split
  · rename_i h
    simp only [Option.map_some]
    congr 1
    rw [segProp_eq_exp P hP, smul_smul_real, smul_smul_real]
    exact evolve_map_of_cube (fun A => (tgL N qs 1 h.1 h.2.1 h.2.2).embed (mat1 A))
      (fun A B => by rw [mat1_mul, Tg.embed_mul]) (by rw [mat1_one, Tg.embed_one])
      (fun A B => by rw [mat1_add, Tg.embed_add]) (fun c A => by rw [mat1_smul, Tg.embed_smul])
      P (by rw [hP, one_mul]) (u * c) T
  · rfl

theorem placeL_map_evolve_pair (N : ℕ) (qs : List ℕ) (u T c : ℝ) :
    (placeL N qs 2 (mat2 (termsMat ctlG_terms))).map (fun H => evolve ((u : ℂ) • (c : ℂ) • H) T) =
      placeL N qs 2 (mat2 (exchProp (u * T * c))) := by
  unfold placeL
  split
  · rename_i h
    simp only [Option.map_some]
    congr 1
    rw [exchProp_eq_exp, termsMat_ctlG]
    have e : ∀ {m : Type} (A : Matrix m m ℂ), (u : ℂ) • (c : ℂ) • (2 : ℂ) • A = ((u * c * 2 : ℝ) : ℂ) • A := by
      intro m A; rw [smul_smul, smul_smul]; push_cast; rfl
    rw [mat2_smul, Tg.embed_smul, e, e]
    exact evolve_map_of_cube (fun A => (tgL N qs 2 h.1 h.2.1 h.2.2).embed (mat2 A))
      (fun A B => by rw [mat2_mulX, Tg.embed_mul]) (by rw [mat2_one, Tg.embed_one])
      (fun A B => by rw [mat2_add, Tg.embed_add]) (fun c A => by rw [mat2_smul, Tg.embed_smul])
      exQ exQ_cube (u * c * 2) T
  · rfl

theorem control_terms (circular : Bool) (N : ℕ) (pre : String) (n : Int) (terms : List (Int × Pauli × Pauli))
    (q0 q1 : Int) (h : control? circular N pre n = some (.pair terms q0 q1)) : terms = ctlG_terms := by
  unfold control? at h
  split at h
  · split at h
    · cases h; rfl
    · cases h
  · split at h
    · split at h <;> cases h
    · split at h
      · split at h <;> cases h
      · cases h

/-- **the closed-form propagator of every instruction is the matrix exponential of the Hamiltonian the model
puts on its channel** -/
theorem instrPropExp_eq (circular : Bool) (N : ℕ) (i : Instr ℝ) :
    instrPropExp circular N i = instrProp circular N i := by
  unfold instrPropExp instrProp
  cases hch : i.chan with
  | none => simp only [evolve_zero_ham]
  | some pn =>
    obtain ⟨pre, n⟩ := pn
    simp only
    cases hctl : control? circular N pre n with
    | none => rfl
    | some h =>
      cases hc : hamCoef Real.pi pre with
      | none => cases h <;> rfl
      | some c =>
        cases h with
        | single op q =>
          simp only [hamMat]
          exact placeL_map_evolve_single N _ _ (pauliMat_sq op) _ _ _
        | pair terms q0 q1 =>
          have ht := control_terms circular N pre n terms q0 q1 hctl
          subst ht
          simp only [hamMat]
          rw [if_pos (by decide)]
          exact placeL_map_evolve_pair N _ _ _ _

end QipVerif.SpinChain
