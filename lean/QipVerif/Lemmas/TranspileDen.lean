import QipVerif.Lemmas.TranspileTop
/-!
# C13: the transpiled circuit denotes the same unitary (over ℂ, `denG` of `Lemmas/Sem.lean`)

The decomposition stages use `C03.resolve_den_partial` (proved).  The routing stage is the
ℂ-instantiation of C07's `route_den` **through the conversion** `toRoute`/`ofRoute`; here it is the
named hypothesis `RouteStageDen`, which `Lemmas/TranspileRouteDen.lean` discharges
(`routeStageDen`, from C07's `toChain_den_C`).
-/
namespace QipVerif.Transpile
open QipVerif QipVerif.Decomp QipVerif.Gen Matrix

/-- **named hypothesis**: the routing stage preserves the denotation of a circuit of shaped gates
(C07 `route_den` over ℂ, transported along the conversion between the two gate types) -/
def RouteStageDen (N : ℕ) (ρ : ℕ → ℝ) : Prop :=
  ∀ (s : Route.Setup) (gs out : List Gate), (s = .linear ∨ s = .circular) →
    (∀ g ∈ gs, shapedB N g = true) → routeStage N s gs = .ok out →
    ∀ U : Matrix (St N) (St N) ℂ, denG N ρ gs = some U → denG N ρ out = some U

theorem shaped_wf1 {N : ℕ} {g : Gate} (hg : shapedB N g = true) : wf1 g = true := by
  have hs := ((shapedB_iff N g).mp hg).1
  unfold wf1
  by_cases hr : rotXYZ.contains g.name = true
  · have h01 : shapeOf g.name = some (0, 1) := by
      revert hr; cases g.name <;> simp [rotXYZ, shapeOf]
    rw [h01] at hs
    simp only [Option.some.injEq, Prod.mk.injEq] at hs
    have : g.controls = [] := List.eq_nil_of_length_eq_zero hs.1.symm
    simp [this]
  · have : g.name ∉ rotXYZ := by simpa using hr
    simp [this]

theorem phOK_of_ne {g : Gate} (h : g.name ≠ .PHASEGATE) : phOK g = true := by
  simp [phOK, h]

theorem inputOK_of {N : ℕ} {g : Gate} (hg : shapedB N g = true) (hp : phOK g = true) : inputOK g = true := by
  simp [inputOK, shaped_wf1 hg, hp]

/-- what the pre-decomposition of one gate emits is the gate itself or not a PHASEGATE -/
theorem expandOne_keep {N : ℕ} {g : Gate} (hg : InClass N g) {a : List Gate}
    (h : expandOne tables g = .ok a) : ∀ x ∈ a, x = g ∨ x.name ≠ .PHASEGATE := by
  unfold expandOne at h
  split at h
  · obtain ⟨inB, hsb⟩ := splitBasis_strCNOT
    have hnames := resolve_names_core true cnotBasis [g] a _ _ inB hsb (by simp) (by decide)
      (by decide) (by decide) (by simpa using hg.2) h
    intro x hx
    have hn := (List.all_eq_true.mp hnames) x hx
    right
    revert hn; cases x.name <;> simp [allowedOk]
  · cases h
    intro x hx
    exact Or.inl (List.mem_singleton.mp hx)

/-- the pre-decomposition of one gate preserves its operator -/
theorem expandOne_den {N : ℕ} {ρ : ℕ → ℝ} {g : Gate} (hok : inputOK g = true) {a : List Gate}
    (h : expandOne tables g = .ok a) {A : Matrix (St N) (St N) ℂ} (hA : semD N ρ g = some A) :
    denG N ρ a = some A := by
  unfold expandOne at h
  split at h
  · exact C03.resolve_den_partial N ρ _ [g] a (by intro x hx; rw [List.mem_singleton.mp hx]; exact hok) h A
      (by rw [denG_single]; exact hA)
  · cases h; rw [denG_single]; exact hA

theorem preExpand_den {N : ℕ} {ρ : ℕ → ℝ} : ∀ {gs out : List Gate}, (∀ g ∈ gs, inputOK g = true) →
    preExpand tables gs = .ok out → ∀ U : Matrix (St N) (St N) ℂ, denG N ρ gs = some U → denG N ρ out = some U := by
  intro gs
  induction gs with
  | nil => intro out _ h U hU; simp [preExpand] at h; subst h; exact hU
  | cons g gs ih =>
    intro out hok h U hU
    unfold preExpand at h
    split at h
    · cases h
    · rename_i a ha
      split at h
      · cases h
      · rename_i b hb
        cases h
        obtain ⟨A, R, hA, hR, rfl⟩ := denG_cons_inv N ρ g gs U hU
        exact denG_append_some N ρ a b A R (expandOne_den (hok g (List.mem_cons_self ..)) ha hA)
          (ih (fun x hx => hok x (List.mem_cons_of_mem _ hx)) hb R hR)

/-- **same unitary, either composition** (`pre = true`: the repaired one), given the routing-stage
hypothesis -/
theorem transpileV_den (pre : Bool) {spec : DeviceSpec} {N : ℕ} {ρ : ℕ → ℝ} (hroute : RouteStageDen N ρ)
    (hn : spec.native.isSome = true) (ht : TopoOK spec) {gs out : List Gate}
    (hg : ∀ g ∈ gs, InClass N g) (hph : ∀ g ∈ gs, phOK g = true)
    (h2q : pre = false → ∀ g ∈ gs, g.qubits.length ≤ 2)
    (h : transpileV tables pre spec N gs = .ok out)
    (U : Matrix (St N) (St N) ℂ) (hU : denG N ρ gs = some U) : denG N ρ out = some U := by
  obtain ⟨g0, g1, h0, h1, h2⟩ := transpileV_ok h
  -- stage 0
  have s0 : denG N ρ g0 = some U ∧ (∀ x ∈ g0, Small N x) ∧ ∀ x ∈ g0, phOK x = true := by
    cases pre with
    | false =>
      rw [preStage_false] at h0; cases h0
      exact ⟨hU, fun g hgm => ⟨(hg g hgm).1, (hg g hgm).2, h2q rfl g hgm⟩, hph⟩
    | true =>
      refine ⟨?_, preStage_small hn hg h0, ?_⟩
      · unfold preStage at h0
        simp only [hn, Bool.and_self, if_true] at h0
        split at h0
        · rename_i o ho; cases h0
          exact preExpand_den (fun g hgm => inputOK_of (hg g hgm).1 (hph g hgm)) ho U hU
        · cases h0
      · unfold preStage at h0
        simp only [hn, Bool.and_self, if_true] at h0
        split at h0
        · rename_i o ho; cases h0
          intro x hx
          obtain ⟨g, hgm, a, ha, hxa⟩ := preExpand_mem ho x hx
          rcases expandOne_keep (hg g hgm) ha x hxa with rfl | hne
          · exact hph x hgm
          · exact phOK_of_ne hne
        · cases h0
  obtain ⟨hU0, hsm0, hph0⟩ := s0
  -- stage 1
  have s1 : denG N ρ g1 = some U ∧ ∀ x ∈ g1, phOK x = true := by
    rcases topoStage_ok ht (fun g hgm => (hsm0 g hgm).1) h1 with ⟨_, rfl⟩ | ⟨s, _, hs, ho⟩
    · exact ⟨hU0, hph0⟩
    · refine ⟨hroute s g0 g1 hs (fun g hgm => (hsm0 g hgm).1) ho U hU0, ?_⟩
      intro x hx
      rcases routeStage_mem N s hs g0 g1 (fun g hgm _ => (hsm0 g hgm).1) ho x hx with ⟨hxm, _⟩ | hr
      · exact hph0 x hxm
      · obtain ⟨g, _, hh, hnm⟩ := hr.from_handled
        apply phOK_of_ne
        rcases hnm with h | h
        · rw [h]; intro hc; rw [hc] at hh; cases hh
        · rw [h]; decide
  obtain ⟨hU1, hph1⟩ := s1
  have hcls1 := topoStage_small ht hsm0 h1
  -- stage 2
  unfold nativeStage at h2
  split at h2
  · cases h2; exact hU1
  · split at h2
    · rename_i o ho
      cases h2
      exact C03.resolve_den_partial N ρ _ g1 _ (fun x hx => inputOK_of (hcls1 x hx).1.1 (hph1 x hx)) ho U hU1
    · cases h2

end QipVerif.Transpile
