import QipVerif.Lemmas.TranspileTop
/-!
# C13: the circuit's register against the processor's (`transpileD`)

Inversion lemmas for `transpileD` (`Model/Transpile.lean`): the size check of `fixes/C13-2.patch` and
the choice of the device spec by `qc.N < num_qubits`.
-/
namespace QipVerif.Transpile
open QipVerif QipVerif.Decomp

/-- a circuit on more qubits than the processor has is refused once the size check is in place -/
theorem transpileD_large (T : Tables) (pre : Bool) (spec specSmall : DeviceSpec) {M N : Nat} (h : M < N)
    (gs : List Gate) : transpileD T pre true spec specSmall M N gs = .error .size := by
  simp [transpileD, h]

/-- inversion: an accepted circuit went through `transpileV` with the spec chosen by the sizes -/
theorem transpileD_ok {T : Tables} {pre guard : Bool} {spec specSmall : DeviceSpec} {M N : Nat}
    {gs out : List Gate} (h : transpileD T pre guard spec specSmall M N gs = .ok out) :
    (guard = true → N ≤ M) ∧ transpileV T pre (if N < M then specSmall else spec) N gs = .ok out := by
  unfold transpileD at h
  split at h
  · cases h
  · rename_i hg
    refine ⟨fun hgu => ?_, ?_⟩
    · simp only [hgu, Bool.true_and, decide_eq_true_eq] at hg
      omega
    · split at h
      · rename_i o ho; cases h; exact ho
      · cases h

/-- the processor's own size: `transpileD` is `transpileV` -/
theorem transpileD_same (T : Tables) (pre guard : Bool) (spec specSmall : DeviceSpec) (N : Nat) (gs : List Gate) :
    transpileD T pre guard spec specSmall N N gs =
      match transpileV T pre spec N gs with
      | .ok out => .ok out
      | .error e => .error (.inner e) := by
  simp only [transpileD, Nat.lt_irrefl, decide_false, Bool.and_false, Bool.false_eq_true, if_false]
  cases transpileV T pre spec N gs <;> rfl

end QipVerif.Transpile
