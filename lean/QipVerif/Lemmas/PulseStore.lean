import QipVerif.Model.PulseStore
/-! `load_circuit` stores, under every label, the time grid and the coefficients compiled for that label (C12). -/
namespace QipVerif.Store

theorem pulseDict_none {ps : List SPulse} {l : Nat} (h : pulseDict ps l = none) : l ∉ ps.map (·.label) := by
  induction ps with
  | nil => simp
  | cons p ps ih =>
    simp only [pulseDict] at h
    cases hd : pulseDict ps l with
    | some i => rw [hd] at h; cases h
    | none =>
      rw [hd] at h
      by_cases hp : p.label = l
      · rw [if_pos hp] at h; cases h
      · have := ih hd
        simp only [List.map_cons, List.mem_cons, not_or]
        exact ⟨fun e => hp e.symm, this⟩

theorem pulseDict_some_mem {ps : List SPulse} {l i : Nat} (h : pulseDict ps l = some i) : l ∈ ps.map (·.label) := by
  induction ps generalizing i with
  | nil => cases h
  | cons p ps ih =>
    simp only [pulseDict] at h
    cases hd : pulseDict ps l with
    | some j => simp [ih hd]
    | none =>
      rw [hd] at h
      by_cases hp : p.label = l
      · simp [hp]
      · rw [if_neg hp] at h; cases h

theorem pulseDict_of_mem {ps : List SPulse} {l : Nat} (h : l ∈ ps.map (·.label)) : ∃ i, pulseDict ps l = some i := by
  cases hd : pulseDict ps l with
  | some i => exact ⟨i, rfl⟩
  | none => exact absurd h (pulseDict_none hd)

theorem map_untouched {qs : List SPulse} {l : Nat} (t : Nat) (hnot : l ∉ qs.map (·.label)) :
    qs.map (fun p => if p.label = l then { p with tl := some t } else p) = qs := by
  induction qs with
  | nil => rfl
  | cons q qs ihq =>
    simp only [List.map_cons, List.mem_cons, not_or] at hnot
    have hq : ¬ (q.label = l) := fun e => hnot.1 e.symm
    simp only [List.map_cons, if_neg hq, ihq hnot.2]

/-- assignment of one grid through the position found by label = assignment by label, when labels are distinct -/
theorem setAt_eq_map {ps : List SPulse} (hn : (ps.map (·.label)).Nodup) {l i : Nat} (t : Nat) (h : pulseDict ps l = some i) :
    setAt ps i t = ps.map (fun p => if p.label = l then { p with tl := some t } else p) := by
  induction ps generalizing i with
  | nil => cases h
  | cons p ps ih =>
    have hnc : (p.label :: ps.map (·.label)).Nodup := hn
    have hn' := (List.nodup_cons.mp hnc).2
    have hp : p.label ∉ ps.map (·.label) := (List.nodup_cons.mp hnc).1
    simp only [pulseDict] at h
    cases hd : pulseDict ps l with
    | some j =>
      rw [hd] at h
      cases h
      have hne : ¬ (p.label = l) := fun e => hp (e ▸ pulseDict_some_mem hd)
      simp only [setAt, List.map_cons, if_neg hne, ih hn' hd]
    | none =>
      rw [hd] at h
      by_cases hpl : p.label = l
      · rw [if_pos hpl] at h
        cases h
        have hrest := map_untouched t (pulseDict_none hd)
        simp only [setAt, List.map_cons, if_pos hpl, hrest]
      · rw [if_neg hpl] at h; cases h

/-- the grid a pulse holds after the grids of `tlists` were assigned by label -/
def upd (tlists : List (Nat × Nat)) (p : SPulse) : SPulse :=
  match tlOf p.label tlists with
  | some t => { p with tl := some t }
  | none => p

theorem tlOf_none_of_not_mem {l : Nat} {tl : List (Nat × Nat)} (h : l ∉ tl.map (·.1)) : tlOf l tl = none := by
  induction tl with
  | nil => rfl
  | cons kt r ih =>
    obtain ⟨k, t⟩ := kt
    simp only [List.map_cons, List.mem_cons, not_or] at h
    have : ¬ (k = l) := fun e => h.1 e.symm
    simp only [tlOf, if_neg this, ih h.2]

theorem setTlist_eq (tlists : List (Nat × Nat)) : ∀ (ps : List SPulse), (ps.map (·.label)).Nodup →
    (tlists.map (·.1)).Nodup → (∀ lt ∈ tlists, lt.1 ∈ ps.map (·.label)) →
    setTlist tlists ps = some (ps.map (upd tlists)) := by
  induction tlists with
  | nil =>
    intro ps _ _ _
    have h : upd ([] : List (Nat × Nat)) = id := by funext p; rfl
    simp only [setTlist, h, List.map_id]
  | cons lt rest ih =>
    intro ps hn ht hm
    obtain ⟨l, t⟩ := lt
    obtain ⟨i, hi⟩ := pulseDict_of_mem (hm (l, t) (by simp))
    have htc : (l :: rest.map (·.1)).Nodup := ht
    have hl : l ∉ rest.map (·.1) := (List.nodup_cons.mp htc).1
    have ht' : (rest.map (·.1)).Nodup := (List.nodup_cons.mp htc).2
    simp only [setTlist, hi]
    rw [setAt_eq_map hn t hi]
    have hlab : (ps.map (fun p => if p.label = l then { p with tl := some t } else p)).map (·.label) = ps.map (·.label) := by
      rw [List.map_map]
      apply List.map_congr_left
      intro p _
      simp only [Function.comp]
      split <;> rfl
    rw [ih _ (by rw [hlab]; exact hn) ht' (by intro lt' h'; rw [hlab]; exact hm lt' (by simp [h']))]
    rw [List.map_map]
    congr 1
    apply List.map_congr_left
    intro p _
    simp only [Function.comp]
    by_cases hp : p.label = l
    · rw [if_pos hp]
      simp only [upd, hp, tlOf, if_true, tlOf_none_of_not_mem hl]
    · rw [if_neg hp]
      have : ¬ (l = p.label) := fun e => hp e.symm
      simp only [upd, tlOf, if_neg this]

/-- **What `load_circuit` stores.** -/
theorem storePulses_eq (coeffs tlists : List (Nat × Nat)) (hc : (coeffs.map (·.1)).Nodup) (ht : (tlists.map (·.1)).Nodup)
    (hm : ∀ lt ∈ tlists, lt.1 ∈ coeffs.map (·.1)) :
    storePulses coeffs tlists = some (coeffs.map fun lc => ⟨lc.1, tlOf lc.1 tlists, lc.2⟩) := by
  have hlab : (setCoeffs coeffs).map (·.label) = coeffs.map (·.1) := by simp [setCoeffs, List.map_map, Function.comp]
  unfold storePulses
  rw [setTlist_eq tlists _ (by rw [hlab]; exact hc) ht (by intro lt h; rw [hlab]; exact hm lt h)]
  simp only [setCoeffs, List.map_map]
  congr 1
  apply List.map_congr_left
  intro lc _
  simp only [Function.comp, upd]
  cases tlOf lc.1 tlists <;> rfl

end QipVerif.Store
