import QipVerif.Model.Noise
/-! Helper lemmas for C15: validation and the per-subsystem case analysis. Core Lean only. -/
namespace QipVerif.Noise

/-- the sign of `δ = 2·t1 − t2` (cross-multiplied): `δ < 0` rejected, `δ = 0` the boundary -/
def delta (a b : Frac) : Int := 2 * a.n * b.d - a.d * b.n

theorem twice_lt_iff (a b : Frac) : a.twice.lt b = true ↔ delta a b < 0 := by
  show decide (2 * a.n * b.d < b.n * a.d) = true ↔ _
  rw [decide_eq_true_iff, delta, Int.mul_comm b.n a.d]
  omega

theorem inv_of_pos {a : Frac} (h : 0 < a.n) : a.inv = ⟨a.d, a.n⟩ := by
  simp [Frac.inv, Int.not_lt.mpr (Int.le_of_lt h)]

theorem dephasing_of_pos {a b : Frac} (ha : 0 < a.n) (hb : 0 < b.n) :
    dephasing a b = ⟨b.d * (2 * a.n) - a.d * b.n, b.n * (2 * a.n)⟩ := by
  simp [dephasing, inv_of_pos ha, inv_of_pos hb, Frac.sub, Frac.half]

theorem dephasing_n {a b : Frac} (ha : 0 < a.n) (hb : 0 < b.n) : (dephasing a b).n = delta a b := by
  rw [dephasing_of_pos ha hb]
  simp only [delta]
  rw [show b.d * (2 * a.n) = 2 * a.n * b.d from by rw [Int.mul_comm]]

theorem invRate_of_pos {a : Frac} (h : 0 < a.n) : invRate a = some ⟨a.d, a.n⟩ := by
  simp [invRate, Frac.isPos, h, inv_of_pos h]

/-- rejected: `2·t1 < t2` -/
theorem qubitOps_lt (fixed : Bool) (dim q : Nat) (a b : Frac) (h : delta a b < 0) :
    qubitOps fixed dim q (some a) (some b) = .error .t2gt2t1 := by
  simp [qubitOps, (twice_lt_iff a b).mpr h]

/-- boundary `t2 = 2·t1` (positive times): the repaired code adds only the relaxation operator,
the shipped code raises `ZeroDivisionError` -/
theorem qubitOps_eq (fixed : Bool) (dim q : Nat) (a b : Frac) (ha : 0 < a.n) (hb : 0 < b.n)
    (h : delta a b = 0) :
    qubitOps fixed dim q (some a) (some b) =
      if fixed then .ok [⟨[q], .destroy, dim, some ⟨a.d, a.n⟩⟩] else .error .zerodiv := by
  have h1 : ¬ (a.twice.lt b = true) := fun hh => by have := (twice_lt_iff a b).mp hh; omega
  have h2 : ¬ (b.n = 0 ∨ a.n = 0) := by omega
  have h3 : (dephasing a b).n = 0 := by rw [dephasing_n ha hb]; exact h
  simp only [qubitOps, h1, h2, h3, invRate_of_pos ha]
  simp

/-- strictly inside `t2 < 2·t1` (positive times): both operators, with rates `1/t1` and `2(1/t2 − 1/(2 t1))` -/
theorem qubitOps_gt (fixed : Bool) (dim q : Nat) (a b : Frac) (ha : 0 < a.n) (hb : 0 < b.n)
    (h : 0 < delta a b) :
    qubitOps fixed dim q (some a) (some b) =
      .ok [⟨[q], .destroy, dim, some ⟨a.d, a.n⟩⟩,
           ⟨[q], .num, dim, some ⟨2 * delta a b, b.n * (2 * a.n)⟩⟩] := by
  have h1 : ¬ (a.twice.lt b = true) := fun hh => by have := (twice_lt_iff a b).mp hh; omega
  have h2 : ¬ (b.n = 0 ∨ a.n = 0) := by omega
  have h3 : ¬ ((dephasing a b).n = 0) := by rw [dephasing_n ha hb]; omega
  have h4 : (dephasing a b).isPos = true := by simp [Frac.isPos, dephasing_n ha hb, h]
  have h5 : (dephasing a b).twice = ⟨2 * delta a b, b.n * (2 * a.n)⟩ := by
    have := dephasing_n ha hb
    rw [dephasing_of_pos ha hb] at this ⊢
    simp only [Frac.twice] at this ⊢
    rw [this]
  simp only [qubitOps, h1, h2, h3, h4, h5, invRate_of_pos ha]
  simp

theorem qubitOps_t1_only (fixed : Bool) (dim q : Nat) (a : Frac) (ha : 0 < a.n) :
    qubitOps fixed dim q (some a) none = .ok [⟨[q], .destroy, dim, some ⟨a.d, a.n⟩⟩] := by
  simp [qubitOps, invRate_of_pos ha]

theorem qubitOps_t2_only (fixed : Bool) (dim q : Nat) (b : Frac) (hb : 0 < b.n) :
    qubitOps fixed dim q none (some b) = .ok [⟨[q], .num, dim, some ⟨2 * b.d, b.n⟩⟩] := by
  simp [qubitOps, Frac.isPos, hb, inv_of_pos hb, Frac.twice]

theorem qubitOps_none (fixed : Bool) (dim q : Nat) : qubitOps fixed dim q none none = .ok [] := by
  simp [qubitOps]

/-! ### `_T_to_list` -/

theorem tToList_ok_iff (T : TSpec) (N : Nat) (l : List (Option Frac)) :
    tToList T N = .ok l ↔
      (T = .none ∧ l = List.replicate N none) ∨
      (∃ q, T = .scalar q ∧ 0 < q.n ∧ l = List.replicate N (some q)) ∨
      (T = .list l ∧ l.length = N) := by
  cases T with
  | none => simp [tToList, eq_comm]
  | scalar q =>
    by_cases h : 0 < q.n
    · simp [tToList, Frac.isPos, h, eq_comm]
    · simp [tToList, Frac.isPos, h]
  | list l' =>
    by_cases h : l'.length = N
    · simp only [tToList, h, ↓reduceIte, Except.ok.injEq, reduceCtorEq, false_and, exists_false,
        TSpec.list.injEq, false_or]
      constructor
      · rintro rfl; exact ⟨rfl, h⟩
      · rintro ⟨rfl, _⟩; rfl
    · simp only [tToList, h, ↓reduceIte, reduceCtorEq, false_and, exists_false, TSpec.list.injEq,
        false_or, false_iff, not_and]
      rintro rfl; exact h

theorem tToList_length {T : TSpec} {N : Nat} {l : List (Option Frac)} (h : tToList T N = .ok l) :
    l.length = N := by
  rcases (tToList_ok_iff T N l).mp h with ⟨_, rfl⟩ | ⟨q, _, _, rfl⟩ | ⟨_, h⟩ <;> simp [*]

/-! ### the loop over the targets -/

/-- if every targeted subsystem is in range and its own operators are `ops q`, the loop returns
their concatenation in target order -/
theorem loopTargets_ok (fixed : Bool) (dims : List Nat) (l1 l2 : List (Option Frac))
    (ops : Nat → List COp) (tg : List Nat)
    (h : ∀ q ∈ tg, ∃ a b d, l1[q]? = some a ∧ l2[q]? = some b ∧ dims[q]? = some d ∧
      qubitOps fixed d q a b = .ok (ops q)) :
    loopTargets fixed dims l1 l2 tg = .ok (tg.flatMap ops) := by
  induction tg with
  | nil => rfl
  | cons q qs ih =>
    obtain ⟨a, b, d, h1, h2, h3, h4⟩ := h q (List.mem_cons_self ..)
    have ih' := ih (fun q' hq' => h q' (List.mem_cons_of_mem _ hq'))
    simp [loopTargets, h1, h2, h3, h4, ih']

/-- the first targeted subsystem whose own check fails determines the exception -/
theorem loopTargets_err (fixed : Bool) (dims : List Nat) (l1 l2 : List (Option Frac))
    (ops : Nat → List COp) (pre : List Nat) (q : Nat) (post : List Nat) (e : Err)
    (hpre : ∀ q ∈ pre, ∃ a b d, l1[q]? = some a ∧ l2[q]? = some b ∧ dims[q]? = some d ∧
      qubitOps fixed d q a b = .ok (ops q))
    (hq : ∃ a b d, l1[q]? = some a ∧ l2[q]? = some b ∧ dims[q]? = some d ∧
      qubitOps fixed d q a b = .error e) :
    loopTargets fixed dims l1 l2 (pre ++ q :: post) = .error e := by
  induction pre with
  | nil =>
    obtain ⟨a, b, d, h1, h2, h3, h4⟩ := hq
    simp [loopTargets, h1, h2, h3, h4]
  | cons p ps ih =>
    obtain ⟨a, b, d, h1, h2, h3, h4⟩ := hpre p (List.mem_cons_self ..)
    have ih' := ih (fun q' hq' => hpre q' (List.mem_cons_of_mem _ hq'))
    simp [loopTargets, h1, h2, h3, h4, ih']

end QipVerif.Noise
