import QipVerif.Lemmas.ComposeChannels
import QipVerif.Lemmas.SpinChainExp
import QipVerif.Lemmas.ConcatSrcCompile
/-!
# C06: the spin-chain instruction list as pulses of C12 / slices of C14

Bridge between the instruction list of `Model/SpinChain.lean` (`Instr`, labels `(prefix, index)`, numbers in `ℝ`) and the
pulse models of C12 (`Concat.Instr`, labels `ℕ`, numbers in `Rat`) and C14: the rational instruction list `isQ` whose
cast is the real one, the encoding `enc` of the labels, the control Hamiltonian of a label on the register
(`ctrlHam`: prefactor times the embedded operator, as `instrPropExp` uses it), the scheduled list `schedJ`, and the facts
that feed `Compose.channels_sliceProd`: the propagator `instrPropExp` is `exp(−i·dur·(coeff·H_label))`, generators of
channels on disjoint qubits commute, the scheduled order is compatible with the time order.
-/
set_option linter.unusedSectionVars false
namespace QipVerif.SpinChain
open QipVerif QipVerif.Gen QipVerif.Gen.SC Matrix QipVerif.MatExp QipVerif.Compose QipVerif.Grid

theorem ordProd_eq_ordProdL {N : ℕ} (ws : List (Matrix (St N) (St N) ℂ)) : ordProd ws = ordProdL ws := by
  induction ws with
  | nil => rfl
  | cons w ws ih => simp only [ordProd, ordProdL, ih]

/-- the real instruction denoted by a rational one -/
def castI (i : Instr Rat) : Instr ℝ := ⟨i.gate, i.chan, ((i.coeff : ℚ) : ℝ), ((i.dur : ℚ) : ℝ)⟩

def dfltI : Instr Rat := ⟨⟨.IDLE, [], [], {}⟩, none, 0, 0⟩

/-- the instruction, started at `s`, as a rectangular pulse with the label encoded as a number -/
def toRI (enc : String × Int → ℕ) (i : Instr Rat) (s : Rat) : RI := ⟨i.chan.map enc, s, i.dur, i.coeff⟩

/-- the instruction as C12's `compile` sees it: scalar `tlist`, `pulse_info = [(label, coeff)]` or `[]` -/
def toC (enc : String × Int → ℕ) (i : Instr Rat) : Concat.Instr := (toRI enc i 0).toInstr

theorem toRI_toInstr (enc : String × Int → ℕ) (i : Instr Rat) (s : Rat) : (toRI enc i s).toInstr = toC enc i := rfl

/-- the control Hamiltonian of a label on the register, prefactor included (`0` if the label names no control) -/
noncomputable def ctrlHam (circular : Bool) (N : ℕ) (pn : String × Int) : Matrix (St N) (St N) ℂ :=
  match control? circular N pn.1 pn.2, hamCoef Real.pi pn.1 with
  | some h, some c =>
    match hamMat N h with
    | some M => ((c : ℝ) : ℂ) • M
    | none => 0
  | _, _ => 0

/-- … of an encoded label -/
noncomputable def labelHam (circular : Bool) (N : ℕ) (enc : String × Int → ℕ) (l : ℕ) : Matrix (St N) (St N) ℂ :=
  ctrlHam circular N (Function.invFun enc l)

theorem labelHam_enc (circular : Bool) (N : ℕ) (enc : String × Int → ℕ) (henc : Function.Injective enc)
    (pn : String × Int) : labelHam circular N enc (enc pn) = ctrlHam circular N pn := by
  unfold labelHam
  rw [Function.leftInverse_invFun henc pn]

/-- **the propagator of an instruction is the exponential of its generator** (coefficient times the control Hamiltonian
of its label) over its duration -/
theorem instrPropExp_gen (circular : Bool) (N : ℕ) (enc : String × Int → ℕ) (henc : Function.Injective enc)
    (i : Instr Rat) (s : Rat) (A : Matrix (St N) (St N) ℂ) (h : instrPropExp circular N (castI i) = some A) :
    A = evolve ((toRI enc i s).gen (labelHam circular N enc)) (((toRI enc i s).d : ℚ) : ℝ) := by
  unfold instrPropExp at h
  unfold RI.gen toRI
  cases hch : i.chan with
  | none =>
    simp only [castI, hch] at h
    cases h
    simp
  | some pn =>
    obtain ⟨pre, k⟩ := pn
    simp only [castI, hch] at h
    simp only [Option.map_some]
    rw [labelHam_enc circular N enc henc]
    unfold ctrlHam
    cases hctl : control? circular N pre k with
    | none => rw [hctl] at h; cases h
    | some hm =>
      cases hc : hamCoef Real.pi pre with
      | none => rw [hctl, hc] at h; cases h
      | some c =>
        rw [hctl, hc] at h
        simp only at h ⊢
        cases hM : hamMat N hm with
        | none => rw [hM] at h; cases h
        | some M =>
          rw [hM] at h
          simp only [Option.map_some, Option.some.injEq] at h
          rw [← h]

/-- the qubits the control Hamiltonian of the instruction's channel acts on -/
def chanQubits {α : Type} (circular : Bool) (N : ℕ) (i : Instr α) : List ℕ :=
  match i.chan with
  | none => []
  | some (pre, k) =>
    match control? circular N pre k with
    | some h => h.qubits.map Int.toNat
    | none => []

theorem hamMat_embed {N : ℕ} {h : Ham} {M : Matrix (St N) (St N) ℂ} (hM : hamMat N h = some M) :
    ∃ (m : ℕ) (t : Tg m N) (X : Matrix (St m) (St m) ℂ), M = t.embed X ∧
      ∀ q, q ∈ Set.range t.f → q.val ∈ h.qubits.map Int.toNat := by
  cases h with
  | single op q =>
    simp only [hamMat] at hM
    unfold placeL at hM
    split at hM
    · rename_i hh
      cases hM
      refine ⟨1, _, _, rfl, ?_⟩
      rintro x ⟨i, rfl⟩
      simp only [Ham.qubits, List.map_cons, List.map_nil]
      exact List.getElem_mem _
    · cases hM
  | pair terms q0 q1 =>
    simp only [hamMat] at hM
    unfold placeL at hM
    split at hM
    · rename_i hh
      cases hM
      refine ⟨2, _, _, rfl, ?_⟩
      rintro x ⟨i, rfl⟩
      simp only [Ham.qubits, List.map_cons, List.map_nil]
      exact List.getElem_mem _
    · cases hM

/-- **generators of channels whose Hamiltonians act on disjoint qubits commute** -/
theorem gen_commute_of_disjoint (circular : Bool) (N : ℕ) (enc : String × Int → ℕ) (henc : Function.Injective enc)
    (i j : Instr Rat) (s s' : Rat) (hd : ∀ q, q ∈ chanQubits circular N i → q ∉ chanQubits circular N j) :
    Commute ((toRI enc i s).gen (labelHam circular N enc)) ((toRI enc j s').gen (labelHam circular N enc)) := by
  unfold RI.gen toRI
  cases hi : i.chan with
  | none => simp only [Option.map_none]; exact Commute.zero_left _
  | some pi =>
    cases hj : j.chan with
    | none => simp only [Option.map_none]; exact Commute.zero_right _
    | some pj =>
      obtain ⟨pre, k⟩ := pi
      obtain ⟨pre', k'⟩ := pj
      simp only [Option.map_some]
      rw [labelHam_enc circular N enc henc, labelHam_enc circular N enc henc]
      apply Commute.smul_left
      apply Commute.smul_right
      unfold ctrlHam
      simp only
      cases hc1 : control? circular N pre k with
      | none => exact Commute.zero_left _
      | some h1 =>
        cases hc2 : control? circular N pre' k' with
        | none =>
          cases hamCoef Real.pi pre <;> exact Commute.zero_right _
        | some h2 =>
          cases hamCoef Real.pi pre with
          | none => exact Commute.zero_left _
          | some c1 =>
            cases hamCoef Real.pi pre' with
            | none => exact Commute.zero_right _
            | some c2 =>
              simp only
              cases hM1 : hamMat N h1 with
              | none => exact Commute.zero_left _
              | some M1 =>
                cases hM2 : hamMat N h2 with
                | none => exact Commute.zero_right _
                | some M2 =>
                  simp only
                  apply Commute.smul_left
                  apply Commute.smul_right
                  obtain ⟨m, t, X, rfl, ht⟩ := hamMat_embed hM1
                  obtain ⟨m', t', X', rfl, ht'⟩ := hamMat_embed hM2
                  apply Tg.commute_embed_of_disjoint
                  rw [Set.disjoint_left]
                  intro q hq hq'
                  refine hd q.val ?_ ?_
                  · simp only [chanQubits, hi, hc1]; exact ht q hq
                  · simp only [chanQubits, hj, hc2]; exact ht' q hq'

/-! ## the schedule -/

/-- the order in which `_schedule` hands the instructions on: the scheduler's `argsort`, or the list order -/
def schedOrder (n : ℕ) : Option (List Rat × List ℕ) → List ℕ
  | none => List.range n
  | some (_, p) => p

/-- the start time of every instruction (in compile order): the scheduler's, or the cumulative sums -/
def schedStarts (instrs : List Concat.Instr) : Option (List Rat × List ℕ) → List Rat
  | none => Concat.cumStarts 0 instrs
  | some (s, _) => s

/-- the scheduled rectangular pulses: instruction `k` started at `st0[k]`, in the order `σ` -/
def schedJ (enc : String × Int → ℕ) (isQ : List (Instr Rat)) (st0 : List Rat) (σ : List ℕ) : List RI :=
  σ.map fun k => toRI enc (isQ.getD k dfltI) (st0.getD k 0)

theorem cumStarts_ge (l : List Concat.Instr) (hd : ∀ i ∈ l, 0 ≤ i.duration) :
    ∀ acc, ∀ x ∈ Concat.cumStarts acc l, acc ≤ x := by
  induction l with
  | nil => intro acc x hx; simp [Concat.cumStarts] at hx
  | cons i rest ih =>
    intro acc x hx
    simp only [Concat.cumStarts, List.mem_cons] at hx
    rcases hx with rfl | hx
    · exact le_rfl
    · have := ih (fun j hj => hd j (by simp [hj])) _ x hx
      have := hd i (by simp)
      linarith

theorem cumStarts_sorted (l : List Concat.Instr) (hd : ∀ i ∈ l, 0 ≤ i.duration) :
    ∀ acc, (Concat.cumStarts acc l).Pairwise (· ≤ ·) := by
  induction l with
  | nil => intro acc; simp [Concat.cumStarts]
  | cons i rest ih =>
    intro acc
    simp only [Concat.cumStarts]
    refine List.pairwise_cons.mpr ⟨?_, ih (fun j hj => hd j (by simp [hj])) _⟩
    intro x hx
    have := cumStarts_ge rest (fun j hj => hd j (by simp [hj])) _ x hx
    have := hd i (by simp)
    linarith

theorem map_range_getD {α : Type} (l : List α) (d : α) : (List.range l.length).map (fun k => l.getD k d) = l := by
  apply List.ext_getElem
  · simp
  · intro k h1 h2
    simp only [List.getElem_map, List.getElem_range]
    rw [List.getD_eq_getElem?_getD, List.getElem?_eq_getElem h2]; rfl

theorem filterMap_getElem?_eq_map {α : Type} (l : List α) (d : α) (σ : List ℕ) (h : ∀ k ∈ σ, k < l.length) :
    σ.filterMap (fun i => l[i]?) = σ.map (fun k => l.getD k d) := by
  induction σ with
  | nil => rfl
  | cons k σ ih =>
    have hk := h k (by simp)
    rw [List.filterMap_cons, List.getElem?_eq_getElem hk, List.map_cons, ih (fun x hx => h x (by simp [hx])),
      List.getD_eq_getElem?_getD, List.getElem?_eq_getElem hk]
    rfl

theorem toC_duration (enc : String × Int → ℕ) (i : Instr Rat) : (toC enc i).duration = i.dur := rfl

/-- **what `_schedule` returns, as scheduled pulses**: the order is a permutation of the positions, the returned
(instruction, start time) pairs are the scheduled pulses `schedJ`, and the start times come out sorted -/
theorem schedule_pairs (enc : String × Int → ℕ) (isQ : List (Instr Rat)) (sch : Option (List Rat × List ℕ))
    (cis : List Concat.Instr) (st : List Rat) (hd : ∀ i ∈ isQ, 0 ≤ i.dur)
    (h : Concat.schedule (isQ.map (toC enc)) sch = .ok (cis, st)) :
    (schedOrder isQ.length sch).Perm (List.range isQ.length) ∧
    cis.zip st = (schedJ enc isQ (schedStarts (isQ.map (toC enc)) sch) (schedOrder isQ.length sch)).map
      (fun j => (j.toInstr, j.s)) ∧
    ((schedOrder isQ.length sch).map fun k => (schedStarts (isQ.map (toC enc)) sch).getD k 0).Pairwise (· ≤ ·) := by
  have hzip : ∀ (σ : List ℕ) (S : List Rat), (∀ k ∈ σ, k < isQ.length) →
      (σ.filterMap (fun i => (isQ.map (toC enc))[i]?)).zip (σ.map (fun i => S.getD i 0)) =
        (schedJ enc isQ S σ).map (fun j => (j.toInstr, j.s)) := by
    intro σ S hσ
    induction σ with
    | nil => rfl
    | cons k σ ih =>
      have hk : k < isQ.length := hσ k (by simp)
      have ih' := ih (fun x hx => hσ x (by simp [hx]))
      have h1 : (isQ.map (toC enc))[k]? = some (toC enc isQ[k]) := by
        rw [List.getElem?_map, List.getElem?_eq_getElem hk]; rfl
      have h2 : isQ.getD k dfltI = isQ[k] := by
        rw [List.getD_eq_getElem?_getD, List.getElem?_eq_getElem hk]; rfl
      simp only [List.filterMap_cons, h1, List.map_cons, List.zip_cons_cons, schedJ, h2] at ih' ⊢
      rw [ih']
      rfl
  cases sch with
  | none =>
    have hs : Concat.schedule (isQ.map (toC enc)) none = .ok (isQ.map (toC enc), Concat.cumStarts 0 (isQ.map (toC enc))) := rfl
    rw [hs] at h
    simp only [Except.ok.injEq, Prod.mk.injEq] at h
    obtain ⟨rfl, rfl⟩ := h
    simp only [schedOrder, schedStarts]
    have hlen : (Concat.cumStarts 0 (isQ.map (toC enc))).length = isQ.length := by
      rw [Concat.cumStarts_length]; simp
    refine ⟨List.Perm.refl _, ?_, ?_⟩
    · rw [← hzip (List.range isQ.length) _ (fun k hk => List.mem_range.mp hk)]
      congr 1
      · have h1 := filterMap_getElem?_eq_map (isQ.map (toC enc)) (toC enc dfltI) (List.range isQ.length)
          (fun k hk => by rw [List.length_map]; exact List.mem_range.mp hk)
        have h2 := map_range_getD (isQ.map (toC enc)) (toC enc dfltI)
        rw [List.length_map] at h2
        rw [h1, h2]
      · have := map_range_getD (Concat.cumStarts 0 (isQ.map (toC enc))) 0
        rw [hlen] at this
        exact this.symm
    · have := map_range_getD (Concat.cumStarts 0 (isQ.map (toC enc))) 0
      rw [hlen] at this
      rw [this]
      apply cumStarts_sorted
      intro i hi
      obtain ⟨j, hj, rfl⟩ := List.mem_map.mp hi
      exact hd j hj
  | some sp =>
    obtain ⟨starts, perm⟩ := sp
    simp only [schedOrder, schedStarts]
    simp only [Concat.schedule] at h
    split at h
    · cases h
    · rename_i hchk
      split at h
      · cases h
      · rename_i hsorted
        simp only [Except.ok.injEq, Prod.mk.injEq] at h
        obtain ⟨rfl, rfl⟩ := h
        rw [List.length_map] at hchk
        have hlen2 : perm.length = isQ.length :=
          Decidable.byContradiction fun hc => hchk (Or.inr (Or.inl hc))
        have hall : ∀ i ∈ perm, i < isQ.length := by
          have : perm.all (· < isQ.length) = true := by
            cases hb : perm.all (· < isQ.length) with
            | true => rfl
            | false => exact absurd (Or.inr (Or.inr (Or.inl (by simp [hb])))) hchk
          simpa [List.all_eq_true] using this
        have hsurj : ∀ i < isQ.length, i ∈ perm := by
          have : (List.range isQ.length).all (fun i => perm.contains i) = true := by
            cases hb : (List.range isQ.length).all (fun i => perm.contains i) with
            | true => rfl
            | false => exact absurd (Or.inr (Or.inr (Or.inr (by rw [hb]; rfl)))) hchk
          intro i hi
          have := List.all_eq_true.mp this i (List.mem_range.mpr hi)
          simpa using this
        have hperm : perm.Perm (List.range isQ.length) := by
          have hsub : (List.range isQ.length).Subperm perm :=
            List.subperm_of_subset List.nodup_range (fun i hi => hsurj i (List.mem_range.mp hi))
          exact (hsub.perm_of_length_le (by simp [hlen2])).symm
        refine ⟨hperm, ?_, Concat.isSortedLE_pairwise _ (by simpa using hsorted)⟩
        exact hzip perm starts hall

/-- **the scheduled order is compatible with the time order**: pulses whose control Hamiltonians share a qubit do not
overlap in time, every instruction lasts a positive time, the order is by non-decreasing start time ⇒ for a pair in
scheduled order the generators commute or the earlier one has ended when the later one starts -/
theorem schedJ_compatible (circular : Bool) (N : ℕ) (enc : String × Int → ℕ) (henc : Function.Injective enc)
    (isQ : List (Instr Rat)) (st0 : List Rat) (σ : List ℕ) (hσ : σ.Perm (List.range isQ.length))
    (hsorted : (σ.map fun k => st0.getD k 0).Pairwise (· ≤ ·)) (hpos : ∀ i ∈ isQ, 0 < i.dur)
    (hdisj : ∀ a b (ha : a < isQ.length) (hb : b < isQ.length), a ≠ b →
      (∃ q, q ∈ chanQubits circular N isQ[a] ∧ q ∈ chanQubits circular N isQ[b]) →
      st0.getD a 0 + isQ[a].dur ≤ st0.getD b 0 ∨ st0.getD b 0 + isQ[b].dur ≤ st0.getD a 0) :
    (schedJ enc isQ st0 σ).Pairwise fun u v =>
      Commute (u.gen (labelHam circular N enc)) (v.gen (labelHam circular N enc)) ∨ u.s + u.d ≤ v.s := by
  unfold schedJ
  rw [List.pairwise_map]
  have hnd : σ.Nodup := hσ.nodup_iff.mpr List.nodup_range
  have hs' : σ.Pairwise fun a b => st0.getD a 0 ≤ st0.getD b 0 := List.pairwise_map.mp hsorted
  refine List.Pairwise.imp_of_mem ?_ (hnd.and hs')
  intro a b ha hb hab
  obtain ⟨hne, hle⟩ := hab
  have ha' : a < isQ.length := List.mem_range.mp (hσ.subset ha)
  have hb' : b < isQ.length := List.mem_range.mp (hσ.subset hb)
  have ea : isQ.getD a dfltI = isQ[a] := by
    rw [List.getD_eq_getElem?_getD, List.getElem?_eq_getElem ha']; rfl
  have eb : isQ.getD b dfltI = isQ[b] := by
    rw [List.getD_eq_getElem?_getD, List.getElem?_eq_getElem hb']; rfl
  rw [ea, eb]
  by_cases hsh : ∃ q, q ∈ chanQubits circular N isQ[a] ∧ q ∈ chanQubits circular N isQ[b]
  · right
    rcases hdisj a b ha' hb' hne hsh with h | h
    · exact h
    · exfalso
      have := hpos isQ[b] (List.getElem_mem hb')
      linarith
  · left
    apply gen_commute_of_disjoint circular N enc henc
    intro q hq hq'
    exact hsh ⟨q, hq, hq'⟩

/-! ## the Hamiltonian of a compiled instruction acts on the qubits of its gate -/

theorem castI_chanQubits (circular : Bool) (N : ℕ) (i : Instr Rat) :
    chanQubits circular N (castI i) = chanQubits circular N i := rfl

/-- a native gate compiled to an instruction: the control Hamiltonian of its channel acts on qubits of the gate -/
theorem compileGate_chanQubits (circular : Bool) (N : ℕ) (ρ : ℕ → ℝ) (P : Params ℝ) (g : Gate)
    (hg : NativeOK circular N g) (i : Instr ℝ)
    (h : compileGate Real.pi (Ang.eval ρ) N P g = .ok (.instr i)) :
    ∀ q ∈ chanQubits circular N i, q ∈ i.gate.qubits := by
  rcases hg with ⟨t, a, ht, rfl | rfl | rfl⟩ | ⟨a, b, ang, ha, hb, hab, hadj, rfl | rfl⟩ | ⟨ang, rfl⟩
  · unfold compileGate at h; rw [lookup_RX] at h
    simp only [List.head?_cons, get_sx] at h
    split at h <;> cases h
    intro q hq
    simp only [chanQubits, control_sx circular N t ht, Ham.qubits, List.map_cons, List.map_nil, Int.toNat_natCast] at hq
    simpa [Gate.qubits] using hq
  · unfold compileGate at h; rw [lookup_RZ] at h
    simp only [List.head?_cons, get_sz] at h
    split at h <;> cases h
    intro q hq
    simp only [chanQubits, control_sz circular N t ht, Ham.qubits, List.map_cons, List.map_nil, Int.toNat_natCast] at hq
    simpa [Gate.qubits] using hq
  · unfold compileGate at h; rw [lookup_IDLE] at h
    cases h
    intro q hq
    simp [chanQubits] at hq
  · have hN : 2 ≤ N := by omega
    unfold compileGate at h; rw [lookup_ISWAP] at h
    simp only [get_sxsy] at h
    split at h <;> cases h
    intro q hq
    change q ∈ (match control? circular N swapPrefix (chosenLabel N a b) with
      | some h => h.qubits.map Int.toNat | none => []) at hq
    rcases control_exch circular hN ha hb hab hadj with hc | hc <;> rw [hc] at hq <;>
      simp only [Ham.qubits, List.map_cons, List.map_nil, Int.toNat_natCast] at hq <;>
      simp only [Gate.qubits, List.nil_append] <;> simp only [List.mem_cons, List.not_mem_nil, or_false] at hq ⊢ <;> tauto
  · have hN : 2 ≤ N := by omega
    unfold compileGate at h; rw [lookup_SQRTISWAP] at h
    simp only [get_sxsy] at h
    split at h <;> cases h
    intro q hq
    change q ∈ (match control? circular N swapPrefix (chosenLabel N a b) with
      | some h => h.qubits.map Int.toNat | none => []) at hq
    rcases control_exch circular hN ha hb hab hadj with hc | hc <;> rw [hc] at hq <;>
      simp only [Ham.qubits, List.map_cons, List.map_nil, Int.toNat_natCast] at hq <;>
      simp only [Gate.qubits, List.nil_append] <;> simp only [List.mem_cons, List.not_mem_nil, or_false] at hq ⊢ <;> tauto
  · unfold compileGate at h; rw [lookup_GLOBALPHASE] at h
    cases h

/-- every instruction the gate loop keeps was compiled from a gate of the list -/
theorem compileLoop_instr_mem (drop : Bool) (N : ℕ) (ρ : ℕ → ℝ) (P : Params ℝ) :
    ∀ (gs : List Gate) (ph : ℝ) (is : List (Instr ℝ)) (ph' : ℝ),
      compileLoop drop Real.pi (Ang.eval ρ) N P gs ph = .ok (is, ph') →
      ∀ i ∈ is, ∃ g ∈ gs, compileGate Real.pi (Ang.eval ρ) N P g = .ok (.instr i) := by
  intro gs
  induction gs with
  | nil =>
    intro ph is ph' h i hi
    simp only [compileLoop, Except.ok.injEq, Prod.mk.injEq] at h
    rw [← h.1] at hi; simp at hi
  | cons g gs ih =>
    intro ph is ph' h i hi
    unfold compileLoop at h
    cases hc : compileGate Real.pi (Ang.eval ρ) N P g with
    | error e => rw [hc] at h; cases h
    | ok st =>
      rw [hc] at h
      cases st with
      | instr i0 =>
        simp only at h
        cases hr : compileLoop drop Real.pi (Ang.eval ρ) N P gs ph with
        | error e => rw [hr] at h; cases h
        | ok r =>
          obtain ⟨is0, ph0⟩ := r
          rw [hr] at h
          simp only at h
          split at h
          · simp only [Except.ok.injEq, Prod.mk.injEq] at h
            obtain ⟨rfl, rfl⟩ := h
            obtain ⟨g', hg', hh⟩ := ih ph _ _ hr i hi
            exact ⟨g', List.mem_cons_of_mem _ hg', hh⟩
          · simp only [Except.ok.injEq, Prod.mk.injEq] at h
            obtain ⟨rfl, rfl⟩ := h
            rcases List.mem_cons.mp hi with rfl | hi
            · exact ⟨g, List.mem_cons_self .., hc⟩
            · obtain ⟨g', hg', hh⟩ := ih ph _ _ hr i hi
              exact ⟨g', List.mem_cons_of_mem _ hg', hh⟩
      | phase θ =>
        simp only at h
        obtain ⟨g', hg', hh⟩ := ih _ _ _ h i hi
        exact ⟨g', List.mem_cons_of_mem _ hg', hh⟩
      | nothing =>
        simp only at h
        obtain ⟨g', hg', hh⟩ := ih _ _ _ h i hi
        exact ⟨g', List.mem_cons_of_mem _ hg', hh⟩

/-- **compiled instructions drive Hamiltonians on qubits of their gates** -/
theorem compile_chanQubits (circular : Bool) (N : ℕ) (ρ : ℕ → ℝ) (P : Params ℝ) (phase0 : ℝ) (gs : List Gate)
    (hnat : ∀ g ∈ gs, NativeOK circular N g) (is : List (Instr ℝ)) (φ : ℝ)
    (h : compile Real.pi (Ang.eval ρ) N P phase0 gs = .ok (is, φ)) :
    ∀ i ∈ is, ∀ q ∈ chanQubits circular N i, q ∈ i.gate.qubits := by
  intro i hi
  unfold compile at h
  obtain ⟨g, hg, hc⟩ := compileLoop_instr_mem _ N ρ P gs _ is φ h i hi
  exact compileGate_chanQubits circular N ρ P g (hnat g hg) i hc

end QipVerif.SpinChain
