import QipVerif.Model.Sim
/-!
# The simulator object in the world = the pure step lifted through the list `self.cbits` refers to

`runLoop` (iterating the world-level `step`) is the lift of `coreRunLoop` (iterating `coreStep`
on attribute values) as long as `self.cbits` refers to an existing list.
-/
namespace QipVerif.Sim
open QipVerif.Heap

variable {Q P : Type}

/-! ## Heap facts -/

theorem Heap.get_put_same (h : Heap) (r : Ref) (l : List Int) (hr : r < h.size) : (h.put r l).get r = l := by
  unfold Heap.get Heap.put Heap.size at *
  simp [List.getD_eq_getElem?_getD, hr]

theorem Heap.get_put_other (h : Heap) (r r' : Ref) (l : List Int) (hne : r' ≠ r) : (h.put r l).get r' = h.get r' := by
  unfold Heap.get Heap.put
  simp only [List.getD_eq_getElem?_getD]
  rw [List.getElem?_set_ne (Ne.symm hne)]

theorem Heap.size_put (h : Heap) (r : Ref) (l : List Int) : (h.put r l).size = h.size := by
  simp [Heap.size, Heap.put]

theorem Heap.put_put (h : Heap) (r : Ref) (l l' : List Int) : (h.put r l).put r l' = h.put r l' := by
  simp [Heap.put, List.set_set]

theorem Heap.size_alloc (h : Heap) (l : List Int) : (h.alloc l).1.size = h.size + 1 := by
  simp [Heap.alloc, Heap.size]

theorem Heap.alloc_ref (h : Heap) (l : List Int) : (h.alloc l).2 = h.size := rfl

theorem Heap.get_alloc_new (h : Heap) (l : List Int) : (h.alloc l).1.get h.size = l := by
  simp [Heap.alloc, Heap.get, Heap.size, List.getD_eq_getElem?_getD]

theorem Heap.get_alloc_old (h : Heap) (l : List Int) (r : Ref) (hr : r < h.size) : (h.alloc l).1.get r = h.get r := by
  simp only [Heap.alloc, Heap.get, Heap.size, List.getD_eq_getElem?_getD] at *
  rw [List.getElem?_append_left hr]

/-! ## `coreStep` keeps `bits` present/absent -/

theorem measureSv_bits_isSome [Mul P] (B : Backend Q P) (cfg : Cfg) (c : Circuit) (k : Core Q P) (rng : List Int)
    (idx t : Nat) (store : Option Int) :
    (measureSv B cfg c k rng idx t store).core.bits.isSome = k.bits.isSome := by
  unfold measureSv
  dsimp only
  repeat' split
  all_goals first | rfl | simp_all

theorem coreStep_bits_isSome [Mul P] (B : Backend Q P) (cfg : Cfg) (mode : Mode) (c : Circuit) (k : Core Q P)
    (rng : List Int) : (coreStep B cfg mode c k rng).core.bits.isSome = k.bits.isSome := by
  unfold coreStep
  dsimp only
  repeat' split
  all_goals first | rfl | exact measureSv_bits_isSome ..

/-! ## The pure run loop -/

/-- `for _ in range(n): step(); if self._state is None: break` on attribute values -/
def coreRunLoop [Mul P] (B : Backend Q P) (cfg : Cfg) (mode : Mode) (c : Circuit) :
    Nat → Core Q P → List Int → Out Q P
  | 0, k, rng => ⟨k, rng, none, []⟩
  | n + 1, k, rng =>
    let o := coreStep B cfg mode c k rng
    match o.err with
    | some _ => o
    | none =>
      if o.core.f.st.isNone then o
      else
        let o' := coreRunLoop B cfg mode c n o.core o.rng
        ⟨o'.core, o'.rng, o'.err, o.evs ++ o'.evs⟩

theorem coreRunLoop_bits_isSome [Mul P] (B : Backend Q P) (cfg : Cfg) (mode : Mode) (c : Circuit) (n : Nat)
    (k : Core Q P) (rng : List Int) : (coreRunLoop B cfg mode c n k rng).core.bits.isSome = k.bits.isSome := by
  induction n generalizing k rng with
  | zero => rfl
  | succ n ih =>
    unfold coreRunLoop
    simp only
    split
    · exact coreStep_bits_isSome ..
    · split
      · exact coreStep_bits_isSome ..
      · simp only [ih]; exact coreStep_bits_isSome ..

/-- the reference held by the simulator points to an existing list, and the value view has bits
exactly when there is a reference -/
def RefOk (h : Heap) (ref : Option Ref) : Prop := ∀ r, ref = some r → r < h.size

theorem toCore_applyOut (w : World Q P) (ref : Option Ref) (o : Out Q P) (hok : RefOk w.heap ref)
    (hb : o.core.bits.isSome = ref.isSome) :
    toCore (applyOut w ref o).heap { cbits := ref, f := o.core.f } = o.core := by
  unfold toCore applyOut writeBack
  cases ref with
  | none =>
    cases hbits : o.core.bits with
    | none => cases o with | mk core _ _ _ => cases core; simp_all
    | some l => simp [hbits] at hb
  | some r =>
    cases hbits : o.core.bits with
    | none => simp [hbits] at hb
    | some l =>
      have := Heap.get_put_same w.heap r l (hok r rfl)
      cases o with | mk core _ _ _ => cases core; simp_all

theorem refOk_applyOut (w : World Q P) (ref : Option Ref) (o : Out Q P) (hok : RefOk w.heap ref) :
    RefOk (applyOut w ref o).heap ref := by
  intro r hr
  have := hok r hr
  unfold applyOut writeBack
  cases ref with
  | none => cases hr
  | some r' => cases o.core.bits <;> simp [Heap.size_put, this]

theorem applyOut_applyOut (w : World Q P) (ref : Option Ref) (o o' : Out Q P)
    (hb : o'.core.bits.isSome = o.core.bits.isSome) :
    applyOut (applyOut w ref o) ref o' = applyOut w ref ⟨o'.core, o'.rng, o'.err, o.evs ++ o'.evs⟩ := by
  unfold applyOut writeBack
  cases ref with
  | none => simp [List.append_assoc]
  | some r =>
    cases h1 : o.core.bits with
    | none =>
      cases h2 : o'.core.bits with
      | none => simp [List.append_assoc]
      | some l => simp [h1, h2] at hb
    | some l =>
      cases h2 : o'.core.bits with
      | none => simp [h1, h2] at hb
      | some l' => simp [List.append_assoc, Heap.put_put]

/-- **`runLoop` is the lifted `coreRunLoop`.** -/
theorem runLoop_eq_lift [Mul P] (B : Backend Q P) (cfg : Cfg) (mode : Mode) (c : Circuit) (n : Nat)
    (w : World Q P) (s : SimState Q P) (hs : w.sim = some s) (hok : RefOk w.heap s.cbits) :
    runLoop B cfg mode c n w =
      (if n = 0 then w else applyOut w s.cbits (coreRunLoop B cfg mode c n (toCore w.heap s) w.rng),
       (coreRunLoop B cfg mode c n (toCore w.heap s) w.rng).err) := by
  induction n generalizing w s with
  | zero => simp [runLoop, coreRunLoop]
  | succ n ih =>
    have hbits : (toCore w.heap s).bits.isSome = s.cbits.isSome := by
      unfold toCore; cases s.cbits <;> rfl
    have hstep : step B cfg mode c w =
        (applyOut w s.cbits (coreStep B cfg mode c (toCore w.heap s) w.rng),
         (coreStep B cfg mode c (toCore w.heap s) w.rng).err) := by
      unfold step; simp [hs]
    unfold runLoop coreRunLoop
    rw [hstep]
    simp only [Nat.succ_ne_zero, ↓reduceIte]
    generalize ho : coreStep B cfg mode c (toCore w.heap s) w.rng = o
    have hob : o.core.bits.isSome = s.cbits.isSome := by
      rw [← ho, coreStep_bits_isSome, hbits]
    cases herr : o.err with
    | some e => simp [herr]
    | none =>
      simp only
      have hsim : (applyOut w s.cbits o).sim = some { cbits := s.cbits, f := o.core.f } := rfl
      rw [hsim]
      simp only
      by_cases hst : o.core.f.st.isNone
      · simp [hst, herr]
      · simp only [hst, Bool.false_eq_true, ↓reduceIte]
        have hok' := refOk_applyOut w s.cbits o hok
        rw [ih (applyOut w s.cbits o) { cbits := s.cbits, f := o.core.f } hsim hok']
        have htc := toCore_applyOut w s.cbits o hok hob
        rw [htc]
        have hrng : (applyOut w s.cbits o).rng = o.rng := rfl
        rw [hrng]
        by_cases hn : n = 0
        · subst hn
          simp [coreRunLoop, applyOut]
        · simp only [hn, ↓reduceIte]
          rw [applyOut_applyOut]
          rw [coreRunLoop_bits_isSome]

end QipVerif.Sim
