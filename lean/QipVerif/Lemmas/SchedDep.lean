import QipVerif.Model.Sched
import Mathlib.Logic.Relation
import Mathlib.Data.List.Nodup
/-!
# The dependency graph (`generate_dependency_graph`)

For an arbitrary commutation predicate `comm` and arbitrary duplicate-free `used` lists:

* `depEdgesOf_forward`  every edge goes from a smaller to a larger index (`< n`): the graph is a DAG;
* `depEdgesOf_order`    two instructions `i < j` that use a common qubit are either declared
                        commuting (`comm j i = true`, the call the code makes) or connected by a path.

The proof follows the code's loops with an invariant on the per-qubit state
(`cycle_last`, `cycle_current`) that speaks about the recorded edges *plus the pending ones*
(`last × current`, which the code adds later): `Star`.
-/
namespace QipVerif.Sched
open Relation

variable {comm : Nat → Nat → Bool}

theorem mem_pairs {xs ys : List Nat} {a b : Nat} : (a, b) ∈ pairs xs ys ↔ a ∈ xs ∧ b ∈ ys := by
  simp only [pairs, List.mem_flatMap, List.mem_map, Prod.mk.injEq]
  constructor
  · rintro ⟨i, hi, j, hj, rfl, rfl⟩; exact ⟨hi, hj⟩
  · rintro ⟨ha, hb⟩; exact ⟨a, ha, b, hb, rfl, rfl⟩

theorem Edges.has_iff {e : Edges} {i j : Nat} : e.has i j = true ↔ (i, j) ∈ e := by
  simp only [Edges.has, List.any_eq_true, Bool.and_eq_true, beq_iff_eq]
  constructor
  · rintro ⟨⟨a, b⟩, hp, rfl, rfl⟩; exact hp
  · intro h; exact ⟨(i, j), h, rfl, rfl⟩

theorem Edges.mem_rev {e : Edges} {i j : Nat} : (i, j) ∈ e.rev ↔ (j, i) ∈ e := by
  simp only [Edges.rev, List.mem_map, Prod.mk.injEq]
  constructor
  · rintro ⟨⟨a, b⟩, hp, rfl, rfl⟩; exact hp
  · intro h; exact ⟨(j, i), h, rfl, rfl⟩

theorem Edges.rev_has {e : Edges} {i j : Nat} : e.rev.has i j = e.has j i := by
  rw [Bool.eq_iff_iff, Edges.has_iff, Edges.has_iff, Edges.mem_rev]

@[simp] theorem QMap.set_same (m : QMap) (q : Nat) (v : QS) : (m.set q v) q = v := by simp [QMap.set]

theorem QMap.set_other (m : QMap) {q q' : Nat} (v : QS) (h : q' ≠ q) : (m.set q v) q' = m q' := by
  simp [QMap.set, h]

/-- recorded edges together with the pending ones `last × current` of every qubit -/
def Star (m : QMap) (e : Edges) (a b : Nat) : Prop := (a, b) ∈ e ∨ ∃ q, a ∈ (m q).last ∧ b ∈ (m q).cur

/-- invariant of the two nested loops; `seen x q` = instruction `x` has been processed on qubit `q` -/
structure DInv (comm : Nat → Nat → Bool) (seen : Nat → Nat → Prop) (m : QMap) (e : Edges) : Prop where
  mem_seen : ∀ q x, x ∈ (m q).cur ∨ x ∈ (m q).last → seen x q
  reach_last : ∀ q x, seen x q → x ∈ (m q).cur ∨ ∃ l ∈ (m q).last, ReflTransGen (Star m e) x l
  cur_ne : ∀ q x, seen x q → (m q).cur ≠ []
  forward : ∀ a b, Star m e a b → a < b ∧ ∃ q, seen b q
  order : ∀ q i j, seen i q → seen j q → i < j → comm j i = true ∨ TransGen (Star m e) i j

theorem DInv.congr {seen seen' : Nat → Nat → Prop} {m : QMap} {e : Edges}
    (h : DInv comm seen m e) (hs : ∀ x q, seen x q ↔ seen' x q) : DInv comm seen' m e where
  mem_seen := fun q x hx => (hs x q).mp (h.mem_seen q x hx)
  reach_last := fun q x hx => h.reach_last q x ((hs x q).mpr hx)
  cur_ne := fun q x hx => h.cur_ne q x ((hs x q).mpr hx)
  forward := fun a b hab => ⟨(h.forward a b hab).1, (h.forward a b hab).2.imp fun q hq => (hs b q).mp hq⟩
  order := fun q i j hi hj hij => h.order q i j ((hs i q).mpr hi) ((hs j q).mpr hj) hij

theorem tg_mono {r p : Nat → Nat → Prop} (h : ∀ a b, r a b → p a b) {x y : Nat} (t : TransGen r x y) :
    TransGen p x y := by
  induction t with
  | single h1 => exact .single (h _ _ h1)
  | tail _ h2 ih => exact ih.tail (h _ _ h2)

theorem rtg_mono {r p : Nat → Nat → Prop} (h : ∀ a b, r a b → p a b) {x y : Nat} (t : ReflTransGen r x y) :
    ReflTransGen p x y := by
  induction t with
  | refl => exact .refl
  | tail _ h2 ih => exact ih.tail (h _ _ h2)

/-- dependent: the current cycle of `q` is closed, `k` opens a new one -/
theorem dep_case {seen : Nat → Nat → Prop} {k : Nat} {m : QMap} {e : Edges} {q : Nat}
    (h : DInv comm seen m e) (hlt : ∀ x, seen x q → x < k) :
    DInv comm (fun x q' => seen x q' ∨ (x = k ∧ q' = q))
      (m.set q ⟨(m q).cur, [k]⟩) (e ++ pairs (m q).last (m q).cur) := by
  have hmono : ∀ a b, Star m e a b →
      Star (m.set q ⟨(m q).cur, [k]⟩) (e ++ pairs (m q).last (m q).cur) a b := by
    rintro a b (hab | ⟨q', ha, hb⟩)
    · exact Or.inl (List.mem_append_left _ hab)
    · by_cases hq : q' = q
      · subst hq; exact Or.inl (List.mem_append_right _ (mem_pairs.mpr ⟨ha, hb⟩))
      · exact Or.inr ⟨q', by rw [QMap.set_other _ _ hq]; exact ha, by rw [QMap.set_other _ _ hq]; exact hb⟩
  have hnew : ∀ c ∈ (m q).cur, Star (m.set q ⟨(m q).cur, [k]⟩) (e ++ pairs (m q).last (m q).cur) c k :=
    fun c hc => Or.inr ⟨q, by simpa using hc, by simp⟩
  have hstar : ∀ a b, Star (m.set q ⟨(m q).cur, [k]⟩) (e ++ pairs (m q).last (m q).cur) a b →
      Star m e a b ∨ (a ∈ (m q).cur ∧ b = k) := by
    rintro a b (hab | ⟨q', ha, hb⟩)
    · rcases List.mem_append.mp hab with h1 | h1
      · exact Or.inl (Or.inl h1)
      · exact Or.inl (Or.inr ⟨q, mem_pairs.mp h1⟩)
    · by_cases hq : q' = q
      · subst hq
        simp only [QMap.set_same, List.mem_singleton] at ha hb
        exact Or.inr ⟨ha, hb⟩
      · rw [QMap.set_other _ _ hq] at ha hb
        exact Or.inl (Or.inr ⟨q', ha, hb⟩)
  -- every instruction seen on `q` reaches `k`
  have hreach : ∀ x, seen x q →
      TransGen (Star (m.set q ⟨(m q).cur, [k]⟩) (e ++ pairs (m q).last (m q).cur)) x k := by
    intro x hx
    rcases h.reach_last q x hx with h1 | ⟨l, hl, hxl⟩
    · exact TransGen.single (hnew x h1)
    · obtain ⟨c, hc⟩ := List.exists_mem_of_ne_nil _ (h.cur_ne q x hx)
      have h1 : ReflTransGen (Star (m.set q ⟨(m q).cur, [k]⟩) (e ++ pairs (m q).last (m q).cur)) x l :=
        rtg_mono hmono hxl
      have h2 : Star (m.set q ⟨(m q).cur, [k]⟩) (e ++ pairs (m q).last (m q).cur) l c :=
        hmono _ _ (Or.inr ⟨q, hl, hc⟩)
      exact TransGen.tail' (h1.tail h2) (hnew c hc)
  constructor
  · intro q' x hx
    by_cases hq : q' = q
    · subst hq
      simp only [QMap.set_same, List.mem_singleton] at hx
      rcases hx with hx | hx
      · exact Or.inr ⟨hx, rfl⟩
      · exact Or.inl (h.mem_seen _ x (Or.inl hx))
    · rw [QMap.set_other _ _ hq] at hx
      exact Or.inl (h.mem_seen q' x hx)
  · intro q' x hx
    by_cases hq : q' = q
    · subst hq
      simp only [QMap.set_same, List.mem_singleton]
      rcases hx with hx | ⟨hx, _⟩
      · right
        rcases h.reach_last _ x hx with h1 | ⟨l, hl, hxl⟩
        · exact ⟨x, h1, ReflTransGen.refl⟩
        · obtain ⟨c, hc⟩ := List.exists_mem_of_ne_nil _ (h.cur_ne _ x hx)
          exact ⟨c, hc, (rtg_mono hmono hxl).tail (hmono _ _ (Or.inr ⟨_, hl, hc⟩))⟩
      · exact Or.inl hx
    · rw [QMap.set_other _ _ hq]
      rcases hx with hx | ⟨_, hx⟩
      · rcases h.reach_last q' x hx with h1 | ⟨l, hl, hxl⟩
        · exact Or.inl h1
        · exact Or.inr ⟨l, hl, rtg_mono hmono hxl⟩
      · exact absurd hx hq
  · intro q' x hx
    by_cases hq : q' = q
    · subst hq; simp
    · rw [QMap.set_other _ _ hq]
      rcases hx with hx | ⟨_, hx⟩
      · exact h.cur_ne q' x hx
      · exact absurd hx hq
  · intro a b hab
    rcases hstar a b hab with h1 | ⟨h1, h2⟩
    · obtain ⟨h3, q', h4⟩ := h.forward a b h1
      exact ⟨h3, q', Or.inl h4⟩
    · subst h2
      exact ⟨hlt a (h.mem_seen q a (Or.inl h1)), q, Or.inr ⟨rfl, rfl⟩⟩
  · intro q' i j hi hj hij
    rcases hj with hj | ⟨hj, hq⟩
    · rcases hi with hi | ⟨hi, hq⟩
      · exact (h.order q' i j hi hj hij).imp id (fun t => tg_mono hmono t)
      · subst hi; subst hq
        exact absurd (hlt j hj) (by omega)
    · subst hj; subst hq
      rcases hi with hi | ⟨hi, _⟩
      · exact Or.inr (hreach i hi)
      · omega

/-- not dependent: `k` joins the current cycle of `q` -/
theorem nodep_case {seen : Nat → Nat → Prop} {k : Nat} {m : QMap} {e : Edges} {q : Nat}
    (h : DInv comm seen m e) (hlt : ∀ x, seen x q → x < k)
    (hcomm : ∀ d ∈ (m q).cur, comm k d = true) :
    DInv comm (fun x q' => seen x q' ∨ (x = k ∧ q' = q))
      (m.set q ⟨(m q).last, (m q).cur ++ [k]⟩) e := by
  have hmono : ∀ a b, Star m e a b → Star (m.set q ⟨(m q).last, (m q).cur ++ [k]⟩) e a b := by
    rintro a b (hab | ⟨q', ha, hb⟩)
    · exact Or.inl hab
    · by_cases hq : q' = q
      · subst hq; exact Or.inr ⟨q', by simpa using ha, by simp [hb]⟩
      · exact Or.inr ⟨q', by rw [QMap.set_other _ _ hq]; exact ha, by rw [QMap.set_other _ _ hq]; exact hb⟩
  have hnew : ∀ l ∈ (m q).last, Star (m.set q ⟨(m q).last, (m q).cur ++ [k]⟩) e l k :=
    fun l hl => Or.inr ⟨q, by simpa using hl, by simp⟩
  have hstar : ∀ a b, Star (m.set q ⟨(m q).last, (m q).cur ++ [k]⟩) e a b →
      Star m e a b ∨ (a ∈ (m q).last ∧ b = k) := by
    rintro a b (hab | ⟨q', ha, hb⟩)
    · exact Or.inl (Or.inl hab)
    · by_cases hq : q' = q
      · subst hq
        simp only [QMap.set_same, List.mem_append, List.mem_singleton] at ha hb
        rcases hb with hb | hb
        · exact Or.inl (Or.inr ⟨q', ha, hb⟩)
        · exact Or.inr ⟨ha, hb⟩
      · rw [QMap.set_other _ _ hq] at ha hb
        exact Or.inl (Or.inr ⟨q', ha, hb⟩)
  constructor
  · intro q' x hx
    by_cases hq : q' = q
    · subst hq
      simp only [QMap.set_same, List.mem_append, List.mem_singleton] at hx
      rcases hx with (hx | hx) | hx
      · exact Or.inl (h.mem_seen _ x (Or.inl hx))
      · exact Or.inr ⟨hx, rfl⟩
      · exact Or.inl (h.mem_seen _ x (Or.inr hx))
    · rw [QMap.set_other _ _ hq] at hx
      exact Or.inl (h.mem_seen q' x hx)
  · intro q' x hx
    by_cases hq : q' = q
    · subst hq
      simp only [QMap.set_same, List.mem_append, List.mem_singleton]
      rcases hx with hx | ⟨hx, _⟩
      · rcases h.reach_last _ x hx with h1 | ⟨l, hl, hxl⟩
        · exact Or.inl (Or.inl h1)
        · exact Or.inr ⟨l, hl, rtg_mono hmono hxl⟩
      · exact Or.inl (Or.inr hx)
    · rw [QMap.set_other _ _ hq]
      rcases hx with hx | ⟨_, hx⟩
      · rcases h.reach_last q' x hx with h1 | ⟨l, hl, hxl⟩
        · exact Or.inl h1
        · exact Or.inr ⟨l, hl, rtg_mono hmono hxl⟩
      · exact absurd hx hq
  · intro q' x hx
    by_cases hq : q' = q
    · subst hq; simp
    · rw [QMap.set_other _ _ hq]
      rcases hx with hx | ⟨_, hx⟩
      · exact h.cur_ne q' x hx
      · exact absurd hx hq
  · intro a b hab
    rcases hstar a b hab with h1 | ⟨h1, h2⟩
    · obtain ⟨h3, q', h4⟩ := h.forward a b h1
      exact ⟨h3, q', Or.inl h4⟩
    · subst h2
      exact ⟨hlt a (h.mem_seen q a (Or.inr h1)), q, Or.inr ⟨rfl, rfl⟩⟩
  · intro q' i j hi hj hij
    rcases hj with hj | ⟨hj, hq⟩
    · rcases hi with hi | ⟨hi, hq⟩
      · exact (h.order q' i j hi hj hij).imp id (fun t => tg_mono hmono t)
      · subst hi; subst hq
        exact absurd (hlt j hj) (by omega)
    · subst hj; subst hq
      rcases hi with hi | ⟨hi, _⟩
      · rcases h.reach_last _ i hi with h1 | ⟨l, hl, hil⟩
        · exact Or.inl (hcomm i h1)
        · exact Or.inr (TransGen.tail' (rtg_mono hmono hil) (hnew l hl))
      · omega


/-- one execution of the body of `for qubit in instruction.used_qubits` -/
theorem depStepQ_inv {seen : Nat → Nat → Prop} {k : Nat} {m : QMap} {e : Edges} {q : Nat}
    (h : DInv comm seen m e) (hlt : ∀ x, seen x q → x < k) :
    DInv comm (fun x q' => seen x q' ∨ (x = k ∧ q' = q))
      (depStepQ comm k (m, e) q).1 (depStepQ comm k (m, e) q).2 := by
  by_cases hdep : ((m q).cur.any fun d => !comm k d) = true
  · have : depStepQ comm k (m, e) q = (m.set q ⟨(m q).cur, [k]⟩, e ++ pairs (m q).last (m q).cur) := by
      simp only [depStepQ, hdep, if_true]
    rw [this]
    exact dep_case h hlt
  · have : depStepQ comm k (m, e) q = (m.set q ⟨(m q).last, (m q).cur ++ [k]⟩, e) := by
      simp [depStepQ, hdep]
    rw [this]
    apply nodep_case h hlt
    intro d hd
    simp only [List.any_eq_true, Bool.not_eq_true', not_exists, not_and, Bool.not_eq_false] at hdep
    exact hdep d hd

/-- the inner loop over the used qubits of instruction `k` -/
theorem depStep_inv_aux (k : Nat) : ∀ (rest : List Nat) (seen : Nat → Nat → Prop) (m : QMap) (e : Edges),
    DInv comm seen m e → rest.Nodup → (∀ q ∈ rest, ∀ x, seen x q → x < k) →
    DInv comm (fun x q' => seen x q' ∨ (x = k ∧ q' ∈ rest))
      (rest.foldl (depStepQ comm k) (m, e)).1 (rest.foldl (depStepQ comm k) (m, e)).2 := by
  intro rest
  induction rest with
  | nil =>
    intro seen m e h _ _
    exact h.congr (fun x q => by simp)
  | cons q r ih =>
    intro seen m e h hnd hlt
    have h1 := depStepQ_inv (comm := comm) (k := k) (q := q) h (hlt q (by simp))
    have hnd' := List.nodup_cons.mp hnd
    have h2 := ih _ (depStepQ comm k (m, e) q).1 (depStepQ comm k (m, e) q).2 h1 hnd'.2 (by
      intro q2 hq2 x hx
      rcases hx with hx | ⟨_, hx⟩
      · exact hlt q2 (List.mem_cons_of_mem _ hq2) x hx
      · subst hx; exact absurd hq2 hnd'.1)
    simp only [List.foldl_cons]
    refine h2.congr (fun x q' => ?_)
    simp only [List.mem_cons]
    constructor
    · rintro ((h3 | ⟨h3, h4⟩) | ⟨h3, h4⟩)
      · exact Or.inl h3
      · exact Or.inr ⟨h3, Or.inl h4⟩
      · exact Or.inr ⟨h3, Or.inr h4⟩
    · rintro (h3 | ⟨h3, h4 | h4⟩)
      · exact Or.inl (Or.inl h3)
      · exact Or.inl (Or.inr ⟨h3, h4⟩)
      · exact Or.inr ⟨h3, h4⟩

theorem depLoop_succ (used : Nat → List Nat) (n : Nat) :
    depLoop comm used (n + 1) = (used n).foldl (depStepQ comm n) (depLoop comm used n) := by
  simp [depLoop, List.range_succ, List.foldl_append, depStep]

/-- the invariant holds after the main loop -/
theorem depLoop_inv (used : Nat → List Nat) (hnd : ∀ x, (used x).Nodup) (n : Nat) :
    DInv comm (fun x q => x < n ∧ q ∈ used x) (depLoop comm used n).1 (depLoop comm used n).2 := by
  induction n with
  | zero =>
    constructor
    · intro q x hx; simp [depLoop] at hx
    · intro q x hx; simp at hx
    · intro q x hx; simp at hx
    · rintro a b (hab | ⟨q, ha, _⟩)
      · simp [depLoop] at hab
      · simp [depLoop] at ha
    · intro q i j hi; simp at hi
  | succ n ih =>
    rw [depLoop_succ]
    have := depStep_inv_aux (comm := comm) n (used n) _ (depLoop comm used n).1 (depLoop comm used n).2 ih (hnd n)
      (fun q _ x hx => hx.1)
    refine this.congr (fun x q => ?_)
    constructor
    · rintro (⟨h1, h2⟩ | ⟨h1, h2⟩)
      · exact ⟨by omega, h2⟩
      · subst h1; exact ⟨by omega, h2⟩
    · rintro ⟨h1, h2⟩
      by_cases hx : x = n
      · subst hx; exact Or.inr ⟨rfl, h2⟩
      · exact Or.inl ⟨by omega, h2⟩

theorem closeLoop_succ (m : QMap) (k : Nat) (e : Edges) :
    closeLoop m (k + 1) e = closeLoop m k e ++ pairs (m k).last (m k).cur := by
  simp [closeLoop, List.range_succ, List.foldl_append]

theorem mem_closeLoop {m : QMap} {numQ : Nat} {e : Edges} {a b : Nat} :
    (a, b) ∈ closeLoop m numQ e ↔ (a, b) ∈ e ∨ ∃ q, q < numQ ∧ a ∈ (m q).last ∧ b ∈ (m q).cur := by
  induction numQ with
  | zero => simp [closeLoop]
  | succ k ih =>
    rw [closeLoop_succ, List.mem_append, ih, mem_pairs]
    constructor
    · rintro ((h | ⟨q, hq, h⟩) | h)
      · exact Or.inl h
      · exact Or.inr ⟨q, by omega, h⟩
      · exact Or.inr ⟨k, by omega, h⟩
    · rintro (h | ⟨q, hq, h⟩)
      · exact Or.inl (Or.inl h)
      · by_cases hqk : q = k
        · subst hqk; exact Or.inr h
        · exact Or.inl (Or.inr ⟨q, by omega, h⟩)

section final
variable (used : Nat → List Nat) (hnd : ∀ x, (used x).Nodup) (n numQ : Nat)
variable (hq : ∀ x, x < n → ∀ q ∈ used x, q < numQ)

theorem mem_depEdgesOf_of_star {a b : Nat} (hnd : ∀ x, (used x).Nodup) (hq : ∀ x, x < n → ∀ q ∈ used x, q < numQ)
    (h : Star (depLoop comm used n).1 (depLoop comm used n).2 a b) : (a, b) ∈ depEdgesOf comm used n numQ := by
  have inv := depLoop_inv (comm := comm) used hnd n
  unfold depEdgesOf
  simp only
  rw [mem_closeLoop]
  rcases h with h | ⟨q, ha, hb⟩
  · exact Or.inl h
  · have := inv.mem_seen q a (Or.inr ha)
    exact Or.inr ⟨q, hq a this.1 q this.2, ha, hb⟩

theorem star_of_mem_depEdgesOf {a b : Nat} (h : (a, b) ∈ depEdgesOf comm used n numQ) :
    Star (depLoop comm used n).1 (depLoop comm used n).2 a b := by
  unfold depEdgesOf at h
  simp only at h
  rw [mem_closeLoop] at h
  rcases h with h | ⟨q, _, ha, hb⟩
  · exact Or.inl h
  · exact Or.inr ⟨q, ha, hb⟩

include hnd in
/-- **DAG**: every dependency edge goes from a smaller index to a larger one below `n` -/
theorem depEdgesOf_forward {a b : Nat} (h : (a, b) ∈ depEdgesOf comm used n numQ) : a < b ∧ b < n := by
  have inv := depLoop_inv (comm := comm) used hnd n
  obtain ⟨h1, q, h2⟩ := inv.forward a b (star_of_mem_depEdgesOf used n numQ h)
  exact ⟨h1, h2.1⟩

include hnd hq in
/-- **order**: two instructions using a common qubit are declared commuting by the call
`commuting(j, i)` the code makes, or there is a dependency path from the earlier to the later one -/
theorem depEdgesOf_order {i j q : Nat} (hij : i < j) (hj : j < n) (hqi : q ∈ used i) (hqj : q ∈ used j) :
    comm j i = true ∨ TransGen (fun a b => (a, b) ∈ depEdgesOf comm used n numQ) i j := by
  have inv := depLoop_inv (comm := comm) used hnd n
  rcases inv.order q i j ⟨by omega, hqi⟩ ⟨hj, hqj⟩ hij with h | h
  · exact Or.inl h
  · exact Or.inr (tg_mono (fun a b hab => mem_depEdgesOf_of_star used n numQ hnd hq hab) h)

end final

end QipVerif.Sched
