import QipVerif.Lemmas.SimKetLists
import Mathlib.Data.List.Perm.Subperm
/-!
# C01 — the sorting functions of the compact-product model (`sorted(..)`, `sorted(set(..))`)
-/
namespace QipVerif.SimKet

theorem insertKey_perm (key : Nat → Nat) (p : Nat) (l : List Nat) : (insertKey key p l).Perm (p :: l) := by
  induction l with
  | nil => simp [insertKey]
  | cons q qs ih =>
    simp only [insertKey]
    split
    · exact List.Perm.refl _
    · exact (List.Perm.cons q ih).trans (List.Perm.swap p q qs)

theorem sortKey_perm (key : Nat → Nat) (l : List Nat) : (sortKey key l).Perm l := by
  induction l with
  | nil => simp [sortKey]
  | cons p ps ih => exact (insertKey_perm key p _).trans (List.Perm.cons p ih)

theorem insertKey_sorted (key : Nat → Nat) (p : Nat) (l : List Nat)
    (h : l.Pairwise (fun a b => key a ≤ key b)) : (insertKey key p l).Pairwise (fun a b => key a ≤ key b) := by
  induction l with
  | nil => simp [insertKey]
  | cons q qs ih =>
    simp only [insertKey]
    have hq := List.pairwise_cons.mp h
    split
    · rename_i hle
      refine List.pairwise_cons.mpr ⟨?_, h⟩
      intro b hb
      rcases List.mem_cons.mp hb with rfl | hb
      · exact hle
      · exact Nat.le_trans hle (hq.1 b hb)
    · rename_i hgt
      refine List.pairwise_cons.mpr ⟨?_, ih hq.2⟩
      intro b hb
      rcases List.mem_cons.mp ((insertKey_perm key p qs).subset hb) with rfl | hb
      · omega
      · exact hq.1 b hb

theorem sortKey_sorted (key : Nat → Nat) (l : List Nat) : (sortKey key l).Pairwise (fun a b => key a ≤ key b) := by
  induction l with
  | nil => simp [sortKey]
  | cons p ps ih => exact insertKey_sorted key p _ ih

theorem sortKey_eq_self (key : Nat → Nat) (l : List Nat) (h : l.Pairwise (fun a b => key a ≤ key b)) :
    sortKey key l = l := by
  induction l with
  | nil => rfl
  | cons p ps ih =>
    have hp := List.pairwise_cons.mp h
    simp only [sortKey, ih hp.2]
    cases ps with
    | nil => rfl
    | cons q qs => simp [insertKey, hp.1 q (by simp)]

theorem mem_sortDedup {l : List Nat} {x : Nat} : x ∈ sortDedup l ↔ x ∈ l := by
  unfold sortDedup
  rw [(sortKey_perm id _).mem_iff, mem_dedup]

theorem sortDedup_nodup (l : List Nat) : (sortDedup l).Nodup :=
  (sortKey_perm id _).nodup_iff.mpr (dedup_nodup l)

theorem sortDedup_sorted (l : List Nat) : (sortDedup l).Pairwise (· < ·) := by
  have h1 : (sortDedup l).Pairwise (fun a b => a ≤ b) := sortKey_sorted id _
  have h2 : (sortDedup l).Pairwise (· ≠ ·) := sortDedup_nodup l
  exact (h1.and h2).imp (fun ⟨a, b⟩ => Nat.lt_of_le_of_ne a b)

/-- `sorted(range(N), key=lambda k: revised[k])` is the identity when `revised` is sorted -/
theorem argsort_sorted (r : List Nat) (h : r.Pairwise (· < ·)) :
    sortKey (fun p => r.getD p 0) (List.range r.length) = List.range r.length := by
  apply sortKey_eq_self
  rw [List.pairwise_iff_getElem]
  intro i j hi hj hij
  simp only [List.getElem_range]
  have hi' : i < r.length := by simpa using hi
  have hj' : j < r.length := by simpa using hj
  rw [List.getD_eq_getElem?_getD, List.getD_eq_getElem?_getD, List.getElem?_eq_getElem hi',
    List.getElem?_eq_getElem hj', Option.getD_some, Option.getD_some]
  exact Nat.le_of_lt (List.pairwise_iff_getElem.mp h i j hi' hj' hij)

theorem sortKey_id_of_perm_range (l : List Nat) (n : Nat) (h : l.Perm (List.range n)) :
    sortKey id l = List.range n := by
  apply List.Perm.eq_of_pairwise (le := fun a b => a ≤ b)
  · intro a b _ _ h1 h2; exact Nat.le_antisymm h1 h2
  · exact sortKey_sorted id l
  · exact List.pairwise_le_range
  · exact (sortKey_perm id l).trans h

theorem perm_range_of_cover (l : List Nat) (n : Nat) (hn : l.Nodup) (hr : ∀ q ∈ l, q < n) (hc : ∀ q, q < n → q ∈ l) :
    l.Perm (List.range n) := by
  rw [List.perm_ext_iff_of_nodup hn List.nodup_range]
  intro a
  rw [List.mem_range]
  exact ⟨hr a, hc a⟩

theorem perm_range_of_length (l : List Nat) (n : Nat) (hn : l.Nodup) (hr : ∀ q ∈ l, q < n) (hl : l.length = n) :
    l.Perm (List.range n) := by
  apply List.Subperm.perm_of_length_le
  · apply List.subperm_of_subset hn
    intro a ha; exact List.mem_range.mpr (hr a ha)
  · simp [hl]

end QipVerif.SimKet
