import QipVerif.Lemmas.EmbedPerm
import QipVerif.Lemmas.Sem
/-!
# Commutation of controlled and one-qubit operators on a register (for C05's hypothesis `H2`)

Pure operator algebra over ℂ on `St N`:

* `one1 q M` — the 2×2 matrix `M` on qubit `q`; `one1` is multiplicative, two of them commute on
  different qubits, and on the same qubit when the matrices commute;
* `ctrl_decomp` — a controlled one-qubit operator is `P₀(c) + P₁(c) · M(t)`;
* `ctrl_commute` — two controlled operators commute when neither target is the other's control and
  the targets differ or the target matrices commute (covers: same control; same target);
* `ctrl_commute_target`, `ctrl_commute_control` — a controlled operator commutes with a one-qubit
  operator on its target (matrices commute) or on its control (diagonal matrix).
-/
namespace QipVerif
open Matrix
variable {N : ℕ}

/-- the placement of a one-qubit operator on qubit `q` -/
def Tg.single (q : Fin N) : Tg 1 N := ⟨fun _ => q, fun a b _ => Subsingleton.elim a b⟩

theorem Tg.mem_range_single (q l : Fin N) : l ∈ Set.range (Tg.single q).f ↔ l = q := by
  constructor
  · rintro ⟨_, rfl⟩; rfl
  · rintro rfl; exact ⟨0, rfl⟩

/-- the 2×2 matrix `M` acting on qubit `q` of the register -/
noncomputable def one1 (q : Fin N) (M : Matrix (Fin 2) (Fin 2) ℂ) : Matrix (St N) (St N) ℂ :=
  (Tg.single q).embed (mat1 M)

theorem one1_apply (q : Fin N) (M : Matrix (Fin 2) (Fin 2) ℂ) (x y : St N) :
    one1 q M x y = M (x q) (y q) * (if ∀ i, i ≠ q → x i = y i then 1 else 0) := by
  unfold one1
  rw [Tg.embed_apply]
  simp only [Tg.mem_range_single]
  simp only [mat1, Function.comp, Tg.single]

theorem one1_mul (q : Fin N) (A B : Matrix (Fin 2) (Fin 2) ℂ) : one1 q (A * B) = one1 q A * one1 q B := by
  unfold one1; rw [mat1_mul, Tg.embed_mul]

theorem one1_commute_same (q : Fin N) {A B : Matrix (Fin 2) (Fin 2) ℂ} (h : Commute A B) :
    Commute (one1 q A) (one1 q B) := by
  unfold Commute SemiconjBy
  rw [← one1_mul, ← one1_mul, h.eq]

theorem one1_commute_ne {q q' : Fin N} (h : q ≠ q') (A B : Matrix (Fin 2) (Fin 2) ℂ) :
    Commute (one1 q A) (one1 q' B) := by
  apply Tg.commute_embed_of_disjoint
  rw [Set.disjoint_left]
  intro l h1 h2
  rw [Tg.mem_range_single] at h1 h2
  exact h (h1.symm.trans h2)

/-- projectors on the control value -/
def P0 : Matrix (Fin 2) (Fin 2) ℂ := !![1, 0; 0, 0]
def P1 : Matrix (Fin 2) (Fin 2) ℂ := !![0, 0; 0, 1]

theorem P0_commute_P1 : Commute P0 P1 := by
  unfold Commute SemiconjBy P0 P1
  ext i j; fin_cases i <;> fin_cases j <;> simp [Matrix.mul_apply, Fin.sum_univ_two]

theorem P_commute_P (a b : Bool) : Commute (if a then P1 else P0) (if b then P1 else P0) := by
  cases a <;> cases b
  · exact Commute.refl _
  · exact P0_commute_P1
  · exact P0_commute_P1.symm
  · exact Commute.refl _

/-- **controlled operator = P₀(control) + P₁(control) · M(target)** -/
theorem ctrl_decomp (c t : Fin N) (h : c ≠ t) (M : Matrix (Fin 2) (Fin 2) ℂ) :
    (Tg.pair c t h).embed (ctrl1 M) = one1 c P0 + one1 c P1 * one1 t M := by
  have hd : Disjoint (Set.range (Tg.single c).f) (Set.range (Tg.single t).f) := by
    rw [Set.disjoint_left]
    intro l h1 h2
    rw [Tg.mem_range_single] at h1 h2
    exact h (h1.symm.trans h2)
  ext x y
  rw [Matrix.add_apply, one1_apply]
  unfold one1
  rw [Tg.embed_mul_embed_apply _ _ hd, Tg.embed_apply]
  simp only [Tg.mem_range_single, Tg.mem_range_pair, not_or]
  simp only [mat1, Function.comp, Tg.single, Tg.pair_f, ctrl1, Matrix.cons_val_zero, Matrix.cons_val_one]
  -- the three side conditions in terms of one another
  have e1 : (∀ i, i ≠ c → x i = y i) ↔ (x t = y t ∧ ∀ i, i ≠ c ∧ i ≠ t → x i = y i) := by
    constructor
    · intro hh; exact ⟨hh t (Ne.symm h), fun i hi => hh i hi.1⟩
    · rintro ⟨h1, h2⟩ i hi
      by_cases hit : i = t
      · subst hit; exact h1
      · exact h2 i ⟨hi, hit⟩
  have e2 : (∀ i, i ≠ c → i ≠ t → x i = y i) ↔ (∀ i, i ≠ c ∧ i ≠ t → x i = y i) :=
    ⟨fun hh i hi => hh i hi.1 hi.2, fun hh i h1 h2 => hh i ⟨h1, h2⟩⟩
  simp only [ne_eq] at e1 e2 ⊢
  by_cases hr : ∀ i, ¬ i = c ∧ ¬ i = t → x i = y i
  · simp only [e1, e2, eq_true hr, and_true, if_true]
    have h2 : ∀ v : Fin 2, v = 0 ∨ v = 1 := by decide
    rcases h2 (x c) with a | a <;> rcases h2 (y c) with b | b <;> rcases h2 (x t) with a' | a' <;>
      rcases h2 (y t) with b' | b' <;> simp [a, b, a', b', P0, P1]
  · simp only [e1, e2, eq_false hr, and_false, if_false]
    simp

/-- `(a₁ + b₁c₁)` commutes with `(a₂ + b₂c₂)` when the generators commute pairwise -/
theorem commute_ctrl_form {R : Type*} [Ring R] {a1 b1 c1 a2 b2 c2 : R}
    (haa : Commute a1 a2) (hab : Commute a1 b2) (hac : Commute a1 c2)
    (hba : Commute b1 a2) (hbb : Commute b1 b2) (hbc : Commute b1 c2)
    (hca : Commute c1 a2) (hcb : Commute c1 b2) (hcc : Commute c1 c2) :
    Commute (a1 + b1 * c1) (a2 + b2 * c2) := by
  apply Commute.add_left
  · exact Commute.add_right haa (Commute.mul_right hab hac)
  · apply Commute.mul_left
    · exact Commute.add_right hba (Commute.mul_right hbb hbc)
    · exact Commute.add_right hca (Commute.mul_right hcb hcc)

/-- projectors on controls always commute (same qubit: diagonal; different qubits: disjoint) -/
theorem P_commute (c1 c2 : Fin N) (a b : Bool) :
    Commute (one1 c1 (if a then P1 else P0)) (one1 c2 (if b then P1 else P0)) := by
  by_cases h : c1 = c2
  · subst h; exact one1_commute_same _ (P_commute_P a b)
  · exact one1_commute_ne h _ _

/-- **two controlled operators commute** when neither target is the other's control and the
targets differ or the target matrices commute -/
theorem ctrl_commute (c1 t1 c2 t2 : Fin N) (h1 : c1 ≠ t1) (h2 : c2 ≠ t2) (h3 : t1 ≠ c2) (h4 : t2 ≠ c1)
    (M1 M2 : Matrix (Fin 2) (Fin 2) ℂ) (h5 : t1 ≠ t2 ∨ Commute M1 M2) :
    Commute ((Tg.pair c1 t1 h1).embed (ctrl1 M1)) ((Tg.pair c2 t2 h2).embed (ctrl1 M2)) := by
  rw [ctrl_decomp, ctrl_decomp]
  apply commute_ctrl_form
  · exact P_commute c1 c2 false false
  · exact P_commute c1 c2 false true
  · exact one1_commute_ne (Ne.symm h4) _ _
  · exact P_commute c1 c2 true false
  · exact P_commute c1 c2 true true
  · exact one1_commute_ne (Ne.symm h4) _ _
  · exact one1_commute_ne h3 _ _
  · exact one1_commute_ne h3 _ _
  · by_cases ht : t1 = t2
    · subst ht
      rcases h5 with h5 | h5
      · exact absurd rfl h5
      · exact one1_commute_same _ h5
    · exact one1_commute_ne ht _ _

/-- a controlled operator commutes with a one-qubit operator **on its target** whose matrix commutes
with the controlled matrix -/
theorem ctrl_commute_target (c t : Fin N) (h : c ≠ t) {M B : Matrix (Fin 2) (Fin 2) ℂ} (hMB : Commute M B) :
    Commute ((Tg.pair c t h).embed (ctrl1 M)) (one1 t B) := by
  rw [ctrl_decomp]
  apply Commute.add_left
  · exact one1_commute_ne h _ _
  · exact Commute.mul_left (one1_commute_ne h _ _) (one1_commute_same _ hMB)

/-- a controlled operator commutes with a one-qubit operator **on its control** whose matrix commutes
with both projectors (a diagonal matrix) -/
theorem ctrl_commute_control (c t : Fin N) (h : c ≠ t) (M : Matrix (Fin 2) (Fin 2) ℂ)
    {B : Matrix (Fin 2) (Fin 2) ℂ} (h0 : Commute P0 B) (h1 : Commute P1 B) :
    Commute ((Tg.pair c t h).embed (ctrl1 M)) (one1 c B) := by
  rw [ctrl_decomp]
  apply Commute.add_left
  · exact one1_commute_same _ h0
  · exact Commute.mul_left (one1_commute_same _ h1) (one1_commute_ne (Ne.symm h) _ _)

/-- operators placed identically commute when the compact matrices do -/
theorem embed_commute_same {k : ℕ} (t : Tg k N) {U V : Matrix (St k) (St k) ℂ} (h : Commute U V) :
    Commute (t.embed U) (t.embed V) := by
  unfold Commute SemiconjBy
  rw [← Tg.embed_mul, ← Tg.embed_mul, h.eq]

theorem one1_commute_or {q q' : Fin N} {A B : Matrix (Fin 2) (Fin 2) ℂ} (h : q ≠ q' ∨ Commute A B) :
    Commute (one1 q A) (one1 q' B) := by
  by_cases hq : q = q'
  · subst hq
    rcases h with h | h
    · exact absurd rfl h
    · exact one1_commute_same _ h
  · exact one1_commute_ne hq _ _

/-- the placement of a three-qubit operator on the ordered triple of distinct qubits -/
def Tg.triple (a b c : Fin N) (hab : a ≠ b) (hac : a ≠ c) (hbc : b ≠ c) : Tg 3 N where
  f := ![a, b, c]
  inj := by
    intro p q hpq
    fin_cases p <;> fin_cases q <;> simp_all [Ne.symm]

theorem Tg.mem_range_triple (a b c : Fin N) (hab : a ≠ b) (hac : a ≠ c) (hbc : b ≠ c) (l : Fin N) :
    l ∈ Set.range (Tg.triple a b c hab hac hbc).f ↔ l = a ∨ l = b ∨ l = c := by
  constructor
  · rintro ⟨p, rfl⟩
    fin_cases p <;> simp [Tg.triple]
  · rintro (rfl | rfl | rfl)
    · exact ⟨0, rfl⟩
    · exact ⟨1, rfl⟩
    · exact ⟨2, rfl⟩

/-- entries of a doubly controlled NOT on `St 3` (controls 0 and 1, target 2) -/
def IsToffoli (T : Matrix (St 3) (St 3) ℂ) : Prop :=
  ∀ u v : St 3, T u v =
    if u 0 = 1 ∧ u 1 = 1 then (if v 0 = 1 ∧ v 1 = 1 ∧ v 2 ≠ u 2 then 1 else 0)
    else (if u 0 = v 0 ∧ u 1 = v 1 ∧ u 2 = v 2 then 1 else 0)

def Xm : Matrix (Fin 2) (Fin 2) ℂ := !![0, 1; 1, 0]

/-- **doubly controlled NOT = P₀(c₁) + P₁(c₁) · CNOT(c₂ → t)** -/
theorem toffoli_decomp (T : Matrix (St 3) (St 3) ℂ) (hT : IsToffoli T) (c1 c2 t : Fin N)
    (h12 : c1 ≠ c2) (h1t : c1 ≠ t) (h2t : c2 ≠ t) :
    (Tg.triple c1 c2 t h12 h1t h2t).embed T = one1 c1 P0 + one1 c1 P1 * (Tg.pair c2 t h2t).embed (ctrl1 Xm) := by
  have hd : Disjoint (Set.range (Tg.single c1).f) (Set.range (Tg.pair c2 t h2t).f) := by
    rw [Set.disjoint_left]
    intro l h1 h2
    rw [Tg.mem_range_single] at h1
    rw [Tg.mem_range_pair] at h2
    subst h1
    rcases h2 with h2 | h2
    · exact h12 h2
    · exact h1t h2
  ext x y
  rw [Matrix.add_apply, one1_apply]
  unfold one1
  rw [Tg.embed_mul_embed_apply _ _ hd, Tg.embed_apply, hT]
  simp only [Tg.mem_range_single, Tg.mem_range_pair, Tg.mem_range_triple, not_or]
  simp only [mat1, Function.comp, Tg.single, Tg.pair_f, Tg.triple, ctrl1, Matrix.cons_val_zero, Matrix.cons_val_one,
    Matrix.cons_val_two, Matrix.head_cons, Matrix.tail_cons, Matrix.cons_val]
  have e1 : (∀ i, i ≠ c1 → x i = y i) ↔
      (x c2 = y c2 ∧ x t = y t ∧ ∀ i, ¬ i = c1 ∧ ¬ i = c2 ∧ ¬ i = t → x i = y i) := by
    constructor
    · intro hh; exact ⟨hh c2 (Ne.symm h12), hh t (Ne.symm h1t), fun i hi => hh i hi.1⟩
    · rintro ⟨h1, h2, h3⟩ i hi
      by_cases hi2 : i = c2
      · subst hi2; exact h1
      · by_cases hit : i = t
        · subst hit; exact h2
        · exact h3 i ⟨hi, hi2, hit⟩
  have e2 : (∀ i, ¬ i = c1 → ¬ i = c2 ∧ ¬ i = t → x i = y i) ↔
      (∀ i, ¬ i = c1 ∧ ¬ i = c2 ∧ ¬ i = t → x i = y i) :=
    ⟨fun hh i hi => hh i hi.1 hi.2, fun hh i h1 h2 => hh i ⟨h1, h2⟩⟩
  simp only [ne_eq] at e1 ⊢
  have h2 : ∀ v : Fin 2, v = 0 ∨ v = 1 := by decide
  by_cases hr : ∀ i, ¬ i = c1 ∧ ¬ i = c2 ∧ ¬ i = t → x i = y i
  · simp only [e1, e2, eq_true hr, and_true, if_true]
    rcases h2 (x c1) with a | a <;> rcases h2 (y c1) with b | b <;> rcases h2 (x c2) with a' | a' <;>
      rcases h2 (y c2) with b' | b' <;> rcases h2 (x t) with a'' | a'' <;> rcases h2 (y t) with b'' | b'' <;>
      simp [a, b, a', b', a'', b'', P0, P1, Xm]
  · simp only [e1, e2, eq_false hr, and_false, if_false]
    simp

theorem P00 (q q' : Fin N) : Commute (one1 q P0) (one1 q' P0) := one1_commute_or (Or.inr (Commute.refl _))
theorem P11 (q q' : Fin N) : Commute (one1 q P1) (one1 q' P1) := one1_commute_or (Or.inr (Commute.refl _))
theorem P01 (q q' : Fin N) : Commute (one1 q P0) (one1 q' P1) := one1_commute_or (Or.inr P0_commute_P1)
theorem P10 (q q' : Fin N) : Commute (one1 q P1) (one1 q' P0) := one1_commute_or (Or.inr P0_commute_P1.symm)

/-- two doubly controlled NOTs commute when neither target is a control of the other -/
theorem toffoli_commute (T : Matrix (St 3) (St 3) ℂ) (hT : IsToffoli T) (a1 a2 t b1 b2 u : Fin N)
    (ha12 : a1 ≠ a2) (ha1t : a1 ≠ t) (ha2t : a2 ≠ t) (hb12 : b1 ≠ b2) (hb1u : b1 ≠ u) (hb2u : b2 ≠ u)
    (h1 : t ≠ b1) (h2 : t ≠ b2) (h3 : u ≠ a1) (h4 : u ≠ a2) :
    Commute ((Tg.triple a1 a2 t ha12 ha1t ha2t).embed T) ((Tg.triple b1 b2 u hb12 hb1u hb2u).embed T) := by
  rw [toffoli_decomp T hT a1 a2 t, toffoli_decomp T hT b1 b2 u, ctrl_decomp a2 t, ctrl_decomp b2 u]
  have hx : Commute (one1 t Xm) (one1 u Xm) := one1_commute_or (Or.inr (Commute.refl _))
  have n3 := Ne.symm h3
  have n4 := Ne.symm h4
  have key : ∀ X : Matrix (St N) (St N) ℂ, Commute X (one1 b1 P0) → Commute X (one1 b1 P1) →
      Commute X (one1 b2 P0) → Commute X (one1 b2 P1) → Commute X (one1 u Xm) →
      Commute X (one1 b1 P0 + one1 b1 P1 * (one1 b2 P0 + one1 b2 P1 * one1 u Xm)) :=
    fun X k0 k1 k2 k3 k4 =>
      Commute.add_right k0 (Commute.mul_right k1 (Commute.add_right k2 (Commute.mul_right k3 k4)))
  exact Commute.add_left
    (key _ (P00 _ _) (P01 _ _) (P00 _ _) (P01 _ _) (one1_commute_ne n3 _ _))
    (Commute.mul_left
      (key _ (P10 _ _) (P11 _ _) (P10 _ _) (P11 _ _) (one1_commute_ne n3 _ _))
      (Commute.add_left
        (key _ (P00 _ _) (P01 _ _) (P00 _ _) (P01 _ _) (one1_commute_ne n4 _ _))
        (Commute.mul_left
          (key _ (P10 _ _) (P11 _ _) (P10 _ _) (P11 _ _) (one1_commute_ne n4 _ _))
          (key _ (one1_commute_ne h1 _ _) (one1_commute_ne h1 _ _) (one1_commute_ne h2 _ _)
            (one1_commute_ne h2 _ _) hx))))

end QipVerif
