import QipVerif.Lemmas.SimKetCompact
/-!
# C01 — from gate objects to matrix steps (`resolveGate`), `propagators` with measurements,
right-to-left product, the `expand=False` pipeline
-/
namespace QipVerif.SimKet
open Matrix QipVerif.Embed

variable {α A : Type}

/-! ## `resolveGate` -/

theorem lookup_map_kind (ug : List (UserGate A α)) (name : String) :
    List.lookup name (ug.map fun u => (u.name, u.kind)) = (ug.find? fun u => u.name == name).map (·.kind) := by
  induction ug with
  | nil => rfl
  | cons u us ih =>
    simp only [List.map_cons, List.lookup_cons, List.find?_cons]
    by_cases h : u.name = name
    · subst h; simp
    · have h1 : (name == u.name) = false := by simpa using fun e => h e.symm
      have h2 : (u.name == name) = false := by simpa using h
      rw [h1, h2]; exact ih

theorem allQubits_none (r : GateReq A) (h : r.controlsNone = true) : r.allQubits = r.targets := by
  simp [GateReq.allQubits, h]

theorem resolveGate_phase (lib : Library A α) (ug : List (UserGate A α)) (r : GateReq A)
    (h : r.name = "GLOBALPHASE") : resolveGate lib ug r = .ok (.phase (lib.phase r.arg)) := by
  simp [resolveGate, h]

theorem resolveGate_library (lib : Library A α) (ug : List (UserGate A α)) (r : GateReq A)
    (hname : r.name ≠ "GLOBALPHASE") (hf : (ug.find? fun u => u.name == r.name) = none) :
    resolveGate lib ug r =
      if r.fixedControlOK = false then .error .controlValue else
      match lib.compact r.name r.arg with
      | some (m, U) => .ok (.gate r.allQubits m U)
      | none => .error .unknownGate := by
  simp only [resolveGate, if_neg hname, getGateUnitary, lookup_map_kind, hf, Option.map_none]
  cases r.fixedControlOK with
  | false => rfl
  | true =>
    cases lib.compact r.name r.arg with
    | none => rfl
    | some p => rfl

/-- what a user entry stands for at the gate object `r`: the stored operator / `func()` / `func(arg_value)`,
placed on `targets` -/
def userStep (u : UserGate A α) (r : GateReq A) : Op α :=
  .gate r.targets u.m (u.yield (match u.kind with | .fn 1 => some r.arg | _ => none))

theorem resolveGate_user (lib : Library A α) (ug : List (UserGate A α)) (r : GateReq A) (u : UserGate A α)
    (hname : r.name ≠ "GLOBALPHASE") (hf : (ug.find? fun u => u.name == r.name) = some u) :
    resolveGate lib ug r =
      if r.controlsNone = false then .error .userControls else
      match u.kind with
      | .oper => .ok (userStep u r)
      | .fn 0 => .ok (userStep u r)
      | .fn 1 => .ok (userStep u r)
      | .fn _ => .error .userParams
      | .other => .error .userNeither := by
  simp only [resolveGate, if_neg hname, getGateUnitary, lookup_map_kind, hf, Option.map_some]
  cases hc : r.controlsNone with
  | false => simp
  | true =>
    have hq := allQubits_none r hc
    cases hk : u.kind with
    | oper => simp [hf, userStep, hk, hq]
    | other => simp
    | fn n =>
      match n with
      | 0 => simp [hf, userStep, hk, hq]
      | 1 => simp [hf, userStep, hk, hq]
      | _ + 2 => simp

theorem resolveAll_ok_iff (lib : Library A α) (ug : List (UserGate A α)) (rs : List (GateReq A)) (ops : List (Op α)) :
    resolveAll lib ug rs = .ok ops ↔ List.Forall₂ (fun r op => resolveGate lib ug r = .ok op) rs ops := by
  induction rs generalizing ops with
  | nil =>
    cases ops with
    | nil => simp [resolveAll]
    | cons o os => simp [resolveAll]
  | cons r rs ih =>
    cases ops with
    | nil =>
      simp only [resolveAll]
      constructor
      · intro h; split at h <;> simp at h
      · intro h; cases h
    | cons o os =>
      simp only [resolveAll, List.forall₂_cons]
      cases h1 : resolveGate lib ug r with
      | error e => simp
      | ok a =>
        cases h2 : resolveAll lib ug rs with
        | error e =>
          have := (ih os).not.mp (by rw [h2]; simp)
          simp [this]
        | ok b =>
          simp only [Except.ok.injEq, List.cons.injEq]
          constructor
          · rintro ⟨rfl, rfl⟩; exact ⟨rfl, (ih _).mp h2⟩
          · rintro ⟨rfl, h⟩
            have := (ih os).mpr h
            rw [h2] at this
            exact ⟨rfl, by simpa using this⟩

/-- a circuit of user gates only: the conditions on the gate objects under which every lookup succeeds -/
structure UserCircuitOK (N : ℕ) (ug : List (UserGate A ℂ)) (r : GateReq A) (u : UserGate A ℂ) : Prop where
  name : r.name ≠ "GLOBALPHASE"
  found : (ug.find? fun u => u.name == r.name) = some u
  cn : r.controlsNone = true
  kind : u.kind = .oper ∨ u.kind = .fn 0 ∨ u.kind = .fn 1
  nodup : r.targets.Nodup
  range : ∀ q ∈ r.targets, q < N
  arity : r.targets.length = u.m
  rows : ∀ a, ∀ row ∈ u.yield a, row.length = 2 ^ u.m

theorem resolveGate_userOK (N : ℕ) (lib : Library A ℂ) (ug : List (UserGate A ℂ)) (r : GateReq A) (u : UserGate A ℂ)
    (h : UserCircuitOK N ug r u) : resolveGate lib ug r = .ok (userStep u r) ∧ WFOp N (userStep u r) := by
  constructor
  · rw [resolveGate_user lib ug r u h.name h.found, h.cn]
    rcases h.kind with hk | hk | hk <;> simp [hk]
  · exact ⟨h.nodup, h.range, h.arity, h.rows _⟩

theorem resolveAll_user (N : ℕ) (lib : Library A ℂ) (ug : List (UserGate A ℂ)) (rs : List (GateReq A × UserGate A ℂ))
    (h : ∀ p ∈ rs, UserCircuitOK N ug p.1 p.2) :
    resolveAll lib ug (rs.map (·.1)) = .ok (rs.map fun p => userStep p.2 p.1) ∧
      ∀ op ∈ rs.map (fun p => userStep p.2 p.1), WFOp N op := by
  constructor
  · rw [resolveAll_ok_iff]
    induction rs with
    | nil => exact .nil
    | cons p ps ih =>
      exact .cons (resolveGate_userOK N lib ug p.1 p.2 (h p (by simp))).1 (ih fun q hq => h q (by simp [hq]))
  · intro op hop
    obtain ⟨p, hp, rfl⟩ := List.mem_map.mp hop
    exact (resolveGate_userOK N lib ug p.1 p.2 (h p hp)).2

/-! ## `propagators` on circuits with measurements -/

theorem filterMap_gate_length_lt (items : List (Item α)) (h : Item.meas ∈ items) :
    (items.filterMap Item.gate?).length < items.length := by
  induction items with
  | nil => simp at h
  | cons i is ih =>
    cases i with
    | meas =>
      simp only [List.filterMap_cons, Item.gate?, List.length_cons]
      exact Nat.lt_succ_of_le (List.length_filterMap_le _ _)
    | op o =>
      have : Item.meas ∈ is := by simpa using h
      simp only [List.filterMap_cons, Item.gate?, List.length_cons]
      exact Nat.succ_lt_succ (ih this)

theorem filterMap_gate_nomeas (items : List (Item α)) (h : Item.meas ∉ items) :
    (items.filterMap Item.gate?).map Item.op = items := by
  induction items with
  | nil => rfl
  | cons i is ih =>
    cases i with
    | meas => simp at h
    | op o =>
      have : Item.meas ∉ is := fun hm => h (by simp [hm])
      simp [Item.gate?, ih this]

theorem propagatorsM_ignore (o : Ops α) (N : ℕ) (e : Bool) (items : List (Item α)) :
    propagatorsM o N e true items = propagators o N e (items.filterMap Item.gate?) := by
  simp [propagatorsM]

theorem propagatorsM_refuse (o : Ops α) (N : ℕ) (e : Bool) (items : List (Item α)) (h : Item.meas ∈ items) :
    propagatorsM o N e false items = .error .measurement := by
  simp [propagatorsM, filterMap_gate_length_lt items h]

theorem propagatorsM_nomeas (o : Ops α) (N : ℕ) (e ig : Bool) (ops : List (Op α)) :
    propagatorsM o N e ig (ops.map Item.op) = propagators o N e ops := by
  have : (ops.map Item.op).filterMap Item.gate? = ops := by
    induction ops with
    | nil => rfl
    | cons a as ih => simp [Item.gate?, ih]
  simp [propagatorsM, this]

/-! ## The right-to-left product -/

theorem seqProduct_rtl_some (N : ℕ) (l : List (FMat ℂ)) (hl : ∀ A ∈ l, A.n = 2 ^ N) (A0 : FMat ℂ) (h0 : A0.n = 2 ^ N) :
    ∃ P, seqProduct opsC false (some A0) l = some P ∧ P.n = 2 ^ N ∧
      matOf N P = matOf N A0 * mprod ((l.map (matOf N)).reverse) := by
  induction l generalizing A0 with
  | nil => exact ⟨A0, rfl, h0, by simp [mprod]⟩
  | cons U rest ih =>
    have hU := hl U (by simp)
    obtain ⟨P, h1, h2, h3⟩ := ih (fun A hA => hl A (by simp [hA])) (FMat.mulF opsC A0 U) (by simpa using h0)
    refine ⟨P, by simpa [seqProduct] using h1, h2, ?_⟩
    rw [h3, matOf_mulF N _ _ h0 hU, List.map_cons, List.reverse_cons, mprod_append, Matrix.mul_assoc]
    simp [mprod]

/-- **The expanded propagators multiplied right to left** (`left_to_right=False`: `U_overall * U`) give the
product in the opposite order: the ordered product of the reversed circuit. -/
theorem propagators_product_rtl (N : ℕ) (ops : List (Op ℂ)) (hw : ∀ op ∈ ops, WFOp N op) (hne : ops ≠ []) :
    ∃ l P, propagators opsC N true ops = .ok l ∧ seqProduct opsC false none l = some P ∧
      matOf N P = denP (ops.reverse.map (toPGate N)) := by
  obtain ⟨l, h1, h2, h3⟩ := propagators_expand N ops hw
  cases l with
  | nil =>
    cases ops with
    | nil => exact absurd rfl hne
    | cons o os => simp at h3
  | cons U rest =>
    obtain ⟨P, g1, _, g3⟩ := seqProduct_rtl_some N rest (fun A hA => h2 A (by simp [hA])) U (h2 U (by simp))
    refine ⟨U :: rest, P, h1, by simpa [seqProduct] using g1, ?_⟩
    rw [g3, denP_eq_mprod, List.map_map, List.map_reverse]
    have : (ops.map (PGate.den ∘ toPGate N)) = (U :: rest).map (matOf N) := by rw [h3]; rfl
    rw [this, List.map_cons, List.reverse_cons, mprod_append]
    simp [mprod]

/-! ## `propagators(expand=False)` handed to the compact product -/

/-- the qubits a step names, as `inds_list` entry (GLOBALPHASE: its propagator is the full-register matrix) -/
def stepQubits (N : ℕ) : Op ℂ → List ℕ
  | .phase _ => List.range N
  | .gate qs _ _ => qs

theorem propagators_compact_zip (N : ℕ) (ops : List (Op ℂ)) :
    ∃ l, propagators opsC N false ops = .ok l ∧ l.length = ops.length ∧
      l.zip (ops.map (stepQubits N)) = ops.map (opBlock N) := by
  refine ⟨_, propagators_compact N ops, by simp, ?_⟩
  induction ops with
  | nil => rfl
  | cons op ops ih =>
    cases op <;> simp [opBlock, stepQubits, ih]

theorem opBlock_snd (N : ℕ) (ops : List (Op ℂ)) : (ops.map (opBlock N)).map (·.2) = ops.map (stepQubits N) := by
  induction ops with
  | nil => rfl
  | cons op ops ih => cases op <;> simp [opBlock, stepQubits, ih]

/-- `gate_sequence_product(qc.propagators(expand=False), inds_list=[qubits of each gate], expand=True)` -/
theorem compact_pipeline (N : ℕ) (ops : List (Op ℂ)) (hne : ops ≠ []) (hw : ∀ op ∈ ops, WFOp N op) :
    ∃ l R, propagators opsC N false ops = .ok l ∧
      compactProduct opsC ordSorted (l.zip (ops.map (stepQubits N))) =
        .ok (R, sortDedup (ops.map (stepQubits N)).flatten) ∧
      embL N (sortDedup (ops.map (stepQubits N)).flatten) R = denP (ops.map (toPGate N)) := by
  obtain ⟨l, h1, _, h3⟩ := propagators_compact_zip N ops
  obtain ⟨R, g1, g2⟩ := compact_circuit N ops hne hw
  rw [opBlock_snd] at g1 g2
  exact ⟨l, R, h1, by rw [h3]; exact g1, g2⟩

end QipVerif.SimKet
