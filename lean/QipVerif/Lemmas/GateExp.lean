import Mathlib.Analysis.Normed.Algebra.MatrixExponential
import Mathlib.Analysis.SpecialFunctions.Trigonometric.Series
import Mathlib.Topology.Instances.Matrix
/-! The matrix exponential of a rotation generator (C09): for an involution `A` (A·A = 1) and every complex `x`
`exp(−i·x·A) = cos x·1 − i·sin x·A`, from the power series (even powers of `A` are `1`, odd powers are `A`). -/
namespace QipVerif.GateExp
open NormedSpace Matrix Complex

variable {n : ℕ}

theorem pow_even_of_sq (A : Matrix (Fin n) (Fin n) ℂ) (h : A * A = 1) (k : ℕ) : A ^ (2 * k) = 1 := by
  rw [pow_mul, pow_two, h, one_pow]

theorem pow_odd_of_sq (A : Matrix (Fin n) (Fin n) ℂ) (h : A * A = 1) (k : ℕ) : A ^ (2 * k + 1) = A := by
  rw [pow_succ, pow_even_of_sq A h, one_mul]

theorem negI_pow_even (x : ℂ) (k : ℕ) : (-(I * x)) ^ (2 * k) = (-1) ^ k * x ^ (2 * k) := by
  rw [pow_mul, pow_mul, show (-(I * x)) ^ 2 = (-1) * x ^ 2 by rw [neg_sq, mul_pow, Complex.I_sq], mul_pow]

/-- `exp(−i·x·A) = cos x·1 − i·sin x·A` for every matrix `A` with `A·A = 1` -/
theorem exp_rot (A : Matrix (Fin n) (Fin n) ℂ) (hA : A * A = 1) (x : ℂ) :
    NormedSpace.exp ((-(I * x)) • A) = Complex.cos x • (1 : Matrix (Fin n) (Fin n) ℂ) - (I * Complex.sin x) • A := by
  rw [exp_eq_tsum ℂ]
  refine HasSum.tsum_eq ?_
  rw [sub_eq_add_neg, ← neg_smul]
  refine HasSum.even_add_odd ?_ ?_
  · convert! (Complex.hasSum_cos x).smul_const (1 : Matrix (Fin n) (Fin n) ℂ) using 1
    ext1 k
    rw [smul_pow, pow_even_of_sq A hA, negI_pow_even, smul_smul]
    congr 1
    field_simp
  · convert! ((Complex.hasSum_sin x).mul_left (-I)).smul_const A using 1
    · ext1 k
      rw [smul_pow, pow_odd_of_sq A hA, pow_succ, negI_pow_even, smul_smul]
      congr 1
      field_simp
      ring
    · congr 1; ring

theorem exp_add_of_commute (A B : Matrix (Fin n) (Fin n) ℂ) (h : Commute A B) :
    NormedSpace.exp (A + B) = NormedSpace.exp A * NormedSpace.exp B :=
  Matrix.exp_add_of_commute A B h

end QipVerif.GateExp
