import QipVerif.Lemmas.DecompDenTop
import QipVerif.Model.DecomposeF
/-!
# C03 — circuits with arbitrary real angles

The model's angle type keeps a fixed part in units of π/8 and a symbolic part; its template
instantiation halves a FIXED PHASEGATE angle by integer division, which is exact only for even
multiples (`phOK`).  That is a limit of the encoding of fixed angles, not of the class of circuits:
a circuit whose i-th gate has the real angle θᵢ is encoded with the symbolic angle `symb i` and the
valuation `i ↦ θᵢ` (`encR`, `valR`); the encoding satisfies `phOK` whatever the angles are.
-/
namespace QipVerif.Decomp
open QipVerif

/-- a gate with a real angle (ignored by the gates that take none) -/
structure RGate where
  name : GName
  targets : List Nat
  controls : List Nat
  θ : ℝ

/-- what the constructors of the one-qubit rotations and Paulis enforce: no `controls` -/
def RGate.buildable (r : RGate) : Bool := Decomp.buildable ⟨r.name, r.targets, r.controls, {}⟩

/-- the side condition `wf1` of the proofs is the model's `buildable`, which is compared with the constructors -/
theorem wf1_eq_buildable (g : Gate) : wf1 g = buildable g := rfl

/-- the i-th gate gets the symbolic angle `symb (k + i)` -/
def encR (k : Nat) : List RGate → List Gate
  | [] => []
  | r :: rs => ⟨r.name, r.targets, r.controls, .symb k⟩ :: encR (k + 1) rs

/-- the valuation that gives the i-th gate its angle -/
noncomputable def valR (rs : List RGate) : ℕ → ℝ := fun j => (rs[j]?.map (·.θ)).getD 0

theorem eval_symb (ρ : ℕ → ℝ) (j : ℕ) : (Ang.symb j).eval ρ = ρ j := by
  simp [Ang.eval, Ang.symb]

theorem encR_inputOK (k : Nat) (rs : List RGate) (hw : ∀ r ∈ rs, r.buildable = true) :
    ∀ g ∈ encR k rs, inputOK g = true := by
  induction rs generalizing k with
  | nil => intro g hg; cases hg
  | cons r rs ih =>
    intro g hg
    rcases List.mem_cons.mp hg with rfl | hg'
    · have := hw r List.mem_cons_self
      simp only [RGate.buildable, Decomp.buildable] at this
      have this : (!(rotXYZ.contains r.name) || r.controls.isEmpty) = true := this
      simp only [inputOK, wf1, phOK, this, Ang.symb, Bool.true_and, Bool.or_eq_true, bne_iff_ne, ne_eq]
      right; rfl
    · exact ih (k + 1) (fun x hx => hw x (List.mem_cons_of_mem _ hx)) g hg'

/-- the encoding is the circuit it encodes: the i-th gate has the name, qubits and angle of `rs[i]` -/
theorem encR_get (k : Nat) (rs : List RGate) (i : Nat) (h : i < rs.length) :
    (encR k rs)[i]? = some ⟨rs[i].name, rs[i].targets, rs[i].controls, .symb (k + i)⟩ := by
  induction rs generalizing k i with
  | nil => cases h
  | cons r rs ih =>
    cases i with
    | zero => simp [encR]
    | succ i =>
      simp only [encR, List.getElem?_cons_succ, List.getElem_cons_succ]
      rw [ih (k + 1) i (by simpa using h)]
      congr 3
      omega

theorem encR_angle (rs : List RGate) (i : Nat) (h : i < rs.length) :
    (Ang.symb (0 + i)).eval (valR rs) = rs[i].θ := by
  rw [eval_symb]
  simp [valR, h]

end QipVerif.Decomp
