import Mathlib.Analysis.Normed.Algebra.MatrixExponential
import Mathlib.Analysis.SpecialFunctions.Exponential
import Mathlib.MeasureTheory.Integral.IntervalIntegral.FundThmCalculus
import Mathlib.MeasureTheory.Integral.DominatedConvergence
import Mathlib.Tactic.NoncommRing
import QipVerif.Lemmas.VqaCalc
/-!
# The derivative of the matrix exponential along a line (used by C19)

For complex square matrices of any size, with Mathlib's `NormedSpace.exp`:

* `hasDerivAt_exp_ham`: `θ ↦ exp((-iθ) • H)` has derivative `exp((-iθ) • H) * ((-i) • H)`
  (`= ((-i) • H) * exp(..)`), for every matrix `H` — what `VQABlock.get_unitary_derivative` returns
  for a single-parameter Hamiltonian block.
* `hasDerivAt_exp_add_smul`: **for arbitrary (non-commuting) `A`, `E`** the map `t ↦ exp(A + t • E)`
  has at `0` the derivative `expFrechet A E = ∫₀¹ exp(s•A) * E * exp((1-s)•A) ds` (Duhamel's formula;
  Mathlib only has the commuting case, its docstring lists this as a TODO).  It is proved from
  `exp B - exp A = ∫₀¹ exp(s•B) * (B - A) * exp((1-s)•A) ds` (`exp_sub_exp`, fundamental theorem of
  calculus for `s ↦ exp(s•B) * exp((1-s)•A)`) and continuity of the parametric integral.
* `expFrechet_unique`, `expFrechet_eq_fderiv`: `expFrechet A E` is *the* derivative of `exp` at `A`
  in direction `E` (it is the value at `E` of the Fréchet derivative `fderiv ℝ exp A`) — the quantity
  `scipy.linalg.expm_frechet(A, E)` is specified to compute.
* `expFrechet_of_commute`: closed form `exp A * E` when `A` and `E` commute.

`HasDerivAt` on matrices refers to the product topology (entrywise); `MDeriv_of_hasDerivAt` turns it into
the entrywise derivative `MDeriv` of `Lemmas/VqaCalc.lean`.
-/
namespace QipVerif.Vqa
open Matrix NormedSpace
open scoped Matrix.Norms.Operator
set_option linter.unusedSectionVars false
variable {n : Type} [Fintype n] [DecidableEq n]

/-- the (continuous, real-linear) entry functional -/
noncomputable def entryCLM (i j : n) : Matrix n n ℂ →L[ℝ] ℂ :=
  LinearMap.toContinuousLinearMap (Matrix.entryLinearMap ℝ ℂ i j)

theorem MDeriv_of_hasDerivAt {A : ℝ → Matrix n n ℂ} {A' : Matrix n n ℂ} {θ : ℝ}
    (h : HasDerivAt A A' θ) : MDeriv A A' θ := fun i j =>
  (entryCLM i j).hasFDerivAt.comp_hasDerivAt θ h

theorem exp_cont : Continuous (exp : Matrix n n ℂ → Matrix n n ℂ) := exp_continuous

/-- integrand of Duhamel's formula -/
noncomputable def duhamel (B D A : Matrix n n ℂ) (s : ℝ) : Matrix n n ℂ :=
  exp (s • B) * D * exp ((1 - s) • A)

theorem duhamel_continuous (A E D : Matrix n n ℂ) :
    Continuous (Function.uncurry fun (t s : ℝ) => duhamel (A + t • E) D A s) := by
  unfold duhamel Function.uncurry
  have h := exp_cont (n := n)
  fun_prop

theorem hasDerivAt_interp (A B : Matrix n n ℂ) (s : ℝ) :
    HasDerivAt (fun s : ℝ => exp (s • B) * exp ((1 - s) • A)) (duhamel B (B - A) A s) s := by
  have h1 : HasDerivAt (fun u : ℝ => exp (u • B)) (exp (s • B) * B) s := hasDerivAt_exp_smul_const B s
  have h2 : HasDerivAt (fun u : ℝ => exp ((1 - u) • A)) (-(A * exp ((1 - s) • A))) s := by
    have := (hasDerivAt_exp_smul_const' A (1 - s)).scomp s ((hasDerivAt_id s).const_sub 1)
    simp only [Function.comp_def, neg_smul, one_smul] at this
    exact this
  have h := h1.mul h2
  have e : duhamel B (B - A) A s =
      exp (s • B) * B * exp ((1 - s) • A) + exp (s • B) * -(A * exp ((1 - s) • A)) := by
    unfold duhamel; noncomm_ring
  rw [e]; exact h

/-- `exp B - exp A = ∫₀¹ exp(s•B) (B - A) exp((1-s)•A) ds`, any two matrices -/
theorem exp_sub_exp (A B : Matrix n n ℂ) :
    exp B - exp A = ∫ s in (0:ℝ)..1, duhamel B (B - A) A s := by
  have hc : Continuous (fun s : ℝ => duhamel B (B - A) A s) := by
    unfold duhamel
    have h := exp_cont (n := n)
    fun_prop
  have h := intervalIntegral.integral_eq_sub_of_hasDerivAt (a := 0) (b := 1)
    (fun s _ => hasDerivAt_interp A B s) (hc.intervalIntegrable 0 1)
  rw [h]; simp [exp_zero]

/-- The derivative of the matrix exponential at `A` in the direction `E`:
`∫₀¹ exp(s•A) * E * exp((1-s)•A) ds`. -/
noncomputable def expFrechet (A E : Matrix n n ℂ) : Matrix n n ℂ :=
  ∫ s in (0:ℝ)..1, duhamel A E A s

/-- **Duhamel**: for arbitrary square matrices `A`, `E` (no commutation hypothesis),
`t ↦ exp(A + t•E)` has derivative `expFrechet A E` at `0`. -/
theorem hasDerivAt_exp_add_smul (A E : Matrix n n ℂ) :
    HasDerivAt (fun t : ℝ => exp (A + t • E)) (expFrechet A E) 0 := by
  set g : ℝ → Matrix n n ℂ := fun t => ∫ s in (0:ℝ)..1, duhamel (A + t • E) E A s with hg
  have hgc : Continuous g :=
    intervalIntegral.continuous_parametric_intervalIntegral_of_continuous' (duhamel_continuous A E E) 0 1
  have hdiff : ∀ t : ℝ, exp (A + t • E) - exp A = t • g t := fun t => by
    rw [exp_sub_exp, hg, ← intervalIntegral.integral_smul]
    congr 1; ext1 s
    simp [duhamel]
  have h0 : expFrechet A E = g 0 := by simp [hg, expFrechet]
  rw [h0]
  refine hasDerivAt_iff_tendsto_slope_zero.mpr ?_
  refine (hgc.tendsto 0).mono_left nhdsWithin_le_nhds |>.congr' ?_
  filter_upwards [self_mem_nhdsWithin] with t ht
  simp only [zero_add, zero_smul, add_zero]
  rw [hdiff t, smul_smul, inv_mul_cancel₀ ht, one_smul]

/-- the same along `t ↦ A + (t - a) • E` at `t = a` -/
theorem hasDerivAt_exp_affine (A E : Matrix n n ℂ) (a : ℝ) :
    HasDerivAt (fun t : ℝ => exp (A + (t - a) • E)) (expFrechet A E) a := by
  have h0 : HasDerivAt (fun t : ℝ => exp (A + t • E)) (expFrechet A E) ((fun t : ℝ => t - a) a) := by
    simp only [sub_self]; exact hasDerivAt_exp_add_smul A E
  have h1 : HasDerivAt (fun t : ℝ => t - a) 1 a := (hasDerivAt_id a).sub_const a
  have := HasDerivAt.scomp (h := fun t : ℝ => t - a) a h0 h1
  simp only [Function.comp_def, one_smul] at this
  exact this

/-- `expFrechet A E` is the only possible derivative -/
theorem expFrechet_unique (A E D : Matrix n n ℂ)
    (h : HasDerivAt (fun t : ℝ => exp (A + t • E)) D 0) : D = expFrechet A E :=
  h.unique (hasDerivAt_exp_add_smul A E)

/-- closed form in the commuting case -/
theorem expFrechet_of_commute (A E : Matrix n n ℂ) (h : Commute A E) :
    expFrechet A E = exp A * E := by
  symm
  apply expFrechet_unique
  have h1 : HasDerivAt (fun t : ℝ => exp (t • E)) (exp ((0:ℝ) • E) * E) 0 := hasDerivAt_exp_smul_const E 0
  have h2 := h1.const_mul (exp A)
  simp only [zero_smul, exp_zero, one_mul] at h2
  refine h2.congr_of_eventuallyEq (Filter.Eventually.of_forall fun t => ?_)
  exact Matrix.exp_add_of_commute A (t • E) (h.smul_right t)

theorem expFrechet_of_commute' (A E : Matrix n n ℂ) (h : Commute A E) :
    expFrechet A E = E * exp A := by
  rw [expFrechet_of_commute A E h]
  exact ((h.symm).exp_right).eq.symm

theorem exp_differentiableAt (A : Matrix n n ℂ) :
    DifferentiableAt ℝ (exp : Matrix n n ℂ → Matrix n n ℂ) A :=
  (exp_analytic (𝕂 := ℝ) A).differentiableAt

/-- `expFrechet A E` is the Fréchet derivative of `exp` at `A`, applied to `E`. -/
theorem expFrechet_eq_fderiv (A E : Matrix n n ℂ) :
    fderiv ℝ (exp : Matrix n n ℂ → Matrix n n ℂ) A E = expFrechet A E := by
  apply expFrechet_unique
  have hline : HasDerivAt (fun t : ℝ => A + t • E) E 0 := by
    have h := ((hasDerivAt_id (0:ℝ)).smul_const E).const_add A
    simp only [id, one_smul] at h
    exact h
  have hA : HasFDerivAt (exp : Matrix n n ℂ → Matrix n n ℂ) (fderiv ℝ exp A) (A + (0:ℝ) • E) := by
    rw [zero_smul, add_zero]; exact (exp_differentiableAt A).hasFDerivAt
  exact hA.comp_hasDerivAt (0:ℝ) hline

/-- `θ ↦ exp(θ • X)`, real parameter -/
theorem hasDerivAt_exp_real_smul (X : Matrix n n ℂ) (θ : ℝ) :
    HasDerivAt (fun t : ℝ => exp (t • X)) (exp (θ • X) * X) θ := hasDerivAt_exp_smul_const X θ

theorem real_smul_eq (t : ℝ) (c : ℂ) (H : Matrix n n ℂ) : t • (c • H) = (c * (t : ℂ)) • H := by
  ext i j
  simp only [Matrix.smul_apply, smul_eq_mul, Complex.real_smul]
  ring

/-- **`d/dθ exp((-iθ) • H) = exp((-iθ) • H) * ((-i) • H)`** for every complex square matrix `H`. -/
theorem hasDerivAt_exp_ham (H : Matrix n n ℂ) (θ : ℝ) :
    HasDerivAt (fun t : ℝ => exp ((-Complex.I * (t : ℂ)) • H))
      (exp ((-Complex.I * (θ : ℂ)) • H) * ((-Complex.I) • H)) θ := by
  have h := hasDerivAt_exp_real_smul ((-Complex.I) • H) θ
  simpa only [real_smul_eq] using h

/-- the derivative can equally be written with the generator on the left -/
theorem exp_ham_comm (H : Matrix n n ℂ) (θ : ℝ) :
    exp ((-Complex.I * (θ : ℂ)) • H) * ((-Complex.I) • H) =
      ((-Complex.I) • H) * exp ((-Complex.I * (θ : ℂ)) • H) := by
  have hc : Commute ((-Complex.I) • H) ((-Complex.I * (θ : ℂ)) • H) :=
    ((Commute.refl H).smul_left _).smul_right _
  exact (hc.exp_right).eq.symm

end QipVerif.Vqa
