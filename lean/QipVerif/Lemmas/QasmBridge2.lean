import QipVerif.Lemmas.QasmBridge
import Mathlib.Tactic.FinCases
import Mathlib.Tactic.Ring
import Mathlib.Tactic.FieldSimp
import Mathlib.Tactic.NormNum
import Mathlib.Analysis.SpecialFunctions.Trigonometric.Basic
/-!
# The library side: `compactC` of the circuit IR against the documented matrices of `QasmDen` (C04, C10)

For every library gate the importer's shortcuts and the exporter's definitions stand for, the
specification object of the circuit IR (`compactC`, built from the exact matrices `gateE` over
ℤ[ζ₁₆][1/2] and the generated rotation matrices `Gen.G.*`) is the documented matrix of
`QasmDen.lean`, reindexed to the state spaces of the embedding algebra (`mat1`, `m2`, `m3`).
-/
namespace QipVerif.Qasm
open QipVerif Matrix
set_option linter.unusedSimpArgs false

/-! ## constants of ℤ[ζ₁₆] -/

theorem zeta_sq : Cyc.ζ ^ 2 = ((Real.sqrt 2 / 2 : ℝ) : ℂ) * (1 + Complex.I) := by
  unfold Cyc.ζ
  rw [← Complex.exp_nat_mul,
    show ((2 : ℕ) : ℂ) * ((Real.pi : ℂ) / 8 * Complex.I) = ((Real.pi / 4 : ℝ) : ℂ) * Complex.I by push_cast; ring,
    Complex.exp_mul_I, ← Complex.ofReal_cos, ← Complex.ofReal_sin, Real.cos_pi_div_four, Real.sin_pi_div_four]
  ring

theorem zeta_four : Cyc.ζ ^ 4 = Complex.I := by
  have := Cyc.toC_I
  unfold Cyc.I at this
  rwa [Cyc.toC_zetaPow] at this

theorem sqrt2_sq_br : ((Real.sqrt 2 : ℝ) : ℂ) * ((Real.sqrt 2 : ℝ) : ℂ) = 2 := by
  rw [← Complex.ofReal_mul, Real.mul_self_sqrt (by norm_num)]; norm_num

theorem toC_sqrt2 : Cyc.toC Cyc.sqrt2 = ((Real.sqrt 2 : ℝ) : ℂ) := by
  have h6 : Cyc.ζ ^ 6 = Cyc.ζ ^ 2 * Cyc.ζ ^ 4 := by ring
  simp only [Cyc.toC, Cyc.sqrt2]
  rw [h6, zeta_four, zeta_sq]
  push_cast
  linear_combination (-(Real.sqrt 2 : ℂ) / 2) * Complex.I_sq

theorem toC_zpow2 : Cyc.toC (Cyc.zpow 2) = Complex.exp (Complex.I * Real.pi / 4) := by
  rw [Cyc.toC_zpow]; congr 1; push_cast; ring

/-! ## fixed one-qubit gates -/

theorem toMatD_x : toMatD 1 GateE.x = mat1 Xm := by
  show toMatD 1 ⟨0, [[Cyc.zero, Cyc.one], [Cyc.one, Cyc.zero]]⟩ = _
  rw [toMatD_one_eq]; congr 1
  ext i j; fin_cases i <;> fin_cases j <;> simp [Xm]

theorem compactC_X (θ : ℝ) : compactC .X θ = some ⟨1, mat1 Xm⟩ := by
  show some (⟨1, toMatD 1 GateE.x⟩ : Σ m : ℕ, Matrix (St m) (St m) ℂ) = _
  rw [toMatD_x]

theorem toMatD_y : toMatD 1 GateE.y = mat1 Ym := by
  show toMatD 1 ⟨0, [[Cyc.zero, Cyc.neg Cyc.I], [Cyc.I, Cyc.zero]]⟩ = _
  rw [toMatD_one_eq]; congr 1
  ext i j; fin_cases i <;> fin_cases j <;> simp [Ym, Cyc.toC_neg, Cyc.toC_I]

theorem compactC_Y (θ : ℝ) : compactC .Y θ = some ⟨1, mat1 Ym⟩ := by
  show some (⟨1, toMatD 1 GateE.y⟩ : Σ m : ℕ, Matrix (St m) (St m) ℂ) = _
  rw [toMatD_y]

theorem toMatD_z : toMatD 1 GateE.zg = mat1 Zm := by
  show toMatD 1 ⟨0, [[Cyc.one, Cyc.zero], [Cyc.zero, Cyc.neg Cyc.one]]⟩ = _
  rw [toMatD_one_eq]; congr 1
  ext i j; fin_cases i <;> fin_cases j <;> simp [Zm, Cyc.toC_neg]

theorem compactC_Z (θ : ℝ) : compactC .Z θ = some ⟨1, mat1 Zm⟩ := by
  show some (⟨1, toMatD 1 GateE.zg⟩ : Σ m : ℕ, Matrix (St m) (St m) ℂ) = _
  rw [toMatD_z]

theorem toMatD_s : toMatD 1 GateE.s = mat1 Sm := by
  show toMatD 1 ⟨0, [[Cyc.one, Cyc.zero], [Cyc.zero, Cyc.I]]⟩ = _
  rw [toMatD_one_eq]; congr 1
  ext i j; fin_cases i <;> fin_cases j <;> simp [Sm, Cyc.toC_I]

theorem compactC_S (θ : ℝ) : compactC .S θ = some ⟨1, mat1 Sm⟩ := by
  show some (⟨1, toMatD 1 GateE.s⟩ : Σ m : ℕ, Matrix (St m) (St m) ℂ) = _
  rw [toMatD_s]

theorem toMatD_t : toMatD 1 GateE.t = mat1 Tm := by
  show toMatD 1 ⟨0, [[Cyc.one, Cyc.zero], [Cyc.zero, Cyc.zpow 2]]⟩ = _
  rw [toMatD_one_eq]; congr 1
  ext i j; fin_cases i <;> fin_cases j <;> simp [Tm, toC_zpow2]

theorem compactC_T (θ : ℝ) : compactC .T θ = some ⟨1, mat1 Tm⟩ := by
  show some (⟨1, toMatD 1 GateE.t⟩ : Σ m : ℕ, Matrix (St m) (St m) ℂ) = _
  rw [toMatD_t]

theorem half_sqrt2_br : (2 : ℂ)⁻¹ * ((Real.sqrt 2 : ℝ) : ℂ) = 1 / ((Real.sqrt 2 : ℝ) : ℂ) := by
  have h : ((Real.sqrt 2 : ℝ) : ℂ) ≠ 0 := by
    rw [Ne, Complex.ofReal_eq_zero]; exact (Real.sqrt_pos.mpr (by norm_num)).ne'
  field_simp
  rw [sq, sqrt2_sq_br]

theorem toMatD_snot : toMatD 1 GateE.snot = mat1 Hm := by
  show toMatD 1 ⟨1, [[Cyc.sqrt2, Cyc.sqrt2], [Cyc.sqrt2, Cyc.neg Cyc.sqrt2]]⟩ = _
  rw [toMatD_one_eq]; congr 1
  ext i j; fin_cases i <;> fin_cases j <;> simp [Hm, Cyc.toC_neg, toC_sqrt2, half_sqrt2_br]

theorem compactC_SNOT (θ : ℝ) : compactC .SNOT θ = some ⟨1, mat1 Hm⟩ := by
  show some (⟨1, toMatD 1 GateE.snot⟩ : Σ m : ℕ, Matrix (St m) (St m) ℂ) = _
  rw [toMatD_snot]

theorem toMatD_sqrtnot : toMatD 1 GateE.sqrtnot = mat1 SQRTNOTm := by
  show toMatD 1 ⟨1, [[Cyc.add Cyc.one Cyc.I, Cyc.sub Cyc.one Cyc.I], [Cyc.sub Cyc.one Cyc.I, Cyc.add Cyc.one Cyc.I]]⟩ = _
  rw [toMatD_one_eq]; congr 1
  ext i j; fin_cases i <;> fin_cases j <;> simp [SQRTNOTm, Cyc.toC_add, Cyc.toC_sub, Cyc.toC_I] <;> ring

theorem compactC_SQRTNOT (θ : ℝ) : compactC .SQRTNOT θ = some ⟨1, mat1 SQRTNOTm⟩ := by
  show some (⟨1, toMatD 1 GateE.sqrtnot⟩ : Σ m : ℕ, Matrix (St m) (St m) ℂ) = _
  rw [toMatD_sqrtnot]

/-! ## rotations -/

theorem rx_eq (θ : ℝ) : Gen.G.rx_ θ = RXm θ := by
  unfold Gen.G.rx_ RXm
  rw [Complex.ofReal_cos, Complex.ofReal_sin]
  push_cast
  rfl

theorem ry_eq (θ : ℝ) : Gen.G.ry_ θ = RYm θ := by
  unfold Gen.G.ry_ RYm Ry
  rw [Complex.ofReal_cos, Complex.ofReal_sin]
  push_cast
  rfl

theorem rz_eq (θ : ℝ) : Gen.G.rz_ θ = RZm θ := by
  unfold Gen.G.rz_ RZm Rz
  rw [show -Complex.I * (θ : ℂ) / 2 = -(Complex.I * (θ : ℂ) / 2) by ring]

theorem qasmu_eq (θ φ l : ℝ) : QASMUm θ φ l = Gen.G.qasmu_gate_ θ φ l := by
  unfold QASMUm Gen.G.qasmu_gate_
  rw [rz_eq, rz_eq, ry_eq]

theorem compactC_RX (θ : ℝ) : compactC .RX θ = some ⟨1, mat1 (RXm θ)⟩ := by
  rw [← rx_eq]; rfl
theorem compactC_RY (θ : ℝ) : compactC .RY θ = some ⟨1, mat1 (RYm θ)⟩ := by
  rw [← ry_eq]; rfl
theorem compactC_RZ (θ : ℝ) : compactC .RZ θ = some ⟨1, mat1 (RZm θ)⟩ := by
  rw [← rz_eq]; rfl

theorem compactC_CRX (θ : ℝ) : compactC .CRX θ = some ⟨2, m2 (ctrl (RXm θ))⟩ := by
  rw [← rx_eq, ← ctrl1_eq]; rfl
theorem compactC_CRY (θ : ℝ) : compactC .CRY θ = some ⟨2, m2 (ctrl (RYm θ))⟩ := by
  rw [← ry_eq, ← ctrl1_eq]; rfl
theorem compactC_CRZ (θ : ℝ) : compactC .CRZ θ = some ⟨2, m2 (ctrl (RZm θ))⟩ := by
  rw [← rz_eq, ← ctrl1_eq]; rfl
theorem compactC_CPHASE (θ : ℝ) : compactC .CPHASE θ = some ⟨2, m2 (CPHASEm θ)⟩ := by
  unfold CPHASEm
  rw [← ctrl1_eq]; rfl

/-! ## fixed two-qubit gates -/

/-- entrywise criterion for an exact two-qubit matrix -/
theorem toMatD_two (D : DMat) (M : M2)
    (h : ∀ a b c d : Fin 2, ((1 : ℂ) / 2 ^ D.e) * Cyc.toC (D.m.get (2 * a.val + b.val) (2 * c.val + d.val)) = M (a, b) (c, d)) :
    toMatD 2 D = m2 M := by
  ext x y
  simp only [toMatD, toMat, enc_two_fn, Matrix.smul_apply, smul_eq_mul, m2]
  exact h _ _ _ _

theorem toMatD_cnot : toMatD 2 GateE.cnot = m2 (ctrl Xm) := by
  apply toMatD_two
  intro a b c d
  show (1 : ℂ) / 2 ^ 0 * Cyc.toC (CMat.get [[Cyc.one, Cyc.zero, Cyc.zero, Cyc.zero], [Cyc.zero, Cyc.one, Cyc.zero, Cyc.zero],
    [Cyc.zero, Cyc.zero, Cyc.zero, Cyc.one], [Cyc.zero, Cyc.zero, Cyc.one, Cyc.zero]] _ _) = _
  fin_cases a <;> fin_cases b <;> fin_cases c <;> fin_cases d <;> simp [CMat.get, ctrl, Xm]

theorem compactC_CNOT (θ : ℝ) : compactC .CNOT θ = some ⟨2, m2 (ctrl Xm)⟩ := by
  show some (⟨2, toMatD 2 GateE.cnot⟩ : Σ m : ℕ, Matrix (St m) (St m) ℂ) = _
  rw [toMatD_cnot]

theorem toMatD_csign : toMatD 2 GateE.csign = m2 (ctrl Zm) := by
  apply toMatD_two
  intro a b c d
  show (1 : ℂ) / 2 ^ 0 * Cyc.toC (CMat.get [[Cyc.one, Cyc.zero, Cyc.zero, Cyc.zero], [Cyc.zero, Cyc.one, Cyc.zero, Cyc.zero],
    [Cyc.zero, Cyc.zero, Cyc.one, Cyc.zero], [Cyc.zero, Cyc.zero, Cyc.zero, Cyc.neg Cyc.one]] _ _) = _
  fin_cases a <;> fin_cases b <;> fin_cases c <;> fin_cases d <;> simp [CMat.get, ctrl, Zm, Cyc.toC_neg]

theorem compactC_CZ (θ : ℝ) : compactC .CZ θ = some ⟨2, m2 (ctrl Zm)⟩ := by
  show some (⟨2, toMatD 2 GateE.csign⟩ : Σ m : ℕ, Matrix (St m) (St m) ℂ) = _
  rw [toMatD_csign]

theorem toMatD_cy : toMatD 2 GateE.cy = m2 (ctrl Ym) := by
  apply toMatD_two
  intro a b c d
  show (1 : ℂ) / 2 ^ 0 * Cyc.toC (CMat.get [[Cyc.one, Cyc.zero, Cyc.zero, Cyc.zero], [Cyc.zero, Cyc.one, Cyc.zero, Cyc.zero],
    [Cyc.zero, Cyc.zero, Cyc.zero, Cyc.neg Cyc.I], [Cyc.zero, Cyc.zero, Cyc.I, Cyc.zero]] _ _) = _
  fin_cases a <;> fin_cases b <;> fin_cases c <;> fin_cases d <;> simp [CMat.get, ctrl, Ym, Cyc.toC_neg, Cyc.toC_I]

theorem compactC_CY (θ : ℝ) : compactC .CY θ = some ⟨2, m2 (ctrl Ym)⟩ := by
  show some (⟨2, toMatD 2 GateE.cy⟩ : Σ m : ℕ, Matrix (St m) (St m) ℂ) = _
  rw [toMatD_cy]

theorem toMatD_cs : toMatD 2 GateE.cs = m2 (ctrl Sm) := by
  apply toMatD_two
  intro a b c d
  show (1 : ℂ) / 2 ^ 0 * Cyc.toC (CMat.get [[Cyc.one, Cyc.zero, Cyc.zero, Cyc.zero], [Cyc.zero, Cyc.one, Cyc.zero, Cyc.zero],
    [Cyc.zero, Cyc.zero, Cyc.one, Cyc.zero], [Cyc.zero, Cyc.zero, Cyc.zero, Cyc.I]] _ _) = _
  fin_cases a <;> fin_cases b <;> fin_cases c <;> fin_cases d <;> simp [CMat.get, ctrl, Sm, Cyc.toC_I]

theorem compactC_CS (θ : ℝ) : compactC .CS θ = some ⟨2, m2 (ctrl Sm)⟩ := by
  show some (⟨2, toMatD 2 GateE.cs⟩ : Σ m : ℕ, Matrix (St m) (St m) ℂ) = _
  rw [toMatD_cs]

theorem toMatD_ct : toMatD 2 GateE.ct = m2 (ctrl Tm) := by
  apply toMatD_two
  intro a b c d
  show (1 : ℂ) / 2 ^ 0 * Cyc.toC (CMat.get [[Cyc.one, Cyc.zero, Cyc.zero, Cyc.zero], [Cyc.zero, Cyc.one, Cyc.zero, Cyc.zero],
    [Cyc.zero, Cyc.zero, Cyc.one, Cyc.zero], [Cyc.zero, Cyc.zero, Cyc.zero, Cyc.zpow 2]] _ _) = _
  fin_cases a <;> fin_cases b <;> fin_cases c <;> fin_cases d <;> simp [CMat.get, ctrl, Tm, toC_zpow2]

theorem compactC_CT (θ : ℝ) : compactC .CT θ = some ⟨2, m2 (ctrl Tm)⟩ := by
  show some (⟨2, toMatD 2 GateE.ct⟩ : Σ m : ℕ, Matrix (St m) (St m) ℂ) = _
  rw [toMatD_ct]

theorem toMatD_swap : toMatD 2 GateE.swap = m2 SWAPm := by
  apply toMatD_two
  intro a b c d
  show (1 : ℂ) / 2 ^ 0 * Cyc.toC (CMat.get [[Cyc.one, Cyc.zero, Cyc.zero, Cyc.zero], [Cyc.zero, Cyc.zero, Cyc.one, Cyc.zero],
    [Cyc.zero, Cyc.one, Cyc.zero, Cyc.zero], [Cyc.zero, Cyc.zero, Cyc.zero, Cyc.one]] _ _) = _
  fin_cases a <;> fin_cases b <;> fin_cases c <;> fin_cases d <;> simp [CMat.get, SWAPm]

theorem compactC_SWAP (θ : ℝ) : compactC .SWAP θ = some ⟨2, m2 SWAPm⟩ := by
  show some (⟨2, toMatD 2 GateE.swap⟩ : Σ m : ℕ, Matrix (St m) (St m) ℂ) = _
  rw [toMatD_swap]

/-! ## Toffoli -/

theorem enc_three_fn (x : St 3) : enc x = 4 * (x 0).val + 2 * (x 1).val + (x 2).val := by
  simp [enc, bitsL, Embed.undigits, Embed.prodL, List.ofFn_succ]
  ring

/-- entrywise criterion for an exact three-qubit matrix -/
theorem toMatD_three (D : DMat) (M : M3)
    (h : ∀ a b c d e f : Fin 2, ((1 : ℂ) / 2 ^ D.e) *
      Cyc.toC (D.m.get (4 * a.val + 2 * b.val + c.val) (4 * d.val + 2 * e.val + f.val)) = M (a, b, c) (d, e, f)) :
    toMatD 3 D = m3 M := by
  ext x y
  simp only [toMatD, toMat, enc_three_fn, Matrix.smul_apply, smul_eq_mul, m3]
  exact h _ _ _ _ _ _

theorem toMatD_toffoli : toMatD 3 GateE.toffoli = m3 TOFFOLIm := by
  apply toMatD_three
  intro a b c d e f
  show (1 : ℂ) / 2 ^ 0 * Cyc.toC (CMat.get [[Cyc.one, Cyc.zero, Cyc.zero, Cyc.zero, Cyc.zero, Cyc.zero, Cyc.zero, Cyc.zero], [Cyc.zero, Cyc.one, Cyc.zero, Cyc.zero, Cyc.zero, Cyc.zero, Cyc.zero, Cyc.zero], [Cyc.zero, Cyc.zero, Cyc.one, Cyc.zero, Cyc.zero, Cyc.zero, Cyc.zero, Cyc.zero], [Cyc.zero, Cyc.zero, Cyc.zero, Cyc.one, Cyc.zero, Cyc.zero, Cyc.zero, Cyc.zero], [Cyc.zero, Cyc.zero, Cyc.zero, Cyc.zero, Cyc.one, Cyc.zero, Cyc.zero, Cyc.zero], [Cyc.zero, Cyc.zero, Cyc.zero, Cyc.zero, Cyc.zero, Cyc.one, Cyc.zero, Cyc.zero], [Cyc.zero, Cyc.zero, Cyc.zero, Cyc.zero, Cyc.zero, Cyc.zero, Cyc.zero, Cyc.one], [Cyc.zero, Cyc.zero, Cyc.zero, Cyc.zero, Cyc.zero, Cyc.zero, Cyc.one, Cyc.zero]] _ _) = _
  fin_cases a <;> fin_cases b <;> fin_cases c <;> fin_cases d <;> fin_cases e <;> fin_cases f <;>
    simp [CMat.get, TOFFOLIm]

theorem compactC_TOFFOLI (θ : ℝ) : compactC .TOFFOLI θ = some ⟨3, m3 TOFFOLIm⟩ := by
  show some (⟨3, toMatD 3 GateE.toffoli⟩ : Σ m : ℕ, Matrix (St m) (St m) ℂ) = _
  rw [toMatD_toffoli]

end QipVerif.Qasm
