import QipVerif.Model.SimEdit
import QipVerif.Lemmas.SimPure
/-! # Histories with in-place edits of the circuit: the invariants of `SimPure` do not depend on the circuit -/
namespace QipVerif.Sim
open QipVerif.Heap

variable {Q P : Type}

/-- every list reference passed in a call exists at that time -/
def HEvsOk [One P] [Mul P] (B : Backend Q P) (cfg : Cfg) (mode : Mode) (phases : List Int) :
    World Q P × Circuit → List (HEv Q) → Prop
  | _, [] => True
  | s, .call c :: rest => CbOk s.1 c.cb ∧ HEvsOk B cfg mode phases (execHEv B cfg mode phases s (.call c)) rest
  | s, .edit c' :: rest => HEvsOk B cfg mode phases (execHEv B cfg mode phases s (.edit c')) rest

theorem execHEvs_inv [One P] [Mul P] (B : Backend Q P) (cfg : Cfg) (hcopy : cfg.copyCbits = true) (mode : Mode)
    (phases : List Int) (cells0 : List (List Int)) :
    ∀ (evs : List (HEv Q)) (s : World Q P × Circuit), Inv cells0 s.1 → HEvsOk B cfg mode phases s evs →
      Inv cells0 (execHEvs B cfg mode phases s evs).1 := by
  intro evs
  induction evs with
  | nil => intro s h _; exact h
  | cons e rest ih =>
    intro s hinv hok
    simp only [execHEvs, List.foldl_cons]
    cases e with
    | call c =>
      obtain ⟨h1, h2⟩ := hok
      exact ih _ (exec_inv B cfg hcopy mode s.2 phases cells0 s.1 c hinv h1) h2
    | edit c' => exact ih _ hinv hok

end QipVerif.Sim
