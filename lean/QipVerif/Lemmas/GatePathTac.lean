import QipVerif.Gen.GateDefs
import Mathlib.Tactic.FinCases
import Mathlib.Tactic.Ring
/-! `ctrl` (the block matrix built by `controlled_gate` for one control with value 1, canonical
placement) and the uniform tactic closing the generated path-agreement statements. -/
namespace QipVerif.GatePath

/-- `block_diag(1₂, U)` as a 4×4 matrix — `controlled_gate(U)` with one control, value 1 -/
noncomputable def ctrl (U : Matrix (Fin 2) (Fin 2) ℂ) : Matrix (Fin 4) (Fin 4) ℂ :=
  !![1, 0, 0, 0;
     0, 1, 0, 0;
     0, 0, U 0 0, U 0 1;
     0, 0, U 1 0, U 1 1]

open QipVerif.Gen.G in
/-- closes `term₁ = term₂` for two renderings of the same gate -/
macro "gate_path_tac" : tactic => `(tactic| first
  | rfl
  | (ext i j; fin_cases i <;> fin_cases j <;>
      simp [ctrl, x_gate_, y_gate_, z_gate_, cy_gate_, cz_gate_, s_gate_, cs_gate_, t_gate_, ct_gate_, rx_, ry_, rz_,
        cnot_, csign_, phasegate_]))

end QipVerif.GatePath
