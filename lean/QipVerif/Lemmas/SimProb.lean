import QipVerif.Lemmas.SimStat
import Mathlib.Algebra.BigOperators.Group.List.Basic
import Mathlib.Algebra.Ring.Defs
/-!
# Branch probabilities sum to one (induction over the operation list; the only analytic input is that a
# measurement splits the weight: `p₀ + p₁ = 1`, and a pruned outcome has probability `0`)
-/
namespace QipVerif.Sim
variable {Q P : Type}

/-- what the Born rule gives the backend (for `ℂ`-vectors: `SimBorn.born_split`) -/
structure BornOk [Semiring P] (B : Backend Q P) : Prop where
  /-- the two outcome probabilities of a measurement add up to one -/
  split : ∀ t q, (B.meas t q 0).1 + (B.meas t q 1).1 = 1
  /-- an outcome pruned by the tolerance (`None` state) is reported with probability `0` -/
  pruned : ∀ t q o, (B.meas t q o).2 = none → (B.meas t q o).1 = 0

theorem brStep_gate_rest [Mul P] (B : Backend Q P) (b : Br Q P) (g : Gate) (r : List Int) :
    brStep B { b with rest := r } (.gate g) = { brStep B b (.gate g) with rest := r } := by
  cases b with | mk bits st prob rest =>
  cases st with
  | none => rfl
  | some q => simp only [brStep]; split <;> rfl

theorem brStep_gate_alive [Mul P] (B : Backend Q P) (b : Br Q P) (g : Gate) (h : b.st.isSome) :
    (brStep B b (.gate g)).st.isSome ∧ (brStep B b (.gate g)).prob = b.prob := by
  unfold brStep
  obtain ⟨q, hq⟩ := Option.isSome_iff_exists.mp h
  simp only [hq]
  split <;> simp [hq]

/-- sum of the probabilities of all continuations of `b` through `ops` -/
def sumProbs [Semiring P] (B : Backend Q P) (b : Br Q P) (ops : List Op) : P :=
  ((records (numMeasOps ops)).map (fun r => (brRun B { b with rest := r } ops).prob)).sum

theorem sumProbs_dead [Semiring P] (B : Backend Q P) (b : Br Q P) (ops : List Op) (hd : b.st = none)
    (hp : b.prob = 0) : sumProbs B b ops = 0 := by
  unfold sumProbs
  have : ∀ r, (brRun B { b with rest := r } ops).prob = 0 := by
    intro r; rw [brRun_dead B _ (by exact hd)]; exact hp
  simp [this]

theorem sumProbs_alive [Semiring P] (B : Backend Q P) (hB : BornOk B) :
    ∀ (ops : List Op) (b : Br Q P), b.st.isSome → sumProbs B b ops = b.prob := by
  intro ops
  induction ops with
  | nil => intro b _; simp [sumProbs, numMeasOps, records, brRun]
  | cons op ops ih =>
    intro b hb
    cases op with
    | gate g =>
      have hm := numMeasOps_gate g ops
      unfold sumProbs
      rw [hm]
      have : ∀ r, brRun B { b with rest := r } (Op.gate g :: ops) =
          brRun B { brStep B b (.gate g) with rest := r } ops := by
        intro r; simp only [brRun, List.foldl_cons]; rw [brStep_gate_rest]
      simp only [this]
      have h2 := brStep_gate_alive B b g hb
      have := ih (brStep B b (.gate g)) h2.1
      unfold sumProbs at this
      rw [this, h2.2]
    | meas t store =>
      obtain ⟨q, hq⟩ := Option.isSome_iff_exists.mp hb
      have hm := numMeasOps_meas t store ops
      -- the two successor states
      let nxt (i : Int) : Br Q P :=
        { bits := writeBit b.bits store i, st := (B.meas t q i.toNat).2,
          prob := b.prob * (B.meas t q i.toNat).1, rest := [] }
      have hstep : ∀ (i : Int) (r : List Int), brRun B { b with rest := i :: r } (Op.meas t store :: ops) =
          brRun B { nxt i with rest := r } ops := by
        intro i r; simp [brRun, brStep, hq, nxt]
      have hsum : ∀ i : Int, sumProbs B (nxt i) ops = b.prob * (B.meas t q i.toNat).1 := by
        intro i
        cases hst : (nxt i).st with
        | none =>
          have hp0 : (B.meas t q i.toNat).1 = 0 := hB.pruned t q i.toNat hst
          rw [sumProbs_dead B (nxt i) ops hst (by simp [nxt, hp0]), hp0, mul_zero]
        | some q' =>
          rw [ih (nxt i) (by simp [hst])]
      unfold sumProbs
      rw [hm]
      simp only [records, List.map_append, List.map_map, List.sum_append, Function.comp_def, hstep]
      have e0 := hsum 0
      have e1 := hsum 1
      unfold sumProbs at e0 e1
      rw [e0, e1, ← mul_add]
      have : (B.meas t q (0 : Int).toNat).1 + (B.meas t q (1 : Int).toNat).1 = 1 := hB.split t q
      rw [this, mul_one]

theorem brRun_dead_prob [Semiring P] (B : Backend Q P) (hB : BornOk B) :
    ∀ (ops : List Op) (b : Br Q P), (b.st = none → b.prob = 0) →
      (brRun B b ops).st = none → (brRun B b ops).prob = 0 := by
  intro ops
  induction ops with
  | nil => intro b h; exact h
  | cons op ops ih =>
    intro b h
    simp only [brRun, List.foldl_cons]
    apply ih
    intro hd
    cases op with
    | gate g =>
      unfold brStep at hd ⊢
      cases hst : b.st with
      | none => simp only [hst] at hd ⊢; exact h hst
      | some q => simp only [hst] at hd ⊢; split at hd <;> simp_all
    | meas t store =>
      unfold brStep at hd ⊢
      cases hst : b.st with
      | none => simp only [hst] at hd ⊢; exact h hst
      | some q =>
        cases hr : b.rest with
        | nil => simp only [hst, hr] at hd ⊢; simp at hd
        | cons i rest =>
          simp only [hst, hr] at hd ⊢
          rw [hB.pruned t q i.toNat hd, mul_zero]

theorem sum_filter_of_zero {α : Type} [AddMonoid P] (l : List α) (p : α → Bool) (f : α → P)
    (h : ∀ x ∈ l, p x = false → f x = 0) : ((l.filter p).map f).sum = (l.map f).sum := by
  induction l with
  | nil => rfl
  | cons a l ih =>
    have ih' := ih (fun x hx => h x (List.mem_cons_of_mem _ hx))
    by_cases hp : p a = true
    · simp [hp, ih']
    · have hpf : p a = false := by simpa using hp
      simp [hpf, ih', h a (List.mem_cons_self ..) hpf]

/-- **The probabilities of all records sum to one, and so do those of the surviving records.** -/
theorem branch_probs_sum_one [Semiring P] (B : Backend Q P) (hB : BornOk B) (c : Circuit)
    (bits0 : Option (List Int)) (st : Q) :
    (((records c.numMeas).map (branchEntry B c bits0 st)).map (·.2.1)).sum = 1 ∧
    ((((records c.numMeas).map (branchEntry B c bits0 st)).filter (fun e => e.1.isSome)).map (·.2.1)).sum = 1 := by
  have hall : (((records c.numMeas).map (branchEntry B c bits0 st)).map (·.2.1)).sum = 1 := by
    have := sumProbs_alive B hB c.ops { bits := bits0, st := some st, prob := 1, rest := [] } rfl
    unfold sumProbs at this
    rw [List.map_map]
    simpa [branchEntry, branch, numMeas_eq, Function.comp_def] using this
  refine ⟨hall, ?_⟩
  rw [sum_filter_of_zero, hall]
  intro e he hdead
  obtain ⟨r, _, rfl⟩ := List.mem_map.mp he
  simp only [branchEntry] at hdead ⊢
  apply brRun_dead_prob B hB c.ops _ (by intro h; cases h)
  cases hs : (branch B c bits0 st r).st with
  | none => exact hs
  | some q => simp [hs] at hdead

end QipVerif.Sim
