import QipVerif.Lemmas.TranspileDen
import QipVerif.Lemmas.RouteC
/-!
# C13: the routing stage preserves the complex denotation (`RouteStageDen` discharged)

C07 proves `toChain_den_C`: for its own interpretation `interpC N α oth` of the router's gates
(handled gates = the embedded exact library matrices, unhandled gates = an arbitrary family `oth`)
the routed circuit has the same ordered product.  Here that interpretation is identified with the
denotation `semD`/`denG` of the circuit IR along the conversion `toRoute`/`ofRoute`:

* `oth r := semD (ofRoute cx r)` (or `1` if that gate has no denotation),
* for a handled router gate `r` on two distinct in-range qubits in library shape,
  `semD (ofRoute cx r) = some (interpC … r)` — both are `Tg.pair`-embeddings of the same exact
  4×4 matrix (SWAPalpha, which has no exact matrix, has no `semD` and cannot occur in a circuit
  that has a denotation).
-/
namespace QipVerif.Transpile
open QipVerif Matrix

variable (N : ℕ) (ρ : ℕ → ℝ) (cx : Ctx)

/-- valuation of the router's opaque `arg` labels -/
noncomputable def alphaOf : ℕ → ℝ := fun k => (decAng cx k).eval ρ

/-- the operators of the gates the router passes through -/
noncomputable def othOf : Route.Gate → Matrix (St N) (St N) ℂ :=
  fun r => (semD N ρ (ofRoute cx r)).getD 1

/-- C07's complex interpretation of the router's gates, instantiated for the conversion -/
noncomputable def interpT : Route.Gate → Matrix (St N) (St N) ℂ :=
  Route.interpC N (alphaOf ρ cx) (othOf N ρ cx)

/-! ## one gate -/

theorem tgL_pair {a b : ℕ} (qs : List ℕ) (hq : qs = [a, b]) (hm : qs.length = 2) (hn : qs.Nodup)
    (hr : ∀ q ∈ qs, q < N) (hab : a ≠ b) (ha : a < N) (hb : b < N) :
    tgL N qs 2 hm hn hr = Tg.pair ⟨a, ha⟩ ⟨b, hb⟩ (fun e => hab (congrArg Fin.val e)) := by
  subst hq
  unfold tgL Tg.pair
  congr 1
  funext i
  fin_cases i <;> rfl

/-- a two-qubit library gate of the IR on distinct in-range qubits -/
theorem semD_two (g : Gate) {a b : ℕ} (hq : g.qubits = [a, b]) (hab : a ≠ b) (ha : a < N) (hb : b < N)
    (U : Matrix (St 2) (St 2) ℂ) (hc : compactC g.name (g.arg.eval ρ) = some ⟨2, U⟩) :
    semD N ρ g = some ((Tg.pair ⟨a, ha⟩ ⟨b, hb⟩ (fun e => hab (congrArg Fin.val e))).embed U) := by
  have hm : g.qubits.length = 2 := by rw [hq]; rfl
  have hn : g.qubits.Nodup := by rw [hq]; simp [hab]
  have hr : ∀ q ∈ g.qubits, q < N := by
    rw [hq]; intro q hq'; simp at hq'; rcases hq' with rfl | rfl <;> assumption
  rw [semD_of N ρ g 2 U hc hm hn hr, tgL_pair N g.qubits hq hm hn hr hab ha hb]

/-- the exact compact matrix of a handled name, in the IR and in C07's interpretation -/
theorem compactC_handled (α : ℕ → ℝ) (nm : Route.GName) (hh : nm.isCtl = true ∨ nm.isSwp = true)
    (hna : nm ≠ .SWAPalpha) (arg : ℕ) (θ : ℝ) :
    compactC (decName cx nm) θ = some ⟨2, Route.cmp2 α nm arg⟩ := by
  cases nm <;> first
    | rfl
    | exact absurd rfl hna
    | (rcases hh with h | h <;> cases h)

/-- **a handled router gate in library shape denotes C07's matrix** -/
theorem semD_handled (r : Route.Gate) (hh : Route.Handled r) (hna : r.name ≠ .SWAPalpha)
    (hc : r.controls.length = Route.nCtl r.name) {a b : ℕ} (hq : r.qubits = [a, b]) (hab : a ≠ b)
    (ha : a < N) (hb : b < N) (h : Gate) (hname : h.name = decName cx r.name) (hqs : h.qubits = [a, b]) :
    semD N ρ h = some (interpT N ρ cx r) := by
  have hI : interpT N ρ cx r = Route.place2 N a b (Route.cmp2 (alphaOf ρ cx) r.name r.arg) := by
    simp only [interpT, Route.interpC, if_pos hh]
    exact Route.interpH_two _ hc hq
  rw [hI, Route.place2_ok hab ha hb]
  exact semD_two N ρ h hqs hab ha hb _ (by rw [hname]; exact compactC_handled cx _ r.name hh hna r.arg _)

theorem interpT_unhandled (r : Route.Gate) (hh : ¬ Route.Handled r) {M : Matrix (St N) (St N) ℂ}
    (hM : semD N ρ (ofRoute cx r) = some M) : interpT N ρ cx r = M := by
  simp only [interpT, Route.interpC, if_neg hh, othOf, hM, Option.getD_some]

/-! ## lists -/

theorem denG_of_interp (l : List Route.Gate)
    (h : ∀ r ∈ l, semD N ρ (ofRoute cx r) = some (interpT N ρ cx r)) :
    denG N ρ (l.map (ofRoute cx)) = some (Route.den (interpT N ρ cx) l) := by
  induction l with
  | nil => exact denG_nil N ρ
  | cons r l ih =>
    rw [List.map_cons, Route.den]
    exact denG_cons_some N ρ _ _ _ _ (h r (List.mem_cons_self ..))
      (ih (fun x hx => h x (List.mem_cons_of_mem _ hx)))

theorem denG_of_interp_in (gs : List Gate)
    (h : ∀ g ∈ gs, semD N ρ g = some (interpT N ρ cx (toRoute cx g))) :
    denG N ρ gs = some (Route.den (interpT N ρ cx) (gs.map (toRoute cx))) := by
  induction gs with
  | nil => exact denG_nil N ρ
  | cons g gs ih =>
    rw [List.map_cons, Route.den]
    exact denG_cons_some N ρ _ _ _ _ (h g (List.mem_cons_self ..))
      (ih (fun x hx => h x (List.mem_cons_of_mem _ hx)))

theorem denG_some_all {gs : List Gate} {U : Matrix (St N) (St N) ℂ} (h : denG N ρ gs = some U) :
    ∀ g ∈ gs, ∃ M, semD N ρ g = some M := by
  induction gs generalizing U with
  | nil => intro g hg; cases hg
  | cons x xs ih =>
    obtain ⟨A, R, hA, hR, _⟩ := denG_cons_inv N ρ x xs U h
    intro g hg
    rcases List.mem_cons.mp hg with rfl | hg
    · exact ⟨A, hA⟩
    · exact ih hR g hg

/-! ## input and output gates of the routing stage -/

theorem isCtl_or_isSwp_of_handledName {n : GName} (hh : handledName n = true) :
    (encName cx n).isCtl = true ∨ (encName cx n).isSwp = true := by
  revert hh; cases n <;> simp [handledName, encName, Route.GName.isCtl, Route.GName.isSwp]

theorem semD_name_ne_swapalpha {g : Gate} {M : Matrix (St N) (St N) ℂ} (h : semD N ρ g = some M) :
    g.name ≠ .SWAPalpha := by
  intro hn
  obtain ⟨m, U, _, _, _, hc, _⟩ := semD_inv N ρ g M h
  rw [hn] at hc
  cases hc

theorem encName_swapalpha {n : GName} (h : encName cx n = .SWAPalpha) : n = .SWAPalpha := by
  revert h; cases n <;> simp [encName]

/-- an input gate (shaped, with a denotation) denotes the interpretation of its converted form -/
theorem semD_input {g : Gate} (hsh : shapedB N g = true) {M : Matrix (St N) (St N) ℂ}
    (hM : semD N ρ g = some M) (hn : g.name ∈ cx.names) (ha : g.arg ∈ cx.angs) :
    semD N ρ g = some (interpT N ρ cx (toRoute cx g)) := by
  by_cases hh : handledName g.name = true
  · have hH : Route.Handled (toRoute cx g) := (handled_toRoute cx g).mpr hh
    have hna : (toRoute cx g).name ≠ .SWAPalpha := fun e =>
      semD_name_ne_swapalpha N ρ hM (encName_swapalpha cx e)
    have hdec : g.name = decName cx (toRoute cx g).name := (decName_encName cx g.name (Or.inl hh)).symm
    by_cases hc : g.name = .CNOT ∨ g.name = .CSIGN
    · obtain ⟨c, t, hC, hT, hct, hc', ht⟩ := shaped_ctl hsh hc
      have hnm : (toRoute cx g).name.isCtl = true := by
        rw [show (toRoute cx g).name = encName cx g.name from rfl, isCtl_encName]; simpa using hc
      exact semD_handled N ρ cx (toRoute cx g) hH hna
        (by show g.controls.length = Route.nCtl (toRoute cx g).name; rw [Route.nCtl, if_pos hnm, hC]; rfl)
        (a := c) (b := t) (by simp [Route.Gate.qubits, toRoute, hC, hT]) hct hc' ht g hdec
        (by simp [Gate.qubits, hC, hT])
    · obtain ⟨t0, t1, hC, hT, h01, h0, h1⟩ := shaped_swp hsh hh hc
      have hnc : (toRoute cx g).name.isCtl = false := by
        rw [show (toRoute cx g).name = encName cx g.name from rfl, isCtl_encName]
        simp only [Bool.or_eq_false_iff, beq_eq_false_iff_ne]
        exact ⟨fun h => hc (Or.inl h), fun h => hc (Or.inr h)⟩
      exact semD_handled N ρ cx (toRoute cx g) hH hna
        (by show g.controls.length = Route.nCtl (toRoute cx g).name; rw [Route.nCtl, hnc, hC]; rfl)
        (a := t0) (b := t1) (by simp [Route.Gate.qubits, toRoute, hC, hT]) h01 h0 h1 g hdec
        (by simp [Gate.qubits, hC, hT])
  · have hnh : ¬ Route.Handled (toRoute cx g) := fun hc => hh ((handled_toRoute _ g).mp hc)
    have hrt := ofRoute_toRoute cx g (by simpa using hh) hn ha
    rw [interpT_unhandled N ρ cx _ hnh (by rw [hrt]; exact hM)]
    exact hM

/-- every gate the router emits for a handled, shaped gate with a denotation denotes its interpretation -/
theorem semD_routed (setup : Route.Setup) (hs : setup = .linear ∨ setup = .circular) {g : Gate}
    (hsh : shapedB N g = true) (hh : handledName g.name = true) {M : Matrix (St N) (St N) ℂ}
    (hM : semD N ρ g = some M) (a : List Route.Gate)
    (hr : Route.routeGate N setup (toRoute cx g) = .ok a) :
    ∀ r ∈ a, semD N ρ (ofRoute cx r) = some (interpT N ρ cx r) := by
  have hna : (toRoute cx g).name ≠ .SWAPalpha := fun e =>
    semD_name_ne_swapalpha N ρ hM (encName_swapalpha cx e)
  have hswap : ∀ i j, i < N → j < N → i ≠ j →
      semD N ρ (ofRoute cx (Route.swapG i j)) = some (interpT N ρ cx (Route.swapG i j)) := by
    intro i j hi hj hij
    exact semD_handled N ρ cx (Route.swapG i j) (Or.inr rfl) (by simp [Route.swapG]) rfl (a := i) (b := j) rfl hij hi hj _ rfl rfl
  by_cases hn : g.name = .CNOT ∨ g.name = .CSIGN
  · obtain ⟨c, t, hC, hT, hct, hc, ht⟩ := shaped_ctl hsh hn
    have hnm : (toRoute cx g).name.isCtl = true := by
      rw [show (toRoute cx g).name = encName cx g.name from rfl, isCtl_encName]; simpa using hn
    obtain ⟨out, S, h1, h2⟩ := Route.routeCtl_spec N setup hs (toRoute cx g) c t hnm hC hT hct hc ht
    rw [Route.routeGate_ctl hnm hC hT, h1] at hr
    cases hr
    have hS := fun p hp => (⟨(h2.swaps_ok p hp).1, (h2.swaps_ok p hp).2.1⟩ : p.1 < N ∧ p.2 < N)
    rw [h2.out_eq]
    intro r hm
    rcases mem_routed hm with rfl | ⟨p, hp, rfl⟩
    · exact semD_handled N ρ cx ⟨(toRoute cx g).name, [Route.track S c], [Route.track S t], 0, 0⟩
        (Or.inl hnm) hna (by show [Route.track S c].length = Route.nCtl (toRoute cx g).name; rw [Route.nCtl, if_pos hnm]; rfl)
        (a := Route.track S c) (b := Route.track S t) rfl (fun h => hct (Route.track_inj h))
        (Route.track_lt hS hc) (Route.track_lt hS ht) _ rfl rfl
    · exact hswap p.1 p.2 (h2.swaps_ok p hp).1 (h2.swaps_ok p hp).2.1 (h2.swaps_ok p hp).2.2.1
  · obtain ⟨t0, t1, hC, hT, h01, h0, h1'⟩ := shaped_swp hsh hh hn
    have hnm : (toRoute cx g).name.isSwp = true := by
      rw [show (toRoute cx g).name = encName cx g.name from rfl, isSwp_encName, hh]
      simp only [Bool.true_and, Bool.not_eq_true', Bool.or_eq_false_iff, beq_eq_false_iff_ne]
      exact ⟨fun h => hn (Or.inl h), fun h => hn (Or.inr h)⟩
    obtain ⟨S, p, q, h2, h3⟩ := Route.routeSwp_spec N setup hs (toRoute cx g) t0 t1 h01 h0 h1'
    rw [Route.routeGate_swp hnm hT] at hr
    cases hr
    have hS := fun p hp => (⟨(h2.swaps_ok p hp).1, (h2.swaps_ok p hp).2.1⟩ : p.1 < N ∧ p.2 < N)
    have hpq : p ≠ q ∧ p < N ∧ q < N := by
      rcases h3 with ⟨rfl, rfl⟩ | ⟨rfl, rfl⟩
      · exact ⟨fun h => h01 (Route.track_inj h), Route.track_lt hS h0, Route.track_lt hS h1'⟩
      · exact ⟨fun h => h01 (Route.track_inj h).symm, Route.track_lt hS h1', Route.track_lt hS h0⟩
    rw [h2.out_eq]
    intro r hm
    rcases mem_routed hm with rfl | ⟨p', hp, rfl⟩
    · exact semD_handled N ρ cx ⟨(toRoute cx g).name, [], [p, q], (toRoute cx g).arg, 0⟩ (Or.inr hnm) hna
        (by show ([] : List ℕ).length = Route.nCtl (toRoute cx g).name
            rw [Route.nCtl, Route.isCtl_false_of_isSwp hnm]; rfl)
        (a := p) (b := q) rfl hpq.1 hpq.2.1 hpq.2.2 _ rfl rfl
    · exact hswap p'.1 p'.2 (h2.swaps_ok p' hp).1 (h2.swaps_ok p' hp).2.1 (h2.swaps_ok p' hp).2.2.1

theorem plain_toRoute (g : Gate) : Route.Plain (toRoute cx g) := by
  refine ⟨rfl, fun hc => ?_⟩
  rw [show (toRoute cx g).name = encName cx g.name from rfl, isCtl_encName] at hc
  have : g.name = .CNOT ∨ g.name = .CSIGN := by simpa using hc
  simp [toRoute, this]

/-- **the routing stage preserves the denotation** — `RouteStageDen` holds, for every register
size and every valuation of the symbolic angles -/
theorem routeStageDen : RouteStageDen N ρ := by
  intro s gs out hs hsh ho U hU
  obtain ⟨out', ho', rfl⟩ := routeStage_ok ho
  have hall := denG_some_all N ρ hU
  -- the input circuit, interpreted
  have hin : ∀ g ∈ gs, semD N ρ g = some (interpT N ρ (ctxOf gs) (toRoute (ctxOf gs) g)) := by
    intro g hg
    obtain ⟨M, hM⟩ := hall g hg
    exact semD_input N ρ _ (hsh g hg) hM (mem_ctx hg).1 (mem_ctx hg).2
  have hUin := denG_of_interp_in N ρ (ctxOf gs) gs hin
  rw [hU] at hUin
  -- C07 over ℂ
  have hw : ∀ r ∈ gs.map (toRoute (ctxOf gs)), Route.WellFormed N r := by
    intro r hr
    obtain ⟨g, hg, rfl⟩ := List.mem_map.mp hr
    exact wellFormed_toRoute _ N g (hsh g hg)
  have hp : ∀ r ∈ gs.map (toRoute (ctxOf gs)), Route.Handled r → Route.Plain r := by
    intro r hr _
    obtain ⟨g, _, rfl⟩ := List.mem_map.mp hr
    exact plain_toRoute _ g
  have hden := Route.toChain_den_C (alphaOf ρ (ctxOf gs)) (othOf N ρ (ctxOf gs)) s hs _ hw hp out' ho'
  -- the output circuit, interpreted
  have hout : ∀ r ∈ out', semD N ρ (ofRoute (ctxOf gs) r) = some (interpT N ρ (ctxOf gs) r) := by
    intro r hr
    obtain ⟨g', hg', a, ha, hra⟩ := Route.toChain_mem ho' hr
    obtain ⟨g, hg, rfl⟩ := List.mem_map.mp hg'
    obtain ⟨M, hM⟩ := hall g hg
    by_cases hh : handledName g.name = true
    · exact semD_routed N ρ _ s hs (hsh g hg) hh hM a ha r hra
    · have hnh : ¬ Route.Handled (toRoute (ctxOf gs) g) := fun hc => hh ((handled_toRoute _ g).mp hc)
      rw [Route.routeGate_other hnh] at ha
      cases ha
      rw [List.mem_singleton.mp hra]
      have hrt := ofRoute_toRoute (ctxOf gs) g (by simpa using hh) (mem_ctx hg).1 (mem_ctx hg).2
      rw [hrt, interpT_unhandled N ρ _ _ hnh (by rw [hrt]; exact hM)]
      exact hM
  rw [denG_of_interp N ρ (ctxOf gs) out' hout]
  show some (Route.den (interpT N ρ (ctxOf gs)) out') = some U
  rw [show interpT N ρ (ctxOf gs) = Route.interpC N (alphaOf ρ (ctxOf gs)) (othOf N ρ (ctxOf gs)) from rfl, hden]
  exact hUin.symm

end QipVerif.Transpile
