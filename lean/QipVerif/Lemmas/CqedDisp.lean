import QipVerif.Lemmas.CqedExp
/-!
# C18: the dispersive (second-order) effective Hamiltonian of the cavity-mediated exchange, and its propagator

Two qubits are held at the σz-coefficients `d1 d2` and coupled with the strengths `g1 g2` to a resonator that
starts (and, to this order, stays) in its ground state:
`H/2π = d1 Z1 + d2 Z2 + g1 (a† σ1⁻ + a σ1⁺) + g2 (a† σ2⁻ + a σ2⁺)`   (the control Hamiltonians of `CavityQEDModel`,
`σ⁻ = |0⟩⟨1|`).  Eliminating the resonator to second order in `g/d` (Schrieffer–Wolff) gives `dispH` below: the
detunings, the Stark shift `−g²/(2d)` of each excited qubit and the exchange term `−(J/2)(σ1⁺σ2⁻ + h.c.)` with
`J = g1 g2 (1/d1 + 1/d2)/2` — the quantity `_swap_compiler` computes.  **This effective model is a definition here
(not derived in Lean); its agreement with the full dynamics is measured numerically by the check.**

Proved: for a uniform pair (`d1 = d2`, `g1 = g2`) the propagator of `dispH` in closed form (`prop_dispH_uniform`),
from the power series of the matrix exponential.
-/
namespace QipVerif.DevExp
open Matrix Complex QipVerif.Gen QipVerif.GateKron

abbrev M4 := Matrix (Fin 4) (Fin 4) ℂ

/-- σz on the first / second qubit, σx⊗σx, σy⊗σy, the excitation numbers `|1⟩⟨1|` -/
noncomputable def Z1 : M4 := !![1, 0, 0, 0; 0, 1, 0, 0; 0, 0, -1, 0; 0, 0, 0, -1]
noncomputable def Z2 : M4 := !![1, 0, 0, 0; 0, -1, 0, 0; 0, 0, 1, 0; 0, 0, 0, -1]
noncomputable def XX : M4 := !![0, 0, 0, 1; 0, 0, 1, 0; 0, 1, 0, 0; 1, 0, 0, 0]
noncomputable def YY : M4 := !![0, 0, 0, -1; 0, 0, 1, 0; 0, 1, 0, 0; -1, 0, 0, 0]
noncomputable def N1 : M4 := !![0, 0, 0, 0; 0, 0, 0, 0; 0, 0, 1, 0; 0, 0, 0, 1]
noncomputable def N2 : M4 := !![0, 0, 0, 0; 0, 1, 0, 0; 0, 0, 0, 0; 0, 0, 0, 1]

theorem Z1_eq : Z1 = kron2 G.z_gate_ 1 := by
  rw [kron2_eq]; ext i j; fin_cases i <;> fin_cases j <;> simp [Z1, G.z_gate_]
theorem Z2_eq : Z2 = kron2 1 G.z_gate_ := by
  rw [kron2_eq]; ext i j; fin_cases i <;> fin_cases j <;> simp [Z2, G.z_gate_]
theorem XX_eq : XX = kron2 G.x_gate_ G.x_gate_ := by
  rw [kron2_eq]; ext i j; fin_cases i <;> fin_cases j <;> simp [XX, G.x_gate_]
theorem YY_eq : YY = kron2 G.y_gate_ G.y_gate_ := by
  rw [kron2_eq]; ext i j; fin_cases i <;> fin_cases j <;> simp [YY, G.y_gate_]
theorem N1_eq : N1 = (1 / 2 : ℂ) • (1 - Z1) := by
  ext i j; fin_cases i <;> fin_cases j <;> simp [N1, Z1] <;> norm_num
theorem N2_eq : N2 = (1 / 2 : ℂ) • (1 - Z2) := by
  ext i j; fin_cases i <;> fin_cases j <;> simp [N2, Z2] <;> norm_num

theorem Z1_sq : Z1 * Z1 = 1 := by rw [Z1_eq, kron2_mul, z_sq, Matrix.one_mul, kron2_one]
theorem Z2_sq : Z2 * Z2 = 1 := by rw [Z2_eq, kron2_mul, z_sq, Matrix.one_mul, kron2_one]
theorem XX_sq : XX * XX = 1 := by rw [XX_eq, kron2_mul, x_sq, kron2_one]
theorem YY_sq : YY * YY = 1 := by rw [YY_eq, kron2_mul, y_sq, kron2_one]

/-- the dispersive effective Hamiltonian (divided by the common prefactor 2π of the control Hamiltonians) -/
noncomputable def dispH (d1 d2 g1 g2 : ℝ) : M4 :=
  ((d1 : ℝ) : ℂ) • Z1 + ((d2 : ℝ) : ℂ) • Z2 - (((g1 * g1 / (2 * d1) : ℝ)) : ℂ) • N1 - (((g2 * g2 / (2 * d2) : ℝ)) : ℂ) • N2
    - (((g1 * g2 * (1 / d1 + 1 / d2) / 4 : ℝ)) : ℂ) • ((1 / 2 : ℂ) • (XX + YY))

/-- uniform pair: `dispH = −s·1 + (d + s/2)(Z1 + Z2) − (s/2)(XX + YY)`, `s = g²/(2d)` -/
theorem dispH_uniform (d g : ℝ) (hd : d ≠ 0) :
    dispH d d g g = (((-(g * g / (2 * d)) : ℝ)) : ℂ) • (1 : M4) + ((((d + g * g / (2 * d) / 2 : ℝ)) : ℂ) • Z1
      + (((d + g * g / (2 * d) / 2 : ℝ)) : ℂ) • Z2) + ((((-(g * g / (2 * d) / 2) : ℝ)) : ℂ) • XX + (((-(g * g / (2 * d) / 2) : ℝ)) : ℂ) • YY) := by
  have hdc : (d : ℂ) ≠ 0 := by exact_mod_cast hd
  unfold dispH
  rw [N1_eq, N2_eq]
  ext i j
  fin_cases i <;> fin_cases j <;> simp [Z1, Z2, XX, YY] <;> field_simp <;> ring

/-! ## closed form of the propagator -/

/-- `e x = e^{ix}` -/
noncomputable def e (x : ℝ) : ℂ := Complex.exp (Complex.I * (x : ℂ))

theorem e_eq (x : ℝ) : e x = Complex.cos (x : ℂ) + Complex.I * Complex.sin (x : ℂ) := by
  unfold e; rw [mul_comm, Complex.exp_mul_I]; ring
theorem e_neg_eq (x : ℝ) : e (-x) = Complex.cos (x : ℂ) - Complex.I * Complex.sin (x : ℂ) := by
  rw [e_eq]; push_cast; rw [Complex.cos_neg, Complex.sin_neg]; ring
theorem e_add (x y : ℝ) : e (x + y) = e x * e y := by
  unfold e; rw [← Complex.exp_add]; congr 1; push_cast; ring
theorem e_zero : e 0 = 1 := by unfold e; simp
theorem e_add_int_two_pi (x : ℝ) (k : ℤ) : e (x + k * (2 * Real.pi)) = e x := by
  rw [e_add]
  have : e ((k : ℝ) * (2 * Real.pi)) = 1 := by
    unfold e
    rw [show Complex.I * (((k : ℝ) * (2 * Real.pi) : ℝ) : ℂ) = (k : ℂ) * (2 * (Real.pi : ℂ) * Complex.I) by push_cast; ring]
    exact Complex.exp_int_mul_two_pi_mul_I k
  rw [this, mul_one]

theorem one_sq4 : (1 : M4) * 1 = 1 := Matrix.one_mul 1

theorem propZ (b : ℝ) :
    (Complex.cos (b : ℂ) • (1 : M4) - (Complex.I * Complex.sin (b : ℂ)) • Z1)
      * (Complex.cos (b : ℂ) • (1 : M4) - (Complex.I * Complex.sin (b : ℂ)) • Z2)
    = !![e (-(2 * b)), 0, 0, 0; 0, 1, 0, 0; 0, 0, 1, 0; 0, 0, 0, e (2 * b)] := by
  have h1 : e (-(2 * b)) = (Complex.cos (b : ℂ) - Complex.I * Complex.sin (b : ℂ)) * (Complex.cos (b : ℂ) - Complex.I * Complex.sin (b : ℂ)) := by
    rw [show -(2 * b) = -b + -b by ring, e_add, e_neg_eq]
  have h2 : e (2 * b) = (Complex.cos (b : ℂ) + Complex.I * Complex.sin (b : ℂ)) * (Complex.cos (b : ℂ) + Complex.I * Complex.sin (b : ℂ)) := by
    rw [show 2 * b = b + b by ring, e_add, e_eq]
  have hp := Complex.cos_sq_add_sin_sq (b : ℂ)
  have hI : Complex.I * Complex.I = -1 := Complex.I_mul_I
  rw [h1, h2]
  ext i j
  fin_cases i <;> fin_cases j <;> simp [Z1, Z2, Matrix.mul_apply, Fin.sum_univ_four, Matrix.one_apply]
  all_goals first | ring1 | linear_combination hp - (Complex.sin (b : ℂ)) ^ 2 * hI

theorem propX (c : ℝ) :
    (Complex.cos (c : ℂ) • (1 : M4) - (Complex.I * Complex.sin (c : ℂ)) • XX)
      * (Complex.cos (c : ℂ) • (1 : M4) - (Complex.I * Complex.sin (c : ℂ)) • YY)
    = !![1, 0, 0, 0;
         0, Complex.cos ((2 * c : ℝ) : ℂ), -Complex.I * Complex.sin ((2 * c : ℝ) : ℂ), 0;
         0, -Complex.I * Complex.sin ((2 * c : ℝ) : ℂ), Complex.cos ((2 * c : ℝ) : ℂ), 0;
         0, 0, 0, 1] := by
  have hc : Complex.cos ((2 * c : ℝ) : ℂ) = Complex.cos (c : ℂ) ^ 2 - Complex.sin (c : ℂ) ^ 2 := by
    rw [show ((2 * c : ℝ) : ℂ) = 2 * (c : ℂ) by push_cast; ring, Complex.cos_two_mul]
    have := Complex.cos_sq_add_sin_sq (c : ℂ)
    linear_combination this
  have hs : Complex.sin ((2 * c : ℝ) : ℂ) = 2 * Complex.sin (c : ℂ) * Complex.cos (c : ℂ) := by
    rw [show ((2 * c : ℝ) : ℂ) = 2 * (c : ℂ) by push_cast; ring, Complex.sin_two_mul]
  have hp := Complex.cos_sq_add_sin_sq (c : ℂ)
  have hI : Complex.I * Complex.I = -1 := Complex.I_mul_I
  rw [hc, hs]
  ext i j
  fin_cases i <;> fin_cases j <;> simp [XX, YY, Matrix.mul_apply, Fin.sum_univ_four, Matrix.one_apply]
  all_goals first | ring1 | linear_combination hp - (Complex.sin (c : ℂ)) ^ 2 * hI | linear_combination (Complex.sin (c : ℂ)) ^ 2 * hI

theorem comm_one (a : ℂ) (B : M4) : Commute (a • (1 : M4)) B := (Commute.one_left B).smul_left a

theorem comm_Z1_Z2 (b b' : ℂ) : Commute (b • Z1) (b' • Z2) := by
  show b • Z1 * b' • Z2 = b' • Z2 * b • Z1
  ext i j
  fin_cases i <;> fin_cases j <;> simp [Z1, Z2, Matrix.mul_apply, Fin.sum_univ_four] <;> ring

theorem comm_XX_YY (c c' : ℂ) : Commute (c • XX) (c' • YY) := by
  show c • XX * c' • YY = c' • YY * c • XX
  ext i j
  fin_cases i <;> fin_cases j <;> simp [XX, YY, Matrix.mul_apply, Fin.sum_univ_four] <;> ring

/-- `Z1 + Z2` (the excitation number) commutes with the exchange term -/
theorem comm_Z_XY (b c : ℂ) : Commute (b • Z1 + b • Z2) (c • XX + c • YY) := by
  show (b • Z1 + b • Z2) * (c • XX + c • YY) = (c • XX + c • YY) * (b • Z1 + b • Z2)
  ext i j
  fin_cases i <;> fin_cases j <;> simp [Z1, Z2, XX, YY, Matrix.mul_apply, Fin.sum_univ_four]

/-- the propagator of `a·1 + b(Z1 + Z2) + c(XX + YY)`, from the power series -/
theorem prop_abc (a b c : ℝ) :
    prop (((a : ℂ) • (1 : M4) + ((b : ℂ) • Z1 + (b : ℂ) • Z2)) + ((c : ℂ) • XX + (c : ℂ) • YY))
    = !![e (-a) * e (-(2 * b)), 0, 0, 0;
         0, e (-a) * Complex.cos ((2 * c : ℝ) : ℂ), e (-a) * (-Complex.I * Complex.sin ((2 * c : ℝ) : ℂ)), 0;
         0, e (-a) * (-Complex.I * Complex.sin ((2 * c : ℝ) : ℂ)), e (-a) * Complex.cos ((2 * c : ℝ) : ℂ), 0;
         0, 0, 0, e (-a) * e (2 * b)] := by
  have hA : Commute ((a : ℂ) • (1 : M4) + ((b : ℂ) • Z1 + (b : ℂ) • Z2)) ((c : ℂ) • XX + (c : ℂ) • YY) :=
    (comm_one _ _).add_left (comm_Z_XY _ _)
  rw [prop_add_of_commute _ _ hA, prop_add_of_commute _ _ (comm_one _ _), prop_add_of_commute _ _ (comm_Z1_Z2 _ _),
    prop_add_of_commute _ _ (comm_XX_YY _ _), prop_invol _ one_sq4, prop_invol _ Z1_sq, prop_invol _ Z2_sq,
    prop_invol _ XX_sq, prop_invol _ YY_sq, propZ, propX,
    show (Complex.cos (a : ℂ) • (1 : M4) - (Complex.I * Complex.sin (a : ℂ)) • (1 : M4)) = e (-a) • (1 : M4) from by
      rw [e_neg_eq, sub_smul]]
  ext i j
  fin_cases i <;> fin_cases j <;> simp [Matrix.mul_apply, Fin.sum_univ_four]

/-- **propagator of the dispersive Hamiltonian of a uniform pair**, held for the time `t` (in units where the
common prefactor of the control Hamiltonians is absorbed in `t`), `s = g²/(2d)`:
`|00⟩ ↦ e^{−2itd}`, `|11⟩ ↦ e^{2itd}·e^{2its}`, and on `|01⟩, |10⟩` the rotation `e^{its}(cos ts + i sin ts · X)` -/
theorem prop_dispH_uniform (d g t : ℝ) (hd : d ≠ 0) :
    prop ((t : ℂ) • dispH d d g g)
    = !![e (-(2 * (t * d))), 0, 0, 0;
         0, e (t * (g * g / (2 * d))) * Complex.cos ((t * (g * g / (2 * d)) : ℝ) : ℂ),
            e (t * (g * g / (2 * d))) * (Complex.I * Complex.sin ((t * (g * g / (2 * d)) : ℝ) : ℂ)), 0;
         0, e (t * (g * g / (2 * d))) * (Complex.I * Complex.sin ((t * (g * g / (2 * d)) : ℝ) : ℂ)),
            e (t * (g * g / (2 * d))) * Complex.cos ((t * (g * g / (2 * d)) : ℝ) : ℂ), 0;
         0, 0, 0, e (2 * (t * d)) * e (2 * (t * (g * g / (2 * d))))] := by
  have hH : (t : ℂ) • dispH d d g g =
      (((-(t * (g * g / (2 * d))) : ℝ) : ℂ) • (1 : M4) + ((((t * (d + g * g / (2 * d) / 2)) : ℝ) : ℂ) • Z1
        + (((t * (d + g * g / (2 * d) / 2)) : ℝ) : ℂ) • Z2))
      + ((((-(t * (g * g / (2 * d)) / 2)) : ℝ) : ℂ) • XX + (((-(t * (g * g / (2 * d)) / 2)) : ℝ) : ℂ) • YY) := by
    rw [dispH_uniform d g hd]
    simp only [smul_add, smul_smul]
    push_cast
    ring_nf
  rw [hH, prop_abc]
  have h1 : e (-(-(t * (g * g / (2 * d))))) * e (-(2 * (t * (d + g * g / (2 * d) / 2)))) = e (-(2 * (t * d))) := by
    rw [← e_add]; congr 1; ring
  have h2 : e (-(-(t * (g * g / (2 * d))))) * e (2 * (t * (d + g * g / (2 * d) / 2)))
      = e (2 * (t * d)) * e (2 * (t * (g * g / (2 * d)))) := by
    rw [← e_add, ← e_add]; congr 1; ring
  have h3 : ((2 * (-(t * (g * g / (2 * d)) / 2)) : ℝ) : ℂ) = -((t * (g * g / (2 * d)) : ℝ) : ℂ) := by push_cast; ring
  rw [h1, h2, h3, Complex.cos_neg, Complex.sin_neg, neg_neg]
  ext i j
  fin_cases i <;> fin_cases j <;> simp

end QipVerif.DevExp
