import QipVerif.Lemmas.NoiseRat
import QipVerif.Lemmas.NoiseLindblad
/-! From the model's list of Lindblad operators to the generator they define (C15). -/
namespace QipVerif.Noise
open Matrix

/-- squared prefactor as a real number (`0` for the non-finite prefactors of non-positive list entries) -/
noncomputable def rateReal (c : COp) : ℝ :=
  match c.rate with
  | some r => r.toReal
  | none => 0

def opMat2 : OpKind → Matrix (Fin 2) (Fin 2) ℂ
  | .destroy => a2
  | .num => n2
  | .user _ => 0

def opMat3 (s : ℝ) : OpKind → Matrix (Fin 3) (Fin 3) ℂ
  | .destroy => a3 s
  | .num => n3
  | .user _ => 0

/-- the (Hamiltonian-free, idle) generator defined by the operators of one qubit:
`Σ rate · D[A]`, which is `Σ D[√rate · A]` by `dissipator_smul` -/
noncomputable def gen2 (ops : List COp) (ρ : Matrix (Fin 2) (Fin 2) ℂ) : Matrix (Fin 2) (Fin 2) ℂ :=
  generator 0 (ops.map fun c => (rateReal c, opMat2 c.kind)) ρ

noncomputable def gen3 (s : ℝ) (ops : List COp) (ρ : Matrix (Fin 3) (Fin 3) ℂ) :
    Matrix (Fin 3) (Fin 3) ℂ :=
  generator 0 (ops.map fun c => (rateReal c, opMat3 s c.kind)) ρ

theorem dissipator_zero {n : Type} [Fintype n] (ρ : Matrix n n ℂ) : dissipator 0 ρ = 0 := by
  simp [dissipator]

theorem gen2_pair (tg tg' : List Nat) (d d' : Nat) (r1 r2 : Frac) (ρ : Matrix (Fin 2) (Fin 2) ℂ) :
    gen2 [⟨tg, .destroy, d, some r1⟩, ⟨tg', .num, d', some r2⟩] ρ = relaxGen2 r1.toReal r2.toReal ρ := by
  simp [gen2, generator, relaxGen2, rateReal, opMat2]

theorem gen2_destroy (tg : List Nat) (d : Nat) (r1 : Frac) (ρ : Matrix (Fin 2) (Fin 2) ℂ) :
    gen2 [⟨tg, .destroy, d, some r1⟩] ρ = relaxGen2 r1.toReal 0 ρ := by
  simp [gen2, generator, relaxGen2, rateReal, opMat2]

theorem gen2_num (tg : List Nat) (d : Nat) (r2 : Frac) (ρ : Matrix (Fin 2) (Fin 2) ℂ) :
    gen2 [⟨tg, .num, d, some r2⟩] ρ = relaxGen2 0 r2.toReal ρ := by
  simp [gen2, generator, relaxGen2, rateReal, opMat2]

theorem gen3_pair (s : ℝ) (tg tg' : List Nat) (d d' : Nat) (r1 r2 : Frac) (ρ : Matrix (Fin 3) (Fin 3) ℂ) :
    gen3 s [⟨tg, .destroy, d, some r1⟩, ⟨tg', .num, d', some r2⟩] ρ = relaxGen3 s r1.toReal r2.toReal ρ := by
  simp [gen3, generator, relaxGen3, rateReal, opMat3]

theorem gen3_destroy (s : ℝ) (tg : List Nat) (d : Nat) (r1 : Frac) (ρ : Matrix (Fin 3) (Fin 3) ℂ) :
    gen3 s [⟨tg, .destroy, d, some r1⟩] ρ = relaxGen3 s r1.toReal 0 ρ := by
  simp [gen3, generator, relaxGen3, rateReal, opMat3]

theorem gen3_num (s : ℝ) (tg : List Nat) (d : Nat) (r2 : Frac) (ρ : Matrix (Fin 3) (Fin 3) ℂ) :
    gen3 s [⟨tg, .num, d, some r2⟩] ρ = relaxGen3 s 0 r2.toReal ρ := by
  simp [gen3, generator, relaxGen3, rateReal, opMat3]

/-- **Core lemma.** For positive `t1 = a`, `t2 = b ≤ 2a` the (repaired) code accepts, and the
operators it adds define the generator with `γ1 = 1/t1`, `γφ = 2(1/t2 − 1/(2 t1))` — including
the boundary, where no dephasing operator is added and `γφ = 0`. -/
theorem qubitOps_gen (dim q : Nat) (a b : Frac) (ha : a.Pos) (hb : b.Pos)
    (hle : b.toReal ≤ 2 * a.toReal) :
    ∃ ops, qubitOps true dim q (some a) (some b) = .ok ops ∧
      (∀ ρ, gen2 ops ρ = relaxGen2 (1 / a.toReal) (2 * (1 / b.toReal - 1 / (2 * a.toReal))) ρ) ∧
      (∀ s ρ, gen3 s ops ρ = relaxGen3 s (1 / a.toReal) (2 * (1 / b.toReal - 1 / (2 * a.toReal))) ρ) := by
  obtain ⟨hs1, hs2, hs3⟩ := delta_sign a b ha hb
  rcases Int.lt_trichotomy (delta a b) 0 with h | h | h
  · have := hs1.mp h; linarith
  · have hb2 := hs2.mp h
    have hz : 2 * (1 / b.toReal - 1 / (2 * a.toReal)) = 0 := by rw [hb2]; ring
    refine ⟨_, by rw [qubitOps_eq true dim q a b ha.1 hb.1 h]; rfl, fun ρ => ?_, fun s ρ => ?_⟩
    · rw [gen2_destroy, rate1_toReal a ha, hz]
    · rw [gen3_destroy, rate1_toReal a ha, hz]
  · refine ⟨_, qubitOps_gt true dim q a b ha.1 hb.1 h, fun ρ => ?_, fun s ρ => ?_⟩
    · rw [gen2_pair, rate1_toReal a ha, ratePhi_toReal a b ha hb]
    · rw [gen3_pair, rate1_toReal a ha, ratePhi_toReal a b ha hb]

theorem half_rates (t1 t2 : ℝ) (h1 : t1 ≠ 0) (h2 : t2 ≠ 0) :
    (1 / t1) / 2 + (2 * (1 / t2 - 1 / (2 * t1))) / 2 = 1 / t2 := by
  field_simp
  ring

set_option linter.unnecessarySeqFocus false in
/-- no exception of the loop body is the `_T_to_list` exception -/
theorem qubitOps_ne_invalidT (fixed : Bool) (dim q : Nat) (t1 t2 : Option Frac) :
    qubitOps fixed dim q t1 t2 ≠ .error .invalidT := by
  unfold qubitOps
  cases t1 <;> cases t2 <;> simp <;> (repeat' split) <;> simp

theorem loopTargets_ne_invalidT (fixed : Bool) (dims : List Nat) (l1 l2 : List (Option Frac))
    (tg : List Nat) : loopTargets fixed dims l1 l2 tg ≠ .error .invalidT := by
  induction tg with
  | nil => simp [loopTargets]
  | cons q qs ih =>
    unfold loopTargets
    split
    · rename_i a b d _ _ _
      have := qubitOps_ne_invalidT fixed d q a b
      split
      · rename_i e he; intro h; injection h with h; subst h; exact this he
      · split
        · rename_i e he; intro h; injection h with h; subst h; exact ih he
        · simp
    · simp

end QipVerif.Noise
