import QipVerif.Lemmas.EmbedAlg
import QipVerif.Lemmas.Den
/-!
# C01 — the contraction prescribed by the einsum index lists is the embedded operator

For a placement `t : Tg k N`, a `k`-qubit matrix `U` and a state `ψ : St N → ℂ`, the state-vector
step computes `ψ'(x) = Σ_b U (x ∘ t) b · ψ (x with the t-digits replaced by b)`.  This file proves
that this is `(t.embed U).mulVec ψ` (and `t.embed U * M` column by column for operator-valued states).
-/
namespace QipVerif
open Matrix
variable {k N : ℕ}

namespace Tg
variable (t : Tg k N)

theorem split_fst (z : St N) : (t.split z).1 = z ∘ t.f := by
  funext j
  simp [split, Equiv.piCongrLeft', Equiv.piEquivPiSubtypeProd, Equiv.ofInjective]

theorem split_snd_eq_iff (z w : St N) :
    ((t.split z).2 = (t.split w).2) ↔ ∀ i, i ∉ Set.range t.f → z i = w i := by
  simp [split, Equiv.piEquivPiSubtypeProd, funext_iff]

theorem embed_apply_split (U : Matrix (St k) (St k) ℂ) (x y : St N) :
    t.embed U x y = U (t.split x).1 (t.split y).1 * (if (t.split x).2 = (t.split y).2 then 1 else 0) := by
  unfold embed
  simp only [Matrix.reindex_apply, Matrix.submatrix_apply, Equiv.symm_symm, kroneckerMap_apply, Matrix.one_apply]

/-- `x` with the digits at the placed qubits replaced by `b` -/
noncomputable def update (x : St N) (b : St k) : St N := t.split.symm (b, (t.split x).2)

theorem update_comp (x : St N) (b : St k) : (t.update x b) ∘ t.f = b := by
  rw [← split_fst]; simp [update]

theorem update_apply_f (x : St N) (b : St k) (j : Fin k) : t.update x b (t.f j) = b j :=
  congrFun (t.update_comp x b) j

theorem update_rest (x : St N) (b : St k) (i : Fin N) (hi : i ∉ Set.range t.f) : t.update x b i = x i := by
  have : (t.split (t.update x b)).2 = (t.split x).2 := by simp [update]
  exact (t.split_snd_eq_iff _ _).mp this i hi

/-- **The state-vector step is the embedded operator.** -/
theorem mulVec_embed (U : Matrix (St k) (St k) ℂ) (ψ : St N → ℂ) (x : St N) :
    (t.embed U).mulVec ψ x = ∑ b : St k, U (x ∘ t.f) b * ψ (t.update x b) := by
  simp only [Matrix.mulVec, dotProduct]
  rw [← Equiv.sum_comp t.split.symm, Fintype.sum_prod_type]
  apply Finset.sum_congr rfl
  intro b _
  rw [Finset.sum_eq_single (t.split x).2]
  · simp [embed_apply_split, update, split_fst]
  · intro r _ hr
    simp [embed_apply_split, Ne.symm hr]
  · intro h; exact absurd (Finset.mem_univ _) h

/-- operator-valued state (the extra axis `c` is carried along) -/
theorem mul_embed_apply {ι : Type*} (U : Matrix (St k) (St k) ℂ) (M : Matrix (St N) ι ℂ) (x : St N) (c : ι) :
    (t.embed U * M) x c = ∑ b : St k, U (x ∘ t.f) b * M (t.update x b) c := by
  have := t.mulVec_embed U (fun y => M y c) x
  simpa [Matrix.mul_apply, Matrix.mulVec, dotProduct] using this

end Tg
end QipVerif
