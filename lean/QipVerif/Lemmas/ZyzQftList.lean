import QipVerif.Model.Qft

/-!
# C17 — list-level facts about the QFT model (no Mathlib)

* the circuit's gate list is the concatenation of the gate lists of the steps, for every `N` and
  both flags;
* number of gates; every qubit index is `< N`; control ≠ target.
-/
namespace QipVerif.Qft

theorem inner_eq_steps (cn : Bool) (i m : Nat) :
    inner cn i m = (stepsInner i m).flatMap (Step.gates cn) := by
  induction m with
  | zero => rfl
  | succ m ih => simp [inner, stepsInner, List.flatMap_append, Step.gates, ih]

theorem outer_eq_steps (cn : Bool) (m : Nat) :
    outer cn m = (stepsOuter m).flatMap (Step.gates cn) := by
  induction m with
  | zero => rfl
  | succ m ih => simp [outer, stepsOuter, List.flatMap_append, Step.gates, ih, inner_eq_steps]

theorem swaps_eq_steps (cn : Bool) (N m : Nat) :
    swaps N m = (stepsSwaps N m).flatMap (Step.gates cn) := by
  induction m with
  | zero => rfl
  | succ m ih => simp [swaps, stepsSwaps, List.flatMap_append, Step.gates, ih]

theorem gateSequence_eq_steps (N : Nat) (sw cn : Bool) :
    gateSequence N sw cn = (qftSteps N sw).map (fun ss => ss.flatMap (Step.gates cn)) := by
  unfold gateSequence qftSteps
  by_cases h0 : N < 1
  · simp [h0]
  · by_cases h1 : N = 1
    · simp [h1, Step.gates]
    · cases sw <;>
        simp [h0, h1, List.flatMap_append, outer_eq_steps cn, swaps_eq_steps cn]

/-! ## counting -/

/-- number of pairs `j < i < m` -/
def tri : Nat → Nat
  | 0 => 0
  | m + 1 => tri m + m

theorem two_tri (m : Nat) : 2 * tri (m + 1) = (m + 1) * m := by
  induction m with
  | zero => rfl
  | succ m ih =>
    show 2 * (tri (m + 1) + (m + 1)) = (m + 1 + 1) * (m + 1)
    rw [Nat.mul_add, ih, Nat.mul_comm (m + 1 + 1), show m + 1 + 1 = m + 2 from rfl, Nat.mul_add (m + 1) m 2]
    omega

/-- gates per controlled phase -/
def perCphase (cn : Bool) : Nat := if cn then 6 else 1

theorem cphaseGates_length (cn : Bool) (i j k : Nat) : (cphaseGates cn i j k).length = perCphase cn := by
  cases cn <;> rfl

theorem inner_length (cn : Bool) (i m : Nat) : (inner cn i m).length = perCphase cn * m := by
  induction m with
  | zero => rfl
  | succ m ih => simp [inner, ih, cphaseGates_length, Nat.mul_add]

theorem outer_length (cn : Bool) (m : Nat) : (outer cn m).length = perCphase cn * tri m + m := by
  induction m with
  | zero => rfl
  | succ m ih =>
    simp only [outer, List.length_append, ih, inner_length, tri, Nat.mul_add, List.length_singleton]
    omega

theorem swaps_length (N m : Nat) : (swaps N m).length = m := by
  induction m with
  | zero => rfl
  | succ m ih => simp [swaps, ih]

theorem gateSequence_length (N : Nat) (sw cn : Bool) (gs : List Gate)
    (h : gateSequence N sw cn = some gs) :
    gs.length = perCphase cn * tri N + N + (if sw then N / 2 else 0) := by
  unfold gateSequence at h
  by_cases h0 : N < 1
  · simp [h0] at h
  · by_cases h1 : N = 1
    · subst h1; simp at h; subst h; cases sw <;> simp [tri]
    · simp [h0, h1] at h; subst h
      cases sw <;> simp [outer_length, swaps_length]

/-! ## indices -/

theorem cphaseGates_qubits (cn : Bool) (i j k : Nat) :
    ∀ g ∈ cphaseGates cn i j k, ∀ q ∈ g.qubits, q = i ∨ q = j := by
  intro g hg q hq
  cases cn <;>
    simp [cphaseGates, cphaseToCnot, cphase] at hg
  · subst hg; simp [Gate.qubits] at hq; omega
  · rcases hg with hg | hg | hg | hg | hg | hg <;> subst hg <;> simp [Gate.qubits] at hq <;> omega

theorem inner_qubits (cn : Bool) (i m : Nat) :
    ∀ g ∈ inner cn i m, ∀ q ∈ g.qubits, q = i ∨ q < m := by
  induction m with
  | zero => intro g hg; simp [inner] at hg
  | succ m ih =>
    intro g hg q hq
    simp only [inner, List.mem_append] at hg
    rcases hg with hg | hg
    · have := ih g hg q hq; omega
    · have := cphaseGates_qubits cn i m (i - m) g hg q hq; omega

theorem outer_qubits (cn : Bool) (m : Nat) : ∀ g ∈ outer cn m, ∀ q ∈ g.qubits, q < m := by
  induction m with
  | zero => intro g hg; simp [outer] at hg
  | succ m ih =>
    intro g hg q hq
    simp only [outer, List.mem_append, List.mem_singleton] at hg
    rcases hg with hg | hg | hg
    · have := ih g hg q hq; omega
    · have := inner_qubits cn m m g hg q hq; omega
    · subst hg; simp [snot, Gate.qubits] at hq; omega

theorem swaps_qubits (N m : Nat) (hm : m ≤ N / 2) :
    ∀ g ∈ swaps N m, ∀ q ∈ g.qubits, q < N := by
  induction m with
  | zero => intro g hg; simp [swaps] at hg
  | succ m ih =>
    intro g hg q hq
    simp only [swaps, List.mem_append, List.mem_singleton] at hg
    rcases hg with hg | hg
    · exact ih (by omega) g hg q hq
    · subst hg; simp [swap, Gate.qubits] at hq; omega

theorem gateSequence_qubits (N : Nat) (sw cn : Bool) (gs : List Gate)
    (h : gateSequence N sw cn = some gs) : ∀ g ∈ gs, ∀ q ∈ g.qubits, q < N := by
  unfold gateSequence at h
  by_cases h0 : N < 1
  · simp [h0] at h
  · by_cases h1 : N = 1
    · subst h1; simp at h; subst h
      intro g hg q hq; simp at hg; subst hg; simp [snot, Gate.qubits] at hq; omega
    · simp [h0, h1] at h; subst h
      intro g hg q hq
      rw [List.mem_append] at hg
      rcases hg with hg | hg
      · exact outer_qubits cn N g hg q hq
      · cases sw
        · simp at hg
        · exact swaps_qubits N (N / 2) (Nat.le_refl _) g (by simpa using hg) q hq

/-- in every controlled gate of the circuit the control differs from the target (`j < i`) -/
theorem inner_control_ne_target (cn : Bool) (i m : Nat) (hm : m ≤ i) :
    ∀ g ∈ inner cn i m, ∀ c ∈ g.controls, ∀ t ∈ g.targets, g.kind ≠ .GLOBALPHASE → c ≠ t := by
  induction m with
  | zero => intro g hg; simp [inner] at hg
  | succ m ih =>
    intro g hg c hc t ht hk
    simp only [inner, List.mem_append] at hg
    rcases hg with hg | hg
    · exact ih (by omega) g hg c hc t ht hk
    · cases cn <;> simp [cphaseGates, cphaseToCnot, cphase] at hg
      · subst hg; simp at hc ht; omega
      · rcases hg with hg | hg | hg | hg | hg | hg <;> subst hg <;> simp at hc ht <;> omega

end QipVerif.Qft
