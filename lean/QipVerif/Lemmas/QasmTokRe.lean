import QipVerif.Lemmas.QasmTokBasic
/-!
# The regular-expression matchers of the tokenizer model (C04)

What the four patterns of `_tokenize_line` return on texts of a known shape:

* `reCall_eq`    — `(^.*?)\((.*)\)(.*)`: first `(`, LAST `)`;
* `reIfPlain_eq` — `\s*if\s*\((.*)\)(.*)`: LAST `)`;
* `reIfArgs_eq`  — `\s*if\s*\((.*?)\)\s*(.*?)\s+\((.*)\)(.*)`: FIRST `)`, then the shortest text up to
  blanks followed by `(`, then the LAST `)`;
* `reIfArgs_none` — the pattern fails when there is no second `(`.
-/
namespace QipVerif.Qasm.Tok
open QipVerif.Qasm

/-- no line break -/
def noNl (s : Str) : Prop := ∀ c ∈ s, c ≠ '\n'

theorem noNl_append {a b : Str} : noNl (a ++ b) ↔ noNl a ∧ noNl b := by
  simp only [noNl, List.mem_append]
  exact ⟨fun h => ⟨fun c hc => h c (Or.inl hc), fun c hc => h c (Or.inr hc)⟩,
    fun h c hc => hc.elim (h.1 c) (h.2 c)⟩

theorem noNl_cons {c : Char} {s : Str} : noNl (c :: s) ↔ c ≠ '\n' ∧ noNl s := by
  simp [noNl]

/-! ## combinators -/

@[simp] theorem lit_cons_self {α} (c : Char) (k : Str → Option α) (t : Str) : lit c k (c :: t) = k t := by
  simp [lit]

theorem lit_cons_ne {α} {c d : Char} (k : Str → Option α) (t : Str) (h : d ≠ c) :
    lit c k (d :: t) = none := by
  simp [lit, h]

@[simp] theorem lit_nil {α} (c : Char) (k : Str → Option α) : lit c k [] = none := rfl

theorem wsStar_cons_nws {α} (k : Str → Option α) {c : Char} (cs : Str) (h : isWs c = false) :
    wsStar k (c :: cs) = k (c :: cs) := by
  simp [wsStar, h]

@[simp] theorem wsStar_nil {α} (k : Str → Option α) : wsStar k [] = k [] := rfl

/-- `\s*` in front of a text that does not start with whitespace, when the rest of the pattern
matches there: all the whitespace is consumed -/
theorem wsStar_ws {α} (k : Str → Option α) (w t : Str) (r : α) (hw : allWs w = true)
    (ht : startsSep isWs t = false ∨ t = []) (hk : k t = some r) : wsStar k (w ++ t) = some r := by
  induction w with
  | nil =>
    cases t with
    | nil => simpa using hk
    | cons c cs =>
      rcases ht with ht | ht
      · simp only [startsSep] at ht
        rw [List.nil_append, wsStar_cons_nws k cs ht]; exact hk
      · cases ht
  | cons c cs ih =>
    simp only [allWs, List.all_cons, Bool.and_eq_true] at hw
    have := ih hw.2
    simp only [List.cons_append, wsStar, hw.1, if_true]
    unfold allWs at this
    rw [this]

/-- `\s+` likewise -/
theorem wsPlus_ws {α} (k : Str → Option α) (c : Char) (w t : Str) (r : α) (hc : isWs c = true)
    (hw : allWs w = true) (ht : startsSep isWs t = false ∨ t = []) (hk : k t = some r) :
    wsPlus k (c :: w ++ t) = some r := by
  simp only [List.cons_append, wsPlus, hc, if_true]
  exact wsStar_ws k w t r hw ht hk

theorem wsPlus_cons_nws {α} (k : Str → Option α) {c : Char} (cs : Str) (h : isWs c = false) :
    wsPlus k (c :: cs) = none := by
  simp [wsPlus, h]

/-- lazy `(.*?)`: the group is `a` when the rest of the pattern cannot start at a character of `a`
and matches right after `a` -/
theorem dotLazy_eq {α} (k : Str → Option α) (a b : Str) (r : α)
    (ha : ∀ c ∈ a, c ≠ '\n' ∧ ∀ t, k (c :: t) = none) (hk : k b = some r) :
    dotLazy k (a ++ b) = some (a, r) := by
  induction a with
  | nil =>
    cases b with
    | nil => simp [dotLazy, hk]
    | cons c cs => simp [dotLazy, hk]
  | cons c cs ih =>
    have hc := ha c (by simp)
    have ih' := ih (fun d hd => ha d (by simp [hd]))
    simp only [List.cons_append, dotLazy, hc.2, beq_iff_eq, hc.1, if_false, ih']
    rfl

/-- trailing `(.*)`: the rest of the line -/
theorem dotGreedy_done (s : Str) (h : noNl s) : dotGreedy done s = some (s, ()) := by
  induction s with
  | nil => rfl
  | cons c cs ih =>
    rw [noNl_cons] at h
    simp [dotGreedy, h.1, ih h.2]

theorem dotGreedy_lit_none {α} (c : Char) (k : Str → Option α) (s : Str) (h : c ∉ s) :
    dotGreedy (lit c k) s = none := by
  induction s with
  | nil => rfl
  | cons d ds ih =>
    have hd : d ≠ c := fun e => h (by simp [e])
    have ih' := ih (fun hm => h (by simp [hm]))
    simp only [dotGreedy, lit_cons_ne k ds hd, Option.map_none, ih']
    split <;> rfl

/-- greedy `(.*)\)(.*)` at the end of a pattern: the LAST `)` of the line -/
theorem dotGreedy_close (a b : Str) (ha : noNl a) (hb : noNl b) (hc : ')' ∉ b) :
    dotGreedy (lit ')' (dotGreedy done)) (a ++ ')' :: b) = some (a, b, ()) := by
  induction a with
  | nil =>
    have h1 := dotGreedy_lit_none ')' (dotGreedy done) b hc
    simp [dotGreedy, h1, dotGreedy_done b hb]
  | cons c cs ih =>
    rw [noNl_cons] at ha
    simp [dotGreedy, ha.1, ih ha.2]

/-! ## failure: no `(` left -/

/-- the continuation fails on every suffix -/
def FailsOn {α} (k : Str → Option α) (s : Str) : Prop := ∀ t, t <:+ s → k t = none

theorem FailsOn.tail {α} {k : Str → Option α} {c : Char} {s : Str} (h : FailsOn k (c :: s)) :
    FailsOn k s := fun t ht => h t (ht.trans (List.suffix_cons c s))

theorem FailsOn.here {α} {k : Str → Option α} {s : Str} (h : FailsOn k s) : k s = none :=
  h s (List.suffix_refl s)

theorem failsOn_lit {α} (c : Char) {k : Str → Option α} {s : Str} (h : FailsOn k s) :
    FailsOn (lit c k) s := by
  intro t ht
  cases t with
  | nil => rfl
  | cons d ds =>
    simp only [lit]
    split
    · exact h ds ((List.suffix_cons d ds).trans ht)
    · rfl

theorem wsStar_none {α} {k : Str → Option α} (s : Str) (h : FailsOn k s) : wsStar k s = none := by
  induction s with
  | nil => exact h.here
  | cons c cs ih =>
    simp only [wsStar, ih h.tail, h.here]
    split <;> rfl

theorem failsOn_wsStar {α} {k : Str → Option α} {s : Str} (h : FailsOn k s) :
    FailsOn (wsStar k) s := fun t ht => wsStar_none t (fun u hu => h u (hu.trans ht))

theorem failsOn_wsPlus {α} {k : Str → Option α} {s : Str} (h : FailsOn k s) :
    FailsOn (wsPlus k) s := by
  intro t ht
  cases t with
  | nil => rfl
  | cons d ds =>
    simp only [wsPlus]
    split
    · exact failsOn_wsStar h ds ((List.suffix_cons d ds).trans ht)
    · rfl

theorem dotLazy_none {α} {k : Str → Option α} (s : Str) (h : FailsOn k s) : dotLazy k s = none := by
  induction s with
  | nil => simp [dotLazy, h.here]
  | cons c cs ih =>
    simp only [dotLazy, h.here, ih h.tail, Option.map_none]
    split <;> rfl

theorem failsOn_dotLazy {α} {k : Str → Option α} {s : Str} (h : FailsOn k s) :
    FailsOn (dotLazy k) s := fun t ht => dotLazy_none t (fun u hu => h u (hu.trans ht))

theorem failsOn_lit_absent {α} (c : Char) (k : Str → Option α) (s : Str) (h : c ∉ s) :
    FailsOn (lit c k) s := by
  intro t ht
  cases t with
  | nil => rfl
  | cons d ds =>
    have : d ≠ c := fun e => h (ht.subset (by simp [e]))
    exact lit_cons_ne k ds this

/-! ## the four patterns -/

theorem isWs_i : isWs 'i' = false := by decide
theorem isWs_f : isWs 'f' = false := by decide
theorem isWs_open : isWs '(' = false := by decide
theorem isWs_close : isWs ')' = false := by decide

/-- `(^.*?)\((.*)\)(.*)` -/
theorem reCall_eq (h g2 g3 : Str) (hh : ∀ c ∈ h, c ≠ '\n' ∧ c ≠ '(') (h2 : noNl g2) (h3 : noNl g3)
    (hc : ')' ∉ g3) : reCall (h ++ '(' :: g2 ++ ')' :: g3) = some (h, g2, g3) := by
  unfold reCall
  have hk : lit '(' (dotGreedy (lit ')' (dotGreedy done))) ('(' :: g2 ++ ')' :: g3) = some (g2, g3, ()) := by
    rw [List.cons_append, lit_cons_self]; exact dotGreedy_close g2 g3 h2 h3 hc
  have := dotLazy_eq _ h ('(' :: g2 ++ ')' :: g3) _
    (fun c hc' => ⟨(hh c hc').1, fun t => lit_cons_ne _ t (hh c hc').2⟩) hk
  rw [List.append_assoc] at *
  simp only [List.cons_append] at this ⊢
  rw [this]; rfl

/-- the head of the two `if` patterns: `\s*if\s*\(` on `if`, blanks, `(` -/
theorem ifHead {α} (k : Str → Option α) (w0 rest : Str) (h0 : allWs w0 = true) (r : α)
    (hk : k rest = some r) :
    wsStar (lit 'i' (lit 'f' (wsStar (lit '(' k)))) ('i' :: 'f' :: w0 ++ '(' :: rest) = some r := by
  rw [List.cons_append, List.cons_append, wsStar_cons_nws _ _ isWs_i, lit_cons_self, lit_cons_self]
  exact wsStar_ws _ w0 ('(' :: rest) r h0 (Or.inl (by simp [startsSep, isWs_open])) (by simpa using hk)

theorem ifHead_none {α} (k : Str → Option α) (w0 rest : Str) (h0 : allWs w0 = true)
    (hk : FailsOn k rest) :
    wsStar (lit 'i' (lit 'f' (wsStar (lit '(' k)))) ('i' :: 'f' :: w0 ++ '(' :: rest) = none := by
  rw [List.cons_append, List.cons_append, wsStar_cons_nws _ _ isWs_i, lit_cons_self, lit_cons_self]
  induction w0 with
  | nil => simp [wsStar_cons_nws _ _ isWs_open, hk.here]
  | cons c cs ih =>
    simp only [allWs, List.all_cons, Bool.and_eq_true] at h0
    have := ih h0.2
    have hne : c ≠ '(' := by rintro rfl; simp [isWs_open] at h0
    simp only [List.cons_append, wsStar, h0.1, if_true, this, lit_cons_ne _ _ hne]

theorem reIfHead_true (w0 rest : Str) (h0 : allWs w0 = true) :
    reIfHead ('i' :: 'f' :: w0 ++ '(' :: rest) = true := by
  unfold reIfHead
  rw [ifHead done w0 rest h0 () rfl]; rfl

/-- `\s*if\s*\((.*)\)(.*)` -/
theorem reIfPlain_eq (w0 g1 g2 : Str) (h0 : allWs w0 = true) (h1 : noNl g1) (h2 : noNl g2)
    (hc : ')' ∉ g2) : reIfPlain ('i' :: 'f' :: w0 ++ '(' :: (g1 ++ ')' :: g2)) = some (g1, g2) := by
  unfold reIfPlain
  rw [ifHead _ w0 _ h0 _ (dotGreedy_close g1 g2 h1 h2 hc)]; rfl

/-- `\s*if\s*\((.*?)\)\s*(.*?)\s+\((.*)\)(.*)` -/
theorem reIfArgs_eq (w0 g1 w1 name w2 g3 g4 : Str) (c2 : Char)
    (h0 : allWs w0 = true) (h1 : ∀ c ∈ g1, c ≠ '\n' ∧ c ≠ ')') (hw1 : allWs w1 = true)
    (hne : name ≠ []) (hname : ∀ c ∈ name, isWs c = false) (hc2 : isWs c2 = true) (hw2 : allWs w2 = true)
    (h3 : noNl g3) (h4 : noNl g4) (hc : ')' ∉ g4) :
    reIfArgs ('i' :: 'f' :: w0 ++ '(' :: (g1 ++ ')' :: (w1 ++ (name ++ (c2 :: w2 ++ '(' :: (g3 ++ ')' :: g4))))))
      = some (g1, name, g3, g4) := by
  unfold reIfArgs
  -- innermost: `\s+\((.*)\)(.*)`
  have e1 : wsPlus (lit '(' (dotGreedy (lit ')' (dotGreedy done)))) (c2 :: w2 ++ '(' :: (g3 ++ ')' :: g4))
      = some (g3, g4, ()) :=
    wsPlus_ws _ c2 w2 _ _ hc2 hw2 (Or.inl (by simp [startsSep, isWs_open]))
      (by rw [lit_cons_self]; exact dotGreedy_close g3 g4 h3 h4 hc)
  -- `(.*?)` = name
  have e2 := dotLazy_eq (wsPlus (lit '(' (dotGreedy (lit ')' (dotGreedy done))))) name _ _
    (fun c hc' => ⟨by rintro rfl; simpa [isWs_nl] using hname _ hc',
      fun t => wsPlus_cons_nws _ t (hname c hc')⟩) e1
  -- `\s*`
  have e3 := wsStar_ws (dotLazy (wsPlus (lit '(' (dotGreedy (lit ')' (dotGreedy done)))))) w1
    (name ++ (c2 :: w2 ++ '(' :: (g3 ++ ')' :: g4))) _ hw1
    (Or.inl (by
      cases name with
      | nil => exact absurd rfl hne
      | cons d ds => simpa [startsSep] using hname d (by simp))) e2
  -- `(.*?)\)` = g1
  have e4 := dotLazy_eq (lit ')' (wsStar (dotLazy (wsPlus (lit '(' (dotGreedy (lit ')' (dotGreedy done)))))))) g1
    (')' :: (w1 ++ (name ++ (c2 :: w2 ++ '(' :: (g3 ++ ')' :: g4))))) _
    (fun c hc' => ⟨(h1 c hc').1, fun t => lit_cons_ne _ t (h1 c hc').2⟩)
    (by rw [lit_cons_self]; exact e3)
  rw [ifHead _ w0 _ h0 _ e4]; rfl

/-- the pattern with parameters fails when no `(` follows the first one -/
theorem reIfArgs_none (w0 rest : Str) (h0 : allWs w0 = true) (h : '(' ∉ rest) :
    reIfArgs ('i' :: 'f' :: w0 ++ '(' :: rest) = none := by
  unfold reIfArgs
  rw [ifHead_none _ w0 rest h0]; · rfl
  exact failsOn_dotLazy (failsOn_lit _ (failsOn_wsStar (failsOn_dotLazy (failsOn_wsPlus
    (failsOn_lit_absent '(' _ rest h)))))

end QipVerif.Qasm.Tok
