import QipVerif.Lemmas.QasmRenderInj
import QipVerif.Lemmas.QasmImportW1
/-!
# `KeyInj` of C04's class W₁ from well-formedness of the calls

`keyInj_of_wf`: the hypothesis `KeyInj C` of `import_refines_w1` (different user-gate calls of the program are
cached under different keys) holds for every set `C` of calls whose names contain no `(` (e.g. identifiers,
`isIdent_no_paren`) and whose parameter expressions are `ExprWf` — by `customName_inj` (`QasmRenderInj.lean`).
-/
namespace QipVerif.Qasm.Import
open QipVerif.Qasm

/-- **`KeyInj` from well-formedness**: for any set of calls whose names contain no `(` and whose parameter
expressions are well-formed, different calls have different cache keys -/
theorem keyInj_of_wf (C : Str → List Expr → Prop)
    (h : ∀ n ps, C n ps → (∀ c ∈ n, c ≠ '(') ∧ ∀ e ∈ ps, ExprWf e = true) : KeyInj C := by
  intro n ps n' ps' h1 h2 hk
  obtain ⟨hn, hw⟩ := h n ps h1
  obtain ⟨hn', hw'⟩ := h n' ps' h2
  exact customName_inj n n' ps ps' hn hn' hw hw' hk

/-- the same with names that are identifiers of the standard -/
theorem keyInj_of_ident (C : Str → List Expr → Prop)
    (h : ∀ n ps, C n ps → isIdent n = true ∧ ∀ e ∈ ps, ExprWf e = true) : KeyInj C :=
  keyInj_of_wf C (fun n ps hc => ⟨isIdent_no_paren (h n ps hc).1, (h n ps hc).2⟩)

/-- non-vacuity: a set of three calls, two of them of the same gate with different nested arguments -/
example : KeyInj (fun n ps => (n, ps) ∈ [(cs!"g", [exA, .pi]), (cs!"g", [exB, .pi]), (cs!"h", [])]) :=
  keyInj_of_ident _ (by
    intro n ps h
    simp only [List.mem_cons, Prod.mk.injEq, List.not_mem_nil, or_false] at h
    rcases h with ⟨rfl, rfl⟩ | ⟨rfl, rfl⟩ | ⟨rfl, rfl⟩ <;> decide)

end QipVerif.Qasm.Import
