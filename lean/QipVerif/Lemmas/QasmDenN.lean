import QipVerif.Lemmas.DecompDenSem
import QipVerif.Lemmas.QasmDen
import QipVerif.Lemmas.QasmNat
/-!
# Denotation of expanded OpenQASM programs on an N-qubit register (C04, C10)

The built-ins of the standard as placed gates (`PGate`) of the central embedding algebra:
`U(θ,φ,λ) q` is `Rz(φ)Ry(θ)Rz(λ)` on qubit `q`, `CX a b` the controlled-X with control `a`.
`denPrims N ρ ps` multiplies a list of built-ins in program order (`denP`); it is `none` when a
qubit is out of range or `CX` has equal operands.  Relabelling the qubits of a list along an
injective placement relabels the denotation (localisation, from `denP_relabel`).
-/
namespace QipVerif

namespace Qasm
open Matrix

/-- `U(θ,φ,λ)` on one qubit and `CX` on two (control first), on the state spaces of the embedding algebra -/
noncomputable def U1 (θ φ l : ℝ) : Matrix (St 1) (St 1) ℂ := mat1 (Umat θ φ l)
noncomputable def CX2 : Matrix (St 2) (St 2) ℂ := ctrl1 Xm

/-- the placed gate of a built-in on an `N`-qubit register -/
noncomputable def primPG (N : ℕ) (ρ : Str → ℝ) : Prim → Option (PGate N)
  | .U a b c q =>
    if h : q < N then
      some ⟨1, tgL N [q] 1 rfl (by simp) (by simpa using h), U1 (a.eval ρ) (b.eval ρ) (c.eval ρ)⟩
    else none
  | .CX a b =>
    if h : a < N ∧ b < N ∧ a ≠ b then
      some ⟨2, tgL N [a, b] 2 rfl (by simpa using h.2.2) (by
        intro q hq
        simp only [List.mem_cons, List.not_mem_nil, or_false] at hq
        rcases hq with rfl | rfl
        · exact h.1
        · exact h.2.1), CX2⟩
    else none

/-- denotation of a list of built-ins in program order (first applied first) -/
noncomputable def denPrims (N : ℕ) (ρ : Str → ℝ) (ps : List Prim) : Option (Matrix (St N) (St N) ℂ) :=
  (ps.mapM (primPG N ρ)).map denP

theorem denPrims_nil (N : ℕ) (ρ : Str → ℝ) : denPrims N ρ [] = some 1 := by
  simp [denPrims, denP]

theorem denPrims_append (N : ℕ) (ρ : Str → ℝ) (a b : List Prim) (A B : Matrix (St N) (St N) ℂ)
    (ha : denPrims N ρ a = some A) (hb : denPrims N ρ b = some B) :
    denPrims N ρ (a ++ b) = some (B * A) := by
  simp only [denPrims, Option.map_eq_some_iff] at ha hb ⊢
  obtain ⟨la, hla, rfl⟩ := ha
  obtain ⟨lb, hlb, rfl⟩ := hb
  refine ⟨la ++ lb, ?_, denP_append la lb⟩
  rw [List.mapM_append, hla, hlb]
  rfl

theorem primPG_relabel {k N : ℕ} (t : Tg k N) (f : Nat → Nat) (hf : ∀ i : Fin k, f i.val = (t.f i).val)
    (ρ : Str → ℝ) (p : Prim) (g : PGate k) (h : primPG k ρ p = some g) :
    primPG N ρ (p.mapQ f) = some (g.relabel t) := by
  cases p with
  | U a b c q =>
    simp only [primPG] at h
    split at h
    · rename_i hq
      cases h
      have hfq : f q = (t.f ⟨q, hq⟩).val := hf ⟨q, hq⟩
      have hlt : f q < N := by rw [hfq]; exact (t.f ⟨q, hq⟩).isLt
      simp only [Prim.mapQ, primPG]
      rw [dif_pos hlt]
      simp only [PGate.relabel, Option.some.injEq]
      congr 1
      apply Tg.ext'
      intro i
      apply Fin.ext
      have hi : i = 0 := Subsingleton.elim _ _
      subst hi
      simp [tgL, Tg.comp, hfq]
    · cases h
  | CX a b =>
    simp only [primPG] at h
    split at h
    · rename_i hq
      cases h
      have hfa : f a = (t.f ⟨a, hq.1⟩).val := hf ⟨a, hq.1⟩
      have hfb : f b = (t.f ⟨b, hq.2.1⟩).val := hf ⟨b, hq.2.1⟩
      have hne : f a ≠ f b := by
        rw [hfa, hfb]
        intro hh
        exact hq.2.2 (by simpa using congrArg Fin.val (t.inj (Fin.ext hh)))
      have hcond : f a < N ∧ f b < N ∧ f a ≠ f b :=
        ⟨by rw [hfa]; exact (t.f _).isLt, by rw [hfb]; exact (t.f _).isLt, hne⟩
      simp only [Prim.mapQ, primPG]
      rw [dif_pos hcond]
      simp only [PGate.relabel, Option.some.injEq]
      congr 1
      apply Tg.ext'
      intro i
      apply Fin.ext
      fin_cases i <;> simp [tgL, Tg.comp, hfa, hfb]
    · cases h

theorem mapM_primPG_relabel {k N : ℕ} (t : Tg k N) (f : Nat → Nat) (hf : ∀ i : Fin k, f i.val = (t.f i).val)
    (ρ : Str → ℝ) : ∀ (ps : List Prim) (gs : List (PGate k)), ps.mapM (primPG k ρ) = some gs →
      (ps.map (Prim.mapQ f)).mapM (primPG N ρ) = some (gs.map (PGate.relabel t)) := by
  intro ps
  induction ps with
  | nil => intro gs h; simp at h; subst h; simp
  | cons p ps ih =>
    intro gs h
    rw [List.mapM_cons] at h
    cases h1 : primPG k ρ p with
    | none => simp [h1] at h
    | some g =>
      cases h2 : ps.mapM (primPG k ρ) with
      | none => simp [h1, h2] at h
      | some gs' =>
        simp only [h1, h2, Option.pure_def, Option.bind_eq_bind, Option.bind_some, Option.some.injEq] at h
        subst h
        simp [List.mapM_cons, primPG_relabel t f hf ρ p g h1, ih gs' h2]

/-- **Localisation for built-ins**: an expansion computed on the `k` local qubits of a definition and
renamed along an injective placement of those qubits into an `N`-qubit register denotes the embedded operator -/
theorem denPrims_relabel {k N : ℕ} (t : Tg k N) (f : Nat → Nat) (hf : ∀ i : Fin k, f i.val = (t.f i).val)
    (ρ : Str → ℝ) (ps : List Prim) (M : Matrix (St k) (St k) ℂ) (h : denPrims k ρ ps = some M) :
    denPrims N ρ (ps.map (Prim.mapQ f)) = some (t.embed M) := by
  simp only [denPrims, Option.map_eq_some_iff] at h ⊢
  obtain ⟨gs, hgs, rfl⟩ := h
  exact ⟨gs.map (PGate.relabel t), mapM_primPG_relabel t f hf ρ ps gs hgs, denP_relabel t gs⟩

/-- equality up to one global phase, on the state spaces of the embedding algebra -/
def PhaseEqN {N : ℕ} (A B : Matrix (St N) (St N) ℂ) : Prop := ∃ α : ℝ, A = Complex.exp (Complex.I * α) • B

theorem PhaseEqN.refl {N : ℕ} (A : Matrix (St N) (St N) ℂ) : PhaseEqN A A := ⟨0, by simp⟩

theorem PhaseEqN.mul {N : ℕ} {A B C D : Matrix (St N) (St N) ℂ} (h1 : PhaseEqN A B) (h2 : PhaseEqN C D) :
    PhaseEqN (A * C) (B * D) := by
  obtain ⟨α, rfl⟩ := h1
  obtain ⟨β, rfl⟩ := h2
  refine ⟨α + β, ?_⟩
  rw [Matrix.smul_mul, Matrix.mul_smul, smul_smul, ← Complex.exp_add]
  congr 2
  push_cast; ring

theorem PhaseEqN.embed {k N : ℕ} (t : Tg k N) {A B : Matrix (St k) (St k) ℂ} (h : PhaseEqN A B) :
    PhaseEqN (t.embed A) (t.embed B) := by
  obtain ⟨α, rfl⟩ := h
  exact ⟨α, Tg.embed_smul t _ _⟩

theorem PhaseEqN.trans {N : ℕ} {A B C : Matrix (St N) (St N) ℂ} (h1 : PhaseEqN A B) (h2 : PhaseEqN B C) :
    PhaseEqN A C := by
  obtain ⟨α, rfl⟩ := h1
  obtain ⟨β, rfl⟩ := h2
  refine ⟨α + β, ?_⟩
  rw [smul_smul, ← Complex.exp_add]
  congr 2
  push_cast; ring

end Qasm
end QipVerif
