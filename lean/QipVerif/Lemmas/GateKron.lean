import Mathlib.LinearAlgebra.Matrix.Kronecker
import Mathlib.LinearAlgebra.Matrix.Notation
import Mathlib.Data.Complex.Basic
import Mathlib.Logic.Equiv.Fin.Basic
import Mathlib.Tactic.FinCases
/-! `qutip.tensor(A, B)` for two qubits: the Kronecker product on flat indices, first factor most
significant (`finProdFinEquiv (i, j) = 2·i + j`).  Used by the generated `Gen/GateExtra.lean` (cphase) and by the
documented forms of the two-qubit gates (C09). -/
namespace QipVerif.GateKron
open Matrix

/-- `tensor(A, B)` of two one-qubit operators as a 4×4 matrix -/
noncomputable def kron2 (A B : Matrix (Fin 2) (Fin 2) ℂ) : Matrix (Fin 4) (Fin 4) ℂ :=
  Matrix.reindex finProdFinEquiv finProdFinEquiv (Matrix.kroneckerMap (· * ·) A B)

theorem kron2_apply (A B : Matrix (Fin 2) (Fin 2) ℂ) (i j : Fin 4) :
    kron2 A B i j = A ((finProdFinEquiv (m := 2) (n := 2)).symm i).1 ((finProdFinEquiv (m := 2) (n := 2)).symm j).1 *
      B ((finProdFinEquiv (m := 2) (n := 2)).symm i).2 ((finProdFinEquiv (m := 2) (n := 2)).symm j).2 := rfl

theorem kron2_eq (A B : Matrix (Fin 2) (Fin 2) ℂ) :
    kron2 A B = !![A 0 0 * B 0 0, A 0 0 * B 0 1, A 0 1 * B 0 0, A 0 1 * B 0 1;
                   A 0 0 * B 1 0, A 0 0 * B 1 1, A 0 1 * B 1 0, A 0 1 * B 1 1;
                   A 1 0 * B 0 0, A 1 0 * B 0 1, A 1 1 * B 0 0, A 1 1 * B 0 1;
                   A 1 0 * B 1 0, A 1 0 * B 1 1, A 1 1 * B 1 0, A 1 1 * B 1 1] := by
  ext i j
  fin_cases i <;> fin_cases j <;> rfl

theorem kron2_mul (A B C D : Matrix (Fin 2) (Fin 2) ℂ) : kron2 A B * kron2 C D = kron2 (A * C) (B * D) := by
  unfold kron2
  rw [Matrix.reindex_apply, Matrix.reindex_apply, Matrix.reindex_apply, Matrix.submatrix_mul_equiv,
    ← Matrix.mul_kronecker_mul]

theorem kron2_one : kron2 1 1 = 1 := by
  unfold kron2
  rw [Matrix.reindex_apply]
  change (kroneckerMap (· * ·) (1 : Matrix (Fin 2) (Fin 2) ℂ) (1 : Matrix (Fin 2) (Fin 2) ℂ)).submatrix _ _ = 1
  rw [show kroneckerMap (· * ·) (1 : Matrix (Fin 2) (Fin 2) ℂ) (1 : Matrix (Fin 2) (Fin 2) ℂ) = 1 from
    Matrix.one_kronecker_one]
  simp

theorem kron2_conjTranspose (A B : Matrix (Fin 2) (Fin 2) ℂ) : (kron2 A B)ᴴ = kron2 Aᴴ Bᴴ := by
  ext i j
  simp [kron2_apply, Matrix.conjTranspose_apply]

theorem kron2_smul_left (c : ℂ) (A B : Matrix (Fin 2) (Fin 2) ℂ) : kron2 (c • A) B = c • kron2 A B := by
  ext i j; simp [kron2_apply, mul_assoc]

theorem kron2_smul_right (c : ℂ) (A B : Matrix (Fin 2) (Fin 2) ℂ) : kron2 A (c • B) = c • kron2 A B := by
  ext i j; simp [kron2_apply, mul_left_comm]

end QipVerif.GateKron
