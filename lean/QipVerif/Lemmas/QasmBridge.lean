import QipVerif.Lemmas.QasmDenN
import QipVerif.Lemmas.DecompDenEC
import Mathlib.Tactic.FinCases
import Mathlib.Tactic.Ring
import Mathlib.Logic.Equiv.Fin.Basic
/-!
# Bridge between the small index types of `QasmDen` and the state spaces of the embedding algebra (C04, C10)

`QasmDen.lean` states the matrix identities of the OpenQASM built-ins on `Fin 2`, `Fin 2 × Fin 2`,
`Fin 2 × Fin 2 × Fin 2`; the central algebra (`Tg.embed`, `denP`, `compactC`) works on `St k = Fin k → Fin 2`.
`mat1`, `m2`, `m3` reindex, are multiplicative, and the denotation of a list of built-ins on one, two or
three local qubits (`denPrims`) is the reindexed `den1/den2/den3`.
-/
namespace QipVerif.Qasm
open QipVerif Matrix
set_option linter.unusedSimpArgs false

/-- reindexing of the small index types to the state spaces of the embedding algebra -/
noncomputable def m2 (A : M2) : Matrix (St 2) (St 2) ℂ := fun x y => A (x 0, x 1) (y 0, y 1)
noncomputable def m3 (A : M3) : Matrix (St 3) (St 3) ℂ := fun x y => A (x 0, x 1, x 2) (y 0, y 1, y 2)

/-- `St 2 ≃ Fin 2 × Fin 2` -/
def e2 : St 2 ≃ Q2 where
  toFun x := (x 0, x 1)
  invFun p := ![p.1, p.2]
  left_inv x := by funext i; fin_cases i <;> rfl
  right_inv p := rfl

/-- `St 3 ≃ Fin 2 × Fin 2 × Fin 2` -/
def e3 : St 3 ≃ Q3 where
  toFun x := (x 0, x 1, x 2)
  invFun p := ![p.1, p.2.1, p.2.2]
  left_inv x := by funext i; fin_cases i <;> rfl
  right_inv p := rfl

theorem m2_eq (A : M2) : m2 A = A.submatrix e2 e2 := rfl
theorem m3_eq (A : M3) : m3 A = A.submatrix e3 e3 := rfl

theorem m2_mul (A B : M2) : m2 (A * B) = m2 A * m2 B := by
  simp only [m2_eq, Matrix.submatrix_mul_equiv]
theorem m2_one : m2 1 = 1 := by
  rw [m2_eq, Matrix.submatrix_one_equiv]
theorem m2_smul (c : ℂ) (A : M2) : m2 (c • A) = c • m2 A := rfl

theorem m3_mul (A B : M3) : m3 (A * B) = m3 A * m3 B := by
  simp only [m3_eq, Matrix.submatrix_mul_equiv]
theorem m3_one : m3 1 = 1 := by
  rw [m3_eq, Matrix.submatrix_one_equiv]
theorem m3_smul (c : ℂ) (A : M3) : m3 (c • A) = c • m3 A := rfl

/-! ## placements given by lists -/

theorem tgL_range (N : ℕ) (qs : List Nat) (m : ℕ) (hm : qs.length = m) (hn : qs.Nodup) (hr : ∀ q ∈ qs, q < N)
    (i : Fin N) : i ∈ Set.range (tgL N qs m hm hn hr).f ↔ i.val ∈ qs := by
  constructor
  · rintro ⟨j, rfl⟩
    exact List.getElem_mem _
  · intro h
    obtain ⟨n, hlt, heq⟩ := List.getElem_of_mem h
    exact ⟨⟨n, hm ▸ hlt⟩, Fin.ext heq⟩

theorem tgL_f0 (N : ℕ) (a : Nat) (l : List Nat) (m : ℕ) (hm : (a :: l).length = m + 1) (hn : (a :: l).Nodup)
    (hr : ∀ q ∈ a :: l, q < N) : ((tgL N (a :: l) (m + 1) hm hn hr).f 0).val = a := rfl

theorem tgL_f1 (N : ℕ) (a b : Nat) (l : List Nat) (m : ℕ) (hm : (a :: b :: l).length = m + 2)
    (hn : (a :: b :: l).Nodup) (hr : ∀ q ∈ a :: b :: l, q < N) :
    ((tgL N (a :: b :: l) (m + 2) hm hn hr).f 1).val = b := rfl

/-- the entries of a one-qubit operator placed on qubit `q` -/
theorem embed_one_apply (N q : ℕ) (hm : [q].length = 1) (hn : [q].Nodup) (hr : ∀ a ∈ [q], a < N) (hq : q < N)
    (U : M1) (x y : St N) :
    (tgL N [q] 1 hm hn hr).embed (mat1 U) x y
      = U (x ⟨q, hq⟩) (y ⟨q, hq⟩) * (if ∀ i : Fin N, i.val ≠ q → x i = y i then 1 else 0) := by
  rw [Tg.embed_apply]
  have h0 : (tgL N [q] 1 hm hn hr).f 0 = ⟨q, hq⟩ := Fin.ext rfl
  have hc : (∀ i, i ∉ Set.range (tgL N [q] 1 hm hn hr).f → x i = y i) ↔ (∀ i : Fin N, i.val ≠ q → x i = y i) := by
    simp only [tgL_range, List.mem_singleton]
  simp only [mat1, Function.comp, h0, hc]

/-- the entries of a two-qubit operator placed on qubits `a, b` -/
theorem embed_two_apply (N a b : ℕ) (hm : [a, b].length = 2) (hn : [a, b].Nodup) (hr : ∀ q ∈ [a, b], q < N)
    (ha : a < N) (hb : b < N) (U : Matrix (St 2) (St 2) ℂ) (x y : St N) :
    (tgL N [a, b] 2 hm hn hr).embed U x y
      = U ![x ⟨a, ha⟩, x ⟨b, hb⟩] ![y ⟨a, ha⟩, y ⟨b, hb⟩]
        * (if ∀ i : Fin N, i.val ≠ a → i.val ≠ b → x i = y i then 1 else 0) := by
  rw [Tg.embed_apply]
  have h0 : (tgL N [a, b] 2 hm hn hr).f 0 = ⟨a, ha⟩ := Fin.ext rfl
  have h1 : (tgL N [a, b] 2 hm hn hr).f 1 = ⟨b, hb⟩ := Fin.ext rfl
  have hc : (∀ i, i ∉ Set.range (tgL N [a, b] 2 hm hn hr).f → x i = y i)
      ↔ (∀ i : Fin N, i.val ≠ a → i.val ≠ b → x i = y i) := by
    simp only [tgL_range, List.mem_cons, List.not_mem_nil, or_false, not_or, and_imp]
  have hx : ∀ z : St N, z ∘ (tgL N [a, b] 2 hm hn hr).f = ![z ⟨a, ha⟩, z ⟨b, hb⟩] := by
    intro z; funext i; fin_cases i
    · simp [Function.comp, h0]
    · simp [Function.comp, h1]
  rw [hx x, hx y]
  simp only [hc]

/-! ## two local qubits -/

theorem st2_ex (x : St 2) : ∃ a b, x = ![a, b] := ⟨x 0, x 1, by funext i; fin_cases i <;> rfl⟩
theorem st3_ex (x : St 3) : ∃ a b c, x = ![a, b, c] := ⟨x 0, x 1, x 2, by funext i; fin_cases i <;> rfl⟩

theorem embed2_on0 (hm : [0].length = 1) (hn : [0].Nodup) (hr : ∀ a ∈ [0], a < 2) (U : M1) :
    (tgL 2 [0] 1 hm hn hr).embed (mat1 U) = m2 (on0 U) := by
  ext x y
  rw [embed_one_apply 2 0 hm hn hr (by decide)]
  simp only [Fin.forall_fin_two, Fin.mk_zero, Fin.mk_one, m2, on0, Matrix.of_apply]
  generalize x 0 = a; generalize x 1 = b; generalize y 0 = c; generalize y 1 = d
  fin_cases b <;> fin_cases d <;> simp

theorem embed2_on1 (hm : [1].length = 1) (hn : [1].Nodup) (hr : ∀ a ∈ [1], a < 2) (U : M1) :
    (tgL 2 [1] 1 hm hn hr).embed (mat1 U) = m2 (on1 U) := by
  ext x y
  rw [embed_one_apply 2 1 hm hn hr (by decide)]
  simp only [Fin.forall_fin_two, Fin.mk_zero, Fin.mk_one, m2, on1, Matrix.of_apply]
  generalize x 0 = a; generalize x 1 = b; generalize y 0 = c; generalize y 1 = d
  fin_cases a <;> fin_cases c <;> simp

theorem ctrl1_eq (M : M1) : ctrl1 M = m2 (ctrl M) := by
  ext x y
  simp only [ctrl1, m2, ctrl, Matrix.of_apply]
  generalize x 0 = a; generalize x 1 = b; generalize y 0 = c; generalize y 1 = d
  fin_cases a <;> fin_cases c <;> fin_cases b <;> fin_cases d <;> simp

theorem embed2_ctrl (hm : [0, 1].length = 2) (hn : [0, 1].Nodup) (hr : ∀ q ∈ [0, 1], q < 2) (M : M1) :
    (tgL 2 [0, 1] 2 hm hn hr).embed (ctrl1 M) = m2 (ctrl M) := by
  ext x y
  rw [embed_two_apply 2 0 1 hm hn hr (by decide) (by decide)]
  obtain ⟨a, b, rfl⟩ := st2_ex x
  obtain ⟨c, d, rfl⟩ := st2_ex y
  simp only [Fin.forall_fin_two, Fin.mk_zero, Fin.mk_one, m2, ctrl, ctrl1, Matrix.of_apply]
  fin_cases a <;> fin_cases c <;> fin_cases b <;> fin_cases d <;> simp

theorem embed2_ctrlRev (hm : [1, 0].length = 2) (hn : [1, 0].Nodup) (hr : ∀ q ∈ [1, 0], q < 2) (M : M1) :
    (tgL 2 [1, 0] 2 hm hn hr).embed (ctrl1 M) = m2 (ctrlRev M) := by
  ext x y
  rw [embed_two_apply 2 1 0 hm hn hr (by decide) (by decide)]
  obtain ⟨a, b, rfl⟩ := st2_ex x
  obtain ⟨c, d, rfl⟩ := st2_ex y
  simp only [Fin.forall_fin_two, Fin.mk_zero, Fin.mk_one, m2, ctrlRev, ctrl1, Matrix.of_apply]
  fin_cases a <;> fin_cases c <;> fin_cases b <;> fin_cases d <;> simp

/-! ## lists of built-ins -/

/-- built-ins that are well placed on k local qubits -/
def primOk (k : Nat) : Prim → Bool
  | .U _ _ _ q => decide (q < k)
  | .CX a b => decide (a < k ∧ b < k ∧ a ≠ b)

theorem foldl_mul_acc {α R : Type} [Monoid R] (F : α → R) (ps : List α) (A : R) :
    ps.foldl (fun M g => F g * M) A = ps.foldl (fun M g => F g * M) 1 * A := by
  induction ps generalizing A with
  | nil => simp
  | cons p ps ih =>
    simp only [List.foldl_cons, mul_one]
    rw [ih (F p * A), ih (F p), mul_assoc]

theorem denPrims_single (N : ℕ) (ρ : Str → ℝ) (p : Prim) (g : PGate N) (h : primPG N ρ p = some g) :
    denPrims N ρ [p] = some g.den := by
  simp [denPrims, h, denP]

/-- a reindexing that is a monoid homomorphism and agrees gate by gate agrees on lists -/
theorem denPrims_gen {K : Type} [Fintype K] [DecidableEq K] (N : ℕ) (ρ : Str → ℝ)
    (r : Matrix K K ℂ → Matrix (St N) (St N) ℂ) (F : Prim → Matrix K K ℂ)
    (hmul : ∀ A B, r (A * B) = r A * r B) (hone : r 1 = 1) (ok : Prim → Bool)
    (hp : ∀ p, ok p = true → ∃ g, primPG N ρ p = some g ∧ g.den = r (F p)) :
    ∀ ps : List Prim, ps.all ok = true → denPrims N ρ ps = some (r (ps.foldl (fun M g => F g * M) 1)) := by
  intro ps
  induction ps with
  | nil => intro _; rw [denPrims_nil]; simp [hone]
  | cons p ps ih =>
    intro h
    rw [List.all_cons, Bool.and_eq_true] at h
    obtain ⟨g, hg, hd⟩ := hp p h.1
    have h1 := denPrims_single N ρ p g hg
    have h2 := denPrims_append N ρ [p] ps _ _ h1 (ih h.2)
    rw [List.singleton_append] at h2
    rw [h2, List.foldl_cons, mul_one, foldl_mul_acc F ps (F p), hmul, hd]

theorem primPG_two (ρ : Str → ℝ) (p : Prim) (h : primOk 2 p = true) :
    ∃ g, primPG 2 ρ p = some g ∧ g.den = m2 (p.mat2 ρ) := by
  cases p with
  | U a b c q =>
    have hq : q < 2 := by simpa [primOk] using h
    simp only [primPG]
    rw [dif_pos hq]
    refine ⟨_, rfl, ?_⟩
    obtain rfl | rfl : q = 0 ∨ q = 1 := by omega
    · exact embed2_on0 rfl (by simp) (by simp) _
    · exact embed2_on1 rfl (by simp) (by simp) _
  | CX a b =>
    have hq : a < 2 ∧ b < 2 ∧ a ≠ b := by simpa [primOk] using h
    simp only [primPG]
    rw [dif_pos hq]
    refine ⟨_, rfl, ?_⟩
    obtain ⟨rfl, rfl⟩ | ⟨rfl, rfl⟩ : (a = 0 ∧ b = 1) ∨ (a = 1 ∧ b = 0) := by omega
    · exact embed2_ctrl rfl (by simp) (by simp) _
    · exact embed2_ctrlRev rfl (by simp) (by simp) _

theorem denPrims_two (ρ : Str → ℝ) (ps : List Prim) (h : ps.all (primOk 2) = true) :
    denPrims 2 ρ ps = some (m2 (den2 ρ ps)) :=
  denPrims_gen 2 ρ m2 (Prim.mat2 ρ) m2_mul m2_one (primOk 2) (primPG_two ρ) ps h

theorem embed1_self (hm : [0].length = 1) (hn : [0].Nodup) (hr : ∀ a ∈ [0], a < 1) (U : M1) :
    (tgL 1 [0] 1 hm hn hr).embed (mat1 U) = mat1 U := by
  ext x y
  rw [embed_one_apply 1 0 hm hn hr (by decide)]
  simp [mat1, Fin.forall_fin_one]

theorem primPG_one (ρ : Str → ℝ) (p : Prim) (h : primOk 1 p = true) :
    ∃ g, primPG 1 ρ p = some g ∧ g.den = mat1 (p.mat1 ρ) := by
  cases p with
  | U a b c q =>
    have hq : q < 1 := by simpa [primOk] using h
    simp only [primPG]
    rw [dif_pos hq]
    refine ⟨_, rfl, ?_⟩
    obtain rfl : q = 0 := by omega
    exact embed1_self rfl (by simp) (by simp) _
  | CX a b =>
    have hq : a < 1 ∧ b < 1 ∧ a ≠ b := by simpa [primOk] using h
    omega

theorem denPrims_one (ρ : Str → ℝ) (ps : List Prim) (h : ps.all (primOk 1) = true) :
    denPrims 1 ρ ps = some (mat1 (den1 ρ ps)) :=
  denPrims_gen 1 ρ mat1 (Prim.mat1 ρ) mat1_mul mat1_one (primOk 1) (primPG_one ρ) ps h

/-! ## three local qubits -/

theorem fin3_mk2 (h : 2 < 3) : (⟨2, h⟩ : Fin 3) = 2 := rfl

theorem embed3_on (q : ℕ) (hq : q < 3) (hm : [q].length = 1) (hn : [q].Nodup) (hr : ∀ a ∈ [q], a < 3) (U : M1) :
    (tgL 3 [q] 1 hm hn hr).embed (mat1 U) = m3 (on3 q U) := by
  ext x y
  rw [embed_one_apply 3 q hm hn hr hq]
  obtain ⟨a, b, c, rfl⟩ := st3_ex x
  obtain ⟨d, e, f, rfl⟩ := st3_ex y
  obtain rfl | rfl | rfl : q = 0 ∨ q = 1 ∨ q = 2 := by omega
  · simp [Fin.forall_fin_succ, m3, on3]
  · simp [Fin.forall_fin_succ, m3, on3]
  · simp [Fin.forall_fin_succ, m3, on3, fin3_mk2]

theorem ctrl1_Xm_apply (x y : St 2) : ctrl1 Xm x y = if x 0 = y 0 ∧ x 1 = y 1 + y 0 then 1 else 0 := by
  obtain ⟨a, b, rfl⟩ := st2_ex x
  obtain ⟨c, d, rfl⟩ := st2_ex y
  fin_cases a <;> fin_cases c <;> fin_cases b <;> fin_cases d <;> simp [ctrl1, Xm]

theorem embed3_cx (a b : ℕ) (ha : a < 3) (hb : b < 3) (hab : a ≠ b) (hm : [a, b].length = 2) (hn : [a, b].Nodup)
    (hr : ∀ q ∈ [a, b], q < 3) :
    (tgL 3 [a, b] 2 hm hn hr).embed (ctrl1 Xm) = m3 (cx3 a b) := by
  ext x y
  rw [embed_two_apply 3 a b hm hn hr ha hb, ctrl1_Xm_apply, ite_zero_mul_ite_zero, mul_one]
  obtain ⟨p, q, r, rfl⟩ := st3_ex x
  obtain ⟨s, t, u, rfl⟩ := st3_ex y
  simp only [m3, cx3, Matrix.of_apply]
  apply if_congr _ rfl rfl
  obtain ⟨rfl, rfl⟩ | ⟨rfl, rfl⟩ | ⟨rfl, rfl⟩ | ⟨rfl, rfl⟩ | ⟨rfl, rfl⟩ | ⟨rfl, rfl⟩ :
      (a = 0 ∧ b = 1) ∨ (a = 0 ∧ b = 2) ∨ (a = 1 ∧ b = 0) ∨ (a = 1 ∧ b = 2) ∨ (a = 2 ∧ b = 0) ∨ (a = 2 ∧ b = 1) := by
    omega
  all_goals
    simp only [Fin.forall_fin_succ, bit3, fin3_mk2, Fin.mk_zero, Fin.mk_one]
    revert p q r s t u
    decide

theorem primPG_three (ρ : Str → ℝ) (p : Prim) (h : primOk 3 p = true) :
    ∃ g, primPG 3 ρ p = some g ∧ g.den = m3 (p.mat3 ρ) := by
  cases p with
  | U a b c q =>
    have hq : q < 3 := by simpa [primOk] using h
    simp only [primPG]
    rw [dif_pos hq]
    exact ⟨_, rfl, embed3_on q hq rfl (by simp) (by simpa using hq) _⟩
  | CX a b =>
    have hq : a < 3 ∧ b < 3 ∧ a ≠ b := by simpa [primOk] using h
    simp only [primPG]
    rw [dif_pos hq]
    exact ⟨_, rfl, embed3_cx a b hq.1 hq.2.1 hq.2.2 rfl (by simpa using hq.2.2) (by
      intro q hq'
      simp only [List.mem_cons, List.not_mem_nil, or_false] at hq'
      rcases hq' with rfl | rfl
      · exact hq.1
      · exact hq.2.1)⟩

theorem denPrims_three (ρ : Str → ℝ) (ps : List Prim) (h : ps.all (primOk 3) = true) :
    denPrims 3 ρ ps = some (m3 (den3 ρ ps)) :=
  denPrims_gen 3 ρ m3 (Prim.mat3 ρ) m3_mul m3_one (primOk 3) (primPG_three ρ) ps h

/-! ## equality up to a global phase -/

theorem PhaseEq.toN1 {A B : M1} (h : PhaseEq A B) : PhaseEqN (mat1 A) (mat1 B) := by
  obtain ⟨α, rfl⟩ := h
  exact ⟨α, mat1_smul _ _⟩

theorem PhaseEq.toN2 {A B : M2} (h : PhaseEq A B) : PhaseEqN (m2 A) (m2 B) := by
  obtain ⟨α, rfl⟩ := h
  exact ⟨α, m2_smul _ _⟩

theorem PhaseEq.toN3 {A B : M3} (h : PhaseEq A B) : PhaseEqN (m3 A) (m3 B) := by
  obtain ⟨α, rfl⟩ := h
  exact ⟨α, m3_smul _ _⟩

end QipVerif.Qasm
