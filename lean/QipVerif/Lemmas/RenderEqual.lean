import QipVerif.Lemmas.RenderInv
/-! C20: equal widths after the final padding, and success of the drawing, for covered circuits. -/
namespace QipVerif.Render
variable {v : Variant}

/-- the decidable hypothesis of `equal_width_partial` -/
def circOk (v : Variant) (sty : Style) (c : Circ) : Bool := styleOk sty c.N c.C && c.ops.all (opOk v c.N)

theorem styleOk_ext {sty : Style} {N C : Nat} (h : styleOk sty N C = true) : 0 ≤ sty.ext := by
  simp only [styleOk, Bool.and_eq_true, decide_eq_true_eq] at h
  exact h.1.1

theorem styleOk_N {sty : Style} {N C : Nat} (h : styleOk sty N C = true) : 1 ≤ N := by
  simp only [styleOk, Bool.and_eq_true, decide_eq_true_eq] at h
  exact h.1.2

theorem wireLabels_length {sty : Style} {N C : Nat} (h : styleOk sty N C = true) :
    (wireLabels sty N C).length = N + C := by
  simp only [styleOk, Bool.and_eq_true, decide_eq_true_eq] at h
  unfold wireLabels
  cases hl : sty.labels with
  | none => simp [defaultLabels]
  | some l =>
    rw [hl] at h
    have : l.length = N + C := by simpa using h.2
    simp only [List.length_append, List.length_drop, List.length_take]
    omega

theorem labelWire_mid_length (m : Nat) (l : Str) (w : Wire) (h : l.length ≤ m) :
    (labelWire m l w).mid.length = m + 3 + w.mid.length := by
  simp [labelWire, labelPrefix]; omega

theorem labelWire_layers (m : Nat) (l : Str) (w : Wire) :
    isum (labelWire m l w).layers = isum w.layers + (labelWire m l w).mid.length := by
  simp only [labelWire, isum_append_single]

theorem initWire_mid_length (N i : Nat) : (initWire N i).mid.length = 2 := by
  unfold initWire; split <;> rfl

/-- the state after `_add_wire_labels` when every wire has a label -/
theorem labels_get {sty : Style} {N C : Nat} {st0 : St} (hs : styleOk sty N C = true)
    (h : addWireLabels sty N C (initSt N C) = .ok st0) (j : Nat) (hj : j < N + C) :
    ∃ l, l ∈ wireLabels sty N C ∧ (wireLabels sty N C)[j]? = some l ∧
      st0[j]? = some (labelWire (lmax ((wireLabels sty N C).map List.length)) l (initWire N j)) := by
  have h' := addLabelsFrom_get (addWireLabels_ok h) j
  have hlen := wireLabels_length hs
  have hjl : j < (wireLabels sty N C).length := by omega
  refine ⟨(wireLabels sty N C)[j], List.getElem_mem hjl, List.getElem?_eq_getElem hjl, ?_⟩
  rw [h']
  simp only [Nat.zero_le, if_true, Nat.sub_zero, List.getElem?_eq_getElem hjl, initSt_get N C j hj, Option.map_some]

theorem labels_inv {sty : Style} {N C : Nat} {st0 : St} (hs : styleOk sty N C = true)
    (h : addWireLabels sty N C (initSt N C) = .ok st0) : Inv N st0 ∧ st0.length = N + C := by
  have hlen : st0.length = N + C := by rw [addLabelsFrom_length (addWireLabels_ok h), initSt_length]
  have key : ∀ (j : Nat) (w : Wire), st0[j]? = some w → (w.top.length : Int) = isum w.layers ∧
      isum w.layers = ((lmax ((wireLabels sty N C).map List.length) + 5 : Nat) : Int) := by
    intro j w hw
    obtain ⟨hj, _⟩ := List.getElem?_eq_some_iff.mp hw
    obtain ⟨l, hl, _, hg⟩ := labels_get hs h j (by omega)
    rw [hw] at hg; cases hg
    have hle : l.length ≤ lmax ((wireLabels sty N C).map List.length) := le_lmax (List.mem_map.mpr ⟨l, hl, rfl⟩)
    have h1 := labelWire_mid_length _ l (initWire N j) hle
    have h2 := labelWire_layers (lmax ((wireLabels sty N C).map List.length)) l (initWire N j)
    rw [initWire_mid_length] at h1
    have h3 : isum (initWire N j).layers = 0 := rfl
    have h4 : (labelWire (lmax ((wireLabels sty N C).map List.length)) l (initWire N j)).top.length
        = (labelWire (lmax ((wireLabels sty N C).map List.length)) l (initWire N j)).mid.length := by
      simp [labelWire]
    constructor
    · rw [h2, h3, h4]; omega
    · rw [h2, h3, h1]; omega
  refine ⟨⟨addLabelsFrom_aligned (addWireLabels_ok h) (initSt_aligned _ _), ?_, ?_⟩, hlen⟩
  · intro w hw
    obtain ⟨j, hj⟩ := List.mem_iff_getElem?.mp hw
    exact Int.le_of_eq (key j w hj).1
  · intro i w w0 _ hi h0
    rw [(key i w hi).2, (key 0 w0 h0).2]
    exact Int.le_refl _

theorem step_inv {sty : Style} {N C : Nat} {st st' : St} {op : Op} (hop : opOk v N op = true)
    (h : step v sty N C st op = .ok st') (hinv : Inv N st ∧ st.length = N + C) :
    Inv N st' ∧ st'.length = N + C := by
  obtain ⟨pl, hpl, _, _, hN, rfl⟩ := step_ok h
  exact ⟨place_inv hinv.1 (plan_ok hop hpl) hN hinv.2, by rw [place_length]; exact hinv.2⟩

theorem steps_inv {sty : Style} {N C : Nat} {ops : List Op} {st st' : St} (hops : ∀ op ∈ ops, opOk v N op = true)
    (h : steps v sty N C st ops = .ok st') (hinv : Inv N st ∧ st.length = N + C) :
    Inv N st' ∧ st'.length = N + C := by
  induction ops generalizing st with
  | nil => cases h; exact hinv
  | cons op ops ih =>
    unfold steps at h
    split at h
    · cases h
    · rename_i st1 h1
      exact ih (fun o ho => hops o (List.mem_cons_of_mem _ ho)) h
        (step_inv (hops op (List.mem_cons_self ..)) h1 hinv)

/-- after the final padding every row of every wire has the same length -/
theorem finalPad_width {sty : Style} {N : Nat} {st : St} (hext : 0 ≤ sty.ext) (hinv : Inv N st) :
    ∀ w ∈ finalPad sty N st,
      w.top.length = (imax (st.map fun w => isum w.layers) + sty.ext).toNat ∧
      w.mid.length = (imax (st.map fun w => isum w.layers) + sty.ext).toNat ∧
      w.bot.length = (imax (st.map fun w => isum w.layers) + sty.ext).toNat := by
  intro w' hw'
  obtain ⟨k, hk'⟩ := List.mem_iff_getElem?.mp hw'
  simp only [finalPad, adjustPad_eq, modAll_getElem?] at hk'
  cases hk : st[k]? with
  | none => rw [hk] at hk'; cases hk'
  | some w =>
    rw [hk] at hk'
    obtain ⟨hklt, _⟩ := List.getElem?_eq_some_iff.mp hk
    simp only [Option.map_some, Option.some.injEq, compAt_map_nodup _ _ _ List.nodup_range,
      List.mem_range, hklt, if_true] at hk'
    subst hk'
    have hmem := List.mem_of_getElem? hk
    have h1 := hinv.le w hmem
    have h2 : isum w.layers ≤ imax (st.map fun w => isum w.layers) := le_imax (List.mem_map.mpr ⟨w, hmem, rfl⟩)
    obtain ⟨a1, a2⟩ := hinv.aligned w hmem
    simp only [padWire, repI, List.length_append, List.length_replicate]
    omega

theorem mem_printRows {N C : Nat} {st : St} {r : Str} (h : r ∈ printRows N C st) :
    ∃ w ∈ st, r = w.top ∨ r = w.mid ∨ r = w.bot := by
  obtain ⟨i, _, hr⟩ := List.mem_flatMap.mp h
  unfold wireRows at hr
  split at hr
  · rename_i w hw
    refine ⟨w, List.mem_of_getElem? hw, ?_⟩
    simpa using hr
  · cases hr

theorem planGate_succeeds {p N : Nat} {name : Str} {argLabel : Option Str} {targets : List Nat}
    {controls : Option (List Nat)} (hop : gateOk v N name targets controls = true) :
    ∃ pl, planGate v p name argLabel targets controls = .ok pl := by
  simp only [gateOk, Bool.and_eq_true] at hop
  have hne : targets.isEmpty = false := by simpa using hop.1.1
  simp only [planGate]
  split
  · exact ⟨_, rfl⟩
  · split
    · rw [hne]; exact ⟨_, rfl⟩
    · rw [hne]
      simp only [Bool.false_eq_true, if_false]
      split <;> exact ⟨_, rfl⟩

/-- a covered element never fails -/
theorem plan_succeeds {p N C : Nat} {op : Op} (hop : opOk v N op = true) : ∃ pl, plan v p N C op = .ok pl := by
  cases op with
  | meas targets store =>
    match targets, hop with
    | [], hop => simp [opOk] at hop
    | _ :: _ :: _, hop => simp [opOk] at hop
    | [t0], _ => exact ⟨_, rfl⟩
  | gate name argLabel targets controls => exact planGate_succeeds hop
  | glob name argLabel =>
    simp only [opOk, Bool.and_eq_true] at hop
    simp only [plan, hop.1, if_true]
    exact planGate_succeeds hop.2
  | measNS targets =>
    match targets, hop with
    | [], hop => simp [opOk] at hop
    | _ :: _ :: _, hop => simp [opOk] at hop
    | [t0], hop =>
      simp only [opOk, Bool.and_eq_true, decide_eq_true_eq] at hop
      rw [plan_measNS_single hop.1]
      exact planGate_succeeds (gateOk_single hop.2)

theorem step_succeeds {sty : Style} {N C : Nat} {st : St} {op : Op} (hop : opOk v N op = true) (hN : 1 ≤ N) :
    ∃ st', step v sty N C st op = .ok st' := by
  obtain ⟨pl, hpl⟩ := plan_succeeds (p := sty.pad) (C := C) hop
  have hok := plan_ok hop hpl
  unfold step
  rw [hpl]
  have h1 : pl.wl.all (fun x => decide (x < N + C)) = true :=
    List.all_eq_true.mpr fun w hw => by simpa using hok.wl_lt w hw
  have h3 : pl.acts.all (fun x => decide (x.1 < N + C)) = true :=
    List.all_eq_true.mpr fun a ha => by simpa using hok.wl_lt a.1 (hok.acts_sub a ha)
  simp only [h1, h3, Bool.not_true, Bool.false_eq_true, if_false]
  rw [if_neg (by omega)]
  exact ⟨_, rfl⟩

theorem steps_succeeds {sty : Style} {N C : Nat} {ops : List Op} (st : St)
    (hops : ∀ op ∈ ops, opOk v N op = true) (hN : 1 ≤ N) : ∃ st', steps v sty N C st ops = .ok st' := by
  induction ops generalizing st with
  | nil => exact ⟨st, rfl⟩
  | cons op ops ih =>
    obtain ⟨st1, h1⟩ := step_succeeds (sty := sty) (C := C) (st := st) (hops op (List.mem_cons_self ..)) hN
    unfold steps
    rw [h1]
    exact ih st1 (fun o ho => hops o (List.mem_cons_of_mem _ ho))

theorem labels_succeed {sty : Style} {N C : Nat} (hs : styleOk sty N C = true) :
    ∃ st0, addWireLabels sty N C (initSt N C) = .ok st0 := by
  have hlen := wireLabels_length hs
  have hN := styleOk_N hs
  unfold addWireLabels
  have : (wireLabels sty N C).isEmpty = false := by
    cases h : wireLabels sty N C with
    | nil => rw [h] at hlen; simp at hlen; omega
    | cons _ _ => rfl
  simp only [this, Bool.false_eq_true, if_false]
  exact addLabelsFrom_ok _ 0 _ _ (by rw [initSt_length]; omega)

end QipVerif.Render
