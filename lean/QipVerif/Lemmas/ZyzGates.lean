import QipVerif.Gen.ZyzTables
import Mathlib.Analysis.SpecialFunctions.Complex.Arg
import Mathlib.Analysis.SpecialFunctions.Trigonometric.Basic
import Mathlib.LinearAlgebra.Matrix.Notation
import Mathlib.Tactic.Ring
import Mathlib.Tactic.FinCases
import Mathlib.Tactic.LinearCombination

/-!
# C17 — gate matrices over ℂ, denotation of a returned gate tuple, rotation identities

`Rz Ry Rx Xg Ph` are the matrices of `rz ry rx x_gate globalphase` of
`qutip_qip/operations/gates.py` (sampled against the real functions by the harness on every run).
`circDen` is the meaning of "apply the gates in the returned order": the first gate of the tuple
acts first, i.e. it is the right-most factor of the matrix product.
-/
namespace QipVerif.Zyz
open Matrix Complex
open QipVerif.Gen.Zyz

abbrev M2 := Matrix (Fin 2) (Fin 2) ℂ

noncomputable def Rz (x : ℝ) : M2 := !![cexp (-(I * x) / 2), 0; 0, cexp (I * x / 2)]
noncomputable def Ry (x : ℝ) : M2 :=
  !![Complex.cos (x / 2), -Complex.sin (x / 2); Complex.sin (x / 2), Complex.cos (x / 2)]
noncomputable def Rx (x : ℝ) : M2 :=
  !![Complex.cos (x / 2), -(I * Complex.sin (x / 2)); -(I * Complex.sin (x / 2)), Complex.cos (x / 2)]
def Xg : M2 := !![0, 1; 1, 0]
noncomputable def Ph (x : ℝ) : M2 := cexp (I * x) • (1 : M2)

/-- matrix of a named single-qubit gate with argument `x` (ignored by `X`) -/
noncomputable def gateMat : GName → ℝ → M2
  | .RZ, x => Rz x
  | .RY, x => Ry x
  | .RX, x => Rx x
  | .X, _ => Xg
  | .GLOBALPHASE, x => Ph x

/-- the operator of a gate list applied in list order (head first) -/
noncomputable def circDen : List (GName × ℝ) → M2
  | [] => 1
  | g :: gs => circDen gs * gateMat g.1 g.2

/-! ## evaluation of the generated linear forms -/

noncomputable def _root_.QipVerif.Gen.Zyz.Coef.val (c : Coef) : ℝ := (c.num : ℝ) / (c.den : ℝ)

noncomputable def _root_.QipVerif.Gen.Zyz.Lin.eval (l : Lin) (x0 x1 x2 x3 : ℝ) : ℝ :=
  Coef.val l.c0 * x0 + Coef.val l.c1 * x1 + Coef.val l.c2 * x2 + Coef.val l.c3 * x3 + Coef.val l.cpi * Real.pi

/-- instantiate a generated tuple on four angle values -/
noncomputable def inst (t : List GateT) (r0 r1 r2 r3 : ℝ) : List (GName × ℝ) :=
  t.map fun g => (g.name, match g.arg with | some l => l.eval r0 r1 r2 r3 | none => 0)

/-! ## rotation identities -/

theorem Rz_mul (x y : ℝ) : Rz x * Rz y = Rz (x + y) := by
  ext i j
  fin_cases i <;> fin_cases j <;>
    simp [Rz, Matrix.mul_apply, Fin.sum_univ_two] <;>
    (rw [← Complex.exp_add]; congr 1; ring)

theorem Ry_mul (x y : ℝ) : Ry x * Ry y = Ry (x + y) := by
  ext i j
  fin_cases i <;> fin_cases j <;>
    simp [Ry, Matrix.mul_apply, Fin.sum_univ_two, add_div, Complex.cos_add, Complex.sin_add] <;> ring

theorem X_Ry_X (x : ℝ) : Xg * Ry x * Xg = Ry (-x) := by
  ext i j
  fin_cases i <;> fin_cases j <;>
    simp [Xg, Ry, Matrix.mul_apply, Fin.sum_univ_two, neg_div]

theorem X_Rz_X (x : ℝ) : Xg * Rz x * Xg = Rz (-x) := by
  ext i j
  fin_cases i <;> fin_cases j <;>
    simp [Xg, Rz, Matrix.mul_apply, Fin.sum_univ_two, neg_div]

theorem Ry_zero : Ry 0 = 1 := by
  ext i j
  fin_cases i <;> fin_cases j <;> simp [Ry]

/-- `Rz(π/2)·Rx(t)·Rz(−π/2) = Ry(t)` -/
theorem Rz_Rx_Rz (t : ℝ) : Rz (Real.pi / 2) * Rx t * Rz (-(Real.pi / 2)) = Ry t := by
  have h1 : cexp (-(I * ((Real.pi / 2 : ℝ) : ℂ)) / 2) * cexp (-(I * ((Real.pi / 2 : ℝ) : ℂ)) / 2) = -I := by
    rw [← Complex.exp_add, show -(I * ((Real.pi / 2 : ℝ) : ℂ)) / 2 + -(I * ((Real.pi / 2 : ℝ) : ℂ)) / 2
      = -(Real.pi : ℂ) / 2 * I by push_cast; ring, Complex.exp_neg_pi_div_two_mul_I]
  have h2 : cexp (I * ((Real.pi / 2 : ℝ) : ℂ) / 2) * cexp (I * ((Real.pi / 2 : ℝ) : ℂ) / 2) = I := by
    rw [← Complex.exp_add, show I * ((Real.pi / 2 : ℝ) : ℂ) / 2 + I * ((Real.pi / 2 : ℝ) : ℂ) / 2
      = (Real.pi : ℂ) / 2 * I by push_cast; ring, Complex.exp_pi_div_two_mul_I]
  have h3 : cexp (-(I * ((Real.pi / 2 : ℝ) : ℂ)) / 2) * cexp (I * ((Real.pi / 2 : ℝ) : ℂ) / 2) = 1 := by
    rw [← Complex.exp_add, ← Complex.exp_zero]; congr 1; ring
  ext i j
  fin_cases i <;> fin_cases j <;>
    simp only [Rz, Rx, Ry, Matrix.mul_apply, Fin.sum_univ_two, Fin.zero_eta, Fin.mk_one, Fin.isValue,
      Matrix.of_apply, Matrix.cons_val', Matrix.cons_val_zero, Matrix.cons_val_one, Matrix.cons_val_fin_one,
      Complex.ofReal_neg, mul_zero, zero_mul, add_zero, zero_add, mul_neg, neg_neg]
  · linear_combination (Complex.cos (t / 2)) * h3
  · linear_combination (-I * Complex.sin (t / 2)) * h1 + Complex.sin (t / 2) * Complex.I_sq
  · linear_combination (-I * Complex.sin (t / 2)) * h2 - Complex.sin (t / 2) * Complex.I_sq
  · linear_combination (Complex.cos (t / 2)) * h3

/-- **entries of a Z–Y–Z product with a global phase** (matrix order `Ph φ · Rz β · Ry θ · Rz α`,
i.e. circuit order `Rz α, Ry θ, Rz β, phase`). -/
theorem prod_entries (α θ β φ : ℝ) :
    Ph φ * (Rz β * (Ry θ * Rz α)) =
      cexp (I * φ) • !![cexp (-(I * ((α + β) / 2))) * Complex.cos (θ / 2),
                          -(cexp (I * ((α - β) / 2)) * Complex.sin (θ / 2));
                        cexp (-(I * ((α - β) / 2))) * Complex.sin (θ / 2),
                          cexp (I * ((α + β) / 2)) * Complex.cos (θ / 2)] := by
  ext i j
  fin_cases i <;> fin_cases j <;>
    simp [Ph, Rz, Ry, Matrix.mul_apply, Fin.sum_univ_two, Matrix.smul_apply] <;>
    (rw [mul_left_comm, ← Complex.exp_add, mul_comm]; congr 2; ring)

end QipVerif.Zyz
