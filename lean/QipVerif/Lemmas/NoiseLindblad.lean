import Mathlib.LinearAlgebra.Matrix.ConjTranspose
import Mathlib.LinearAlgebra.Matrix.Hermitian
import Mathlib.LinearAlgebra.Matrix.Trace
import Mathlib.LinearAlgebra.Matrix.Notation
import Mathlib.Data.Complex.Basic
import Mathlib.Tactic.Ring
import Mathlib.Tactic.FinCases
import Mathlib.Tactic.LinearCombination
/-! Lindblad dissipators over ℂ-matrices (C15): general trace / Hermiticity facts and the explicit
2×2 and 3×3 generators of T1/T2 relaxation (`destroy(d)`, `num(d)`). -/
namespace QipVerif.Noise
open Matrix

section General
set_option linter.unusedSectionVars false
variable {n : Type} [Fintype n] [DecidableEq n]

/-- `D[L]ρ = LρL† − ½{L†L, ρ}` -/
noncomputable def dissipator (L ρ : Matrix n n ℂ) : Matrix n n ℂ :=
  L * ρ * Lᴴ - (1 / 2 : ℂ) • (Lᴴ * L * ρ + ρ * (Lᴴ * L))

theorem trace_dissipator (L ρ : Matrix n n ℂ) : (dissipator L ρ).trace = 0 := by
  unfold dissipator
  rw [trace_sub, trace_smul, trace_add]
  have h1 : (L * ρ * Lᴴ).trace = (Lᴴ * L * ρ).trace := by
    rw [Matrix.trace_mul_comm, ← Matrix.mul_assoc]
  have h2 : (ρ * (Lᴴ * L)).trace = (Lᴴ * L * ρ).trace := Matrix.trace_mul_comm _ _
  rw [h1, h2, smul_eq_mul]; ring

theorem dissipator_conjTranspose (L ρ : Matrix n n ℂ) (hρ : ρᴴ = ρ) :
    (dissipator L ρ)ᴴ = dissipator L ρ := by
  unfold dissipator
  simp only [conjTranspose_sub, conjTranspose_smul, conjTranspose_add, conjTranspose_mul,
    conjTranspose_conjTranspose, hρ, Matrix.mul_assoc]
  have : star (1 / 2 : ℂ) = 1 / 2 := by simp
  rw [this, add_comm]

/-- `D[c·A] = c² D[A]` for a real prefactor `c` (the code's `1/√t1`, `2/√(2 T2_eff)`) -/
theorem dissipator_smul (c : ℝ) (A ρ : Matrix n n ℂ) :
    dissipator ((c : ℂ) • A) ρ = ((c ^ 2 : ℝ) : ℂ) • dissipator A ρ := by
  unfold dissipator
  simp only [conjTranspose_smul, Matrix.smul_mul, Matrix.mul_smul, smul_smul, smul_sub, smul_add,
    Complex.star_def, Complex.conj_ofReal]
  congr 1 <;> (try congr 1) <;> push_cast <;> ring_nf

/-- Lindblad generator `−i[H,ρ] + Σ γ_k D[A_k]ρ` -/
noncomputable def generator (H : Matrix n n ℂ) (ops : List (ℝ × Matrix n n ℂ)) (ρ : Matrix n n ℂ) :
    Matrix n n ℂ :=
  (-Complex.I) • (H * ρ - ρ * H) + (ops.map fun o => ((o.1 : ℂ)) • dissipator o.2 ρ).sum

theorem trace_generator (H : Matrix n n ℂ) (ops : List (ℝ × Matrix n n ℂ)) (ρ : Matrix n n ℂ) :
    (generator H ops ρ).trace = 0 := by
  unfold generator
  rw [trace_add, trace_smul, trace_sub, Matrix.trace_mul_comm H ρ, sub_self, smul_zero, zero_add]
  induction ops with
  | nil => simp
  | cons o os ih => simp [trace_add, trace_smul, trace_dissipator, ih]

theorem generator_conjTranspose (H : Matrix n n ℂ) (ops : List (ℝ × Matrix n n ℂ)) (ρ : Matrix n n ℂ)
    (hH : Hᴴ = H) (hρ : ρᴴ = ρ) : (generator H ops ρ)ᴴ = generator H ops ρ := by
  unfold generator
  rw [conjTranspose_add]
  congr 1
  · simp only [conjTranspose_smul, conjTranspose_sub, conjTranspose_mul, hH, hρ]
    simp only [Complex.star_def, map_neg, Complex.conj_I, neg_neg]
    rw [← neg_sub (H * ρ) (ρ * H), smul_neg, neg_smul]
  · induction ops with
    | nil => simp
    | cons o os ih =>
      simp only [List.map_cons, List.sum_cons, conjTranspose_add, ih, conjTranspose_smul,
        dissipator_conjTranspose _ _ hρ, Complex.star_def, Complex.conj_ofReal]

end General

/-! ## Qubit (d = 2): `destroy(2)`, `num(2)` -/

def a2 : Matrix (Fin 2) (Fin 2) ℂ := !![0, 1; 0, 0]
def n2 : Matrix (Fin 2) (Fin 2) ℂ := !![0, 0; 0, 1]

/-- generator of relaxation on one qubit with squared prefactors `γ1` (destroy) and `γφ` (num) -/
noncomputable def relaxGen2 (γ1 γφ : ℝ) (ρ : Matrix (Fin 2) (Fin 2) ℂ) : Matrix (Fin 2) (Fin 2) ℂ :=
  (γ1 : ℂ) • dissipator a2 ρ + (γφ : ℂ) • dissipator n2 ρ

theorem relaxGen2_apply (γ1 γφ : ℝ) (ρ : Matrix (Fin 2) (Fin 2) ℂ) :
    relaxGen2 γ1 γφ ρ 0 0 = γ1 * ρ 1 1 ∧
    relaxGen2 γ1 γφ ρ 1 1 = -(γ1 * ρ 1 1) ∧
    relaxGen2 γ1 γφ ρ 0 1 = -((γ1 / 2 + γφ / 2) * ρ 0 1) ∧
    relaxGen2 γ1 γφ ρ 1 0 = -((γ1 / 2 + γφ / 2) * ρ 1 0) := by
  refine ⟨?_, ?_, ?_, ?_⟩ <;>
  · simp only [relaxGen2, dissipator, Matrix.add_apply, Matrix.sub_apply, Matrix.smul_apply,
      Matrix.mul_apply, Fin.sum_univ_two, Matrix.conjTranspose_apply, smul_eq_mul]
    simp [a2, n2]
    try ring

/-! ## Qutrit (d = 3): `destroy(3)` (with `s = √2`), `num(3)` -/

def a3 (s : ℝ) : Matrix (Fin 3) (Fin 3) ℂ := !![0, 1, 0; 0, 0, (s : ℂ); 0, 0, 0]
def n3 : Matrix (Fin 3) (Fin 3) ℂ := !![0, 0, 0; 0, 1, 0; 0, 0, 2]

noncomputable def relaxGen3 (s γ1 γφ : ℝ) (ρ : Matrix (Fin 3) (Fin 3) ℂ) : Matrix (Fin 3) (Fin 3) ℂ :=
  (γ1 : ℂ) • dissipator (a3 s) ρ + (γφ : ℂ) • dissipator n3 ρ

macro "expand3" : tactic => `(tactic|
  (simp only [relaxGen3, dissipator, Matrix.add_apply, Matrix.sub_apply, Matrix.smul_apply,
      Matrix.mul_apply, Fin.sum_univ_three, Matrix.conjTranspose_apply, smul_eq_mul]
   simp [a3, n3]))

theorem relaxGen3_pop (s γ1 γφ : ℝ) (hs : s * s = 2) (ρ : Matrix (Fin 3) (Fin 3) ℂ) :
    relaxGen3 s γ1 γφ ρ 0 0 = γ1 * ρ 1 1 ∧
    relaxGen3 s γ1 γφ ρ 1 1 = γ1 * (2 * ρ 2 2 - ρ 1 1) ∧
    relaxGen3 s γ1 γφ ρ 2 2 = -(2 * γ1 * ρ 2 2) := by
  have hs' : (s : ℂ) * (s : ℂ) = 2 := by exact_mod_cast hs
  refine ⟨?_, ?_, ?_⟩
  · expand3
  · expand3
    linear_combination (γ1 * ρ 2 2 : ℂ) * hs'
  · expand3
    linear_combination (-(γ1 * ρ 2 2) : ℂ) * hs'

theorem relaxGen3_coh (s γ1 γφ : ℝ) (hs : s * s = 2) (ρ : Matrix (Fin 3) (Fin 3) ℂ) :
    relaxGen3 s γ1 γφ ρ 0 1 = -((γ1 / 2 + γφ / 2) * ρ 0 1) + γ1 * s * ρ 1 2 ∧
    relaxGen3 s γ1 γφ ρ 1 2 = -((3 * γ1 / 2 + γφ / 2) * ρ 1 2) ∧
    relaxGen3 s γ1 γφ ρ 0 2 = -((γ1 + 2 * γφ) * ρ 0 2) := by
  have hs' : (s : ℂ) * (s : ℂ) = 2 := by exact_mod_cast hs
  refine ⟨?_, ?_, ?_⟩
  · expand3
    ring
  · expand3
    linear_combination (-(γ1 / 2) * ρ 1 2 : ℂ) * hs'
  · expand3
    linear_combination (-(γ1 / 2) * ρ 0 2 : ℂ) * hs'

end QipVerif.Noise
