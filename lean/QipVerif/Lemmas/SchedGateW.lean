import QipVerif.Lemmas.SchedGate
/-!
# The gate schedule for an arbitrary list of constraint functions (C05)

GENERATED ONCE from `Lemmas/SchedGate.lean` by replacing the default relation `shareIdx ns` ("not `qubit_constraint`") by an
arbitrary relation `sh` ("not `apply_constraint`"): partition, order and the same-product theorem hold for every `sh`;
exclusivity (`cyclesGenW_disjoint`) needs `shareIdx ns ⊆ sh`, i.e. `qubit_constraint` among the constraint functions;
`cyclesGenW_respects`: inside a cycle every later member was approved against every earlier one.
-/
namespace QipVerif.Sched
open Relation

variable (sh : Nat → Nat → Bool) (alap allowPerm : Bool) (ns : List Ins)

/-! ## the returned cycles -/

section cycles
variable (O2 : Nat → List Nat → List Nat) (hO : ∀ r l, (O2 r l).Perm l)
include hO

theorem pass2W_perm : (pass2W sh alap allowPerm ns O2).1.flatten.Perm (List.range ns.length) :=
  topo_perm O2 hO true (passKey alap ns.length) (fun _ _ hi hj h => passEdges_key alap allowPerm ns hi hj h)

/-- **(a) partition** -/
theorem cyclesGenW_perm : (cyclesGenW sh alap allowPerm ns O2).flatten.Perm (List.range ns.length) := by
  have h := pass2W_perm sh alap allowPerm ns O2 hO
  unfold cyclesGenW
  simp only
  split
  · exact (List.reverse_perm _).flatten.trans h
  · exact h

theorem cyclesGenW_nodup : (cyclesGenW sh alap allowPerm ns O2).flatten.Nodup :=
  (List.Perm.nodup_iff (cyclesGenW_perm sh alap allowPerm ns O2 hO)).mpr List.nodup_range

omit hO in
/-- **(b) every cycle respects the constraints**: a later member of a cycle was approved against every earlier one
(`apply_constraint(later, earlier)` answered `True`) -/
theorem cyclesGenW_respects : ∀ c ∈ cyclesGenW sh alap allowPerm ns O2, c.Pairwise (fun a b => sh b a = false) := by
  intro c hc
  have hc' : c ∈ (pass2W sh alap allowPerm ns O2).1 := by
    unfold cyclesGenW at hc
    simp only at hc
    split at hc
    · exact List.mem_reverse.mp hc
    · exact hc
  exact topo_pairwise (n := ns.length) (E := (passEdges alap allowPerm ns).has) (sh := sh) O2 c
    (by simpa [pass2W] using hc')

omit hO in
/-- **(b′) exclusivity** as soon as sharing a qubit is forbidden by the constraints (`qubit_constraint` is among them) -/
theorem cyclesGenW_disjoint (hq : ∀ i j, shareIdx ns i j = true → sh i j = true) :
    ∀ c ∈ cyclesGenW sh alap allowPerm ns O2, ∀ i ∈ c, ∀ j ∈ c, i ≠ j → shareIdx ns i j = false := by
  intro c hc
  have hp := cyclesGenW_respects sh alap allowPerm ns O2 c hc
  have hp' : c.Pairwise (fun a b => shareIdx ns b a = false) := by
    refine hp.imp ?_
    intro a b hab
    cases h : shareIdx ns b a with
    | false => rfl
    | true => rw [hq b a h] at hab; cases hab
  have : Std.Symm (fun a b => shareIdx ns b a = false) :=
    ⟨fun a b hab => by rw [shareIdx, share_symm]; exact hab⟩
  intro i hi j hj hij
  have := hp'.forall hi hj hij
  rw [shareIdx, share_symm]; exact this

/-- a dependency edge puts its source in a strictly earlier cycle of the *returned* list (ASAP and ALAP) -/
theorem cyclesGenW_edge_pos {x y : Nat} (h : (x, y) ∈ depEdges allowPerm ns) :
    posOf (cyclesGenW sh alap allowPerm ns O2) x < posOf (cyclesGenW sh alap allowPerm ns O2) y := by
  obtain ⟨hxy, hy⟩ := depEdges_forward allowPerm ns h
  have hx : x < ns.length := by omega
  have hkey := fun (i j : Nat) (hi : i < ns.length) (hj : j < ns.length) h =>
    passEdges_key alap allowPerm ns (i := i) (j := j) hi hj h
  unfold cyclesGenW
  simp only
  cases alap with
  | false =>
    simp only [Bool.false_eq_true, if_false]
    apply topo_edge_pos O2 hO true (passKey false ns.length) hkey hx hy
    simpa [passEdges] using Edges.has_iff.mpr h
  | true =>
    simp only [if_true]
    have hnd := topo_nodup (sh := sh) O2 hO true (passKey true ns.length) hkey
    have hmx := topo_mem (sh := sh) O2 hO true (passKey true ns.length) hkey hx
    have hmy := topo_mem (sh := sh) O2 hO true (passKey true ns.length) hkey hy
    have hpos := topo_edge_pos (sh := sh) O2 hO true (passKey true ns.length) hkey hy hx
      (by simp only [passEdges, if_true]; rw [Edges.rev_has]; exact Edges.has_iff.mpr h)
    unfold pass2W
    rw [posOf_reverse hnd hmx, posOf_reverse hnd hmy]
    have := posOf_lt_length hmx
    omega

theorem cyclesGenW_path_pos {x y : Nat} (h : TransGen (fun a b => (a, b) ∈ depEdges allowPerm ns) x y) :
    posOf (cyclesGenW sh alap allowPerm ns O2) x < posOf (cyclesGenW sh alap allowPerm ns O2) y := by
  induction h with
  | single h1 => exact cyclesGenW_edge_pos sh alap allowPerm ns O2 hO h1
  | tail _ h2 ih => exact Nat.lt_trans ih (cyclesGenW_edge_pos sh alap allowPerm ns O2 hO h2)

/-- **(c) order**: `i < j` share a qubit and are not declared commuting ⇒ `cycle i < cycle j` -/
theorem cyclesGenW_order {i j : Nat} (hij : i < j) (hj : j < ns.length) (hs : shareIdx ns i j = true)
    (hc : commIdx allowPerm ns j i = false) :
    posOf (cyclesGenW sh alap allowPerm ns O2) i < posOf (cyclesGenW sh alap allowPerm ns O2) j := by
  rcases depEdges_order allowPerm ns hij hj hs with h | h
  · rw [hc] at h; exact absurd h (by simp)
  · exact cyclesGenW_path_pos sh alap allowPerm ns O2 hO h

end cycles

/-! ## same product -/

/-- **(e)** over any monoid: with H1 (instructions on disjoint qubits commute) and H2 (pairs declared
commuting by the rule commute), the scheduled order has the same product as the original order. -/
theorem cyclesGenW_prod {M : Type*} [Monoid M] (g : Nat → M)
    (O2 : Nat → List Nat → List Nat) (hO : ∀ r l, (O2 r l).Perm l)
    (H1 : ∀ i j, i < ns.length → j < ns.length → shareIdx ns i j = false → Commute (g i) (g j))
    (H2 : ∀ i j, i < j → j < ns.length → shareIdx ns i j = true → commIdx allowPerm ns j i = true →
      Commute (g i) (g j)) :
    ((cyclesGenW sh alap allowPerm ns O2).flatten.map g).prod = ((List.range ns.length).map g).prod := by
  symm
  apply trace_lemma g _ _ (cyclesGenW_perm sh alap allowPerm ns O2 hO).symm
  intro i j hb hb'
  obtain ⟨hij, hj⟩ := before_range hb
  by_cases hs : shareIdx ns i j = true
  · by_cases hc : commIdx allowPerm ns j i = true
    · exact H2 i j hij hj hs hc
    · exfalso
      have h1 := cyclesGenW_order sh alap allowPerm ns O2 hO hij hj hs (by simpa using hc)
      have h2 := posOf_le_of_sublist (cyclesGenW_nodup sh alap allowPerm ns O2 hO) hb'
      omega
  · exact H1 i j (by omega) hj (by simpa using hs)

end QipVerif.Sched
