import QipVerif.Lemmas.QasmDenN
/-!
# Denotation of one call of a gate of the standard on an N-qubit register (C04, C10)

`call_den`: if the *generic* expansion of a definition (formal parameters as identifiers, local
qubits `0 … k−1`) denotes `M` on `k` qubits under the environment that gives the formal
parameters the values of the actual ones, then the call `name(ps) qs` on pairwise distinct qubits
`qs` of an `N`-qubit register expands to built-ins that denote `M` embedded along `qs`
(naturality of `expandCall` + localisation `denPrims_relabel`).
-/
namespace QipVerif.Qasm
open Matrix QipVerif

/-- the empty environment: closed expressions only -/
def ρ0 : Str → ℝ := fun _ => 0

/-- environment after a substitution -/
noncomputable def substEnv (τ : List (Str × Expr)) (ρ : Str → ℝ) : Str → ℝ := fun s =>
  match τ.find? (fun e => e.1 == s) with
  | some x => x.2.eval ρ
  | none => ρ s

theorem Expr.eval_subst (τ : List (Str × Expr)) (ρ : Str → ℝ) (e : Expr) :
    (e.subst τ).eval ρ = e.eval (substEnv τ ρ) := by
  induction e with
  | id s =>
    simp only [Expr.subst, Expr.eval, substEnv]
    cases τ.find? (fun e => e.1 == s) <;> rfl
  | neg e ih => simp [Expr.subst, Expr.eval, ih]
  | add a b iha ihb | sub a b iha ihb | mul a b iha ihb | div a b iha ihb =>
    simp [Expr.subst, Expr.eval, iha, ihb]
  | _ => rfl

theorem substEnv_ρ0 (ks : List Str) (es : List Expr) :
    substEnv (ks.zip es) ρ0 = envOf (ks.zip (es.map (fun e => e.eval ρ0))) := by
  funext s
  simp only [substEnv, envOf]
  rw [find_zip_map (fun e : Expr => e.eval ρ0) (fun k => k == s) ks es]
  cases (ks.zip es).find? (fun e => e.1 == s) <;> rfl

theorem primPG_substP (N : ℕ) (τ : List (Str × Expr)) (ρ : Str → ℝ) (p : Prim) :
    primPG N ρ (Prim.substP τ p) = primPG N (substEnv τ ρ) p := by
  cases p with
  | U a b c q => simp only [Prim.substP, primPG, Expr.eval_subst]
  | CX a b => rfl

theorem denPrims_substP (N : ℕ) (τ : List (Str × Expr)) (ρ : Str → ℝ) (ps : List Prim) :
    denPrims N ρ (ps.map (Prim.substP τ)) = denPrims N (substEnv τ ρ) ps := by
  simp only [denPrims, List.mapM_map]
  congr 2
  funext p
  exact primPG_substP N τ ρ p

/-- **one call on an N-qubit register** -/
theorem call_den (gates : List GateDef) (hwf : gates.all defWf = true) (name : Str) (d : GateDef)
    (hd : gates.find? (fun x => x.name == name) = some d) (ps : List Expr) (qs : List Nat)
    (hp : d.params.length = ps.length) (hq : qs.length = d.qargs.length)
    (N : ℕ) (hn : qs.Nodup) (hr : ∀ q ∈ qs, q < N)
    (prims0 : List Prim)
    (h0 : expandCall gates name (d.params.map Expr.id) (List.range d.qargs.length) = .ok prims0)
    (M : Matrix (St d.qargs.length) (St d.qargs.length) ℂ)
    (hM : denPrims d.qargs.length (envOf (d.params.zip (ps.map (fun e => e.eval ρ0)))) prims0 = some M) :
    ∃ prims, expandCall gates name ps qs = .ok prims ∧
      denPrims N ρ0 prims = some ((tgL N qs d.qargs.length hq hn hr).embed M) := by
  have hinst := expandCall_instance gates hwf d hd ps qs hp hq.symm
  rw [h0] at hinst
  refine ⟨_, hinst, ?_⟩
  have e : prims0.map (fun p => Prim.mapQ (fun i => qs.getD i 0) (Prim.substP (d.params.zip ps) p)) =
      (prims0.map (Prim.substP (d.params.zip ps))).map (Prim.mapQ (fun i => qs.getD i 0)) := by
    rw [List.map_map]; rfl
  rw [e]
  apply denPrims_relabel (tgL N qs d.qargs.length hq hn hr) (fun i => qs.getD i 0)
  · intro i
    have hi : i.val < qs.length := by rw [hq]; exact i.isLt
    simp [tgL, List.getD_eq_getElem?_getD, List.getElem?_eq_getElem hi]
  · rw [denPrims_substP, substEnv_ρ0]
    exact hM

/-! ## the definitions that matter -/

theorem expandBody_congr (rest rest' : List GateDef) (σ : List (Str × Expr)) (q : Str → Nat) :
    ∀ body : List GOp,
      (∀ g ∈ body, ∀ nm ps' qs', g = GOp.call nm ps' qs' →
        ∀ ps qs, expandCall rest nm ps qs = expandCall rest' nm ps qs) →
      expandBody rest σ q body = expandBody rest' σ q body := by
  intro body
  induction body with
  | nil => intro _; rfl
  | cons g gs ih =>
    intro h
    have hg : expandG rest σ q g = expandG rest' σ q g := by
      cases g with
      | call nm ps' qs' => exact h _ (by simp) nm ps' qs' rfl _ _
      | _ => rfl
    simp only [expandBody, hg, ih (fun g' hg' => h g' (by simp [hg']))]

/-- a definition in front of intermediate definitions its body does not call -/
theorem expandCall_head_skip (d : GateDef) (B Q : List GateDef) (ps : List Expr) (qs : List Nat)
    (h : ∀ g ∈ d.body, ∀ nm ps' qs', g = GOp.call nm ps' qs' → ∀ b ∈ B, (b.name == nm) = false) :
    expandCall (d :: (B ++ Q)) d.name ps qs = expandCall (d :: Q) d.name ps qs := by
  rw [expandCall_cons, expandCall_cons]
  simp only [beq_self_eq_true, if_true]
  split
  · rfl
  · exact expandBody_congr _ _ _ _ d.body (fun g hg nm ps' qs' he ps2 qs2 =>
      expandCall_skip B Q nm ps2 qs2 (h g hg nm ps' qs' he))

end QipVerif.Qasm
