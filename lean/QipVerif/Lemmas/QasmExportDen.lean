import QipVerif.Lemmas.QasmCallDen
import QipVerif.Lemmas.QasmXSem
import QipVerif.Lemmas.QasmExportSem
/-!
# The exported program has the circuit's unitary (C10) — assembly

From the per-definition facts `LocalSound` (generic expansion of the QASM gate on its local qubits
= compact matrix of the library gate, up to a phase) to the whole exported program on the
`c.N`-qubit register: naturality of `expandCall` + localisation, gate by gate, phases multiplied.
-/
namespace QipVerif.Qasm.Export
open QipVerif QipVerif.Qasm Matrix

/-- library name ↦ name of the circuit IR -/
def gnameOf (n : Str) : GName :=
  if n == cs!"QASMU" then .QASMU else if n == cs!"RX" then .RX else if n == cs!"RY" then .RY
  else if n == cs!"RZ" then .RZ else if n == cs!"SNOT" then .SNOT else if n == cs!"X" then .X
  else if n == cs!"Y" then .Y else if n == cs!"Z" then .Z else if n == cs!"S" then .S
  else if n == cs!"T" then .T else if n == cs!"SQRTNOT" then .SQRTNOT else if n == cs!"CNOT" then .CNOT
  else if n == cs!"CRX" then .CRX else if n == cs!"CRY" then .CRY else if n == cs!"CRZ" then .CRZ
  else if n == cs!"CS" then .CS else if n == cs!"CT" then .CT else if n == cs!"SWAP" then .SWAP
  else if n == cs!"TOFFOLI" then .TOFFOLI else if n == cs!"CSIGN" then .CSIGN else if n == cs!"CZ" then .CZ
  else .other (String.ofList n)

/-- `gnameOf` is `GName.ofString` on the exportable names -/
theorem gnameOf_ofString : ∀ e ∈ exportShape, gnameOf e.1 = GName.ofString (String.ofList e.1) := by decide

/-- real value of a printed number -/
noncomputable def numVal (x : Num) : ℝ := (numExpr x).eval ρ0

/-- the gate of the circuit as a gate of the specification `denX` -/
noncomputable def xOf (g : Gate) : XGate := ⟨gnameOf g.name, qubitsOf g, (argNums g.arg).map numVal⟩

noncomputable def xOfOp : Op → Option XGate
  | .gate g => some (xOf g)
  | _ => none

/-- definitions needed to expand the QASM gate of a library gate: `qelib1.inc`, preceded by the emitted
definition if there is one -/
def localGates (n : Str) : List GateDef :=
  match defOf n with
  | some d => d :: qelib1.reverse
  | none => qelib1.reverse

/-- **per-definition soundness**: the generic expansion of the QASM gate standing for the library gate
`n` denotes, on its local qubits and for all values of the formal parameters, the compact matrix of
the library gate up to one phase -/
def LocalSound (n : Str) : Prop :=
  ∃ d nc nt np k, (localGates n).find? (fun x => x.name == qasmName n) = some d ∧
    shapeOf n = some (nc, nt, np) ∧ d.params.length = np ∧ d.qargs.length = k ∧ k = nc + nt ∧
    ∀ vals : List ℝ, vals.length = np →
      ∃ prims0 M U,
        expandCall (localGates n) (qasmName n) (d.params.map Expr.id) (List.range k) = .ok prims0 ∧
        denPrims k (envOf (d.params.zip vals)) prims0 = some M ∧
        compactX (gnameOf n) vals = some ⟨k, U⟩ ∧ PhaseEqN M U

/-- all definitions involved are well formed (bodies mention their own formals only) -/
theorem localGates_wf : ∀ e ∈ exportShape, (localGates e.1).all defWf = true := by decide

/-! ## from the final environment to the local definitions -/

/-- the emitted definitions in the final environment -/
def addedDefs (c : Circuit) : List GateDef := ((addedNames c.ops Gen.gateNameToQasm).filterMap defOf).reverse

theorem finalEnv_gates (c : Circuit) : (finalEnv c).gates = addedDefs c ++ qelib1.reverse := rfl

theorem addedDefs_table {c : Circuit} {x : GateDef} (hx : x ∈ addedDefs c) :
    ∃ n s, lookup Gen.qasmDefns n = some s ∧ defOf n = some x ∧ x.name = lower n := by
  obtain ⟨n, _, hdef⟩ := mem_added_defs hx
  obtain ⟨s, hs⟩ := defOf_some_lookup hdef
  obtain ⟨d2, _, _, _, hd2, _, _, hname, _⟩ := def_facts hs
  rw [hdef] at hd2; cases hd2
  exact ⟨n, s, hs, hdef, hname⟩

/-- a table definition anywhere in a list of table definitions is as good as in front of `qelib1.inc` -/
theorem expandCall_tableDefs (L : List GateDef) (d : GateDef) (n s : Str)
    (hs : lookup Gen.qasmDefns n = some s) (hd : defOf n = some d) (hname : d.name = lower n)
    (hL : ∀ x ∈ L, ∃ n' s', lookup Gen.qasmDefns n' = some s' ∧ defOf n' = some x ∧ x.name = lower n')
    (hin : d ∈ L) (ps : List Expr) (qs : List Nat) :
    expandCall (L ++ qelib1.reverse) d.name ps qs = expandCall (d :: qelib1.reverse) d.name ps qs := by
  induction L with
  | nil => cases hin
  | cons x L ih =>
    obtain ⟨n', s', hs', hd', hname'⟩ := hL x (by simp)
    by_cases hxd : (x.name == d.name) = true
    · -- the same definition
      have hnn : n' = n := by
        have : lower n' = lower n := by
          rw [← hname', ← hname]; simpa using hxd
        exact lower_inj_on_defs _ (lookup_mem hs') _ (lookup_mem hs) this
      subst hnn
      rw [hd] at hd'; cases hd'
      rw [List.cons_append]
      apply expandCall_head_skip
      intro g hg nm ps' qs' he b hb
      obtain ⟨nb, sb, hsb, hdb, hnb⟩ := hL b (by simp [hb])
      have hc := callees_ok
      simp only [calleesOk, List.all_eq_true] at hc
      have h1 := hc _ (lookup_mem hs)
      simp only [hd, List.all_eq_true] at h1
      have h2 := h1 g hg
      subst he
      simp only [List.all_eq_true, bne_iff_ne, ne_eq] at h2
      have := h2 _ (lookup_mem hsb)
      rw [hnb]
      simpa using this
    · have hxd' : (x.name == d.name) = false := by simpa using hxd
      rw [List.cons_append, expandCall_cons, hxd']
      simp only [Bool.false_eq_true, if_false]
      apply ih (fun y hy => hL y (by simp [hy]))
      rcases List.mem_cons.mp hin with h | h
      · subst h; simp at hxd
      · exact h

/-- **the final environment behaves like the local definitions** for the QASM gate of a gate of the circuit -/
theorem expandCall_final (c : Circuit) (hc : GoodCircuit c) (g : Gate) (hg : Op.gate g ∈ c.ops)
    (hgood : GoodGate c.N g) (hU : qasmName g.name ≠ cs!"U") (ps : List Expr) (qs : List Nat) :
    expandCall (finalEnv c).gates (qasmName g.name) ps qs = expandCall (localGates g.name) (qasmName g.name) ps qs := by
  rw [finalEnv_gates]
  have hmem := shapeOf_mem hgood.shape
  rcases shape_names _ hmem with ⟨h1, h2⟩ | ⟨h1, h2⟩
  · -- a `qelib1.inc` gate: no emitted definition has that name
    obtain ⟨q, hq⟩ := Option.isSome_iff_exists.mp h1
    have hqn : qasmName g.name = q := by simp [qasmName, hq]
    have hnone : lookup Gen.qasmDefns g.name = none := by simpa using h2
    have hloc : localGates g.name = qelib1.reverse := by simp [localGates, defOf, hnone]
    rw [hloc]
    apply expandCall_skip
    intro x hx
    obtain ⟨n, s, hs, _, hname⟩ := addedDefs_table hx
    have hb := List.all_eq_true.mp base_ok _ (lookup_mem hq)
    simp only [baseEntryOk, Bool.or_eq_true, beq_iff_eq, Bool.and_eq_true] at hb
    rcases hb with hb | ⟨_, hb2⟩
    · exact absurd (hqn.trans hb) hU
    · have := List.all_eq_true.mp hb2 _ (lookup_mem hs)
      rw [hname, hqn]
      simpa using this
  · obtain ⟨s, hs⟩ := Option.isSome_iff_exists.mp h2
    obtain ⟨d, nc, nt, np, hd, _, _, hname, _⟩ := def_facts hs
    have h1' : lookup Gen.gateNameToQasm g.name = none := by simpa using h1
    have hqn : qasmName g.name = d.name := by simp [qasmName, h1', hname]
    have hloc : localGates g.name = d :: qelib1.reverse := by simp [localGates, hd]
    have hin : g.name ∈ addedNames c.ops Gen.gateNameToQasm := by
      rcases addedNames_mem c.ops Gen.gateNameToQasm g hg with h | h
      · rw [h1'] at h; cases h
      · exact h
    have hdin : d ∈ addedDefs c := by
      simp only [addedDefs, List.mem_reverse, List.mem_filterMap]
      exact ⟨g.name, hin, hd⟩
    rw [hloc, hqn]
    exact expandCall_tableDefs (addedDefs c) d g.name s hs hd hname (fun x hx => addedDefs_table hx) hdin ps qs

/-! ## one gate -/

theorem numExpr_eval (x : Num) : (numExpr x).eval ρ0 = numVal x := rfl

/-- a gate of the class with a QASM gate other than the built-in `U` -/
theorem gate_den (c : Circuit) (hc : GoodCircuit c) (g : Gate) (hg : Op.gate g ∈ c.ops) (hgood : GoodGate c.N g)
    (hU : qasmName g.name ≠ cs!"U") (hls : LocalSound g.name) :
    ∃ prims A G, expandCall (finalEnv c).gates (qasmName g.name) ((argNums g.arg).map numExpr) (qubitsOf g) = .ok prims ∧
      denPrims c.N ρ0 prims = some A ∧ semX c.N (xOf g) = some G ∧ PhaseEqN A G.den := by
  obtain ⟨d, nc, nt, np, k, hfind, hshape, hnp, hk, hnq', hall⟩ := hls
  subst hk
  have hnq : d.qargs.length = nc + nt := hnq'
  have hsh := hgood.shape
  rw [hshape] at hsh
  simp only [Option.some.injEq, Prod.mk.injEq] at hsh
  obtain ⟨hc1, hc2, hc3⟩ := hsh
  obtain ⟨t, ts, ht⟩ := targets_ne_nil hgood
  have hql : (qubitsOf g).length = d.qargs.length := by
    simp only [qubitsOf, List.length_append]
    rw [hnq, hc1, hc2]
  have hpl : d.params.length = ((argNums g.arg).map numExpr).length := by
    simp [hnp, hc3]
  obtain ⟨prims0, M, U, h0, hM, hcx, hph⟩ := hall ((argNums g.arg).map numVal) (by simp [hc3])
  have hwf := localGates_wf _ (shapeOf_mem hgood.shape)
  have hvals : ((argNums g.arg).map numExpr).map (fun e => e.eval ρ0) = (argNums g.arg).map numVal := by
    simp [List.map_map, Function.comp, numExpr_eval]
  obtain ⟨prims, hex, hden⟩ := call_den (localGates g.name) hwf (qasmName g.name) d hfind
    ((argNums g.arg).map numExpr) (qubitsOf g) hpl hql c.N hgood.nodup hgood.range prims0 h0 M
    (by rw [hvals]; exact hM)
  refine ⟨prims, _, _, ?_, hden, semX_of c.N (xOf g) d.qargs.length U hcx hql hgood.nodup hgood.range, ?_⟩
  · rw [expandCall_final c hc g hg hgood hU]; exact hex
  · exact PhaseEqN.embed _ hph

end QipVerif.Qasm.Export
