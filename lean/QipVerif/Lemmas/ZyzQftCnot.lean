import QipVerif.Lemmas.ZyzQftDft
import QipVerif.Lemmas.ZyzQftList

/-!
# C17 — operator level: circuit = product of the step operators; CNOT expansion on N qubits

* `cnotExp_den`: on an `N`-qubit register, for every control `c ≠ t`, the six gates of
  `_cphase_to_cnot([t],[c],π/2^k)` multiply to `e^{iλ/2}·CPHASE_{c,t}(λ)`, `λ = π/2^k`
  (localisation of the 4×4 identity `cnot_expansion_identity` through `Tg.embed`);
* `stepsDen`: product of the operators of a step list (`qft_steps`); `flatMap_false_den`,
  `flatMap_true_den`: the circuit built from a step list denotes that product, times the recorded
  global phases when controlled phases are expanded into CNOTs;
* `qft_cnot_den`: `qft_gate_sequence(N, True, to_cnot=True)` denotes `e^{iφ_N}·DFT`.
-/
namespace QipVerif.QftDen
open Matrix Complex
open QipVerif QipVerif.Zyz QipVerif.Gen.Zyz

variable {N : ℕ}

/-! ## one- and two-qubit operators inside a pair placement -/

theorem single_one_embed (A : M2) : (single (1 : Fin 2)).embed (of2 A) = of4 (onT A) := by
  ext x y
  rw [Tg.embed_apply]
  have hc : (∀ i, i ∉ Set.range (single (1 : Fin 2)).f → x i = y i) ↔ x 0 = y 0 := by
    simp only [mem_range_single]
    constructor
    · intro h; exact h 0 (by decide)
    · intro h i hi
      fin_cases i
      · exact h
      · exact absurd rfl hi
  show A (x 1) (y 1) * _ = if x 0 = y 0 then A (x 1) (y 1) else 0
  by_cases h : x 0 = y 0
  · rw [if_pos h, if_pos (hc.mpr h), mul_one]
  · rw [if_neg h, if_neg (fun h' => h (hc.mp h')), mul_zero]

theorem single_zero_embed (A : M2) : (single (0 : Fin 2)).embed (of2 A) = of4 (onC A) := by
  ext x y
  rw [Tg.embed_apply]
  have hc : (∀ i, i ∉ Set.range (single (0 : Fin 2)).f → x i = y i) ↔ x 1 = y 1 := by
    simp only [mem_range_single]
    constructor
    · intro h; exact h 1 (by decide)
    · intro h i hi
      fin_cases i
      · exact absurd rfl hi
      · exact h
  show A (x 0) (y 0) * _ = if x 1 = y 1 then A (x 0) (y 0) else 0
  by_cases h : x 1 = y 1
  · rw [if_pos h, if_pos (hc.mpr h), mul_one]
  · rw [if_neg h, if_neg (fun h' => h (hc.mp h')), mul_zero]

theorem pair_comp_single_one (c t : Fin N) (h : c ≠ t) : (Tg.pair c t h).comp (single (1 : Fin 2)) = single t := by
  simp only [Tg.comp, single, Tg.pair_f]
  congr 1

theorem pair_comp_single_zero (c t : Fin N) (h : c ≠ t) : (Tg.pair c t h).comp (single (0 : Fin 2)) = single c := by
  simp only [Tg.comp, single, Tg.pair_f]
  congr 1

theorem RZq_target (c t : Fin N) (h : c ≠ t) (θ : ℝ) :
    RZq t θ = (Tg.pair c t h).embed (of4 (onT (Rz θ))) := by
  rw [RZq, ← pair_comp_single_one c t h, ← Tg.embed_comp, single_one_embed]

theorem RZq_control (c t : Fin N) (h : c ≠ t) (θ : ℝ) :
    RZq c θ = (Tg.pair c t h).embed (of4 (onC (Rz θ))) := by
  rw [RZq, ← pair_comp_single_zero c t h, ← Tg.embed_comp, single_zero_embed]

/-- the six gates of the CNOT expansion, on N qubits -/
theorem cnotExp_den {c t : ℕ} (hc : c < N) (ht : t < N) (hne : c ≠ t) (k : ℕ) :
    circDenN N (Qft.cphaseToCnot c t k) =
      some (cexp (I * ((angVal ⟨1, k⟩ / 2 : ℝ) : ℂ)) •
        CPq ⟨c, hc⟩ ⟨t, ht⟩ (fun e => hne (Fin.mk.inj e)) (angVal ⟨1, k⟩)) := by
  set l : ℝ := angVal ⟨1, k⟩ with hl
  have hne' : (⟨c, hc⟩ : Fin N) ≠ ⟨t, ht⟩ := fun e => hne (Fin.mk.inj e)
  have hp : (2 : ℝ) ^ k ≠ 0 := by positivity
  have a1 : angVal ⟨1, k + 1⟩ = l / 2 := by
    rw [hl]; unfold angVal; push_cast; rw [pow_succ]; field_simp
  have a2 : angVal ⟨-1, k + 1⟩ = -(l / 2) := by
    rw [hl]; unfold angVal; push_cast; rw [pow_succ]; field_simp
  have a3 : angVal ⟨3, k + 2⟩ = l / 2 + l / 4 := by
    rw [hl]; unfold angVal; push_cast; rw [pow_succ, pow_succ]; field_simp; ring
  have hnt : ¬ t = c := fun e => hne e.symm
  have hden : circDenN N (Qft.cphaseToCnot c t k) = some
      ((cexp (I * ((l / 2 + l / 4 : ℝ) : ℂ)) • (1 : Matrix (St N) (St N) ℂ)) *
        (RZq ⟨c, hc⟩ (l / 2) * (CXq ⟨c, hc⟩ ⟨t, ht⟩ hne' * (RZq ⟨t, ht⟩ (-(l / 2)) *
          (CXq ⟨c, hc⟩ ⟨t, ht⟩ hne' * RZq ⟨t, ht⟩ (l / 2)))))) := by
    simp [Qft.cphaseToCnot, circDenN, gateDen, hc, ht, hne, a1, a2, a3, Matrix.mul_assoc]
  rw [hden, RZq_target _ _ hne' (l / 2), RZq_target _ _ hne' (-(l / 2)), RZq_control _ _ hne', CXq, CPq]
  have h1 : (cexp (I * ((l / 2 + l / 4 : ℝ) : ℂ)) • (1 : Matrix (St N) (St N) ℂ))
      = (Tg.pair ⟨c, hc⟩ ⟨t, ht⟩ hne').embed (of4 (cexp (I * ((l / 2 + l / 4 : ℝ) : ℂ)) • (1 : M4))) := by
    rw [of4_smul, of4_one, Tg.embed_smul, Tg.embed_one]
  rw [h1]
  simp only [← Tg.embed_mul, ← of4_mul]
  have hid := cnot_expansion_identity l
  simp only [circDen2, P2.den, gateMat, Matrix.one_mul, Matrix.mul_assoc] at hid
  rw [← Tg.embed_smul, ← of4_smul, ← hid]

/-! ## step lists as operators -/

/-- operator of one step of `qft_steps` on N qubits: `expand_operator(snot(), targets=i)`,
`expand_operator(cphase(π/2^k), targets=[i, j])`, `expand_operator(swap(), targets=[a, b])` —
the same placed matrices as the corresponding native gates -/
noncomputable def stepDen (N : ℕ) : Qft.Step → Option (Matrix (St N) (St N) ℂ)
  | .snot i => gateDen N (Qft.snot i)
  | .cphase i j k => gateDen N (Qft.cphase i j k)
  | .swap a b => gateDen N (Qft.swap a b)

/-- product of the step operators, first step right-most (`gate_sequence_product`) -/
noncomputable def stepsDen (N : ℕ) : List Qft.Step → Option (Matrix (St N) (St N) ℂ)
  | [] => some 1
  | s :: ss => (stepDen N s).bind fun A => (stepsDen N ss).map fun B => B * A

/-- global phase recorded by the CNOT expansion of one step -/
noncomputable def stepPhase : Qft.Step → ℝ
  | .cphase _ _ k => angVal ⟨1, k⟩ / 2
  | _ => 0

noncomputable def stepsPhase : List Qft.Step → ℝ
  | [] => 0
  | s :: ss => stepPhase s + stepsPhase ss

theorem circDenN_single_eq (g : Qft.Gate) : circDenN N [g] = gateDen N g := by
  simp only [circDenN]
  cases gateDen N g <;> simp

theorem stepGates_false_den (s : Qft.Step) : circDenN N (Qft.Step.gates false s) = stepDen N s := by
  cases s <;> simp only [Qft.Step.gates, Qft.cphaseGates, stepDen] <;> exact circDenN_single_eq _

theorem stepGates_true_den (s : Qft.Step) (M : Matrix (St N) (St N) ℂ) (h : stepDen N s = some M) :
    circDenN N (Qft.Step.gates true s) = some (cexp (I * (stepPhase s : ℂ)) • M) := by
  cases s with
  | snot i =>
    simp only [Qft.Step.gates, stepPhase, stepDen] at *
    rw [circDenN_single_eq, h]; simp
  | swap a b =>
    simp only [Qft.Step.gates, stepPhase, stepDen] at *
    rw [circDenN_single_eq, h]; simp
  | cphase i j k =>
    simp only [stepDen] at h
    by_cases hwf : i < N ∧ j < N ∧ i ≠ j
    · obtain ⟨hi, hj, hne⟩ := hwf
      rw [gateDen_cphase hi hj hne] at h
      have hM := Option.some.inj h
      simp only [Qft.Step.gates, Qft.cphaseGates, stepPhase, if_true]
      rw [cnotExp_den hi hj hne k, ← hM]
    · exfalso
      simp [gateDen, Qft.cphase, hwf] at h

/-- native circuit built from a step list = product of the step operators (all lists, all N) -/
theorem flatMap_false_den (ss : List Qft.Step) :
    circDenN N (ss.flatMap (Qft.Step.gates false)) = stepsDen N ss := by
  induction ss with
  | nil => rfl
  | cons s ss ih =>
    rw [List.flatMap_cons, circDenN_append, stepGates_false_den, ih]; rfl

/-- CNOT-expanded circuit = product of the step operators times the recorded global phases -/
theorem flatMap_true_den (ss : List Qft.Step) (M : Matrix (St N) (St N) ℂ) (h : stepsDen N ss = some M) :
    circDenN N (ss.flatMap (Qft.Step.gates true)) = some (cexp (I * (stepsPhase ss : ℂ)) • M) := by
  induction ss generalizing M with
  | nil =>
    simp only [stepsDen] at h
    rw [← Option.some.inj h]
    simp [circDenN, stepsPhase]
  | cons s ss ih =>
    simp only [stepsDen] at h
    cases hs : stepDen N s with
    | none => rw [hs] at h; simp at h
    | some A =>
      cases hss : stepsDen N ss with
      | none => rw [hs, hss] at h; simp at h
      | some B =>
        rw [hs, hss] at h
        have hM : B * A = M := by simpa using h
        rw [List.flatMap_cons, circDenN_append_some (stepGates_true_den s A hs) (ih B hss), ← hM]
        congr 1
        simp only [stepsPhase]
        rw [Matrix.smul_mul, Matrix.mul_smul, smul_smul, ← Complex.exp_add]
        congr 2
        push_cast; ring

/-! ## the QFT circuit at operator level -/

/-- **circuit = steps, operator level**: for every N and both values of `swapping`, the native circuit
of `qft_gate_sequence` and the step list of `qft_steps` denote the same operator (and both are
rejected exactly when N < 1) -/
theorem circuit_den_eq_steps (N : ℕ) (sw : Bool) :
    (Qft.gateSequence N sw false).bind (circDenN N) = (Qft.qftSteps N sw).bind (stepsDen N) := by
  rw [Qft.gateSequence_eq_steps]
  cases h : Qft.qftSteps N sw with
  | none => rfl
  | some ss => simp [flatMap_false_den]

/-- with `to_cnot=True` the circuit denotes the product of the step operators times
`e^{i·Σ λ/2}` (sum over the controlled-phase steps) -/
theorem circuit_cnot_den_eq_steps (N : ℕ) (sw : Bool) (ss : List Qft.Step) (M : Matrix (St N) (St N) ℂ)
    (h1 : Qft.qftSteps N sw = some ss) (h2 : stepsDen N ss = some M) :
    (Qft.gateSequence N sw true).bind (circDenN N) = some (cexp (I * (stepsPhase ss : ℂ)) • M) := by
  rw [Qft.gateSequence_eq_steps, h1]
  simp [flatMap_true_den ss M h2]

/-- the steps of `qft_steps(N, True)` multiply to the DFT matrix -/
theorem steps_den_eq_dft (N : ℕ) (hN : 1 ≤ N) : (Qft.qftSteps N true).bind (stepsDen N) = some (dftMat N) := by
  rw [← circuit_den_eq_steps, qft_native_den N hN]

/-- **QFT with CNOT expansion = e^{iφ}·DFT, every N ≥ 1**, `φ` the sum of the recorded phases -/
theorem qft_cnot_den (N : ℕ) (hN : 1 ≤ N) :
    ∃ ss, Qft.qftSteps N true = some ss ∧
      (Qft.gateSequence N true true).bind (circDenN N) = some (cexp (I * (stepsPhase ss : ℂ)) • dftMat N) := by
  have h := steps_den_eq_dft N hN
  cases hs : Qft.qftSteps N true with
  | none => rw [hs] at h; simp at h
  | some ss =>
    rw [hs] at h
    exact ⟨ss, rfl, circuit_cnot_den_eq_steps N true ss _ hs (by simpa using h)⟩

end QipVerif.QftDen
