import QipVerif.Lemmas.QasmTokItems
import QipVerif.Model.QasmImport
/-!
# The tokenizer's parameter tokens are those of the importer model (C04)

`Model/QasmImport.lean` names a user gate by `customName name ps`, built from `Import.argToken e =
Import.strip (Import.padBrackets e.render)` where `Import.strip` strips blanks only.  The tokenizer model strips
all of Python's whitespace.  On rendered parameter expressions of the class (`exprOk`) the two coincide:
`argToken_eq_import`.
-/
namespace QipVerif.Qasm.Tok
open QipVerif.Qasm

theorem padBrackets_eq_import (s : Str) : padBrackets s = Import.padBrackets s := by
  induction s with
  | nil => rfl
  | cons c cs ih => simp only [padBrackets, Import.padBrackets, ih]

/-- the only whitespace in the text is the blank -/
def spOnly (s : Str) : Prop := ∀ c ∈ s, isWs c = true → c = ' '

theorem istripL_cons (c : Char) (cs : Str) :
    Import.stripL (c :: cs) = if c = ' ' then Import.stripL cs else c :: cs := by
  by_cases h : c = ' '
  · subst h; simp [Import.stripL]
  · simp only [h, if_false]
    unfold Import.stripL
    split
    · rename_i heq; simp only [List.cons.injEq] at heq; exact absurd heq.1 h
    · rfl

theorem stripL_eq_import (s : Str) (h : spOnly s) : stripL s = Import.stripL s := by
  induction s with
  | nil => rfl
  | cons c cs ih =>
    have ih' := ih (fun d hd => h d (by simp [hd]))
    rw [istripL_cons]
    by_cases hw : isWs c = true
    · have := h c (by simp) hw
      subst this
      simp [stripL_cons_ws _ isWs_space, ih']
    · have hw' : isWs c = false := by simpa using hw
      have : c ≠ ' ' := by rintro rfl; simp [isWs_space] at hw'
      simp [stripL_cons_nws _ hw', this]

theorem stripL_suffix (s : Str) : stripL s <:+ s := by
  induction s with
  | nil => exact List.suffix_refl _
  | cons c cs ih =>
    by_cases hw : isWs c = true
    · rw [stripL_cons_ws _ hw]; exact ih.trans (List.suffix_cons c cs)
    · have hw' : isWs c = false := by simpa using hw
      rw [stripL_cons_nws _ hw']; exact List.suffix_refl _

/-- `rstrip` is `lstrip` of the reversed text -/
theorem stripR_reverse (u : Str) : stripR u.reverse = (stripL u).reverse := by
  induction u with
  | nil => rfl
  | cons c cs ih =>
    rw [List.reverse_cons]
    by_cases hw : isWs c = true
    · rw [stripR_append_ws _ [c] (by simp [allWs, hw]), ih, stripL_cons_ws _ hw]
    · have hw' : isWs c = false := by simpa using hw
      rw [stripR_snoc_nws _ hw', stripL_cons_nws _ hw', List.reverse_cons]

theorem strip_eq_import (s : Str) (h : spOnly s) : strip s = Import.strip s := by
  unfold strip Import.strip
  have h1 : spOnly (stripL s) := fun c hc => h c ((stripL_suffix s).subset hc)
  have h2 : spOnly (stripL s).reverse := fun c hc => h1 c (by simpa using hc)
  have := stripR_reverse (stripL s).reverse
  rw [List.reverse_reverse] at this
  rw [this, stripL_eq_import _ h2, stripL_eq_import _ h]

theorem mem_padBrackets {s : Str} {c : Char} (h : c ∈ padBrackets s) : c ∈ s ∨ c = ' ' := by
  induction s with
  | nil => simp [padBrackets] at h
  | cons d ds ih =>
    simp only [padBrackets] at h
    split at h
    · simp only [List.mem_cons] at h
      rcases h with rfl | rfl | rfl | h
      · exact Or.inr rfl
      · simp
      · exact Or.inr rfl
      · rcases ih h with h | h
        · simp [h]
        · exact Or.inr h
    · simp only [List.mem_cons] at h
      rcases h with rfl | h
      · simp
      · rcases ih h with h | h
        · simp [h]
        · exact Or.inr h

/-- **the parameter tokens of the tokenizer are those used by the importer model** -/
theorem argToken_eq_import (e : Expr) (h : exprOk e = true) : argToken e = Import.argToken e := by
  unfold argToken Import.argToken
  rw [← padBrackets_eq_import]
  apply strip_eq_import
  intro c hc hw
  rcases mem_padBrackets hc with hm | rfl
  · have hec := (List.all_eq_true.mp (render_ec e h)) c hm
    simp only [ec, Bool.or_eq_true, beq_iff_eq] at hec
    rcases hec with (hp | rfl) | rfl
    · rw [plain_not_ws hp] at hw; cases hw
    · simp [isWs_open] at hw
    · simp [isWs_close] at hw
  · rfl

end QipVerif.Qasm.Tok
