import Mathlib.Analysis.Calculus.Deriv.Mul
import Mathlib.Analysis.Calculus.Deriv.Add
import Mathlib.Analysis.Calculus.Deriv.Star
import Mathlib.Analysis.Calculus.Deriv.Comp
import Mathlib.Analysis.Complex.Basic
import Mathlib.LinearAlgebra.Matrix.ConjTranspose
import Mathlib.LinearAlgebra.Matrix.Hermitian
/-! Matrix calculus used by C19: the derivative of `θ ↦ ⟨ψ| U(θ)† O U(θ) |ψ⟩` when one factor
of the product `U = B · P(θ) · A` depends on `θ`.  Matrices over ℂ of any finite size, derivatives
taken entrywise with respect to a real parameter. -/
namespace QipVerif.Vqa
open Matrix
set_option linter.unusedSectionVars false
variable {n : Type} [Fintype n]

/-- entrywise derivative of a matrix-valued function of a real parameter -/
def MDeriv (A : ℝ → Matrix n n ℂ) (A' : Matrix n n ℂ) (θ : ℝ) : Prop :=
  ∀ i j, HasDerivAt (fun t => A t i j) (A' i j) θ

/-- `⟨ψ| M |ψ⟩` -/
def expect (ψ : n → ℂ) (M : Matrix n n ℂ) : ℂ := star ψ ⬝ᵥ (M *ᵥ ψ)

theorem MDeriv.const (C : Matrix n n ℂ) (θ : ℝ) : MDeriv (fun _ => C) 0 θ :=
  fun i j => by simpa using hasDerivAt_const θ (C i j)

theorem MDeriv.congr {A : ℝ → Matrix n n ℂ} {A' A'' : Matrix n n ℂ} {θ : ℝ}
    (h : MDeriv A A' θ) (e : A' = A'') : MDeriv A A'' θ := e ▸ h

theorem MDeriv.mul {A B : ℝ → Matrix n n ℂ} {A' B' : Matrix n n ℂ} {θ : ℝ}
    (hA : MDeriv A A' θ) (hB : MDeriv B B' θ) :
    MDeriv (fun t => A t * B t) (A' * B θ + A θ * B') θ := by
  intro i j
  have h : HasDerivAt (fun t => ∑ k, A t i k * B t k j) (∑ k, (A' i k * B θ k j + A θ i k * B' k j)) θ :=
    HasDerivAt.fun_sum (fun k _ => (hA i k).mul (hB k j))
  simpa [Matrix.mul_apply, Matrix.add_apply, Finset.sum_add_distrib] using h

theorem MDeriv.conjTranspose {A : ℝ → Matrix n n ℂ} {A' : Matrix n n ℂ} {θ : ℝ}
    (hA : MDeriv A A' θ) : MDeriv (fun t => (A t)ᴴ) A'ᴴ θ := by
  intro i j
  simpa [Matrix.conjTranspose_apply] using (hA j i).star

theorem MDeriv.expect {A : ℝ → Matrix n n ℂ} {A' : Matrix n n ℂ} {θ : ℝ} (hA : MDeriv A A' θ)
    (ψ : n → ℂ) : HasDerivAt (fun t => expect ψ (A t)) (expect ψ A') θ := by
  have h : HasDerivAt (fun t => ∑ i, star ψ i * ∑ j, A t i j * ψ j)
      (∑ i, star ψ i * ∑ j, A' i j * ψ j) θ :=
    HasDerivAt.fun_sum (fun i _ =>
      (HasDerivAt.fun_sum (fun j _ => (hA i j).mul_const (ψ j))).const_mul (star ψ i))
  simpa [QipVerif.Vqa.expect, dotProduct, Matrix.mulVec] using h

theorem expect_add (ψ : n → ℂ) (X Y : Matrix n n ℂ) : expect ψ (X + Y) = expect ψ X + expect ψ Y := by
  simp [expect, Matrix.add_mulVec, dotProduct_add]

theorem star_expect (ψ : n → ℂ) (X : Matrix n n ℂ) : star (expect ψ X) = expect ψ Xᴴ := by
  unfold expect
  rw [← star_dotProduct, star_mulVec, dotProduct_comm, dotProduct_mulVec, dotProduct_comm]

/-- `θ ↦ B · P(θ) · A` has derivative `B · P' · A` -/
theorem MDeriv.sandwich {P : ℝ → Matrix n n ℂ} {P' : Matrix n n ℂ} {θ : ℝ} (hP : MDeriv P P' θ)
    (B A : Matrix n n ℂ) : MDeriv (fun t => B * P t * A) (B * P' * A) θ :=
  (((MDeriv.const B θ).mul hP).mul (MDeriv.const A θ)).congr (by simp)

/-- derivative of `U† O U` -/
theorem MDeriv.conj_obs {U : ℝ → Matrix n n ℂ} {U' : Matrix n n ℂ} {θ : ℝ} (hU : MDeriv U U' θ)
    (O : Matrix n n ℂ) :
    MDeriv (fun t => (U t)ᴴ * O * U t) (U'ᴴ * O * U θ + (U θ)ᴴ * O * U') θ :=
  ((hU.conjTranspose.mul (MDeriv.const O θ)).mul hU).congr (by simp)

theorem expect_herm_pair (ψ : n → ℂ) (O U U' : Matrix n n ℂ) (hO : O.IsHermitian) :
    expect ψ (U'ᴴ * O * U) + expect ψ (Uᴴ * O * U') = ((2 * (expect ψ (U'ᴴ * O * U)).re : ℝ) : ℂ) := by
  have h : expect ψ (Uᴴ * O * U') = star (expect ψ (U'ᴴ * O * U)) := by
    rw [star_expect]
    simp [Matrix.conjTranspose_mul, hO.eq, Matrix.mul_assoc]
  rw [h]
  exact Complex.add_conj _

/-- `evaluate_parameters` in OBSERVABLE mode, as a function of the circuit unitary: `⟨ψ|U†OU|ψ⟩` -/
def cost (ψ : n → ℂ) (O U : Matrix n n ℂ) : ℂ := expect ψ (Uᴴ * O * U)

/-- `VQA.cost_derivative(U, dU)`:
`np.real((init† dU†) O (U init) + (init† U†) O (dU init))` -/
def costDerivative (ψ : n → ℂ) (O U dU : Matrix n n ℂ) : ℝ :=
  (expect ψ (dUᴴ * O * U) + expect ψ (Uᴴ * O * dU)).re

theorem HasDerivAt.re_of_complex {f : ℝ → ℂ} {f' : ℂ} {θ : ℝ} (h : HasDerivAt f f' θ) :
    HasDerivAt (fun t => (f t).re) f'.re θ :=
  Complex.reCLM.hasFDerivAt.comp_hasDerivAt θ h

/-- for a Hermitian observable the cost is real -/
theorem cost_im (ψ : n → ℂ) (O U : Matrix n n ℂ) (hO : O.IsHermitian) : (cost ψ O U).im = 0 := by
  have h : star (cost ψ O U) = cost ψ O U := by
    unfold cost
    rw [star_expect]
    simp [Matrix.conjTranspose_mul, hO.eq, Matrix.mul_assoc]
  exact Complex.conj_eq_iff_im.mp h

end QipVerif.Vqa
