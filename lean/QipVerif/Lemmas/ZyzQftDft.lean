import QipVerif.Lemmas.ZyzQftStage

/-!
# C17 — the QFT circuit multiplies to the DFT matrix, for every N

* `swaps_den`: the final SWAP network is the bit-reversal permutation matrix;
* `E_eq_dft_phase`: the accumulated phase `E_N(x, y∘rev)` is `val x · val y / 2^N` modulo 1
  (`val` = big-endian value of a basis state);
* `qft_native_den`: `qft_gate_sequence(N, swapping=True, to_cnot=False)` denotes `dftMat N`.
-/
namespace QipVerif.QftDen
open Matrix Complex
open QipVerif QipVerif.Zyz

variable {N : ℕ}

/-- big-endian value of a basis state: qubit 0 is the most significant bit -/
def val (y : St N) : ℕ := ∑ l : Fin N, ((y l : Fin 2) : ℕ) * 2 ^ (N - 1 - l.val)

/-- the DFT matrix `F[y,x] = ω^{y·x}/√(2^N)`, `ω = e^{2πi/2^N}` -/
noncomputable def dftMat (N : ℕ) : Matrix (St N) (St N) ℂ := fun y x =>
  (((Real.sqrt 2 : ℝ) : ℂ)⁻¹) ^ N * ph (((val y * val x : ℕ) : ℝ) / 2 ^ N)

/-! ## the swap network -/

/-- the qubit map after the first `m` swaps `[N-i-1, i]` -/
def rho (N m : ℕ) (l : Fin N) : Fin N := if l.val < m ∨ N - m ≤ l.val then Fin.rev l else l

/-- permutation-like matrix of a qubit map -/
noncomputable def mapOp (f : Fin N → Fin N) : Matrix (St N) (St N) ℂ := fun y x => if x = y ∘ f then 1 else 0

theorem mapOp_mul_apply (f : Fin N → Fin N) (A : Matrix (St N) (St N) ℂ) (y x : St N) :
    (mapOp f * A) y x = A (y ∘ f) x := by
  rw [Matrix.mul_apply, Finset.sum_eq_single (y ∘ f)]
  · simp [mapOp]
  · intro z _ hz; simp [mapOp, hz]
  · intro h; exact absurd (Finset.mem_univ _) h

theorem swap_val (a b x : Fin N) :
    (Equiv.swap a b x).val = if x.val = a.val then b.val else if x.val = b.val then a.val else x.val := by
  rw [Equiv.swap_apply_def]
  simp only [Fin.ext_iff]
  split_ifs <;> rfl

theorem rho_val (m : ℕ) (l : Fin N) :
    (rho N m l).val = if l.val < m ∨ N - m ≤ l.val then N - (l.val + 1) else l.val := by
  unfold rho
  split_ifs
  · exact Fin.val_rev l
  · rfl

theorem swap_comp_rho {m : ℕ} (hm : 2 * (m + 1) ≤ N) (l : Fin N) :
    Equiv.swap (⟨N - m - 1, by omega⟩ : Fin N) ⟨m, by omega⟩ (rho N m l) = rho N (m + 1) l := by
  apply Fin.ext
  have hl := l.isLt
  rw [swap_val, rho_val, rho_val]
  simp only
  split_ifs <;> omega

theorem swaps_den (m : ℕ) (hm : 2 * m ≤ N) : circDenN N (Qft.swaps N m) = some (mapOp (rho N m)) := by
  induction m with
  | zero =>
    simp only [Qft.swaps, circDenN]
    congr 1
    ext y x
    have : y ∘ rho N 0 = y := by
      funext l
      simp only [Function.comp, rho]
      rw [if_neg (by have := l.isLt; omega)]
    simp only [mapOp, this, Matrix.one_apply]
    by_cases h : y = x
    · rw [if_pos h, if_pos h.symm]
    · rw [if_neg h, if_neg (fun e => h e.symm)]
  | succ m ih =>
    have h1 := ih (by omega)
    have ha : N - m - 1 < N := by omega
    have hb : m < N := by omega
    have h2 : circDenN N [Qft.swap (N - m - 1) m] = some _ :=
      circDenN_singleton (gateDen_swap ha hb (by omega))
    simp only [Qft.swaps]
    rw [circDenN_append_some h1 h2, SWq_eq_permOp]
    congr 1
    ext y x
    rw [permOp_mul_apply]
    simp only [mapOp]
    have : (y ∘ ⇑(Equiv.swap (⟨N - m - 1, ha⟩ : Fin N) ⟨m, hb⟩)) ∘ rho N m = y ∘ rho N (m + 1) := by
      funext l
      simp only [Function.comp]
      rw [swap_comp_rho hm l]
    rw [this]

theorem rho_half (l : Fin N) : rho N (N / 2) l = Fin.rev l := by
  unfold rho
  by_cases h : l.val < N / 2 ∨ N - N / 2 ≤ l.val
  · rw [if_pos h]
  · rw [if_neg h]
    apply Fin.ext
    rw [Fin.val_rev]
    have := l.isLt
    omega

/-! ## arithmetic of the phase -/

theorem bitN_rev (y : St N) {j : ℕ} (hj : j < N) :
    bitN (y ∘ (Fin.rev : Fin N → Fin N)) j = bitN y (N - 1 - j) := by
  rw [bitN_eq _ hj, bitN_eq y (show N - 1 - j < N by omega)]
  simp only [Function.comp]
  congr 3
  apply Fin.ext
  rw [Fin.val_rev]
  show N - (j + 1) = N - 1 - j
  omega

theorem val_eq_range (y : St N) : val y = ∑ i ∈ Finset.range N, bitN y i * 2 ^ (N - 1 - i) := by
  unfold val
  rw [Finset.sum_range]
  apply Finset.sum_congr rfl
  intro l _
  rw [bitN_eq y l.isLt]

/-- little-endian value of the bit-reversed state = big-endian value -/
theorem lowVal_rev (y : St N) : lowVal (y ∘ (Fin.rev : Fin N → Fin N)) N = val y := by
  rw [val_eq_range, lowVal, ← Finset.sum_range_reflect]
  apply Finset.sum_congr rfl
  intro j hj
  have hj' := Finset.mem_range.mp hj
  rw [bitN_rev y (by omega)]
  congr 2
  omega

theorem lowVal_split (y : St N) (k K : ℕ) (h : k ≤ K) : ∃ r : ℕ, lowVal y K = lowVal y k + 2 ^ k * r := by
  induction K with
  | zero =>
    have : k = 0 := by omega
    subst this; exact ⟨0, by simp⟩
  | succ K ih =>
    by_cases hk : k = K + 1
    · subst hk; exact ⟨0, by simp⟩
    · obtain ⟨r, hr⟩ := ih (by omega)
      refine ⟨r + bitN y K * 2 ^ (K - k), ?_⟩
      have hp : 2 ^ K = 2 ^ k * 2 ^ (K - k) := by rw [← Nat.pow_add]; congr 1; omega
      rw [lowVal_succ, hr, hp]
      ring

/-- the accumulated phase is the DFT phase modulo 1 (partial sums) -/
theorem ph_E_eq (x y : St N) (m : ℕ) (hm : m ≤ N) :
    ph (E x y m) = ph (∑ i ∈ Finset.range m, (bitN x i : ℝ) * (lowVal y N : ℝ) / 2 ^ (i + 1)) := by
  induction m with
  | zero => simp [E]
  | succ m ih =>
    obtain ⟨r, hr⟩ := lowVal_split y (m + 1) N hm
    rw [E_succ, Finset.sum_range_succ, ph_add, ph_add, ih (by omega)]
    congr 1
    have h2 : ((2 : ℝ) ^ (m + 1)) ≠ 0 := by positivity
    have : (bitN x m : ℝ) * (lowVal y N : ℝ) / 2 ^ (m + 1)
        = (bitN x m : ℝ) * (lowVal y (m + 1) : ℝ) / 2 ^ (m + 1) + ((bitN x m * r : ℕ) : ℝ) := by
      rw [hr]; push_cast; field_simp
    rw [this, ph_add_nat]

theorem sum_bits_div (x : St N) (L : ℝ) :
    ∑ i ∈ Finset.range N, (bitN x i : ℝ) * L / 2 ^ (i + 1) = ((val x : ℕ) : ℝ) * L / 2 ^ N := by
  rw [val_eq_range]
  push_cast
  rw [Finset.sum_mul, div_eq_mul_inv, Finset.sum_mul]
  apply Finset.sum_congr rfl
  intro i hi
  have hi' := Finset.mem_range.mp hi
  have hp : (2 : ℝ) ^ N = 2 ^ (N - 1 - i) * 2 ^ (i + 1) := by
    rw [← pow_add]; congr 1; omega
  have h1 : ((2 : ℝ) ^ (N - 1 - i)) ≠ 0 := by positivity
  have h2 : ((2 : ℝ) ^ (i + 1)) ≠ 0 := by positivity
  rw [hp]
  field_simp

/-- `e^{2πi·E_N(x, y∘rev)} = ω^{val y · val x}` -/
theorem E_eq_dft_phase (x y : St N) :
    ph (E x (y ∘ (Fin.rev : Fin N → Fin N)) N) = ph (((val y * val x : ℕ) : ℝ) / 2 ^ N) := by
  rw [ph_E_eq x _ N (le_refl N), sum_bits_div, lowVal_rev]
  congr 1
  push_cast
  ring

/-! ## the theorems -/

theorem W_full (y x : St N) : W N N y x = (((Real.sqrt 2 : ℝ) : ℂ)⁻¹) ^ N * ph (E x y N) := by
  unfold W
  rw [if_pos]
  intro l hl
  exact absurd l.isLt (by omega)

/-- all stages without the final swaps: the DFT with bit-reversed output index -/
theorem outer_den_eq_dft_rev :
    circDenN N (Qft.outer false N) = some (fun y x => dftMat N (y ∘ (Fin.rev : Fin N → Fin N)) x) := by
  rw [outer_den N (le_refl N)]
  congr 1
  ext y x
  rw [W_full, dftMat]
  congr 1
  have h := E_eq_dft_phase x (y ∘ (Fin.rev : Fin N → Fin N))
  have hrr : (y ∘ (Fin.rev : Fin N → Fin N)) ∘ (Fin.rev : Fin N → Fin N) = y := by
    funext l; simp [Function.comp]
  rw [hrr] at h
  exact h

/-- stages followed by the swap network: the DFT matrix -/
theorem outer_swaps_den_eq_dft :
    circDenN N (Qft.outer false N ++ Qft.swaps N (N / 2)) = some (dftMat N) := by
  rw [circDenN_append_some (outer_den N (le_refl N)) (swaps_den (N / 2) (by omega))]
  congr 1
  ext y x
  rw [mapOp_mul_apply, W_full, dftMat]
  have : y ∘ rho N (N / 2) = y ∘ (Fin.rev : Fin N → Fin N) := by
    funext l; simp only [Function.comp, rho_half]
  rw [this, E_eq_dft_phase]

theorem gateSequence_eq (N : ℕ) (hN : 1 ≤ N) (sw cn : Bool) :
    Qft.gateSequence N sw cn = some (Qft.outer cn N ++ (if sw then Qft.swaps N (N / 2) else [])) := by
  unfold Qft.gateSequence
  rw [if_neg (by omega)]
  by_cases h1 : N = 1
  · subst h1
    cases sw <;> cases cn <;> rfl
  · rw [if_neg h1]

/-- **QFT = DFT, every N ≥ 1** (native controlled phases, swaps included) -/
theorem qft_native_den (N : ℕ) (hN : 1 ≤ N) :
    (Qft.gateSequence N true false).bind (circDenN N) = some (dftMat N) := by
  rw [gateSequence_eq N hN]
  simpa using outer_swaps_den_eq_dft (N := N)

/-- without the final swaps: DFT composed with bit reversal of the output -/
theorem qft_native_noswap_den (N : ℕ) (hN : 1 ≤ N) :
    (Qft.gateSequence N false false).bind (circDenN N) =
      some (fun y x => dftMat N (y ∘ (Fin.rev : Fin N → Fin N)) x) := by
  rw [gateSequence_eq N hN]
  simpa using outer_den_eq_dft_rev (N := N)

end QipVerif.QftDen
