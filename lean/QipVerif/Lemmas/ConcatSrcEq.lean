import QipVerif.Model.ConcatSrc
import QipVerif.Lemmas.ConcatBasic
/-! The source-driven model (`Model/ConcatSrc.lean`) at a source description of the expected shape
(`Src.Standard`) is the fixed-shape model the C12 theorems are about. -/
namespace QipVerif.Concat

theorem slice10_cons (a : Rat) (l : List Rat) : (Slice.mk 1 0).app (a :: l) = l := by
  simp [Slice.app]

theorem slice10 (l : List Rat) : (Slice.mk 1 0).app l = l.drop 1 := by
  cases l with
  | nil => rfl
  | cons a l => simp [Slice.app]

theorem slice00 (l : List Rat) : (Slice.mk 0 0).app l = l := by
  simp [Slice.app]

theorem procPulseS_std (w : Wave) : procPulseS stdProc w = procPulse w := by
  match w with
  | .scalar t c => rfl
  | .mixed tl c => rfl
  | .arr tl cs =>
    simp only [procPulseS, stdProc, procBranches, procPulse]
    have e1 : ((tl.length : Int) + -1 = (cs.length : Int)) ↔ ((tl.length : Int) - 1 = (cs.length : Int)) := by omega
    have e2 : ((tl.length : Int) + 0 = (cs.length : Int)) ↔ (tl.length = cs.length) := by omega
    by_cases h1 : (tl.length : Int) - 1 = (cs.length : Int)
    · rw [if_pos (e1.mpr h1), if_pos h1]
      match tl with
      | [] => rfl
      | [a] => rfl
      | a :: b :: rest => simp [slice10_cons, slice00]
    · rw [if_neg (fun h => h1 (e1.mp h)), if_neg h1]
      by_cases h2 : tl.length = cs.length
      · rw [if_pos (e2.mpr h2), if_pos h2]
        match tl with
        | [] => rfl
        | [a] => rfl
        | a :: b :: rest => simp [slice10]
      · rw [if_neg (fun h => h2 (e2.mp h)), if_neg h2]

theorem linspaceN10 (a b : Rat) : linspaceN 10 a b = linspace10 a b := by
  have : ((10 : Nat) : Rat) - 1 = 9 := by decide +kernel
  simp only [linspaceN, linspace10, this]

theorem idleS_std (m : Mode) (start last step : Rat) : idleS stdIdle m start last step = idle m start last step := by
  have l1 : (Lin.mk 1 (-1) 0 0).eval start last step = start - last := by simp only [Lin.eval]; grind
  have l2 : (Lin.mk 0 0 3 0).eval start last step = 3 * step := by simp only [Lin.eval]; grind
  have l3 : (Lin.mk 0 1 (1/5) 0).eval start last step = last + step / 5 := by simp only [Lin.eval]; grind
  have l4 : (Lin.mk 0 1 1 0).eval start last step = last + step := by simp only [Lin.eval]; grind
  have l5 : (Lin.mk 1 0 (-1) 0).eval start last step = start - step := by simp only [Lin.eval]; grind
  have l6 : (Lin.mk 1 0 0 0).eval start last step = start := by simp only [Lin.eval]; grind
  have l7 : (Lin.mk 0 0 1 0).eval start last step = step := by simp only [Lin.eval]; grind
  cases m with
  | discrete => simp only [idleS, stdIdle, evalPieces, Piece.eval, idle, List.map_cons, List.map_nil, l6, List.append_nil]
  | continuous =>
    simp only [idleS, stdIdle, idle, Cmp.test, l1, l2]
    by_cases h : start - last > 3 * step
    · simp only [h, decide_true, if_true, evalPieces, Piece.eval, l3, l4, l5, l6, linspaceN10, List.append_nil]
    · simp only [h, decide_false, Bool.false_eq_true, if_false, evalPieces, Piece.eval, l4, l6, l7]
      by_cases hs : step = 0
      · simp [hs]
      · simp [hs]

theorem chanLoopS_std (src : Src) (h : src.Standard) (tt : Rat) (instrs : List (Rat × Wave)) :
    ∀ (isFirst : Bool) (last : Rat), chanLoopS src tt isFirst last instrs = chanLoopG tt isFirst last instrs := by
  obtain ⟨hp, hi, hf, hg, hc, _, _, _, _⟩ := h
  induction instrs with
  | nil => intro isFirst last; rfl
  | cons sw rest ih =>
    intro isFirst last
    obtain ⟨s, w⟩ := sw
    unfold chanLoopS chanLoopG
    rw [hp, procPulseS_std]
    cases hpp : procPulse w with
    | error e => rfl
    | ok p =>
      simp only [hf, Bool.false_eq_true, if_false, hc, Cmp.test, hi, idleS_std, decide_eq_true_eq, ih]
      by_cases hgp : absR (s - last) > tt
      · rw [if_pos hgp]; rfl
      · rw [if_neg hgp]; rfl

theorem procsS_std (src : Src) (h : src.Standard) (chans : List (List (Rat × Wave))) : procsS src chans = procs chans := by
  simp only [procsS, procs, h.1, procPulseS_std]
  rfl

theorem padChanSrcO_std (src : Src) (h : src.Standard) (lastp : Proc) (final ms : Rat) (r : List Rat × List Rat × Rat) :
    padChanSrcO src lastp final ms r = padChanO src.cat.padTol lastp.mode final ms r := by
  obtain ⟨_, hi, _, _, _, he, hc, h1, h2⟩ := h
  simp only [padChanSrcO, padChanO, padChanSrc, padChan, he, hc, h1, h2, stepOf, Cmp.test, hi, idleS_std, Bool.true_and,
    decide_eq_true_eq]
  by_cases hgp : absR (final - r.2.2) > ms * src.cat.padTol
  · simp only [if_pos hgp]; rfl
  · simp only [if_neg hgp]

/-- **The model the driver runs is the model the theorems are about**: for a source description of the expected shape,
`_concatenate_pulses` as read from the source is `concatenateH` at the threshold `gapTol · (largest start or end time)`
and the padding tolerance `padTol`. -/
theorem concatenateS_std (src : Src) (h : src.Standard) (chans : List (List (Rat × Wave))) :
    concatenateS src chans = concatenateH (src.timeTol chans) src.cat.padTol chans := by
  have hl : chanLoopS src (src.timeTol chans) true 0 = chanLoopG (src.timeTol chans) true 0 := by
    funext instrs; exact chanLoopS_std src h _ instrs true 0
  have hpad : ∀ lastp final ms, padChanSrcO src lastp final ms = padChanO src.cat.padTol lastp.mode final ms := by
    intro lastp final ms; funext r; exact padChanSrcO_std src h lastp final ms r
  simp only [concatenateS, concatenateH, hl, h.2.2.2.2.2.1, if_true, procsS_std src h, hpad]

theorem maxEnd_nonneg (chans : List (List (Rat × Wave))) : 0 ≤ maxEnd chans := by
  unfold maxEnd
  generalize (chans.flatten.map (fun sw => absR sw.1 + sw.2.tmax)) = l
  suffices h : ∀ (l : List Rat) (a : Rat), a ≤ l.foldl (fun a b => if a < b then b else a) a from h l 0
  intro l
  induction l with
  | nil => intro a; exact Rat.le_refl
  | cons b l ih =>
    intro a
    simp only [List.foldl_cons]
    by_cases h : a < b
    · rw [if_pos h]; exact Rat.le_trans (Rat.le_of_lt h) (ih b)
    · rw [if_neg h]; exact ih a

theorem concatenateG_eq_H (ρ τ : Rat) (chans : List (List (Rat × Wave))) :
    concatenateG true ρ τ chans = concatenateH (ρ * maxStart chans) τ chans := rfl

end QipVerif.Concat
