import QipVerif.Lemmas.DecompFields
import QipVerif.Lemmas.DecompNames
import QipVerif.Gen.DecompLabels
/-!
# C03 — the labels `kπ/m` the rules write are the angles they label (regenerated tables)

`labTrue f`: if the label of `f` is a text `kπ/m`, the angle of `f` is fixed and equals `kπ/m`.
`labsOK` is the decidable table fact: in every rule, a template gate labelled `kπ/m` has exactly this
fixed angle, and a template gate that takes over the label of the rewritten gate takes over its angle
— with ONE exception, which the statement names: the phase marker of `_gate_PHASEGATE` carries the
label of the gate at HALF its angle.  So the theorem asks that a PHASEGATE of the input has no label of
the form `kπ/m` (any other text is fine).
-/
namespace QipVerif.Decomp
open QipVerif QipVerif.Gen

def Lab.isFrac : Lab → Bool
  | .frac _ _ => true
  | _ => false

/-- the invariant carried through the stages -/
def labGood (f : FGate) : Bool := labTrue f && (f.g.name != .PHASEGATE || !f.lab.isFrac)

/-- gates with an angle that the rules emit -/
def angled : List GName := [.RX, .RY, .RZ, .GLOBALPHASE, .PHASEGATE, .CRX, .CRY, .CRZ, .CPHASE, .SWAPalpha]

/-- one template gate with its label, in the rule of the gate named `n`: a gate with an angle IS labelled, and
the label is right -/
def tplOK (n : GName) (t : TGate) (l : TLab) : Bool :=
  t.name != .PHASEGATE && (!angled.contains t.name || l != .none) &&
  match l with
  | .none => true
  | .frac k m => t.arg.cn == 0 && t.arg.p8 * (m : Int) == 8 * k
  | .inp => t.arg == ⟨1, 1, 0⟩ || n == .PHASEGATE

def labsOK (n : GName) (body : List TGate) (labs : List TLab) : Bool :=
  body.zipIdx.all fun p => tplOK n p.1 (labs.getD p.2 .none)

theorem gateLab_ok (n : GName) (body : List TGate) (h : gateRule n = .templ body) :
    labsOK n body (gateLab n) = true := by
  cases n <;> simp only [gateRule, reduceCtorEq] at h <;> (cases h; decide)

theorem basisLab_ok (y n : GName) (body : List TGate) (h : basisRule y n = some body) :
    labsOK n body (basisLab y n) = true ∧ n ≠ .PHASEGATE := by
  cases y <;> cases n <;> simp only [basisRule, reduceCtorEq] at h <;> (cases h; decide)

/-- **every rule labels the angles it writes**: a template gate with an angle has a label (the text `kπ/m` of
its fixed angle, or the label of the rewritten gate) -/
theorem rule_labels_complete (n : GName) (body : List TGate) (labs : List TLab) (h : labsOK n body labs = true)
    (t : TGate) (i : Nat) (hm : (t, i) ∈ body.zipIdx) (ha : angled.contains t.name = true) :
    labs.getD i .none ≠ .none := by
  have := List.all_eq_true.mp h (t, i) hm
  simp only [tplOK, Bool.and_eq_true, Bool.or_eq_true, Bool.not_eq_true', bne_iff_ne, ne_eq] at this
  rcases this.1.2 with h' | h'
  · rw [ha] at h'; cases h'
  · exact h'

/-! ## instantiation, position by position -/

theorem mapM_zipIdx {α β : Type} (F : α → Option β) : ∀ (l : List α) (ys : List β) (k : Nat),
    l.mapM F = some ys → ∀ y i, (y, i) ∈ ys.zipIdx k → ∃ x, (x, i) ∈ l.zipIdx k ∧ F x = some y := by
  intro l
  induction l with
  | nil =>
    intro ys k h y i hy
    simp at h; subst h; simp at hy
  | cons a as ih =>
    intro ys k h y i hy
    rw [List.mapM_cons] at h
    cases h1 : F a with
    | none => simp [h1] at h
    | some b =>
      cases h2 : as.mapM F with
      | none => simp [h1, h2] at h
      | some bs =>
        simp [h1, h2] at h
        subst h
        rw [List.zipIdx_cons] at hy ⊢
        rcases List.mem_cons.mp hy with he | hy'
        · cases he
          exact ⟨a, List.mem_cons_self, h1⟩
        · obtain ⟨x, hx, hF⟩ := ih bs (k + 1) h2 y i hy'
          exact ⟨x, List.mem_cons_of_mem _ hx, hF⟩

theorem inst_arg (g0 : Gate) (t : TGate) (g : Gate) (h : t.inst g0 = some g) :
    g.name = t.name ∧ g.arg = t.arg.inst g0.arg := by
  unfold TGate.inst at h
  split at h
  · cases h; exact ⟨rfl, rfl⟩
  · cases h

theorem inst_same_arg (a : Ang) : TAng.inst ⟨1, 1, 0⟩ a = a := by
  cases a with
  | mk sym cn cd p8 => simp [TAng.inst]

theorem built_good (kc : Bool) (n : GName) (f : FGate) (hn : f.g.name = n) (hf : labGood f = true)
    (t : TGate) (l : TLab) (hok : tplOK n t l = true) (g : Gate) (hi : t.inst f.g = some g) :
    labGood (built kc f g (l.inst f.lab)) = true := by
  obtain ⟨hname, harg⟩ := inst_arg f.g t g hi
  simp only [tplOK, Bool.and_eq_true, bne_iff_ne, ne_eq] at hok
  obtain ⟨⟨hnp, _⟩, hl⟩ := hok
  simp only [labGood, Bool.and_eq_true, Bool.or_eq_true, bne_iff_ne, ne_eq, Bool.not_eq_true'] at hf ⊢
  refine ⟨?_, Or.inl (by simp only [built]; rw [hname]; exact hnp)⟩
  cases l with
  | none => rfl
  | frac k m =>
    simp only [Bool.and_eq_true, beq_iff_eq] at hl
    simp only [labTrue, built, TLab.inst, harg, TAng.inst, hl.1, if_true, Ang.isFixed, Option.isNone_none,
      Bool.true_or, Bool.true_and, beq_iff_eq]
    exact hl.2
  | inp =>
    simp only [Bool.or_eq_true, beq_iff_eq] at hl
    rcases hl with hl | hl
    · simp only [labTrue, built, TLab.inst, harg, hl, inst_same_arg]
      exact hf.1
    · have hnf : f.lab.isFrac = false := by
        rcases hf.2 with h | h
        · exact absurd (hn.trans hl) h
        · exact h
      simp only [labTrue, built, TLab.inst]
      cases hlab : f.lab with
      | none => rfl
      | user i => rfl
      | frac k m => rw [hlab] at hnf; cases hnf

theorem instBodyF_good (kc : Bool) (f : FGate) (hf : labGood f = true) (body : List TGate) (labs : List TLab)
    (hok : labsOK f.g.name body labs = true) (out : List FGate) (h : instBodyF kc f body labs = some out) :
    ∀ o ∈ out, labGood o = true := by
  unfold instBodyF at h
  cases hi : instBody f.g body with
  | none => simp [hi] at h
  | some gs =>
    simp only [hi, Option.map_some, Option.some.injEq] at h
    subst h
    intro o ho
    simp only [withLabs, List.mem_map] at ho
    obtain ⟨⟨g, i⟩, hp, rfl⟩ := ho
    obtain ⟨t, ht, hF⟩ := mapM_zipIdx (TGate.inst f.g) body gs 0 hi g i hp
    have := List.all_eq_true.mp hok (t, i) ht
    exact built_good kc f.g.name f rfl hf t _ this g hF

/-! ## the stages -/

theorem pauliSubF_good (kc : Bool) (f : FGate) (hf : labGood f = true) :
    (∀ o ∈ (pauliSubF kc f).1, labGood o = true) ∧ labGood (pauliSubF kc f).2 = true := by
  unfold pauliSubF
  split
  · rename_i hn
    refine ⟨?_, ?_⟩
    · intro o ho
      simp only [List.mem_map] at ho
      obtain ⟨m, hm, rfl⟩ := ho
      have : m.name = .GLOBALPHASE := by
        unfold pauliSub at hm
        split at hm
        · simp at hm; rw [hm]
        · split at hm
          · simp at hm; rw [hm]
          · split at hm
            · simp at hm; rw [hm]
            · simp at hm
      simp [labGood, labTrue, built, this]
    · have : (pauliSub f.g).2.name ≠ .PHASEGATE := by
        unfold pauliSub
        rcases hn with h | h | h
        · simp [h]
        · split
          · simp
          · simp [h]
        · split
          · simp
          · split
            · simp
            · simp [h]
      simp [labGood, labTrue, built, this]
  · exact ⟨fun o ho => by simp at ho, hf⟩

theorem dispatchF_good (kc : Bool) (b2 : List GName) (inB : GName → Bool) (f : FGate) (hf : labGood f = true)
    (out : List FGate) (h : dispatchF tables labels kc b2 inB f = .ok out) : ∀ o ∈ out, labGood o = true := by
  have self : ∀ o ∈ [f], labGood o = true := by intro o ho; simp at ho; rw [ho]; exact hf
  unfold dispatchF at h
  split at h
  · cases h; exact self
  · split at h
    · cases h; exact self
    · split at h
      · cases h; exact self
      · cases h
      · split at h
        · cases h; exact self
        · cases h
      · rename_i body hr
        split at h
        · rename_i gs hi
          cases h
          exact instBodyF_good kc f hf body _ (gateLab_ok f.g.name body hr) _ hi
        · cases h

theorem resolveAllF_good (kc : Bool) (b2 : List GName) (inB : GName → Bool) (fs : List FGate) :
    ∀ (P R : List FGate), (∀ f ∈ fs, labGood f = true) →
      resolveAllF tables labels kc b2 inB fs = .ok (P, R) →
      (∀ o ∈ P, labGood o = true) ∧ ∀ o ∈ R, labGood o = true := by
  induction fs with
  | nil =>
    intro P R _ h
    simp only [resolveAllF, Except.ok.injEq, Prod.mk.injEq] at h
    obtain ⟨rfl, rfl⟩ := h
    exact ⟨by simp, by simp⟩
  | cons f fs ih =>
    intro P R hg h
    unfold resolveAllF at h
    cases h1 : resolveOneF tables labels kc b2 inB f with
    | error e => simp [h1] at h
    | ok pr =>
      obtain ⟨p, r⟩ := pr
      cases h2 : resolveAllF tables labels kc b2 inB fs with
      | error e => simp [h1, h2] at h
      | ok prs =>
        obtain ⟨ps, rs⟩ := prs
        simp only [h1, h2, Except.ok.injEq, Prod.mk.injEq] at h
        obtain ⟨rfl, rfl⟩ := h
        obtain ⟨ihp, ihr⟩ := ih ps rs (fun x hx => hg x (List.mem_cons_of_mem _ hx)) h2
        have hf := hg f List.mem_cons_self
        obtain ⟨hm, h2'⟩ := pauliSubF_good kc f hf
        unfold resolveOneF at h1
        split at h1
        · rename_i o hd
          have hr := dispatchF_good kc b2 inB _ h2' o hd
          cases h1
          refine ⟨?_, ?_⟩
          · intro x hx
            rcases List.mem_append.mp hx with h | h
            · exact hm x h
            · exact ihp x h
          · intro x hx
            rcases List.mem_append.mp hx with h | h
            · exact hr x h
            · exact ihr x h
        · cases h1

theorem basisPassF_good (kc : Bool) (y : GName) (fs : List FGate) :
    ∀ out : List FGate, (∀ f ∈ fs, labGood f = true) → basisPassF tables labels kc y fs = .ok out →
      ∀ o ∈ out, labGood o = true := by
  induction fs with
  | nil =>
    intro out _ h
    simp only [basisPassF, Except.ok.injEq] at h
    subst h; simp
  | cons f fs ih =>
    intro out hg h
    unfold basisPassF at h
    cases h1 : basisPassF tables labels kc y fs with
    | error e => simp [h1] at h
    | ok rest =>
      have ihr := ih rest (fun x hx => hg x (List.mem_cons_of_mem _ hx)) h1
      have hf := hg f List.mem_cons_self
      simp only [h1] at h
      have ht : tables.basisRule y f.g.name = basisRule y f.g.name := rfl
      rw [ht] at h
      cases hb : basisRule y f.g.name with
      | none =>
        simp only [hb, Except.ok.injEq] at h
        subst h
        intro o ho
        rcases List.mem_cons.mp ho with rfl | ho'
        · exact hf
        · exact ihr o ho'
      | some body =>
        simp only [hb] at h
        cases hi : instBodyF kc f body (labels.basisLab y f.g.name) with
        | none => simp [hi] at h
        | some o =>
          simp only [hi, Except.ok.injEq] at h
          subst h
          intro x hx
          rcases List.mem_append.mp hx with h | h
          · exact instBodyF_good kc f hf body _ (basisLab_ok y f.g.name body hb).1 _ hi x h
          · exact ihr x h

theorem elim1qF_good (kc : Bool) (b1 : List GName) (f : FGate) (hf : labGood f = true) :
    ∀ o ∈ elim1qF kc b1 f, labGood o = true := by
  intro o ho
  unfold elim1qF at ho
  split at ho
  · rename_i hc
    simp only [labGood, Bool.and_eq_true] at hf
    have key : ∀ (na nb : GName), na ≠ .PHASEGATE → nb ≠ .PHASEGATE →
        o ∈ ([⟨na, f.g.targets, [], .pi8 (-4)⟩, ⟨nb, f.g.targets, [], f.g.arg⟩,
          ⟨na, f.g.targets, [], .pi8 4⟩] : List Gate).zipIdx.map (fun p =>
            built kc f p.1 (if p.2 = 0 then .frac (-1) 2 else if p.2 = 1 then f.lab else .frac 1 2)) →
        labGood o = true := by
      intro na nb h1 h2 hm
      simp only [List.zipIdx_cons, List.zipIdx_nil, List.map_cons, List.map_nil, List.mem_cons,
        List.not_mem_nil, or_false] at hm
      rcases hm with rfl | rfl | rfl
      · simp [labGood, labTrue, built, Ang.pi8, Ang.isFixed, h1]
      · simp only [labGood, built, Bool.and_eq_true, Bool.or_eq_true, bne_iff_ne, ne_eq]
        refine ⟨?_, Or.inl h2⟩
        have := hf.1
        simp only [labTrue] at this ⊢
        exact this
      · simp [labGood, labTrue, built, Ang.pi8, Ang.isFixed, h1]
    rcases hc with ⟨h1, h2⟩ | ⟨h1, h2⟩ | ⟨h1, h2⟩
    · have he : elim1q b1 f.g = [⟨.RY, f.g.targets, [], .pi8 (-4)⟩, ⟨.RZ, f.g.targets, [], f.g.arg⟩,
          ⟨.RY, f.g.targets, [], .pi8 4⟩] := by
        have h2' : GName.RX ∉ b1 := by simpa using h2
        simp [elim1q, h1, h2']
      rw [he] at ho
      exact key .RY .RZ (by decide) (by decide) ho
    · have he : elim1q b1 f.g = [⟨.RZ, f.g.targets, [], .pi8 (-4)⟩, ⟨.RX, f.g.targets, [], f.g.arg⟩,
          ⟨.RZ, f.g.targets, [], .pi8 4⟩] := by
        have h2' : GName.RY ∉ b1 := by simpa using h2
        simp [elim1q, h1, h2']
      rw [he] at ho
      exact key .RZ .RX (by decide) (by decide) ho
    · have he : elim1q b1 f.g = [⟨.RX, f.g.targets, [], .pi8 (-4)⟩, ⟨.RY, f.g.targets, [], f.g.arg⟩,
          ⟨.RX, f.g.targets, [], .pi8 4⟩] := by
        have h2' : GName.RZ ∉ b1 := by simpa using h2
        simp [elim1q, h1, h2']
      rw [he] at ho
      exact key .RX .RY (by decide) (by decide) ho
  · simp at ho; rw [ho]; exact hf

/-- **Labels.**  If every label `kπ/m` of the input says what the angle is, and no PHASEGATE of the input is
labelled that way, every label `kπ/m` of the resolved circuit says what the angle is. -/
theorem resolveF_labels_true (v : FVariant) (b : BasisSpec) (fs out : List FGate)
    (hg : ∀ f ∈ fs, labGood f = true) (h : resolveF tables labels v b fs = .ok out) :
    ∀ o ∈ out, labGood o = true := by
  unfold resolveF at h
  cases hs : splitBasis (normBasis v.exactStr b) with
  | error e => simp [hs] at h
  | ok r =>
    obtain ⟨b1, b2, inB⟩ := r
    simp only [hs] at h
    cases ha : resolveAllF tables labels v.keepCond b2 inB fs with
    | error e => simp [ha] at h
    | ok pr =>
      obtain ⟨markers, temp⟩ := pr
      simp only [ha] at h
      obtain ⟨hm, ht⟩ := resolveAllF_good v.keepCond b2 inB fs markers temp hg ha
      have app : ∀ a b : List FGate, (∀ o ∈ a, labGood o = true) → (∀ o ∈ b, labGood o = true) →
          ∀ o ∈ a ++ b, labGood o = true := by
        intro a b h1 h2 o ho
        rcases List.mem_append.mp ho with h | h
        · exact h1 o h
        · exact h2 o h
      have fin : ∀ o : List FGate, (∀ x ∈ o, labGood x = true) →
          ∀ x ∈ (if b1.length = 2 then o.flatMap (elim1qF v.keepCond b1) else o), labGood x = true := by
        intro o ho
        split
        · intro x hx
          obtain ⟨f, hf, hxf⟩ := List.mem_flatMap.mp hx
          exact elim1qF_good v.keepCond b1 f (ho f hf) x hxf
        · exact ho
      cases hf : List.find? b2.contains [GName.CSIGN, .ISWAP, .SQRTSWAP, .SQRTISWAP] with
      | none =>
        simp only [hf] at h
        cases h
        by_cases hk : v.keepMarkers = true
        · simp only [hk, if_true]; exact fin _ (app _ _ hm ht)
        · have hk' : v.keepMarkers = false := by simpa using hk
          simp only [hk', Bool.false_eq_true, if_false]; exact fin _ ht
      | some y =>
        simp only [hf] at h
        cases hb : basisPassF tables labels v.keepCond y temp with
        | error e => simp [hb] at h
        | ok o =>
          simp only [hb] at h
          cases h
          exact fin _ (app _ _ hm (basisPassF_good v.keepCond y temp o ht hb))

end QipVerif.Decomp
