import QipVerif.Lemmas.CqedReal
/-!
# C18: what the superconducting-qubit compiler model produces (over ℝ), and the index bookkeeping of `zx_coeff`
-/
namespace QipVerif.DevModel
open QipVerif.Dev QipVerif.Gen QipVerif.DevReal

theorem scq_lookup_RX : SCQ.gateCompiler.lookup "RX" = some (.rotation "sx" "omega_single") := by decide
theorem scq_lookup_RY : SCQ.gateCompiler.lookup "RY" = some (.rotation "sy" "omega_single") := by decide
theorem scq_lookup_RZX : SCQ.gateCompiler.lookup "RZX" = some .rzx := by decide
theorem scq_lookup_CNOT : SCQ.gateCompiler.lookup "CNOT" = some .cnot := by decide

theorem scq_get_os (H : SCQ.HW ℝ) : H.get? "omega_single" = some H.raw.omega_single := by
  unfold SCQ.HW.get?; simp

/-- the sampled main quadrature and time list of a Hann pulse: sample `k` is taken at the window time `u_k` -/
theorem scq_hannPulse_eq (n : Nat) (Ω a : ℝ) :
    SCQ.hannPulse Real.pi n Ω a =
      ((linspace (SCQ.windowTmax : ℝ) n).map (fun u => SCQ.pulseCoeff (SCQ.window Real.pi u) Ω a),
       (linspace (SCQ.windowTmax : ℝ) n).map (fun u => SCQ.pulseDur u Ω a)) := rfl

/-- the DRAG instruction for a rotation about `op` on qubit `t` -/
noncomputable def scqDragInstr (g : GateRec ℝ) (op third : String) (neg : Bool) (n t : Nat) (Ω α : ℝ) : Instr ℝ :=
  let c := (SCQ.hannPulse Real.pi n (SCQ.rotMax Ω (SCQ.rotArea Real.pi g.arg)) (SCQ.rotArea Real.pi g.arg)).1
  let tl := (SCQ.hannPulse Real.pi n (SCQ.rotMax Ω (SCQ.rotArea Real.pi g.arg)) (SCQ.rotArea Real.pi g.arg)).2
  let y := (gradient c (tl.getD 1 0 - tl.getD 0 0)).map fun gr => SCQ.dragY (SCQ.dragDt Real.pi gr) α
  ⟨g, false, tl, [⟨op ++ toString t, c.map fun x => SCQ.dragX x α⟩, ⟨"sz" ++ toString t, c.map fun x => SCQ.dragZ x α⟩,
    ⟨third ++ toString t, if neg then y.map (fun v => -v) else y⟩]⟩

theorem scq_rotation_drag_sx (H : SCQ.HW ℝ) (g : GateRec ℝ) (n t : Nat) (rest : List Nat) (Ω α w : ℝ) (hn : 2 ≤ n)
    (ht : g.targets = t :: rest) (hΩ : H.raw.omega_single[t]? = some Ω) (hα : H.raw.alpha[t]? = some α)
    (hw : H.raw.wq[t]? = some w) :
    SCQ.rotation Real.pi H true n g "sx" "omega_single" = .ok (scqDragInstr g "sx" "sy" false n t Ω α) := by
  unfold SCQ.rotation
  have h0 : ((SCQ.hannPulse Real.pi n (SCQ.rotMax Ω (SCQ.rotArea Real.pi g.arg)) (SCQ.rotArea Real.pi g.arg)).2)[0]? = some (((SCQ.hannPulse Real.pi n (SCQ.rotMax Ω (SCQ.rotArea Real.pi g.arg)) (SCQ.rotArea Real.pi g.arg)).2).getD 0 0) := by
    rw [List.getD_eq_getElem?_getD]
    have : 0 < ((SCQ.hannPulse Real.pi n (SCQ.rotMax Ω (SCQ.rotArea Real.pi g.arg)) (SCQ.rotArea Real.pi g.arg)).2).length := by
      simp [scq_hannPulse_eq, linspace]; omega
    rw [List.getElem?_eq_getElem this]; rfl
  have h1 : ((SCQ.hannPulse Real.pi n (SCQ.rotMax Ω (SCQ.rotArea Real.pi g.arg)) (SCQ.rotArea Real.pi g.arg)).2)[1]? = some (((SCQ.hannPulse Real.pi n (SCQ.rotMax Ω (SCQ.rotArea Real.pi g.arg)) (SCQ.rotArea Real.pi g.arg)).2).getD 1 0) := by
    rw [List.getD_eq_getElem?_getD]
    have : 1 < ((SCQ.hannPulse Real.pi n (SCQ.rotMax Ω (SCQ.rotArea Real.pi g.arg)) (SCQ.rotArea Real.pi g.arg)).2).length := by
      simp [scq_hannPulse_eq, linspace]; omega
    rw [List.getElem?_eq_getElem this]; rfl
  simp only [ht, List.head?_cons, scq_get_os, hΩ, hw, hα, if_true]
  rw [h0, h1]
  simp [scqDragInstr]

theorem scq_rotation_drag_sy (H : SCQ.HW ℝ) (g : GateRec ℝ) (n t : Nat) (rest : List Nat) (Ω α w : ℝ) (hn : 2 ≤ n)
    (ht : g.targets = t :: rest) (hΩ : H.raw.omega_single[t]? = some Ω) (hα : H.raw.alpha[t]? = some α)
    (hw : H.raw.wq[t]? = some w) :
    SCQ.rotation Real.pi H true n g "sy" "omega_single" = .ok (scqDragInstr g "sy" "sx" true n t Ω α) := by
  unfold SCQ.rotation
  have h0 : ((SCQ.hannPulse Real.pi n (SCQ.rotMax Ω (SCQ.rotArea Real.pi g.arg)) (SCQ.rotArea Real.pi g.arg)).2)[0]? = some (((SCQ.hannPulse Real.pi n (SCQ.rotMax Ω (SCQ.rotArea Real.pi g.arg)) (SCQ.rotArea Real.pi g.arg)).2).getD 0 0) := by
    rw [List.getD_eq_getElem?_getD]
    have : 0 < ((SCQ.hannPulse Real.pi n (SCQ.rotMax Ω (SCQ.rotArea Real.pi g.arg)) (SCQ.rotArea Real.pi g.arg)).2).length := by
      simp [scq_hannPulse_eq, linspace]; omega
    rw [List.getElem?_eq_getElem this]; rfl
  have h1 : ((SCQ.hannPulse Real.pi n (SCQ.rotMax Ω (SCQ.rotArea Real.pi g.arg)) (SCQ.rotArea Real.pi g.arg)).2)[1]? = some (((SCQ.hannPulse Real.pi n (SCQ.rotMax Ω (SCQ.rotArea Real.pi g.arg)) (SCQ.rotArea Real.pi g.arg)).2).getD 1 0) := by
    rw [List.getD_eq_getElem?_getD]
    have : 1 < ((SCQ.hannPulse Real.pi n (SCQ.rotMax Ω (SCQ.rotArea Real.pi g.arg)) (SCQ.rotArea Real.pi g.arg)).2).length := by
      simp [scq_hannPulse_eq, linspace]; omega
    rw [List.getElem?_eq_getElem this]; rfl
  simp only [ht, List.head?_cons, scq_get_os, hΩ, hw, hα, if_true]
  rw [h0, h1]
  have e1 : ("sy" == "sx") = false := by decide
  simp [scqDragInstr, e1]

/-- the instruction of `rzx_compiler` for the pair `(q1, q2)` with the strength `mx = zx_coeff[rzxIdx q1 q2]` -/
noncomputable def scqRzxInstr (g : GateRec ℝ) (n q1 q2 : Nat) (mx : ℝ) : Instr ℝ :=
  let c := (SCQ.hannPulse Real.pi n mx (SCQ.rzxArea Real.pi g.arg)).1
  let tl := (SCQ.hannPulse Real.pi n mx (SCQ.rzxArea Real.pi g.arg)).2
  ⟨g, false, tl.map (fun t => t * SCQ.rzxRescale Real.pi g.arg),
    [⟨"zx" ++ toString q1 ++ toString q2, c.map (fun x => x * SCQ.rzxRescale Real.pi g.arg)⟩]⟩

theorem scq_rzx_eq (H : SCQ.HW ℝ) (g : GateRec ℝ) (n q1 q2 : Nat) (mx : ℝ) (ht : g.targets = [q1, q2])
    (hm : SCQ.pyIdx? H.zx_coeff (SCQ.rzxIdx (q1 : Int) (q2 : Int)) = some mx) :
    SCQ.rzx Real.pi H n g = .ok (scqRzxInstr g n q1 q2 mx) := by
  unfold SCQ.rzx
  simp only [ht, hm]
  rfl

/-! ## `zx_coeff`: which entry belongs to which (control, target) -/

theorem flatMap_pair_length {β : Type} (f g : Nat → β) (m : Nat) :
    ((List.range m).flatMap fun i => [f i, g i]).length = 2 * m := by
  induction m with
  | zero => simp
  | succ k ihk => rw [List.range_succ, List.flatMap_append, List.length_append, ihk]; simp; omega

theorem flatMap_pair_getElem? {β : Type} (f g : Nat → β) (m i : Nat) (hi : i < m) :
    ((List.range m).flatMap fun i => [f i, g i])[2 * i]? = some (f i) ∧
    ((List.range m).flatMap fun i => [f i, g i])[2 * i + 1]? = some (g i) := by
  induction m with
  | zero => omega
  | succ m ih =>
    have hlen := flatMap_pair_length f g m
    rw [List.range_succ, List.flatMap_append]
    by_cases h : i < m
    · have := ih h
      constructor
      · rw [List.getElem?_append_left (by omega)]; exact this.1
      · rw [List.getElem?_append_left (by omega)]; exact this.2
    · have : i = m := by omega
      subst this
      constructor
      · rw [List.getElem?_append_right (by omega), hlen]; simp
      · rw [List.getElem?_append_right (by omega), hlen]; simp

theorem pyIdx?_natCast {β : Type} (l : List β) (k : Nat) : SCQ.pyIdx? l (k : Int) = l[k]? := by
  unfold SCQ.pyIdx?
  have : ¬ ((k : Int) < 0) := by omega
  simp [this]

/-- the effective ZX strength of the pair `(i, i+1)` driven on `c` with target `t` — the formula of the literature
(`magesan2020effective`): `J·Ω_cr(c)·(1/(ω_c − ω_t + α_c) − 1/(ω_c − ω_t))`, times 2 for the `ZX/4` operator -/
noncomputable def crStrength (P : SCQ.Raw ℝ) (Jl : List ℝ) (i c t : Nat) : ℝ :=
  2 * (getI Jl (i : Int) * getI P.omega_cr (c : Int)
    * (1 / (getI P.wq (c : Int) - getI P.wq (t : Int) + getI P.alpha (c : Int)) - 1 / (getI P.wq (c : Int) - getI P.wq (t : Int))))

theorem zxAt0_eq (P : SCQ.Raw ℝ) (Jl : List ℝ) (N : Int) (i : Nat) :
    SCQ.zxFinal (SCQ.zxAt0 P Jl N (i : Int)) = crStrength P Jl i i (i + 1) := by
  rw [scq_zxFinal_eq]
  unfold crStrength
  show 2 * (getI Jl (i : Int) * getI P.omega_cr (i : Int) * (((1 : ℤ) : ℝ) / ((1 : ℕ) : ℝ) / (getI P.wq (i : Int) - getI P.wq ((i : Int) + 1) + getI P.alpha (i : Int))
    - ((1 : ℤ) : ℝ) / ((1 : ℕ) : ℝ) / (getI P.wq (i : Int) - getI P.wq ((i : Int) + 1)))) = _
  push_cast
  ring_nf

theorem zxAt1_eq (P : SCQ.Raw ℝ) (Jl : List ℝ) (N : Int) (i : Nat) :
    SCQ.zxFinal (SCQ.zxAt1 P Jl N (i : Int)) = crStrength P Jl i (i + 1) i := by
  rw [scq_zxFinal_eq]
  unfold crStrength
  show 2 * (getI Jl (i : Int) * getI P.omega_cr ((i : Int) + 1) * (((1 : ℤ) : ℝ) / ((1 : ℕ) : ℝ) / (getI P.wq ((i : Int) + 1) - getI P.wq (i : Int) + getI P.alpha ((i : Int) + 1))
    - ((1 : ℤ) : ℝ) / ((1 : ℕ) : ℝ) / (getI P.wq ((i : Int) + 1) - getI P.wq (i : Int)))) = _
  push_cast
  ring_nf

/-- **index bookkeeping**, every device size: for the neighbours `i, i+1 < N` the strength `rzx_compiler` reads for
(control `i`, target `i+1`) is the cross-resonance strength with the drive and anharmonicity of qubit `i`, and for
(control `i+1`, target `i`) the one with the drive and anharmonicity of qubit `i+1`. -/
theorem zx_coeff_of_pair (P : SCQ.Raw ℝ) (N i : Nat) (hi : i + 1 < N) :
    SCQ.pyIdx? (SCQ.computeParams P N).zx_coeff (SCQ.rzxIdx (i : Int) ((i + 1 : Nat) : Int))
      = some (crStrength P (SCQ.computeParams P N).J i i (i + 1)) ∧
    SCQ.pyIdx? (SCQ.computeParams P N).zx_coeff (SCQ.rzxIdx ((i + 1 : Nat) : Int) (i : Int))
      = some (crStrength P (SCQ.computeParams P N).J i (i + 1) i) := by
  have him : i < N - 1 := by omega
  have hp := flatMap_pair_getElem? (fun (k : Nat) => SCQ.zxAt0 P (SCQ.computeParams P N).J (N : Int) (k : Int))
    (fun (k : Nat) => SCQ.zxAt1 P (SCQ.computeParams P N).J (N : Int) (k : Int)) (N - 1) i him
  have hz : (SCQ.computeParams P N).zx_coeff =
      ((List.range (N - 1)).flatMap fun (k : Nat) => [SCQ.zxAt0 P (SCQ.computeParams P N).J (N : Int) (k : Int),
        SCQ.zxAt1 P (SCQ.computeParams P N).J (N : Int) (k : Int)]).map SCQ.zxFinal := rfl
  constructor
  · have hidx : SCQ.rzxIdx (i : Int) ((i + 1 : Nat) : Int) = ((2 * i : Nat) : Int) := by
      rw [scq_rzxIdx_eq]; push_cast; simp
    rw [hidx, hz, pyIdx?_natCast, List.getElem?_map, hp.1, Option.map_some, zxAt0_eq]
  · have hidx : SCQ.rzxIdx ((i + 1 : Nat) : Int) (i : Int) = ((2 * i + 1 : Nat) : Int) := by
      rw [scq_rzxIdx_eq]; push_cast
      have : ¬ ((i : Int) + 1 < (i : Int)) := by omega
      simp [this]; ring
    rw [hidx, hz, pyIdx?_natCast, List.getElem?_map, hp.2, Option.map_some, zxAt1_eq]

/-! ## `cnot_compiler` -/

theorem scq_cnotSeq_eq :
    SCQ.cnotSeq Real.pi = [("RX", [.q2], -(Real.pi / 2), true), ("RZX", [.q1, .q2], Real.pi / 2, false),
      ("RX", [.q1], -(Real.pi / 2), true), ("RY", [.q1], -(Real.pi / 2), true), ("RX", [.q1], Real.pi / 2, true)] := by
  unfold SCQ.cnotSeq
  have h1 : (DArith.div (DArith.neg Real.pi) (DArith.ofFrac 2 1 : ℝ)) = -(Real.pi / 2) := by
    show -Real.pi / (((2 : ℤ) : ℝ) / ((1 : ℕ) : ℝ)) = _
    push_cast; ring
  have h2 : (DArith.div Real.pi (DArith.ofFrac 2 1 : ℝ)) = Real.pi / 2 := by
    show Real.pi / (((2 : ℤ) : ℝ) / ((1 : ℕ) : ℝ)) = _
    push_cast; ring
  rw [h1, h2]

/-- **CNOT(control `c`, target `t`)** is compiled, in this order, to `RX(−π/2)` on `t`, `RZX(π/2)` on `(c, t)`,
`RX(−π/2)`, `RY(−π/2)`, `RX(π/2)` on `c` — each through the same compiler methods as a stand-alone gate -/
theorem scq_compile_CNOT (H : SCQ.HW ℝ) (drag : Bool) (n c t : Nat) (θ : ℝ) (i1 i2 i3 i4 i5 : Instr ℝ)
    (h1 : SCQ.rotation Real.pi H drag n ⟨"RX", [t], [], -(Real.pi / 2)⟩ "sx" "omega_single" = .ok i1)
    (h2 : SCQ.rzx Real.pi H n ⟨"RZX", [c, t], [], Real.pi / 2⟩ = .ok i2)
    (h3 : SCQ.rotation Real.pi H drag n ⟨"RX", [c], [], -(Real.pi / 2)⟩ "sx" "omega_single" = .ok i3)
    (h4 : SCQ.rotation Real.pi H drag n ⟨"RY", [c], [], -(Real.pi / 2)⟩ "sy" "omega_single" = .ok i4)
    (h5 : SCQ.rotation Real.pi H drag n ⟨"RX", [c], [], Real.pi / 2⟩ "sx" "omega_single" = .ok i5) :
    SCQ.compileGate Real.pi H drag n ⟨"CNOT", [t], [c], θ⟩ = .ok ([i1, i2, i3, i4, i5], none) := by
  unfold SCQ.compileGate
  simp only [scq_lookup_CNOT, List.head?_cons, scq_cnotSeq_eq]
  simp only [SCQ.cnotSteps, SCQ.refOf, List.map_cons, List.map_nil, scq_lookup_RX, scq_lookup_RY, if_true, h1, h2, h3, h4, h5]
  rfl

end QipVerif.DevModel
