import QipVerif.Lemmas.QasmRoundtrip
import QipVerif.Lemmas.QasmImportW1Den
/-!
# Export then import (C10): circuits WITH emitted gate definitions

For a circuit containing `SWAP`, `SQRTNOT`, `CS`, `CT`, `CRX`, `CRY` the exporter emits `gate` definitions;
the exported program is then a program of the class W₁ of C04 (declarations, definitions the standard
accepts, calls), so C04's theorem for programs with user definitions applies: the re-imported operations
(library gates and user gates `swap`, `crx(θ)`, …) have the unitary of the original circuit up to one
global phase.
-/
namespace QipVerif.Qasm.Export
open QipVerif QipVerif.Qasm QipVerif.Qasm.Import Matrix

/-! ## the emitted definitions -/

/-- side conditions of C04's class for one row of the definition table: the name is not a built-in name of
the importer, no divisor is a literal zero / a bare parameter, the body is not empty, at most one parameter -/
def defSideOk (e : Str × Str) : Bool :=
  match defOf e.1 with
  | some d => !predefined d.name && d.body.all gopDivOk && !(d.body.filter noBarrier).isEmpty &&
      decide (d.params.length ≤ 1)
  | none => true

theorem def_side : Gen.qasmDefns.all defSideOk = true := by decide

/-- the definitions the exporter emits for a circuit, in the order of emission -/
def gdefsOf (c : Circuit) : List GateDef := (addedNames c.ops Gen.gateNameToQasm).filterMap defOf

theorem gdefs_side (c : Circuit) : ∀ d ∈ gdefsOf c, predefined d.name = false ∧ d.body.all gopDivOk = true ∧
    d.body.filter noBarrier ≠ [] ∧ d.params.length ≤ 1 := by
  intro d hd
  obtain ⟨n, _, hdn⟩ := List.mem_filterMap.mp hd
  obtain ⟨s, hs⟩ := defOf_some_lookup hdn
  have hmem := lookup_mem hs
  have := List.all_eq_true.mp def_side (n, s) hmem
  simp only [defSideOk, hdn, Bool.and_eq_true, Bool.not_eq_true', decide_eq_true_eq, List.isEmpty_eq_false_iff] at this
  exact ⟨this.1.1.1, this.1.1.2, this.1.2, this.2⟩

theorem programOf_shape (c : Circuit) :
    programOf c = .version :: .incl cs!"qelib1.inc" ::
      ((.qreg cs!"q" c.N :: (if c.numCbits ≠ 0 then [.creg cs!"c" c.numCbits] else [])) ++
        ((gdefsOf c).map Stmt.gate ++ c.ops.filterMap stmtOfOp)) := by
  simp [programOf, gdefsOf, List.filterMap_map, List.map_filterMap, Function.comp_def]

/-! ## cache keys of the re-imported user gates -/

/-- texts of numbers: digits, `.`, `e`, `E`, `+`, `-`, not starting with `-` (what Python prints for a
finite number, sign removed) -/
def plainNumChar (c : Char) : Bool := isDigit c || c == '.' || c == 'e' || c == 'E' || c == '+' || c == '-'

def PlainNum (s : Str) : Prop := s.all plainNumChar = true ∧ s.head? ≠ some '-'

theorem padBrackets_plain : ∀ s : Str, (∀ c ∈ s, c ≠ '(' ∧ c ≠ ')' ∧ c ≠ '[' ∧ c ≠ ']') → padBrackets s = s := by
  intro s
  induction s with
  | nil => intro _; rfl
  | cons c cs ih =>
    intro h
    obtain ⟨h1, h2, h3, h4⟩ := h c (by simp)
    simp [padBrackets, h1, h2, h3, h4, ih (fun x hx => h x (by simp [hx]))]

theorem stripL_plain (s : Str) (h : s.head? ≠ some ' ') : stripL s = s := by
  cases s with
  | nil => rfl
  | cons c cs =>
    have : c ≠ ' ' := by simpa using h
    unfold stripL
    split
    · rename_i heq; cases heq; exact absurd rfl this
    · rfl

theorem strip_plain (s : Str) (h1 : s.head? ≠ some ' ') (h2 : s.reverse.head? ≠ some ' ') : strip s = s := by
  unfold strip
  rw [stripL_plain s h1, stripL_plain s.reverse h2, List.reverse_reverse]

theorem plain_not_special (c : Char) (h : plainNumChar c = true) :
    c ≠ '(' ∧ c ≠ ')' ∧ c ≠ '[' ∧ c ≠ ']' ∧ c ≠ ' ' := by
  refine ⟨?_, ?_, ?_, ?_, ?_⟩ <;> (rintro rfl; revert h; decide)

/-- the cache key token of an exported number is its text -/
theorem argToken_numExpr (x : Num) (h : PlainNum x.txt) : argToken (numExpr x) = x.str := by
  have hr : (numExpr x).render = x.str := by
    unfold numExpr Num.str
    split <;> simp [Expr.render, Expr.level]
  have hall : ∀ c ∈ x.str, plainNumChar c = true := by
    intro c hc
    unfold Num.str at hc
    split at hc
    · rcases List.mem_cons.mp hc with rfl | hc
      · decide
      · exact List.all_eq_true.mp h.1 c hc
    · exact List.all_eq_true.mp h.1 c hc
  unfold argToken
  rw [hr, padBrackets_plain _ (fun c hc => by
    obtain ⟨a, b, c', d, _⟩ := plain_not_special c (hall c hc); exact ⟨a, b, c', d⟩)]
  apply strip_plain
  · intro hh
    cases hs : x.str with
    | nil => simp [hs] at hh
    | cons a as =>
      rw [hs] at hh
      simp only [List.head?_cons, Option.some.injEq] at hh
      exact (plain_not_special a (hall a (by rw [hs]; simp))).2.2.2.2 hh
  · intro hh
    cases hs : x.str.reverse with
    | nil => simp [hs] at hh
    | cons a as =>
      rw [hs] at hh
      simp only [List.head?_cons, Option.some.injEq] at hh
      have : a ∈ x.str := by
        have : a ∈ x.str.reverse := by rw [hs]; simp
        simpa using this
      exact (plain_not_special a (hall a this)).2.2.2.2 hh

theorem num_str_inj (x y : Num) (hx : PlainNum x.txt) (hy : PlainNum y.txt) (h : x.str = y.str) : x = y := by
  obtain ⟨xn, xt⟩ := x
  obtain ⟨yn, yt⟩ := y
  cases xn <;> cases yn <;> simp only [Num.str, Bool.false_eq_true, if_false, if_true] at h
  · subst h; rfl
  · subst h; exact absurd rfl hx.2
  · subst h; exact absurd rfl hy.2
  · cases h; rfl

theorem numExpr_inj (x y : Num) (h : numExpr x = numExpr y) : x = y := by
  obtain ⟨xn, xt⟩ := x
  obtain ⟨yn, yt⟩ := y
  cases xn <;> cases yn <;> simp only [numExpr, Bool.false_eq_true, if_false, if_true] at h
  · cases h; rfl
  · cases h
  · cases h
  · cases h; rfl

/-- splitting at the first `(` -/
theorem append_paren_inj : ∀ (a a' b b' : Str), (∀ c ∈ a, c ≠ '(') → (∀ c ∈ a', c ≠ '(') →
    a ++ '(' :: b = a' ++ '(' :: b' → a = a' ∧ b = b' := by
  intro a
  induction a with
  | nil =>
    intro a' b b' _ h' h
    cases a' with
    | nil => simpa using h
    | cons x xs =>
      simp only [List.nil_append, List.cons_append, List.cons.injEq] at h
      exact absurd h.1.symm (h' x (by simp))
  | cons x xs ih =>
    intro a' b b' hx h' h
    cases a' with
    | nil =>
      simp only [List.nil_append, List.cons_append, List.cons.injEq] at h
      exact absurd h.1 (hx x (by simp))
    | cons y ys =>
      simp only [List.cons_append, List.cons.injEq] at h
      obtain ⟨rfl, h2⟩ := h
      obtain ⟨rfl, rfl⟩ := ih ys b b' (fun c hc => hx c (by simp [hc])) (fun c hc => h' c (by simp [hc])) h2
      exact ⟨rfl, rfl⟩

/-- the calls of one exported statement -/
def ExpCall (n : Str) (ps : List Expr) : Prop :=
  (∀ c ∈ n, c ≠ '(') ∧ ((ps = []) ∨ ∃ x : Num, PlainNum x.txt ∧ ps = [numExpr x])

theorem expCall_keyInj (C : Str → List Expr → Prop) (hC : ∀ n ps, C n ps → ExpCall n ps) : KeyInj C := by
  intro n ps n' ps' h1 h2 hk
  obtain ⟨hn, hp⟩ := hC n ps h1
  obtain ⟨hn', hp'⟩ := hC n' ps' h2
  rcases hp with rfl | ⟨x, hx, rfl⟩ <;> rcases hp' with rfl | ⟨y, hy, rfl⟩
  · simpa [customName] using hk
  · exfalso
    simp only [customName, List.isEmpty_nil, if_true, List.isEmpty_cons, Bool.false_eq_true, if_false] at hk
    have : '(' ∈ n := by rw [hk]; simp
    exact hn _ this rfl
  · exfalso
    simp only [customName, List.isEmpty_nil, if_true, List.isEmpty_cons, Bool.false_eq_true, if_false] at hk
    have : '(' ∈ n' := by rw [← hk]; simp
    exact hn' _ this rfl
  · simp only [customName, List.isEmpty_cons, Bool.false_eq_true, if_false, List.map_cons, List.map_nil,
      intercal] at hk
    rw [List.append_assoc, List.append_assoc] at hk
    obtain ⟨rfl, h3⟩ := append_paren_inj n n' _ _ hn hn' (by simpa using hk)
    have h4 : argToken (numExpr x) = argToken (numExpr y) := by
      have := congrArg List.reverse h3
      simpa using this
    rw [argToken_numExpr x hx, argToken_numExpr y hy] at h4
    exact ⟨rfl, by rw [num_str_inj x y hx hy h4]⟩

/-! ## the exported program is a program of W₁ -/

theorem shape_np : ∀ e ∈ exportShape, e.2.2.2 ≤ 1 ∨ predefined (qasmName e.1) = true := by decide

theorem isWordStr_no_paren (w : Str) (h : isWordStr w = true) : ∀ c ∈ w, c ≠ '(' := by
  intro c hc hcp
  subst hcp
  cases w with
  | nil => cases hc
  | cons a as =>
    simp only [isWordStr, Bool.and_eq_true] at h
    rcases List.mem_cons.mp hc with rfl | hc
    · exact absurd h.1 (by decide)
    · exact absurd (List.all_eq_true.mp h.2 _ hc) (by decide)

/-- the user-gate calls of an exported statement have one of the two shapes of `ExpCall` -/
theorem stmtOf_expCall {N : Nat} (g : Gate) (hg : GoodGate N g) (hplain : ∀ x ∈ argNums g.arg, PlainNum x.txt)
    (n : Str) (ps : List Expr) (h : callOf (stmtOf g) = some (n, ps)) (hpre : predefined n = false) :
    ExpCall n ps := by
  unfold stmtOf at h
  simp only [] at h
  split at h
  · simp [callOf, callOfOp] at h
  · rename_i hne
    simp only [callOf, callOfOp, Option.some.injEq, Prod.mk.injEq] at h
    obtain ⟨rfl, rfl⟩ := h
    rcases qasmName_facts hg with ⟨hU, _⟩ | ⟨_, _, hw⟩
    · exact absurd (by rw [hU]; decide) hne
    · refine ⟨isWordStr_no_paren _ hw, ?_⟩
      have hlen : (argNums g.arg).length ≤ 1 := by
        rcases shape_np _ (shapeOf_mem hg.shape) with h1 | h1
        · exact h1
        · rw [h1] at hpre; cases hpre
      cases ha : argNums g.arg with
      | nil => left; rfl
      | cons x xs =>
        right
        cases xs with
        | nil => exact ⟨x, hplain x (by rw [ha]; simp), rfl⟩
        | cons y ys => rw [ha] at hlen; simp at hlen

theorem gdefs_few (c : Circuit) (hc : GoodCircuit c) : (gdefsOf c).length ≤ 64 := by
  have h1 : (gdefsOf c).length ≤ (addedNames c.ops Gen.gateNameToQasm).length := List.length_filterMap_le _ _
  have hsub : ∀ n ∈ addedNames c.ops Gen.gateNameToQasm, n ∈ defKeys := by
    intro n hn
    obtain ⟨h0, g, hg, rfl⟩ := addedNames_not_in _ _ n hn
    rcases good_names c hc g hg with h | h
    · rw [h] at h0; cases h0
    · obtain ⟨s, hs⟩ := Option.isSome_iff_exists.mp h
      exact List.mem_map.mpr ⟨(g.name, s), lookup_mem hs, rfl⟩
  have h2 := (List.subperm_of_subset (addedNames_nodup c.ops Gen.gateNameToQasm) hsub).length_le
  have h3 : defKeys.length ≤ 64 := by decide
  omega

theorem programOf_W1 (c : Circuit) (hc : GoodCircuit c) (hN : Gen.emptyRegOk = true ∨ 0 < c.N)
    (hplain : ∀ g, Op.gate g ∈ c.ops → ∀ x ∈ argNums g.arg, PlainNum x.txt) :
    W1 (programOf c) (.qreg cs!"q" c.N :: (if c.numCbits ≠ 0 then [.creg cs!"c" c.numCbits] else []))
      (gdefsOf c) (c.ops.filterMap stmtOfOp) := by
  have hops : ∀ s ∈ c.ops.filterMap stmtOfOp, ∃ g, Op.gate g ∈ c.ops ∧ s = stmtOf g := by
    intro s hs
    obtain ⟨op, hmem, hop⟩ := List.mem_filterMap.mp hs
    cases op with
    | gate g => exact ⟨g, hmem, by simpa [stmtOfOp] using hop.symm⟩
    | _ => simp [stmtOfOp] at hop
  -- the standard accepts the definitions
  have hdefs : DefsOk (gdefsOf c).reverse := by
    have hfl := flatten_programOf c hc
    rw [programOf_shape] at hfl
    have hpre := flatten_prefix c.N c.numCbits
    have hsplit : (Stmt.version :: .incl cs!"qelib1.inc" ::
        ((.qreg cs!"q" c.N :: (if c.numCbits ≠ 0 then [.creg cs!"c" c.numCbits] else [])) ++
          ((gdefsOf c).map Stmt.gate ++ c.ops.filterMap stmtOfOp))) =
        ([.version, .incl cs!"qelib1.inc"] ++
          (.qreg cs!"q" c.N :: (if c.numCbits ≠ 0 then [.creg cs!"c" c.numCbits] else []))) ++
          ((gdefsOf c).map Stmt.gate ++ c.ops.filterMap stmtOfOp) := by simp
    rw [hsplit] at hfl
    obtain ⟨e1, o1, o2, k1, k2, _⟩ := flattenFrom_append_inv hfl
    rw [hpre] at k1
    simp only [Except.ok.injEq, Prod.mk.injEq] at k1
    obtain ⟨rfl, _⟩ := k1
    have := defsOk_of_flatten (gdefsOf c) [] _ _ _ o2 (by simp) trivial
      (fun d hd => ⟨(gdefs_side c d hd).1, (gdefs_side c d hd).2.1⟩) k2
    simpa using this
  refine ⟨programOf_shape c, ?_, ?_, hdefs, gdefs_few c hc, Or.inr (fun d hd => (gdefs_side c d hd).2.2.1), ?_, ?_⟩
  · by_cases hM : c.numCbits = 0
    · rcases hN with hN | hN <;> simp [hM, isDecl, hN]
    · rcases hN with hN | hN <;> simp [hM, isDecl, hN]
  · rw [List.all_eq_true]
    intro s hs
    obtain ⟨g, _, rfl⟩ := hops s hs
    exact isOp_stmtOf g
  · intro s hs e he
    obtain ⟨g, _, rfl⟩ := hops s hs
    exact paramsOf_stmtOf g e he
  · apply expCall_keyInj
    rintro n ps ⟨s, hs, hcall, hpre⟩
    obtain ⟨g, hg, rfl⟩ := hops s hs
    obtain ⟨g', he, hgood⟩ := hc _ hg
    cases he
    exact stmtOf_expCall g hgood (hplain g hg) n ps hcall hpre

/-- **Export, then import: the same unitary — circuits with emitted definitions included.** -/
theorem roundtrip_den_defs (c : Circuit) (hc : GoodCircuit c) (hN : Gen.emptyRegOk = true ∨ 0 < c.N)
    (hplain : ∀ g, Op.gate g ∈ c.ops → ∀ x ∈ argNums g.arg, PlainNum x.txt) :
    ∃ lines P iops A B, exportCore c = .ok lines ∧ parseLines lines = some P ∧
      importProgram P = .ok (c.N, (cregsOf c.numCbits).total, iops) ∧
      denX c.N (c.ops.filterMap xOfOp) = some A ∧ denIOps c.N iops = some B ∧ PhaseEqN B A := by
  obtain ⟨lines, P, ops, A0, B0, h1, h2, h3, h4, h5, h6⟩ := export_den_ops c hc
  have hP : P = programOf c := by
    obtain ⟨lines', k1, k2⟩ := export_parse c hc
    rw [h1] at k1; cases k1
    rw [h2] at k2; cases k2; rfl
  subst hP
  obtain ⟨prims, hp, _⟩ : ∃ prims, opsPrims ops = some prims ∧ denPrims c.N ρ0 prims = some A0 := by
    simp only [denOps] at h4
    cases hpp : opsPrims ops with
    | none => simp [hpp] at h4
    | some prims => exact ⟨prims, rfl, by simpa [hpp] using h4⟩
  have hw := programOf_W1 c hc hN hplain
  have hflat : flatten (programOf c) = .ok (finalEnv c, c.ops.filterMap flatOfOp) := flatten_programOf c hc
  have hk : ∀ s ∈ c.ops.filterMap stmtOfOp, ifRangeOk (finalEnv c) s := by
    intro s hs
    obtain ⟨op, _, hop⟩ := List.mem_filterMap.mp hs
    cases op with
    | gate g =>
      have : s = stmtOf g := by simpa [stmtOfOp] using hop.symm
      subst this
      unfold stmtOf
      simp only []
      split <;> trivial
    | _ => simp [stmtOfOp] at hop
  obtain ⟨sops, iops, hd', hi, hrel⟩ := import_den_w1 _ _ _ _ hw _ _ hflat hk
  have hNq : (finalEnv c).qregs.total = c.N := by simp [finalEnv, qregsOf]
  have hNc : (finalEnv c).cregs.total = (cregsOf c.numCbits).total := rfl
  rw [hNq, hNc] at hd' hi
  rw [hNq] at hrel
  rw [h3] at hd'
  simp only [Except.ok.injEq, Prod.mk.injEq, true_and] at hd'
  subst hd'
  obtain ⟨A1, B1, j1, j2, j3⟩ := segRel1_unitary _ _ _ hrel prims hp
  have hA : A1 = A0 := by
    have : denOps c.N ops = some A1 := by simp [denOps, hp, j1]
    rw [h4] at this; cases this; rfl
  subst hA
  exact ⟨lines, programOf c, iops, B0, B1, h1, h2, hi, h5, j2, PhaseEqN.trans (PhaseEqN.symm j3) h6⟩

end QipVerif.Qasm.Export
