import QipVerif.Lemmas.QasmRoundtrip
import QipVerif.Lemmas.QasmImportW1Den
/-!
# Export then import (C10): circuits WITH emitted gate definitions

For a circuit containing `SWAP`, `SQRTNOT`, `CS`, `CT`, `CRX`, `CRY` the exporter emits `gate` definitions;
the exported program is then a program of the class W₁ of C04 (declarations, definitions the standard
accepts, calls), so C04's theorem for programs with user definitions applies: the re-imported operations
(library gates and user gates `swap`, `crx(θ)`, …) have the unitary of the original circuit up to one
global phase.
-/
namespace QipVerif.Qasm.Export
open QipVerif QipVerif.Qasm QipVerif.Qasm.Import Matrix

/-! ## the emitted definitions -/

/-- side conditions of C04's class for one row of the definition table: the name is not a built-in name of
the importer, no divisor is a literal zero / a bare parameter, the body is not empty, at most one parameter -/
def defSideOk (e : Str × Str) : Bool :=
  match defOf e.1 with
  | some d => !predefined d.name && d.body.all gopDivOk && !(d.body.filter noBarrier).isEmpty &&
      decide (d.params.length ≤ 1)
  | none => true

theorem def_side : Gen.qasmDefns.all defSideOk = true := by decide

/-- the definitions the exporter emits for a circuit, in the order of emission -/
def gdefsOf (c : Circuit) : List GateDef := (addedNames c.ops Gen.gateNameToQasm).filterMap defOf

theorem gdefs_side (c : Circuit) : ∀ d ∈ gdefsOf c, predefined d.name = false ∧ d.body.all gopDivOk = true ∧
    d.body.filter noBarrier ≠ [] ∧ d.params.length ≤ 1 := by
  intro d hd
  obtain ⟨n, _, hdn⟩ := List.mem_filterMap.mp hd
  obtain ⟨s, hs⟩ := defOf_some_lookup hdn
  have hmem := lookup_mem hs
  have := List.all_eq_true.mp def_side (n, s) hmem
  simp only [defSideOk, hdn, Bool.and_eq_true, Bool.not_eq_true', decide_eq_true_eq, List.isEmpty_eq_false_iff] at this
  exact ⟨this.1.1.1, this.1.1.2, this.1.2, this.2⟩

theorem programOf_shape (c : Circuit) :
    programOf c = .version :: .incl cs!"qelib1.inc" ::
      ((.qreg cs!"q" c.N :: (if c.numCbits ≠ 0 then [.creg cs!"c" c.numCbits] else [])) ++
        ((gdefsOf c).map Stmt.gate ++ c.ops.filterMap stmtOfOp)) := by
  simp [programOf, gdefsOf, List.filterMap_map, List.map_filterMap, Function.comp_def]

/-! ## the exported program is a program of W₁ -/

theorem exprWf_numExpr (x : Num) (h : isNumToken x.txt = true) : ExprWf (numExpr x) = true := by
  unfold numExpr
  split <;> simpa [ExprWf] using h

/-- the calls of an exported statement: the name is an identifier, the parameters are numeric tokens -/
theorem stmtOf_wf {N : Nat} (g : Gate) (hg : GoodGate N g) (n : Str) (ps : List Expr)
    (h : callOf (stmtOf g) = some (n, ps)) : isIdent n = true ∧ ∀ e ∈ ps, ExprWf e = true := by
  unfold stmtOf at h
  simp only [] at h
  split at h
  · simp [callOf, callOfOp] at h
  · rename_i hne
    simp only [callOf, callOfOp, Option.some.injEq, Prod.mk.injEq] at h
    obtain ⟨rfl, rfl⟩ := h
    rcases qasmName_facts hg with ⟨hU, _⟩ | ⟨_, hid, hw⟩
    · exact absurd (by rw [hU]; decide) hne
    · refine ⟨by simp [isIdent, hid, hw], ?_⟩
      intro e he
      obtain ⟨x, hx, rfl⟩ := List.mem_map.mp he
      exact exprWf_numExpr x (hg.nums x hx)

theorem gdefs_few (c : Circuit) (hc : GoodCircuit c) : (gdefsOf c).length ≤ 64 := by
  have h1 : (gdefsOf c).length ≤ (addedNames c.ops Gen.gateNameToQasm).length := List.length_filterMap_le _ _
  have hsub : ∀ n ∈ addedNames c.ops Gen.gateNameToQasm, n ∈ defKeys := by
    intro n hn
    obtain ⟨h0, g, hg, rfl⟩ := addedNames_not_in _ _ n hn
    rcases good_names c hc g hg with h | h
    · rw [h] at h0; cases h0
    · obtain ⟨s, hs⟩ := Option.isSome_iff_exists.mp h
      exact List.mem_map.mpr ⟨(g.name, s), lookup_mem hs, rfl⟩
  have h2 := (List.subperm_of_subset (addedNames_nodup c.ops Gen.gateNameToQasm) hsub).length_le
  have h3 : defKeys.length ≤ 64 := by decide
  omega

theorem programOf_W1 (c : Circuit) (hc : GoodCircuit c) (hN : Gen.emptyRegOk = true ∨ 0 < c.N) :
    W1 (programOf c) (.qreg cs!"q" c.N :: (if c.numCbits ≠ 0 then [.creg cs!"c" c.numCbits] else []))
      (gdefsOf c) (c.ops.filterMap stmtOfOp) := by
  have hops : ∀ s ∈ c.ops.filterMap stmtOfOp, ∃ g, Op.gate g ∈ c.ops ∧ s = stmtOf g := by
    intro s hs
    obtain ⟨op, hmem, hop⟩ := List.mem_filterMap.mp hs
    cases op with
    | gate g => exact ⟨g, hmem, by simpa [stmtOfOp] using hop.symm⟩
    | _ => simp [stmtOfOp] at hop
  -- the standard accepts the definitions
  have hdefs : DefsOk (gdefsOf c).reverse := by
    have hfl := flatten_programOf c hc
    rw [programOf_shape] at hfl
    have hpre := flatten_prefix c.N c.numCbits
    have hsplit : (Stmt.version :: .incl cs!"qelib1.inc" ::
        ((.qreg cs!"q" c.N :: (if c.numCbits ≠ 0 then [.creg cs!"c" c.numCbits] else [])) ++
          ((gdefsOf c).map Stmt.gate ++ c.ops.filterMap stmtOfOp))) =
        ([.version, .incl cs!"qelib1.inc"] ++
          (.qreg cs!"q" c.N :: (if c.numCbits ≠ 0 then [.creg cs!"c" c.numCbits] else []))) ++
          ((gdefsOf c).map Stmt.gate ++ c.ops.filterMap stmtOfOp) := by simp
    rw [hsplit] at hfl
    obtain ⟨e1, o1, o2, k1, k2, _⟩ := flattenFrom_append_inv hfl
    rw [hpre] at k1
    simp only [Except.ok.injEq, Prod.mk.injEq] at k1
    obtain ⟨rfl, _⟩ := k1
    have := defsOk_of_flatten (gdefsOf c) [] _ _ _ o2 (by simp) trivial
      (fun d hd => ⟨(gdefs_side c d hd).1, (gdefs_side c d hd).2.1⟩) k2
    simpa using this
  refine ⟨programOf_shape c, ?_, ?_, hdefs, gdefs_few c hc, Or.inr (fun d hd => (gdefs_side c d hd).2.2.1), ?_, ?_⟩
  · by_cases hM : c.numCbits = 0
    · rcases hN with hN | hN <;> simp [hM, isDecl, hN]
    · rcases hN with hN | hN <;> simp [hM, isDecl, hN]
  · rw [List.all_eq_true]
    intro s hs
    obtain ⟨g, _, rfl⟩ := hops s hs
    exact isOp_stmtOf g
  · intro s hs e he
    obtain ⟨g, _, rfl⟩ := hops s hs
    exact paramsOf_stmtOf g e he
  · intro s hs n ps hcall _
    obtain ⟨g, hg, rfl⟩ := hops s hs
    obtain ⟨g', he, hgood⟩ := hc _ hg
    cases he
    exact stmtOf_wf g hgood n ps hcall

/-- **Export, then import: the same unitary — circuits with emitted definitions included.** -/
theorem roundtrip_den_defs (c : Circuit) (hc : GoodCircuit c) (hN : Gen.emptyRegOk = true ∨ 0 < c.N) :
    ∃ lines P iops A B, exportCore c = .ok lines ∧ parseLines lines = some P ∧
      importProgram P = .ok (c.N, (cregsOf c.numCbits).total, iops) ∧
      denX c.N (c.ops.filterMap xOfOp) = some A ∧ denIOps c.N iops = some B ∧ PhaseEqN B A := by
  obtain ⟨lines, P, ops, A0, B0, h1, h2, h3, h4, h5, h6⟩ := export_den_ops c hc
  have hP : P = programOf c := by
    obtain ⟨lines', k1, k2⟩ := export_parse c hc
    rw [h1] at k1; cases k1
    rw [h2] at k2; cases k2; rfl
  subst hP
  obtain ⟨prims, hp, _⟩ : ∃ prims, opsPrims ops = some prims ∧ denPrims c.N ρ0 prims = some A0 := by
    simp only [denOps] at h4
    cases hpp : opsPrims ops with
    | none => simp [hpp] at h4
    | some prims => exact ⟨prims, rfl, by simpa [hpp] using h4⟩
  have hw := programOf_W1 c hc hN
  have hflat : flatten (programOf c) = .ok (finalEnv c, c.ops.filterMap flatOfOp) := flatten_programOf c hc
  have hk : ∀ s ∈ c.ops.filterMap stmtOfOp, ifRangeOk (finalEnv c) s := by
    intro s hs
    obtain ⟨op, _, hop⟩ := List.mem_filterMap.mp hs
    cases op with
    | gate g =>
      have : s = stmtOf g := by simpa [stmtOfOp] using hop.symm
      subst this
      unfold stmtOf
      simp only []
      split <;> trivial
    | _ => simp [stmtOfOp] at hop
  obtain ⟨sops, iops, hd', hi, hrel⟩ := import_den_w1 _ _ _ _ hw _ _ hflat hk
  have hNq : (finalEnv c).qregs.total = c.N := by simp [finalEnv, qregsOf]
  have hNc : (finalEnv c).cregs.total = (cregsOf c.numCbits).total := rfl
  rw [hNq, hNc] at hd' hi
  rw [hNq] at hrel
  rw [h3] at hd'
  simp only [Except.ok.injEq, Prod.mk.injEq, true_and] at hd'
  subst hd'
  obtain ⟨A1, B1, j1, j2, j3⟩ := segRel1_unitary _ _ _ hrel prims hp
  have hA : A1 = A0 := by
    have : denOps c.N ops = some A1 := by simp [denOps, hp, j1]
    rw [h4] at this; cases this; rfl
  subst hA
  exact ⟨lines, programOf c, iops, B0, B1, h1, h2, hi, h5, j2, PhaseEqN.trans (PhaseEqN.symm j3) h6⟩

end QipVerif.Qasm.Export
